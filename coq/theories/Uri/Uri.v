(* Type URIs.
   uri            = Language.uri                 transforge/lang.py:81-106
   shorten        = namespace.shorten            transforge/namespace.py:17-26
   parse_type_uri = Language.parse_type_uri      transforge/lang.py:344-363
   [dec]/[parse_type_uri] describe the code WITH the repair proposed in
   proposed_fixes/C14.diff (the decoded types are used as a stack);
   [dec_pinned]/[parse_type_uri_pinned] describe the pinned code. *)
From Coq Require Import List Arith Bool Lia.
Import ListNotations.
From TF Require Import Base.Hier Base.Ty Parse.Lang Parse.TypeText.

(* TF = Namespace('https://github.com/quangis/transforge#') *)
Definition TFns : list nat :=
  [104; 116; 116; 112; 115; 58; 47; 47; 103; 105; 116; 104; 117; 98; 46; 99; 111; 109; 47;
   113; 117; 97; 110; 103; 105; 115; 47; 116; 114; 97; 110; 115; 102; 111; 114; 103; 101; 35].

Definition c_dash := 45.
Definition c_hash := 35.
Definition c_slash := 47.

(* x.text(sep="-", lparen="-", rparen="", prod=""), arrow keeps its default *)
Definition uri_text (L : lang) : ty -> list nat :=
  text L [c_dash] [c_dash] [] [32; 42; 42; 32] [].

Definition canon_mem (t : ty) (canon : list ty) : bool := existsb (ty_eqb t) canon.

(* Language.uri on a concrete type; None = NonCanonicalTypeError *)
Definition uri (L : lang) (ns : list nat) (canon : list ty) (t : ty) : option (list nat) :=
  match t with
  | TOp o _ =>
      if op_arity L o =? 0 then Some ((if o <? 5 then TFns else ns) ++ op_name L o)
      else if canon_mem t canon then Some (ns ++ uri_text L t)
      else None
  end.

(* Language.uri on an operator: a type operator (by id) or a transformation
   operator (by index in Language.operators) *)
Inductive opref := OTy (o : nat) | OOp (j : nat).

Definition uri_op (L : lang) (ns : list nat) (x : opref) : list nat :=
  match x with
  | OTy o => (if o <? 5 then TFns else ns) ++ op_name L o
  | OOp j => ns ++ nth j (l_ops L) []
  end.

(* str.split(c) *)
Fixpoint split_on (c : nat) (s : list nat) : list (list nat) :=
  match s with
  | [] => [[]]
  | x :: r =>
      if x =? c then [] :: split_on c r
      else match split_on c r with
           | [] => [[x]]
           | h :: t => (x :: h) :: t
           end
  end.

Definition last_seg (c : nat) (s : list nat) : list nat := last (split_on c s) [].

(* namespace.shorten on the string of a URI *)
Definition shorten (s : list nat) : list nat :=
  let l := last_seg c_hash s in
  let l' := if name_eqb l s then last_seg c_slash s else l in
  if is_nil l' then s else l'.

Inductive uerr := UKey | UAssert.
Inductive ures (A : Type) := UOk (a : A) | UErr (e : uerr).
Arguments UOk {A} a.
Arguments UErr {A} e.

(* lang.py:348-354: built-ins by name first, then self.types[x] (KeyError) *)
Definition resolve_name (L : lang) (n : name) : option nat :=
  if name_eqb n n_Unit then Some Unit
  else if name_eqb n n_Top then Some Top
  else if name_eqb n n_Bottom then Some Bottom
  else if name_eqb n n_Product then Some Product
  else if name_eqb n n_Function then Some Function
  else match find_idx n (l_types L) 5 with Some (o, _) => Some o | None => None end.

Fixpoint resolve_all (L : lang) (ns : list name) : option (list nat) :=
  match ns with
  | [] => Some []
  | n :: r => match resolve_name L n with
              | Some o => match resolve_all L r with Some os => Some (o :: os) | None => None end
              | None => None
              end
  end.

(* lang.py:355-363.  [rops] is the operator list in the order it is popped
   (right to left); [types] is the Python list, first element first. *)
Fixpoint dec (L : lang) (rops : list nat) (types : list ty) : ures ty :=
  match rops with
  | [] => match types with [t] => UOk t | _ => UErr UAssert end
  | o :: r =>
      let k := op_arity L o in
      if length types <? k then UErr UAssert
      else let n := length types - k in
           dec L r (firstn n types ++ [TOp o (rev (skipn n types))])
  end.

(* the pinned loop body: parameters are taken from the FRONT of the list *)
Fixpoint dec_pinned (L : lang) (rops : list nat) (types : list ty) : ures ty :=
  match rops with
  | [] => match types with [t] => UOk t | _ => UErr UAssert end
  | o :: r =>
      let k := op_arity L o in
      if length types <? k then UErr UAssert
      else dec_pinned L r (skipn k types ++ [TOp o (rev (firstn k types))])
  end.

Definition parse_type_uri_with (d : lang -> list nat -> list ty -> ures ty)
    (L : lang) (s : list nat) : ures ty :=
  match resolve_all L (split_on c_dash (shorten s)) with
  | Some ops => d L (rev ops) []
  | None => UErr UKey
  end.

Definition parse_type_uri := parse_type_uri_with dec.
Definition parse_type_uri_pinned := parse_type_uri_with dec_pinned.

(* ------------------------------------------------------------------ *)
(* conditions *)

(* prefix list of operators of a type *)
Fixpoint pre (t : ty) : list nat :=
  match t with TOp o args => o :: flat_map pre args end.

(* types that have URIs decodable by name: Top, Bottom, Unit, products and the
   language's operators with the right number of parameters; no Function *)
Fixpoint uri_domb (L : lang) (t : ty) : bool :=
  match t with
  | TOp o args =>
      ( (o <? 3) && (length args =? 0)
        || (o =? Product) && (length args =? 2)
        || (5 <=? o) && match nth_error (l_types L) (o - 5) with
                        | Some (_, a) => length args =? a
                        | None => false
                        end )
      && forallb (uri_domb L) args
  end.

Definition nochar (c : nat) (n : name) : bool := forallb (fun x => negb (x =? c)) n.

(* a name usable in URIs: non-empty, without '-', '#', '/', and not the name
   of a built-in type operator *)
Definition uri_nameb (n : name) : bool :=
  negb (is_nil n) && nochar c_dash n && nochar c_hash n && nochar c_slash n
  && negb (existsb (name_eqb n) builtin_names).

Definition lang_uri_okb (L : lang) : bool :=
  nodupb (all_names L) && forallb uri_nameb (all_names L).

(* a namespace ends in '#', or contains no '#' and ends in '/' *)
Definition wf_nsb (ns : list nat) : bool :=
  match rev ns with
  | c :: _ => (c =? c_hash) || (c =? c_slash) && nochar c_hash ns
  | [] => false
  end.

Definition opref_okb (L : lang) (x : opref) : bool :=
  match x with
  | OTy o => (o <? 5 + length (l_types L))
  | OOp j => (j <? length (l_ops L))
  end.
