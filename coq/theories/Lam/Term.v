(* Expression trees of transforge/expr.py as lambda terms.

   Operation (expr.py:325)   -> Op o      o = index of the operator in the language
   Source    (expr.py:336)   -> Src s     s = identity of the source object
   Variable  (expr.py:382)   -> Var i     de Bruijn index of the binding parameter
   Application (expr.py:343) -> App f x
   Abstraction (expr.py:361) -> Lam b     an n-ary abstraction  λx1..xn. b  is
                                          Lam (.. (Lam b)); normalize() keeps
                                          abstractions merged and never leaves
                                          a parameterless one (expr.py:216-222),
                                          so nested unary binders lose nothing.

   Substitution is capture-avoiding parallel substitution on de Bruijn terms
   (renamings [ren], substitutions [sub]); all laws are proved pointwise, no
   functional extensionality. *)
From Coq Require Import List Arith Bool Lia.
Import ListNotations.

Inductive tm : Type :=
| Op (o : nat)
| Src (s : nat)
| Var (i : nat)
| App (f x : tm)
| Lam (b : tm).

Definition upr (xi : nat -> nat) : nat -> nat :=
  fun i => match i with 0 => 0 | S j => S (xi j) end.

Fixpoint ren (xi : nat -> nat) (t : tm) : tm :=
  match t with
  | Var i => Var (xi i)
  | App f x => App (ren xi f) (ren xi x)
  | Lam b => Lam (ren (upr xi) b)
  | Op o => Op o
  | Src s => Src s
  end.

Definition up (sg : nat -> tm) : nat -> tm :=
  fun i => match i with 0 => Var 0 | S j => ren S (sg j) end.

Fixpoint sub (sg : nat -> tm) (t : tm) : tm :=
  match t with
  | Var i => sg i
  | App f x => App (sub sg f) (sub sg x)
  | Lam b => Lam (sub (up sg) b)
  | Op o => Op o
  | Src s => Src s
  end.

Definition scons (u : tm) (sg : nat -> tm) : nat -> tm :=
  fun i => match i with 0 => u | S j => sg j end.

(* b[u/0]: the body of an abstraction with its first parameter replaced *)
Definition subst1 (b u : tm) : tm := sub (scons u Var) b.

Lemma ren_ext t : forall xi zeta, (forall i, xi i = zeta i) -> ren xi t = ren zeta t.
Proof.
  induction t as [o|s|i|f IHf x IHx|b IHb]; intros xi zeta E; cbn [ren]; try reflexivity.
  - now rewrite E.
  - now rewrite (IHf _ _ E), (IHx _ _ E).
  - f_equal. apply IHb. intros [|j]; cbn [upr]; auto.
Qed.

Lemma sub_ext t : forall sg tau, (forall i, sg i = tau i) -> sub sg t = sub tau t.
Proof.
  induction t as [o|s|i|f IHf x IHx|b IHb]; intros sg tau E; cbn [sub]; try reflexivity.
  - apply E.
  - now rewrite (IHf _ _ E), (IHx _ _ E).
  - f_equal. apply IHb. intros [|j]; cbn [up]; auto. now rewrite E.
Qed.

Lemma ren_id t : forall xi, (forall i, xi i = i) -> ren xi t = t.
Proof.
  induction t as [o|s|i|f IHf x IHx|b IHb]; intros xi E; cbn [ren]; try reflexivity.
  - now rewrite E.
  - now rewrite (IHf _ E), (IHx _ E).
  - f_equal. apply IHb. intros [|j]; cbn [upr]; auto.
Qed.

Lemma sub_id t : forall sg, (forall i, sg i = Var i) -> sub sg t = t.
Proof.
  induction t as [o|s|i|f IHf x IHx|b IHb]; intros sg E; cbn [sub]; try reflexivity.
  - apply E.
  - now rewrite (IHf _ E), (IHx _ E).
  - f_equal. apply IHb. intros [|j]; cbn [up]; auto. now rewrite E.
Qed.

Lemma ren_ren t : forall xi zeta, ren xi (ren zeta t) = ren (fun i => xi (zeta i)) t.
Proof.
  induction t as [o|s|i|f IHf x IHx|b IHb]; intros xi zeta; cbn [ren]; try reflexivity.
  - now rewrite IHf, IHx.
  - f_equal. rewrite IHb. apply ren_ext. intros [|j]; reflexivity.
Qed.

Lemma sub_ren t : forall sg xi, sub sg (ren xi t) = sub (fun i => sg (xi i)) t.
Proof.
  induction t as [o|s|i|f IHf x IHx|b IHb]; intros sg xi; cbn [ren sub]; try reflexivity.
  - now rewrite IHf, IHx.
  - f_equal. rewrite IHb. apply sub_ext. intros [|j]; reflexivity.
Qed.

Lemma ren_sub t : forall xi sg, ren xi (sub sg t) = sub (fun i => ren xi (sg i)) t.
Proof.
  induction t as [o|s|i|f IHf x IHx|b IHb]; intros xi sg; cbn [ren sub]; try reflexivity.
  - now rewrite IHf, IHx.
  - f_equal. rewrite IHb. apply sub_ext. intros [|j]; cbn [up upr ren]; auto.
    rewrite !ren_ren. apply ren_ext. reflexivity.
Qed.

Lemma sub_sub t : forall sg tau, sub sg (sub tau t) = sub (fun i => sub sg (tau i)) t.
Proof.
  induction t as [o|s|i|f IHf x IHx|b IHb]; intros sg tau; cbn [sub]; try reflexivity.
  - now rewrite IHf, IHx.
  - f_equal. rewrite IHb. apply sub_ext. intros [|j]; cbn [up sub]; auto.
    rewrite sub_ren, ren_sub. apply sub_ext. reflexivity.
Qed.

Lemma ren_as_sub t : forall xi, ren xi t = sub (fun i => Var (xi i)) t.
Proof.
  induction t as [o|s|i|f IHf x IHx|b IHb]; intros xi; cbn [ren sub]; try reflexivity.
  - now rewrite IHf, IHx.
  - f_equal. rewrite IHb. apply sub_ext. intros [|j]; reflexivity.
Qed.

(* substitution commutes with instantiating the first parameter *)
Lemma sub_subst1 sg b u : sub sg (subst1 b u) = subst1 (sub (up sg) b) (sub sg u).
Proof.
  unfold subst1. rewrite !sub_sub. apply sub_ext. intros [|j]; cbn [scons up sub]; auto.
  rewrite sub_ren. symmetry. apply sub_id. reflexivity.
Qed.

Lemma ren_subst1 xi b u : ren xi (subst1 b u) = subst1 (ren (upr xi) b) (ren xi u).
Proof.
  unfold subst1. rewrite ren_sub, sub_ren. apply sub_ext. intros [|j]; reflexivity.
Qed.

(* ---- closed terms ---------------------------------------------------- *)

(* all free variables are below k *)
Fixpoint closed_at (k : nat) (t : tm) : bool :=
  match t with
  | Var i => Nat.ltb i k
  | App f x => closed_at k f && closed_at k x
  | Lam b => closed_at (S k) b
  | _ => true
  end.

Definition closed (t : tm) : Prop := closed_at 0 t = true.

Lemma sub_closed_at t : forall k sg, closed_at k t = true ->
  (forall i, i < k -> sg i = Var i) -> sub sg t = t.
Proof.
  induction t as [o|s|i|f IHf x IHx|b IHb]; intros k sg C E; cbn [sub closed_at] in *; try reflexivity.
  - apply E. now apply Nat.ltb_lt.
  - apply andb_true_iff in C. destruct C as [Cf Cx].
    now rewrite (IHf _ _ Cf E), (IHx _ _ Cx E).
  - f_equal. apply (IHb (S k)); auto.
    intros [|j] Hj; cbn [up]; auto. rewrite E by lia. reflexivity.
Qed.

Lemma sub_closed t sg : closed t -> sub sg t = t.
Proof. intros C. apply (sub_closed_at t 0); auto. intros i Hi. lia. Qed.

Lemma ren_closed t xi : closed t -> ren xi t = t.
Proof. intros C. rewrite ren_as_sub. now apply sub_closed. Qed.

Lemma closed_at_mono t : forall k k', k <= k' -> closed_at k t = true -> closed_at k' t = true.
Proof.
  induction t as [o|s|i|f IHf x IHx|b IHb]; intros k k' Hle C; cbn [closed_at] in *; try reflexivity.
  - apply Nat.ltb_lt in C. apply Nat.ltb_lt. lia.
  - apply andb_true_iff in C. destruct C. apply andb_true_iff. eauto.
  - apply (IHb (S k)); auto. lia.
Qed.

(* ---- measures and serialisation --------------------------------------- *)

Fixpoint depth (t : tm) : nat :=
  match t with
  | App f x => S (Nat.max (depth f) (depth x))
  | Lam b => S (depth b)
  | _ => 0
  end.

Fixpoint tm_eqb (a b : tm) : bool :=
  match a, b with
  | Op x, Op y => Nat.eqb x y
  | Src x, Src y => Nat.eqb x y
  | Var x, Var y => Nat.eqb x y
  | App f x, App g y => tm_eqb f g && tm_eqb x y
  | Lam x, Lam y => tm_eqb x y
  | _, _ => false
  end.

Lemma tm_eqb_eq a : forall b, tm_eqb a b = true <-> a = b.
Proof.
  induction a as [o|s|i|f IHf x IHx|c IHc]; intros [o'|s'|i'|f' x'|c']; cbn [tm_eqb];
    try (split; [discriminate | intros [=]]; fail);
    try (rewrite Nat.eqb_eq; split; [now intros -> | now intros [= ->]]).
  - rewrite andb_true_iff, IHf, IHx. split; [now intros [-> ->] | now intros [= -> ->]].
  - rewrite IHc. split; [now intros -> | now intros [= ->]].
Qed.

(* prefix code used to print model results *)
Fixpoint tm_enc (t : tm) : list nat :=
  match t with
  | Op o => [0; o]
  | Src s => [1; s]
  | Var i => [2; i]
  | App f x => 3 :: tm_enc f ++ tm_enc x
  | Lam b => 4 :: tm_enc b
  end.
