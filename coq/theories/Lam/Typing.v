(* The typed half of C15, for the declarative type discipline that the
   inference engine implements on concrete types: simple types over the
   hierarchy ([ty], Function = a ** b) with subsumption along the subtype
   order [Sub] of C01.

   An operator has a set of types [opty o] - the instances of its declared
   type (Operation.__init__, expr.py:328-333: operator.type.instance()); a
   source has the type it was created with.  "The language validates"
   (Operator.validate, expr.py:106-121: the declared type is no more general
   than the type inferred from the definition) is rendered as: every instance
   of the declared type is a type of the body.

   Proved: subject reduction for δβ - expanding never loses a type, so the
   least type can only go down ("the same or a more specific type"), and a
   well-typed use of a composite operator can be replaced by its definition
   at the type of the use ("expands without a type error").
   Not proved here: that transforge's unification-based inference accepts
   exactly this discipline (that is C03/C04); the harness checks the typed
   claims on the implementation's own types. *)
From Coq Require Import List Arith Bool Lia.
Import ListNotations.
From TF Require Import Base.Hier Base.Ty Sub.SubSpec Lam.Term Lam.Primitive.

Definition arrow (a b : ty) : ty := TOp Function [a; b].

Section Typing.
Variable H : hier.
Hypothesis W : wf_hier H.
Variable L : lang.
Variable opty : nat -> ty -> Prop.
Variable srcty : nat -> ty -> Prop.

Inductive has_ty (G : list ty) : tm -> ty -> Prop :=
| T_Var i T : nth_error G i = Some T -> has_ty G (Var i) T
| T_Src s T : srcty s T -> has_ty G (Src s) T
| T_Op o T : opty o T -> has_ty G (Op o) T
| T_App f x A B : has_ty G f (arrow A B) -> has_ty G x A -> has_ty G (App f x) B
| T_Lam b A B : has_ty (A :: G) b B -> has_ty G (Lam b) (arrow A B)
| T_Sub e S T : has_ty G e S -> Sub H S T -> has_ty G e T.

(* reflexive closure, so that no well-formedness side conditions on types
   are needed (Sub is reflexive on well-formed types only) *)
Definition Sub' (s t : ty) : Prop := s = t \/ Sub H s t.

Lemma Sub'_trans s t u : Sub' s t -> Sub' t u -> Sub' s u.
Proof.
  intros [->|A] [->|B]; unfold Sub'; auto. right. eapply Sub_trans; eauto.
Qed.

Lemma has_ty_Sub' G e S T : has_ty G e S -> Sub' S T -> has_ty G e T.
Proof. intros A [->|B]; eauto using has_ty. Qed.

Lemma Sub_arrow_inv a b a' b' : Sub H (arrow a b) (arrow a' b') -> Sub H a' a /\ Sub H b b'.
Proof.
  unfold arrow. intros S. inversion S as [t|t|o o' Vo A|o xs ys Vo AR]; subst.
  rewrite (wf_fun H W) in AR.
  inversion AR as [| |vs x y xs' ys' R1 AR1]; subst.
  inversion AR1 as [|vs x2 y2 xs2 ys2 R2 AR2|]; subst.
  auto.
Qed.

Lemma Sub'_arrow_inv a b a' b' : Sub' (arrow a b) (arrow a' b') -> Sub' a' a /\ Sub' b b'.
Proof.
  intros [E|S].
  - injection E as -> ->. unfold Sub'; auto.
  - apply Sub_arrow_inv in S. destruct S. unfold Sub'; auto.
Qed.

(* ---- inversion under subsumption -------------------------------------- *)

Lemma lam_inv G b T : has_ty G (Lam b) T ->
  exists A B, has_ty (A :: G) b B /\ Sub' (arrow A B) T.
Proof.
  intros D. remember (Lam b) as e eqn:Ee. revert b Ee.
  induction D as [G0 i T1 E|G0 s T1 E|G0 o1 T1 E|G0 f x A B Df IHf Dx IHx|G0 b0 A B D0 IH0|G0 e S T1 D0 IH S0];
    intros b Ee; try discriminate.
  - injection Ee as ->. exists A, B. split; auto. now left.
  - destruct (IH _ Ee) as (A & B & Db & Sb). exists A, B. split; auto.
    eapply Sub'_trans; eauto. now right.
Qed.

Lemma op_inv G o T : has_ty G (Op o) T -> exists T0, opty o T0 /\ Sub' T0 T.
Proof.
  intros D. remember (Op o) as e eqn:Ee. revert Ee.
  induction D as [G0 i T1 E|G0 s T1 E|G0 o' T1 E|G0 f x A B Df IHf Dx IHx|G0 b0 A B D0 IH0|G0 e S T1 D0 IH S0];
    intros Ee; try discriminate.
  - injection Ee as ->. exists T1. split; auto. now left.
  - destruct (IH Ee) as (T0 & O & S1). exists T0. split; auto.
    eapply Sub'_trans; eauto. now right.
Qed.

Lemma var_inv G i T : has_ty G (Var i) T -> exists T0, nth_error G i = Some T0 /\ Sub' T0 T.
Proof.
  intros D. remember (Var i) as e eqn:Ee. revert Ee.
  induction D as [G0 i' T1 E|G0 s T1 E|G0 o' T1 E|G0 f x A B Df IHf Dx IHx|G0 b0 A B D0 IH0|G0 e S T1 D0 IH S0];
    intros Ee; try discriminate.
  - injection Ee as ->. exists T1. split; auto. now left.
  - destruct (IH Ee) as (T0 & O & S1). exists T0. split; auto.
    eapply Sub'_trans; eauto. now right.
Qed.

Lemma app_inv G f x T : has_ty G (App f x) T ->
  exists A B, has_ty G f (arrow A B) /\ has_ty G x A /\ Sub' B T.
Proof.
  intros D. remember (App f x) as e eqn:Ee. revert Ee.
  induction D as [G0 i' T1 E|G0 s T1 E|G0 o' T1 E|G0 f0 x0 A B Df IHf Dx IHx|G0 b0 A B D0 IH0|G0 e S T1 D0 IH S0];
    intros Ee; try discriminate.
  - injection Ee as -> ->. exists A, B. repeat split; auto. now left.
  - destruct (IH Ee) as (A & B & Df & Dx & S1). exists A, B. repeat split; auto.
    eapply Sub'_trans; eauto. now right.
Qed.

(* ---- renaming and substitution ---------------------------------------- *)

Lemma ren_ty G t T : has_ty G t T -> forall D xi,
  (forall i S, nth_error G i = Some S -> nth_error D (xi i) = Some S) ->
  has_ty D (ren xi t) T.
Proof.
  induction 1 as [G0 i T E|G0 s T E|G0 o T E|G0 f x A B _ IHf _ IHx|G0 b A B _ IHb|G0 e S T _ IH S0];
    intros D xi X; cbn [ren]; eauto using has_ty.
  apply T_Lam. apply IHb. intros [|j] S E; cbn [upr nth_error] in *; auto.
Qed.

Lemma sub_ty G t T : has_ty G t T -> forall D sg,
  (forall i S, nth_error G i = Some S -> has_ty D (sg i) S) ->
  has_ty D (sub sg t) T.
Proof.
  induction 1 as [G0 i T E|G0 s T E|G0 o T E|G0 f x A B _ IHf _ IHx|G0 b A B _ IHb|G0 e S T _ IH S0];
    intros D sg X; cbn [sub]; eauto using has_ty.
  apply T_Lam. apply IHb. intros [|j] S E; cbn [up nth_error] in *.
  - injection E as <-. now apply T_Var.
  - eapply ren_ty; [apply X; eauto|]. intros i S' E'. exact E'.
Qed.

Lemma subst1_ty G b x A B : has_ty (A :: G) b B -> has_ty G x A -> has_ty G (subst1 b x) B.
Proof.
  intros Db Dx. unfold subst1. eapply sub_ty; eauto.
  intros [|j] S E; cbn [scons nth_error] in *.
  - now injection E as <-.
  - now apply T_Var.
Qed.

Lemma weaken_closed G b T : has_ty [] b T -> has_ty G b T.
Proof.
  intros D. rewrite <- (ren_id b (fun i => i)) by reflexivity.
  eapply ren_ty; eauto. intros [|i] S E; discriminate.
Qed.

Lemma has_ty_closed G t T : has_ty G t T -> closed_at (length G) t = true.
Proof.
  induction 1 as [G0 i T E|G0 s T E|G0 o T E|G0 f x A B _ IHf _ IHx|G0 b A B _ IHb|G0 e S T _ IH S0];
    cbn [closed_at]; auto.
  - apply Nat.ltb_lt. apply nth_error_Some. congruence.
  - now rewrite IHf, IHx.
Qed.

(* ---- validated languages ---------------------------------------------- *)

Definition validates : Prop :=
  forall o b, L o = Some b -> forall T, opty o T -> has_ty [] b T.

(* a validated language whose composite operators have at least one instance
   has closed definitions *)
Lemma validates_closed : validates ->
  (forall o b, L o = Some b -> exists T, opty o T) -> closed_lang L.
Proof.
  intros V I o b Lo. destruct (I _ _ Lo) as [T O].
  exact (has_ty_closed _ _ _ (V _ _ Lo _ O)).
Qed.

(* The pinned validate() (expr.py:113 before the repair) compares the other
   way round: the DECLARED type must be a subtype of the inferred one. *)
Definition validates_pinned : Prop :=
  forall o b, L o = Some b -> forall T, opty o T -> exists T', has_ty [] b T' /\ Sub' T T'.

Hypothesis V : validates.

(* a well-typed use of a composite operator can be replaced by its definition
   at the type of the use *)
Theorem delta_typed G o b T : L o = Some b -> has_ty G (Op o) T -> has_ty G b T.
Proof.
  intros Lo D. destruct (op_inv _ _ _ D) as (T0 & O & S).
  eapply has_ty_Sub'; [apply weaken_closed; eauto | exact S].
Qed.

Theorem step_typed G e T : has_ty G e T -> forall e', step L e e' -> has_ty G e' T.
Proof.
  induction 1 as [G0 i T E|G0 s T E|G0 o T E|G0 f x A B Df IHf Dx IHx|G0 b A B Db IHb|G0 e S T D IH S0];
    intros e' St.
  - inversion St.
  - inversion St.
  - inversion St as [|o' b Lo| | |]; subst. eapply delta_typed; eauto using has_ty.
  - inversion St as [b x0|o' b Lo|f0 f' x0 Sf|f0 x0 x' Sx|]; subst.
    + destruct (lam_inv _ _ _ Df) as (A0 & B0 & Db & Sb).
      apply Sub'_arrow_inv in Sb. destruct Sb as [SA SB].
      eapply has_ty_Sub'; [|exact SB].
      eapply subst1_ty; eauto. eapply has_ty_Sub'; eauto.
    + eapply T_App; eauto.
    + eapply T_App; eauto.
  - inversion St as [| | | |b0 b' Sb]; subst. apply T_Lam. auto.
  - eapply T_Sub; eauto.
Qed.

Theorem steps_typed G e e' T : steps L e e' -> has_ty G e T -> has_ty G e' T.
Proof. induction 1; intros; eauto using step_typed. Qed.

Theorem primitive_typed n G e e' T : primitive L n e = Some e' -> has_ty G e T -> has_ty G e' T.
Proof. intros E. apply primitive_sound in E. destruct E as [S _]. now apply steps_typed. Qed.

(* least types: the expansion's least type is the same or more specific *)
Definition least_ty (G : list ty) (e : tm) (T : ty) : Prop :=
  has_ty G e T /\ forall T', has_ty G e T' -> Sub' T T'.

Theorem primitive_least_ty n G e e' T T' : primitive L n e = Some e' ->
  least_ty G e T -> least_ty G e' T' -> Sub' T' T.
Proof.
  intros E [D _] [_ M]. apply M. eapply primitive_typed; eauto.
Qed.

End Typing.
