(* Expanding composite operators: model of Expr.primitive / Expr.normalize
   (transforge/expr.py:198-283).

   A language maps an operator to the body of its definition, if it has one
   (Operator.body, expr.py:36): the closed term  λx1..xn. e  that
   Abstraction(body) builds (expr.py:368-372).

   Specification side:  [step]  is one δ-step (a composite operator is replaced
   by its definition, expr.py:266-274) or one β-step (an abstraction applied to
   an argument, expr.py:229-233) anywhere in the term;  [nfb]  recognises the
   terms without composite operator and without reducible application.

   Algorithm side:  [primitive]  =  [unfold]  (the recursion of Expr.primitive:
   every Operation with a body becomes its Abstraction, recursively through the
   definitions, expr.py:266-281)  followed by  [norm]  (the final
   normalize(recursive=True), expr.py:283: function and argument are normalised
   first, then the parameter is bound and the body renormalised,
   expr.py:224-233).  The code binds the parameter Variable in place
   (Variable.bind, expr.py:391-393); the model substitutes.  With the proposed
   repair (every occurrence of a bound variable gets its own copy of the
   binding) binding-and-following is substitution; on the pinned tree an
   abstraction bound to a parameter that occurs twice is one shared mutable
   object and the two disagree (see proposed_fixes/C15.diff).

   The code also β-reduces heads while unfolding (normalize(recursive=False),
   expr.py:264,283); by confluence (Lam/Confluence.v) the order of steps does
   not change the normal form, so the model does not mirror that interleaving.
   Recursion is by fuel. *)
From Coq Require Import List Arith Bool Lia.
Import ListNotations.
From TF Require Import Lam.Term.

Definition lang := nat -> option tm.

(* executable construction from an association list (cases files) *)
Fixpoint lookup (o : nat) (l : list (nat * tm)) : option tm :=
  match l with
  | [] => None
  | (k, b) :: r => if Nat.eqb o k then Some b else lookup o r
  end.
Definition mk_lang (l : list (nat * tm)) : lang := fun o => lookup o l.

(* bodies are closed: Abstraction(body) only sees its own fresh parameters *)
Definition closed_lang (L : lang) : Prop := forall o b, L o = Some b -> closed b.

Definition closed_langb (l : list (nat * tm)) : bool := forallb (fun kb => closed_at 0 (snd kb)) l.

Lemma closed_langb_spec l : closed_langb l = true -> closed_lang (mk_lang l).
Proof.
  unfold closed_lang, mk_lang. induction l as [|[k b] r IH]; cbn [lookup closed_langb forallb]; intros C o b' E.
  - discriminate.
  - apply andb_true_iff in C. destruct C as [Cb Cr]. destruct (Nat.eqb o k).
    + injection E as <-. exact Cb.
    + eapply IH; eauto.
Qed.

Section Lang.
Variable L : lang.

(* ---- specification: δβ-reduction --------------------------------------- *)

Inductive step : tm -> tm -> Prop :=
| st_beta b x : step (App (Lam b) x) (subst1 b x)
| st_delta o b : L o = Some b -> step (Op o) b
| st_appl f f' x : step f f' -> step (App f x) (App f' x)
| st_appr f x x' : step x x' -> step (App f x) (App f x')
| st_lam b b' : step b b' -> step (Lam b) (Lam b').

Inductive steps : tm -> tm -> Prop :=
| steps_refl t : steps t t
| steps_cons t u v : step t u -> steps u v -> steps t v.

Lemma steps_one t u : step t u -> steps t u.
Proof. intros S. eapply steps_cons; eauto using steps_refl. Qed.

Lemma steps_trans t u v : steps t u -> steps u v -> steps t v.
Proof. induction 1; intros; eauto using steps_cons. Qed.

Lemma steps_appl f f' x : steps f f' -> steps (App f x) (App f' x).
Proof. induction 1; eauto using steps_refl, steps_cons, st_appl. Qed.

Lemma steps_appr f x x' : steps x x' -> steps (App f x) (App f x').
Proof. induction 1; eauto using steps_refl, steps_cons, st_appr. Qed.

Lemma steps_app f f' x x' : steps f f' -> steps x x' -> steps (App f x) (App f' x').
Proof. intros A B. eapply steps_trans; [apply steps_appl, A | apply steps_appr, B]. Qed.

Lemma steps_lam b b' : steps b b' -> steps (Lam b) (Lam b').
Proof. induction 1; eauto using steps_refl, steps_cons, st_lam. Qed.

(* no composite operator *)
Fixpoint no_comp (t : tm) : bool :=
  match t with
  | Op o => match L o with Some _ => false | None => true end
  | App f x => no_comp f && no_comp x
  | Lam b => no_comp b
  | _ => true
  end.

Definition is_lam (t : tm) : bool := match t with Lam _ => true | _ => false end.

(* no reducible application *)
Fixpoint no_redex (t : tm) : bool :=
  match t with
  | App f x => negb (is_lam f) && no_redex f && no_redex x
  | Lam b => no_redex b
  | _ => true
  end.

Definition nfb (t : tm) : bool := no_comp t && no_redex t.

Definition normal (t : tm) : Prop := forall t', ~ step t t'.

Lemma nfb_normal t : nfb t = true -> normal t.
Proof.
  unfold nfb, normal. induction t as [o|s|i|f IHf x IHx|b IHb]; cbn [no_comp no_redex];
    intros N t' S; inversion S; subst.
  - rewrite H0 in N. discriminate.
  - cbn in N. rewrite andb_false_r in N. discriminate.
  - rewrite !andb_true_iff in N. destruct N as [[Nf Nx] [[_ Rf] Rx]].
    eapply IHf; eauto. now rewrite Nf, Rf.
  - rewrite !andb_true_iff in N. destruct N as [[Nf Nx] [[_ Rf] Rx]].
    eapply IHx; eauto. now rewrite Nx, Rx.
  - eapply IHb; eauto.
Qed.

Lemma normal_nfb t : normal t -> nfb t = true.
Proof.
  unfold nfb, normal. induction t as [o|s|i|f IHf x IHx|b IHb]; cbn [no_comp no_redex]; intros N; auto.
  - destruct (L o) as [b|] eqn:E; auto. exfalso. eapply N. apply st_delta. eauto.
  - assert (Hf : no_comp f && no_redex f = true).
    { apply IHf. intros t' S. eapply N. apply st_appl. eauto. }
    assert (Hx : no_comp x && no_redex x = true).
    { apply IHx. intros t' S. eapply N. apply st_appr. eauto. }
    apply andb_true_iff in Hf, Hx. destruct Hf as [-> ->], Hx as [-> ->].
    destruct f; cbn; auto. exfalso. eapply N. apply st_beta.
  - apply IHb. intros t' S. eapply N. apply st_lam. eauto.
Qed.

Theorem nfb_spec t : nfb t = true <-> normal t.
Proof. split; [apply nfb_normal | apply normal_nfb]. Qed.

(* ---- algorithm --------------------------------------------------------- *)

(* Expr.primitive's recursion, expr.py:266-281 *)
Fixpoint unfold (n : nat) (t : tm) : option tm :=
  match n with
  | 0 => None
  | S n' =>
    match t with
    | Op o => match L o with
              | Some b => unfold n' b          (* Abstraction(body).primitive(), :268,274 *)
              | None => Some t
              end
    | App f x => match unfold n' f, unfold n' x with   (* :277-278 *)
                 | Some f', Some x' => Some (App f' x')
                 | _, _ => None
                 end
    | Lam b => match unfold n' b with Some b' => Some (Lam b') | None => None end  (* :281 *)
    | _ => Some t
    end
  end.

(* Expr.normalize(recursive=True), expr.py:209-238 *)
Fixpoint norm (n : nat) (t : tm) : option tm :=
  match n with
  | 0 => None
  | S n' =>
    match t with
    | App f x =>
        match norm n' f, norm n' x with                 (* :226-227 *)
        | Some (Lam b), Some x' => norm n' (subst1 b x')  (* :231-233 *)
        | Some f', Some x' => Some (App f' x')
        | _, _ => None
        end
    | Lam b => match norm n' b with Some b' => Some (Lam b') | None => None end  (* :214 *)
    | _ => Some t
    end
  end.

Definition primitive (n : nat) (t : tm) : option tm :=
  match unfold n t with
  | Some u => norm n u
  | None => None
  end.

(* an independent evaluator: leftmost-outermost δβ-reduction, one fuel unit per
   constructor visited *)
Fixpoint whnf (n : nat) (t : tm) : option tm :=
  match n with
  | 0 => None
  | S n' =>
    match t with
    | Op o => match L o with Some b => whnf n' b | None => Some t end
    | App f x => match whnf n' f with
                 | Some (Lam b) => whnf n' (subst1 b x)
                 | Some f' => Some (App f' x)
                 | None => None
                 end
    | _ => Some t
    end
  end.

Fixpoint lo (n : nat) (t : tm) : option tm :=
  match n with
  | 0 => None
  | S n' =>
    match whnf n' t with
    | Some (Lam b) => match lo n' b with Some b' => Some (Lam b') | None => None end
    | Some (App f x) => match lo n' f, lo n' x with
                        | Some f', Some x' => Some (App f' x')
                        | _, _ => None
                        end
    | r => r
    end
  end.

(* ---- soundness of the algorithm --------------------------------------- *)

Lemma unfold_sound n : forall t u, unfold n t = Some u -> steps t u /\ no_comp u = true.
Proof.
  induction n as [|n IH]; intros t u E; cbn [unfold] in E; [discriminate|].
  destruct t as [o|s|i|f x|b].
  - destruct (L o) as [b|] eqn:Lo.
    + destruct (IH _ _ E) as [S N]. split; auto. eapply steps_cons; [apply st_delta; eauto | auto].
    + injection E as <-. split; [apply steps_refl | cbn; now rewrite Lo].
  - injection E as <-. split; [apply steps_refl | reflexivity].
  - injection E as <-. split; [apply steps_refl | reflexivity].
  - destruct (unfold n f) as [f'|] eqn:Ef; [|discriminate].
    destruct (unfold n x) as [x'|] eqn:Ex; [|discriminate].
    injection E as <-. destruct (IH _ _ Ef) as [Sf Nf], (IH _ _ Ex) as [Sx Nx].
    split; [now apply steps_app | cbn; now rewrite Nf, Nx].
  - destruct (unfold n b) as [b'|] eqn:Eb; [|discriminate].
    injection E as <-. destruct (IH _ _ Eb) as [Sb Nb].
    split; [now apply steps_lam | exact Nb].
Qed.

Lemma no_comp_ren t : forall xi, no_comp (ren xi t) = no_comp t.
Proof.
  induction t as [o|s|i|f IHf x IHx|b IHb]; intros xi; cbn [ren no_comp]; auto.
  now rewrite IHf, IHx.
Qed.

Lemma no_comp_sub t : forall sg, no_comp t = true -> (forall i, no_comp (sg i) = true) ->
  no_comp (sub sg t) = true.
Proof.
  induction t as [o|s|i|f IHf x IHx|b IHb]; intros sg N S; cbn [sub no_comp] in *; auto.
  - apply andb_true_iff in N. destruct N. apply andb_true_iff. split; auto.
  - apply IHb; auto. intros [|j]; cbn [up no_comp]; auto. now rewrite no_comp_ren.
Qed.

Lemma no_comp_subst1 b x : no_comp b = true -> no_comp x = true -> no_comp (subst1 b x) = true.
Proof. intros. apply no_comp_sub; auto. intros [|j]; cbn; auto. Qed.

Lemma norm_sound n : forall t u, norm n t = Some u ->
  steps t u /\ no_redex u = true /\ (no_comp t = true -> no_comp u = true).
Proof.
  induction n as [|n IH]; intros t u E; cbn [norm] in E; [discriminate|].
  destruct t as [o|s|i|f x|b]; try (injection E as <-; repeat split; auto using steps_refl).
  - destruct (norm n f) as [f'|] eqn:Ef; [|discriminate].
    destruct (IH _ _ Ef) as (Sf & Rf & Nf).
    destruct (norm n x) as [x'|] eqn:Ex; [|destruct f'; discriminate].
    destruct (IH _ _ Ex) as (Sx & Rx & Nx).
    assert (Gen : is_lam f' = false -> Some (App f' x') = Some u ->
      steps (App f x) u /\ no_redex u = true /\ (no_comp (App f x) = true -> no_comp u = true)).
    { intros NL [= <-]. split; [now apply steps_app|]. split.
      - cbn. now rewrite NL, Rf, Rx.
      - cbn. intros N. apply andb_true_iff in N. destruct N. now rewrite Nf, Nx. }
    destruct f' as [o|s|i|g y|b]; try (apply Gen; auto; fail).
    destruct (IH _ _ E) as (Sb & Rb & Nb). split; [|split; auto].
    + eapply steps_trans; [apply steps_app; eauto|].
      eapply steps_cons; [apply st_beta | exact Sb].
    + cbn. intros N. apply andb_true_iff in N. destruct N as [N1 N2].
      apply Nb. apply no_comp_subst1; auto.
  - destruct (norm n b) as [b'|] eqn:Eb; [|discriminate].
    injection E as <-. destruct (IH _ _ Eb) as (Sb & Rb & Nb).
    repeat split; auto. now apply steps_lam.
Qed.

(* primitive() reaches, by δβ-steps, a term with no composite operator and no
   reducible application *)
Theorem primitive_sound n t u : primitive n t = Some u -> steps t u /\ nfb u = true.
Proof.
  unfold primitive, nfb. intros E. destruct (unfold n t) as [v|] eqn:Eu; [|discriminate].
  destruct (unfold_sound _ _ _ Eu) as [S1 N1].
  destruct (norm_sound _ _ _ E) as (S2 & R2 & N2).
  split; [eapply steps_trans; eauto|]. now rewrite (N2 N1), R2.
Qed.

Corollary primitive_result n t u : primitive n t = Some u ->
  steps t u /\ no_comp u = true /\ no_redex u = true /\ normal u.
Proof.
  intros E. destruct (primitive_sound _ _ _ E) as [S N]. split; auto.
  pose proof (nfb_normal _ N) as Nm. unfold nfb in N. apply andb_true_iff in N.
  destruct N. auto.
Qed.

(* ---- results do not depend on the fuel -------------------------------- *)

Lemma unfold_mono n : forall m t u, n <= m -> unfold n t = Some u -> unfold m t = Some u.
Proof.
  induction n as [|n IH]; intros m t u Hle E; cbn [unfold] in E; [discriminate|].
  destruct m as [|m]; [lia|]. assert (Hle' : n <= m) by lia. cbn [unfold].
  destruct t as [o|s|i|f x|b]; auto.
  - destruct (L o); auto.
  - destruct (unfold n f) as [f'|] eqn:Ef; [|discriminate].
    destruct (unfold n x) as [x'|] eqn:Ex; [|discriminate].
    now rewrite (IH m _ _ Hle' Ef), (IH m _ _ Hle' Ex).
  - destruct (unfold n b) as [b'|] eqn:Eb; [|discriminate].
    now rewrite (IH m _ _ Hle' Eb).
Qed.

Lemma norm_mono n : forall m t u, n <= m -> norm n t = Some u -> norm m t = Some u.
Proof.
  induction n as [|n IH]; intros m t u Hle E; cbn [norm] in E; [discriminate|].
  destruct m as [|m]; [lia|]. assert (Hle' : n <= m) by lia. cbn [norm].
  destruct t as [o|s|i|f x|b]; auto.
  - destruct (norm n f) as [f'|] eqn:Ef; [|discriminate].
    destruct (norm n x) as [x'|] eqn:Ex; [|destruct f'; discriminate].
    rewrite (IH m _ _ Hle' Ef), (IH m _ _ Hle' Ex).
    destruct f'; auto.
  - destruct (norm n b) as [b'|] eqn:Eb; [|discriminate].
    now rewrite (IH m _ _ Hle' Eb).
Qed.

Lemma primitive_mono n m t u : n <= m -> primitive n t = Some u -> primitive m t = Some u.
Proof.
  unfold primitive. intros Hle E. destruct (unfold n t) as [v|] eqn:Eu; [|discriminate].
  rewrite (unfold_mono _ _ _ _ Hle Eu). eapply norm_mono; eauto.
Qed.

Theorem primitive_fuel_indep n m t u v :
  primitive n t = Some u -> primitive m t = Some v -> u = v.
Proof.
  intros A B.
  apply (primitive_mono n (Nat.max n m)) in A; [|lia].
  apply (primitive_mono m (Nat.max n m)) in B; [|lia]. congruence.
Qed.

(* ---- expanding again changes nothing ---------------------------------- *)

Lemma unfold_fix n : forall t, depth t < n -> no_comp t = true -> unfold n t = Some t.
Proof.
  induction n as [|n IH]; intros t D N; [lia|]. cbn [unfold].
  destruct t as [o|s|i|f x|b]; cbn [depth no_comp] in *; auto.
  - destruct (L o); [discriminate|reflexivity].
  - apply andb_true_iff in N. destruct N as [Nf Nx].
    rewrite (IH f), (IH x); auto; lia.
  - rewrite (IH b); auto; lia.
Qed.

Lemma norm_fix n : forall t, depth t < n -> no_redex t = true -> norm n t = Some t.
Proof.
  induction n as [|n IH]; intros t D N; [lia|]. cbn [norm].
  destruct t as [o|s|i|f x|b]; cbn [depth no_redex] in *; auto.
  - rewrite !andb_true_iff in N. destruct N as [[NL Nf] Nx].
    rewrite (IH f), (IH x); auto; try lia.
    destruct f; auto. discriminate.
  - rewrite (IH b); auto; lia.
Qed.

Theorem primitive_idem n t u : primitive n t = Some u ->
  forall m, depth u < m -> primitive m u = Some u.
Proof.
  intros E m D. apply primitive_sound in E. destruct E as [_ N].
  unfold nfb in N. apply andb_true_iff in N. destruct N as [N R].
  unfold primitive. rewrite unfold_fix; auto. now apply norm_fix.
Qed.

(* ---- the independent evaluator is sound too --------------------------- *)

Lemma whnf_sound n : forall t u, whnf n t = Some u -> steps t u.
Proof.
  induction n as [|n IH]; intros t u E; cbn [whnf] in E; [discriminate|].
  destruct t as [o|s|i|f x|b]; try (injection E as <-; apply steps_refl).
  - destruct (L o) as [b|] eqn:Lo.
    + eapply steps_cons; [apply st_delta; eauto | eauto].
    + injection E as <-. apply steps_refl.
  - destruct (whnf n f) as [f'|] eqn:Ef; [|discriminate].
    pose proof (IH _ _ Ef) as Sf.
    assert (Gen : Some (App f' x) = Some u -> steps (App f x) u).
    { intros [= <-]. now apply steps_appl. }
    destruct f' as [o|s|i|g y|b]; auto.
    eapply steps_trans; [apply steps_appl; eauto|].
    eapply steps_cons; [apply st_beta | eauto].
Qed.

(* weak head normal forms are abstractions or neutral terms *)
Fixpoint neutral (t : tm) : bool :=
  match t with
  | Op o => match L o with Some _ => false | None => true end
  | App f _ => neutral f
  | Lam _ => false
  | _ => true
  end.

Lemma neutral_not_lam t : neutral t = true -> is_lam t = false.
Proof. destruct t; cbn; auto; discriminate. Qed.

Lemma whnf_shape n : forall t u, whnf n t = Some u -> is_lam u = true \/ neutral u = true.
Proof.
  induction n as [|n IH]; intros t u E; cbn [whnf] in E; [discriminate|].
  destruct t as [o|s|i|f x|b]; try (injection E as <-; cbn; auto; fail).
  - destruct (L o) as [b|] eqn:Lo; [eauto|]. injection E as <-. right. cbn. now rewrite Lo.
  - destruct (whnf n f) as [f'|] eqn:Ef; [|discriminate].
    destruct (IH _ _ Ef) as [Hl|Hn].
    + destruct f'; try discriminate. eauto.
    + right. pose proof (neutral_not_lam _ Hn) as NL.
      destruct f'; try discriminate; injection E as <-; exact Hn.
Qed.

Lemma whnf_neutral n : forall t u, neutral t = true -> whnf n t = Some u -> u = t.
Proof.
  induction n as [|n IH]; intros t u N E; cbn [whnf] in E; [discriminate|].
  destruct t as [o|s|i|f x|b]; cbn [neutral] in N; try (injection E as <-; reflexivity).
  - destruct (L o); [discriminate|]. now injection E as <-.
  - destruct (whnf n f) as [f'|] eqn:Ef; [|discriminate].
    pose proof (IH _ _ N Ef) as ->. pose proof (neutral_not_lam _ N) as NL.
    destruct f; try discriminate; now injection E as <-.
Qed.

Lemma lo_normal n : forall t u, lo n t = Some u ->
  nfb u = true /\ (neutral t = true -> neutral u = true).
Proof.
  unfold nfb. induction n as [|n IH]; intros t u E; cbn [lo] in E; [discriminate|].
  destruct (whnf n t) as [w|] eqn:Ew; [|discriminate].
  assert (Hw : neutral t = true -> w = t) by (intros N; eapply whnf_neutral; eauto).
  destruct (whnf_shape _ _ _ Ew) as [Hl|Hn].
  - destruct w as [o|s|i|f x|b]; try discriminate.
    destruct (lo n b) as [b'|] eqn:Eb; [|discriminate]. injection E as <-.
    destruct (IH _ _ Eb) as [Nb _]. split; [exact Nb|].
    intros N. specialize (Hw N). subst t. discriminate.
  - destruct w as [o|s|i|f x|b]; try discriminate.
    + injection E as <-. cbn [neutral] in Hn. cbn. split; auto.
      destruct (L o); [discriminate|reflexivity].
    + injection E as <-. split; auto.
    + injection E as <-. split; auto.
    + cbn [neutral] in Hn.
      destruct (lo n f) as [f'|] eqn:Ef; [|discriminate].
      destruct (lo n x) as [x'|] eqn:Ex; [|discriminate]. injection E as <-.
      destruct (IH _ _ Ef) as [Nf Kf], (IH _ _ Ex) as [Nx _].
      specialize (Kf Hn). apply andb_true_iff in Nf, Nx.
      destruct Nf as [Nf1 Nf2], Nx as [Nx1 Nx2].
      split; [|intros _; exact Kf].
      cbn [no_comp no_redex]. now rewrite Nf1, Nf2, Nx1, Nx2, (neutral_not_lam _ Kf).
Qed.

Lemma lo_sound n : forall t u, lo n t = Some u -> steps t u.
Proof.
  induction n as [|n IH]; intros t u E; cbn [lo] in E; [discriminate|].
  destruct (whnf n t) as [w|] eqn:Ew; [|discriminate].
  apply whnf_sound in Ew.
  destruct w as [o|s|i|f x|b]; try (injection E as <-; exact Ew).
  - destruct (lo n f) as [f'|] eqn:Ef; [|discriminate].
    destruct (lo n x) as [x'|] eqn:Ex; [|discriminate].
    injection E as <-. eapply steps_trans; [exact Ew|]. apply steps_app; eauto.
  - destruct (lo n b) as [b'|] eqn:Eb; [|discriminate].
    injection E as <-. eapply steps_trans; [exact Ew|]. apply steps_lam; eauto.
Qed.

End Lang.
