(* The comparison direction of the pinned Operator.validate (declared type <=
   inferred type, expr.py:113) does not give type preservation: a definition
   that declares a wider parameter than its body accepts passes it, and the
   expansion of a well-typed use loses the type of the use.

   B0 = 5, B1 = 6 with B1 <= B0;  low (operator 0) : B1 ** B1 primitive;
   wide (operator 1) : B0 ** B1  defined as  λx. low x. *)
From Coq Require Import List Arith Bool Lia.
Import ListNotations.
From TF Require Import Base.Hier Base.Ty Sub.SubSpec Lam.Term Lam.Primitive Lam.Typing.

Definition pH : hier := mk_hier [(6, 5)] [].
Definition t5 := TOp 5 [].
Definition t6 := TOp 6 [].
Definition pbody := Lam (App (Op 0) (Var 0)).
Definition pL : lang := mk_lang [(1, pbody)].
Definition p_opty (o : nat) (T : ty) : Prop :=
  match o with 0 => T = arrow t6 t6 | 1 => T = arrow t5 t6 | _ => False end.
Definition p_srcty (s : nat) (T : ty) : Prop := False.

Lemma pH_wf : wf_hier pH.
Proof.
  split.
  - intros o p. cbn. destruct (Nat.eqb o 6) eqn:E; [|discriminate].
    apply Nat.eqb_eq in E. intros [= <-]. lia.
  - intros o p. cbn. destruct (Nat.eqb o 6) eqn:E; [|discriminate].
    apply Nat.eqb_eq in E. subst o. intros [= <-]. cbn. repeat split; discriminate.
  - split; reflexivity.
  - split; reflexivity.
  - reflexivity.
Qed.

Lemma not_sub_5_6 : ~ Sub' pH t5 t6.
Proof.
  intros [E|S]; [discriminate|].
  inversion S as [t|t|a b Va A|o xs ys Vo AR]; subst.
  inversion A as [|a p b Hp _]; subst. cbn in Hp. discriminate.
Qed.

Lemma sub_6_5 : Sub pH t6 t5.
Proof.
  apply SubBase; [reflexivity|]. eapply anc_step; [reflexivity | apply anc_refl].
Qed.

Lemma pinned_validates : validates_pinned pH pL p_opty p_srcty.
Proof.
  intros o b Lo T O. unfold pL, mk_lang in Lo. cbn in Lo.
  destruct (Nat.eqb o 1) eqn:E; [|discriminate]. apply Nat.eqb_eq in E. subst o.
  injection Lo as <-. cbn in O. subst T.
  exists (arrow t6 t6). split.
  - apply T_Lam. eapply T_App; [apply T_Op; reflexivity | apply T_Var; reflexivity].
  - right. apply SubComp; [discriminate|]. cbn.
    apply AR_contra; [apply sub_6_5|]. apply AR_co; [|constructor].
    apply SubBase; [reflexivity | apply anc_refl].
Qed.

Lemma pinned_body_untypable : ~ has_ty pH p_opty p_srcty [] pbody (arrow t5 t6).
Proof.
  intros D. unfold pbody in D.
  destruct (lam_inv pH pH_wf _ _ _ _ _ D) as (A & B & Db & Sb).
  apply (Sub'_arrow_inv pH pH_wf) in Sb. destruct Sb as [S5A _].
  destruct (app_inv pH pH_wf _ _ _ _ _ _ Db) as (A1 & B1 & Df & Dx & _).
  destruct (op_inv pH pH_wf _ _ _ _ _ Df) as (T0 & O & S0). cbn in O. subst T0.
  apply (Sub'_arrow_inv pH pH_wf) in S0. destruct S0 as [SA1 _].
  destruct (var_inv pH pH_wf _ _ _ _ _ Dx) as (T0 & E & SA). cbn in E. injection E as <-.
  apply not_sub_5_6.
  eapply (Sub'_trans pH pH_wf); [exact S5A|].
  eapply (Sub'_trans pH pH_wf); [exact SA | exact SA1].
Qed.

Theorem pinned_validate_refuted :
  exists (H : hier) (L : lang) (opty srcty : nat -> ty -> Prop) (e e' : tm) (T : ty),
    wf_hier H /\ validates_pinned H L opty srcty /\
    has_ty H opty srcty [] e T /\ step L e e' /\ ~ has_ty H opty srcty [] e' T.
Proof.
  exists pH, pL, p_opty, p_srcty, (Op 1), pbody, (arrow t5 t6).
  split; [apply pH_wf|]. split; [apply pinned_validates|].
  split; [apply T_Op; reflexivity|].
  split; [apply st_delta; reflexivity | apply pinned_body_untypable].
Qed.
