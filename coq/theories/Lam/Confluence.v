(* δβ-reduction over a language with closed definitions is confluent
   (Tait / Martin-Löf parallel reduction, Takahashi's complete development),
   hence normal forms are unique: whatever order primitive()/normalize() use to
   unfold definitions and contract applications, there is one possible result. *)
From Coq Require Import List Arith Bool Lia.
Import ListNotations.
From TF Require Import Lam.Term Lam.Primitive.

Section Conf.
Variable L : lang.
Hypothesis CL : closed_lang L.

Inductive par : tm -> tm -> Prop :=
| p_op o : par (Op o) (Op o)
| p_delta o b : L o = Some b -> par (Op o) b
| p_src s : par (Src s) (Src s)
| p_var i : par (Var i) (Var i)
| p_app f f' x x' : par f f' -> par x x' -> par (App f x) (App f' x')
| p_lam b b' : par b b' -> par (Lam b) (Lam b')
| p_beta b b' x x' : par b b' -> par x x' -> par (App (Lam b) x) (subst1 b' x').

Lemma par_refl t : par t t.
Proof. induction t; eauto using par. Qed.

Lemma step_par t u : step L t u -> par t u.
Proof. induction 1; eauto using par, par_refl. Qed.

Lemma par_steps t u : par t u -> steps L t u.
Proof.
  induction 1; eauto using steps_refl, steps_app, steps_lam.
  - apply steps_one. now apply st_delta.
  - eapply steps_trans; [apply steps_app; [apply steps_lam; eauto | eauto]|].
    apply steps_one. apply st_beta.
Qed.

Lemma par_ren t u : par t u -> forall xi, par (ren xi t) (ren xi u).
Proof.
  induction 1 as [o|o b Lo|s|i|f f' x x' _ IHf _ IHx|b b' _ IHb|b b' x x' _ IHb _ IHx];
    intros xi; cbn [ren]; eauto using par.
  - rewrite (ren_closed b xi) by (eapply CL; eauto). now apply p_delta.
  - rewrite ren_subst1. apply p_beta; auto.
Qed.

Lemma par_sub t u : par t u -> forall sg tau, (forall i, par (sg i) (tau i)) ->
  par (sub sg t) (sub tau u).
Proof.
  induction 1 as [o|o b Lo|s|i|f f' x x' _ IHf _ IHx|b b' _ IHb|b b' x x' _ IHb _ IHx];
    intros sg tau P; cbn [sub]; eauto using par.
  - rewrite (sub_closed b tau) by (eapply CL; eauto). now apply p_delta.
  - apply p_lam. apply IHb. intros [|j]; cbn [up]; [apply p_var | apply par_ren, P].
  - rewrite sub_subst1. apply p_beta; auto.
    apply IHb. intros [|j]; cbn [up]; [apply p_var | apply par_ren, P].
Qed.

Lemma par_subst1 b b' x x' : par b b' -> par x x' -> par (subst1 b x) (subst1 b' x').
Proof.
  intros Pb Px. unfold subst1. apply par_sub; auto.
  intros [|j]; cbn [scons]; [exact Px | apply p_var].
Qed.

(* complete development: contract every redex present in the term *)
Fixpoint cd (t : tm) : tm :=
  match t with
  | Op o => match L o with Some b => b | None => Op o end
  | App f x => match f with
               | Lam b => subst1 (cd b) (cd x)
               | _ => App (cd f) (cd x)
               end
  | Lam b => Lam (cd b)
  | _ => t
  end.

Lemma par_triangle t u : par t u -> par u (cd t).
Proof.
  induction 1 as [o|o b Lo|s|i|f f' x x' Pf IHf Px IHx|b b' _ IHb|b b' x x' _ IHb _ IHx];
    cbn [cd].
  - destruct (L o) as [b|] eqn:Lo; [now apply p_delta | apply p_op].
  - rewrite Lo. apply par_refl.
  - apply p_src.
  - apply p_var.
  - destruct f as [o|s|i|g y|b0]; try (apply p_app; auto; fail).
    inversion Pf as [| | | | |b1 b1' Pb|]; subst.
    cbn [cd] in IHf. inversion IHf as [| | | | |b2 b2' Pb2|]; subst.
    apply p_beta; auto.
  - apply p_lam; auto.
  - apply par_subst1; auto.
Qed.

Inductive pars : tm -> tm -> Prop :=
| pars_refl t : pars t t
| pars_cons t u v : par t u -> pars u v -> pars t v.

Lemma pars_trans t u v : pars t u -> pars u v -> pars t v.
Proof. induction 1; intros; eauto using pars. Qed.

Lemma par_strip t u v : par t u -> pars t v -> exists w, pars u w /\ par v w.
Proof.
  intros P Q. revert u P. induction Q as [t|t t1 v P1 _ IH]; intros u P.
  - exists u. split; [apply pars_refl | exact P].
  - (* t -> t1 ->* v and t -> u: both t1 and u reduce to cd t *)
    destruct (IH (cd t) (par_triangle _ _ P1)) as (w & Q1 & P2).
    exists w. split; auto. eapply pars_cons; [apply par_triangle; eauto | exact Q1].
Qed.

Lemma pars_confluent t u v : pars t u -> pars t v -> exists w, pars u w /\ pars v w.
Proof.
  intros Q. revert v. induction Q as [t|t t1 u P1 _ IH]; intros v Qv.
  - exists v. split; [exact Qv | apply pars_refl].
  - destruct (par_strip _ _ _ P1 Qv) as (w1 & Q1 & P2).
    destruct (IH _ Q1) as (w & Qa & Qb).
    exists w. split; auto. eapply pars_cons; eauto.
Qed.

Lemma steps_pars t u : steps L t u -> pars t u.
Proof. induction 1; eauto using pars, step_par. Qed.

Lemma pars_steps t u : pars t u -> steps L t u.
Proof. induction 1; eauto using steps_refl, steps_trans, par_steps. Qed.

Theorem steps_confluent t u v : steps L t u -> steps L t v ->
  exists w, steps L u w /\ steps L v w.
Proof.
  intros A B. destruct (pars_confluent _ _ _ (steps_pars _ _ A) (steps_pars _ _ B)) as (w & P & Q).
  exists w. split; now apply pars_steps.
Qed.

Lemma normal_steps t u : normal L t -> steps L t u -> u = t.
Proof. intros N S. inversion S as [|? w ? S1 _]; subst; auto. exfalso. eapply N; eauto. Qed.

Theorem normal_form_unique t u v : steps L t u -> steps L t v ->
  normal L u -> normal L v -> u = v.
Proof.
  intros A B Nu Nv. destruct (steps_confluent _ _ _ A B) as (w & Su & Sv).
  apply (normal_steps _ _ Nu) in Su. apply (normal_steps _ _ Nv) in Sv. congruence.
Qed.

(* primitive() computes THE normal form: any other way of unfolding and
   reducing that ends in a term without composite operators and reducible
   applications ends in the same term *)
Theorem primitive_is_normal_form n t u : primitive L n t = Some u ->
  forall v, steps L t v -> normal L v -> u = v.
Proof.
  intros E v S N. apply primitive_sound in E. destruct E as [Su Nu].
  eapply normal_form_unique; eauto. now apply nfb_spec.
Qed.

Theorem primitive_agrees_lo n m t u v : primitive L n t = Some u -> lo L m t = Some v -> u = v.
Proof.
  intros E F. eapply primitive_is_normal_form; eauto.
  - eapply lo_sound; eauto.
  - apply nfb_spec. eapply lo_normal; eauto.
Qed.

(* the normal form does not depend on where expansion starts: expanding any
   reduct gives the same result (in particular a partially expanded or
   partially reduced expression) *)
Theorem primitive_of_reduct n m t t' u u' : steps L t t' ->
  primitive L n t = Some u -> primitive L m t' = Some u' -> u = u'.
Proof.
  intros S E E'. apply primitive_sound in E'. destruct E' as [S' N'].
  eapply primitive_is_normal_form; eauto.
  - eapply steps_trans; eauto.
  - now apply nfb_spec.
Qed.

End Conf.
