(* C06, engine link for CONCRETE alternatives of any shape (compound types,
   function types, base types, Top, Bottom; no distinctness assumption):
   `a ** a [a << alts]` applied to a concrete argument x, on the faithful
   fuelled model of Infer/Engine.v, for every well-formed hierarchy.

   Method: symbolic execution as in FitsEngineList.v / FitsEnginePat.v (fuel as
   a chain n0 = S n1, ...; one-level unfolding equations), with the closed forms
   of FitsEngineConcBase.v for everything that happens inside concrete types
   (match, unify, occurs check, minimize, the filter loop). *)
From Coq Require Import List Arith Bool Lia.
Import ListNotations.
From TF Require Import Base.Hier Base.Ty Sub.Match Sub.SubSpec Sub.SubProofs
  Infer.Store Infer.Engine Infer.Run Infer.Fits Infer.FitsEngine Infer.FitsEngineList
  Infer.FitsEnginePat Infer.FitsEngineConcBase.

Local Arguments op_subtype : simpl never.
Local Arguments bindM {A B} m f s /.
Local Arguments gets {A} f s /.
Local Arguments ret {A} a s /.
Local Arguments fail {A} e s /.
Local Arguments modify f s /.
Local Arguments lift {A} r s /.
Local Arguments fresh wild s /.
Local Arguments next_choice s /.
Local Arguments unify : simpl never.
Local Arguments bind : simpl never.
Local Arguments above : simpl never.
Local Arguments below : simpl never.
Local Arguments check_constraints : simpl never.
Local Arguments fulfill : simpl never.
Local Arguments minimize : simpl never.
Local Arguments fix_ty : simpl never.
Local Arguments min_inner : simpl never.
Local Arguments min_outer : simpl never.
Local Arguments filt : simpl never.
Local Arguments eval_list : simpl never.
Local Arguments eval_constr : simpl never.
Local Arguments closure_f : simpl never.
Local Arguments match_f : simpl never.
Local Arguments occurs_f : simpl never.
Local Arguments vars_f : simpl never.
Local Arguments subb : simpl never.
Local Arguments cmins : simpl never.
Local Arguments m : simpl never.
Local Arguments u : simpl never.
Local Arguments inj : simpl never.
Local Arguments set_cell s v c /.
Local Arguments set_cset s i l /.
Local Arguments set_constr s i k /.

Definition conc_sig (alts : list ty) : schema :=
  mkSchema 1 (SOp Function [SVar 0; SVar 0]) [SCElim (SVar 0) (map sconc alts)].
Definition conc_prog (x : ty) (alts : list ty) : list cmd := app_prog (conc_sig alts) x.

(* only the mutually recursive core is bumped; everything that runs inside
   concrete types is rewritten with the closed forms *)
Ltac c06c_bump1 n m En :=
  match goal with
  | |- context [unify ?H n ?a ?b ?c ?d ?e ?s] => replace (unify H n a b c d e s) with (unify H m a b c d e s) by (rewrite En; reflexivity); rewrite unify_S
  | |- context [bind ?H n ?a ?b ?s] => replace (bind H n a b s) with (bind H m a b s) by (rewrite En; reflexivity); rewrite bind_S
  | |- context [above ?H n ?a ?b ?s] => replace (above H n a b s) with (above H m a b s) by (rewrite En; reflexivity); rewrite above_S
  | |- context [below ?H n ?a ?b ?s] => replace (below H n a b s) with (below H m a b s) by (rewrite En; reflexivity); rewrite below_S
  | |- context [check_constraints ?H n ?a ?s] => replace (check_constraints H n a s) with (check_constraints H m a s) by (rewrite En; reflexivity); rewrite check_constraints_S
  end.
Ltac c06c_bumpq n m En :=
  match goal with
  | |- context [fulfill ?H n ?a ?s] => replace (fulfill H n a s) with (fulfill H m a s) by (rewrite En; reflexivity); rewrite fulfill_S'
  end.
Ltac c06c_bumpf n m En :=
  match goal with
  | |- context [fix_ty ?H n ?a ?b ?s] => replace (fix_ty H n a b s) with (fix_ty H m a b s) by (rewrite En; reflexivity); rewrite fix_ty_S
  end.

Local Notation St cl cs k sc := (mkStore [cl] [cs] [k] sc).
Local Notation kc r l d := (mkConstr true r (map inj l) false d).
Local Notation ucell := (mkCell false None None None 0).
Local Notation lcell a := (mkCell false None (Some a) None 0).
Local Notation bcell m up := (mkCell false (Some (inj m)) None up 0).

Lemma m_TOp H sub oa xs ob ys :
  m H sub true (TOp oa xs) (TOp ob ys) =
      if sub && (Nat.eqb oa Bottom || Nat.eqb ob Top) then Some true
      else if Nat.eqb (arity H oa) 0 then
        Some (Nat.eqb oa ob || (sub && op_subtype H false oa ob))
      else if negb (Nat.eqb oa ob) then Some false
      else Match.margs (fun d' x y => m H sub d' x y) true (variance H oa) xs ys.
Proof. reflexivity. Qed.

Lemma filter_nil_existsb {A} (p : A -> bool) l : filter p l = [] -> existsb p l = false.
Proof.
  induction l as [|b l IH]; cbn [filter existsb]; auto.
  destruct (p b); [discriminate|auto].
Qed.

Lemma filter_cons_existsb {A} (p : A -> bool) l t r : filter p l = t :: r -> existsb p l = true.
Proof.
  intros E. apply existsb_exists. exists t.
  assert (I : In t (filter p l)) by (rewrite E; now left).
  apply filter_In in I. exact I.
Qed.

Section Conc.
Variable H : hier.
Hypothesis W : wf_hier H.
Local Notation subb := (subb H).
Local Notation cmins := (cmins H).

Ltac facts :=
  progress (unfold osub, Top, Bottom;
    rewrite ?(strict_irrefl H W), ?(osub_top' H), ?(osub_bot' H), ?(osub_top_l' H W), ?(osub_to_bot' H W),
            ?(osub_strict_top_l' H W), ?(basic_top' H W), ?(basic_bot' H W), ?(vr_top' H W), ?(vr_bot' H W), ?Nat.eqb_refl;
    repeat match goal with
    | [E : variance _ _ = _ |- _] => rewrite E
    | [E : basic _ _ = _ |- _] => rewrite E
    | [E : op_subtype _ _ _ _ = _ |- _] => rewrite E
    | [E : Nat.eqb _ _ = _ |- _] => rewrite E
    end).
Ltac bump_any := match goal with [E : ?n = S ?m |- _] => is_var n; is_var m; c06c_bump1 n (S m) E end.
Ltac bump_fix := match goal with [E : ?n = S ?m |- _] => is_var n; is_var m; c06c_bumpf n (S m) E end.
Ltac bump_ful := match goal with [E : ?n = S ?m |- _] => is_var n; is_var m; c06c_bumpq n (S m) E end.
Ltac run := cbn; repeat (first [bump_any|bump_ful|bump_fix|facts]; cbn).
Ltac run' := cbn; repeat (first [bump_any|bump_ful|facts]; cbn).
Ltac run0 := cbn; repeat (first [bump_any|facts]; cbn).

(* ---------- generic facts ---------- *)
Lemma minimize_conc_n n c s l : tys_depth l + 2 <= n ->
  k_alts (constr_of s c) = map inj l ->
  minimize H n c s =
  MOk tt (set_constr s c (mkConstr (k_elim (constr_of s c)) (follow s (k_ref (constr_of s c)))
                                   (map inj (cmins l)) (k_strict (constr_of s c)) (k_done (constr_of s c)))).
Proof.
  intros L E. destruct n as [|n]; [lia|]. apply minimize_conc_fwd; auto.
  apply tys_depth_Forall. lia.
Qed.

Lemma tys_depth_cmins l : tys_depth (cmins l) <= tys_depth l.
Proof.
  assert (F : Forall (fun x => ty_depth x < S (tys_depth l)) (cmins l)).
  { apply cmins_Forall. apply tys_depth_Forall. lia. }
  induction F as [|x r Hx _ IH]; cbn [tys_depth fold_right]; [lia|]. fold (tys_depth r). lia.
Qed.

Lemma unify_follow_r f A b0 B s : follow s b0 = inj B ->
  unify H (S f) true false false (inj A) b0 s = unify H (S f) true false false (inj A) (inj B) s.
Proof.
  intros E. rewrite !unify_S. cbn [bindM gets]. rewrite E, !cb_follow_inj. reflexivity.
Qed.

Lemma fix_ty_follow f pl t x s : follow s t = inj x -> ty_depth x < f ->
  fix_ty H f pl t s = MOk (inj x) s.
Proof.
  intros E L. rewrite <- (fix_ty_inj H x f pl s L). destruct f as [|f]; [lia|].
  rewrite !fix_ty_S. cbn [bindM gets]. rewrite E, !cb_follow_inj. reflexivity.
Qed.

Lemma subb_u_none x B : wf_ty H x -> wf_ty H B -> subb x B = true -> u H true true x B = None.
Proof.
  intros Wx Wb E. destruct (u_m H W x Wx true B Wb) as [U _]. apply U.
  unfold FitsEngineConcBase.subb in E. destruct (Match.m H true true x B) as [[|]|]; congruence.
Qed.

Lemma subb_u_some x B : wf_ty H x -> wf_ty H B -> subb x B = false -> exists e, u H true true x B = Some e.
Proof.
  intros Wx Wb E. destruct (u H true true x B) as [e|] eqn:U; [eauto|].
  destruct (u_m H W x Wx true B Wb) as [U1 _]. apply U1 in U.
  unfold FitsEngineConcBase.subb in E. rewrite U in E. discriminate.
Qed.

Lemma filter_keep_subb x l : wf_ty H x -> Forall (wf_ty H) l ->
  filter (fun B => match Match.m H true true x B with Some false => false | _ => true end) l = filter (subb x) l.
Proof.
  intros Wx Wl. apply filter_ext_in. intros B I. rewrite Forall_forall in Wl.
  symmetry. apply m_keep; auto.
Qed.

(* fulfill of a pending constraint whose reference is resolved to the concrete x *)
Lemma fulfill_res n cl cs r l sc x :
  follow (St cl cs (kc r l false) sc) r = inj x ->
  ty_depth x + tys_depth l + 3 <= n -> wf_ty H x -> Forall (wf_ty H) l ->
  fulfill H n 0 (St cl cs (kc r l false) sc) =
    match filter (subb x) (cmins l) with
    | [] => MEr EConstraintViolation (St cl cs (kc (inj x) [] false) sc)
    | [m] => MOk true (St cl cs (kc (inj x) [m] true) sc)
    | l2 => MOk false (St cl cs (kc (inj x) l2 false) sc)
    end.
Proof.
  intros Ef L Wx Wl. destruct n as [|n]; [lia|]. rewrite fulfill_S'.
  cbn [bindM gets constr_of nth constrs k_elim k_done].
  rewrite (minimize_conc_n n 0 _ l) by (try reflexivity; lia).
  cbn [constr_of nth constrs k_elim k_done k_ref k_strict k_alts set_constr upd vars csets sched].
  rewrite Ef.
  unfold constr_terms. cbn [k_ref k_alts].
  change (inj x :: map inj (cmins l)) with (map inj (x :: cmins l)). rewrite forallb_inj.
  cbn [negb bindM lift].
  pose proof (tys_depth_cmins l) as Lc.
  rewrite (filt_resolved H n _ (inj x) x (cmins l)) by (try apply cb_follow_inj; lia).
  rewrite (filter_keep_subb x (cmins l) Wx (cmins_Forall H _ l Wl)).
  assert (Fl : forall B, In B (filter (subb x) (cmins l)) -> wf_ty H B /\ subb x B = true).
  { intros B I. apply filter_In in I. destruct I as (I & E). split; auto.
    apply cmins_in in I. rewrite Forall_forall in Wl. auto. }
  destruct (filter (subb x) (cmins l)) as [|m1 [|m2 rest]].
  - reflexivity.
  - cbn [map upd_constr modify constr_of nth constrs k_ref k_alts k_strict k_done set_constr upd vars csets sched].
    destruct (Fl m1 (or_introl eq_refl)) as (Wm & Em).
    assert (Lm : ty_depth x < n) by lia.
    cbn [bindM upd_constr modify constr_of nth constrs k_ref k_alts k_strict k_done set_constr upd vars csets sched].
    rewrite (unify_inj_fwd H x m1 n _ Lm). rewrite (subb_u_none x m1 Wx Wm Em). reflexivity.
  - reflexivity.
Qed.

(* ---------- stage 1: instance() of the signature ---------- *)
Lemma filt_unbounded_n n s v l : 1 <= n ->
  c_wild (cell_of s v) = false -> c_bound (cell_of s v) = None ->
  c_lower (cell_of s v) = None -> c_upper (cell_of s v) = None ->
  filt H n s (V v) (map inj l) = Ok (map inj l).
Proof. intros L. destruct n as [|n]; [lia|]. apply filt_unbounded_conc. Qed.

Lemma inj_TOp o args : inj (TOp o args) = O o (map inj args).
Proof. reflexivity. Qed.

Ltac stage1_common n1 alts :=
  unfold conc_sig; run; rewrite eval_constr_elim; run; rewrite eval_list_sconc; run;
  rewrite cb_map_follow_inj; run; unfold constr_terms at 1; cbn [k_ref k_alts];
  rewrite closure_start_conc by (cbn; auto; lia); run;
  rewrite (minimize_conc_n n1 0 _ alts) by (try reflexivity; lia); run;
  rewrite forallb_inj; run; rewrite filt_unbounded_n by (try reflexivity; lia); run.

(* several alternatives left by minimize: the constraint stays pending *)
Lemma stage1_multi alts m1 m2 ms n0 n1 n2 sc : n0 = S n1 -> n1 = S n2 ->
  length alts + tys_depth alts + 4 <= n0 -> cmins alts = m1 :: m2 :: ms ->
  instance H n0 (conc_sig alts) (empty_store sc) =
  MOk (O Function [V 0; V 0]) (St ucell [0] (kc (V 0) (cmins alts) false) sc).
Proof.
  intros E0 E1 L Em. pose proof (wf_fun H W) as Vf.
  stage1_common n1 alts.
  rewrite Em. cbn [map]. run. reflexivity.
Qed.


(* a single alternative left: it is unified with the variable at once *)
Lemma stage1_top alts n0 n1 n2 n3 n4 n5 n6 sc :
  n0 = S n1 -> n1 = S n2 -> n2 = S n3 -> n3 = S n4 -> n4 = S n5 -> n5 = S n6 ->
  length alts + tys_depth alts + 4 <= n0 -> cmins alts = [TOp Top []] ->
  instance H n0 (conc_sig alts) (empty_store sc) =
  MOk (O Function [V 0; V 0]) (St ucell [0] (kc (V 0) [TOp Top []] true) sc).
Proof.
  intros E0 E1 E2 E3 E4 E5 L Em. pose proof (wf_fun H W) as Vf.
  stage1_common n1 alts.
  rewrite Em. cbn [map]. rewrite inj_TOp. run. reflexivity.
Qed.

Lemma stage1_bot alts n0 n1 n2 n3 n4 n5 n6 sc :
  n0 = S n1 -> n1 = S n2 -> n2 = S n3 -> n3 = S n4 -> n4 = S n5 -> n5 = S n6 ->
  length alts + tys_depth alts + 4 <= n0 -> cmins alts = [TOp Bottom []] ->
  instance H n0 (conc_sig alts) (empty_store sc) =
  MOk (O Function [V 0; V 0]) (St (bcell (TOp Bottom []) None) [] (kc (V 0) [TOp Bottom []] true) sc).
Proof.
  intros E0 E1 E2 E3 E4 E5 L Em. pose proof (wf_fun H W) as Vf.
  stage1_common n1 alts.
  rewrite Em. cbn [map]. rewrite inj_TOp. run.
  rewrite (occurs_inj' H Bottom [] n2) by (try reflexivity; cbn; lia). run.
  reflexivity.
Qed.

Lemma stage1_base alts hb n0 n1 n2 n3 n4 n5 n6 sc :
  n0 = S n1 -> n1 = S n2 -> n2 = S n3 -> n3 = S n4 -> n4 = S n5 -> n5 = S n6 ->
  length alts + tys_depth alts + 4 <= n0 -> good H hb -> cmins alts = [TOp hb []] ->
  instance H n0 (conc_sig alts) (empty_store sc) =
  MOk (O Function [V 0; V 0]) (St (bcell (TOp hb []) (Some hb)) [] (kc (V 0) [TOp hb []] true) sc).
Proof.
  intros E0 E1 E2 E3 E4 E5 L Gm Em. pose proof (wf_fun H W) as Vf.
  pose proof Gm as (Vm & Tm & Bm). pose proof (basic_of H _ Vm) as Bsm.
  destruct (good_SS H hb Gm) as (m' & ->).
  stage1_common n1 alts.
  rewrite Em. cbn [map]. rewrite inj_TOp. run.
  rewrite (occurs_inj' H (S (S m')) [] n2) by (try reflexivity; cbn; lia). run.
  reflexivity.
Qed.

Lemma stage1_comp alts g args n0 n1 n2 n3 n4 n5 n6 sc :
  n0 = S n1 -> n1 = S n2 -> n2 = S n3 -> n3 = S n4 -> n4 = S n5 -> n5 = S n6 ->
  length alts + tys_depth alts + 6 <= n0 -> variance H g <> [] -> cmins alts = [TOp g args] ->
  instance H n0 (conc_sig alts) (empty_store sc) =
  MOk (O Function [V 0; V 0]) (St (bcell (TOp g args) None) [] (kc (V 0) [TOp g args] true) sc).
Proof.
  intros E0 E1 E2 E3 E4 E5 L Vg Em. pose proof (wf_fun H W) as Vf.
  pose proof (nonbasic H _ Vg) as Bg.
  destruct (comp_SS H W _ Vg) as (g' & ->).
  assert (Ld : ty_depth (TOp (S (S g')) args) <= tys_depth alts).
  { apply tys_depth_in. apply (cmins_in H). rewrite Em. now left. }
  stage1_common n1 alts.
  rewrite Em. cbn [map]. rewrite inj_TOp. run.
  rewrite (occurs_inj' H (S (S g')) args n2) by (try reflexivity; lia). run.
  rewrite (vars_inj' (S (S g')) args n3) by lia. run'. bump_fix. cbn. rewrite Vf. cbn.
  rewrite (fix_ty_follow n1 false (V 0) (TOp (S (S g')) args)) by (try reflexivity; lia). cbn.
  rewrite (fix_ty_follow n1 true (V 0) (TOp (S (S g')) args)) by (try reflexivity; lia). cbn.
  reflexivity.
Qed.

(* ---------- stage 3: apply ---------- *)
Lemma follow_f_inj f s B : follow_f f s (inj B) = inj B.
Proof. destruct B as [o args]. destruct f; reflexivity. Qed.

Lemma follow_bcell m up cs k sc : follow (St (bcell m up) cs k sc) (V 0) = inj m.
Proof. destruct m as [o args]. reflexivity. Qed.

(* the variable is already resolved to the single alternative m: a plain
   application of (m -> m) *)
Lemma stage3_bound x m up cs k n0 n1 sc : n0 = S n1 ->
  ty_depth x + ty_depth m + 1 <= n0 ->
  apply H n0 (O Function [V 0; V 0]) (inj x) true (St (bcell m up) cs k sc) =
  match u H true true x m with
  | None => MOk (inj m) (St (bcell m up) cs k sc)
  | Some e => MEr (conv e) (St (bcell m up) cs k sc)
  end.
Proof.
  intros E0 L. unfold apply. cbn [bindM gets]. rewrite cb_follow_inj. cbn [follow follow_f ret].
  cbn [Nat.eqb Function andb is_fun negb bindM].
  rewrite E0 at 1. rewrite (unify_follow_r n1 x (V 0) m) by apply follow_bcell. rewrite <- E0.
  rewrite (unify_inj_fwd H x m n0) by lia.
  destruct (u H true true x m) as [e|]; cbn [ures]; [reflexivity|].
  apply fix_ty_follow; [apply follow_bcell|lia].
Qed.

(* the variable is unresolved and unbounded; the argument is Bottom: nothing happens *)
Lemma stage3_bottom xs k n0 n1 sc : n0 = S n1 ->
  apply H n0 (O Function [V 0; V 0]) (O Bottom xs) true (St ucell [0] k sc) =
  MOk (V 0) (St ucell [0] k sc).
Proof.
  intros E0. run. reflexivity.
Qed.

(* compound argument, the only alternative is Top *)
Lemma stage3_comp_top g args n0 n1 n2 n3 n4 n5 sc :
  n0 = S n1 -> n1 = S n2 -> n2 = S n3 -> n3 = S n4 -> n4 = S n5 ->
  variance H g <> [] -> ty_depth (TOp g args) + 4 <= n0 ->
  apply H n0 (O Function [V 0; V 0]) (inj (TOp g args)) true (St ucell [0] (kc (V 0) [TOp Top []] true) sc) =
  MOk (inj (TOp g args)) (St (bcell (TOp g args) None) [] (kc (V 0) [TOp Top []] true) sc).
Proof.
  intros E0 E1 E2 E3 E4 Vg L. pose proof (wf_fun H W) as Vf.
  pose proof (nonbasic H _ Vg) as Bg.
  destruct (comp_SS H W _ Vg) as (g' & ->).
  rewrite inj_TOp. run0.
  rewrite (occurs_inj' H (S (S g')) args n1) by (try reflexivity; lia). run0.
  rewrite (vars_inj' (S (S g')) args n2) by lia. run'.
  rewrite (fix_ty_follow n0 true (V 0) (TOp (S (S g')) args)) by (try reflexivity; lia).
  reflexivity.
Qed.

(* compound argument, several alternatives pending *)
Lemma stage3_comp_multi g args ms n0 n1 n2 n3 n4 n5 sc :
  n0 = S n1 -> n1 = S n2 -> n2 = S n3 -> n3 = S n4 -> n4 = S n5 ->
  variance H g <> [] -> ty_depth (TOp g args) + tys_depth ms + 6 <= n0 ->
  wf_ty H (TOp g args) -> Forall (wf_ty H) ms ->
  if existsb (subb (TOp g args)) (cmins ms)
  then exists s', apply H n0 (O Function [V 0; V 0]) (inj (TOp g args)) true (St ucell [0] (kc (V 0) ms false) sc) =
                  MOk (inj (TOp g args)) s'
  else exists s', apply H n0 (O Function [V 0; V 0]) (inj (TOp g args)) true (St ucell [0] (kc (V 0) ms false) sc) =
                  MEr EConstraintViolation s'.
Proof.
  intros E0 E1 E2 E3 E4 Vg L Wx Wm. pose proof (wf_fun H W) as Vf.
  pose proof (nonbasic H _ Vg) as Bg.
  destruct (comp_SS H W _ Vg) as (g' & ->).
  destruct (filter (subb (TOp (S (S g')) args)) (cmins ms)) as [|m1 [|m2 rest]] eqn:Ef.
  - rewrite (filter_nil_existsb _ _ Ef). eexists. rewrite inj_TOp. run0.
    rewrite (occurs_inj' H (S (S g')) args n1) by (try reflexivity; lia). run0.
    rewrite (vars_inj' (S (S g')) args n2) by lia. run0.
    rewrite (fulfill_res n3 _ _ (V 0) ms sc (TOp (S (S g')) args)) by (try reflexivity; auto; lia).
    rewrite Ef. reflexivity.
  - rewrite (filter_cons_existsb _ _ _ _ Ef). eexists. rewrite inj_TOp. run0.
    rewrite (occurs_inj' H (S (S g')) args n1) by (try reflexivity; lia). run0.
    rewrite (vars_inj' (S (S g')) args n2) by lia. run0.
    rewrite (fulfill_res n3 _ _ (V 0) ms sc (TOp (S (S g')) args)) by (try reflexivity; auto; lia).
    rewrite Ef. run0.
    rewrite (fix_ty_follow n0 true (V 0) (TOp (S (S g')) args)) by (try reflexivity; lia).
    reflexivity.
  - rewrite (filter_cons_existsb _ _ _ _ Ef). eexists. rewrite inj_TOp. run0.
    rewrite (occurs_inj' H (S (S g')) args n1) by (try reflexivity; lia). run0.
    rewrite (vars_inj' (S (S g')) args n2) by lia. run0.
    rewrite (fulfill_res n3 _ _ (V 0) ms sc (TOp (S (S g')) args)) by (try reflexivity; auto; lia).
    rewrite Ef. run0.
    rewrite (fix_ty_follow n0 true (V 0) (TOp (S (S g')) args)) by (try reflexivity; lia).
    reflexivity.
Qed.

(* ---------- base-type argument: the variable gets a lower bound first ---------- *)

Lemma subb_base a B : good H a ->
  subb (TOp a []) B = Nat.eqb (ty_op B) Top || op_subtype H false a (ty_op B).
Proof.
  intros (Va & Ta & Ba). destruct B as [ob ys]. cbn [ty_op]. unfold FitsEngineConcBase.subb.
  rewrite m_TOp. cbn [andb]. apply Nat.eqb_neq in Ba. rewrite Ba. cbn [orb].
  destruct (Nat.eqb ob Top); [reflexivity|]. unfold arity. rewrite Va. cbn [length Nat.eqb orb].
  fold (le H a ob). rewrite (eqb_or_le H). destruct (le H a ob); reflexivity.
Qed.

Lemma filt_lower_conc n a l sc cs k : 1 <= n -> good H a ->
  filt H n (St (lcell a) cs k sc) (V 0) (map inj l) = Ok (map inj (filter (subb (TOp a [])) l)).
Proof.
  intros Ln Ga. destruct n as [|n]; [lia|]. apply filt_keep. rewrite Forall_forall. intros [ob ys] _.
  rewrite (subb_base a _ Ga). cbn [ty_op]. pose proof Ga as (Va & Ta & Ba).
  rewrite inj_TOp. rewrite match_f_VO by reflexivity. cbn.
  destruct (Nat.eqb ob Top) eqn:Et; [eexists; split; reflexivity|]. cbn [orb].
  destruct (basic H ob) eqn:Bo; cbn [negb andb].
  - unfold osub. destruct (op_subtype H false a ob); eexists; split; reflexivity.
  - assert (Vo : variance H ob <> []).
    { intros Vo. rewrite (basic_of H _ Vo) in Bo. discriminate. }
    rewrite (osub_base_comp H W a ob Va Ba Vo). eexists; split; reflexivity.
Qed.

(* a surviving alternative of a base-type argument is Top or a base type above it *)
Lemma subb_base_inv a B : good H a -> wf_ty H B -> subb (TOp a []) B = true ->
  B = TOp Top [] \/ exists hb, B = TOp hb [] /\ good H hb /\ op_subtype H false a hb = true.
Proof.
  intros Ga Wb E. rewrite (subb_base a B Ga) in E. destruct B as [ob ys]. cbn [ty_op] in E.
  pose proof Ga as (Va & Ta & Ba).
  apply wf_ty_unfold in Wb. destruct Wb as [Lb _].
  destruct (Nat.eqb_spec ob Top) as [->|NT].
  { left. rewrite (vr_top H W) in Lb. destruct ys; [reflexivity|discriminate]. }
  right. cbn [orb] in E.
  assert (Vo : variance H ob = []).
  { destruct (variance H ob) eqn:Vo; [reflexivity|].
    rewrite (osub_base_comp H W a ob Va Ba) in E; [discriminate|]. rewrite Vo. discriminate. }
  rewrite Vo in Lb. destruct ys; [|discriminate].
  exists ob. split; [reflexivity|]. split; [|exact E]. split; [exact Vo|split; [exact NT|]].
  intros ->. destruct (good_SS H a Ga) as (a' & ->). rewrite (osub_to_bot' H W) in E. discriminate.
Qed.

Lemma fulfill_lower n n1 n2 n3 n4 n5 a l sc :
  n = S n1 -> n1 = S n2 -> n2 = S n3 -> n3 = S n4 -> n4 = S n5 ->
  good H a -> Forall (wf_ty H) l -> tys_depth l + 5 <= n ->
  fulfill H n 0 (St (lcell a) [0] (kc (V 0) l false) sc) =
    match filter (subb (TOp a [])) (cmins l) with
    | [] => MEr EConstraintViolation (St (lcell a) [0] (kc (V 0) [] false) sc)
    | [m] => if Nat.eqb (ty_op m) Top then MOk true (St (lcell a) [0] (kc (V 0) [m] true) sc)
             else MOk true (St (mkCell false (if Nat.eqb a (ty_op m) then Some (O a []) else None)
                                       (Some a) (Some (ty_op m)) 0) [] (kc (V 0) [m] true) sc)
    | l2 => MOk false (St (lcell a) [0] (kc (V 0) l2 false) sc)
    end.
Proof.
  intros E0 E1 E2 E3 E4 Ga Wl L.
  assert (Fl : forall B, In B (filter (subb (TOp a [])) (cmins l)) -> wf_ty H B /\ subb (TOp a []) B = true).
  { intros B I. apply filter_In in I. destruct I as (I & E). split; auto.
    apply cmins_in in I. rewrite Forall_forall in Wl. auto. }
  pose proof Ga as (Va & Ta & Ba). pose proof (basic_of H _ Va) as Bsa.
  destruct (good_SS H a Ga) as (a' & Ea).
  rewrite E0 at 1. rewrite fulfill_S'.
  cbn [bindM gets constr_of nth constrs k_elim k_done].
  rewrite (minimize_conc_n n1 0 _ l) by (try reflexivity; lia).
  cbn [constr_of nth constrs k_elim k_done k_ref k_strict k_alts set_constr upd vars csets sched].
  unfold constr_terms. cbn [k_ref k_alts forallb follow follow_f cell_of nth vars c_bound length].
  rewrite forallb_inj. cbn [andb negb bindM lift].
  rewrite (filt_lower_conc n1 a (cmins l)) by (auto; lia).
  destruct (filter (subb (TOp a [])) (cmins l)) as [|m1 [|m2 rest]].
  - reflexivity.
  - destruct (Fl m1 (or_introl eq_refl)) as (Wm & Em).
    destruct (subb_base_inv a m1 Ga Wm Em) as [->|(hb & -> & Gh & Lh)].
    + cbn [ty_op map]. rewrite inj_TOp. subst a. run. reflexivity.
    + cbn [ty_op map]. rewrite inj_TOp.
      pose proof (strict_false_of_le H W a hb Ga Gh Lh) as Sh.
      pose proof Gh as (Vh & Th & Bh). pose proof (basic_of H _ Vh) as Bsh.
      destruct (good_SS H hb Gh) as (h' & Eh). subst a hb.
      assert (Q : (a' =? h') = true \/ ((a' =? h') = false /\ (h' =? a') = false)).
      { destruct (Nat.eqb_spec a' h') as [->|N]; auto. right. split; auto. apply Nat.eqb_neq. congruence. }
      destruct Q as [Q|[Q Q']]; [apply Nat.eqb_eq in Q; subst h'|].
      * run. rewrite (occurs_base_lower H n2 _ (S (S a')) 0 (S (S a'))) by (try reflexivity; auto; lia). run. reflexivity.
      * run. rewrite (occurs_base_lower H n2 _ (S (S h')) 0 (S (S a'))) by (try reflexivity; auto; lia). run. reflexivity.
  - reflexivity.
Qed.

(* ---------- argument Top ---------- *)
Lemma stage3_top_top n0 n1 n2 n3 n4 n5 sc :
  n0 = S n1 -> n1 = S n2 -> n2 = S n3 -> n3 = S n4 -> n4 = S n5 ->
  exists s', apply H n0 (O Function [V 0; V 0]) (inj (TOp Top [])) true (St ucell [0] (kc (V 0) [TOp Top []] true) sc) =
  MOk (inj (TOp Top [])) s'.
Proof.
  intros E0 E1 E2 E3 E4. pose proof (wf_fun H W) as Vf.
  eexists. rewrite inj_TOp. run0.
  rewrite (occurs_inj' H Top [] n1) by (try reflexivity; cbn; lia). run. reflexivity.
Qed.

Lemma stage3_top_multi ms n0 n1 n2 n3 n4 n5 sc :
  n0 = S n1 -> n1 = S n2 -> n2 = S n3 -> n3 = S n4 -> n4 = S n5 ->
  tys_depth ms + 8 <= n0 -> Forall (wf_ty H) ms ->
  if existsb (subb (TOp Top [])) (cmins ms)
  then exists s', apply H n0 (O Function [V 0; V 0]) (inj (TOp Top [])) true (St ucell [0] (kc (V 0) ms false) sc) =
                  MOk (inj (TOp Top [])) s'
  else exists s', apply H n0 (O Function [V 0; V 0]) (inj (TOp Top [])) true (St ucell [0] (kc (V 0) ms false) sc) =
                  MEr EConstraintViolation s'.
Proof.
  intros E0 E1 E2 E3 E4 L Wm. pose proof (wf_fun H W) as Vf.
  assert (Wx : wf_ty H (TOp Top [])).
  { apply wf_ty_unfold. rewrite (vr_top H W). auto. }
  destruct (filter (subb (TOp Top [])) (cmins ms)) as [|m1 [|m2 rest]] eqn:Ef.
  - rewrite (filter_nil_existsb _ _ Ef). eexists. rewrite inj_TOp. run0.
    rewrite (occurs_inj' H Top [] n1) by (try reflexivity; cbn; lia). run0.
    rewrite (fulfill_res n4 _ _ (V 0) ms sc (TOp Top [])) by (try reflexivity; auto; cbn; lia).
    rewrite Ef. reflexivity.
  - rewrite (filter_cons_existsb _ _ _ _ Ef). eexists. rewrite inj_TOp. run0.
    rewrite (occurs_inj' H Top [] n1) by (try reflexivity; cbn; lia). run0.
    rewrite (fulfill_res n4 _ _ (V 0) ms sc (TOp Top [])) by (try reflexivity; auto; cbn; lia).
    rewrite Ef. run. reflexivity.
  - rewrite (filter_cons_existsb _ _ _ _ Ef). eexists. rewrite inj_TOp. run0.
    rewrite (occurs_inj' H Top [] n1) by (try reflexivity; cbn; lia). run0.
    rewrite (fulfill_res n4 _ _ (V 0) ms sc (TOp Top [])) by (try reflexivity; auto; cbn; lia).
    rewrite Ef. run. reflexivity.
Qed.

(* ---------- base-type argument (not Top, not Bottom) ---------- *)
Lemma stage3_base_top a n0 n1 n2 n3 n4 n5 sc :
  n0 = S n1 -> n1 = S n2 -> n2 = S n3 -> n3 = S n4 -> n4 = S n5 -> good H a ->
  exists s', apply H n0 (O Function [V 0; V 0]) (inj (TOp a [])) true (St ucell [0] (kc (V 0) [TOp Top []] true) sc) =
  MOk (inj (TOp a [])) s'.
Proof.
  intros E0 E1 E2 E3 E4 Ga. pose proof (wf_fun H W) as Vf.
  pose proof Ga as (Va & Ta & Ba). pose proof (basic_of H _ Va) as Bsa.
  destruct (good_SS H a Ga) as (a' & ->).
  eexists. rewrite inj_TOp. run0.
  rewrite (occurs_inj' H (S (S a')) [] n1) by (try reflexivity; cbn; lia). run. reflexivity.
Qed.

Lemma stage3_base_multi a ms n0 n1 n2 n3 n4 n5 n6 n7 n8 sc :
  n0 = S n1 -> n1 = S n2 -> n2 = S n3 -> n3 = S n4 -> n4 = S n5 -> n5 = S n6 -> n6 = S n7 -> n7 = S n8 ->
  good H a -> tys_depth ms + 10 <= n0 -> Forall (wf_ty H) ms ->
  if existsb (subb (TOp a [])) (cmins ms)
  then exists s', apply H n0 (O Function [V 0; V 0]) (inj (TOp a [])) true (St ucell [0] (kc (V 0) ms false) sc) =
                  MOk (inj (TOp a [])) s'
  else exists s', apply H n0 (O Function [V 0; V 0]) (inj (TOp a [])) true (St ucell [0] (kc (V 0) ms false) sc) =
                  MEr EConstraintViolation s'.
Proof.
  intros E0 E1 E2 E3 E4 E5 E6 E7 Ga L Wm. pose proof (wf_fun H W) as Vf.
  pose proof Ga as (Va & Ta & Ba). pose proof (basic_of H _ Va) as Bsa.
  assert (Wx : wf_ty H (TOp a [])).
  { apply wf_ty_unfold. rewrite Va. auto. }
  assert (Fl : forall B, In B (filter (subb (TOp a [])) (cmins ms)) -> wf_ty H B /\ subb (TOp a []) B = true).
  { intros B I. apply filter_In in I. destruct I as (I & E). split; auto.
    apply cmins_in in I. rewrite Forall_forall in Wm. auto. }
  destruct (good_SS H a Ga) as (a' & Ea).
  destruct (filter (subb (TOp a [])) (cmins ms)) as [|m1 [|m2 rest]] eqn:Ef.
  - rewrite (filter_nil_existsb _ _ Ef). eexists. rewrite inj_TOp. subst a. run0.
    rewrite (occurs_inj' H (S (S a')) [] n1) by (try reflexivity; cbn; lia). run0.
    rewrite (fulfill_lower n3 n4 n5 n6 n7 n8 (S (S a')) ms sc) by (auto; lia).
    rewrite Ef. reflexivity.
  - rewrite (filter_cons_existsb _ _ _ _ Ef).
    destruct (Fl m1 (or_introl eq_refl)) as (Wm1 & Em1).
    destruct (subb_base_inv a m1 Ga Wm1 Em1) as [->|(hb & -> & Gh & Lh)].
    + eexists. rewrite inj_TOp. subst a. run0.
      rewrite (occurs_inj' H (S (S a')) [] n1) by (try reflexivity; cbn; lia). run0.
      rewrite (fulfill_lower n3 n4 n5 n6 n7 n8 (S (S a')) ms sc) by (auto; lia).
      rewrite Ef. run. reflexivity.
    + pose proof (strict_false_of_le H W a hb Ga Gh Lh) as Sh.
      pose proof Gh as (Vh & Th & Bh). pose proof (basic_of H _ Vh) as Bsh.
      destruct (good_SS H hb Gh) as (h' & Eh). subst a hb.
      assert (Q : (a' =? h') = true \/ ((a' =? h') = false /\ (h' =? a') = false)).
      { destruct (Nat.eqb_spec a' h') as [->|N]; auto. right. split; auto. apply Nat.eqb_neq. congruence. }
      destruct Q as [Q|[Q Q']]; [apply Nat.eqb_eq in Q; subst h'|].
      * eexists. rewrite inj_TOp. run0.
        rewrite (occurs_inj' H (S (S a')) [] n1) by (try reflexivity; cbn; lia). run0.
        rewrite (fulfill_lower n3 n4 n5 n6 n7 n8 (S (S a')) ms sc) by (auto; lia).
        rewrite Ef. run. reflexivity.
      * eexists. rewrite inj_TOp. run0.
        rewrite (occurs_inj' H (S (S a')) [] n1) by (try reflexivity; cbn; lia). run0.
        rewrite (fulfill_lower n3 n4 n5 n6 n7 n8 (S (S a')) ms sc) by (auto; lia).
        rewrite Ef. run. reflexivity.
  - rewrite (filter_cons_existsb _ _ _ _ Ef).
    set (l2 := m1 :: m2 :: rest) in *.
    assert (W2 : Forall (wf_ty H) l2) by (apply Forall_forall; intros B I; apply Fl; exact I).
    assert (Ef2 : filter (subb (TOp a [])) (cmins l2) = cmins l2).
    { apply filter_all'. apply Forall_forall. intros B I. apply Fl. apply (cmins_in H). exact I. }
    assert (NE : cmins l2 <> []) by (apply (cmins_nonempty H W); [exact W2|discriminate]).
    assert (D2 : tys_depth l2 <= tys_depth ms).
    { assert (F : Forall (fun x => ty_depth x < S (tys_depth ms)) l2).
      { apply Forall_forall. intros B I. rewrite <- Ef in I. apply filter_In in I. destruct I as (I & _).
        apply (cmins_in H) in I. apply tys_depth_in in I. lia. }
      clear -F. induction F as [|x r Hx _ IH]; cbn [tys_depth fold_right]; [lia|]. fold (tys_depth r). lia. }
    destruct (cmins l2) as [|u1 [|u2 urest]] eqn:Ec; [congruence| |].
    all: eexists; rewrite inj_TOp; subst a; run0.
    all: rewrite (occurs_inj' H (S (S a')) [] n1) by (try reflexivity; cbn; lia); run0.
    all: rewrite (fulfill_lower n3 n4 n5 n6 n7 n8 (S (S a')) ms sc) by (auto; lia).
    all: rewrite Ef; run0; bump_fix; run0.
    all: fold l2.
    all: assert (L3 : ty_depth (TOp (S (S a')) []) + tys_depth l2 + 3 <= n3) by (cbn [ty_depth fold_right]; lia).
    all: rewrite (fulfill_res n3 _ _ (V 0) l2 sc (TOp (S (S a')) [])) by (try reflexivity; auto).
    all: rewrite Ec, Ef2; run; reflexivity.
Qed.

(* ---------- whole programs ---------- *)
Definition Fsig : tyv := O Function [V 0; V 0].

(* the value of an accepted application when the variable is not resolved to
   an alternative: the argument itself; a Bottom argument leaves the variable
   unresolved (unify skips Bottom) *)
Definition res_arg (x : ty) : tyv := if Nat.eqb (ty_op x) Bottom then V 0 else inj x.

Definition expected_conc (x : ty) (alts : list ty) : option (err * nat) * list tyv :=
  match cmins alts with
  | [m] =>
      if Nat.eqb (ty_op m) Top then (None, [Fsig; inj x; res_arg x])
      else match u H true true x m with
           | None => (None, [Fsig; inj x; inj m])
           | Some e => (Some (conv e, 2), [Fsig; inj x])
           end
  | _ => if existsb (subb x) alts then (None, [Fsig; inj x; res_arg x])
         else (Some (EConstraintViolation, 2), [Fsig; inj x])
  end.

Lemma wf_classify t : wf_ty H t ->
  t = TOp Top [] \/ t = TOp Bottom [] \/ (exists a, t = TOp a [] /\ good H a) \/
  (exists g args, t = TOp g args /\ variance H g <> []).
Proof.
  intros Wt. destruct t as [o args]. apply wf_ty_unfold in Wt. destruct Wt as [L _].
  destruct (variance H o) as [|v vs] eqn:Vo.
  - destruct args; [|discriminate].
    destruct (Nat.eqb_spec o Top) as [->|NT]; auto.
    destruct (Nat.eqb_spec o Bottom) as [->|NB]; auto.
    right. right. left. exists o. split; auto. split; auto.
  - right. right. right. exists o, args. split; auto. rewrite Vo. discriminate.
Qed.

Lemma observe_ok t1 x r s : observe (None, [t1; inj x; r], s) = (None, [follow s t1; inj x; follow s r]).
Proof. unfold observe. cbn [fst snd map]. rewrite cb_follow_inj. reflexivity. Qed.

Lemma observe_er e t1 x s : observe (Some e, [t1; inj x], s) = (Some e, [follow s t1; inj x]).
Proof. unfold observe. cbn [fst snd map]. rewrite cb_follow_inj. reflexivity. Qed.

Lemma subb_bottom xs B : subb (TOp Bottom xs) B = true.
Proof. destruct B as [ob ys]. unfold FitsEngineConcBase.subb. rewrite m_TOp. reflexivity. Qed.

Lemma res_arg_inj x : ty_op x <> Bottom -> res_arg x = inj x.
Proof. intros N. unfold res_arg. apply Nat.eqb_neq in N. now rewrite N. Qed.

(* `a ** a [a << alts]` applied to x: the exact observation *)
Theorem engine_conc x alts fuel sc :
  wf_ty H x -> Forall (wf_ty H) alts -> alts <> [] ->
  length alts + tys_depth alts + ty_depth x + 10 <= fuel ->
  observe (run_cmds H fuel (conc_prog x alts) 0 [] (empty_store sc)) = expected_conc x alts.
Proof.
  intros Wx Wa NE L.
  assert (L9 : 9 <= fuel) by lia.
  destruct (chain9 fuel L9) as (n1 & n2 & n3 & n4 & n5 & n6 & n7 & n8 & n9 & E0 & E1 & E2 & E3 & E4 & E5 & E6 & E7 & E8).
  assert (LD : ty_depth x < fuel) by lia.
  pose proof (cmins_nonempty H W alts Wa NE) as NEm.
  pose proof (cmins_Forall H _ alts Wa) as Wms.
  pose proof (tys_depth_cmins alts) as Dms.
  unfold expected_conc, conc_prog.
  destruct (cmins alts) as [|m1 [|m2 ms]] eqn:Em; [congruence| |].
  - (* a single alternative left *)
    assert (Wm : wf_ty H m1) by now inversion Wms.
    assert (Dm : ty_depth m1 <= tys_depth alts).
    { apply tys_depth_in. apply (cmins_in H). rewrite Em. now left. }
    destruct (wf_classify m1 Wm) as [->|[->|[(hb & -> & Gh)|(g & args & -> & Vg)]]]; cbn [ty_op].
    + (* Top *)
      rewrite (run3' H fuel _ x _ _ _ LD
                 (stage1_top alts fuel n1 n2 n3 n4 n5 n6 sc E0 E1 E2 E3 E4 E5 ltac:(lia) Em)).
      cbn [Nat.eqb Top].
      destruct (wf_classify x Wx) as [->|[->|[(a & -> & Ga)|(g & args & -> & Vg)]]].
      * destruct (stage3_top_top fuel n1 n2 n3 n4 n5 sc E0 E1 E2 E3 E4) as (s' & ->).
        rewrite observe_ok, cb_follow_inj. reflexivity.
      * rewrite inj_TOp. cbn [map].
        rewrite (stage3_bottom [] _ fuel n1 sc E0). reflexivity.
      * destruct (stage3_base_top a fuel n1 n2 n3 n4 n5 sc E0 E1 E2 E3 E4 Ga) as (s' & ->).
        rewrite observe_ok, cb_follow_inj. rewrite res_arg_inj; [reflexivity|apply Ga].
      * rewrite (stage3_comp_top g args fuel n1 n2 n3 n4 n5 sc E0 E1 E2 E3 E4 Vg ltac:(lia)).
        rewrite observe_ok, cb_follow_inj. rewrite res_arg_inj; [reflexivity|].
        cbn [ty_op]. intros ->. now rewrite (vr_bot H W) in Vg.
    + (* Bottom *)
      rewrite (run3' H fuel _ x _ _ _ LD
                 (stage1_bot alts fuel n1 n2 n3 n4 n5 n6 sc E0 E1 E2 E3 E4 E5 ltac:(lia) Em)).
      cbn [Nat.eqb Top Bottom].
      rewrite (stage3_bound x (TOp Bottom []) None [] _ fuel n1 sc E0 ltac:(cbn [ty_depth fold_right]; lia)).
      destruct (u H true true x (TOp Bottom [])) as [e|].
      * rewrite observe_er. reflexivity.
      * rewrite observe_ok, cb_follow_inj. reflexivity.
    + (* a base type *)
      rewrite (run3' H fuel _ x _ _ _ LD
                 (stage1_base alts hb fuel n1 n2 n3 n4 n5 n6 sc E0 E1 E2 E3 E4 E5 ltac:(lia) Gh Em)).
      assert (NT : Nat.eqb hb Top = false) by (apply Nat.eqb_neq; apply Gh). rewrite NT.
      rewrite (stage3_bound x (TOp hb []) (Some hb) [] _ fuel n1 sc E0 ltac:(cbn [ty_depth fold_right]; lia)).
      destruct (u H true true x (TOp hb [])) as [e|].
      * rewrite observe_er. reflexivity.
      * rewrite observe_ok, cb_follow_inj. reflexivity.
    + (* a compound type *)
      rewrite (run3' H fuel _ x _ _ _ LD
                 (stage1_comp alts g args fuel n1 n2 n3 n4 n5 n6 sc E0 E1 E2 E3 E4 E5 ltac:(lia) Vg Em)).
      assert (NT : Nat.eqb g Top = false).
      { apply Nat.eqb_neq. intros ->. now rewrite (vr_top H W) in Vg. }
      rewrite NT.
      rewrite (stage3_bound x (TOp g args) None [] _ fuel n1 sc E0 ltac:(lia)).
      destruct (u H true true x (TOp g args)) as [e|].
      * rewrite observe_er. reflexivity.
      * rewrite observe_ok, cb_follow_inj. reflexivity.
  - (* several alternatives left *)
    rewrite <- Em in *.
    rewrite (run3' H fuel _ x _ _ _ LD
               (stage1_multi alts m1 m2 ms fuel n1 n2 sc E0 E1 ltac:(lia) Em)).
    assert (Ex : existsb (subb x) (cmins (cmins alts)) = existsb (subb x) alts).
    { rewrite (cmins_exists H W x (cmins alts) Wx Wms). apply (cmins_exists H W x alts Wx Wa). }
    rewrite <- Ex.
    destruct (wf_classify x Wx) as [->|[->|[(a & -> & Ga)|(g & args & -> & Vg)]]].
    + pose proof (stage3_top_multi (cmins alts) fuel n1 n2 n3 n4 n5 sc E0 E1 E2 E3 E4 ltac:(lia) Wms) as S3.
      destruct (existsb (subb (TOp Top [])) (cmins (cmins alts))); destruct S3 as (s' & ->).
      * rewrite observe_ok, cb_follow_inj. reflexivity.
      * rewrite observe_er. reflexivity.
    + rewrite inj_TOp. cbn [map]. rewrite (stage3_bottom [] _ fuel n1 sc E0).
      assert (Eb : existsb (subb (TOp Bottom [])) (cmins (cmins alts)) = true).
      { rewrite Ex. destruct alts as [|b alts']; [congruence|]. cbn [existsb]. now rewrite subb_bottom. }
      rewrite Eb. reflexivity.
    + pose proof (stage3_base_multi a (cmins alts) fuel n1 n2 n3 n4 n5 n6 n7 n8 sc E0 E1 E2 E3 E4 E5 E6 E7 Ga ltac:(lia) Wms) as S3.
      destruct (existsb (subb (TOp a [])) (cmins (cmins alts))); destruct S3 as (s' & ->).
      * rewrite observe_ok, cb_follow_inj. rewrite res_arg_inj; [reflexivity|apply Ga].
      * rewrite observe_er. reflexivity.
    + pose proof (stage3_comp_multi g args (cmins alts) fuel n1 n2 n3 n4 n5 sc E0 E1 E2 E3 E4 Vg ltac:(lia) Wx Wms) as S3.
      destruct (existsb (subb (TOp g args)) (cmins (cmins alts))); destruct S3 as (s' & ->).
      * rewrite observe_ok, cb_follow_inj. rewrite res_arg_inj; [reflexivity|].
        cbn [ty_op]. intros ->. now rewrite (vr_bot H W) in Vg.
      * rewrite observe_er. reflexivity.
Qed.

(* ---------- acceptance, error kinds, result ---------- *)
Definition outcome_conc (fuel : nat) (sc : list nat) (x : ty) (alts : list ty) : option (err * nat) :=
  fst (fst (run_cmds H fuel (conc_prog x alts) 0 [] (empty_store sc))).

Lemma wf_sty_sconc t : wf_ty H t -> wf_sty H (sconc t).
Proof.
  induction t as [o args IH] using ty_ind'. intros Wt. apply wf_ty_unfold in Wt. destruct Wt as [L F].
  cbn [sconc]. apply wf_sty_unfold. rewrite map_length. split; [exact L|].
  rewrite Forall_forall in *. intros p Hp. apply in_map_iff in Hp. destruct Hp as (a & <- & Ha). auto.
Qed.

Lemma svars_sconc t : svars (sconc t) = [].
Proof.
  induction t as [o args IH] using ty_ind'. cbn [sconc svars].
  induction IH as [|a r Ha _ IHr]; [reflexivity|]. cbn [map flat_map]. now rewrite Ha, IHr.
Qed.

Lemma linear_sconc t : linear (sconc t).
Proof. unfold linear. rewrite svars_sconc. constructor. Qed.

Lemma uargs_kinds (f : bool -> ty -> ty -> option Match.terr) d vs : forall xs ys e,
  Forall (fun x => forall d' y e', f d' x y = Some e' -> e' = Match.ESubtypeMismatch \/ e' = Match.ETypeMismatch) xs ->
  uargs f d vs xs ys = Some e -> e = Match.ESubtypeMismatch \/ e = Match.ETypeMismatch.
Proof.
  induction vs as [|v vs IH]; intros xs ys e F E.
  - destruct xs; discriminate.
  - destruct xs as [|x xs]; [discriminate|]. destruct ys as [|y ys]; [discriminate|].
    cbn [uargs] in E. inversion F as [|? ? Fx F']; subst.
    destruct (f (if v then d else negb d) x y) as [e'|] eqn:E1; cbn [seq_res] in E.
    + injection E as <-. eapply Fx; eauto.
    + eapply IH; eauto.
Qed.

Lemma u_TOp sub d oa xs ob ys :
  u H sub d (TOp oa xs) (TOp ob ys) =
      let l := if d then oa else ob in
      let r := if d then ob else oa in
      if Nat.eqb l Bottom || Nat.eqb r Top then None
      else if Nat.eqb (arity H l) 0 then
        if sub then (if op_subtype H false l r then None else Some Match.ESubtypeMismatch)
        else (if Nat.eqb l r then None else Some Match.ETypeMismatch)
      else if Nat.eqb l r then
        uargs (fun d' x y => u H sub d' x y) d (variance H oa) xs ys
      else Some Match.ETypeMismatch.
Proof. reflexivity. Qed.

Lemma u_kinds a : forall sub d b e, u H sub d a b = Some e ->
  e = Match.ESubtypeMismatch \/ e = Match.ETypeMismatch.
Proof.
  induction a as [oa xs IH] using ty_ind'. intros sub d [ob ys] e E. rewrite u_TOp in E. cbn zeta in E.
  destruct (Nat.eqb (if d then oa else ob) Bottom || Nat.eqb (if d then ob else oa) Top); [discriminate|].
  destruct (Nat.eqb (arity H (if d then oa else ob)) 0).
  { destruct sub.
    - destruct (op_subtype H false (if d then oa else ob) (if d then ob else oa)); [discriminate|]. injection E as <-. auto.
    - destruct (Nat.eqb (if d then oa else ob) (if d then ob else oa)); [discriminate|]. injection E as <-. auto. }
  destruct (Nat.eqb (if d then oa else ob) (if d then ob else oa)).
  - eapply uargs_kinds; [|exact E]. rewrite Forall_forall in *. intros x Hx d' y e' E'. eapply IH; eauto.
  - injection E as <-. auto.
Qed.

Lemma subb_u x B : wf_ty H x -> wf_ty H B -> (subb x B = true <-> u H true true x B = None).
Proof.
  intros Wx Wb. split; [now apply subb_u_none|].
  intros U. destruct (subb x B) eqn:E; [reflexivity|].
  destruct (subb_u_some x B Wx Wb E) as (e & U'). congruence.
Qed.

Lemma subb_top x : subb x (TOp Top []) = true.
Proof.
  destruct x as [ox xs]. unfold FitsEngineConcBase.subb. rewrite m_TOp. cbn [andb].
  replace (Nat.eqb Top Top) with true by reflexivity. now rewrite orb_true_r.
Qed.

(* accepted exactly when some alternative is above the argument *)
Lemma expected_accept x alts : wf_ty H x -> Forall (wf_ty H) alts ->
  (fst (expected_conc x alts) = None <-> existsb (subb x) alts = true).
Proof.
  intros Wx Wa. unfold expected_conc.
  pose proof (cmins_exists H W x alts Wx Wa) as Ex.
  pose proof (cmins_Forall H _ alts Wa) as Wms.
  destruct (cmins alts) as [|m1 [|m2 ms]] eqn:Em.
  - destruct (existsb (subb x) alts); cbn [fst]; split; congruence.
  - assert (Wm : wf_ty H m1) by now inversion Wms.
    cbn [existsb] in Ex. rewrite orb_false_r in Ex. rewrite <- Ex.
    destruct (Nat.eqb_spec (ty_op m1) Top) as [Et|Nt].
    + cbn [fst]. destruct m1 as [o args]. cbn [ty_op] in Et. subst o.
      apply wf_ty_unfold in Wm. destruct Wm as [Lm _]. rewrite (vr_top H W) in Lm.
      destruct args; [|discriminate]. rewrite subb_top. tauto.
    + rewrite (subb_u x m1 Wx Wm). destruct (u H true true x m1); cbn [fst]; split; congruence.
  - destruct (existsb (subb x) alts); cbn [fst]; split; congruence.
Qed.

Theorem engine_conc_accept x alts fuel sc :
  wf_ty H x -> Forall (wf_ty H) alts -> alts <> [] ->
  length alts + tys_depth alts + ty_depth x + 10 <= fuel ->
  (outcome_conc fuel sc x alts = None <-> exists T, In T alts /\ Sub H x T) /\
  (outcome_conc fuel sc x alts = None <-> accept_spec H x (map sconc alts) = true) /\
  (outcome_conc fuel sc x alts = None <-> exists T, In T alts /\ Fits H x (sconc T)) /\
  (outcome_conc fuel sc x alts <> None ->
     (exists m e, cmins alts = [m] /\ u H true true x m = Some e /\
                  outcome_conc fuel sc x alts = Some (conv e, 2) /\
                  (conv e = ESubtypeMismatch \/ conv e = ETypeMismatch)) \/
     ((forall m, cmins alts <> [m]) /\ outcome_conc fuel sc x alts = Some (EConstraintViolation, 2))).
Proof.
  intros Wx Wa NE L.
  pose proof (engine_conc x alts fuel sc Wx Wa NE L) as E.
  assert (E' : outcome_conc fuel sc x alts = fst (expected_conc x alts)).
  { unfold outcome_conc. rewrite <- E. reflexivity. }
  pose proof (expected_accept x alts Wx Wa) as A. rewrite <- E' in A.
  pose proof (existsb_subb_iff H W x alts Wx Wa) as B.
  assert (C : (exists T, In T alts /\ Sub H x T) <-> exists T, In T alts /\ Fits H x (sconc T)).
  { split; intros (T & I & S); exists T; split; auto; apply (Fits_concrete H W); auto. }
  assert (D : accept_spec H x (map sconc alts) = true <-> exists T, In T alts /\ Fits H x (sconc T)).
  { rewrite (accept_spec_iff H W x (map sconc alts) Wx).
    - split.
      + intros (alt & I & F). apply in_map_iff in I. destruct I as (T & <- & I). eauto.
      + intros (T & I & F). exists (sconc T). split; auto. now apply in_map.
    - rewrite Forall_forall in *. intros p Hp. apply in_map_iff in Hp. destruct Hp as (T & <- & I).
      apply wf_sty_sconc. auto.
    - rewrite Forall_forall. intros p Hp. apply in_map_iff in Hp. destruct Hp as (T & <- & I).
      apply linear_sconc. }
  split; [tauto|]. split; [tauto|]. split; [tauto|].
  intros N. rewrite E' in *. unfold expected_conc in *.
  destruct (cmins alts) as [|m1 [|m2 ms]] eqn:Em.
  - right. split; [intros m; discriminate|]. destruct (existsb (subb x) alts); cbn [fst] in *; congruence.
  - destruct (Nat.eqb (ty_op m1) Top); [cbn [fst] in N; congruence|].
    destruct (u H true true x m1) as [e|] eqn:U; [|cbn [fst] in N; congruence].
    left. exists m1, e. repeat split; auto.
    destruct (u_kinds x true true m1 e U) as [-> | ->]; cbn [conv]; auto.
  - right. split; [intros m; discriminate|]. destruct (existsb (subb x) alts); cbn [fst] in *; congruence.
Qed.

(* the accepted result lies between the argument and a fitting alternative *)
Definition res_ty (x : ty) (alts : list ty) : ty :=
  match cmins alts with
  | [m] => if Nat.eqb (ty_op m) Top then x else m
  | _ => x
  end.

Theorem engine_conc_result x alts fuel sc :
  wf_ty H x -> Forall (wf_ty H) alts -> alts <> [] ->
  length alts + tys_depth alts + ty_depth x + 10 <= fuel ->
  (exists T, In T alts /\ Sub H x T) ->
  exists r T,
    observe (run_cmds H fuel (conc_prog x alts) 0 [] (empty_store sc)) = (None, [Fsig; inj x; r]) /\
    (r = inj (res_ty x alts) \/ (ty_op x = Bottom /\ res_ty x alts = x /\ r = V 0)) /\
    In T alts /\ Sub H x T /\ Sub H x (res_ty x alts) /\ Sub H (res_ty x alts) T.
Proof.
  intros Wx Wa NE L Ex.
  pose proof (engine_conc x alts fuel sc Wx Wa NE L) as E. rewrite E. clear E.
  apply (existsb_subb_iff H W x alts Wx Wa) in Ex.
  pose proof (cmins_exists H W x alts Wx Wa) as Ec.
  pose proof (cmins_Forall H _ alts Wa) as Wms.
  assert (R : forall r, r = res_arg x -> r = inj x \/ (ty_op x = Bottom /\ x = x /\ r = V 0)).
  { intros r ->. unfold res_arg. destruct (Nat.eqb_spec (ty_op x) Bottom); auto. }
  unfold expected_conc, res_ty.
  destruct (cmins alts) as [|m1 [|m2 ms]] eqn:Em.
  - rewrite Ex. apply (existsb_subb_iff H W x alts Wx Wa) in Ex. destruct Ex as (T & I & S).
    exists (res_arg x), T. split; [reflexivity|]. split; [apply R; reflexivity|].
    repeat split; auto. now apply Sub_refl.
  - assert (Wm : wf_ty H m1) by now inversion Wms.
    assert (Im : In m1 alts) by (apply (cmins_in H); rewrite Em; now left).
    rewrite Ex in Ec. cbn [existsb] in Ec. rewrite orb_false_r in Ec.
    destruct (Nat.eqb (ty_op m1) Top).
    + exists (res_arg x), m1. split; [reflexivity|]. split; [apply R; reflexivity|].
      apply (subb_spec H W x m1 Wx Wm) in Ec. repeat split; auto. now apply Sub_refl.
    + rewrite (subb_u_none x m1 Wx Wm Ec). exists (inj m1), m1. split; [reflexivity|]. split; [now left|].
      apply (subb_spec H W x m1 Wx Wm) in Ec. repeat split; auto. now apply Sub_refl.
  - rewrite Ex. apply (existsb_subb_iff H W x alts Wx Wa) in Ex. destruct Ex as (T & I & S).
    exists (res_arg x), T. split; [reflexivity|]. split; [apply R; reflexivity|].
    repeat split; auto. now apply Sub_refl.
Qed.
End Conc.
