(* C04 for languages whose operators carry pure subtype constraints
   (`lambda x: x ** x [x <= Ord]`): every application node of every accepted
   expression is well typed under every satisfying grounding, every leaf
   denotes the instance of its signature under the substitution given by ITS
   OWN fresh variables ([sig_of th env]), and every declared constraint of
   every operator leaf whose variable got resolved HOLDS of that substitution.

   Part 1  [cfr n s s']: the constraint FRAME of the engine on stores with pure
           constraints - no operation ever changes the reference, the target
           or the strictness of an existing constraint object (only k_done),
           and only [new_constraint] allocates ([stbs_all]: one induction on
           fuel over unify/bind/above/below/fix_ty).
   Part 2  allocation order: [instance] of a schema with m pure constraints
           allocates exactly m constraint objects, in declaration order, the
           j-th one with k_ref = the fresh variable of the schematic variable
           it constrains, k_alts = [its declared base], k_strict as declared
           ([instance_alloc]).
   Part 3  the semantic reading of an instance with the substitution made
           explicit ([instance_inst_env], [instance_inst_sub]).
   Part 4  programs of CInst / CApply / CUnify(subtype) / CFix over schemas
           with pure constraints ([progSQ]): K, the cell invariant and the
           leaf facts along a run ([run_cmdsKQ], [run_cmds_cells],
           [run_cmds_leaves]; [inst_trace]: for every CInst the number of the
           first fresh variable of its instantiation, a function of the value
           index), [constraints_holdQ].
   Part 5  [leaf_sem], [prog_leaves_sub], [prog_sem_sub]; expressions
           ([leaves_okS], [code_progS], [expr_sub]).
   Part 6  the full compiled program with inputs, annotations and the fix
           traversal ([xokS], [xprog_okS], [xexpr_sub]) by erasure
           ([xerase], [xprog_erase]) for the C04_full clauses. *)
From Coq Require Import List Arith Bool Lia Permutation.
Import ListNotations.
From TF Require Import Base.Hier Base.Ty Sub.SubSpec Infer.Store Infer.Engine Infer.Run
  Infer.Witness Infer.Check Infer.Sched Infer.Inv Infer.Sound Infer.SchedIndep Infer.SoundSub
  Infer.ExprSound.
From TF Require Infer.Lub.

Unset Implicit Arguments.

(* ================================================================== *)
(* Part 1.  The constraint frame                                        *)
(* ================================================================== *)
Section Frame.
Variable H : hier.

(* same constraint, up to the fulfilled flag *)
Definition ksame (k k' : constr) : Prop :=
  k_ref k' = k_ref k /\ k_alts k' = k_alts k /\ k_strict k' = k_strict k.

Lemma ksame_refl k : ksame k k.
Proof. repeat split. Qed.

Lemma ksame_trans k1 k2 k3 : ksame k1 k2 -> ksame k2 k3 -> ksame k1 k3.
Proof. intros (a & b & c) (a' & b' & c'). repeat split; congruence. Qed.

Lemma ksame_done k : ksame k (done_of k).
Proof. repeat split. Qed.

(* from s to s' exactly n constraint objects were allocated and the old ones
   kept their reference, target and strictness *)
Definition cfr (n : nat) (s s' : store) : Prop :=
  allpure H s' /\ length (constrs s') = n + length (constrs s) /\
  forall c, c < length (constrs s) -> ksame (constr_of s c) (constr_of s' c).

Lemma cfr_refl s : allpure H s -> cfr 0 s s.
Proof. intros P. split; [exact P|split; [reflexivity|]]. intros c _. apply ksame_refl. Qed.

Lemma cfr_trans n m s1 s2 s3 : cfr n s1 s2 -> cfr m s2 s3 -> cfr (m + n) s1 s3.
Proof.
  intros (P2 & L2 & K2) (P3 & L3 & K3). split; [exact P3|split; [lia|]].
  intros c Lc. eapply ksame_trans; [apply K2; exact Lc|apply K3; lia].
Qed.

Lemma cfr_constrs s s' : allpure H s -> constrs s' = constrs s -> cfr 0 s s'.
Proof.
  intros P E. split; [eapply allpure_constrs; eauto|split; [rewrite E; reflexivity|]].
  intros c _. unfold constr_of. rewrite E. apply ksame_refl.
Qed.

Definition stb {A} (m : M A) : Prop :=
  forall s, allpure H s -> forall a s', m s = MOk a s' -> cfr 0 s s'.

Lemma stb_ret {A} (a : A) : stb (ret a).
Proof. intros s P a' s' E. inversion E; subst. apply cfr_refl. exact P. Qed.

Lemma stb_fail {A} e : stb (@fail A e).
Proof. intros s P a' s' E. discriminate. Qed.

Lemma stb_bind {A B} (m : M A) (k : A -> M B) : stb m -> (forall a, stb (k a)) -> stb (bindM m k).
Proof.
  intros Sm Sk s P b s' E. unfold bindM in E.
  destruct (m s) as [a s1|e s1] eqn:Em; [|discriminate].
  pose proof (Sm s P a s1 Em) as C1. pose proof (Sk a s1 (proj1 C1) b s' E) as C2.
  apply (cfr_trans 0 0 s s1 s' C1 C2).
Qed.

Lemma stb_gets {A} (g : store -> A) : stb (gets g).
Proof. intros s P a s' E. inversion E; subst. apply cfr_refl. exact P. Qed.

Lemma stb_lift {A} (r : store -> res A) : stb (lift r).
Proof.
  intros s P a s' E. unfold lift in E. destruct (r s); inversion E; subst. apply cfr_refl. exact P.
Qed.

Lemma stb_modify (g : store -> store) : (forall s, constrs (g s) = constrs s) -> stb (modify g).
Proof. intros G s P a s' E. inversion E; subst. apply cfr_constrs; auto. Qed.

Lemma stb_upd_cell v g : stb (upd_cell v g).
Proof. unfold upd_cell. apply stb_modify. reflexivity. Qed.

Lemma stb_fresh w : stb (fresh w).
Proof.
  intros s P a s' E. unfold fresh, alloc_var in E. inversion E; subst. apply cfr_constrs; auto.
Qed.

Lemma stb_fresh_list : forall n, stb (fresh_list n).
Proof.
  induction n as [|n IH]; cbn [fresh_list]; [apply stb_ret|].
  apply stb_bind; [apply stb_fresh|]. intros v.
  apply stb_bind; [exact IH|]. intros r. apply stb_ret.
Qed.

Lemma stb_forM {A} (f : A -> M unit) : (forall x, stb (f x)) -> forall l, stb (forM l f).
Proof.
  intros F. induction l as [|x l IH]; cbn [forM]; [apply stb_ret|].
  apply stb_bind; auto.
Qed.

Lemma cfr_app v x a s : allpure H s -> cfr 0 s (app v x a s).
Proof.
  intros P. split; [apply allpure_app; exact P|split].
  - destruct a; cbn [app]; try reflexivity.
    unfold rmc, markd, set_cset, set_constr; cbn [constrs]. apply upd_length.
  - intros c _. destruct a; cbn [app]; try apply ksame_refl.
    change (constr_of (rmc v x (markd x s)) c) with (constr_of (markd x s) c).
    destruct (constr_of_markd x s c) as [E|(-> & E)]; rewrite E; [apply ksame_refl|apply ksame_done].
Qed.

Lemma loop_cfr n v : forall l s u s', allpure H s -> loop H n v l s = MOk u s' -> cfr 0 s s'.
Proof.
  induction l as [|x l IH]; intros s u s' P E.
  - inversion E; subst. apply cfr_refl. exact P.
  - rewrite (loop_cons H n v x l s (allpure_lpure H s _ P)) in E.
    pose proof (fun a => cfr_app v x a s P) as C1.
    destruct (act_of H n s x) eqn:Ea; [discriminate| | |];
      (eapply (cfr_trans 0 0); [apply C1|eapply IH; [apply allpure_app; exact P|exact E]]).
Qed.

Lemma stb_cc n v : stb (check_constraints H n v).
Proof.
  intros s P u s' E. destruct n as [|f]; [discriminate|]. rewrite cc_S_eq in E. cbv zeta in E.
  destruct (2 <=? length (cset_of s (c_cs (cell_of s v)))); [destruct (sched s) as [|r rest]|].
  - eapply loop_cfr; eauto.
  - eapply (cfr_trans 0 0 s (mkStore (vars s) (csets s) (constrs s) rest) s').
    + apply cfr_constrs; auto.
    + eapply loop_cfr; [|exact E]. eapply allpure_constrs; [|exact P]. reflexivity.
  - eapply loop_cfr; eauto.
Qed.

Ltac stb_step :=
  first
    [ apply stb_ret
    | apply stb_fail
    | apply stb_fresh_list
    | apply stb_fresh
    | apply stb_cc
    | apply stb_upd_cell
    | apply stb_gets
    | apply stb_lift
    | apply stb_modify; reflexivity
    | apply stb_bind; [|intro]
    | apply stb_forM; intro
    | match goal with
      | |- stb (if ?c then _ else _) => destruct c
      | |- stb (match ?x with _ => _ end) => destruct x
      end ].

Definition stbs (f : nat) : Prop :=
  (forall sub skb skw a b, stb (unify H f sub skb skw a b)) /\
  (forall v t, stb (bind H f v t)) /\
  (forall v o, stb (above H f v o)) /\
  (forall v o, stb (below H f v o)) /\
  (forall pl t, stb (fix_ty H f pl t)).

Lemma stbs_0 : stbs 0.
Proof. unfold stbs. repeat apply conj; intros; apply stb_fail. Qed.

Lemma stbs_step f : stbs f -> stbs (S f).
Proof.
  intros (IHu & IHb & IHa & IHl & IHx).
  assert (Hb : forall v t, stb (bind H (S f) v t)).
  { intros v t. rewrite bind_S. unfold set_wild, set_bound, set_cs. repeat stb_step; auto. }
  assert (Ha : forall v o, stb (above H (S f) v o)).
  { intros v o. rewrite above_S. unfold set_wild, set_lower. repeat stb_step; auto. }
  assert (Hl : forall v o, stb (below H (S f) v o)).
  { intros v o. rewrite below_S. unfold set_wild, set_upper. repeat stb_step; auto. }
  assert (Hx : forall pl t, stb (fix_ty H (S f) pl t)).
  { intros pl t. rewrite fix_ty_S. repeat stb_step; auto.
    generalize (variance H o) as vs.
    induction args as [|p ps IHp]; intros [|b0 vs]; repeat stb_step; auto. }
  unfold stbs. repeat apply conj; auto.
  intros sub skb skw a b. rewrite unify_S. repeat stb_step; auto.
  generalize (variance H o) as vs. revert args0.
  induction args as [|x xs IHxs]; intros [|y ys] [|b0 vs]; repeat stb_step; auto.
Qed.

Theorem stbs_all : forall f, stbs f.
Proof. induction f as [|f IH]; [apply stbs_0|apply stbs_step; exact IH]. Qed.

Lemma stb_unify f sub skb skw a b : stb (unify H f sub skb skw a b).
Proof. apply stbs_all. Qed.
Lemma stb_bind_var f v t : stb (bind H f v t).
Proof. apply stbs_all. Qed.
Lemma stb_fix_ty f pl t : stb (fix_ty H f pl t).
Proof. apply stbs_all. Qed.

Lemma stb_eval_sty env : forall t, stb (eval_sty env t).
Proof.
  induction t as [i| |o args IH] using sty_ind'; cbn [eval_sty]; repeat stb_step.
  induction IH as [|a r Ha Hr IHr]; repeat stb_step; auto.
Qed.

Lemma stb_apply fuel f x fixb : stb (apply H fuel f x fixb).
Proof.
  unfold apply. repeat stb_step; auto using stb_bind_var, stb_unify, stb_fix_ty.
Qed.

End Frame.

(* ================================================================== *)
(* Part 2.  Allocation order of the constraints of an instance          *)
(* ================================================================== *)
Section Alloc.
Variable H : hier.

Lemma new_constraint_alloc fuel k s u s' : pureK H k -> allpure H s ->
  new_constraint H fuel k s = MOk u s' ->
  cfr H 1 s s' /\ ksame k (constr_of s' (length (constrs s))) /\ vars s' = vars s.
Proof.
  intros Pk P E.
  destruct (quiet_new_constraint H fuel k Pk s P u s' E) as (Ev & P' & _).
  unfold new_constraint in E.
  unfold bindM at 1 in E. cbn [alloc_constr] in E.
  set (c := length (constrs s)) in *.
  set (s1 := {| vars := vars s; csets := csets s; constrs := constrs s ++ [k]; sched := sched s |}) in *.
  assert (P1 : allpure H s1) by (apply (allpure_alloc_constr H s k P Pk)).
  unfold bindM at 1 in E. unfold lift at 1 in E.
  destruct (closure_f fuel s1 (constr_terms k) []) as [vs|e]; [|discriminate].
  unfold bindM at 1 in E.
  match type of E with match forM ?vs ?f ?s with _ => _ end = _ =>
    change f with (inform c) in E; destruct (forM vs (inform c) s) as [u2 s2|e s2] eqn:E2; [|discriminate] end.
  destruct (inform_facts c vs s1 u2 s2 E2) as (Ev2 & Ek2 & _ & _).
  assert (P2 : allpure H s2) by (eapply allpure_constrs; eauto).
  unfold bindM at 1 in E. rewrite (fulfill_pure H fuel c s2 (P2 c)) in E.
  assert (Ck : constr_of s2 c = k).
  { unfold constr_of. rewrite Ek2. unfold s1, c. cbn [constrs]. rewrite app_nth2 by lia.
    rewrite Nat.sub_diag. reflexivity. }
  assert (Old : forall c', c' < c -> constr_of s2 c' = constr_of s c').
  { intros c' L. unfold constr_of. rewrite Ek2. unfold s1. cbn [constrs]. apply app_nth1. exact L. }
  assert (Len2 : length (constrs s2) = S c).
  { rewrite Ek2. unfold s1. cbn [constrs]. rewrite app_length. cbn. unfold c. lia. }
  assert (G : length (constrs s') = S c /\ ksame k (constr_of s' c) /\
              forall c', c' < c -> constr_of s' c' = constr_of s c').
  { destruct (pfc H fuel s2 (constr_of s2 c)) eqn:Ep; [discriminate| |]; inversion E; subst s'.
    - split; [|split].
      + unfold markd, set_constr. cbn [constrs]. rewrite upd_length. exact Len2.
      + unfold markd. rewrite constr_of_set_constr_same by lia. rewrite Ck. apply ksame_done.
      + intros c' L. rewrite <- (Old c' L). unfold markd.
        destruct (constr_of_set_constr s2 c (done_of (constr_of s2 c)) c') as [(_ & -> & _)|E0]; [lia|exact E0].
    - split; [exact Len2|split; [rewrite Ck; apply ksame_refl|exact Old]]. }
  destruct G as (Len & Kc & Old').
  split; [|split; [exact Kc|exact Ev]].
  split; [exact P'|split; [fold c; lia|]]. intros c' L. fold c in L. rewrite (Old' c' L). apply ksame_refl.
Qed.

Lemma eval_constr_alloc fuel env i a st s u s' : allpure H s -> variance H a = [] ->
  eval_constr H fuel env (SCSub (SVar i) (SOp a []) st) s = MOk u s' ->
  cfr H 1 s s' /\ vars s' = vars s /\
  k_ref (constr_of s' (length (constrs s))) = follow s (follow s (nth i env (V 0))) /\
  k_alts (constr_of s' (length (constrs s))) = [O a []] /\
  k_strict (constr_of s' (length (constrs s))) = st.
Proof.
  intros P Va E.
  set (k := mkConstr false (follow s (follow s (nth i env (V 0)))) [O a []] st false).
  assert (Em : eval_constr H fuel env (SCSub (SVar i) (SOp a []) st) s = new_constraint H fuel k s).
  { cbn [eval_constr eval_sty]. unfold bindM, gets, ret. rewrite follow_O. reflexivity. }
  rewrite Em in E.
  assert (Pk : pureK H k).
  { split; [reflexivity|]. cbn [k k_alts]. intros t Et. inversion Et; subst.
    exists a. split; [reflexivity|]. unfold Engine.basic, arity. rewrite Va. reflexivity. }
  destruct (new_constraint_alloc fuel k s u s' Pk P E) as (C & (Kr & Ka & Ks) & Ev).
  split; [exact C|split; [exact Ev|]]. rewrite Kr, Ka, Ks. repeat split.
Qed.

Lemma uv_vars s s' : vars s' = vars s -> forall l, Forall (uv s) l -> Forall (uv s') l.
Proof.
  intros E. apply uv_bound_eq. intros w. rewrite (cell_of_vars s' s w E). reflexivity.
Qed.

Lemma follow_uv s env i : Forall (uv s) env -> i < length env ->
  follow s (follow s (nth i env (V 0))) = nth i env (V 0).
Proof.
  intros U L. rewrite Forall_forall in U. destruct (U (nth i env (V 0))) as (x & Ex & Hx); [apply nth_In; exact L|].
  rewrite Ex. rewrite !(follow_of_nb s (V x)) by exact Hx. reflexivity.
Qed.

(* the constraints of a schema, evaluated in order *)
Lemma constrs_alloc fuel env : forall cs s u s', allpure H s ->
  Forall (psc H (length env)) cs -> Forall (uv s) env ->
  forM cs (eval_constr H fuel env) s = MOk u s' ->
  cfr H (length cs) s s' /\ vars s' = vars s /\
  forall j i a st, nth_error cs j = Some (SCSub (SVar i) (SOp a []) st) ->
    k_ref (constr_of s' (length (constrs s) + j)) = nth i env (V 0) /\
    k_alts (constr_of s' (length (constrs s) + j)) = [O a []] /\
    k_strict (constr_of s' (length (constrs s) + j)) = st.
Proof.
  induction cs as [|sc cs IH]; intros s u s' P Pc U E; cbn [forM] in E.
  - inversion E; subst. split; [apply cfr_refl; exact P|split; [reflexivity|]].
    intros j i a st Hn. destruct j; discriminate.
  - inversion Pc as [|? ? Psc Pcs]; subst.
    unfold bindM at 1 in E.
    destruct (eval_constr H fuel env sc s) as [u1 s1|e1 s1] eqn:E1; [|discriminate].
    destruct sc as [r t st0|r alts]; cbn [psc] in Psc; [|tauto].
    destruct r as [i0| |]; try tauto. destruct t as [| |a0 [|x xs]]; try tauto. destruct Psc as (Li & Va).
    destruct (eval_constr_alloc fuel env i0 a0 st0 s u1 s1 P Va E1) as (C1 & Ev1 & Kr & Ka & Ks).
    rewrite (follow_uv s env i0 U Li) in Kr.
    destruct (IH s1 u s' (proj1 C1) Pcs (uv_vars s s1 Ev1 env U) E) as (C2 & Ev2 & Hj).
    destruct C1 as (P1 & L1 & K1). pose proof C2 as (P2 & L2 & K2).
    split; [|split; [congruence|]].
    + replace (length ((SCSub (SVar i0) (SOp a0 []) st0) :: cs)) with (length cs + 1) by (cbn; lia).
      apply (cfr_trans H 1 (length cs) s s1 s'); [split; [exact P1|split; [exact L1|exact K1]]|exact C2].
    + intros j i a st Hn. destruct j as [|j]; cbn [nth_error] in Hn.
      * inversion Hn; subst. rewrite Nat.add_0_r.
        destruct (K2 (length (constrs s))) as (Er & Ea & Es); [lia|].
        rewrite Er, Ea, Es. auto.
      * replace (length (constrs s) + S j) with (length (constrs s1) + j) by lia.
        apply (Hj j i a st Hn).
Qed.

(* fresh_list returns the next |n| variable numbers, all unbound *)
Lemma fresh_list_env : forall n s env s1, fresh_list n s = MOk env s1 ->
  env = map V (seq (length (vars s)) n) /\ length (vars s1) = length (vars s) + n /\
  (forall w, c_bound (cell_of s1 w) = c_bound (cell_of s w)).
Proof.
  induction n as [|n IH]; intros s env s1 E; cbn [fresh_list] in E.
  - inversion E; subst. cbn. split; [reflexivity|split; [lia|reflexivity]].
  - unfold bindM at 1 in E. unfold fresh at 1 in E.
    destruct (alloc_var s false) as [v s0] eqn:Ea.
    assert (Ev : v = length (vars s)) by (unfold alloc_var in Ea; inversion Ea; reflexivity).
    assert (Es : s0 = snd (alloc_var s false)) by (rewrite Ea; reflexivity).
    unfold bindM at 1 in E.
    destruct (fresh_list n s0) as [r s2|e s2] eqn:Er; [|discriminate].
    unfold ret in E. inversion E; subst env s2. clear E.
    destruct (IH s0 r s1 Er) as (-> & L & B).
    rewrite Es in L, B |- *. rewrite alloc_var_length in *.
    split; [subst v; cbn [seq map]; reflexivity|split; [lia|]].
    intros w. rewrite B. apply alloc_var_bound.
Qed.

Lemma fresh_list_uv n s env s1 : fresh_list n s = MOk env s1 -> Forall (uv s1) env /\ length env = n.
Proof.
  intros E. destruct (fresh_list_env n s env s1 E) as (-> & _ & B).
  split; [|rewrite map_length, seq_length; reflexivity].
  rewrite Forall_forall. intros t Ht. apply in_map_iff in Ht. destruct Ht as (x & <- & Hx).
  apply in_seq in Hx. exists x. split; [reflexivity|]. rewrite B, cell_of_oob by lia. reflexivity.
Qed.

(* eval_sty binds nothing *)
Definition bq {A} (m : M A) : Prop :=
  forall s a s', m s = MOk a s' -> forall w, c_bound (cell_of s' w) = c_bound (cell_of s w).

Lemma bq_ret {A} (a : A) : bq (ret a).
Proof. intros s a' s' E. inversion E; subst. reflexivity. Qed.

Lemma bq_bind {A B} (m : M A) (k : A -> M B) : bq m -> (forall a, bq (k a)) -> bq (bindM m k).
Proof.
  intros Bm Bk s b s' E w. unfold bindM in E. destruct (m s) as [a s1|e s1] eqn:Em; [|discriminate].
  rewrite (Bk a s1 b s' E w). apply (Bm s a s1 Em).
Qed.

Lemma bq_gets {A} (g : store -> A) : bq (gets g).
Proof. intros s a s' E. inversion E; subst. reflexivity. Qed.

Lemma bq_fresh w : bq (fresh w).
Proof.
  intros s a s' E x. unfold fresh in E. destruct (alloc_var s w) as [v s0] eqn:Ea. inversion E; subst.
  replace s' with (snd (alloc_var s w)) by (rewrite Ea; reflexivity). apply alloc_var_bound.
Qed.

Lemma eval_sty_bq env : forall t, bq (eval_sty env t).
Proof.
  induction t as [i| |o args IH] using sty_ind'; cbn [eval_sty].
  - apply bq_gets.
  - apply bq_bind; [apply bq_fresh|intro; apply bq_ret].
  - apply bq_bind; [|intro; apply bq_ret].
    induction IH as [|a r Ha Hr IHr]; [apply bq_ret|].
    apply bq_bind; [exact Ha|intro]. apply bq_bind; [exact IHr|intro; apply bq_ret].
Qed.

(* the fresh variables of the instance made in store s *)
Definition envof (s : store) (n : nat) : list tyv := map V (seq (length (vars s)) n).

Lemma envof_length s n : length (envof s n) = n.
Proof. unfold envof. rewrite map_length, seq_length. reflexivity. Qed.

Lemma envof_nth s n i : i < n -> nth i (envof s n) (V 0) = V (length (vars s) + i).
Proof.
  intros L. unfold envof. change (V 0) with (V 0). rewrite (map_nth V (seq (length (vars s)) n) 0 i).
  rewrite seq_nth by exact L. reflexivity.
Qed.

(* instance, taken apart *)
Lemma instance_stages fuel sc s r s' : instance H fuel sc s = MOk r s' ->
  exists env s1 body s2 s3,
    fresh_list (s_n sc) s = MOk env s1 /\ eval_sty env (s_body sc) s1 = MOk body s2 /\
    forM (s_constrs sc) (eval_constr H fuel env) s2 = MOk tt s3 /\
    fix_ty H fuel true body s3 = MOk r s'.
Proof.
  unfold instance. intros E. unfold bindM at 1 in E.
  destruct (fresh_list (s_n sc) s) as [env s1|e s1] eqn:E1; [|discriminate].
  unfold bindM at 1 in E. destruct (eval_sty env (s_body sc) s1) as [body s2|e s2] eqn:E2; [|discriminate].
  unfold bindM at 1 in E.
  destruct (forM (s_constrs sc) (eval_constr H fuel env) s2) as [[] s3|e s3] eqn:E3; [|discriminate].
  exists env, s1, body, s2, s3. split; [reflexivity|split; [exact E2|split; [exact E3|exact E]]].
Qed.

(* an instance of a schema with m pure constraints allocates exactly m
   constraint objects, in declaration order, each on the fresh variable of the
   schematic variable it constrains, against the declared base *)
Theorem instance_alloc fuel sc s r s' : allpure H s ->
  Forall (psc H (s_n sc)) (s_constrs sc) ->
  instance H fuel sc s = MOk r s' ->
  cfr H (length (s_constrs sc)) s s' /\
  forall j i a st, nth_error (s_constrs sc) j = Some (SCSub (SVar i) (SOp a []) st) ->
    k_ref (constr_of s' (length (constrs s) + j)) = nth i (envof s (s_n sc)) (V 0) /\
    k_alts (constr_of s' (length (constrs s) + j)) = [O a []] /\
    k_strict (constr_of s' (length (constrs s) + j)) = st.
Proof.
  intros P Pc E. destruct (instance_stages fuel sc s r s' E) as (env & s1 & body & s2 & s3 & E1 & E2 & E3 & E4).
  pose proof (stb_fresh_list H (s_n sc) s P env s1 E1) as C1.
  destruct (fresh_list_uv _ _ _ _ E1) as (U1 & Le).
  destruct (fresh_list_env _ _ _ _ E1) as (Een & _ & _). fold (envof s (s_n sc)) in Een.
  pose proof (stb_eval_sty H env (s_body sc) s1 (proj1 C1) body s2 E2) as C2.
  assert (U2 : Forall (uv s2) env).
  { eapply uv_bound_eq; [|exact U1]. apply (eval_sty_bq env (s_body sc) s1 body s2 E2). }
  rewrite <- Le in Pc.
  destruct (constrs_alloc fuel env (s_constrs sc) s2 tt s3 (proj1 C2) Pc U2 E3) as (C3 & _ & Hj).
  pose proof (stb_fix_ty H fuel true body s3 (proj1 C3) r s' E4) as C4.
  pose proof (cfr_trans H _ _ _ _ _ (cfr_trans H _ _ _ _ _ (cfr_trans H _ _ _ _ _ C1 C2) C3) C4) as C.
  replace (0 + (length (s_constrs sc) + (0 + 0))) with (length (s_constrs sc)) in C by lia.
  split; [exact C|]. intros j i a st Hn.
  assert (Lj : j < length (s_constrs sc)) by (apply nth_error_Some; congruence).
  destruct (Hj j i a st Hn) as (Kr & Ka & Ks).
  assert (L2 : length (constrs s2) = length (constrs s)).
  { destruct C1 as (_ & L1 & _). destruct C2 as (_ & L2 & _). lia. }
  rewrite L2 in Kr, Ka, Ks.
  destruct C4 as (_ & _ & K4). destruct C3 as (_ & L3 & _).
  destruct (K4 (length (constrs s) + j)) as (Er & Ea & Es); [lia|].
  rewrite Er, Ea, Es, Kr, Ka, Ks, Een. auto.
Qed.

End Alloc.

(* ================================================================== *)
(* Part 3.  What an instance denotes, with the substitution explicit    *)
(* ================================================================== *)
Section Sem.
Variable H : hier.
Hypothesis W : wf_hier H.
Local Notation len s := (length (vars s)).

(* r denotes the body of sc under the substitution  i |-> den (env_i) *)
Definition inst_post_env (sc : schema) (env : list tyv) (r : tyv) (s' : store) : Prop :=
  forall th, sat H th s' ->
    (forall i, wf_ty H (sig_of th env i)) /\ sinst H (sig_of th env) (s_body sc) (den th r).

Lemma instance_inst_env fuel sc s : J H s -> s_constrs sc = [] -> styg H (s_n sc) (s_body sc) ->
  tr (instance H fuel sc) s (inst_post_env sc (envof s (s_n sc))).
Proof.
  intros I Nc Sb r s' E.
  destruct (instance_stages H fuel sc s r s' E) as (env & s1 & body & s2 & s3 & E1 & E2 & E3 & E4).
  rewrite Nc in E3. cbn [forM] in E3. inversion E3; subst s3. clear E3.
  destruct (fresh_list_good H (s_n sc) s I env s1 E1) as (I1 & L1 & Fe & Ne).
  destruct (fresh_list_env _ _ _ _ E1) as (Een & _ & _). fold (envof s (s_n sc)) in Een.
  assert (Fe' : Forall (tg H (len s1)) env).
  { eapply Forall_impl; [|exact Fe]. intros t. apply isvar_tg. }
  assert (Sb' : styg H (length env) (s_body sc)) by (rewrite Ne; exact Sb).
  destruct (eval_sty_good H env _ s1 I1 Fe' Sb' body s2 E2) as (I2 & L2 & Tb).
  pose proof (eval_sty_inst H env _ s1 I1 Fe' Sb' body s2 E2) as Db.
  destruct (fix_sound H W fuel true body s2 I2 Tb r s' E4) as (Tr & (I3 & L3 & F3 & R3)).
  rewrite <- Een. intros th S3. split.
  - intros i. unfold sig_of. eapply wf_den with (n := S (len s')); [eapply sat_wf; eauto|].
    destruct (Nat.lt_ge_cases i (length env)) as [Li|Li].
    + rewrite Forall_forall in Fe'. eapply tg_mono; [|apply Fe'; apply nth_In; exact Li].
      pose proof (lef_len _ _ _ L2). pose proof (proj1 L3). lia.
    + rewrite nth_overflow by exact Li. constructor. lia.
  - rewrite (R3 th S3). apply Db. apply L3. exact S3.
Qed.

(* ... on stores that carry pure constraints, through the erasure simulation *)
Lemma instance_inst_sub fuel sc s r s' : Jv H s -> allpure H s ->
  styg H (s_n sc) (s_body sc) -> Forall (psc H (s_n sc)) (s_constrs sc) ->
  instance H fuel sc s = MOk r s' -> inst_post_env sc (envof s (s_n sc)) r s'.
Proof.
  intros Jvs P Sb Pc E.
  assert (Ps : pure_schema H sc).
  { eapply Forall_impl; [|exact Pc]. intros a. apply psc_pure. }
  destruct (sim_instance H fuel sc Ps s (strip s) (Rv_strip H s P) r s' E) as (s0' & E0 & R').
  assert (J0 : J H (strip s)) by (apply (J_of_Jv H s (strip s) Jvs eq_refl); apply (Rv_strip H s P)).
  pose proof (instance_inst_env fuel (erase_schema sc) (strip s) J0 eq_refl Sb r s0' E0) as Pi.
  intros th S. apply Pi. apply (sat_vars H th s' s0' (proj1 R')). exact S.
Qed.

End Sem.

(* ================================================================== *)
(* Part 4.  Programs over schemas with pure constraints                 *)
(* ================================================================== *)
Section Progs.
Variable H : hier.
Hypothesis W : wf_hier H.
Local Notation len s := (length (vars s)).
Local Notation inv := (invb true).

(* CInst over schemas with pure constraints, CApply, CUnify (subtype mode), CFix *)
Inductive cmdSQ (n : nat) : cmd -> Prop :=
| cSQ_inst sc : styg H (s_n sc) (s_body sc) -> Forall (psc H (s_n sc)) (s_constrs sc) -> cmdSQ n (CInst sc)
| cSQ_apply f x b : f < n -> x < n -> cmdSQ n (CApply f x b)
| cSQ_unify a b : a < n -> b < n -> cmdSQ n (CUnify a b true)
| cSQ_fix a pl : a < n -> cmdSQ n (CFix a pl).

Fixpoint progSQ (n : nat) (cs : list cmd) : Prop :=
  match cs with
  | [] => True
  | c :: r => cmdSQ n c /\ progSQ (nxt c n) r
  end.

Lemma cmdSQ_mono n m c : n <= m -> cmdSQ n c -> cmdSQ m c.
Proof. intros L [sc Sb Pc|f x b Lf Lx|a b La Lb|a pl La]; constructor; auto; lia. Qed.

Lemma progSQ_app a : forall n b, progSQ n a -> progSQ (nxts a n) b -> progSQ n (a ++ b).
Proof.
  induction a as [|c a IH]; intros n b Pa Pb; cbn [List.app nxts] in *; [exact Pb|].
  destruct Pa as [Pc Pa]. split; [exact Pc|]. apply IH; auto.
Qed.

Lemma progS_SQ : forall cs n, progS H n cs -> progSQ n cs.
Proof.
  induction cs as [|c cs IH]; intros n P; cbn [progSQ]; [exact I|].
  destruct P as [Pc Pr]. destruct Pc as [sc Sb Pc|f x b Lf Lx]; (split; [constructor; auto|apply IH; exact Pr]).
Qed.

Lemma cmdSQ_pure n c : cmdSQ n c -> pure_cmd H c.
Proof.
  intros [sc _ Pc|f x b _ _|a b _ _|a pl _]; cbn; try exact I.
  eapply Forall_impl; [|exact Pc]. intros a. apply psc_pure.
Qed.

Lemma progSQ_pure : forall cs n, progSQ n cs -> Forall (pure_cmd H) cs.
Proof.
  induction cs as [|c cs IH]; intros n P; [constructor|].
  destruct P as [Pc Pr]. constructor; [eapply cmdSQ_pure; eauto|eapply IH; eauto].
Qed.

Lemma nxt_erase c n : nxt (erase_cmd c) n = nxt c n.
Proof. destruct c; reflexivity. Qed.

Lemma cmdSQ_erase n c : cmdSQ n c -> cmdQ H n (erase_cmd c).
Proof. intros [sc Sb _|f x b Lf Lx|a b La Lb|a pl La]; cbn [erase_cmd]; constructor; auto. Qed.

Lemma progSQ_erase : forall cs n, progSQ n cs -> progQ H n (map erase_cmd cs).
Proof.
  induction cs as [|c cs IH]; intros n P; cbn [map progQ]; [exact I|].
  destruct P as [Pc Pr]. split; [apply cmdSQ_erase; exact Pc|]. rewrite nxt_erase. apply IH. exact Pr.
Qed.

Lemma progSQ_wf : forall cs n, progSQ n cs -> prog_wf n cs.
Proof.
  induction cs as [|c cs IH]; intros n P; cbn [prog_wf]; [exact I|].
  destruct P as [Pc Pr]. split; [|apply IH; destruct c; exact Pr].
  destruct Pc as [sc Sb Pc|f x b Lf Lx|a b La Lb|a pl La]; cbn [cmd_wf]; auto.
  split; [apply (styg_wf H); exact Sb|]. eapply Forall_impl; [|exact Pc]. intros a. apply psc_wf.
Qed.

Lemma steps_erase' : forall cs n, steps_of (map erase_cmd cs) n = steps_of cs n.
Proof.
  induction cs as [|c cs IH]; intros n; [reflexivity|].
  destruct c; cbn [map erase_cmd steps_of]; rewrite IH; reflexivity.
Qed.

Lemma unifs_erase : forall cs, unifs_of (map erase_cmd cs) = unifs_of cs.
Proof.
  induction cs as [|c cs IH]; [reflexivity|].
  destruct c; cbn [map erase_cmd unifs_of]; rewrite IH; reflexivity.
Qed.

Lemma fixes_erase : forall cs n, fixes_of (map erase_cmd cs) n = fixes_of cs n.
Proof.
  induction cs as [|c cs IH]; intros n; [reflexivity|].
  destruct c; cbn [map erase_cmd fixes_of]; rewrite IH; reflexivity.
Qed.

(* ---- the constraint invariant K along a run ---- *)
Lemma run_cmdKQ fuel c vals s : inv s -> K H s -> Forall (sct true s) vals -> cmdSQ (length vals) c ->
  ok true s (run_cmd H fuel c vals)
     (fun vals' s1 => K H s1 /\ Forall (sct true s1) vals' /\ length vals' = nxt c (length vals)) s.
Proof.
  intros I Kk Sv Pc. destruct Pc as [sc Sb Pcs|f x b Lf Lx|a b La Lb|a pl La].
  - apply (run_cmdK H W fuel (CInst sc) vals s I Kk Sv). constructor; auto.
  - apply (run_cmdK H W fuel (CApply f x b) vals s I Kk Sv). constructor; auto.
  - cbn [run_cmd nxt].
    eapply ok_bind; [apply (unifyK H W); auto; apply sct_val; auto|].
    intros u s1 I1 E1 K1. apply ok_ret; auto.
    split; [exact K1|split; [eapply scts_ext; eauto|reflexivity]].
  - cbn [run_cmd nxt].
    eapply ok_bind; [apply (fixK H W); auto; apply sct_val; auto|].
    intros t s1 I1 E1 (K1 & _ & St). apply ok_ret; auto.
    split; [exact K1|split]; [apply Forall_app; split; [eapply scts_ext; eauto|constructor; auto]|
                              rewrite app_length; cbn; lia].
Qed.

Theorem run_cmdsKQ fuel : forall cs i vals s vals' s', inv s -> K H s -> Forall (sct true s) vals ->
  progSQ (length vals) cs -> run_cmds H fuel cs i vals s = (None, vals', s') -> inv s' /\ K H s'.
Proof.
  induction cs as [|c cs IH]; intros i vals s vals' s' I Kk Sv P R; cbn [run_cmds] in R.
  - inversion R; subst. auto.
  - destruct P as [Pc Pr].
    pose proof (run_cmdKQ fuel c vals s I Kk Sv Pc) as O. unfold ok in O.
    destruct (run_cmd H fuel c vals s) as [vals1 s1|e s1]; [|discriminate].
    destruct O as (I1 & E1 & K1 & Sv1 & L1).
    eapply (IH (S i) vals1 s1); eauto. rewrite L1. exact Pr.
Qed.

(* ---- the cell invariant along a run, through the erasure simulation ---- *)
Lemma run_cmd_cells fuel c vals s vals' s' : Jv H s -> allpure H s -> Forall (tg H (len s)) vals ->
  cmdSQ (length vals) c -> run_cmd H fuel c vals s = MOk vals' s' ->
  Jv H s' /\ allpure H s' /\ Forall (tg H (len s')) vals' /\
  length vals' = nxt c (length vals) /\ (forall th, sat H th s' -> sat H th s).
Proof.
  intros Jvs P Fv Pc E.
  destruct (sim_run_cmd H fuel c vals (cmdSQ_pure _ _ Pc) s (strip s) (Rv_strip H s P) vals' s' E)
    as (s0' & E0 & R').
  assert (J0 : J H (strip s)) by (apply (J_of_Jv H s (strip s) Jvs eq_refl); apply (Rv_strip H s P)).
  destruct (run_cmd_goodQ H W fuel (erase_cmd c) vals (strip s) J0 Fv (cmdSQ_erase _ _ Pc) vals' s0' E0)
    as (_ & Ln & Fv' & J' & L' & _).
  pose proof (proj1 R') as Ev.
  split; [eapply Jv_of_J; eauto|split; [apply R'|split; [rewrite <- Ev; exact Fv'|split]]].
  - rewrite Ln. apply nxt_erase.
  - intros th S. apply (sat_vars H th s (strip s) eq_refl). apply (proj2 (proj1 L')).
    apply (sat_vars H th s' s0' Ev). exact S.
Qed.

Lemma run_cmds_cells fuel cs i vals s vals' s' : Jv H s -> allpure H s -> Forall (tg H (len s)) vals ->
  progSQ (length vals) cs -> run_cmds H fuel cs i vals s = (None, vals', s') ->
  Jv H s' /\ allpure H s' /\ Forall (tg H (len s')) vals' /\ (exists ext, vals' = vals ++ ext) /\
  (forall th, sat H th s' -> sat H th s) /\
  (forall th, sat H th s' -> prog_sem H th vals' (map erase_cmd cs) (length vals)).
Proof.
  intros Jvs P Fv Pc R.
  destruct (sim_run_cmds H fuel cs i vals s (strip s) vals' s' (progSQ_pure _ _ Pc) (Rv_strip H s P) R)
    as (s0' & R0 & R').
  assert (J0 : J H (strip s)) by (apply (J_of_Jv H s (strip s) Jvs eq_refl); apply (Rv_strip H s P)).
  destruct (run_cmds_goodQ H W fuel (map erase_cmd cs) i vals (strip s) vals' s0' J0 Fv (progSQ_erase _ _ Pc) R0)
    as (J' & L' & Fv' & Ex & _ & Sem).
  pose proof (proj1 R') as Ev.
  split; [eapply Jv_of_J; eauto|split; [apply R'|split; [rewrite <- Ev; exact Fv'|split; [exact Ex|split]]]].
  - intros th S. apply (sat_vars H th s (strip s) eq_refl). apply (proj2 (proj1 L')).
    apply (sat_vars H th s' s0' Ev). exact S.
  - intros th S. apply Sem. apply (sat_vars H th s' s0' Ev). exact S.
Qed.

(* ---- the constraint frame along a run ---- *)
Lemma run_cmd_cfr fuel c vals s vals' s' : allpure H s -> cmdSQ (length vals) c ->
  run_cmd H fuel c vals s = MOk vals' s' -> exists m, cfr H m s s'.
Proof.
  intros P Pc E. destruct Pc as [sc Sb Pcs|f x b Lf Lx|a b La Lb|a pl La]; cbn [run_cmd] in E;
    unfold bindM in E.
  - destruct (instance H fuel sc s) as [t s1|e s1] eqn:Ei; [|discriminate]. inversion E; subst.
    exists (length (s_constrs sc)). apply (instance_alloc H fuel sc s t s' P Pcs Ei).
  - destruct (apply H fuel (val vals f) (val vals x) b s) as [t s1|e s1] eqn:Ei; [|discriminate].
    inversion E; subst. exists 0. eapply stb_apply; eauto.
  - destruct (unify H fuel true false false (val vals a) (val vals b) s) as [t s1|e s1] eqn:Ei; [|discriminate].
    inversion E; subst. exists 0. eapply stb_unify; eauto.
  - destruct (fix_ty H fuel pl (val vals a) s) as [t s1|e s1] eqn:Ei; [|discriminate].
    inversion E; subst. exists 0. eapply stb_fix_ty; eauto.
Qed.

Lemma run_cmds_cfr fuel : forall cs i vals s vals' s', allpure H s -> progSQ (length vals) cs ->
  (forall c vals s vals' s', cmdSQ (length vals) c -> run_cmd H fuel c vals s = MOk vals' s' ->
     length vals' = nxt c (length vals)) ->
  run_cmds H fuel cs i vals s = (None, vals', s') -> exists m, cfr H m s s'.
Proof.
  induction cs as [|c cs IH]; intros i vals s vals' s' P Pc Ln R; cbn [run_cmds] in R.
  - inversion R; subst. exists 0. apply cfr_refl. exact P.
  - destruct Pc as [Pc Pr].
    destruct (run_cmd H fuel c vals s) as [vals1 s1|e s1] eqn:E1; [|discriminate].
    destruct (run_cmd_cfr fuel c vals s vals1 s1 P Pc E1) as (m1 & C1).
    rewrite <- (Ln c vals s vals1 s1 Pc E1) in Pr.
    destruct (IH (S i) vals1 s1 vals' s' (proj1 C1) Pr Ln R) as (m2 & C2).
    exists (m2 + m1). eapply cfr_trans; eauto.
Qed.

Lemma run_cmd_len fuel c vals s vals' s' : cmdSQ (length vals) c ->
  run_cmd H fuel c vals s = MOk vals' s' -> length vals' = nxt c (length vals).
Proof.
  intros Pc E. destruct Pc as [sc Sb Pcs|f x b Lf Lx|a b La Lb|a pl La]; cbn [run_cmd nxt] in *;
    unfold bindM in E;
    match type of E with match ?m with _ => _ end = _ => destruct m; [|discriminate] end;
    inversion E; subst; rewrite ?app_length; cbn; lia.
Qed.

(* ---- what is known about the leaf instantiated by a CInst, in the final store ---- *)
(* for every CInst of the run: (value index of the leaf, number of the first
   fresh variable of its instantiation) - read off the run itself *)
Fixpoint inst_trace (fuel : nat) (cs : list cmd) (vals : list tyv) (s : store) : list (nat * nat) :=
  match cs with
  | [] => []
  | c :: r =>
      match run_cmd H fuel c vals s with
      | MOk vals' s' =>
          match c with CInst _ => [(length vals, len s)] | _ => [] end ++ inst_trace fuel r vals' s'
      | MEr _ _ => []
      end
  end.

(* n0 = number of the first fresh variable of the leaf's instantiation:
   its m declared constraints are the constraint objects c0 .. c0+m-1 *)
Definition leaf_fact (n0 : nat) (s' : store) (vals' : list tyv) (k : nat) (sch : schema) : Prop :=
  exists c0,
    c0 + length (s_constrs sch) <= length (constrs s') /\
    (forall j i a st, nth_error (s_constrs sch) j = Some (SCSub (SVar i) (SOp a []) st) ->
       k_ref (constr_of s' (c0 + j)) = nth i (map V (seq n0 (s_n sch))) (V 0) /\
       k_alts (constr_of s' (c0 + j)) = [O a []] /\
       k_strict (constr_of s' (c0 + j)) = st) /\
    inst_post_env H sch (map V (seq n0 (s_n sch))) (val vals' k) s'.

Theorem run_cmds_leaves fuel : forall cs i vals s vals' s', Jv H s -> allpure H s ->
  Forall (tg H (len s)) vals -> progSQ (length vals) cs ->
  run_cmds H fuel cs i vals s = (None, vals', s') ->
  forall k sch, In (k, sch) (insts_of cs (length vals)) ->
  exists n0, In (k, n0) (inst_trace fuel cs vals s) /\ leaf_fact n0 s' vals' k sch.
Proof.
  induction cs as [|c cs IH]; intros i vals s vals' s' Jvs P Fv Pc R k sch Hin; [destruct Hin|].
  destruct Pc as [Pc Pr]. cbn [run_cmds] in R.
  destruct (run_cmd H fuel c vals s) as [vals1 s1|e s1] eqn:E1; [|discriminate].
  assert (Tr : inst_trace fuel (c :: cs) vals s =
               match c with CInst _ => [(length vals, len s)] | _ => [] end ++ inst_trace fuel cs vals1 s1)
    by (cbn [inst_trace]; rewrite E1; reflexivity).
  destruct (run_cmd_cells fuel c vals s vals1 s1 Jvs P Fv Pc E1) as (Jv1 & P1 & Fv1 & Ln1 & _).
  rewrite <- Ln1 in Pr.
  assert (Rest : forall k sch, In (k, sch) (insts_of cs (nxt c (length vals))) ->
            exists n0, In (k, n0) (inst_trace fuel (c :: cs) vals s) /\ leaf_fact n0 s' vals' k sch).
  { intros k' sch' Hin'. rewrite <- Ln1 in Hin'.
    destruct (IH (S i) vals1 s1 vals' s' Jv1 P1 Fv1 Pr R k' sch' Hin') as (n0 & Hn0 & Lf).
    exists n0. split; [rewrite Tr; apply in_or_app; right; exact Hn0|exact Lf]. }
  destruct Pc as [sc Sb Pcs|f x b Lf Lx|a b La Lb|a pl La]; cbn [insts_of nxt] in Hin, Rest;
    try (apply Rest; exact Hin).
  destruct Hin as [[= <- <-]|Hin]; [|apply Rest; exact Hin].
  (* the leaf instantiated by this command *)
  exists (len s). split; [rewrite Tr; left; reflexivity|]. clear Tr Rest.
  cbn [run_cmd] in E1. unfold bindM in E1.
  destruct (instance H fuel sc s) as [t s0|e0 s0] eqn:Ei; [|discriminate].
  unfold ret in E1. inversion E1; subst s0 vals1. clear E1.
  destruct (instance_alloc H fuel sc s t s1 P Pcs Ei) as (C1 & Hj).
  pose proof (instance_inst_sub H W fuel sc s t s1 Jvs P Sb Pcs Ei) as Pi.
  destruct (run_cmds_cells fuel cs (S i) (vals ++ [t]) s1 vals' s' Jv1 P1 Fv1 Pr R)
    as (_ & _ & _ & (ext & Ext) & Sat & _).
  destruct (run_cmds_cfr fuel cs (S i) (vals ++ [t]) s1 vals' s' P1 Pr (run_cmd_len fuel) R) as (m & C2).
  exists (length (constrs s)).
  destruct C1 as (_ & L1 & _). destruct C2 as (_ & L2 & K2).
  split; [lia|split].
  - intros j i0 a0 st Hn.
    assert (Lj : j < length (s_constrs sc)) by (apply nth_error_Some; congruence).
    destruct (Hj j i0 a0 st Hn) as (Kr & Ka & Ks).
    destruct (K2 (length (constrs s) + j)) as (Er & Ea & Es); [lia|].
    rewrite Er, Ea, Es. auto.
  - rewrite Ext, <- app_assoc. change ([t] ++ ext) with (t :: ext). rewrite val_app_new.
    intros th S. apply Pi. apply Sat. exact S.
Qed.

(* the trace is a function of the value index *)
Lemma inst_trace_ge fuel : forall cs vals s, progSQ (length vals) cs ->
  forall k n0, In (k, n0) (inst_trace fuel cs vals s) -> length vals <= k.
Proof.
  induction cs as [|c cs IH]; intros vals s Pc k n0 Hin; cbn [inst_trace] in Hin; [destruct Hin|].
  destruct Pc as [Pc Pr].
  destruct (run_cmd H fuel c vals s) as [vals1 s1|e s1] eqn:E1; [|destruct Hin].
  pose proof (run_cmd_len fuel c vals s vals1 s1 Pc E1) as Ln. rewrite <- Ln in Pr.
  apply in_app_or in Hin. destruct Hin as [Hin|Hin].
  - destruct c as [sc0|? ? ?|? ? ?|? ?]; [destruct Hin as [Hin|[]]|destruct Hin..]. inversion Hin; subst. lia.
  - apply (IH vals1 s1 Pr) in Hin. pose proof (nxt_le c (length vals)). lia.
Qed.

Lemma inst_trace_fun fuel : forall cs vals s, progSQ (length vals) cs ->
  forall k n0 n0', In (k, n0) (inst_trace fuel cs vals s) -> In (k, n0') (inst_trace fuel cs vals s) -> n0 = n0'.
Proof.
  induction cs as [|c cs IH]; intros vals s Pc k n0 n0' Hin Hin'; cbn [inst_trace] in Hin, Hin'; [destruct Hin|].
  destruct Pc as [Pc Pr].
  destruct (run_cmd H fuel c vals s) as [vals1 s1|e s1] eqn:E1; [|destruct Hin].
  pose proof (run_cmd_len fuel c vals s vals1 s1 Pc E1) as Ln. rewrite <- Ln in Pr.
  apply in_app_or in Hin. apply in_app_or in Hin'.
  assert (Hd : forall m, In (k, m) (match c with CInst _ => [(length vals, length (vars s))] | _ => [] end) ->
            k = length vals /\ m = length (vars s) /\ length vals1 = S (length vals)).
  { intros m Hm. destruct c as [sc0|? ? ?|? ? ?|? ?]; [destruct Hm as [Hm|[]]|destruct Hm..]. inversion Hm; subst.
    cbn [nxt] in Ln. auto. }
  destruct Hin as [Hin|Hin]; destruct Hin' as [Hin'|Hin'].
  - destruct (Hd _ Hin) as (_ & -> & _). destruct (Hd _ Hin') as (_ & -> & _). reflexivity.
  - destruct (Hd _ Hin) as (-> & _ & L1). apply (inst_trace_ge fuel cs vals1 s1 Pr) in Hin'. lia.
  - destruct (Hd _ Hin') as (-> & _ & L1). apply (inst_trace_ge fuel cs vals1 s1 Pr) in Hin. lia.
  - apply (IH vals1 s1 Pr k n0 n0' Hin Hin').
Qed.

Lemma Jv_empty sc : Jv H (empty_store sc).
Proof. apply (Jv_of_J H (empty_store sc) (empty_store sc) (J_empty H sc) eq_refl). Qed.

(* SoundSub.sub_constraints_hold for the larger command class *)
Theorem constraints_holdQ fuel sc prog vals s : progSQ 0 prog ->
  run_cmds H fuel prog 0 [] (empty_store sc) = (None, vals, s) ->
  forall c, c < length (constrs s) ->
  let k := constr_of s c in
  k_elim k = false /\ (exists x, k_ref k = V x) /\
  exists a, k_alts k = [O a []] /\ variance H a = [] /\
    (forall o args, follow s (k_ref k) = O o args ->
       Sub H (TOp o []) (TOp a []) /\ (k_strict k = true -> o <> a) /\ (args = [] \/ a = Top)) /\
    (forall u, follow s (k_ref k) = V u ->
       if k_done k then a = Top /\ k_strict k = false
       else In c (cset_of s (c_cs (cell_of s u)))).
Proof.
  intros P R c Lc k.
  destruct (run_cmdsKQ fuel prog 0 [] (empty_store sc) vals s (inv_empty true sc) (K_empty H sc)
              (Forall_nil _) P R) as (I & Kk).
  destruct (Kk c Lc) as (Ee & (x & Ex) & a & Ea & Ba & Hr). fold k in Ee, Ex, Ea, Hr.
  split; [exact Ee|]. split; [exists x; exact Ex|].
  exists a. split; [exact Ea|]. split; [apply Lub.basic_iff; exact Ba|]. split.
  - intros o args Ef.
    assert (R0 : rsv s (k_ref k) (O o args)) by (rewrite <- Ef; apply follow_rsv; apply I).
    destruct (Hr _ R0) as [(Ho & Hs)|(_ & [])].
    split; [|split; [exact Hs|]].
    + destruct Ho as [->|[->|(Bo & Lo)]]; [apply SubBot|apply SubTop|].
      apply ole_Sub; auto. apply Lub.basic_iff. exact Bo.
    + destruct (Nat.eq_dec a Top) as [->|Na]; [right; reflexivity|left].
      assert (Bo : basic H o = true).
      { destruct Ho as [->|[->|(Bo & _)]]; [|congruence|exact Bo].
        apply Lub.basic_iff. apply (wf_bot H W). }
      destruct (run_cmds_cells fuel prog 0 [] (empty_store sc) vals s (Jv_empty sc) (allpure_empty H sc)
                  (Forall_nil _) P R) as ((Jsc & _) & _).
      assert (Tr : forall t r, rsv s t r -> tg H (length (vars s)) t -> tg H (length (vars s)) r).
      { intros t r Rr. induction Rr as [v Hv|v t r Hv Hr' IH|o' args']; auto.
        intros _. apply IH. eapply Jsc; eauto. }
      rewrite Ex in R0. inversion R0 as [|? t ? Hx Rt|]; subst.
      assert (Tg : tg H (length (vars s)) (O o args)) by (eapply Tr; [exact Rt|eapply Jsc; eauto]).
      inversion Tg as [|? ? La _]; subst.
      apply Lub.basic_iff in Bo. rewrite Bo in La. destruct args; [reflexivity|discriminate].
  - intros u Ef.
    assert (R0 : rsv s (k_ref k) (V u)) by (rewrite <- Ef; apply follow_rsv; apply I).
    exact (Hr _ R0).
Qed.

End Progs.

(* ================================================================== *)
(* Part 5.  Expressions over operators with pure subtype constraints    *)
(* ================================================================== *)
Section ExprSub.
Variable H : hier.
Hypothesis W : wf_hier H.
Local Notation len s := (length (vars s)).

(* ---- what is proved of a leaf (a CInst command) in the final store ----
   [env]: the leaf's own fresh variables, one per schematic variable.
   (1) under every satisfying grounding the leaf's value denotes its declared
       body under the substitution  i |-> den th (env_i);
   (2) every declared constraint  x_i <= a  (x_i < a)  whose variable is
       resolved in the final store holds - on the operators, and of that
       substitution under every satisfying grounding. *)
Definition leaf_sem (n0 : nat) (s : store) (vals : list tyv) (k : nat) (sch : schema) : Prop :=
  let env := map V (seq n0 (s_n sch)) in
    (forall th, sat H th s ->
       (forall i, wf_ty H (sig_of th env i)) /\
       sinst H (sig_of th env) (s_body sch) (den th (val vals k)) /\
       (nowild (s_body sch) = true -> den th (val vals k) = ssubst (sig_of th env) (s_body sch))) /\
    (forall i a st, In (SCSub (SVar i) (SOp a []) st) (s_constrs sch) ->
       forall o args, follow s (nth i env (V 0)) = O o args ->
         (Sub H (TOp o []) (TOp a []) /\ (st = true -> o <> a) /\ (args = [] \/ a = Top)) /\
         forall th, sat H th s ->
           Sub H (sig_of th env i) (TOp a []) /\ (st = true -> sig_of th env i <> TOp a [])).

Lemma leaf_sem_of_fact fuel sc prog vals s : progSQ H 0 prog ->
  run_cmds H fuel prog 0 [] (empty_store sc) = (None, vals, s) ->
  forall n0 k sch, leaf_fact H n0 s vals k sch -> leaf_sem n0 s vals k sch.
Proof.
  intros P R n0 k sch (c0 & Lc & Hj & Pi). unfold leaf_sem.
  set (env := map V (seq n0 (s_n sch))) in *. split.
  - intros th S. destruct (Pi th S) as (Ws & Si). split; [exact Ws|split; [exact Si|]].
    intros Nw. eapply sinst_nowild; eauto.
  - intros i a st Hin o args Ef.
    destruct (In_nth_error _ _ Hin) as (j & Hn).
    assert (Lj : j < length (s_constrs sch)) by (apply nth_error_Some; congruence).
    destruct (Hj j i a st Hn) as (Kr & Ka & Ks).
    destruct (constraints_holdQ H W fuel sc prog vals s P R (c0 + j)) as (_ & _ & a' & Ea & _ & Hr & _); [lia|].
    rewrite Ka in Ea. inversion Ea; subst a'. rewrite Kr, Ks in Hr.
    destruct (Hr o args Ef) as (Sb & St & Ar).
    split; [split; [exact Sb|split; [exact St|exact Ar]]|].
    intros th S. unfold sig_of. rewrite <- (den_follow H th s _ S), Ef. cbn [den].
    destruct Ar as [->| ->].
    + cbn [map]. split; [exact Sb|]. intros Es E. apply (St Es). congruence.
    + split; [apply SubTop|]. intros Es E. apply (St Es). congruence.
Qed.

(* for every leaf: the number of the first fresh variable of its instantiation *)
Definition prog_vars (fuel : nat) (sc : list nat) (prog : list cmd) : list (nat * nat) :=
  inst_trace H fuel prog [] (empty_store sc).

(* every CInst of an accepted program of the class *)
Theorem prog_leaves_sub fuel sc prog vals s : progSQ H 0 prog ->
  run_cmds H fuel prog 0 [] (empty_store sc) = (None, vals, s) ->
  forall k sch, In (k, sch) (insts_of prog 0) ->
  exists n0, In (k, n0) (prog_vars fuel sc prog) /\ leaf_sem n0 s vals k sch.
Proof.
  intros P R k sch Hin.
  destruct (run_cmds_leaves H W fuel prog 0 [] (empty_store sc) vals s (Jv_empty H sc) (allpure_empty H sc)
              (Forall_nil _) P R k sch Hin) as (n0 & Hn0 & Lf).
  exists n0. split; [exact Hn0|]. apply (leaf_sem_of_fact fuel sc prog vals s P R). exact Lf.
Qed.

(* the semantic reading of every command, as for the constraint-free class *)
Theorem prog_sem_sub fuel sc prog vals s : progSQ H 0 prog ->
  run_cmds H fuel prog 0 [] (empty_store sc) = (None, vals, s) ->
  forall th, sat H th s ->
  (forall f x r, In (f, x, r) (steps_of prog 0) ->
     StepSem H th (val vals f) (val vals x) (val vals r)) /\
  (forall a b, In (a, b) (unifs_of prog) -> Sub H (den th (val vals a)) (den th (val vals b))) /\
  (forall a r, In (a, r) (fixes_of prog 0) -> den th (val vals r) = den th (val vals a)).
Proof.
  intros P R th S.
  destruct (run_cmds_cells H W fuel prog 0 [] (empty_store sc) vals s (Jv_empty H sc) (allpure_empty H sc)
              (Forall_nil _) P R) as (_ & _ & _ & _ & _ & Sem).
  destruct (prog_sem_obs H th vals _ 0 (Sem th S)) as (A & _ & C & D).
  rewrite steps_erase' in A. rewrite unifs_erase in C. rewrite fixes_erase in D. auto.
Qed.

Theorem prog_satisfiable_sub fuel sc prog vals s : progSQ H 0 prog ->
  run_cmds H fuel prog 0 [] (empty_store sc) = (None, vals, s) ->
  exists th, sat H th s.
Proof.
  intros P R.
  destruct (sim_run_cmds H fuel prog 0 [] _ _ vals s (progSQ_pure H _ _ P) (Rv_empty H sc) R)
    as (s0 & R0 & Ev & _).
  destruct (prog_satisfiable H W fuel sc _ vals s0 (progSQ_erase H _ _ P) R0) as (th & S).
  exists th. apply (sat_vars H th s s0 Ev). exact S.
Qed.

(* ---- expression trees ---- *)
(* operator leaves may carry pure subtype constraints on their schematic variables *)
Fixpoint leaves_okS (e : expr) : Prop :=
  match e with
  | EOp sc => styg H (s_n sc) (s_body sc) /\ Forall (psc H (s_n sc)) (s_constrs sc)
  | ESrc t => styg H (sbound t) t
  | EApp f x => leaves_okS f /\ leaves_okS x
  end.

Lemma leaves_ok_okS e : leaves_ok H e -> leaves_okS e.
Proof.
  induction e as [sc|t|f IHf x IHx]; cbn [leaves_ok leaves_okS]; auto.
  - intros (Nc & Sb). split; [exact Sb|rewrite Nc; constructor].
  - intros (Lf & Lx). auto.
Qed.

Lemma progS_app : forall a n b, progS H n a -> progS H (n + length a) b -> progS H n (a ++ b).
Proof.
  induction a as [|c a IH]; intros n b Pa Pb; cbn [List.app length] in *.
  - rewrite Nat.add_0_r in Pb. exact Pb.
  - destruct Pa as [Pc Pa]. split; [exact Pc|]. apply IH; [exact Pa|].
    replace (S n + length a) with (n + S (length a)) by lia. exact Pb.
Qed.

Lemma code_progS e : leaves_okS e -> forall n, progS H n (code e n).
Proof.
  induction e as [sc|t|f IHf x IHx]; intros L n; cbn [code leaves_okS] in *.
  - destruct L as [Sb Pc]. split; [constructor; auto|exact I].
  - split; [constructor; [exact L|constructor]|exact I].
  - destruct L as [Lf Lx]. apply progS_app; [apply IHf; exact Lf|]. rewrite code_length.
    apply progS_app; [apply IHx; exact Lx|]. rewrite code_length.
    pose proof (size_pos f). pose proof (size_pos x).
    split; [|exact I]. unfold vidx. constructor; lia.
Qed.

Theorem compile_wfS e : leaves_okS e -> forall n,
  let '(cs, v, n') := compile e n in
  progS H n cs /\ prog_wf n cs /\ length cs = size e /\ v = n + size e - 1 /\ n' = n + size e.
Proof.
  intros L n. rewrite compile_eq. pose proof (code_progS e L n) as P.
  split; [exact P|split; [apply (progSQ_wf H); apply progS_SQ; exact P|split; [apply code_length|split; reflexivity]]].
Qed.

Theorem expr_sub e fuel sc vals s : leaves_okS e ->
  run_cmds H fuel (prog_of e) 0 [] (empty_store sc) = (None, vals, s) ->
  (forall th, sat H th s -> forall f x r, In (f, x, r) (nodes e 0) ->
     StepSem H th (val vals f) (val vals x) (val vals r)) /\
  (forall k sch, In (k, sch) (leaves e 0) ->
     exists n0, In (k, n0) (prog_vars fuel sc (prog_of e)) /\ leaf_sem n0 s vals k sch).
Proof.
  intros L R. rewrite prog_of_code in R.
  pose proof (progS_SQ H _ _ (code_progS e L 0)) as P. split.
  - intros th S f x r Hin. rewrite <- steps_code0 in Hin.
    apply (proj1 (prog_sem_sub fuel sc _ vals s P R th S)). exact Hin.
  - intros k sch Hin. rewrite <- insts_code0 in Hin. rewrite prog_of_code.
    apply (prog_leaves_sub fuel sc _ vals s P R k sch Hin).
Qed.

Theorem expr_sub_satisfiable e fuel sc vals s : leaves_okS e ->
  run_cmds H fuel (prog_of e) 0 [] (empty_store sc) = (None, vals, s) -> exists th, sat H th s.
Proof.
  intros L R. rewrite prog_of_code in R.
  apply (prog_satisfiable_sub fuel sc _ vals s (progS_SQ H _ _ (code_progS e L 0)) R).
Qed.

End ExprSub.

(* ================================================================== *)
(* Part 6.  The whole compiled program: numbered inputs, annotations,   *)
(* typed-source self-unification, the fix traversal                     *)
(* ================================================================== *)
Section FullSub.
Variable H : hier.
Hypothesis W : wf_hier H.

(* k = number of inputs; operator leaves may carry pure subtype constraints *)
Fixpoint xokS (k : nat) (e : xexpr) : Prop :=
  match e with
  | XOp sc _ => styg H (s_n sc) (s_body sc) /\ Forall (psc H (s_n sc)) (s_constrs sc)
  | XSrc t => styg H (sbound t) t
  | XIn i => i < k
  | XApp f x => xokS k f /\ xokS k x
  | XAnn e T => xokS k e /\ styg H (sbound T) T
  end.

Lemma xok_okS k e : xok H k e -> xokS k e.
Proof.
  induction e as [sc data|t|i|f IHf x IHx|e IHe T]; cbn [xok xokS]; auto.
  - intros (Nc & Sb). split; [exact Sb|rewrite Nc; constructor].
  - intros (Kf & Kx). auto.
  - intros (Ke & KT). auto.
Qed.

Fixpoint xerase (e : xexpr) : xexpr :=
  match e with
  | XOp sc d => XOp (erase_schema sc) d
  | XApp f x => XApp (xerase f) (xerase x)
  | XAnn e T => XAnn (xerase e) T
  | _ => e
  end.

(* the (value index, declared signature) of the operator leaves of the tree *)
Fixpoint xleaves (e : xexpr) (n : nat) : list (nat * schema) :=
  match e with
  | XOp sc _ => [(n, sc)]
  | XSrc _ => []
  | XIn _ => []
  | XApp f x => xleaves f n ++ xleaves x (snd (xcompile f n))
  | XAnn e _ => xleaves e n
  end.

Lemma xcompile_erase e : forall n, xcompile (xerase e) n =
  (map erase_cmd (fst (fst (xcompile e n))), snd (fst (xcompile e n)), snd (xcompile e n)).
Proof.
  induction e as [sc data|t|i|f IHf x IHx|e IHe T]; intros n; cbn [xerase xcompile].
  - reflexivity.
  - destruct (is_wild t); reflexivity.
  - reflexivity.
  - rewrite IHf. destruct (xcompile f n) as [[cf nf] n1]. cbn [fst snd].
    rewrite IHx. destruct (xcompile x n1) as [[cx nx] n2]. cbn [fst snd].
    rewrite !map_app. reflexivity.
  - rewrite IHe. destruct (xcompile e n) as [[ce ne] n1]. cbn [fst snd].
    rewrite map_app. reflexivity.
Qed.

Lemma xok_erase k e : xokS k e -> xok H k (xerase e).
Proof.
  induction e as [sc data|t|i|f IHf x IHx|e IHe T]; cbn [xok xokS xerase]; auto.
  - intros (Sb & _). split; [reflexivity|exact Sb].
  - intros (Kf & Kx). auto.
  - intros (Ke & KT). auto.
Qed.

Lemma fixc_erase nd : map erase_cmd (fixc nd) = fixc nd.
Proof.
  induction nd as [v|v|v f IHf x IHx]; cbn [fixc map]; try reflexivity.
  rewrite !map_app, IHf, IHx. reflexivity.
Qed.

Lemma input_cmds_erase inputs : map erase_cmd (input_cmds inputs) = input_cmds inputs.
Proof. unfold input_cmds. rewrite map_map. reflexivity. Qed.

Lemma xprog_erase inputs e : xprog inputs (xerase e) = map erase_cmd (xprog inputs e).
Proof.
  unfold xprog. rewrite xcompile_erase. destruct (xcompile e (length inputs)) as [[cs nd] n1].
  cbn [fst snd]. rewrite !map_app, fixc_erase, input_cmds_erase. reflexivity.
Qed.

(* the constraints of every CInst are pure and well scoped *)
Definition pscmd (c : cmd) : Prop :=
  match c with CInst sc => Forall (psc H (s_n sc)) (s_constrs sc) | _ => True end.

Lemma progSQ_of_erase : forall cs n, progQ H n (map erase_cmd cs) -> Forall pscmd cs -> progSQ H n cs.
Proof.
  induction cs as [|c cs IH]; intros n P F; cbn [map progQ progSQ] in *; [exact I|].
  destruct P as [Pc Pr]. inversion F as [|? ? Fc Fr]; subst. rewrite nxt_erase in Pr.
  split; [|apply IH; auto].
  destruct c as [sc|f x b|a b sub|a pl]; cbn [erase_cmd pscmd] in *; inversion Pc; subst; constructor; auto.
Qed.

Lemma xcompile_pscmd k e : xokS k e -> forall n, Forall pscmd (fst (fst (xcompile e n))).
Proof.
  induction e as [sc data|t|i|f IHf x IHx|e IHe T]; intros K n; cbn [xcompile xokS] in *.
  - cbn. constructor; [apply K|constructor].
  - cbn [fst]. constructor; [constructor|]. destruct (is_wild t); repeat constructor.
  - constructor.
  - destruct K as [Kf Kx]. specialize (IHf Kf n). destruct (xcompile f n) as [[cf nf] n1].
    specialize (IHx Kx n1). destruct (xcompile x n1) as [[cx nx] n2]. cbn [fst snd] in *.
    apply Forall_app. split; [exact IHf|]. apply Forall_app. split; [exact IHx|repeat constructor].
  - destruct K as [Ke KT]. specialize (IHe Ke n). destruct (xcompile e n) as [[ce ne] n1]. cbn [fst snd] in *.
    apply Forall_app. split; [exact IHe|repeat constructor].
Qed.

Lemma fixc_pscmd nd : Forall pscmd (fixc nd).
Proof.
  induction nd as [v|v|v f IHf x IHx]; cbn [fixc]; repeat constructor.
  apply Forall_app. split; [exact IHf|]. apply Forall_app. split; [exact IHx|repeat constructor].
Qed.

Theorem xprog_okS inputs e : Forall (fun t => styg H (sbound t) t) inputs -> xokS (length inputs) e ->
  progSQ H 0 (xprog inputs e).
Proof.
  intros Fi K. apply progSQ_of_erase.
  - rewrite <- xprog_erase. apply xprog_ok; [exact Fi|apply xok_erase; exact K].
  - unfold xprog. pose proof (xcompile_pscmd _ e K (length inputs)) as Fc.
    destruct (xcompile e (length inputs)) as [[cs nd] n1]. cbn [fst] in Fc.
    apply Forall_app. split; [|apply Forall_app; split; [exact Fc|apply fixc_pscmd]].
    unfold input_cmds. rewrite Forall_forall. intros c Hc. apply in_map_iff in Hc.
    destruct Hc as (t & <- & _). constructor.
Qed.

Lemma xsem_erase th vals e : forall n, xsem H th vals (xerase e) n <-> xsem H th vals e n.
Proof.
  induction e as [sc data|t|i|f IHf x IHx|e IHe T]; intros n; cbn [xerase xsem].
  - split; intros X; exact X.
  - split; intros X; exact X.
  - tauto.
  - rewrite (xcompile_erase f n). destruct (xcompile f n) as [[cf nf] n1]. cbn [fst snd].
    rewrite (xcompile_erase x n1). destruct (xcompile x n1) as [[cx nx] n2]. cbn [fst snd].
    rewrite IHf, IHx. tauto.
  - rewrite (xcompile_erase e n). destruct (xcompile e n) as [[ce ne] n1]. cbn [fst snd].
    rewrite IHe. tauto.
Qed.

Lemma insts_app a : forall b n, insts_of (a ++ b) n = insts_of a n ++ insts_of b (nxts a n).
Proof.
  induction a as [|c a IH]; intros b n; cbn [List.app nxts]; [reflexivity|].
  destruct c; cbn [insts_of nxt]; rewrite IH; reflexivity.
Qed.

Lemma xleaves_insts e : forall n, incl (xleaves e n) (insts_of (fst (fst (xcompile e n))) n).
Proof.
  induction e as [sc data|t|i|f IHf x IHx|e IHe T]; intros n; cbn [xleaves xcompile].
  - cbn. apply incl_refl.
  - intros y [].
  - intros y [].
  - pose proof (xcompile_nxts f n) as Nf. specialize (IHf n).
    destruct (xcompile f n) as [[cf nf] n1]. cbn [fst snd] in *.
    specialize (IHx n1). destruct (xcompile x n1) as [[cx nx] n2]. cbn [fst snd] in *.
    rewrite !insts_app, <- Nf. intros y Hy. apply in_app_or in Hy. apply in_or_app.
    destruct Hy as [Hy|Hy]; [left; apply IHf; exact Hy|right; apply in_or_app; left; apply IHx; exact Hy].
  - specialize (IHe n). destruct (xcompile e n) as [[ce ne] n1]. cbn [fst snd] in *.
    rewrite insts_app. intros y Hy. apply in_or_app. left. apply IHe. exact Hy.
Qed.

Lemma xleaves_xprog inputs e : Forall (fun t => styg H (sbound t) t) inputs ->
  incl (xleaves e (length inputs)) (insts_of (xprog inputs e) 0).
Proof.
  intros Fi. unfold xprog. pose proof (xleaves_insts e (length inputs)) as Il.
  destruct (xcompile e (length inputs)) as [[cs nd] n1]. cbn [fst] in Il.
  destruct (input_cmds_ok H inputs Fi 0) as [_ Ni]. cbn in Ni.
  rewrite insts_app, Ni, insts_app. intros y Hy. apply in_or_app. right. apply in_or_app. left.
  apply Il. exact Hy.
Qed.

(* C04 for the whole compiled program over operators with pure constraints *)
Theorem xexpr_sub inputs e fuel sc vals s :
  Forall (fun t => styg H (sbound t) t) inputs -> xokS (length inputs) e ->
  run_cmds H fuel (xprog inputs e) 0 [] (empty_store sc) = (None, vals, s) ->
  (forall th, sat H th s ->
     let k := length inputs in
     let '(cs, nd, n1) := xcompile e k in
     (forall i t, nth_error inputs i = Some t -> is_inst H th (src_schema t) (val vals i)) /\
     xsem H th vals e k /\ nsem H th vals nd /\
     nsem H th vals (fst (fixed nd n1)) /\
     den th (val vals (nval (fst (fixed nd n1)))) = den th (val vals (nval nd))) /\
  (forall k sch, In (k, sch) (insts_of (xprog inputs e) 0) ->
     exists n0, In (k, n0) (prog_vars H fuel sc (xprog inputs e)) /\ leaf_sem H n0 s vals k sch) /\
  (forall k sch, In (k, sch) (xleaves e (length inputs)) ->
     exists n0, In (k, n0) (prog_vars H fuel sc (xprog inputs e)) /\ leaf_sem H n0 s vals k sch).
Proof.
  intros Fi K R. pose proof (xprog_okS inputs e Fi K) as P.
  assert (Lf : forall k sch, In (k, sch) (insts_of (xprog inputs e) 0) ->
            exists n0, In (k, n0) (prog_vars H fuel sc (xprog inputs e)) /\ leaf_sem H n0 s vals k sch).
  { intros k sch Hin. apply (prog_leaves_sub H W fuel sc _ vals s P R k sch Hin). }
  split; [|split; [exact Lf|]].
  - intros th S. cbv zeta.
    destruct (sim_run_cmds H fuel _ 0 [] _ _ vals s (progSQ_pure H _ _ P) (Rv_empty H sc) R)
      as (s0 & R0 & Ev & _).
    rewrite <- xprog_erase in R0.
    pose proof (xexpr_sound H W inputs (xerase e) fuel sc vals s0 Fi (xok_erase _ _ K) R0 th
                  (proj2 (sat_vars H th s s0 Ev) S)) as X.
    cbv zeta in X. rewrite xcompile_erase in X.
    destruct (xcompile e (length inputs)) as [[cs nd] n1]. cbn [fst snd] in X.
    rewrite xsem_erase in X. exact X.
  - intros k sch Hin. apply Lf. apply (xleaves_xprog inputs e Fi). exact Hin.
Qed.

Theorem xexpr_sub_satisfiable inputs e fuel sc vals s :
  Forall (fun t => styg H (sbound t) t) inputs -> xokS (length inputs) e ->
  run_cmds H fuel (xprog inputs e) 0 [] (empty_store sc) = (None, vals, s) -> exists th, sat H th s.
Proof.
  intros Fi K R. apply (prog_satisfiable_sub H W fuel sc _ vals s (xprog_okS inputs e Fi K) R).
Qed.

End FullSub.
