(* C05: on comparable arguments the inferred type is the least upper bound,
   in any order.  Lemmas about the engine model (Infer/Engine.v):
   - one-level unfoldings of the mutual fixpoint (unify_S, above_S, below_S, ...)
   - exact evaluation of above / below / bind / fix on a variable whose
     constraint set is empty, in an arbitrary store (above_eval, below_eval,
     bind_basic_eval, fix_var_lower, ...) and their declarative reading
     (above_pure_spec, below_pure_spec)
   - the running extremum of a chain, generic in the direction (Section Order)
   - the chain programs c(x) ** .. ** c(x) ** x applied to c(a_i) for covariant
     unary contexts c (chain_prog_c; chain_prog for c = identity) and the
     contravariant reading (x ** b) ** .. ** x applied to (a_i ** b)
     (chain_prog_d), with the invariants Inv / Inv_d on the schematic variable
   - the theorems exported by props/C05.v (spelled out at the end). *)
From Coq Require Import List Arith Bool Lia Permutation.
Import ListNotations.
From TF Require Import Base.Hier Base.Ty Infer.Store Infer.Engine Infer.Run.

(* ------------------------------------------------------------------ *)
(* store bookkeeping                                                   *)

Lemma upd_length {A} (x : A) : forall l i, length (upd i x l) = length l.
Proof. induction l as [|y r IH]; intros [|i]; cbn [upd length]; auto. Qed.

Lemma nth_upd_same {A} (x d : A) : forall l i, i < length l -> nth i (upd i x l) d = x.
Proof.
  induction l as [|y r IH]; intros [|i] Hi; cbn [upd nth length] in *; try lia; auto.
  apply IH. lia.
Qed.

Lemma upd_upd {A} (x y : A) : forall l i, upd i y (upd i x l) = upd i y l.
Proof. induction l as [|z r IH]; intros [|i]; cbn [upd]; auto. now rewrite IH. Qed.

Lemma cell_of_set_same s v c : v < length (vars s) -> cell_of (set_cell s v c) v = c.
Proof. intros Hv. unfold cell_of, set_cell. cbn [vars]. now apply nth_upd_same. Qed.

Lemma set_cell_twice s v c c' : set_cell (set_cell s v c) v c' = set_cell s v c'.
Proof. unfold set_cell. cbn [vars csets constrs sched]. now rewrite upd_upd. Qed.

Lemma vars_set_cell_length s v c : length (vars (set_cell s v c)) = length (vars s).
Proof. unfold set_cell. cbn [vars]. apply upd_length. Qed.

Lemma cset_of_set_cell s v c i : cset_of (set_cell s v c) i = cset_of s i.
Proof. reflexivity. Qed.

Section Lub.
  Variable H : hier.

  (* ------------------------------------------------------------------ *)
  (* one-level unfoldings of the mutual fixpoint                         *)

  Lemma check_constraints_S f v :
    check_constraints H (S f) v =
      (pending <- gets (fun s => cset_of s (c_cs (cell_of s v))) ;;
       order <- (if 2 <=? length pending
                 then r <- next_choice ;; ret (permute (length pending) r pending)
                 else ret pending) ;;
       forM order (fun c =>
         done <- fulfill H f c ;;
         if done then
           modify (fun s => let i := c_cs (cell_of s v) in set_cset s i (remove_nat c (cset_of s i)))
         else ret tt)).
  Proof. reflexivity. Qed.

  (* no pending constraints: nothing happens *)
  Lemma check_constraints_empty f v s :
    cset_of s (c_cs (cell_of s v)) = [] -> check_constraints H (S f) v s = MOk tt s.
  Proof.
    intros E. rewrite check_constraints_S. unfold bindM, gets. rewrite E. reflexivity.
  Qed.

  Definition above_tail (f v : nat) : M unit :=
    c' <- gets (fun s => cell_of s v) ;;
    match c_bound c', c_lower c', c_upper c' with
    | None, Some l, Some u => if Nat.eqb l u then bind H f v (O l []) else ret tt
    | _, _, _ => ret tt
    end.

  Lemma above_S f v new :
    above H (S f) v new =
      if Nat.eqb new Top then bind H f v (O Top [])
      else
        set_wild v false ;;;
        c <- gets (fun s => cell_of s v) ;;
        match c_bound c with
        | Some t => unify H f true false false (O new []) t
        | None =>
            (match c_upper c, c_lower c with
             | Some u, _ =>
                 if osub H true u new then fail ESubtypeMismatch
                 else if negb (osub H false new u) then fail ESubtypeMismatch
                 else match c_lower c with
                      | Some l =>
                          if osub H true new l then ret tt
                          else if osub H false l new then set_lower v (Some new) ;;; check_constraints H f v
                          else fail ESubtypeMismatch
                      | None => set_lower v (Some new) ;;; check_constraints H f v
                      end
             | None, Some l =>
                 if osub H true new l then ret tt
                 else if osub H false l new then set_lower v (Some new) ;;; check_constraints H f v
                 else fail ESubtypeMismatch
             | None, None => set_lower v (Some new) ;;; check_constraints H f v
             end) ;;;
            above_tail f v
        end.
  Proof. reflexivity. Qed.

  Definition below_tail (f v : nat) : M unit :=
    c' <- gets (fun s => cell_of s v) ;;
    match c_bound c', c_upper c', c_lower c' with
    | None, Some u, Some l => if Nat.eqb u l then bind H f v (O u []) else ret tt
    | _, _, _ => ret tt
    end.

  Lemma below_S f v new :
    below H (S f) v new =
      if Nat.eqb new Bottom then bind H f v (O Bottom [])
      else
        set_wild v false ;;;
        c <- gets (fun s => cell_of s v) ;;
        match c_bound c with
        | Some t => unify H f true false false t (O new [])
        | None =>
            (match c_lower c, c_upper c with
             | Some l, _ =>
                 if osub H true new l then fail ESubtypeMismatch
                 else if negb (osub H false l new) then fail ESubtypeMismatch
                 else match c_upper c with
                      | Some u =>
                          if osub H true u new then ret tt
                          else if osub H false new u then set_upper v (Some new) ;;; check_constraints H f v
                          else fail ESubtypeMismatch
                      | None => set_upper v (Some new) ;;; check_constraints H f v
                      end
             | None, Some u =>
                 if osub H true u new then ret tt
                 else if osub H false new u then set_upper v (Some new) ;;; check_constraints H f v
                 else fail ESubtypeMismatch
             | None, None => set_upper v (Some new) ;;; check_constraints H f v
             end) ;;;
            below_tail f v
        end.
  Proof. reflexivity. Qed.

  (* bind to a basic operator *)
  Lemma bind_S_basic f v o :
    basic H o = true ->
    bind H (S f) v (O o []) =
      (c <- gets (fun s => cell_of s v) ;;
       match c_bound c with
       | Some _ => fail (ECrash site_bind_twice)
       | None =>
           set_wild v false ;;;
           set_bound v (Some (O o [])) ;;;
           (if (match c_lower c with Some l => osub H true o l | None => false end)
            then fail ESubtypeMismatch
            else if (match c_upper c with Some u => osub H true u o | None => false end)
            then fail ESubtypeMismatch
            else ret tt) ;;;
           check_constraints H f v
       end).
  Proof. intros B. cbn [bind]. rewrite B. reflexivity. Qed.

  Lemma fix_ty_S f pl t :
    fix_ty H (S f) pl t =
      (a <- gets (fun s => follow s t) ;;
       (match a with
        | O o args =>
            (fix go (vs : list bool) (ps : list tyv) : M unit :=
               match vs, ps with
               | v :: vs', p :: ps' =>
                   fix_ty H f (if v then pl else negb pl) p ;;; go vs' ps'
               | _, _ => ret tt
               end) (variance H o) args
        | V v =>
            c <- gets (fun s => cell_of s v) ;;
            if pl then
              match c_lower c with Some l => bind H f v (O l []) | None => ret tt end
            else
              match c_upper c with Some u => bind H f v (O u []) | None => ret tt end
        end) ;;;
       gets (fun s => follow s a)).
  Proof. reflexivity. Qed.

  (* ------------------------------------------------------------------ *)
  (* above / below on a variable whose constraint set is empty            *)

  Definition lower_step (lo : option nat) (new : nat) : option (option nat) :=
    match lo with
    | None => Some (Some new)
    | Some l => if osub H true new l then Some lo
                else if osub H false l new then Some (Some new) else None
    end.

  (* [None] = SubtypeMismatch, [Some lo'] = the new lower bound *)
  Definition above_pure (lo up : option nat) (new : nat) : option (option nat) :=
    match up with
    | Some u => if osub H true u new then None
                else if negb (osub H false new u) then None else lower_step lo new
    | None => lower_step lo new
    end.

  Ltac norm Hv :=
    repeat first [ (rewrite cell_of_set_same by (rewrite ?vars_set_cell_length; exact Hv))
                 | rewrite set_cell_twice ];
    cbn [c_bound c_lower c_upper c_cs c_wild].

  Lemma set_lower_check f v new s w b lo up i :
    v < length (vars s) -> cell_of s v = mkCell w b lo up i -> cset_of s i = [] ->
    (set_lower v (Some new) ;;; check_constraints H (S f) v) s =
      MOk tt (set_cell s v (mkCell w b (Some new) up i)).
  Proof.
    intros Hv Hc Hcs. unfold set_lower, upd_cell, bindM, modify. rewrite Hc.
    cbn [c_bound c_lower c_upper c_cs c_wild].
    apply check_constraints_empty. norm Hv. exact Hcs.
  Qed.

  Lemma set_upper_check f v new s w b lo up i :
    v < length (vars s) -> cell_of s v = mkCell w b lo up i -> cset_of s i = [] ->
    (set_upper v (Some new) ;;; check_constraints H (S f) v) s =
      MOk tt (set_cell s v (mkCell w b lo (Some new) i)).
  Proof.
    intros Hv Hc Hcs. unfold set_upper, upd_cell, bindM, modify. rewrite Hc.
    cbn [c_bound c_lower c_upper c_cs c_wild].
    apply check_constraints_empty. norm Hv. exact Hcs.
  Qed.

  Lemma above_eval f v new s w lo up i :
    v < length (vars s) -> cell_of s v = mkCell w None lo up i -> cset_of s i = [] ->
    Nat.eqb new Top = false ->
    above H (S (S f)) v new s =
      match above_pure lo up new with
      | Some lo' => above_tail (S f) v (set_cell s v (mkCell false None lo' up i))
      | None => MEr ESubtypeMismatch (set_cell s v (mkCell false None lo up i))
      end.
  Proof.
    intros Hv Hc Hcs NT. rewrite above_S, NT.
    unfold set_wild, upd_cell.
    unfold bindM at 1 2. unfold modify at 1. unfold gets at 1.
    rewrite Hc. norm Hv.
    set (s1 := set_cell s v (mkCell false None lo up i)).
    assert (Hv1 : v < length (vars s1)) by (unfold s1; now rewrite vars_set_cell_length).
    assert (Hc1 : cell_of s1 v = mkCell false None lo up i) by (unfold s1; now norm Hv).
    assert (Hcs1 : cset_of s1 i = []) by exact Hcs.
    assert (Hset : forall lo', set_cell s1 v (mkCell false None lo' up i)
                               = set_cell s v (mkCell false None lo' up i))
      by (intros; unfold s1; now rewrite set_cell_twice).
    assert (Hid : s1 = set_cell s v (mkCell false None lo up i)) by reflexivity.
    clearbody s1.
    unfold above_pure, lower_step.
    destruct up as [u|], lo as [l|];
      repeat match goal with
             | |- context [if ?b then _ else _] => destruct b eqn:?; cbn [negb]
             end;
      unfold bindM at 1;
      try rewrite (set_lower_check _ _ _ _ _ _ _ _ _ Hv1 Hc1 Hcs1), Hset;
      try reflexivity; try (unfold ret, fail; rewrite <- ?Hid; reflexivity).
  Qed.

  Definition upper_step (up : option nat) (new : nat) : option (option nat) :=
    match up with
    | None => Some (Some new)
    | Some u => if osub H true u new then Some up
                else if osub H false new u then Some (Some new) else None
    end.

  Definition below_pure (lo up : option nat) (new : nat) : option (option nat) :=
    match lo with
    | Some l => if osub H true new l then None
                else if negb (osub H false l new) then None else upper_step up new
    | None => upper_step up new
    end.

  Lemma below_eval f v new s w lo up i :
    v < length (vars s) -> cell_of s v = mkCell w None lo up i -> cset_of s i = [] ->
    Nat.eqb new Bottom = false ->
    below H (S (S f)) v new s =
      match below_pure lo up new with
      | Some up' => below_tail (S f) v (set_cell s v (mkCell false None lo up' i))
      | None => MEr ESubtypeMismatch (set_cell s v (mkCell false None lo up i))
      end.
  Proof.
    intros Hv Hc Hcs NT. rewrite below_S, NT.
    unfold set_wild, upd_cell.
    unfold bindM at 1 2. unfold modify at 1. unfold gets at 1.
    rewrite Hc. norm Hv.
    set (s1 := set_cell s v (mkCell false None lo up i)).
    assert (Hv1 : v < length (vars s1)) by (unfold s1; now rewrite vars_set_cell_length).
    assert (Hc1 : cell_of s1 v = mkCell false None lo up i) by (unfold s1; now norm Hv).
    assert (Hcs1 : cset_of s1 i = []) by exact Hcs.
    assert (Hset : forall up', set_cell s1 v (mkCell false None lo up' i)
                               = set_cell s v (mkCell false None lo up' i))
      by (intros; unfold s1; now rewrite set_cell_twice).
    assert (Hid : s1 = set_cell s v (mkCell false None lo up i)) by reflexivity.
    clearbody s1.
    unfold below_pure, upper_step.
    destruct up as [u|], lo as [l|];
      repeat match goal with
             | |- context [if ?b then _ else _] => destruct b eqn:?; cbn [negb]
             end;
      unfold bindM at 1;
      try rewrite (set_upper_check _ _ _ _ _ _ _ _ _ Hv1 Hc1 Hcs1), Hset;
      try reflexivity; try (unfold ret, fail; rewrite <- ?Hid; reflexivity).
  Qed.

  (* the closing `if lower == upper: bind` does nothing unless the bounds meet *)
  Lemma above_tail_open f v s w b lo up i :
    cell_of s v = mkCell w b lo up i ->
    (match lo, up with Some l, Some u => Nat.eqb l u = false | _, _ => True end) ->
    above_tail f v s = MOk tt s.
  Proof.
    intros Hc Hne. unfold above_tail, bindM, gets. rewrite Hc.
    cbn [c_bound c_lower c_upper]. destruct b, lo, up; try reflexivity. now rewrite Hne.
  Qed.

  Lemma below_tail_open f v s w b lo up i :
    cell_of s v = mkCell w b lo up i ->
    (match lo, up with Some l, Some u => Nat.eqb u l = false | _, _ => True end) ->
    below_tail f v s = MOk tt s.
  Proof.
    intros Hc Hne. unfold below_tail, bindM, gets. rewrite Hc.
    cbn [c_bound c_lower c_upper]. destruct b, lo, up; try reflexivity. now rewrite Hne.
  Qed.

  (* binding an unbound, unconstrained variable to a basic operator within its bounds *)
  Lemma bind_basic_eval f v o s w lo up i :
    v < length (vars s) -> cell_of s v = mkCell w None lo up i -> cset_of s i = [] ->
    basic H o = true ->
    bind H (S (S f)) v (O o []) s =
      if (match lo with Some l => osub H true o l | None => false end)
         || (match up with Some u => osub H true u o | None => false end)
      then MEr ESubtypeMismatch (set_cell s v (mkCell false (Some (O o [])) lo up i))
      else MOk tt (set_cell s v (mkCell false (Some (O o [])) lo up i)).
  Proof.
    intros Hv Hc Hcs B. rewrite (bind_S_basic _ _ _ B).
    unfold bindM at 1. unfold gets at 1. rewrite Hc. cbn [c_bound c_lower c_upper].
    unfold set_wild, set_bound, upd_cell.
    unfold bindM at 1 2. unfold modify at 1 2. cbv beta. rewrite Hc. norm Hv.
    set (s2 := set_cell s v _).
    assert (Hcs2 : cset_of s2 (c_cs (cell_of s2 v)) = [])
      by (unfold s2; norm Hv; exact Hcs).
    destruct (match lo with Some l => osub H true o l | None => false end); cbn [orb].
    - reflexivity.
    - destruct (match up with Some u => osub H true u o | None => false end).
      + reflexivity.
      + unfold bindM, ret. now apply check_constraints_empty.
  Qed.

  Lemma unify_S f sub skb skw a0 b0 :
    unify H (S f) sub skb skw a0 b0 =
      (a <- gets (fun s => follow s a0) ;;
       b <- gets (fun s => follow s b0) ;;
       match a, b with
       | V va, V vb =>
           wa <- gets (fun s => c_wild (cell_of s va)) ;;
           wb <- gets (fun s => c_wild (cell_of s vb)) ;;
           if negb skw || negb (wa && wb) then bind H f va b else ret tt
       | O oa xs, O ob ys =>
           if Nat.eqb oa Bottom || Nat.eqb ob Top then ret tt
           else if basic H oa then
             if skb then ret tt
             else if sub && negb (osub H false oa ob) then fail ESubtypeMismatch
             else if negb sub && negb (Nat.eqb oa ob) then fail ETypeMismatch
             else ret tt
           else if Nat.eqb oa ob then
             (fix go (vs : list bool) (xs ys : list tyv) : M unit :=
                match vs, xs, ys with
                | v :: vs', x :: xs', y :: ys' =>
                    (if v then unify H f sub skb skw x y else unify H f sub skb skw y x) ;;;
                    go vs' xs' ys'
                | _, _, _ => ret tt
                end) (variance H oa) xs ys
           else fail ETypeMismatch
       | V va, O ob ys =>
           if Nat.eqb ob Top then ret tt
           else
             oc <- lift (fun s => occurs_f H f s b a) ;;
             if oc then fail ERecursive
             else if basic H ob then
               wa <- gets (fun s => c_wild (cell_of s va)) ;;
               if skb || (skw && wa) then ret tt
               else if sub then below H f va ob
               else bind H f va b
             else if skw || skb then
               fr <- fresh_list (length ys) ;;
               bind H f va (O ob fr) ;;;
               unify H f sub skb skw a b
             else bind H f va b
       | O oa xs, V vb =>
           if Nat.eqb oa Bottom then ret tt
           else
             oc <- lift (fun s => occurs_f H f s a b) ;;
             if oc then fail ERecursive
             else if basic H oa then
               wb <- gets (fun s => c_wild (cell_of s vb)) ;;
               if skb || (skw && wb) then ret tt
               else if sub then above H f vb oa
               else bind H f vb a
             else if skw || skb then
               fr <- fresh_list (length xs) ;;
               bind H f vb (O oa fr) ;;;
               unify H f sub skb skw b b
             else bind H f vb a
       end).
  Proof. reflexivity. Qed.

  (* ------------------------------------------------------------------ *)
  (* follow, occurs check, unify of a basic operator with a variable      *)

  Lemma follow_O s o args : follow s (O o args) = O o args.
  Proof. reflexivity. Qed.

  Lemma follow_V_unbound s v : c_bound (cell_of s v) = None -> follow s (V v) = V v.
  Proof. intros E. unfold follow. cbn [follow_f]. now rewrite E. Qed.

  Lemma follow_V_bound_O s v o args :
    c_bound (cell_of s v) = Some (O o args) -> follow s (V v) = O o args.
  Proof. intros E. unfold follow. cbn [follow_f]. rewrite E. now destruct (length (vars s)). Qed.

  Lemma match_ov_not_true f s a xs v :
    c_bound (cell_of s v) = None ->
    match_f H (S f) s false false (O a xs) (V v) = Ok (Some false) \/
    match_f H (S f) s false false (O a xs) (V v) = Ok None.
  Proof.
    intros E. cbn [match_f]. rewrite follow_O, (follow_V_unbound _ _ E). cbn [andb].
    repeat match goal with
           | |- context [if ?b then _ else _] => destruct b; auto
           end.
  Qed.

  Lemma occurs_basic_var f s a v :
    c_bound (cell_of s v) = None ->
    occurs_f H (S (S f)) s (O a []) (V v) = Ok false.
  Proof.
    intros E. cbn [occurs_f]. rewrite follow_O, (follow_V_unbound _ _ E).
    destruct (match_ov_not_true f s a [] v E) as [-> | ->]; reflexivity.
  Qed.

  Lemma unify_basic_var f a v s :
    c_bound (cell_of s v) = None -> c_wild (cell_of s v) = false ->
    basic H a = true -> Nat.eqb a Bottom = false ->
    unify H (S (S (S f))) true false false (O a []) (V v) s = above H (S (S f)) v a s.
  Proof.
    intros E W B NB. rewrite unify_S. unfold bindM at 1 2. unfold gets at 1 2.
    rewrite follow_O, (follow_V_unbound _ _ E). rewrite NB.
    unfold bindM at 1. unfold lift. rewrite (occurs_basic_var f s a v E).
    rewrite B. unfold bindM at 1. unfold gets at 1. rewrite W. reflexivity.
  Qed.

  (* Bottom as an argument is ignored *)
  Lemma unify_bottom f sub skb skw xs b0 s :
    unify H (S f) sub skb skw (O Bottom xs) b0 s = MOk tt s.
  Proof.
    rewrite unify_S. unfold bindM at 1 2. unfold gets at 1 2. rewrite follow_O.
    destruct (follow s b0); reflexivity.
  Qed.

  (* anything is below a variable already resolved to Top *)
  Lemma unify_to_top f sub skb skw a xs b0 ys s :
    follow s b0 = O Top ys ->
    unify H (S f) sub skb skw (O a xs) b0 s = MOk tt s.
  Proof.
    intros E. rewrite unify_S. unfold bindM at 1 2. unfold gets at 1 2. rewrite follow_O, E.
    cbn [Nat.eqb Top]. now rewrite orb_true_r.
  Qed.

  (* ------------------------------------------------------------------ *)
  (* fix                                                                  *)

  Lemma fix_var_lower f v s w l up i :
    v < length (vars s) -> cell_of s v = mkCell w None (Some l) up i -> cset_of s i = [] ->
    basic H l = true -> osub H true l l = false ->
    (match up with Some u => osub H true u l | None => false end) = false ->
    fix_ty H (S (S (S f))) true (V v) s =
      MOk (O l []) (set_cell s v (mkCell false (Some (O l [])) (Some l) up i)).
  Proof.
    intros Hv Hc Hcs B Hll Hul. rewrite fix_ty_S.
    unfold bindM at 1 2. unfold gets at 1.
    assert (Eb : c_bound (cell_of s v) = None) by now rewrite Hc.
    rewrite (follow_V_unbound _ _ Eb).
    unfold bindM at 1. unfold gets at 1. rewrite Hc. cbn [c_lower].
    rewrite (bind_basic_eval f v l s w (Some l) up i Hv Hc Hcs B), Hll, Hul. cbn [orb].
    unfold gets. f_equal. apply follow_V_bound_O. norm Hv. reflexivity.
  Qed.

  Lemma fix_var_nolower f v s :
    c_bound (cell_of s v) = None -> c_lower (cell_of s v) = None ->
    fix_ty H (S f) true (V v) s = MOk (V v) s.
  Proof.
    intros Eb El. rewrite fix_ty_S.
    unfold bindM at 1 2. unfold gets at 1. rewrite (follow_V_unbound _ _ Eb).
    unfold bindM at 1. unfold gets at 1. rewrite El. unfold ret, gets.
    now rewrite (follow_V_unbound _ _ Eb).
  Qed.

  Lemma fix_var_noupper f v s :
    c_bound (cell_of s v) = None -> c_upper (cell_of s v) = None ->
    fix_ty H (S f) false (V v) s = MOk (V v) s.
  Proof.
    intros Eb El. rewrite fix_ty_S.
    unfold bindM at 1 2. unfold gets at 1. rewrite (follow_V_unbound _ _ Eb).
    unfold bindM at 1. unfold gets at 1. rewrite El. unfold ret, gets.
    now rewrite (follow_V_unbound _ _ Eb).
  Qed.

  (* fixing something that follows to a basic operator *)
  Lemma fix_to_basic f pl t o s :
    follow s t = O o [] -> fix_ty H (S f) pl t s = MOk (O o []) s.
  Proof.
    intros E. rewrite fix_ty_S. unfold bindM at 1 2. unfold gets at 1. rewrite E.
    destruct (variance H o); reflexivity.
  Qed.

  (* ------------------------------------------------------------------ *)
  (* the schemas c(x) ** ... ** c(x) ** x for a covariant unary context
     c = F1(F2(...)) (identity when fs = []) and the concrete arguments    *)

  Fixpoint sctx (fs : list nat) (t : sty) : sty :=
    match fs with [] => t | g :: r => SOp g [sctx r t] end.
  Fixpoint tctx (fs : list nat) (t : tyv) : tyv :=
    match fs with [] => t | g :: r => O g [tctx r t] end.
  Definition cov_ctx (fs : list nat) : Prop := forall g, In g fs -> variance H g = [true].

  Fixpoint sig_body_c (fs : list nat) (n : nat) : sty :=
    match n with 0 => SVar 0 | S k => SOp Function [sctx fs (SVar 0); sig_body_c fs k] end.
  Definition sig_c (fs : list nat) (n : nat) : schema := mkSchema 1 (sig_body_c fs n) [].
  Definition conc_c (fs : list nat) (a : nat) : schema := mkSchema 0 (sctx fs (SOp a [])) [].
  Definition sig_id (n : nat) : schema := sig_c [] n.
  Definition conc (a : nat) : schema := conc_c [] a.

  Fixpoint fchain_c (fs : list nat) (n : nat) (x : tyv) : tyv :=
    match n with 0 => x | S k => O Function [tctx fs x; fchain_c fs k x] end.

  Lemma cov_ctx_tail g r : cov_ctx (g :: r) -> cov_ctx r.
  Proof. intros C x Hx. apply C. now right. Qed.

  Lemma eval_sctx_var fs v s :
    c_bound (cell_of s v) = None ->
    eval_sty [V v] (sctx fs (SVar 0)) s = MOk (tctx fs (V v)) s.
  Proof.
    intros Eb. induction fs as [|g r IH]; cbn [sctx tctx eval_sty].
    - unfold gets. cbn [nth]. now rewrite (follow_V_unbound _ _ Eb).
    - unfold bindM at 1 2. rewrite IH. reflexivity.
  Qed.

  Lemma eval_sctx_op fs a env s :
    eval_sty env (sctx fs (SOp a [])) s = MOk (tctx fs (O a [])) s.
  Proof.
    induction fs as [|g r IH]; cbn [sctx tctx eval_sty].
    - reflexivity.
    - unfold bindM at 1 2. rewrite IH. reflexivity.
  Qed.

  Lemma eval_sig_body fs n v s :
    c_bound (cell_of s v) = None ->
    eval_sty [V v] (sig_body_c fs n) s = MOk (fchain_c fs n (V v)) s.
  Proof.
    intros Eb. induction n as [|k IH]; cbn [sig_body_c fchain_c eval_sty].
    - unfold gets. cbn [nth]. now rewrite (follow_V_unbound _ _ Eb).
    - unfold bindM at 1 2. fold (eval_sty [V v] (sctx fs (SVar 0))).
      rewrite (eval_sctx_var fs v s Eb).
      unfold bindM at 1 2. rewrite IH. reflexivity.
  Qed.

  Lemma fix_tctx_var fs v s :
    cov_ctx fs ->
    c_bound (cell_of s v) = None -> c_lower (cell_of s v) = None ->
    c_upper (cell_of s v) = None ->
    forall f pl, length fs < f -> fix_ty H f pl (tctx fs (V v)) s = MOk (tctx fs (V v)) s.
  Proof.
    intros HC Eb El Eu. induction fs as [|g r IH]; intros f pl Hf;
      (destruct f as [|f]; [cbn [length] in Hf; lia|]); cbn [tctx].
    - destruct pl; [now apply fix_var_nolower | now apply fix_var_noupper].
    - rewrite fix_ty_S. unfold bindM at 1 2. unfold gets at 1. rewrite follow_O.
      rewrite (HC g) by now left.
      unfold bindM at 1. rewrite (IH (cov_ctx_tail _ _ HC) f pl) by (cbn [length] in Hf; lia).
      reflexivity.
  Qed.

  Lemma fix_tctx_op fs a s :
    cov_ctx fs -> variance H a = [] ->
    forall f pl, length fs < f -> fix_ty H f pl (tctx fs (O a [])) s = MOk (tctx fs (O a [])) s.
  Proof.
    intros HC Va. induction fs as [|g r IH]; intros f pl Hf;
      (destruct f as [|f]; [cbn [length] in Hf; lia|]); cbn [tctx].
    - now apply fix_to_basic.
    - rewrite fix_ty_S. unfold bindM at 1 2. unfold gets at 1. rewrite follow_O.
      rewrite (HC g) by now left.
      unfold bindM at 1. rewrite (IH (cov_ctx_tail _ _ HC) f pl) by (cbn [length] in Hf; lia).
      reflexivity.
  Qed.

  Lemma fix_fchain (W : wf_hier H) fs v s :
    cov_ctx fs ->
    c_bound (cell_of s v) = None -> c_lower (cell_of s v) = None ->
    c_upper (cell_of s v) = None ->
    forall n f pl, n + length fs < f ->
      fix_ty H f pl (fchain_c fs n (V v)) s = MOk (fchain_c fs n (V v)) s.
  Proof.
    intros HC Eb El Eu. induction n as [|k IH]; intros f pl Hf; (destruct f as [|f]; [lia|]).
    - cbn [fchain_c]. destruct pl; [now apply fix_var_nolower | now apply fix_var_noupper].
    - cbn [fchain_c]. rewrite fix_ty_S. unfold bindM at 1 2. unfold gets at 1. rewrite follow_O.
      rewrite (wf_fun H W).
      unfold bindM at 1. rewrite (fix_tctx_var fs v s HC Eb El Eu) by lia.
      unfold bindM at 1. rewrite (IH f pl) by lia.
      reflexivity.
  Qed.

  Definition fresh_store (s : store) : store := snd (alloc_var s false).

  Lemma fresh_store_cell s :
    cell_of (fresh_store s) (length (vars s)) = mkCell false None None None (length (csets s)).
  Proof. unfold fresh_store, alloc_var, cell_of. cbn [snd vars]. now rewrite nth_middle. Qed.

  Lemma fresh_store_cset s : cset_of (fresh_store s) (length (csets s)) = [].
  Proof. unfold fresh_store, alloc_var, cset_of. cbn [snd csets]. now rewrite nth_middle. Qed.

  Lemma fresh_store_len s : length (vars s) < length (vars (fresh_store s)).
  Proof. unfold fresh_store, alloc_var. cbn [snd vars]. rewrite app_length. cbn. lia. Qed.

  Lemma instance_sig (W : wf_hier H) fs n fuel s :
    cov_ctx fs -> n + length fs < fuel ->
    instance H fuel (sig_c fs n) s = MOk (fchain_c fs n (V (length (vars s)))) (fresh_store s).
  Proof.
    intros HC Hf. unfold instance, sig_c. cbn [s_n s_body s_constrs fresh_list forM].
    unfold bindM at 1 2 3. unfold fresh at 1. cbn [alloc_var].
    unfold bindM at 1. unfold ret at 1 2.
    change (mkStore _ _ _ _) with (fresh_store s).
    assert (Eb : cell_of (fresh_store s) (length (vars s)) = _) by apply fresh_store_cell.
    rewrite eval_sig_body by now rewrite Eb.
    unfold bindM. unfold ret at 1.
    apply fix_fchain; auto; now rewrite Eb.
  Qed.

  Lemma instance_conc fs a fuel s :
    cov_ctx fs -> variance H a = [] -> length fs < fuel ->
    instance H fuel (conc_c fs a) s = MOk (tctx fs (O a [])) s.
  Proof.
    intros HC Va Hf.
    unfold instance, conc_c. cbn [s_n s_body s_constrs fresh_list forM].
    unfold bindM at 1 2. unfold ret at 1. rewrite eval_sctx_op.
    unfold bindM, ret. now apply fix_tctx_op.
  Qed.

  Lemma apply_fun fuel o xs lft rgt s :
    apply H fuel (O Function [lft; rgt]) (O o xs) true s =
      (unify H fuel true false false (O o xs) lft ;;;
       if negb (is_fun rgt) then fix_ty H fuel true rgt else ret rgt) s.
  Proof. reflexivity. Qed.

  Lemma tctx_op_O fs a : exists o xs, tctx fs (O a []) = O o xs.
  Proof. destruct fs; cbn [tctx]; eauto. Qed.

  Lemma bindM_ret_tt (m : M unit) s : (m ;;; ret tt) s = m s.
  Proof. unfold bindM, ret. destruct (m s) as [[] s'|e s']; reflexivity. Qed.

  (* unification descends through the covariant context *)
  Lemma unify_ctx (W : wf_hier H) fs :
    cov_ctx fs ->
    forall fuel x y s, length fs <= fuel ->
      unify H fuel true false false (tctx fs x) (tctx fs y) s =
      unify H (fuel - length fs) true false false x y s.
  Proof.
    induction fs as [|g r IH]; intros HC fuel x y s Hf; cbn [tctx length].
    - now rewrite Nat.sub_0_r.
    - destruct fuel as [|fuel]; [cbn [length] in Hf; lia|].
      cbn [length] in Hf. cbn [Nat.sub].
      assert (Vg : variance H g = [true]) by (apply HC; now left).
      assert (NB : Nat.eqb g Bottom = false).
      { apply Nat.eqb_neq. intros ->. destruct (wf_bot H W) as [_ E]. congruence. }
      assert (NT : Nat.eqb g Top = false).
      { apply Nat.eqb_neq. intros ->. destruct (wf_top H W) as [_ E]. congruence. }
      assert (Bg : basic H g = false) by (unfold basic, arity; now rewrite Vg).
      rewrite unify_S. unfold bindM at 1 2. unfold gets at 1 2. rewrite !follow_O.
      rewrite NB, NT, Bg, Nat.eqb_refl, Vg. cbn [orb].
      rewrite bindM_ret_tt. apply IH; [now apply cov_ctx_tail in HC|lia].
  Qed.

  (* ------------------------------------------------------------------ *)
  (* the order on operators and the running maximum                       *)

  Definition ole (a b : nat) : Prop := a = Bottom \/ b = Top \/ Anc H a b.

  Lemma osubF_iff (W : wf_hier H) a b : osub H false a b = true <-> ole a b.
  Proof. apply op_subtype_ns_spec; auto. Qed.

  Lemma osubT_iff (W : wf_hier H) a b :
    osub H true a b = true <-> (a = Bottom \/ b = Top \/ (Anc H a b /\ a <> b)).
  Proof. apply op_subtype_strict_spec; auto. Qed.

  Lemma Anc_top_inv (W : wf_hier H) b : Anc H Top b -> b = Top.
  Proof.
    intros A. inversion A as [|a p b' Hp _]; subst; auto.
    destruct (wf_top H W) as [E _]. rewrite E in Hp. discriminate.
  Qed.

  Lemma Anc_bot_inv (W : wf_hier H) a : Anc H a Bottom -> a = Bottom.
  Proof. intros A. destruct (Anc_inv H W _ _ A) as [E|(_ & _ & _ & E & _)]; congruence. Qed.

  Lemma Anc_to_top_inv (W : wf_hier H) a : Anc H a Top -> a = Top.
  Proof. intros A. destruct (Anc_inv H W _ _ A) as [E|(_ & _ & E & _)]; congruence. Qed.

  Lemma Anc_from_bot_inv (W : wf_hier H) b : Anc H Bottom b -> b = Bottom.
  Proof.
    intros A. inversion A as [|a p b' Hp _]; subst; auto.
    destruct (wf_bot H W) as [E _]. rewrite E in Hp. discriminate.
  Qed.

  Lemma ole_refl a : ole a a.
  Proof. right; right; constructor. Qed.

  Lemma ole_trans (W : wf_hier H) a b c : ole a b -> ole b c -> ole a c.
  Proof.
    unfold ole. intros [->|[->|Hab]] Hbc; auto.
    - destruct Hbc as [E|[->|Hbc]]; auto; [discriminate|].
      apply (Anc_top_inv W) in Hbc. auto.
    - destruct Hbc as [->|[->|Hbc]]; auto.
      + left. now apply Anc_bot_inv.
      + right; right. eapply Anc_trans; eauto.
  Qed.

  Lemma ole_antisym (W : wf_hier H) a b : ole a b -> ole b a -> a = b.
  Proof.
    unfold ole. intros [->|[->|Hab]] [Hba|[Hba|Hba]]; subst; auto; try discriminate;
      first [ now apply Anc_bot_inv | symmetry; now apply Anc_bot_inv
            | now apply Anc_top_inv | symmetry; now apply Anc_top_inv
            | now apply Anc_to_top_inv | symmetry; now apply Anc_to_top_inv
            | now apply Anc_from_bot_inv | symmetry; now apply Anc_from_bot_inv
            | now apply Anc_antisym with H ].
  Qed.

  Lemma osubT_irrefl (W : wf_hier H) a : a <> Top -> a <> Bottom -> osub H true a a = false.
  Proof.
    intros NT NB. destruct (osub H true a a) eqn:E; auto.
    apply osubT_iff in E; auto. destruct E as [E|[E|[_ E]]]; congruence.
  Qed.

  Lemma osubT_top_l (W : wf_hier H) m : m <> Top -> osub H true Top m = false.
  Proof.
    intros NT. destruct (osub H true Top m) eqn:E; auto.
    apply osubT_iff in E; auto. destruct E as [E|[E|[E _]]]; try discriminate; try congruence.
    apply (Anc_top_inv W) in E. congruence.
  Qed.

  Lemma basic_iff a : basic H a = true <-> variance H a = [].
  Proof.
    unfold basic, arity. rewrite Nat.eqb_eq. split; [|now intros ->].
    destruct (variance H a); [auto|discriminate].
  Qed.

  (* ------------------------------------------------------------------ *)
  (* running extremum of a chain, generic in the direction of the order:
     instantiated with (ole, Bottom) for lower bounds / maxima and with the
     converse order and Top for upper bounds / minima                      *)

  Definition pool (acc : option nat) (args : list nat) : list nat :=
    match acc with Some m => m :: args | None => args end.

  Lemma pool_tail acc r x : In x r -> In x (pool acc r).
  Proof. destruct acc; cbn; auto. Qed.

  Section Order.
    Variable le : nat -> nat -> Prop.
    Variable leb : nat -> nat -> bool.
    Variable bot : nat.

    Record order_ok : Prop := mk_order_ok {
      ok_leb : forall a b, leb a b = true <-> le a b;
      ok_refl : forall a, le a a;
      ok_trans : forall a b c, le a b -> le b c -> le a c;
      ok_antisym : forall a b, le a b -> le b a -> a = b;
      ok_bot : forall a, le bot a
    }.

    Definition cmp_g (a b : nat) : Prop := le a b \/ le b a.

    (* the extremum so far: [None] as long as only [bot] was seen *)
    Definition acc_step_g (acc : option nat) (a : nat) : option nat :=
      if Nat.eqb a bot then acc
      else match acc with
           | None => Some a
           | Some m => Some (if leb m a then a else m)
           end.

    Fixpoint lub_from_g (acc : option nat) (args : list nat) : option nat :=
      match args with [] => acc | a :: r => lub_from_g (acc_step_g acc a) r end.

    Definition lub_ops_g (args : list nat) : option nat := lub_from_g None args.

    Definition Good_g (acc : option nat) (args : list nat) : Prop :=
      (forall x, In x (pool acc args) -> variance H x = []) /\
      (forall x y, In x (pool acc args) -> In y (pool acc args) -> cmp_g x y) /\
      (forall m, acc = Some m -> m <> bot).

    Lemma pool_step_g acc a r x : In x (pool (acc_step_g acc a) r) -> In x (pool acc (a :: r)).
    Proof.
      unfold acc_step_g, pool. destruct (Nat.eqb a bot), acc as [m|]; cbn [In]; try tauto.
      destruct (leb m a); tauto.
    Qed.

    Lemma Good_step_g acc a r : Good_g acc (a :: r) -> Good_g (acc_step_g acc a) r.
    Proof.
      intros (G1 & G2 & G3). split; [|split].
      - intros x Hx. apply G1. now apply pool_step_g.
      - intros x y Hx Hy. apply G2; now apply pool_step_g.
      - intros m. unfold acc_step_g. destruct (Nat.eqb a bot) eqn:EB.
        + apply G3.
        + apply Nat.eqb_neq in EB. destruct acc as [m0|].
          * specialize (G3 m0 eq_refl). destruct (leb m0 a); congruence.
          * congruence.
    Qed.

    Lemma Good_acc_g acc a r m :
      Good_g acc (a :: r) -> acc = Some m -> variance H m = [] /\ m <> bot /\ cmp_g m a.
    Proof.
      intros (G1 & G2 & G3) ->. cbn [pool] in *. repeat split.
      - apply G1. now left.
      - now apply G3.
      - apply G2; cbn [In]; auto.
    Qed.

    Hypothesis OK : order_ok.

    Lemma acc_step_upper_g acc a r x :
      Good_g acc (a :: r) -> (x = a \/ acc = Some x) ->
      x = bot \/ exists m1, acc_step_g acc a = Some m1 /\ le x m1.
    Proof.
      intros HG Hx. unfold acc_step_g. destruct (Nat.eqb a bot) eqn:EB.
      - apply Nat.eqb_eq in EB. destruct Hx as [->| ->]; [now left|].
        right. eexists; split; [reflexivity|apply (ok_refl OK)].
      - right. destruct acc as [m0|].
        + destruct (Good_acc_g _ _ _ _ HG eq_refl) as (_ & _ & Cm).
          destruct (leb m0 a) eqn:E.
          * exists a. split; auto. destruct Hx as [->|[= ->]]; [apply (ok_refl OK)|].
            now apply (ok_leb OK).
          * exists m0. split; auto. destruct Hx as [->|[= ->]]; [|apply (ok_refl OK)].
            destruct Cm as [C|C]; auto. apply (ok_leb OK) in C. congruence.
        + destruct Hx as [->|Hx]; [|discriminate]. exists a. split; auto. apply (ok_refl OK).
    Qed.

    Lemma lub_from_spec_g : forall args acc, Good_g acc args ->
      match lub_from_g acc args with
      | None => acc = None /\ forall a, In a args -> a = bot
      | Some m => In m (pool acc args) /\ m <> bot /\
                  forall x, In x (pool acc args) -> le x m
      end.
    Proof.
      induction args as [|a r IH]; intros acc HG; cbn [lub_from_g].
      - destruct acc as [m|]; [|split; [auto|intros ? []]].
        destruct HG as (_ & _ & G3). cbn [pool]. repeat split; [now left|now apply G3|].
        intros x [<-|[]]. apply (ok_refl OK).
      - specialize (IH _ (Good_step_g _ _ _ HG)).
        destruct (lub_from_g (acc_step_g acc a) r) as [m|].
        + destruct IH as (Hin & NB & Hub). split; [now apply pool_step_g|]. split; auto.
          assert (Hup : forall x, x = a \/ acc = Some x -> le x m).
          { intros x Hx. destruct (acc_step_upper_g acc a r x HG Hx) as [->|(m1 & E1 & L1)].
            - apply (ok_bot OK).
            - apply (ok_trans OK _ m1); auto. apply Hub. rewrite E1. now left. }
          intros x Hx. destruct acc as [m0|]; cbn [pool In] in Hx.
          * destruct Hx as [<-|[<-|Hx]]; auto. apply Hub. now apply pool_tail.
          * destruct Hx as [<-|Hx]; auto. apply Hub. now apply pool_tail.
        + destruct IH as (E & HB). unfold acc_step_g in E.
          destruct (Nat.eqb a bot) eqn:EB.
          * apply Nat.eqb_eq in EB. split; auto. intros x [<-|Hx]; auto.
          * destruct acc; discriminate.
    Qed.

    Definition chain_ok_g (args : list nat) : Prop :=
      (forall a, In a args -> variance H a = []) /\
      (forall a b, In a args -> In b args -> cmp_g a b).

    Lemma chain_ok_Good_g args : chain_ok_g args -> Good_g None args.
    Proof. intros (C1 & C2). repeat split; auto. discriminate. Qed.

    (* lub_ops_g is the declarative extremum ([bot] when every argument is [bot]) *)
    Lemma lub_ops_spec_g args m :
      chain_ok_g args -> In m args -> (forall a, In a args -> le a m) ->
      lub_ops_g args = if Nat.eqb m bot then None else Some m.
    Proof.
      intros HC Hm Hub. pose proof (lub_from_spec_g args None (chain_ok_Good_g _ HC)) as Sp.
      unfold lub_ops_g. cbn [pool] in Sp. destruct (lub_from_g None args) as [m'|].
      - destruct Sp as (Hin & NB & Hub').
        assert (m' = m) by (apply (ok_antisym OK); auto). subst m'.
        apply Nat.eqb_neq in NB. now rewrite NB.
      - destruct Sp as (_ & HB). rewrite (HB m Hm). now rewrite Nat.eqb_refl.
    Qed.

    Lemma chain_max_exists_g args :
      args <> [] -> chain_ok_g args -> exists m, In m args /\ forall a, In a args -> le a m.
    Proof.
      intros Hne HC. pose proof (lub_from_spec_g args None (chain_ok_Good_g _ HC)) as Sp.
      cbn [pool] in Sp. destruct (lub_from_g None args) as [m'|].
      - exists m'. tauto.
      - destruct args as [|a r]; [congruence|]. exists a. split; [now left|].
        intros x Hx. destruct Sp as (_ & Sp). rewrite (Sp x Hx). apply (ok_bot OK).
    Qed.

    Lemma chain_ok_perm_g args args' : Permutation args args' -> chain_ok_g args -> chain_ok_g args'.
    Proof.
      intros P (C1 & C2). apply Permutation_sym in P. split.
      - intros a Ha. apply C1. eapply Permutation_in; eauto.
      - intros a b Ha Hb. apply C2; eapply Permutation_in; eauto.
    Qed.

    Lemma lub_ops_perm_g args args' :
      chain_ok_g args -> Permutation args args' -> lub_ops_g args = lub_ops_g args'.
    Proof.
      intros HC P. destruct args as [|a r].
      - apply Permutation_nil in P. now subst.
      - destruct (chain_max_exists_g (a :: r)) as (m & Hm & Hub); auto; [discriminate|].
        rewrite (lub_ops_spec_g _ m HC Hm Hub).
        rewrite (lub_ops_spec_g args' m); auto.
        + now apply (chain_ok_perm_g _ _ P).
        + eapply Permutation_in; eauto.
        + intros x Hx. apply Hub. apply Permutation_sym in P. eapply Permutation_in; eauto.
    Qed.
  End Order.

  (* lower bounds / maxima *)
  Notation cmp := (cmp_g ole).
  Notation acc_step := (acc_step_g (osub H false) Bottom).
  Notation lub_from := (lub_from_g (osub H false) Bottom).
  Notation lub_ops := (lub_ops_g (osub H false) Bottom).
  Notation Good := (Good_g ole Bottom).
  Notation chain_ok := (chain_ok_g ole).

  Lemma up_ok (W : wf_hier H) : order_ok ole (osub H false) Bottom.
  Proof.
    split.
    - apply (osubF_iff W).
    - apply ole_refl.
    - apply (ole_trans W).
    - apply (ole_antisym W).
    - intros a. now left.
  Qed.

  (* upper bounds / minima *)
  Definition oge (a b : nat) : Prop := ole b a.
  Definition ogeb (a b : nat) : bool := osub H false b a.
  Notation acc_step_d := (acc_step_g ogeb Top).
  Notation lub_from_d := (lub_from_g ogeb Top).
  Notation lub_ops_d := (lub_ops_g ogeb Top).
  Notation Good_d := (Good_g oge Top).
  Notation chain_ok_d := (chain_ok_g oge).

  Lemma down_ok (W : wf_hier H) : order_ok oge ogeb Top.
  Proof.
    unfold oge, ogeb. split.
    - intros a b. apply (osubF_iff W).
    - intros a. apply ole_refl.
    - intros a b c H1 H2. apply (ole_trans W c b a); auto.
    - intros a b H1 H2. apply (ole_antisym W); auto.
    - intros a. right; now left.
  Qed.

  Lemma chain_ok_d_iff args : chain_ok args <-> chain_ok_d args.
  Proof.
    unfold chain_ok_g, cmp_g, oge. split; intros (C1 & C2); split; auto;
      intros a b Ha Hb; destruct (C2 a b Ha Hb); auto.
  Qed.


  (* instances of the generic lemmas, upward *)
  Lemma Good_step acc a r : Good acc (a :: r) -> Good (acc_step acc a) r.
  Proof. apply Good_step_g. Qed.
  Lemma Good_acc acc a r m :
    Good acc (a :: r) -> acc = Some m -> variance H m = [] /\ m <> Bottom /\ cmp m a.
  Proof. apply Good_acc_g. Qed.
  Lemma chain_ok_Good args : chain_ok args -> Good None args.
  Proof. apply chain_ok_Good_g. Qed.
  Lemma lub_ops_spec (W : wf_hier H) args m :
    chain_ok args -> In m args -> (forall a, In a args -> ole a m) ->
    lub_ops args = if Nat.eqb m Bottom then None else Some m.
  Proof. apply (lub_ops_spec_g ole (osub H false) Bottom). apply (up_ok W). Qed.
  Lemma chain_max_exists (W : wf_hier H) args :
    args <> [] -> chain_ok args -> exists m, In m args /\ forall a, In a args -> ole a m.
  Proof. apply (chain_max_exists_g ole (osub H false) Bottom). apply (up_ok W). Qed.
  Lemma chain_ok_perm args args' : Permutation args args' -> chain_ok args -> chain_ok args'.
  Proof. apply chain_ok_perm_g. Qed.
  Lemma lub_ops_perm (W : wf_hier H) args args' :
    chain_ok args -> Permutation args args' -> lub_ops args = lub_ops args'.
  Proof. apply (lub_ops_perm_g ole (osub H false) Bottom). apply (up_ok W). Qed.

  (* downward *)
  Lemma Good_step_d acc a r : Good_d acc (a :: r) -> Good_d (acc_step_d acc a) r.
  Proof. apply Good_step_g. Qed.
  Lemma Good_acc_d acc a r m :
    Good_d acc (a :: r) -> acc = Some m -> variance H m = [] /\ m <> Top /\ cmp_g oge m a.
  Proof. apply Good_acc_g. Qed.
  Lemma chain_ok_Good_d args : chain_ok_d args -> Good_d None args.
  Proof. apply chain_ok_Good_g. Qed.
  Lemma lub_ops_spec_d (W : wf_hier H) args m :
    chain_ok_d args -> In m args -> (forall a, In a args -> ole m a) ->
    lub_ops_d args = if Nat.eqb m Top then None else Some m.
  Proof. apply (lub_ops_spec_g oge ogeb Top). apply (down_ok W). Qed.
  Lemma chain_min_exists (W : wf_hier H) args :
    args <> [] -> chain_ok_d args -> exists m, In m args /\ forall a, In a args -> ole m a.
  Proof. apply (chain_max_exists_g oge ogeb Top). apply (down_ok W). Qed.
  Lemma lub_ops_perm_d (W : wf_hier H) args args' :
    chain_ok_d args -> Permutation args args' -> lub_ops_d args = lub_ops_d args'.
  Proof. apply (lub_ops_perm_g oge ogeb Top). apply (down_ok W). Qed.

  (* invariant on the schematic variable v (constraint set i) *)
  Definition Inv (s : store) (v i : nat) (acc : option nat) : Prop :=
    v < length (vars s) /\ cset_of s i = [] /\
    match acc with
    | None => cell_of s v = mkCell false None None None i
    | Some m =>
        if Nat.eqb m Top
        then exists lo, cell_of s v = mkCell false (Some (O Top [])) lo None i
        else cell_of s v = mkCell false None (Some m) None i
    end.

  Lemma unify_step (W : wf_hier H) f s v i acc a :
    Inv s v i acc -> variance H a = [] ->
    (forall m, acc = Some m -> variance H m = [] /\ m <> Bottom /\ cmp m a) ->
    exists s', unify H (S (S (S (S f)))) true false false (O a []) (V v) s = MOk tt s' /\
               Inv s' v i (acc_step acc a).
  Proof.
    intros (Hv & Hcs & Hcell) Va Hacc. unfold acc_step_g.
    destruct (Nat.eqb a Bottom) eqn:EB.
    { apply Nat.eqb_eq in EB; subst a. exists s. rewrite unify_bottom. repeat split; auto. }
    assert (NB : a <> Bottom) by now apply Nat.eqb_neq.
    assert (Ba : basic H a = true) by now apply basic_iff.
    assert (BT : basic H Top = true) by (apply basic_iff; apply (wf_top H W)).
    destruct acc as [m|].
    - destruct (Hacc m eq_refl) as (Vm & NBm & Cm).
      destruct (Nat.eqb m Top) eqn:ET.
      + apply Nat.eqb_eq in ET; subst m. destruct Hcell as (lo & Hc).
        exists s. rewrite unify_to_top with (ys := [])
          by (apply follow_V_bound_O; now rewrite Hc).
        assert (E : (if osub H false Top a then a else Top) = Top).
        { destruct (osub H false Top a) eqn:E; auto. apply osubF_iff in E; auto.
          destruct E as [E|[E|E]]; [discriminate|auto|now apply Anc_top_inv]. }
        rewrite E. repeat split; auto. cbn. eauto.
      + assert (NTm : m <> Top) by now apply Nat.eqb_neq.
        rewrite unify_basic_var; auto; try now rewrite Hcell.
        destruct (Nat.eqb a Top) eqn:EaT.
        * apply Nat.eqb_eq in EaT; subst a. rewrite above_S. cbn [Nat.eqb Top].
          rewrite (bind_basic_eval f v Top s false (Some m) None i); auto.
          rewrite (osubT_top_l W m NTm). cbn [orb].
          eexists; split; [reflexivity|].
          assert (E : osub H false m Top = true) by (apply osubF_iff; auto; right; now left).
          rewrite E. split; [now rewrite vars_set_cell_length|]. split; [exact Hcs|].
          cbn [Nat.eqb Top]. exists (Some m). now apply cell_of_set_same.
        * assert (NTa : a <> Top) by now apply Nat.eqb_neq.
          rewrite (above_eval (S f) v a s false (Some m) None i); auto.
          unfold above_pure, lower_step.
          assert (Cases : (Anc H a m /\ a <> m) \/ Anc H m a).
          { destruct Cm as [[E|[E|E]]|[E|[E|E]]]; try congruence; auto.
            destruct (Nat.eq_dec a m) as [->|Ne]; [right; constructor|left; auto]. }
          destruct Cases as [[Ham Ne]|Hma].
          -- assert (E1 : osub H true a m = true) by (apply osubT_iff; auto).
             rewrite E1.
             assert (E2 : osub H false m a = false).
             { destruct (osub H false m a) eqn:E; auto. apply osubF_iff in E; auto.
               destruct E as [E|[E|E]]; try congruence.
               exfalso. apply Ne. now apply Anc_antisym with H. }
             rewrite E2.
             erewrite above_tail_open;
               [|apply cell_of_set_same; exact Hv|exact I].
             eexists; split; [reflexivity|].
             split; [now rewrite vars_set_cell_length|]. split; [exact Hcs|].
             rewrite ET. now apply cell_of_set_same.
          -- assert (E2 : osub H false m a = true) by (apply osubF_iff; auto; right; now right).
             rewrite E2.
             assert (Hres : exists lo', (if osub H true a m then Some (Some m) else Some (Some a))
                              = Some (Some lo') /\ (lo' = a)).
             { destruct (osub H true a m) eqn:E1; eauto.
               apply osubT_iff in E1; auto. destruct E1 as [E|[E|[E Ne]]]; try congruence.
               exfalso. apply Ne. now apply Anc_antisym with H. }
             destruct Hres as (lo' & -> & ->).
             erewrite above_tail_open;
               [|apply cell_of_set_same; exact Hv|exact I].
             eexists; split; [reflexivity|].
             split; [now rewrite vars_set_cell_length|]. split; [exact Hcs|].
             rewrite EaT. now apply cell_of_set_same.
    - rewrite unify_basic_var; auto; try now rewrite Hcell.
      destruct (Nat.eqb a Top) eqn:EaT.
      + apply Nat.eqb_eq in EaT; subst a. rewrite above_S. cbn [Nat.eqb Top].
        rewrite (bind_basic_eval f v Top s false None None i); auto.
        cbn [orb]. eexists; split; [reflexivity|].
        split; [now rewrite vars_set_cell_length|]. split; [exact Hcs|].
        cbn [Nat.eqb Top]. exists None. now apply cell_of_set_same.
      + rewrite (above_eval (S f) v a s false None None i); auto.
        unfold above_pure, lower_step.
        erewrite above_tail_open;
          [|apply cell_of_set_same; exact Hv|exact I].
        eexists; split; [reflexivity|].
        split; [now rewrite vars_set_cell_length|]. split; [exact Hcs|].
        rewrite EaT. now apply cell_of_set_same.
  Qed.


  (* ------------------------------------------------------------------ *)
  (* the contravariant mirror image: upper bounds                         *)

  Lemma unify_top_r f sub skb skw a0 ys s :
    unify H (S f) sub skb skw a0 (O Top ys) s = MOk tt s.
  Proof.
    rewrite unify_S. unfold bindM at 1 2. unfold gets at 1 2. rewrite follow_O.
    destruct (follow s a0) as [va|oa xs]; cbn [Nat.eqb Top]; [reflexivity|].
    now rewrite orb_true_r.
  Qed.

  Lemma unify_from_bottom f sub skb skw a0 xs b ys s :
    follow s a0 = O Bottom xs ->
    unify H (S f) sub skb skw a0 (O b ys) s = MOk tt s.
  Proof.
    intros E. rewrite unify_S. unfold bindM at 1 2. unfold gets at 1 2. rewrite follow_O, E.
    reflexivity.
  Qed.

  Lemma unify_var_basic f a v s :
    c_bound (cell_of s v) = None -> c_wild (cell_of s v) = false ->
    basic H a = true -> Nat.eqb a Top = false ->
    unify H (S (S (S f))) true false false (V v) (O a []) s = below H (S (S f)) v a s.
  Proof.
    intros E W B NT. rewrite unify_S. unfold bindM at 1 2. unfold gets at 1 2.
    rewrite follow_O, (follow_V_unbound _ _ E). rewrite NT.
    unfold bindM at 1. unfold lift. rewrite (occurs_basic_var f s a v E).
    rewrite B. unfold bindM at 1. unfold gets at 1. rewrite W. reflexivity.
  Qed.

  Lemma unify_basic_refl f b s :
    basic H b = true -> unify H (S f) true false false (O b []) (O b []) s = MOk tt s.
  Proof.
    intros B. rewrite unify_S. unfold bindM at 1 2. unfold gets at 1 2. rewrite !follow_O.
    rewrite B.
    assert (E : osub H false b b = true)
      by (unfold osub, op_subtype; cbn [negb andb]; now rewrite Nat.eqb_refl).
    rewrite E, Nat.eqb_refl. cbn [negb andb].
    destruct (Nat.eqb b Bottom || Nat.eqb b Top); reflexivity.
  Qed.

  Lemma osubT_bot_r (W : wf_hier H) m : m <> Bottom -> osub H true m Bottom = false.
  Proof.
    intros NB. destruct (osub H true m Bottom) eqn:E; auto.
    apply osubT_iff in E; auto. destruct E as [E|[E|[E _]]]; try discriminate; try congruence.
    apply (Anc_bot_inv W) in E. congruence.
  Qed.

  Lemma fix_var_upper f v s w lo u i :
    v < length (vars s) -> cell_of s v = mkCell w None lo (Some u) i -> cset_of s i = [] ->
    basic H u = true -> osub H true u u = false ->
    (match lo with Some l => osub H true u l | None => false end) = false ->
    fix_ty H (S (S (S f))) false (V v) s =
      MOk (O u []) (set_cell s v (mkCell false (Some (O u [])) lo (Some u) i)).
  Proof.
    intros Hv Hc Hcs B Huu Hlu. rewrite fix_ty_S.
    unfold bindM at 1 2. unfold gets at 1.
    assert (Eb : c_bound (cell_of s v) = None) by now rewrite Hc.
    rewrite (follow_V_unbound _ _ Eb).
    unfold bindM at 1. unfold gets at 1. rewrite Hc. cbn [c_upper].
    rewrite (bind_basic_eval f v u s w lo (Some u) i Hv Hc Hcs B), Huu, Hlu. cbn [orb].
    unfold gets. f_equal. apply follow_V_bound_O.
    rewrite cell_of_set_same by exact Hv. reflexivity.
  Qed.

  (* invariant, downward: upper bound = minimum so far; resolved to Bottom
     as soon as Bottom was supplied *)
  Definition Inv_d (s : store) (v i : nat) (acc : option nat) : Prop :=
    v < length (vars s) /\ cset_of s i = [] /\
    match acc with
    | None => cell_of s v = mkCell false None None None i
    | Some m =>
        if Nat.eqb m Bottom
        then exists up, cell_of s v = mkCell false (Some (O Bottom [])) None up i
        else cell_of s v = mkCell false None None (Some m) i
    end.

  Lemma unify_step_d (W : wf_hier H) f s v i acc a :
    Inv_d s v i acc -> variance H a = [] ->
    (forall m, acc = Some m -> variance H m = [] /\ m <> Top /\ cmp_g oge m a) ->
    exists s', unify H (S (S (S (S f)))) true false false (V v) (O a []) s = MOk tt s' /\
               Inv_d s' v i (acc_step_d acc a).
  Proof.
    intros (Hv & Hcs & Hcell) Va Hacc. unfold acc_step_g, ogeb.
    destruct (Nat.eqb a Top) eqn:ET.
    { apply Nat.eqb_eq in ET; subst a. exists s. rewrite unify_top_r. repeat split; auto. }
    assert (NT : a <> Top) by now apply Nat.eqb_neq.
    assert (Ba : basic H a = true) by now apply basic_iff.
    assert (BB : basic H Bottom = true) by (apply basic_iff; apply (wf_bot H W)).
    destruct acc as [m|].
    - destruct (Hacc m eq_refl) as (Vm & NTm & Cm). unfold cmp_g, oge in Cm.
      destruct (Nat.eqb m Bottom) eqn:EB.
      + apply Nat.eqb_eq in EB; subst m. destruct Hcell as (up & Hc).
        exists s. rewrite unify_from_bottom with (xs := [])
          by (apply follow_V_bound_O; now rewrite Hc).
        assert (E : (if osub H false a Bottom then a else Bottom) = Bottom).
        { destruct (osub H false a Bottom) eqn:E; auto. apply osubF_iff in E; auto.
          destruct E as [E|[E|E]]; [auto|discriminate|now apply Anc_bot_inv]. }
        rewrite E. repeat split; auto. cbn. eauto.
      + assert (NBm : m <> Bottom) by now apply Nat.eqb_neq.
        rewrite unify_var_basic; auto; try now rewrite Hcell.
        destruct (Nat.eqb a Bottom) eqn:EaB.
        * apply Nat.eqb_eq in EaB; subst a. rewrite below_S. cbn [Nat.eqb Bottom].
          rewrite (bind_basic_eval f v Bottom s false None (Some m) i); auto.
          rewrite (osubT_bot_r W m NBm). cbn [orb].
          eexists; split; [reflexivity|].
          assert (E : osub H false Bottom m = true) by (apply osubF_iff; auto; now left).
          rewrite E. split; [now rewrite vars_set_cell_length|]. split; [exact Hcs|].
          cbn [Nat.eqb Bottom]. exists (Some m). now apply cell_of_set_same.
        * assert (NBa : a <> Bottom) by now apply Nat.eqb_neq.
          rewrite (below_eval (S f) v a s false None (Some m) i); auto.
          unfold below_pure, upper_step.
          assert (Cases : (Anc H m a /\ a <> m) \/ Anc H a m).
          { destruct Cm as [[E|[E|E]]|[E|[E|E]]]; try congruence; auto.
            destruct (Nat.eq_dec a m) as [->|Ne]; [right; constructor|left; auto]. }
          destruct Cases as [[Hma Ne]|Ham].
          -- assert (E1 : osub H true m a = true)
               by (apply osubT_iff; auto; right; right; split; auto).
             rewrite E1.
             assert (E2 : osub H false a m = false).
             { destruct (osub H false a m) eqn:E; auto. apply osubF_iff in E; auto.
               destruct E as [E|[E|E]]; try congruence.
               exfalso. apply Ne. now apply Anc_antisym with H. }
             rewrite E2.
             erewrite below_tail_open;
               [|apply cell_of_set_same; exact Hv|exact I].
             eexists; split; [reflexivity|].
             split; [now rewrite vars_set_cell_length|]. split; [exact Hcs|].
             rewrite EB. now apply cell_of_set_same.
          -- assert (E2 : osub H false a m = true) by (apply osubF_iff; auto; right; now right).
             rewrite E2.
             assert (Hres : exists up', (if osub H true m a then Some (Some m) else Some (Some a))
                              = Some (Some up') /\ (up' = a)).
             { destruct (osub H true m a) eqn:E1; eauto.
               apply osubT_iff in E1; auto. destruct E1 as [E|[E|[E Ne]]]; try congruence.
               exfalso. apply Ne. now apply Anc_antisym with H. }
             destruct Hres as (up' & -> & ->).
             erewrite below_tail_open;
               [|apply cell_of_set_same; exact Hv|exact I].
             eexists; split; [reflexivity|].
             split; [now rewrite vars_set_cell_length|]. split; [exact Hcs|].
             rewrite EaB. now apply cell_of_set_same.
    - rewrite unify_var_basic; auto; try now rewrite Hcell.
      destruct (Nat.eqb a Bottom) eqn:EaB.
      + apply Nat.eqb_eq in EaB; subst a. rewrite below_S. cbn [Nat.eqb Bottom].
        rewrite (bind_basic_eval f v Bottom s false None None i); auto.
        cbn [orb]. eexists; split; [reflexivity|].
        split; [now rewrite vars_set_cell_length|]. split; [exact Hcs|].
        cbn [Nat.eqb Bottom]. exists None. now apply cell_of_set_same.
      + rewrite (below_eval (S f) v a s false None None i); auto.
        unfold below_pure, upper_step.
        erewrite below_tail_open;
          [|apply cell_of_set_same; exact Hv|exact I].
        eexists; split; [reflexivity|].
        split; [now rewrite vars_set_cell_length|]. split; [exact Hcs|].
        rewrite EaB. now apply cell_of_set_same.
  Qed.

  (* ------------------------------------------------------------------ *)
  (* the chain program                                                    *)

  Fixpoint chain_steps_c (fs : list nat) (args : list nat) (k : nat) : list cmd :=
    match args with
    | [] => []
    | a :: r => CInst (conc_c fs a) :: CApply k (S k) true :: chain_steps_c fs r (S (S k))
    end.

  Definition chain_prog_c (fs : list nat) (args : list nat) : list cmd :=
    CInst (sig_c fs (length args)) :: chain_steps_c fs args 0.

  Definition chain_prog (args : list nat) : list cmd := chain_prog_c [] args.

  Definition result (acc : option nat) (v : nat) : tyv :=
    match acc with Some m => O m [] | None => V v end.

  Lemma run_chain_steps (W : wf_hier H) fs fuel v i :
    cov_ctx fs -> length fs + 4 <= fuel ->
    forall args acc vals s idx k,
      args <> [] -> length vals = S k ->
      nth k vals (V 0) = fchain_c fs (length args) (V v) ->
      Inv s v i acc -> Good acc args ->
      exists vals' s',
        run_cmds H fuel (chain_steps_c fs args k) idx vals s = (None, vals', s') /\
        follow s' (last vals' (V 0)) = result (lub_from acc args) v.
  Proof.
    intros HC Hf.
    assert (Hf4 : exists f, fuel - length fs = S (S (S (S f))))
      by (exists (fuel - length fs - 4); lia).
    destruct Hf4 as (f & Ef).
    assert (Hf3 : exists f', fuel = S (S (S f'))) by (exists (fuel - 3); lia).
    destruct Hf3 as (f' & Ef').
    induction args as [|a r IH]; intros acc vals s idx k Hne Hlen Hnth HInv HGood; [congruence|].
    pose proof (Good_step _ _ _ HGood) as HGood1.
    assert (Va : variance H a = [])
      by (destruct HGood as (G1 & _); apply G1; destruct acc; cbn; auto).
    destruct (unify_step W f s v i acc a HInv Va (fun m E => Good_acc _ _ _ _ HGood E))
      as (s1 & E1 & HInv1).
    cbn [chain_steps_c run_cmds]. unfold run_cmd at 1. unfold bindM at 1.
    rewrite instance_conc by (auto; lia). unfold ret at 1.
    cbn [run_cmds]. unfold run_cmd at 1. unfold val.
    rewrite app_nth1 by lia. rewrite Hnth.
    rewrite app_nth2 by lia. replace (S k - length vals) with 0 by lia.
    cbn [nth length fchain_c].
    unfold bindM at 1.
    destruct (tctx_op_O fs a) as (o & xs & Eo). rewrite Eo, apply_fun, <- Eo.
    unfold bindM at 1. rewrite (unify_ctx W fs HC) by lia. rewrite Ef, E1.
    cbn [lub_from_g].
    destruct r as [|a' r'].
    - cbn [length fchain_c is_fun negb chain_steps_c lub_from_g].
      destruct HInv1 as (Hv1 & Hcs1 & Hcell1).
      destruct (acc_step acc a) as [m|] eqn:Eacc.
      + destruct (Nat.eqb m Top) eqn:ET.
        * apply Nat.eqb_eq in ET; subst m. destruct Hcell1 as (lo & Hc1).
          rewrite Ef'.
          rewrite (fix_to_basic _ true (V v) Top s1)
            by (apply follow_V_bound_O; now rewrite Hc1).
          unfold ret. cbn [run_cmds]. do 2 eexists. split; [reflexivity|].
          now rewrite last_last.
        * destruct HGood1 as (G1 & _ & G3).
          assert (NBm : m <> Bottom) by now apply G3.
          assert (NTm : m <> Top) by now apply Nat.eqb_neq.
          assert (Vm : variance H m = []) by (apply G1; cbn; auto).
          rewrite Ef'.
          rewrite (fix_var_lower f' v s1 false m None i); auto;
            [|now apply basic_iff|now apply osubT_irrefl].
          unfold ret. cbn [run_cmds]. do 2 eexists. split; [reflexivity|].
          now rewrite last_last.
      + rewrite Ef'. rewrite fix_var_nolower by now rewrite Hcell1.
        unfold ret. cbn [run_cmds]. do 2 eexists. split; [reflexivity|].
        rewrite last_last. cbn [result]. apply follow_V_unbound. now rewrite Hcell1.
    - cbn [length fchain_c is_fun negb Nat.eqb Function]. unfold ret at 1 2.
      apply IH; auto; try discriminate.
      + rewrite !app_length. cbn [length]. lia.
      + rewrite app_nth2 by (rewrite app_length; cbn [length]; lia).
        rewrite app_length. cbn [length].
        replace (S (S k) - (length vals + 1)) with 0 by lia. reflexivity.
  Qed.

  (* ------------------------------------------------------------------ *)
  (* contravariant chain: (x ** b) ** ... ** (x ** b) ** x applied to
     functions (a_i ** b); x only receives upper bounds                   *)

  Fixpoint sig_body_d (b : nat) (n : nat) : sty :=
    match n with
    | 0 => SVar 0
    | S k => SOp Function [SOp Function [SVar 0; SOp b []]; sig_body_d b k]
    end.
  Definition sig_d (b n : nat) : schema := mkSchema 1 (sig_body_d b n) [].
  Definition conc_d (b a : nat) : schema := mkSchema 0 (SOp Function [SOp a []; SOp b []]) [].

  Fixpoint fchain_d (b : nat) (n : nat) (x : tyv) : tyv :=
    match n with
    | 0 => x
    | S k => O Function [O Function [x; O b []]; fchain_d b k x]
    end.

  Fixpoint chain_steps_d (b : nat) (args : list nat) (k : nat) : list cmd :=
    match args with
    | [] => []
    | a :: r => CInst (conc_d b a) :: CApply k (S k) true :: chain_steps_d b r (S (S k))
    end.

  Definition chain_prog_d (b : nat) (args : list nat) : list cmd :=
    CInst (sig_d b (length args)) :: chain_steps_d b args 0.

  Lemma eval_sig_body_d b n v s :
    c_bound (cell_of s v) = None ->
    eval_sty [V v] (sig_body_d b n) s = MOk (fchain_d b n (V v)) s.
  Proof.
    intros Eb. induction n as [|k IH]; cbn [sig_body_d fchain_d eval_sty].
    - unfold gets. cbn [nth]. now rewrite (follow_V_unbound _ _ Eb).
    - unfold bindM at 1 2 3 4. unfold gets at 1. cbn [nth].
      rewrite (follow_V_unbound _ _ Eb).
      unfold bindM at 1 2 3 4 5. unfold ret at 1 2 3 4 5 6.
      unfold bindM at 1 2. rewrite IH. reflexivity.
  Qed.

  Lemma fix_fchain_d (W : wf_hier H) b v s :
    variance H b = [] ->
    c_bound (cell_of s v) = None -> c_lower (cell_of s v) = None ->
    c_upper (cell_of s v) = None ->
    forall n f pl, n + 2 <= f ->
      fix_ty H f pl (fchain_d b n (V v)) s = MOk (fchain_d b n (V v)) s.
  Proof.
    intros Vb Eb El Eu.
    assert (FV : forall f pl, 1 <= f -> fix_ty H f pl (V v) s = MOk (V v) s).
    { intros [|f] pl Hf; [lia|].
      destruct pl; [now apply fix_var_nolower | now apply fix_var_noupper]. }
    induction n as [|k IH]; intros f pl Hf; (destruct f as [|f]; [lia|]).
    - cbn [fchain_d]. apply FV. lia.
    - cbn [fchain_d]. rewrite fix_ty_S. unfold bindM at 1 2. unfold gets at 1. rewrite follow_O.
      rewrite (wf_fun H W).
      assert (E1 : forall pl', fix_ty H f pl' (O Function [V v; O b []]) s
                               = MOk (O Function [V v; O b []]) s).
      { intros pl'. destruct f as [|f]; [lia|].
        rewrite fix_ty_S. unfold bindM at 1 2. unfold gets at 1. rewrite follow_O.
        rewrite (wf_fun H W).
        unfold bindM at 1. rewrite FV by lia.
        unfold bindM at 1. destruct f as [|f]; [lia|].
        rewrite (fix_to_basic f _ (O b []) b s) by reflexivity. reflexivity. }
      unfold bindM at 1. rewrite E1.
      unfold bindM at 1. rewrite (IH f pl) by lia.
      reflexivity.
  Qed.

  Lemma instance_sig_d (W : wf_hier H) b n fuel s :
    variance H b = [] -> n + 2 <= fuel ->
    instance H fuel (sig_d b n) s = MOk (fchain_d b n (V (length (vars s)))) (fresh_store s).
  Proof.
    intros Vb Hf. unfold instance, sig_d. cbn [s_n s_body s_constrs fresh_list forM].
    unfold bindM at 1 2 3. unfold fresh at 1. cbn [alloc_var].
    unfold bindM at 1. unfold ret at 1 2.
    change (mkStore _ _ _ _) with (fresh_store s).
    assert (Eb : cell_of (fresh_store s) (length (vars s)) = _) by apply fresh_store_cell.
    rewrite eval_sig_body_d by now rewrite Eb.
    unfold bindM. unfold ret at 1.
    apply fix_fchain_d; auto; now rewrite Eb.
  Qed.

  Lemma instance_conc_d (W : wf_hier H) b a fuel s :
    variance H a = [] -> variance H b = [] -> 2 <= fuel ->
    instance H fuel (conc_d b a) s = MOk (O Function [O a []; O b []]) s.
  Proof.
    intros Va Vb Hf. destruct fuel as [|[|f]]; try lia.
    unfold instance, conc_d. cbn [s_n s_body s_constrs fresh_list forM eval_sty].
    unfold bindM, ret. rewrite fix_ty_S. unfold bindM, gets. rewrite follow_O.
    rewrite (wf_fun H W).
    rewrite (fix_to_basic f _ (O a []) a s) by reflexivity.
    rewrite (fix_to_basic f _ (O b []) b s) by reflexivity. reflexivity.
  Qed.

  Lemma unify_fun_d (W : wf_hier H) f a b y s :
    unify H (S f) true false false (O Function [O a []; O b []]) (O Function [y; O b []]) s =
      (unify H f true false false y (O a []) ;;;
       unify H f true false false (O b []) (O b []) ;;; ret tt) s.
  Proof.
    rewrite unify_S. unfold bindM at 1 2. unfold gets at 1 2. rewrite !follow_O.
    assert (Bf : basic H Function = false) by (unfold basic, arity; now rewrite (wf_fun H W)).
    rewrite Bf, (wf_fun H W). reflexivity.
  Qed.

  Definition result_d (acc : option nat) (v : nat) : tyv :=
    match acc with
    | Some m => if Nat.eqb m Bottom then O Bottom [] else V v
    | None => V v
    end.

  Lemma run_chain_steps_d (W : wf_hier H) b fuel v i :
    variance H b = [] -> 5 <= fuel ->
    forall args acc vals s idx k,
      args <> [] -> length vals = S k ->
      nth k vals (V 0) = fchain_d b (length args) (V v) ->
      Inv_d s v i acc -> Good_d acc args ->
      exists vals' s',
        run_cmds H fuel (chain_steps_d b args k) idx vals s = (None, vals', s') /\
        Inv_d s' v i (lub_from_d acc args) /\
        length vals' = S k + 2 * length args /\
        last vals' (V 0) = result_d (lub_from_d acc args) v /\
        follow s' (last vals' (V 0)) = result_d (lub_from_d acc args) v.
  Proof.
    intros Vb Hf. destruct fuel as [|[|[|[|[|f]]]]]; try lia.
    assert (Bb : basic H b = true) by now apply basic_iff.
    induction args as [|a r IH]; intros acc vals s idx k Hne Hlen Hnth HInv HGood; [congruence|].
    pose proof (Good_step_d _ _ _ HGood) as HGood1.
    assert (Va : variance H a = [])
      by (destruct HGood as (G1 & _); apply G1; destruct acc; cbn; auto).
    destruct (unify_step_d W f s v i acc a HInv Va (fun m E => Good_acc_d _ _ _ _ HGood E))
      as (s1 & E1 & HInv1).
    cbn [chain_steps_d run_cmds]. unfold run_cmd at 1. unfold bindM at 1.
    rewrite (instance_conc_d W) by (auto; lia). unfold ret at 1.
    cbn [run_cmds]. unfold run_cmd at 1. unfold val.
    rewrite app_nth1 by lia. rewrite Hnth.
    rewrite app_nth2 by lia. replace (S k - length vals) with 0 by lia.
    cbn [nth length fchain_d].
    unfold bindM at 1. rewrite apply_fun.
    unfold bindM at 1. rewrite (unify_fun_d W).
    unfold bindM at 1. rewrite E1.
    unfold bindM at 1. rewrite (unify_basic_refl _ b s1 Bb). unfold ret at 1.
    cbn [lub_from_g].
    destruct r as [|a' r'].
    - cbn [length fchain_d is_fun negb chain_steps_d lub_from_g].
      pose proof HInv1 as (Hv1 & Hcs1 & Hcell1).
      destruct (acc_step_d acc a) as [m|] eqn:Eacc.
      + destruct (Nat.eqb m Bottom) eqn:EB.
        * destruct Hcell1 as (up & Hc1).
          rewrite (fix_to_basic _ true (V v) Bottom s1)
            by (apply follow_V_bound_O; now rewrite Hc1).
          unfold ret. cbn [run_cmds]. do 2 eexists. split; [reflexivity|].
          split; auto. rewrite last_last, !app_length. cbn [result_d length]. rewrite EB.
          repeat split; auto; lia.
        * rewrite fix_var_nolower by now rewrite Hcell1.
          unfold ret. cbn [run_cmds]. do 2 eexists. split; [reflexivity|].
          split; auto. rewrite last_last, !app_length. cbn [result_d length]. rewrite EB.
          repeat split; auto; try lia.
          apply follow_V_unbound. now rewrite Hcell1.
      + rewrite fix_var_nolower by now rewrite Hcell1.
        unfold ret. cbn [run_cmds]. do 2 eexists. split; [reflexivity|].
        split; auto. rewrite last_last, !app_length. cbn [result_d length].
        repeat split; auto; try lia.
        apply follow_V_unbound. now rewrite Hcell1.
    - cbn [length fchain_d is_fun negb Nat.eqb Function]. unfold ret at 1 2.
      destruct (IH (acc_step_d acc a) ((vals ++ [O Function [O a []; O b []]]) ++
                     [fchain_d b (length (a' :: r')) (V v)]) s1 (S (S idx)) (S (S k)))
        as (vals' & s' & Er & Hi & Hl & Hlast & Hfol); auto; try discriminate.
      + rewrite !app_length. cbn [length]. lia.
      + rewrite app_nth2 by (rewrite app_length; cbn [length]; lia).
        rewrite app_length. cbn [length].
        replace (S (S k) - (length vals + 1)) with 0 by lia. reflexivity.
      + exists vals', s'. split; [exact Er|]. split; [exact Hi|].
        split; [cbn [length] in Hl |- *; lia|]. split; assumption.
  Qed.

  (* ------------------------------------------------------------------ *)
  (* main theorems                                                        *)

  Definition run_chain_c (fs : list nat) (fuel : nat) (args : list nat) :=
    run_cmds H fuel (chain_prog_c fs args) 0 [] (empty_store []).
  Definition run_chain (fuel : nat) (args : list nat) := run_chain_c [] fuel args.

  Section Ctx.
  Variable fs : list nat.
  Hypothesis HCov : cov_ctx fs.

  Theorem chain_lub_compute (W : wf_hier H) args fuel :
    args <> [] -> chain_ok args -> length fs + length args + 3 <= fuel ->
    exists vals s, run_chain_c fs fuel args = (None, vals, s) /\
                   follow s (last vals (V 0)) = result (lub_ops args) 0.
  Proof.
    intros Hne HC Hf. unfold run_chain_c, chain_prog_c. cbn [run_cmds]. unfold run_cmd at 1.
    unfold bindM at 1. rewrite (instance_sig W fs) by (auto; lia). unfold ret at 1.
    cbn [empty_store vars length app].
    apply (run_chain_steps W fs fuel 0 0); auto.
    - destruct args; [congruence|]. cbn [length] in Hf. lia.
    - split; [|split]; reflexivity || (cbn; lia).
    - now apply chain_ok_Good.
  Qed.

  (* Top and Bottom allowed among the arguments; the result is the maximum
     w.r.t. the operator order; when every argument is Bottom the variable
     stays unresolved *)
  Theorem chain_lub_ext (W : wf_hier H) args m fuel :
    chain_ok args -> In m args -> (forall a, In a args -> ole a m) ->
    length fs + length args + 3 <= fuel ->
    exists vals s, run_chain_c fs fuel args = (None, vals, s) /\
                   follow s (last vals (V 0)) = if Nat.eqb m Bottom then V 0 else O m [].
  Proof.
    intros HC Hm Hub Hf.
    assert (Hne : args <> []) by (intros ->; destruct Hm).
    destruct (chain_lub_compute W args fuel Hne HC Hf) as (vals & s & E & R).
    exists vals, s. split; auto. rewrite R, (lub_ops_spec W args m HC Hm Hub).
    now destruct (Nat.eqb m Bottom).
  Qed.

  Definition user (a : nat) : Prop := variance H a = [] /\ a <> Top /\ a <> Bottom.

  Definition user_chain (args : list nat) : Prop :=
    (forall a, In a args -> user a) /\
    (forall a b, In a args -> In b args -> Anc H a b \/ Anc H b a).

  Lemma user_chain_ok args : user_chain args -> chain_ok args.
  Proof.
    intros (U & C). split.
    - intros a Ha. now apply U.
    - intros a b Ha Hb. destruct (C a b Ha Hb); [left|right]; right; now right.
  Qed.

  Theorem chain_lub (W : wf_hier H) args m fuel :
    user_chain args -> In m args -> (forall a, In a args -> Anc H a m) ->
    length fs + length args + 3 <= fuel ->
    exists vals s, run_chain_c fs fuel args = (None, vals, s) /\
                   follow s (last vals (V 0)) = O m [].
  Proof.
    intros HU Hm Hub Hf.
    destruct (chain_lub_ext W args m fuel (user_chain_ok _ HU) Hm) as (vals & s & E & R); auto.
    { intros a Ha. right; right; auto. }
    exists vals, s. split; auto. rewrite R.
    destruct HU as (U & _). destruct (U m Hm) as (_ & _ & NB).
    apply Nat.eqb_neq in NB. now rewrite NB.
  Qed.

  Lemma user_ole_Anc a b : user a -> user b -> ole a b -> Anc H a b.
  Proof. intros (_ & _ & NB) (_ & NT & _) [E|[E|E]]; congruence. Qed.

  Lemma user_chain_max_exists (W : wf_hier H) args :
    args <> [] -> user_chain args -> exists m, In m args /\ forall a, In a args -> Anc H a m.
  Proof.
    intros Hne HU. destruct (chain_max_exists W args Hne (user_chain_ok _ HU)) as (m & Hm & Hub).
    exists m. split; auto. intros a Ha. destruct HU as (U & _).
    apply user_ole_Anc; auto.
  Qed.

  (* ------------------------------------------------------------------ *)
  (* order independence                                                   *)

  Lemma user_chain_perm args args' : Permutation args args' -> user_chain args -> user_chain args'.
  Proof.
    intros P (C1 & C2). apply Permutation_sym in P. split.
    - intros a Ha. apply C1. eapply Permutation_in; eauto.
    - intros a b Ha Hb. apply C2; eapply Permutation_in; eauto.
  Qed.

  Theorem chain_perm_ext (W : wf_hier H) args args' fuel :
    args <> [] -> chain_ok args -> Permutation args args' -> length fs + length args + 3 <= fuel ->
    exists vals s vals' s',
      run_chain_c fs fuel args = (None, vals, s) /\ run_chain_c fs fuel args' = (None, vals', s') /\
      follow s (last vals (V 0)) = follow s' (last vals' (V 0)).
  Proof.
    intros Hne HC P Hf.
    assert (Hne' : args' <> []) by (intros ->; apply Permutation_sym, Permutation_nil in P; auto).
    destruct (chain_lub_compute W args fuel Hne HC Hf) as (vals & s & E & R).
    destruct (chain_lub_compute W args' fuel Hne' (chain_ok_perm _ _ P HC)) as (vals' & s' & E' & R').
    { rewrite <- (Permutation_length P). exact Hf. }
    exists vals, s, vals', s'. repeat split; auto.
    rewrite R, R'. now rewrite (lub_ops_perm W args args' HC P).
  Qed.

  Theorem chain_perm (W : wf_hier H) args args' fuel :
    args <> [] -> user_chain args -> Permutation args args' -> length fs + length args + 3 <= fuel ->
    exists m vals s vals' s',
      In m args /\ (forall a, In a args -> Anc H a m) /\
      run_chain_c fs fuel args = (None, vals, s) /\ follow s (last vals (V 0)) = O m [] /\
      run_chain_c fs fuel args' = (None, vals', s') /\ follow s' (last vals' (V 0)) = O m [].
  Proof.
    intros Hne HU P Hf.
    destruct (user_chain_max_exists W args Hne HU) as (m & Hm & Hub).
    destruct (chain_lub W args m fuel HU Hm Hub Hf) as (vals & s & E & R).
    destruct (chain_lub W args' m fuel (user_chain_perm _ _ P HU)) as (vals' & s' & E' & R').
    { eapply Permutation_in; eauto. }
    { intros x Hx. apply Hub. apply Permutation_sym in P. eapply Permutation_in; eauto. }
    { rewrite <- (Permutation_length P). exact Hf. }
    exists m, vals, s, vals', s'. repeat split; auto.
  Qed.

  (* ------------------------------------------------------------------ *)
  (* specialising arguments                                               *)

  Lemma Forall2_In_l {A B} (R : A -> B -> Prop) l' l x' :
    Forall2 R l' l -> In x' l' -> exists x, In x l /\ R x' x.
  Proof.
    induction 1 as [|y' y r' r Hy _ IH]; intros Hx; [destruct Hx|].
    destruct Hx as [<-|Hx].
    - exists y. split; [now left|auto].
    - destruct (IH Hx) as (x & Hin & HR). exists x. split; [now right|auto].
  Qed.

  Lemma Forall2_len {A B} (R : A -> B -> Prop) l' l : Forall2 R l' l -> length l' = length l.
  Proof. induction 1; cbn [length]; auto. Qed.

  Theorem chain_mono (W : wf_hier H) args args' fuel :
    args <> [] -> user_chain args -> user_chain args' ->
    Forall2 (fun x' x => Anc H x' x) args' args -> length fs + length args + 3 <= fuel ->
    exists m m' vals s vals' s',
      run_chain_c fs fuel args = (None, vals, s) /\ follow s (last vals (V 0)) = O m [] /\
      run_chain_c fs fuel args' = (None, vals', s') /\ follow s' (last vals' (V 0)) = O m' [] /\
      Anc H m' m.
  Proof.
    intros Hne HU HU' F Hf.
    assert (Hlen : length args' = length args) by (eapply Forall2_len; eauto).
    assert (Hne' : args' <> []) by (intros ->; destruct args; [congruence|discriminate]).
    destruct (user_chain_max_exists W args Hne HU) as (m & Hm & Hub).
    destruct (user_chain_max_exists W args' Hne' HU') as (m' & Hm' & Hub').
    destruct (chain_lub W args m fuel HU Hm Hub Hf) as (vals & s & E & R).
    destruct (chain_lub W args' m' fuel HU' Hm' Hub') as (vals' & s' & E' & R'); [lia|].
    exists m, m', vals, s, vals', s'. repeat split; auto.
    destruct (Forall2_In_l _ _ _ _ F Hm') as (x & Hx & Hax).
    eapply Anc_trans; eauto.
  Qed.

  Lemma Forall2_Anc_refl l : Forall2 (fun x' x => Anc H x' x) l l.
  Proof. induction l; constructor; auto. constructor. Qed.

  (* replacing one argument by a subtype from the same chain *)
  Corollary chain_mono_one (W : wf_hier H) l1 a a' l2 fuel :
    user_chain (l1 ++ a :: l2) -> user_chain (l1 ++ a' :: l2) -> Anc H a' a ->
    length fs + length (l1 ++ a :: l2) + 3 <= fuel ->
    exists m m' vals s vals' s',
      run_chain_c fs fuel (l1 ++ a :: l2) = (None, vals, s) /\
      follow s (last vals (V 0)) = O m [] /\
      run_chain_c fs fuel (l1 ++ a' :: l2) = (None, vals', s') /\
      follow s' (last vals' (V 0)) = O m' [] /\
      Anc H m' m.
  Proof.
    intros HU HU' Ha Hf. apply chain_mono; auto.
    - destruct l1; discriminate.
    - apply Forall2_app; [apply Forall2_Anc_refl|]. constructor; auto. apply Forall2_Anc_refl.
  Qed.

  (* with Top and Bottom: the new result is below the old one *)
  Theorem chain_mono_ext (W : wf_hier H) args args' fuel :
    args <> [] -> chain_ok args -> chain_ok args' ->
    Forall2 ole args' args -> length fs + length args + 3 <= fuel ->
    exists vals s vals' s',
      run_chain_c fs fuel args = (None, vals, s) /\ run_chain_c fs fuel args' = (None, vals', s') /\
      (follow s' (last vals' (V 0)) = V 0 \/
       exists m m', follow s (last vals (V 0)) = O m [] /\
                    follow s' (last vals' (V 0)) = O m' [] /\ ole m' m).
  Proof.
    intros Hne HC HC' F Hf.
    assert (Hlen : length args' = length args) by (eapply Forall2_len; eauto).
    assert (Hne' : args' <> []) by (intros ->; destruct args; [congruence|discriminate]).
    destruct (chain_max_exists W args Hne HC) as (m & Hm & Hub).
    destruct (chain_max_exists W args' Hne' HC') as (m' & Hm' & Hub').
    destruct (chain_lub_ext W args m fuel HC Hm Hub Hf) as (vals & s & E & R).
    destruct (chain_lub_ext W args' m' fuel HC' Hm' Hub') as (vals' & s' & E' & R'); [lia|].
    exists vals, s, vals', s'. repeat split; auto.
    destruct (Nat.eqb m' Bottom) eqn:EB'; [now left|right].
    destruct (Forall2_In_l _ _ _ _ F Hm') as (x & Hx & Hax).
    assert (L : ole m' m) by (eapply ole_trans; eauto).
    exists m, m'. repeat split; auto.
    destruct (Nat.eqb m Bottom) eqn:EB; auto.
    apply Nat.eqb_eq in EB. subst m. apply Nat.eqb_neq in EB'.
    destruct L as [L|[L|L]]; [congruence|discriminate|].
    apply (Anc_bot_inv W) in L. congruence.
  Qed.
  End Ctx.

  (* ------------------------------------------------------------------ *)
  (* main theorems, contravariant reading                                 *)

  Definition run_chain_d (b fuel : nat) (args : list nat) :=
    run_cmds H fuel (chain_prog_d b args) 0 [] (empty_store []).

  Theorem chain_glb_compute (W : wf_hier H) b args fuel :
    variance H b = [] -> args <> [] -> chain_ok_d args -> length args + 4 <= fuel ->
    exists vals s, run_chain_d b fuel args = (None, vals, s) /\
                   Inv_d s 0 0 (lub_ops_d args) /\
                   length vals = 1 + 2 * length args /\
                   last vals (V 0) = result_d (lub_ops_d args) 0 /\
                   follow s (last vals (V 0)) = result_d (lub_ops_d args) 0.
  Proof.
    intros Vb Hne HC Hf. unfold run_chain_d, chain_prog_d. cbn [run_cmds]. unfold run_cmd at 1.
    unfold bindM at 1. rewrite (instance_sig_d W) by (auto; lia). unfold ret at 1.
    cbn [empty_store vars length app].
    apply (run_chain_steps_d W b fuel 0 0); auto.
    - destruct args; [congruence|]. cbn [length] in Hf. lia.
    - split; [|split]; reflexivity || (cbn; lia).
    - now apply chain_ok_Good_d.
  Qed.

  (* m is the minimum of the arguments w.r.t. the operator order *)
  Theorem chain_glb_ext (W : wf_hier H) b args m fuel :
    variance H b = [] -> chain_ok args -> In m args -> (forall a, In a args -> ole m a) ->
    length args + 4 <= fuel ->
    exists vals s, run_chain_d b fuel args = (None, vals, s) /\
      if Nat.eqb m Top
      then follow s (last vals (V 0)) = V 0 /\ cell_of s 0 = mkCell false None None None 0
      else if Nat.eqb m Bottom
      then follow s (last vals (V 0)) = O Bottom []
      else follow s (last vals (V 0)) = V 0 /\ cell_of s 0 = mkCell false None None (Some m) 0.
  Proof.
    intros Vb HC Hm Hlb Hf.
    assert (Hne : args <> []) by (intros ->; destruct Hm).
    apply chain_ok_d_iff in HC.
    destruct (chain_glb_compute W b args fuel Vb Hne HC Hf) as (vals & s & E & HI & _ & _ & R).
    exists vals, s. split; auto.
    rewrite (lub_ops_spec_d W args m HC Hm Hlb) in HI, R.
    destruct HI as (_ & _ & HI). destruct (Nat.eqb m Top); [now split|].
    cbn [result_d] in R. destruct (Nat.eqb m Bottom); [exact R|now split].
  Qed.

  Theorem chain_glb (W : wf_hier H) b args m fuel :
    variance H b = [] -> user_chain args -> In m args -> (forall a, In a args -> Anc H m a) ->
    length args + 4 <= fuel ->
    exists vals s, run_chain_d b fuel args = (None, vals, s) /\
                   follow s (last vals (V 0)) = V 0 /\
                   cell_of s 0 = mkCell false None None (Some m) 0.
  Proof.
    intros Vb HU Hm Hlb Hf.
    destruct (chain_glb_ext W b args m fuel Vb (user_chain_ok _ HU) Hm) as (vals & s & E & R); auto.
    { intros a Ha. right; right; auto. }
    exists vals, s. split; auto.
    destruct HU as (U & _). destruct (U m Hm) as (_ & NT & NB).
    apply Nat.eqb_neq in NT, NB. now rewrite NT, NB in R.
  Qed.

  Lemma user_chain_min_exists (W : wf_hier H) args :
    args <> [] -> user_chain args -> exists m, In m args /\ forall a, In a args -> Anc H m a.
  Proof.
    intros Hne HU.
    destruct (chain_min_exists W args Hne) as (m & Hm & Hlb).
    { apply chain_ok_d_iff. now apply user_chain_ok. }
    exists m. split; auto. intros a Ha. destruct HU as (U & _).
    apply user_ole_Anc; auto.
  Qed.

  Theorem chain_glb_perm (W : wf_hier H) b args args' fuel :
    variance H b = [] -> args <> [] -> user_chain args -> Permutation args args' ->
    length args + 4 <= fuel ->
    exists m vals s vals' s',
      In m args /\ (forall a, In a args -> Anc H m a) /\
      run_chain_d b fuel args = (None, vals, s) /\
      follow s (last vals (V 0)) = V 0 /\
      cell_of s 0 = mkCell false None None (Some m) 0 /\
      run_chain_d b fuel args' = (None, vals', s') /\
      follow s' (last vals' (V 0)) = V 0 /\
      cell_of s' 0 = mkCell false None None (Some m) 0.
  Proof.
    intros Vb Hne HU P Hf.
    destruct (user_chain_min_exists W args Hne HU) as (m & Hm & Hlb).
    destruct (chain_glb W b args m fuel Vb HU Hm Hlb Hf) as (vals & s & E & R & C).
    destruct (chain_glb W b args' m fuel Vb (user_chain_perm _ _ P HU))
      as (vals' & s' & E' & R' & C').
    { eapply Permutation_in; eauto. }
    { intros x Hx. apply Hlb. apply Permutation_sym in P. eapply Permutation_in; eauto. }
    { rewrite <- (Permutation_length P). exact Hf. }
    exists m, vals, s, vals', s'. repeat split; auto.
  Qed.

  (* with Top and Bottom: the final state of the variable and the result do
     not depend on the order *)
  Theorem chain_glb_perm_ext (W : wf_hier H) b args args' fuel :
    variance H b = [] -> args <> [] -> chain_ok args -> Permutation args args' ->
    length args + 4 <= fuel ->
    exists g vals s vals' s',
      run_chain_d b fuel args = (None, vals, s) /\ Inv_d s 0 0 g /\
      follow s (last vals (V 0)) = result_d g 0 /\
      run_chain_d b fuel args' = (None, vals', s') /\ Inv_d s' 0 0 g /\
      follow s' (last vals' (V 0)) = result_d g 0.
  Proof.
    intros Vb Hne HC P Hf. apply chain_ok_d_iff in HC.
    assert (Hne' : args' <> []) by (intros ->; apply Permutation_sym, Permutation_nil in P; auto).
    destruct (chain_glb_compute W b args fuel Vb Hne HC Hf) as (vals & s & E & HI & _ & _ & R).
    destruct (chain_glb_compute W b args' fuel Vb Hne' (chain_ok_perm_g _ _ _ P HC))
      as (vals' & s' & E' & HI' & _ & _ & R').
    { rewrite <- (Permutation_length P). exact Hf. }
    rewrite <- (lub_ops_perm_d W args args' HC P) in HI', R'.
    exists (lub_ops_d args), vals, s, vals', s'.
    split; [exact E|]. split; [exact HI|]. split; [exact R|].
    split; [exact E'|]. split; [exact HI'|exact R'].
  Qed.

  (* making the bound observable: a final fix(prefer_lower=False) resolves
     the variable at its upper bound, the minimum of the arguments *)
  Lemma run_cmds_app fuel : forall cs1 cs2 idx vals s,
    run_cmds H fuel (cs1 ++ cs2) idx vals s =
      match run_cmds H fuel cs1 idx vals s with
      | (None, vals', s') => run_cmds H fuel cs2 (idx + length cs1) vals' s'
      | r => r
      end.
  Proof.
    induction cs1 as [|c r IH]; intros cs2 idx vals s; cbn [app run_cmds length].
    - now rewrite Nat.add_0_r.
    - destruct (run_cmd H fuel c vals s) as [vals' s'|e s']; [|reflexivity].
      rewrite IH. now rewrite Nat.add_succ_r.
  Qed.

  Lemma nth_last_len {A} (d : A) : forall l n, length l = S n -> nth n l d = last l d.
  Proof.
    induction l as [|x r IH]; intros n Hl; [discriminate|].
    destruct r as [|y r'].
    - cbn in Hl. injection Hl as <-. reflexivity.
    - destruct n as [|n]; [discriminate|]. cbn [length] in Hl. injection Hl as Hl.
      change (nth n (y :: r') d = last (y :: r') d). apply IH. cbn [length]. now rewrite Hl.
  Qed.

  Theorem chain_glb_fix (W : wf_hier H) b args m fuel :
    variance H b = [] -> user_chain args -> In m args -> (forall a, In a args -> Anc H m a) ->
    length args + 4 <= fuel ->
    exists vals s,
      run_cmds H fuel (chain_prog_d b args ++ [CFix (2 * length args) false]) 0 []
               (empty_store []) = (None, vals, s) /\
      follow s (last vals (V 0)) = O m [].
  Proof.
    intros Vb HU Hm Hlb Hf.
    assert (Hne : args <> []) by (intros ->; destruct Hm).
    assert (HC : chain_ok_d args) by (apply chain_ok_d_iff; now apply user_chain_ok).
    destruct (chain_glb_compute W b args fuel Vb Hne HC Hf)
      as (vals & s & E & HI & Hlen & Hlast & R).
    assert (Hlb' : forall a, In a args -> ole m a) by (intros a Ha; right; right; auto).
    rewrite (lub_ops_spec_d W args m HC Hm Hlb') in HI, Hlast.
    destruct HU as (U & _). destruct (U m Hm) as (Vm & NT & NB).
    pose proof NT as NT'. pose proof NB as NB'.
    apply Nat.eqb_neq in NT', NB'. rewrite NT' in HI, Hlast.
    cbn [result_d] in Hlast. rewrite NB' in Hlast.
    destruct HI as (Hv & Hcs & Hc). rewrite NB' in Hc.
    rewrite run_cmds_app. unfold run_chain_d in E. rewrite E.
    cbn [run_cmds]. unfold run_cmd, val.
    rewrite (nth_last_len (V 0) vals (2 * length args)) by lia. rewrite Hlast.
    unfold bindM at 1.
    destruct fuel as [|[|[|f]]]; try lia.
    rewrite (fix_var_upper f 0 s false None m 0); auto;
      [|now apply basic_iff|now apply osubT_irrefl].
    unfold ret. do 2 eexists. split; [reflexivity|]. now rewrite last_last.
  Qed.

  (* ------------------------------------------------------------------ *)
  (* declarative reading of above_pure / below_pure on user base types    *)

  Lemma user_osubF (W : wf_hier H) a b :
    user a -> user b -> (osub H false a b = true <-> Anc H a b).
  Proof.
    intros (_ & _ & NB) (_ & NT & _). rewrite (osubF_iff W). unfold ole. intuition congruence.
  Qed.

  Lemma user_osubT (W : wf_hier H) a b :
    user a -> user b -> (osub H true a b = true <-> (Anc H a b /\ a <> b)).
  Proof.
    intros (_ & _ & NB) (_ & NT & _). rewrite (osubT_iff W). intuition congruence.
  Qed.

  Definition obounds_user (o : option nat) : Prop := forall x, o = Some x -> user x.

  Lemma lower_step_spec (W : wf_hier H) lo new :
    user new -> obounds_user lo ->
    match lower_step lo new with
    | None => exists l, lo = Some l /\ ~ Anc H new l /\ ~ Anc H l new
    | Some lo' => exists m, lo' = Some m /\ Anc H new m /\
                            (forall l, lo = Some l -> Anc H l m) /\ (m = new \/ lo = Some m)
    end.
  Proof.
    intros Un Ul. unfold lower_step. destruct lo as [l|].
    - assert (Uu : user l) by now apply Ul.
      destruct (osub H true new l) eqn:E1.
      { apply (user_osubT W) in E1; auto. destruct E1 as [A _].
        exists l. repeat split; auto. intros ? [= <-]. constructor. }
      destruct (osub H false l new) eqn:E2.
      { apply (user_osubF W) in E2; auto.
        exists new. repeat split; auto; [constructor|]. now intros ? [= <-]. }
      exists l. split; auto. split; intros A.
      + destruct (Nat.eq_dec new l) as [->|Ne].
        * assert (E : osub H false l l = true) by (apply (user_osubF W); auto). congruence.
        * assert (E : osub H true new l = true) by (apply (user_osubT W); auto). congruence.
      + assert (E : osub H false l new = true) by (apply (user_osubF W); auto). congruence.
    - exists new. repeat split; auto; [constructor|discriminate].
  Qed.

  (* [above] fails exactly when the new type is not below the upper bound or
     is incomparable with the lower bound; otherwise the new lower bound is
     the maximum of the old one and the new type *)
  Theorem above_pure_spec (W : wf_hier H) lo up new :
    user new -> obounds_user lo -> obounds_user up ->
    match above_pure lo up new with
    | None => (exists u, up = Some u /\ ~ Anc H new u) \/
              (exists l, lo = Some l /\ ~ Anc H new l /\ ~ Anc H l new)
    | Some lo' => (forall u, up = Some u -> Anc H new u) /\
                  exists m, lo' = Some m /\ Anc H new m /\
                            (forall l, lo = Some l -> Anc H l m) /\ (m = new \/ lo = Some m)
    end.
  Proof.
    intros Un Ul Uu. pose proof (lower_step_spec W lo new Un Ul) as LS.
    unfold above_pure. destruct up as [u|].
    - assert (Uu' : user u) by now apply Uu.
      destruct (osub H true u new) eqn:E1.
      { apply (user_osubT W) in E1; auto. destruct E1 as [A Ne].
        left. exists u. split; auto. intros A'. apply Ne. now apply Anc_antisym with H. }
      destruct (osub H false new u) eqn:E2; cbn [negb].
      + apply (user_osubF W) in E2; auto.
        destruct (lower_step lo new); [|now right].
        split; auto. now intros ? [= <-].
      + left. exists u. split; auto. intros A.
        assert (E : osub H false new u = true) by (apply (user_osubF W); auto). congruence.
    - destruct (lower_step lo new); [|now right]. split; auto. discriminate.
  Qed.

  Lemma upper_step_spec (W : wf_hier H) up new :
    user new -> obounds_user up ->
    match upper_step up new with
    | None => exists u, up = Some u /\ ~ Anc H new u /\ ~ Anc H u new
    | Some up' => exists m, up' = Some m /\ Anc H m new /\
                            (forall u, up = Some u -> Anc H m u) /\ (m = new \/ up = Some m)
    end.
  Proof.
    intros Un Uu. unfold upper_step. destruct up as [u|].
    - assert (Uu' : user u) by now apply Uu.
      destruct (osub H true u new) eqn:E1.
      { apply (user_osubT W) in E1; auto. destruct E1 as [A _].
        exists u. repeat split; auto. intros ? [= <-]. constructor. }
      destruct (osub H false new u) eqn:E2.
      { apply (user_osubF W) in E2; auto.
        exists new. repeat split; auto; [constructor|]. now intros ? [= <-]. }
      exists u. split; auto. split; intros A.
      + assert (E : osub H false new u = true) by (apply (user_osubF W); auto). congruence.
      + destruct (Nat.eq_dec u new) as [->|Ne].
        * assert (E : osub H false new new = true) by (apply (user_osubF W); auto). congruence.
        * assert (E : osub H true u new = true) by (apply (user_osubT W); auto). congruence.
    - exists new. repeat split; auto; [constructor|discriminate].
  Qed.

  Theorem below_pure_spec (W : wf_hier H) lo up new :
    user new -> obounds_user lo -> obounds_user up ->
    match below_pure lo up new with
    | None => (exists l, lo = Some l /\ ~ Anc H l new) \/
              (exists u, up = Some u /\ ~ Anc H new u /\ ~ Anc H u new)
    | Some up' => (forall l, lo = Some l -> Anc H l new) /\
                  exists m, up' = Some m /\ Anc H m new /\
                            (forall u, up = Some u -> Anc H m u) /\ (m = new \/ up = Some m)
    end.
  Proof.
    intros Un Ul Uu. pose proof (upper_step_spec W up new Un Uu) as US.
    unfold below_pure. destruct lo as [l|].
    - assert (Ul' : user l) by now apply Ul.
      destruct (osub H true new l) eqn:E1.
      { apply (user_osubT W) in E1; auto. destruct E1 as [A Ne].
        left. exists l. split; auto. intros A'. apply Ne. now apply Anc_antisym with H. }
      destruct (osub H false l new) eqn:E2; cbn [negb].
      + apply (user_osubF W) in E2; auto.
        destruct (upper_step up new); [|now right].
        split; auto. now intros ? [= <-].
      + left. exists l. split; auto. intros A.
        assert (E : osub H false l new = true) by (apply (user_osubF W); auto). congruence.
    - destruct (upper_step up new); [|now right]. split; auto. discriminate.
  Qed.
End Lub.

(* ---------------------------------------------------------------------- *)
(* spelled-out statements (no auxiliary predicates) exported by props/C05.v *)

Lemma cov_ctx_nil H : cov_ctx H [].
Proof. intros g []. Qed.

Theorem lub_stmt : forall H, wf_hier H -> forall (args : list nat) (m fuel : nat),
  (forall a, In a args -> variance H a = [] /\ a <> Top /\ a <> Bottom) ->
  (forall a b, In a args -> In b args -> Anc H a b \/ Anc H b a) ->
  In m args -> (forall a, In a args -> Anc H a m) ->
  length args + 3 <= fuel ->
  exists vals s,
    run_cmds H fuel (chain_prog args) 0 [] (empty_store []) = (None, vals, s) /\
    follow s (last vals (V 0)) = O m [].
Proof.
  intros H W args m fuel U C Hm Hub Hf.
  exact (chain_lub H [] (cov_ctx_nil H) W args m fuel (conj U C) Hm Hub Hf).
Qed.

Theorem max_exists_stmt : forall H, wf_hier H -> forall (args : list nat),
  args <> [] ->
  (forall a, In a args -> variance H a = [] /\ a <> Top /\ a <> Bottom) ->
  (forall a b, In a args -> In b args -> Anc H a b \/ Anc H b a) ->
  exists m, In m args /\ forall a, In a args -> Anc H a m.
Proof. intros H W args Hne U C. exact (user_chain_max_exists H W args Hne (conj U C)). Qed.

Theorem lub_top_bottom_stmt : forall H, wf_hier H -> forall (args : list nat) (m fuel : nat),
  (forall a, In a args -> variance H a = []) ->
  (forall a b, In a args -> In b args ->
     (a = Bottom \/ b = Top \/ Anc H a b) \/ (b = Bottom \/ a = Top \/ Anc H b a)) ->
  In m args -> (forall a, In a args -> a = Bottom \/ m = Top \/ Anc H a m) ->
  length args + 3 <= fuel ->
  exists vals s,
    run_cmds H fuel (chain_prog args) 0 [] (empty_store []) = (None, vals, s) /\
    follow s (last vals (V 0)) = if Nat.eqb m Bottom then V 0 else O m [].
Proof.
  intros H W args m fuel U C Hm Hub Hf.
  exact (chain_lub_ext H [] (cov_ctx_nil H) W args m fuel (conj U C) Hm Hub Hf).
Qed.

Theorem perm_stmt : forall H, wf_hier H -> forall (args args' : list nat) (fuel : nat),
  args <> [] ->
  (forall a, In a args -> variance H a = [] /\ a <> Top /\ a <> Bottom) ->
  (forall a b, In a args -> In b args -> Anc H a b \/ Anc H b a) ->
  Permutation args args' ->
  length args + 3 <= fuel ->
  exists m vals s vals' s',
    In m args /\ (forall a, In a args -> Anc H a m) /\
    run_cmds H fuel (chain_prog args) 0 [] (empty_store []) = (None, vals, s) /\
    follow s (last vals (V 0)) = O m [] /\
    run_cmds H fuel (chain_prog args') 0 [] (empty_store []) = (None, vals', s') /\
    follow s' (last vals' (V 0)) = O m [].
Proof.
  intros H W args args' fuel Hne U C P Hf.
  exact (chain_perm H [] (cov_ctx_nil H) W args args' fuel Hne (conj U C) P Hf).
Qed.

Theorem perm_top_bottom_stmt : forall H, wf_hier H -> forall (args args' : list nat) (fuel : nat),
  args <> [] ->
  (forall a, In a args -> variance H a = []) ->
  (forall a b, In a args -> In b args ->
     (a = Bottom \/ b = Top \/ Anc H a b) \/ (b = Bottom \/ a = Top \/ Anc H b a)) ->
  Permutation args args' ->
  length args + 3 <= fuel ->
  exists vals s vals' s',
    run_cmds H fuel (chain_prog args) 0 [] (empty_store []) = (None, vals, s) /\
    run_cmds H fuel (chain_prog args') 0 [] (empty_store []) = (None, vals', s') /\
    follow s (last vals (V 0)) = follow s' (last vals' (V 0)).
Proof.
  intros H W args args' fuel Hne U C P Hf.
  exact (chain_perm_ext H [] (cov_ctx_nil H) W args args' fuel Hne (conj U C) P Hf).
Qed.

Theorem mono_stmt : forall H, wf_hier H -> forall (args args' : list nat) (fuel : nat),
  args <> [] ->
  (forall a, In a args -> variance H a = [] /\ a <> Top /\ a <> Bottom) ->
  (forall a b, In a args -> In b args -> Anc H a b \/ Anc H b a) ->
  (forall a, In a args' -> variance H a = [] /\ a <> Top /\ a <> Bottom) ->
  (forall a b, In a args' -> In b args' -> Anc H a b \/ Anc H b a) ->
  Forall2 (fun x' x => Anc H x' x) args' args ->
  length args + 3 <= fuel ->
  exists m m' vals s vals' s',
    run_cmds H fuel (chain_prog args) 0 [] (empty_store []) = (None, vals, s) /\
    follow s (last vals (V 0)) = O m [] /\
    run_cmds H fuel (chain_prog args') 0 [] (empty_store []) = (None, vals', s') /\
    follow s' (last vals' (V 0)) = O m' [] /\
    Anc H m' m.
Proof.
  intros H W args args' fuel Hne U C U' C' F Hf.
  exact (chain_mono H [] (cov_ctx_nil H) W args args' fuel Hne (conj U C) (conj U' C') F Hf).
Qed.

Theorem mono_one_stmt : forall H, wf_hier H -> forall (l1 l2 : list nat) (a a' fuel : nat),
  (forall x, In x (l1 ++ a :: l2) -> variance H x = [] /\ x <> Top /\ x <> Bottom) ->
  (forall x y, In x (l1 ++ a :: l2) -> In y (l1 ++ a :: l2) -> Anc H x y \/ Anc H y x) ->
  (forall x, In x (l1 ++ a' :: l2) -> variance H x = [] /\ x <> Top /\ x <> Bottom) ->
  (forall x y, In x (l1 ++ a' :: l2) -> In y (l1 ++ a' :: l2) -> Anc H x y \/ Anc H y x) ->
  Anc H a' a ->
  length (l1 ++ a :: l2) + 3 <= fuel ->
  exists m m' vals s vals' s',
    run_cmds H fuel (chain_prog (l1 ++ a :: l2)) 0 [] (empty_store []) = (None, vals, s) /\
    follow s (last vals (V 0)) = O m [] /\
    run_cmds H fuel (chain_prog (l1 ++ a' :: l2)) 0 [] (empty_store []) = (None, vals', s') /\
    follow s' (last vals' (V 0)) = O m' [] /\
    Anc H m' m.
Proof.
  intros H W l1 l2 a a' fuel U C U' C' Ha Hf.
  exact (chain_mono_one H [] (cov_ctx_nil H) W l1 a a' l2 fuel (conj U C) (conj U' C') Ha Hf).
Qed.

Theorem mono_top_bottom_stmt : forall H, wf_hier H -> forall (args args' : list nat) (fuel : nat),
  args <> [] ->
  (forall a, In a args -> variance H a = []) ->
  (forall a b, In a args -> In b args ->
     (a = Bottom \/ b = Top \/ Anc H a b) \/ (b = Bottom \/ a = Top \/ Anc H b a)) ->
  (forall a, In a args' -> variance H a = []) ->
  (forall a b, In a args' -> In b args' ->
     (a = Bottom \/ b = Top \/ Anc H a b) \/ (b = Bottom \/ a = Top \/ Anc H b a)) ->
  Forall2 (fun x' x => x' = Bottom \/ x = Top \/ Anc H x' x) args' args ->
  length args + 3 <= fuel ->
  exists vals s vals' s',
    run_cmds H fuel (chain_prog args) 0 [] (empty_store []) = (None, vals, s) /\
    run_cmds H fuel (chain_prog args') 0 [] (empty_store []) = (None, vals', s') /\
    (follow s' (last vals' (V 0)) = V 0 \/
     exists m m', follow s (last vals (V 0)) = O m [] /\
                  follow s' (last vals' (V 0)) = O m' [] /\
                  (m' = Bottom \/ m = Top \/ Anc H m' m)).
Proof.
  intros H W args args' fuel Hne U C U' C' F Hf.
  exact (chain_mono_ext H [] (cov_ctx_nil H) W args args' fuel Hne (conj U C) (conj U' C') F Hf).
Qed.

(* covariant unary contexts F1(F2(..x..)) ** ... ** x applied to F1(F2(..a_i..)) *)
Theorem lub_ctx_stmt : forall H, wf_hier H -> forall (fs args : list nat) (m fuel : nat),
  (forall g, In g fs -> variance H g = [true]) ->
  (forall a, In a args -> variance H a = []) ->
  (forall a b, In a args -> In b args ->
     (a = Bottom \/ b = Top \/ Anc H a b) \/ (b = Bottom \/ a = Top \/ Anc H b a)) ->
  In m args -> (forall a, In a args -> a = Bottom \/ m = Top \/ Anc H a m) ->
  length fs + length args + 3 <= fuel ->
  exists vals s,
    run_cmds H fuel (chain_prog_c fs args) 0 [] (empty_store []) = (None, vals, s) /\
    follow s (last vals (V 0)) = if Nat.eqb m Bottom then V 0 else O m [].
Proof.
  intros H W fs args m fuel HC U C Hm Hub Hf.
  exact (chain_lub_ext H fs HC W args m fuel (conj U C) Hm Hub Hf).
Qed.

Theorem perm_ctx_stmt : forall H, wf_hier H -> forall (fs args args' : list nat) (fuel : nat),
  (forall g, In g fs -> variance H g = [true]) ->
  args <> [] ->
  (forall a, In a args -> variance H a = []) ->
  (forall a b, In a args -> In b args ->
     (a = Bottom \/ b = Top \/ Anc H a b) \/ (b = Bottom \/ a = Top \/ Anc H b a)) ->
  Permutation args args' ->
  length fs + length args + 3 <= fuel ->
  exists vals s vals' s',
    run_cmds H fuel (chain_prog_c fs args) 0 [] (empty_store []) = (None, vals, s) /\
    run_cmds H fuel (chain_prog_c fs args') 0 [] (empty_store []) = (None, vals', s') /\
    follow s (last vals (V 0)) = follow s' (last vals' (V 0)).
Proof.
  intros H W fs args args' fuel HC Hne U C P Hf.
  exact (chain_perm_ext H fs HC W args args' fuel Hne (conj U C) P Hf).
Qed.

Theorem mono_ctx_stmt : forall H, wf_hier H -> forall (fs args args' : list nat) (fuel : nat),
  (forall g, In g fs -> variance H g = [true]) ->
  args <> [] ->
  (forall a, In a args -> variance H a = []) ->
  (forall a b, In a args -> In b args ->
     (a = Bottom \/ b = Top \/ Anc H a b) \/ (b = Bottom \/ a = Top \/ Anc H b a)) ->
  (forall a, In a args' -> variance H a = []) ->
  (forall a b, In a args' -> In b args' ->
     (a = Bottom \/ b = Top \/ Anc H a b) \/ (b = Bottom \/ a = Top \/ Anc H b a)) ->
  Forall2 (fun x' x => x' = Bottom \/ x = Top \/ Anc H x' x) args' args ->
  length fs + length args + 3 <= fuel ->
  exists vals s vals' s',
    run_cmds H fuel (chain_prog_c fs args) 0 [] (empty_store []) = (None, vals, s) /\
    run_cmds H fuel (chain_prog_c fs args') 0 [] (empty_store []) = (None, vals', s') /\
    (follow s' (last vals' (V 0)) = V 0 \/
     exists m m', follow s (last vals (V 0)) = O m [] /\
                  follow s' (last vals' (V 0)) = O m' [] /\
                  (m' = Bottom \/ m = Top \/ Anc H m' m)).
Proof.
  intros H W fs args args' fuel HC Hne U C U' C' F Hf.
  exact (chain_mono_ext H fs HC W args args' fuel Hne (conj U C) (conj U' C') F Hf).
Qed.

(* contravariant reading: (x ** b) ** ... ** (x ** b) ** x applied to (a_i ** b) *)
Theorem glb_stmt : forall H, wf_hier H -> forall (b : nat) (args : list nat) (m fuel : nat),
  variance H b = [] ->
  (forall a, In a args -> variance H a = [] /\ a <> Top /\ a <> Bottom) ->
  (forall a b, In a args -> In b args -> Anc H a b \/ Anc H b a) ->
  In m args -> (forall a, In a args -> Anc H m a) ->
  length args + 4 <= fuel ->
  exists vals s,
    run_cmds H fuel (chain_prog_d b args) 0 [] (empty_store []) = (None, vals, s) /\
    follow s (last vals (V 0)) = V 0 /\
    cell_of s 0 = mkCell false None None (Some m) 0.
Proof.
  intros H W b args m fuel Vb U C Hm Hlb Hf.
  exact (chain_glb H W b args m fuel Vb (conj U C) Hm Hlb Hf).
Qed.

Theorem glb_fix_stmt : forall H, wf_hier H -> forall (b : nat) (args : list nat) (m fuel : nat),
  variance H b = [] ->
  (forall a, In a args -> variance H a = [] /\ a <> Top /\ a <> Bottom) ->
  (forall a b, In a args -> In b args -> Anc H a b \/ Anc H b a) ->
  In m args -> (forall a, In a args -> Anc H m a) ->
  length args + 4 <= fuel ->
  exists vals s,
    run_cmds H fuel (chain_prog_d b args ++ [CFix (2 * length args) false]) 0 []
             (empty_store []) = (None, vals, s) /\
    follow s (last vals (V 0)) = O m [].
Proof.
  intros H W b args m fuel Vb U C Hm Hlb Hf.
  exact (chain_glb_fix H W b args m fuel Vb (conj U C) Hm Hlb Hf).
Qed.

Theorem min_exists_stmt : forall H, wf_hier H -> forall (args : list nat),
  args <> [] ->
  (forall a, In a args -> variance H a = [] /\ a <> Top /\ a <> Bottom) ->
  (forall a b, In a args -> In b args -> Anc H a b \/ Anc H b a) ->
  exists m, In m args /\ forall a, In a args -> Anc H m a.
Proof. intros H W args Hne U C. exact (user_chain_min_exists H W args Hne (conj U C)). Qed.

Theorem glb_perm_stmt : forall H, wf_hier H -> forall (b : nat) (args args' : list nat) (fuel : nat),
  variance H b = [] -> args <> [] ->
  (forall a, In a args -> variance H a = [] /\ a <> Top /\ a <> Bottom) ->
  (forall a b, In a args -> In b args -> Anc H a b \/ Anc H b a) ->
  Permutation args args' ->
  length args + 4 <= fuel ->
  exists m vals s vals' s',
    In m args /\ (forall a, In a args -> Anc H m a) /\
    run_cmds H fuel (chain_prog_d b args) 0 [] (empty_store []) = (None, vals, s) /\
    follow s (last vals (V 0)) = V 0 /\
    cell_of s 0 = mkCell false None None (Some m) 0 /\
    run_cmds H fuel (chain_prog_d b args') 0 [] (empty_store []) = (None, vals', s') /\
    follow s' (last vals' (V 0)) = V 0 /\
    cell_of s' 0 = mkCell false None None (Some m) 0.
Proof.
  intros H W b args args' fuel Vb Hne U C P Hf.
  exact (chain_glb_perm H W b args args' fuel Vb Hne (conj U C) P Hf).
Qed.

(* Top is ignored, Bottom resolves the variable to Bottom at once *)
Theorem glb_top_bottom_stmt : forall H, wf_hier H ->
  forall (b : nat) (args : list nat) (m fuel : nat),
  variance H b = [] ->
  (forall a, In a args -> variance H a = []) ->
  (forall a b, In a args -> In b args ->
     (a = Bottom \/ b = Top \/ Anc H a b) \/ (b = Bottom \/ a = Top \/ Anc H b a)) ->
  In m args -> (forall a, In a args -> m = Bottom \/ a = Top \/ Anc H m a) ->
  length args + 4 <= fuel ->
  exists vals s,
    run_cmds H fuel (chain_prog_d b args) 0 [] (empty_store []) = (None, vals, s) /\
    if Nat.eqb m Top
    then follow s (last vals (V 0)) = V 0 /\ cell_of s 0 = mkCell false None None None 0
    else if Nat.eqb m Bottom
    then follow s (last vals (V 0)) = O Bottom []
    else follow s (last vals (V 0)) = V 0 /\ cell_of s 0 = mkCell false None None (Some m) 0.
Proof.
  intros H W b args m fuel Vb U C Hm Hlb Hf.
  exact (chain_glb_ext H W b args m fuel Vb (conj U C) Hm Hlb Hf).
Qed.
