(* C05 for mixed signatures (LubMixed.v) when the argument list may contain
   Bottom in covariant and Top in contravariant positions: such arguments are
   ignored by the engine, the run behaves exactly like the run on the list
   without them (indices of commands keep counting every argument).
   Top in covariant / Bottom in contravariant position bind the variable at
   once; their corner cases are documented by Examples in props/C05_mixed_tb.v. *)
From Coq Require Import List Arith Bool Lia Permutation.
Import ListNotations.
From TF Require Import Base.Hier Base.Ty Infer.Store Infer.Engine Infer.Run Infer.Lub
  Infer.LubCtx Infer.LubMixed.

(* an argument that the engine ignores in a position of polarity p *)
Definition ign (p : bool) (a : nat) : bool := if p then Nat.eqb a Bottom else Nat.eqb a Top.

Section TB.
  Variable H : hier.
  Hypothesis W : wf_hier H.

  Definition xstepT (st : xst) (p : bool) (a : nat) : option xst :=
    if ign p a then Some st else xstep H st p a.

  Fixpoint xrunT (st : xst) (l : list (bool * nat)) (j : nat) : xst + nat :=
    match l with
    | [] => inl st
    | (p, a) :: r => match xstepT st p a with Some st' => xrunT st' r (S j) | None => inr j end
    end.

  Definition okpairT (d : nat) (ca : octx * nat) : Prop :=
    cbound H d (fst ca) /\ (ign (pol H (fst ca)) (snd ca) = true \/ user H (snd ca)).

  Lemma xstepT_good st p a st' :
    xgood H st -> (ign p a = true \/ user H a) -> xstepT st p a = Some st' -> xgood H st'.
  Proof.
    intros G Ua. unfold xstepT. destruct (ign p a) eqn:Ei.
    - now intros [= <-].
    - destruct Ua as [Ua|Ua]; [discriminate|]. now apply (xstep_good H W).
  Qed.

  Lemma xstepT_engine f s v i st p a :
    InvX s v i st -> xgood H st -> (ign p a = true \/ user H a) ->
    match xstepT st p a with
    | Some st1 => exists s1,
        (if p then unify H (S (S (S (S f)))) true false false (O a []) (V v)
         else unify H (S (S (S (S f)))) true false false (V v) (O a [])) s
        = MOk tt s1 /\ InvX s1 v i st1
    | None => exists s1,
        (if p then unify H (S (S (S (S f)))) true false false (O a []) (V v)
         else unify H (S (S (S (S f)))) true false false (V v) (O a [])) s
        = MEr ESubtypeMismatch s1
    end.
  Proof.
    intros HInv G Ua. unfold xstepT. destruct (ign p a) eqn:Ei.
    - exists s. split; [|exact HInv]. unfold ign in Ei. destruct p; apply Nat.eqb_eq in Ei; subst a.
      + apply unify_bottom.
      + apply unify_top_r.
    - destruct Ua as [Ua|Ua]; [discriminate|].
      destruct p; [now apply (xstep_cov H W)|now apply (xstep_con H W)].
  Qed.

  Lemma run_mixed_steps_tb r d fuel v i :
    cbound H d r -> d + 4 <= fuel ->
    forall cas st vals s idx k j0,
      Forall (okpairT d) cas -> cas <> [] -> length vals = S k ->
      nth k vals (V 0) = fchain_m (map fst cas) r (V v) ->
      InvX s v i st -> xgood H st -> idx = 2 * j0 + 1 ->
      match xrunT st (pols H cas) j0 with
      | inl st' => exists vals' s',
          run_cmds H fuel (mixed_steps cas k) idx vals s = (None, vals', s') /\
          FinalX H r v i s' vals' st'
      | inr j => exists vals' s',
          run_cmds H fuel (mixed_steps cas k) idx vals s =
            (Some (ESubtypeMismatch, 2 * j + 2), vals', s')
      end.
  Proof.
    intros (Wr & Hr) Hf.
    induction cas as [|[c a] rest IH]; intros st vals s idx k j0 Hok Hne Hlen Hnth HInv HG Hidx;
      [congruence|].
    inversion Hok as [|? ? ((Wc & Hd) & Ua) Hok']; subst. cbn [fst snd] in Wc, Hd, Ua.
    unfold pols. cbn [map xrunT fst snd]. fold (pols H rest).
    assert (Hf4 : exists f, fuel - octx_depth c = S (S (S (S f))))
      by (exists (fuel - octx_depth c - 4); lia).
    destruct Hf4 as (f & Ef).
    cbn [mixed_steps]. cbn [map fst fchain_m] in Hnth.
    rewrite (run_step_eq H W fuel c a _ k _ vals s v (fchain_m (map fst rest) r (V v)) Wc)
      by (auto; lia).
    rewrite Ef.
    pose proof (xstepT_engine f s v i st (pol H c) a HInv HG Ua) as Step.
    destruct (xstepT st (pol H c) a) as [st1|] eqn:Ex.
    - destruct Step as (s1 & E1 & HInv1). rewrite E1.
      pose proof (xstepT_good _ _ _ _ HG Ua Ex) as HG1.
      destruct rest as [|[c' a'] rest'].
      + cbn [map fchain_m pols xrunT mixed_steps]. rewrite is_fun_tplug.
        unfold FinalX, final_bound.
        destruct (top_fun r) eqn:Etf; cbn [negb].
        * unfold ret. cbn [run_cmds]. do 2 eexists. split; [reflexivity|].
          rewrite last_last. destruct HInv1 as (Hv1 & Hcs1 & Hc1). split; [exact Hc1|].
          rewrite zonk_tplug. cbn [zonk]. f_equal. apply follow_oval. now rewrite Hc1.
        * rewrite (fix_octx_res H r Wr) by lia.
          assert (Hf3 : exists f', fuel - octx_depth r = S (S (S f')))
            by (exists (fuel - octx_depth r - 3); lia).
          destruct Hf3 as (f' & Ef'). rewrite Ef'.
          assert (Epl : hole_pl H r true = pol H r) by (unfold hole_pl; now destruct (pol H r)).
          rewrite Epl.
          destruct (fix_hole H W f' (pol H r) s1 v i st1 HInv1 HG1) as (s2 & E2 & Hv2 & Hcs2 & Hc2).
          rewrite E2. cbn [run_cmds]. do 2 eexists. split; [reflexivity|].
          rewrite last_last. split; [exact Hc2|].
          destruct r as [|o b r' a0].
          -- cbn [tplug]. apply zonk_oval. now rewrite Hc2.
          -- rewrite zonk_tplug. cbn [zonk]. f_equal. apply follow_oval. now rewrite Hc2.
      + cbn [map fst fchain_m is_fun negb Nat.eqb Function]. unfold ret.
        apply IH; auto; try discriminate; try lia.
        * rewrite !app_length. cbn [length]. lia.
        * rewrite app_nth2 by (rewrite app_length; cbn [length]; lia).
          rewrite app_length. cbn [length].
          replace (S (S k) - (length vals + 1)) with 0 by lia. reflexivity.
    - destruct Step as (s1 & E1). rewrite E1.
      do 2 eexists. f_equal. f_equal. f_equal. f_equal. lia.
  Qed.

  (* ------------------------------------------------------------------ *)
  (* the arguments that matter                                            *)

  Definition eff (l : list (bool * nat)) : list (bool * nat) :=
    filter (fun pa => negb (ign (fst pa) (snd pa))) l.
  Definition effC (cas : list (octx * nat)) : list (octx * nat) :=
    filter (fun ca => negb (ign (pol H (fst ca)) (snd ca))) cas.

  Lemma eff_pols cas : eff (pols H cas) = pols H (effC cas).
  Proof.
    induction cas as [|[c a] rest IH]; [reflexivity|].
    unfold eff, effC, pols in *. cbn [map filter fst snd].
    destruct (ign (pol H c) a); cbn [negb map fst snd]; now rewrite IH.
  Qed.

  Lemma eff_snoc pre p a :
    eff (pre ++ [(p, a)]) = if ign p a then eff pre else eff pre ++ [(p, a)].
  Proof.
    unfold eff. rewrite filter_app. cbn [filter fst snd].
    destruct (ign p a); cbn [negb]; [now rewrite app_nil_r|reflexivity].
  Qed.

  Lemma xrunT_spec : forall l pre st, Rep H (eff pre) st -> Chain H (eff (pre ++ l)) ->
    match xrunT st l (length pre) with
    | inl st' => Rep H (eff (pre ++ l)) st'
    | inr j => length pre <= j < length (pre ++ l) /\
               CrossOk H (eff (firstn j (pre ++ l))) /\
               ~ CrossOk H (eff (firstn (S j) (pre ++ l)))
    end.
  Proof.
    induction l as [|[p a] r IH]; intros pre st R C; cbn [xrunT].
    - now rewrite app_nil_r.
    - rewrite <- app_snoc in C.
      assert (C1 : Chain H (eff (pre ++ [(p, a)]))).
      { unfold eff in *. rewrite filter_app in C. now apply (Chain_app_l H) in C. }
      assert (Next : forall st', Rep H (eff (pre ++ [(p, a)])) st' ->
                match xrunT st' r (S (length pre)) with
                | inl st'0 => Rep H (eff (pre ++ (p, a) :: r)) st'0
                | inr j => length pre <= j < length (pre ++ (p, a) :: r) /\
                           CrossOk H (eff (firstn j (pre ++ (p, a) :: r))) /\
                           ~ CrossOk H (eff (firstn (S j) (pre ++ (p, a) :: r)))
                end).
      { intros st' Sp. specialize (IH (pre ++ [(p, a)]) st' Sp C).
        rewrite app_length in IH. cbn [length] in IH. rewrite Nat.add_1_r in IH.
        rewrite app_snoc in IH.
        destruct (xrunT st' r (S (length pre))) as [st2|j]; [exact IH|].
        destruct IH as (Hj & IH). split; [lia|exact IH]. }
      unfold xstepT. rewrite eff_snoc in C1. destruct (ign p a) eqn:Ei.
      + apply Next. now rewrite eff_snoc, Ei.
      + pose proof (xstep_spec H W (eff pre) st p a R C1) as Sp.
        destruct (xstep H st p a) as [st'|].
        * apply Next. now rewrite eff_snoc, Ei.
        * rewrite app_length. cbn [length]. split; [lia|]. split.
          -- replace (length pre) with (length pre + 0) by lia.
             rewrite firstn_app_2. cbn [firstn]. rewrite app_nil_r. eapply Rep_cross; eauto.
          -- replace (S (length pre)) with (length pre + 1) by lia.
             rewrite firstn_app_2. cbn [firstn]. now rewrite eff_snoc, Ei.
  Qed.

  (* ------------------------------------------------------------------ *)
  (* whole programs                                                       *)

  Definition okCT (d : nat) (cas : list (octx * nat)) : Prop :=
    forall c a, In (c, a) cas ->
      wf_octx H c /\ octx_depth c + octx_sib c <= d /\
      ((if pol H c then a = Bottom else a = Top) \/ user H a).

  Lemma okCT_Forall d cas : okCT d cas -> Forall (okpairT d) cas.
  Proof.
    intros Hok. apply Forall_forall. intros [c a] Hin. destruct (Hok c a Hin) as (Wc & Hd & Ua).
    split; [split; assumption|]. cbn [fst snd]. destruct Ua as [Ua|Ua]; [left|now right].
    unfold ign. destruct (pol H c); subst a; reflexivity.
  Qed.

  Lemma okCT_eff d cas : okCT d cas -> okC H d (effC cas).
  Proof.
    intros Hok c a Hin. unfold effC in Hin. apply filter_In in Hin. destruct Hin as (Hin & E).
    cbn [fst snd] in E. destruct (Hok c a Hin) as (Wc & Hd & Ua). split; [auto|split; auto].
    destruct Ua as [Ua|Ua]; auto. exfalso. unfold ign in E.
    destruct (pol H c); subst a; discriminate.
  Qed.

  Theorem mixed_run_spec_tb d cas r fuel :
    cbound H d r -> okCT d cas -> ChainC H (effC cas) -> cas <> [] ->
    d + length cas + 3 <= fuel ->
    (exists st vals s, Rep H (pols H (effC cas)) st /\
                       run_mixed H fuel cas r = (None, vals, s) /\ FinalX H r 0 0 s vals st) \/
    (exists j vals s, run_mixed H fuel cas r = (Some (ESubtypeMismatch, 2 * j + 2), vals, s) /\
                      j < length cas /\ CrossC H (effC (firstn j cas)) /\
                      ~ CrossC H (effC (firstn (S j) cas))).
  Proof.
    intros Hr Hok HC Hne Hf.
    assert (Hn : 1 <= length cas) by (destruct cas; [congruence|cbn [length]; lia]).
    assert (E : run_mixed H fuel cas r =
                run_cmds H fuel (mixed_steps cas 0) 1 [fchain_m (map fst cas) r (V 0)]
                         (fresh_store (empty_store []))).
    { unfold run_mixed, mixed_prog_p. cbn [run_cmds]. unfold run_cmd at 1. unfold bindM at 1.
      rewrite (instance_sig_m H W d); auto.
      - apply Forall_forall. intros c Hc. apply in_map_iff in Hc.
        destruct Hc as ([c0 a] & <- & Hca). destruct (Hok c0 a Hca) as (Wc & Hd & _).
        split; assumption.
      - rewrite map_length. lia. }
    pose proof (run_mixed_steps_tb r d fuel 0 0 Hr ltac:(lia) cas (XOpen None None)
                  [fchain_m (map fst cas) r (V 0)] (fresh_store (empty_store [])) 1 0 0
                  (okCT_Forall _ _ Hok) Hne eq_refl eq_refl (InvX_start) (xgood_start H)
                  eq_refl) as Cp.
    rewrite <- E in Cp.
    assert (R0 : Rep H (eff []) (XOpen None None)).
    { cbn. repeat split; auto; intros; discriminate. }
    assert (C0 : Chain H (eff ([] ++ pols H cas))).
    { cbn [app]. rewrite eff_pols. now apply Chain_pols. }
    pose proof (xrunT_spec (pols H cas) [] (XOpen None None) R0 C0) as Sp.
    cbn [app length] in Sp.
    destruct (xrunT (XOpen None None) (pols H cas) 0) as [st|j].
    - left. destruct Cp as (vals & s & E1 & F). exists st, vals, s.
      rewrite eff_pols in Sp. auto.
    - right. destruct Cp as (vals & s & E1). destruct Sp as (Hj & C1 & C2).
      exists j, vals, s. split; [exact E1|].
      unfold pols in Hj. rewrite map_length in Hj. split; [lia|].
      rewrite !pols_firstn, !eff_pols, !CrossOk_pols in *. auto.
  Qed.

  Lemma effC_firstn_in x j cas : In x (effC (firstn j cas)) -> In x (effC cas).
  Proof.
    unfold effC. rewrite !filter_In. intros (Hin & E). split; auto.
    eapply In_firstn_in; eauto.
  Qed.

  Lemma CrossC_eff_firstn_inv j cas : ~ CrossC H (effC (firstn j cas)) -> ~ CrossC H (effC cas).
  Proof.
    intros N CC. apply N. intros c a c' b Ha Hb. apply CC; eapply effC_firstn_in; eauto.
  Qed.

  Lemma effC_perm cas cas' : Permutation cas cas' -> Permutation (effC cas) (effC cas').
  Proof.
    unfold effC. induction 1 as [|x l l' P IH|x y l|l l' l'' P1 IH1 P2 IH2]; cbn [filter].
    - constructor.
    - destruct (negb _); [now constructor|exact IH].
    - destruct (negb (ign (pol H (fst x)) (snd x))), (negb (ign (pol H (fst y)) (snd y)));
        try apply Permutation_refl. apply perm_swap.
    - eapply Permutation_trans; eauto.
  Qed.

  Section StmtsTB.
  Variables (d : nat) (cas : list (octx * nat)) (r : octx) (fuel : nat).
  Hypothesis Hr : cbound H d r.
  Hypothesis Hok : okCT d cas.
  Hypothesis HC : ChainC H (effC cas).
  Hypothesis Hne : cas <> [].
  Hypothesis Hf : d + length cas + 3 <= fuel.

  Theorem mixed_iff_tb :
    (exists vals s, run_mixed H fuel cas r = (None, vals, s)) <-> CrossC H (effC cas).
  Proof.
    destruct (mixed_run_spec_tb d cas r fuel Hr Hok HC Hne Hf)
      as [(st & vals & s & R & E & F)|(j & vals & s & E & Hj & C1 & C2)].
    - split; [|eauto]. intros _. apply CrossOk_pols. eapply Rep_cross; eauto.
    - split.
      + intros (vals' & s' & E'). rewrite E in E'. discriminate.
      + intros CC. destruct (CrossC_eff_firstn_inv _ _ C2 CC).
  Qed.

  Theorem mixed_fail_tb :
    ~ CrossC H (effC cas) ->
    exists j vals s,
      run_mixed H fuel cas r = (Some (ESubtypeMismatch, 2 * j + 2), vals, s) /\
      j < length cas /\ CrossC H (effC (firstn j cas)) /\ ~ CrossC H (effC (firstn (S j) cas)).
  Proof.
    intros N.
    destruct (mixed_run_spec_tb d cas r fuel Hr Hok HC Hne Hf)
      as [(st & vals & s & R & E & F)|(j & vals & s & E & Hj & C1 & C2)].
    - destruct N. apply CrossOk_pols. eapply Rep_cross; eauto.
    - exists j, vals, s. auto.
  Qed.

  Theorem mixed_success_tb lo up :
    IsLoC H (effC cas) lo -> IsUpC H (effC cas) up ->
    (forall L U, lo = Some L -> up = Some U -> Anc H L U) ->
    exists vals s,
      run_mixed H fuel cas r = (None, vals, s) /\
      cell_of s 0 = mkCell false (obase (fbound H r lo up)) lo up 0 /\
      zonk s (last vals (V 0)) = tplug r (oval (fbound H r lo up) 0).
  Proof.
    intros HL HU Ord.
    assert (CC : CrossC H (effC cas)) by now apply (LU_cross H (effC cas) lo up HL HU).
    destruct (mixed_run_spec_tb d cas r fuel Hr Hok HC Hne Hf)
      as [(st & vals & s & R & E & (F1 & F2))|(j & vals & s & E & Hj & C1 & C2)].
    - exists vals, s. split; [exact E|].
      apply IsLo_pols in HL. apply IsUp_pols in HU.
      destruct (Rep_bounds H W _ _ _ _ R HL HU) as (E1 & E2 & E3).
      rewrite (final_fbound H r st lo up E1 E2 E3) in F1, F2. rewrite E1, E2 in F1. auto.
    - destruct (CrossC_eff_firstn_inv _ _ C2 CC).
  Qed.
  End StmtsTB.

  Theorem mixed_perm_tb d cas cas' r fuel :
    cbound H d r -> okCT d cas -> ChainC H (effC cas) -> cas <> [] ->
    d + length cas + 3 <= fuel -> Permutation cas cas' ->
    (exists vals s vals' s',
       run_mixed H fuel cas r = (None, vals, s) /\ run_mixed H fuel cas' r = (None, vals', s') /\
       cell_of s 0 = cell_of s' 0 /\
       zonk s (last vals (V 0)) = zonk s' (last vals' (V 0))) \/
    (exists j j' vals s vals' s',
       run_mixed H fuel cas r = (Some (ESubtypeMismatch, 2 * j + 2), vals, s) /\
       run_mixed H fuel cas' r = (Some (ESubtypeMismatch, 2 * j' + 2), vals', s')).
  Proof.
    intros Hr Hok HC Hne Hf P.
    assert (I : forall x, In x cas' -> In x cas).
    { intros x. apply Permutation_in. now apply Permutation_sym. }
    pose proof (effC_perm _ _ P) as PE.
    assert (IE : forall x, In x (effC cas') -> In x (effC cas)).
    { intros x. apply Permutation_in. now apply Permutation_sym. }
    assert (Hok' : okCT d cas') by (intros c a Hin; apply Hok; auto).
    assert (HC' : ChainC H (effC cas')).
    { destruct HC as (CU & CC). split.
      - intros c a Hin. eapply CU; eauto.
      - intros c a c' b Ha Hb. eapply CC; eauto. }
    assert (Hne' : cas' <> []) by (intros ->; apply Permutation_sym, Permutation_nil in P; auto).
    assert (Hf' : d + length cas' + 3 <= fuel) by now rewrite <- (Permutation_length P).
    assert (PP : Permutation (pols H (effC cas)) (pols H (effC cas'))) by now apply Permutation_map.
    assert (CP : CrossC H (effC cas) <-> CrossC H (effC cas')).
    { split; intros CC c a c' b Ha Hb; apply CC; auto; eapply Permutation_in; eauto. }
    destruct (mixed_run_spec_tb d cas r fuel Hr Hok HC Hne Hf)
      as [(st & vals & s & R & E & (F1 & F2))|(j & vals & s & E & Hj & C1 & C2)];
    destruct (mixed_run_spec_tb d cas' r fuel Hr Hok' HC' Hne' Hf')
      as [(st' & vals' & s' & R' & E' & (F1' & F2'))|(j' & vals' & s' & E' & Hj' & C1' & C2')].
    - left. exists vals, s, vals', s'.
      pose proof (Rep_unique H W _ _ _ (Rep_perm H _ _ _ PP R) R') as <-.
      repeat split; auto; congruence.
    - exfalso. apply (CrossC_eff_firstn_inv _ _ C2'). apply CP.
      apply CrossOk_pols. eapply Rep_cross; eauto.
    - exfalso. apply (CrossC_eff_firstn_inv _ _ C2). apply CP.
      apply CrossOk_pols. eapply Rep_cross; eauto.
    - right. exists j, j', vals, s, vals', s'. auto.
  Qed.
End TB.

(* ---------------------------------------------------------------------- *)
(* spelled-out statements exported by props/C05_mixed_tb.v                  *)

Theorem mixed_iff_tb_stmt : forall H, wf_hier H ->
  forall (cas : list (octx * nat)) (r : octx) (d fuel : nat),
  wf_octx H r -> octx_depth r + octx_sib r <= d ->
  (forall c a, In (c, a) cas ->
     wf_octx H c /\ octx_depth c + octx_sib c <= d /\
     ((if pol H c then a = Bottom else a = Top) \/
      (variance H a = [] /\ a <> Top /\ a <> Bottom))) ->
  (forall c a c' b, In (c, a) (effC H cas) -> In (c', b) (effC H cas) ->
     Anc H a b \/ Anc H b a) ->
  cas <> [] ->
  d + length cas + 3 <= fuel ->
  ((exists vals s,
      run_cmds H fuel (mixed_prog_p cas r) 0 [] (empty_store []) = (None, vals, s)) <->
   (forall c a c' b, In (c, a) (effC H cas) -> In (c', b) (effC H cas) ->
      pol H c = true -> pol H c' = false -> Anc H a b)).
Proof.
  intros H W cas r d fuel Wr Hr Hok CC Hne Hf.
  exact (mixed_iff_tb H W d cas r fuel (conj Wr Hr) Hok
           (okC_ChainC H d _ (okCT_eff H d cas Hok) CC) Hne Hf).
Qed.

Theorem mixed_fail_tb_stmt : forall H, wf_hier H ->
  forall (cas : list (octx * nat)) (r : octx) (d fuel : nat),
  wf_octx H r -> octx_depth r + octx_sib r <= d ->
  (forall c a, In (c, a) cas ->
     wf_octx H c /\ octx_depth c + octx_sib c <= d /\
     ((if pol H c then a = Bottom else a = Top) \/
      (variance H a = [] /\ a <> Top /\ a <> Bottom))) ->
  (forall c a c' b, In (c, a) (effC H cas) -> In (c', b) (effC H cas) ->
     Anc H a b \/ Anc H b a) ->
  cas <> [] ->
  d + length cas + 3 <= fuel ->
  ~ (forall c a c' b, In (c, a) (effC H cas) -> In (c', b) (effC H cas) ->
       pol H c = true -> pol H c' = false -> Anc H a b) ->
  exists j vals s,
    run_cmds H fuel (mixed_prog_p cas r) 0 [] (empty_store [])
      = (Some (ESubtypeMismatch, 2 * j + 2), vals, s) /\
    j < length cas /\
    (forall c a c' b, In (c, a) (effC H (firstn j cas)) -> In (c', b) (effC H (firstn j cas)) ->
       pol H c = true -> pol H c' = false -> Anc H a b) /\
    ~ (forall c a c' b, In (c, a) (effC H (firstn (S j) cas)) ->
         In (c', b) (effC H (firstn (S j) cas)) ->
         pol H c = true -> pol H c' = false -> Anc H a b).
Proof.
  intros H W cas r d fuel Wr Hr Hok CC Hne Hf N.
  exact (mixed_fail_tb H W d cas r fuel (conj Wr Hr) Hok
           (okC_ChainC H d _ (okCT_eff H d cas Hok) CC) Hne Hf N).
Qed.

Theorem mixed_success_tb_stmt : forall H, wf_hier H ->
  forall (cas : list (octx * nat)) (r : octx) (d fuel : nat) (lo up : option nat),
  wf_octx H r -> octx_depth r + octx_sib r <= d ->
  (forall c a, In (c, a) cas ->
     wf_octx H c /\ octx_depth c + octx_sib c <= d /\
     ((if pol H c then a = Bottom else a = Top) \/
      (variance H a = [] /\ a <> Top /\ a <> Bottom))) ->
  (forall c a c' b, In (c, a) (effC H cas) -> In (c', b) (effC H cas) ->
     Anc H a b \/ Anc H b a) ->
  cas <> [] ->
  match lo with
  | Some L => (exists c, In (c, L) (effC H cas) /\ pol H c = true) /\
              (forall c a, In (c, a) (effC H cas) -> pol H c = true -> Anc H a L)
  | None => forall c a, In (c, a) (effC H cas) -> pol H c = false
  end ->
  match up with
  | Some U => (exists c, In (c, U) (effC H cas) /\ pol H c = false) /\
              (forall c a, In (c, a) (effC H cas) -> pol H c = false -> Anc H U a)
  | None => forall c a, In (c, a) (effC H cas) -> pol H c = true
  end ->
  (forall L U, lo = Some L -> up = Some U -> Anc H L U) ->
  d + length cas + 3 <= fuel ->
  exists vals s,
    run_cmds H fuel (mixed_prog_p cas r) 0 [] (empty_store []) = (None, vals, s) /\
    let fb := if top_fun r
              then match lo, up with
                   | Some l, Some u => if Nat.eqb l u then Some l else None
                   | _, _ => None
                   end
              else if pol H r then lo else up in
    cell_of s 0 = mkCell false (match fb with Some m => Some (O m []) | None => None end) lo up 0 /\
    zonk s (last vals (V 0)) = tplug r (match fb with Some m => O m [] | None => V 0 end).
Proof.
  intros H W cas r d fuel lo up Wr Hr Hok CC Hne HL HU Ord Hf.
  exact (mixed_success_tb H W d cas r fuel (conj Wr Hr) Hok
           (okC_ChainC H d _ (okCT_eff H d cas Hok) CC) Hne Hf lo up HL HU Ord).
Qed.

Theorem mixed_perm_tb_stmt : forall H, wf_hier H ->
  forall (cas cas' : list (octx * nat)) (r : octx) (d fuel : nat),
  wf_octx H r -> octx_depth r + octx_sib r <= d ->
  (forall c a, In (c, a) cas ->
     wf_octx H c /\ octx_depth c + octx_sib c <= d /\
     ((if pol H c then a = Bottom else a = Top) \/
      (variance H a = [] /\ a <> Top /\ a <> Bottom))) ->
  (forall c a c' b, In (c, a) (effC H cas) -> In (c', b) (effC H cas) ->
     Anc H a b \/ Anc H b a) ->
  cas <> [] ->
  d + length cas + 3 <= fuel ->
  Permutation cas cas' ->
  (exists vals s vals' s',
     run_cmds H fuel (mixed_prog_p cas r) 0 [] (empty_store []) = (None, vals, s) /\
     run_cmds H fuel (mixed_prog_p cas' r) 0 [] (empty_store []) = (None, vals', s') /\
     cell_of s 0 = cell_of s' 0 /\
     zonk s (last vals (V 0)) = zonk s' (last vals' (V 0))) \/
  (exists j j' vals s vals' s',
     run_cmds H fuel (mixed_prog_p cas r) 0 [] (empty_store [])
       = (Some (ESubtypeMismatch, 2 * j + 2), vals, s) /\
     run_cmds H fuel (mixed_prog_p cas' r) 0 [] (empty_store [])
       = (Some (ESubtypeMismatch, 2 * j' + 2), vals', s')).
Proof.
  intros H W cas cas' r d fuel Wr Hr Hok CC Hne Hf P.
  exact (mixed_perm_tb H W d cas cas' r fuel (conj Wr Hr) Hok
           (okC_ChainC H d _ (okCT_eff H d cas Hok) CC) Hne Hf P).
Qed.

Theorem effC_stmt : forall H (cas : list (octx * nat)) c a,
  In (c, a) (effC H cas) <->
  In (c, a) cas /\ (if pol H c then a <> Bottom else a <> Top).
Proof.
  intros H cas c a. unfold effC. rewrite filter_In. cbn [fst snd]. unfold ign.
  destruct (pol H c).
  - destruct (Nat.eqb_spec a Bottom); cbn [negb]; intuition (congruence || discriminate).
  - destruct (Nat.eqb_spec a Top); cbn [negb]; intuition (congruence || discriminate).
Qed.
