(* C03 (elimination constraints over base alternatives), part K: the constraint
   invariant.  Generalises the invariant [K] of Infer/SoundSub.v to stores that
   carry pure subtype constraints AND elimination constraints over user base
   operators, and proves it preserved by the whole engine: one induction on
   fuel over unify / bind / above / below / fix_ty / check_constraints /
   fulfill in the program logic [ok] of Infer/Inv.v.  Unlike in SoundSub.v a
   re-check round is no longer read-only (fulfilling an elimination constraint
   with one alternative left runs below(ref, alt), which may start further
   rounds), so every specification is stated for an arbitrary set [pend] of
   constraints that are still waiting for their re-check in an enclosing round.

   [cst D s pend c k], the state of constraint number c (object k):
     shape   subtype: one base target;  elimination: the alternatives are user
             base operators, all among the DECLARED ones [nth c D []];
     with r the resolution of the reference through the bindings
     r = O o args (resolved):   [okres]: subtype: the constraint holds;
             elimination: fulfilled, or the current alternatives are non-empty
             and ALL above o (what the filter of fulfill leaves)
             - or c is not fulfilled and in [pend];
     r = V u (unresolved), not fulfilled: c is ATTACHED to the constraint set
             of u;  fulfilled: (subtype) target Top, not strict. *)
From Coq Require Import List Arith Bool Lia Permutation.
Import ListNotations.
From TF Require Import Base.Hier Base.Ty Sub.SubSpec Infer.Store Infer.Engine Infer.Run
  Infer.Witness Infer.Check Infer.Sched Infer.Inv Infer.Sound Infer.SchedIndep Infer.SoundSub
  Infer.SoundElimS.
From TF Require Infer.Lub Infer.FitsEngineList.

Unset Implicit Arguments.

Section KE.
Variable H : hier.
Hypothesis W : wf_hier H.
Local Notation inv := (invb true).
Local Notation gd := (FL.good H).
Local Notation ob := FL.ob.
Local Notation obs := FL.obs.
Local Notation mins_of := (FL.mins_of H).
Local Notation ole := (Lub.ole H).
Implicit Types pend : nat -> Prop.

(* o fits the alternative m *)
Definition holdE (o m : nat) : Prop := o = Bottom \/ (basic H o = true /\ ole o m).

Definition shp (D : list (list nat)) (c : nat) (k : constr) : Prop :=
  if k_elim k then exists l, Forall gd l /\ k_alts k = obs l /\ incl l (nth c D [])
  else exists a, k_alts k = [O a []] /\ basic H a = true.

Definition okres (k : constr) (o : nat) : Prop :=
  if k_elim k then k_done k = true \/ (k_alts k <> [] /\ forall m, In (ob m) (k_alts k) -> holdE o m)
  else exists a, k_alts k = [O a []] /\ hold H o a (k_strict k).

Definition okvar (k : constr) : Prop :=
  if k_elim k then True else exists a, k_alts k = [O a []] /\ a = Top /\ k_strict k = false.

Definition rcl (s : store) (pend : nat -> Prop) (c : nat) (k : constr) (r : tyv) : Prop :=
  match r with
  | O o args => okres k o \/ (k_done k = false /\ pend c)
  | V u => if k_done k then okvar k else In c (cset_of s (c_cs (cell_of s u)))
  end.

Definition cst (D : list (list nat)) (s : store) (pend : nat -> Prop) (c : nat) (k : constr) : Prop :=
  shp D c k /\ forall r, rsv s (k_ref k) r -> rcl s pend c k r.

Definition Kp (D : list (list nat)) (pend : nat -> Prop) (s : store) : Prop :=
  forall c, c < length (constrs s) -> cst D s pend c (constr_of s c).

Definition none : nat -> Prop := fun _ => False.
Definition minus (pend : nat -> Prop) (c : nat) : nat -> Prop := fun x => pend x /\ x <> c.
Definition plus (pend : nat -> Prop) (l : list nat) : nat -> Prop := fun x => pend x \/ In x l.

Lemma okvar_okres k o : k_done k = true -> okvar k -> okres k o.
Proof.
  unfold okvar, okres. destruct (k_elim k); [auto|].
  intros _ (a & Ea & -> & Es). exists Top. split; [exact Ea|]. split; [right; left; reflexivity|].
  rewrite Es. discriminate.
Qed.

(* ---- transfer between stores that agree on what cst reads ---- *)
Lemma cst_transfer D s s' pend pend' c k :
  (forall y, c_bound (cell_of s' y) = c_bound (cell_of s y)) ->
  (forall u, rsv s (k_ref k) (V u) -> k_done k = false ->
     In c (cset_of s (c_cs (cell_of s u))) -> In c (cset_of s' (c_cs (cell_of s' u)))) ->
  (pend c -> pend' c) ->
  cst D s pend c k -> cst D s' pend' c k.
Proof.
  intros Eb Ec Ep (Sh & Hr). split; [exact Sh|]. intros r R.
  assert (R0 : rsv s (k_ref k) r).
  { eapply rsv_bound_eq; [|exact R]. intros v. symmetry. apply Eb. }
  specialize (Hr r R0). destruct r as [u|o args]; cbn [rcl] in *.
  - destruct (k_done k) eqn:Ed; [exact Hr|]. apply Ec; auto.
  - destruct Hr as [Hh|(Ed & Hp)]; [left; exact Hh|right; auto].
Qed.

Lemma Kp_mono D pend pend' s : (forall c, pend c -> pend' c) -> Kp D pend s -> Kp D pend' s.
Proof.
  intros M Kk c Lc. eapply cst_transfer; [| |apply M|apply Kk; exact Lc]; auto.
Qed.

(* the unresolved reference of a constraint is a variable in range *)
Lemma rsv_ref_range s c u : inv s -> c < length (constrs s) ->
  rsv s (k_ref (constr_of s c)) (V u) -> u < length (vars s).
Proof.
  intros I Lc R0.
  assert (Ts : tsc (length (vars s)) (V u)).
  { eapply (rsv_tsc s); [apply (proj2 I eq_refl)|reflexivity|exact R0|].
    pose proof (sc_constr (proj2 I eq_refl) Lc) as F. inversion F; assumption. }
  inversion Ts; assumption.
Qed.

Lemma Kp_eq D pend s s' : inv s ->
  (forall y, c_bound (cell_of s' y) = c_bound (cell_of s y)) ->
  length (constrs s') = length (constrs s) ->
  (forall c, c < length (constrs s) -> constr_of s' c = constr_of s c) ->
  (forall u, u < length (vars s) -> c_bound (cell_of s u) = None ->
     incl (cset_of s (c_cs (cell_of s u))) (cset_of s' (c_cs (cell_of s' u)))) ->
  Kp D pend s -> Kp D pend s'.
Proof.
  intros I Eb El Ek Ec Kk c Lc. rewrite El in Lc. rewrite (Ek c Lc).
  eapply cst_transfer; [exact Eb| |intros X; exact X|apply Kk; exact Lc].
  intros u R0 _ Hin. apply Ec; [eapply rsv_ref_range; eauto|apply (rsv_nb _ _ _ R0)|exact Hin].
Qed.

(* stores that differ only in the constraint objects *)
Lemma Kp_set_constr D pend s c k' :
  Kp D pend s -> cst D (set_constr s c k') pend c k' -> Kp D pend (set_constr s c k').
Proof.
  intros Kk Ck c' Lc'. unfold set_constr in Lc'. cbn [constrs] in Lc'. rewrite upd_length in Lc'.
  destruct (constr_of_set_constr s c k' c') as [(E & -> & L)|E]; rewrite E; [exact Ck|].
  eapply cst_transfer; [| |intros X; exact X|apply Kk; exact Lc']; auto.
Qed.

(* ---- binding an unbound variable ---- *)
Lemma Kp_rebind D pend pend' s s2 v t rt : inv s -> Kp D pend s ->
  c_bound (cell_of s v) = None -> c_bound (cell_of s2 v) = Some t ->
  (forall y, y <> v -> c_bound (cell_of s2 y) = c_bound (cell_of s y)) ->
  rsv s2 t rt ->
  length (constrs s2) = length (constrs s) ->
  (forall c, c < length (constrs s) -> constr_of s2 c = constr_of s c) ->
  (forall u, u < length (vars s) -> u <> v -> c_bound (cell_of s u) = None ->
     incl (cset_of s (c_cs (cell_of s u))) (cset_of s2 (c_cs (cell_of s2 u)))) ->
  (forall c, pend c -> pend' c) ->
  match rt with
  | V w => incl (cset_of s (c_cs (cell_of s v))) (cset_of s2 (c_cs (cell_of s2 w)))
  | O _ _ => forall c, In c (cset_of s (c_cs (cell_of s v))) -> pend' c
  end ->
  Kp D pend' s2.
Proof.
  intros I Kk Hv Ht Ho Rt El Ek Ec Mp Ev c Lc. rewrite El in Lc. rewrite (Ek c Lc).
  destruct (Kk c Lc) as (Sh & Hr). split; [exact Sh|]. intros r R2.
  destruct (rsv_total s (k_ref (constr_of s c)) (proj1 I)) as (r0 & R0).
  pose proof (rsv_rebind s s2 v t rt Hv Ht Ho Rt _ _ R0) as R2'.
  rewrite (rsv_det _ _ _ R2 _ R2'). clear R2 R2' r.
  specialize (Hr r0 R0). destruct r0 as [u|o args]; cbn [sw].
  - pose proof (rsv_ref_range s c u I Lc R0) as Lu. cbn [rcl] in Hr.
    destruct (Nat.eqb u v) eqn:E.
    + apply Nat.eqb_eq in E. subst u. destruct rt as [w|o args]; cbn [rcl].
      * destruct (k_done (constr_of s c)); [exact Hr|]. apply Ev. exact Hr.
      * destruct (k_done (constr_of s c)) eqn:Ed.
        -- left. apply okvar_okres; auto.
        -- right. split; [reflexivity|]. apply Ev. exact Hr.
    + apply Nat.eqb_neq in E. cbn [rcl]. destruct (k_done (constr_of s c)); [exact Hr|].
      apply Ec; auto. apply (rsv_nb _ _ _ R0).
  - cbn [rcl] in *. destruct Hr as [Hh|(Ed & Hp)]; [left; exact Hh|right; auto].
Qed.

Lemma Kp_set_cell D pend s v c' : inv s ->
  c_bound c' = c_bound (cell_of s v) -> c_cs c' = c_cs (cell_of s v) ->
  Kp D pend s -> Kp D pend (set_cell s v c').
Proof.
  intros I Gb Gc. apply Kp_eq; auto.
  - intros y. destruct (cell_of_set_cell s v c' y) as [(E & -> & L)|E]; rewrite E; auto.
  - intros u _ _. change (cset_of (set_cell s v c')) with (cset_of s).
    destruct (cell_of_set_cell s v c' u) as [(E & -> & L)|E]; rewrite E; [rewrite Gc|];
      apply incl_refl.
Qed.

Lemma Kp_set_cell_bound D pend s v c' : inv s ->
  c_bound c' = c_bound (cell_of s v) -> c_bound (cell_of s v) <> None ->
  Kp D pend s -> Kp D pend (set_cell s v c').
Proof.
  intros I Gb Nb. apply Kp_eq; auto.
  - intros y. destruct (cell_of_set_cell s v c' y) as [(E & -> & L)|E]; rewrite E; auto.
  - intros u _ Hu. change (cset_of (set_cell s v c')) with (cset_of s).
    rewrite cell_of_set_cell_other by (intros ->; congruence). apply incl_refl.
Qed.

(* removing a fulfilled constraint from a constraint set *)
Lemma Kp_remove D pend s i x : k_done (constr_of s x) = true -> Kp D pend s ->
  Kp D pend (set_cset s i (remove_nat x (cset_of s i))).
Proof.
  intros Dx Kk c Lc. change (constr_of (set_cset s i (remove_nat x (cset_of s i))) c) with (constr_of s c).
  eapply cst_transfer; [| |intros X; exact X|apply Kk; exact Lc]; auto.
  intros u _ Ed Hin. change (cell_of (set_cset s i (remove_nat x (cset_of s i))) u) with (cell_of s u).
  destruct (cset_of_set_cset s i (remove_nat x (cset_of s i)) (c_cs (cell_of s u))) as [(E & Ej & _)|E]; rewrite E; [|exact Hin].
  apply In_remove_nat. split; [rewrite <- Ej; exact Hin|]. intros ->. congruence.
Qed.

Lemma Kp_sched D pend s r : Kp D pend s -> Kp D pend (mkStore (vars s) (csets s) (constrs s) r).
Proof.
  intros Kk c Lc. change (constr_of (mkStore (vars s) (csets s) (constrs s) r) c) with (constr_of s c).
  eapply cst_transfer; [| |intros X; exact X|apply Kk; exact Lc]; auto.
Qed.


(* ================================================================== *)
(* the invariant is preserved by the engine                             *)
(* ================================================================== *)
Definition KQ (D : list (list nat)) pend {A} : A -> store -> Prop := fun _ s => Kp D pend s.

#[local] Hint Resolve not_crash_EFuel not_crash_sub not_crash_ty not_crash_rec not_crash_cv
  not_crash_fun : core.

Ltac done_ret := apply ok_ret; unfold KQ; auto using ext_refl.
Ltac done_fail := apply ok_fail; auto using ext_refl.
Ltac useK X := eapply ok_conseq;
  [apply ok_use; [first [eassumption|apply ext_refl]|apply X; auto]
  |cbv beta; unfold KQ; intros ? ? ? ? (? & ?); auto].
Ltac break_if := repeat match goal with |- context[if ?c then _ else _] => destruct c eqn:? end.

Definition spec_unifyK f := forall D pend a b0 s, inv s -> Kp D pend s -> sct true s a -> sct true s b0 ->
  ok true s (unify H f true false false a b0) (KQ D pend) s.
Definition spec_bindK f := forall D pend v t s, inv s -> Kp D pend s ->
  c_bound (cell_of s v) = None -> nb s t -> scv true s v -> sct true s t -> noccb true s v t ->
  ok true s (bind H f v t) (KQ D pend) s.
Definition spec_aboveK f := forall D pend v new s, inv s -> Kp D pend s ->
  (new = Top -> c_bound (cell_of s v) = None) -> scv true s v -> ok true s (above H f v new) (KQ D pend) s.
Definition spec_belowK f := forall D pend v new s, inv s -> Kp D pend s ->
  (new = Bottom -> c_bound (cell_of s v) = None) -> scv true s v -> ok true s (below H f v new) (KQ D pend) s.
Definition spec_fixK f := forall D pend pl t s, inv s -> Kp D pend s -> sct true s t ->
  ok true s (fix_ty H f pl t) (fun r s' => Kp D pend s' /\ nb s' r /\ sct true s' r) s.
Definition spec_ccK f := forall D pend v s, inv s ->
  Kp D (plus pend (cset_of s (c_cs (cell_of s v)))) s ->
  ok true s (check_constraints H f v) (KQ D pend) s.
Definition spec_fulfillK f := forall D pend c s, inv s -> Kp D pend s -> c < length (constrs s) ->
  ok true s (fulfill H f c)
     (fun b s' => Kp D (minus pend c) s' /\ (b = true -> k_done (constr_of s' c) = true)) s.

Definition specsK f :=
  spec_unifyK f /\ spec_bindK f /\ spec_aboveK f /\ spec_belowK f /\ spec_fixK f /\
  spec_ccK f /\ spec_fulfillK f.

Lemma specsK_0 : specsK 0.
Proof.
  unfold specsK, spec_unifyK, spec_bindK, spec_aboveK, spec_belowK, spec_fixK, spec_ccK, spec_fulfillK.
  repeat apply conj; intros; apply ok_fail; auto using ext_refl.
Qed.

Lemma Kp_plus D pend l s : Kp D pend s -> Kp D (plus pend l) s.
Proof. apply Kp_mono. intros c Hc. left. exact Hc. Qed.

(* ---- fix_ty ---- *)
Lemma fixK_step f : spec_bindK f -> spec_fixK f -> spec_fixK (S f).
Proof.
  intros B Fx D pend pl t s I Kk St. rewrite fix_ty_S. apply ok_gets.
  pose proof (follow_unbound t I) as N. pose proof (follow_sct I St) as Sa.
  destruct (follow s t) as [v|o args] eqn:Ef.
  - eapply ok_bind with (Q1 := KQ D pend).
    + apply ok_gets. destruct pl.
      * destruct (c_lower (cell_of s v)); [apply B; cbn; auto using sct_V, sct_O0, noccb_O0|done_ret].
      * destruct (c_upper (cell_of s v)); [apply B; cbn; auto using sct_V, sct_O0, noccb_O0|done_ret].
    + intros u s1 I1 E1 K1. apply ok_gets_end; auto. split; [exact K1|split].
      * apply (follow_unbound _ I1).
      * apply follow_sct; auto. eapply sct_ext; eauto.
  - eapply ok_bind with (Q1 := KQ D pend).
    + apply sct_args in Sa. clear Ef N St.
      assert (G : forall vs s1, inv s1 -> Kp D pend s1 -> ext s s1 ->
                ok true s1 ((fix go (vs : list bool) (ps : list tyv) : M unit :=
                   match vs, ps with
                   | v :: vs', p :: ps' =>
                       Engine.fix_ty H f (if v then pl else negb pl) p ;;; go vs' ps'
                   | _, _ => ret tt
                   end) vs args) (KQ D pend) s1); [|apply G; auto using ext_refl].
      induction args as [|p ps IHp]; intros vs s1 I1 K1 E1; destruct vs as [|b' vs]; try done_ret.
      inversion Sa; subst.
      eapply ok_bind with (Q1 := KQ D pend).
      { eapply ok_conseq; [apply (Fx D pend); auto; eapply sct_ext; eauto|].
        cbv beta. unfold KQ. intros ? ? ? ? (? & ?). auto. }
      intros r s2 I2 E2 K2.
      useK IHp. eapply ext_trans; eauto.
    + intros u s1 I1 E1 K1. apply ok_gets_end; auto. split; [exact K1|split; [exact Logic.I|]].
      apply follow_sct; auto. eapply sct_ext; eauto.
Qed.

(* ---- above / below ---- *)
Lemma aboveK_step f : spec_unifyK f -> spec_bindK f -> spec_ccK f -> spec_aboveK (S f).
Proof.
  intros U B CC D pend v new s I Kk P Sv. rewrite above_S. destruct (Nat.eqb new Top) eqn:Et.
  - apply Nat.eqb_eq in Et. apply B; cbn; auto using sct_O0, noccb_O0.
  - apply Nat.eqb_neq in Et. unfold set_wild.
    apply ok_upd_cell; auto using ext_refl; cbn [c_lower c_upper]; try apply (inv_lo I); try apply (inv_up I).
    intros s1 Es1 I1 E1 _.
    assert (K1 : Kp D pend s1) by (subst s1; apply Kp_set_cell; auto).
    apply ok_gets.
    destruct (c_bound (cell_of s1 v)) as [t|] eqn:Eb; [useK (U D pend); eauto using sct_O0, sct_of_bound|].
    assert (SL : ok true s (set_lower v (Some new);;; Engine.check_constraints H f v) (KQ D pend) s1).
    { unfold set_lower. apply ok_upd_cell; auto; cbn [c_lower c_upper]; try apply (inv_up I1); try congruence.
      intros s2 Es2 I2 E2 _. useK (CC D pend). apply Kp_plus. subst s2. apply Kp_set_cell; auto. }
    eapply ok_bind with (Q1 := KQ D pend).
    + destruct (c_upper (cell_of s1 v)), (c_lower (cell_of s1 v)); break_if;
        try exact SL; try done_ret; try done_fail.
    + intros u s2 I2 E2 K2. apply ok_gets.
      destruct (c_bound (cell_of s2 v)) eqn:Eb2; try done_ret.
      destruct (c_lower (cell_of s2 v)); try done_ret.
      destruct (c_upper (cell_of s2 v)); try done_ret.
      break_if; try done_ret. useK (B D pend); cbn; eauto using sct_O0, scv_ext, noccb_O0.
Qed.

Lemma belowK_step f : spec_unifyK f -> spec_bindK f -> spec_ccK f -> spec_belowK (S f).
Proof.
  intros U B CC D pend v new s I Kk P Sv. rewrite below_S. destruct (Nat.eqb new Bottom) eqn:Et.
  - apply Nat.eqb_eq in Et. apply B; cbn; auto using sct_O0, noccb_O0.
  - apply Nat.eqb_neq in Et. unfold set_wild.
    apply ok_upd_cell; auto using ext_refl; cbn [c_lower c_upper]; try apply (inv_lo I); try apply (inv_up I).
    intros s1 Es1 I1 E1 _.
    assert (K1 : Kp D pend s1) by (subst s1; apply Kp_set_cell; auto).
    apply ok_gets.
    destruct (c_bound (cell_of s1 v)) as [t|] eqn:Eb; [useK (U D pend); eauto using sct_O0, sct_of_bound|].
    assert (SL : ok true s (set_upper v (Some new);;; Engine.check_constraints H f v) (KQ D pend) s1).
    { unfold set_upper. apply ok_upd_cell; auto; cbn [c_lower c_upper]; try apply (inv_lo I1); try congruence.
      intros s2 Es2 I2 E2 _. useK (CC D pend). apply Kp_plus. subst s2. apply Kp_set_cell; auto. }
    eapply ok_bind with (Q1 := KQ D pend).
    + destruct (c_upper (cell_of s1 v)), (c_lower (cell_of s1 v)); break_if;
        try exact SL; try done_ret; try done_fail.
    + intros u s2 I2 E2 K2. apply ok_gets.
      destruct (c_bound (cell_of s2 v)) eqn:Eb2; try done_ret.
      destruct (c_upper (cell_of s2 v)); try done_ret.
      destruct (c_lower (cell_of s2 v)); try done_ret.
      break_if; try done_ret. useK (B D pend); cbn; eauto using sct_O0, scv_ext, noccb_O0.
Qed.


Lemma ccK_use f D pend v s0 s : spec_ccK f -> inv s -> ext s0 s ->
  Kp D (plus pend (cset_of s (c_cs (cell_of s v)))) s ->
  ok true s0 (check_constraints H f v) (KQ D pend) s.
Proof.
  intros CC I E Kk. eapply ok_conseq; [apply ok_use; [exact E|apply (CC D pend); auto]|].
  cbv beta. unfold KQ. intros ? ? ? ? (? & ?). auto.
Qed.

(* ---- bind ---- *)
Lemma bindK_step f : spec_aboveK f -> spec_belowK f -> spec_ccK f -> spec_bindK (S f).
Proof.
  intros Ab Be CC D pend v t s I Kk Hv Nt Sv St No. rewrite bind_S. apply ok_gets. rewrite Hv.
  unfold set_wild at 1.
  apply ok_upd_cell; auto using ext_refl; cbn [c_lower c_upper]; try apply (inv_lo I); try apply (inv_up I).
  intros s1 Es1 I1 E1 _.
  assert (K1 : Kp D pend s1) by (subst s1; apply Kp_set_cell; auto).
  assert (B1 : forall w, c_bound (cell_of s1 w) = c_bound (cell_of s w)).
  { subst s1. apply bound_set_cell_same. reflexivity. }
  assert (Hv1 : c_bound (cell_of s1 v) = None) by (rewrite B1; exact Hv).
  assert (Nt1 : nb s1 t) by (eapply nb_bound_eq; [exact B1|exact Nt]).
  assert (Sv1 : scv true s1 v) by (eapply scv_ext; eauto).
  assert (St1 : sct true s1 t) by (eapply sct_ext; eauto).
  assert (No1 : t <> V v -> nocc s1 v t).
  { intros Ne. destruct (No eq_refl) as [->|N]; [congruence|].
    eapply nocc_bound_eq; [exact B1|exact N]. }
  assert (Lv1 : v < length (vars s1)) by (apply Sv1; reflexivity).
  clear Es1.
  assert (SB : forall wld, let s2 := set_cell s1 v (mkCell wld (Some t) (c_lower (cell_of s1 v))
                                  (c_upper (cell_of s1 v)) (c_cs (cell_of s1 v))) in
               t <> V v -> inv s2 /\ ext s1 s2).
  { intros wld s2 Ne. split.
    - apply inv_set_cell; auto; cbn [c_lower c_upper c_bound c_cs]; try apply (inv_lo I1); try apply (inv_up I1).
      + right. split; auto. exists t. split; [reflexivity|split; [exact Nt1|split; [exact Ne|auto]]].
      + intros t' Ht'. inversion Ht'; subst. exact St1.
      + intros Bt L. apply (sc_cs (proj2 I1 Bt)). exact L.
    - apply ext_set_cell. intros t'. rewrite Hv1. discriminate. }
  assert (C2 : forall wld, let s2 := set_cell s1 v (mkCell wld (Some t) (c_lower (cell_of s1 v))
                                  (c_upper (cell_of s1 v)) (c_cs (cell_of s1 v))) in
               c_bound (cell_of s2 v) = Some t /\ c_cs (cell_of s2 v) = c_cs (cell_of s1 v) /\
               forall y, y <> v -> cell_of s2 y = cell_of s1 y).
  { intros wld s2. unfold s2. rewrite cell_of_set_cell_same by exact Lv1. cbn [c_bound c_cs].
    split; [reflexivity|split; [reflexivity|]]. intros y Ny. apply cell_of_set_cell_other. exact Ny. }
  destruct t as [w|o args].
  - destruct (Nat.eqb v w) eqn:Evw; [done_ret|]. apply Nat.eqb_neq in Evw.
    unfold set_bound, upd_cell. apply ok_modify.
    match goal with |- ok _ _ _ _ ?s' => set (s2 := s') end.
    destruct (SB (c_wild (cell_of s1 v))) as (I2 & E12); [congruence|]. fold s2 in I2, E12.
    destruct (C2 (c_wild (cell_of s1 v))) as (Cb2 & Cc2 & Co2). fold s2 in Cb2, Cc2, Co2.
    assert (E2 : ext s s2) by (eapply ext_trans; eauto).
    assert (Lw1 : w < length (vars s1)) by (apply (sct_V St1); reflexivity).
    assert (Ek2 : constrs s2 = constrs s1) by reflexivity.
    assert (Ec2 : forall j, cset_of s2 j = cset_of s1 j) by reflexivity.
    assert (Lc2 : length (csets s2) = length (csets s1)) by reflexivity.
    clearbody s2.
    apply ok_modify.
    match goal with |- ok _ _ _ _ ?s' => set (s3 := s') end.
    assert (I3 : inv s3).
    { apply inv_set_cset; auto. apply Forall_union; apply (inv_cs_Forall _ I2). }
    assert (E3 : ext s s3) by (eapply ext_trans; [exact E2|apply ext_set_cset]).
    assert (Liw : c_cs (cell_of s1 w) < length (csets s1)) by (apply (sc_cs (proj2 I1 eq_refl)); exact Lw1).
    assert (K3 : Kp D pend s3).
    { apply (Kp_rebind D pend pend s1 s3 v (V w) (V w) I1 K1 Hv1 Cb2).
      - intros y Ny. change (cell_of s3 y) with (cell_of s2 y). rewrite (Co2 y Ny). reflexivity.
      - constructor. change (cell_of s3 w) with (cell_of s2 w). rewrite Co2 by congruence. exact Nt1.
      - change (constrs s3) with (constrs s2). rewrite Ek2. reflexivity.
      - intros c _. change (constr_of s3 c) with (constr_of s2 c). unfold constr_of. rewrite Ek2. reflexivity.
      - intros u _ Nu _. change (cell_of s3 u) with (cell_of s2 u). rewrite (Co2 u Nu).
        rewrite <- Ec2. unfold s3. apply cset_set_cset_incl. intros x Hx. apply In_union. right. exact Hx.
      - auto.
      - change (cell_of s3 w) with (cell_of s2 w). rewrite Co2 by congruence.
        unfold s3. rewrite Cc2. rewrite (Co2 w) by congruence.
        rewrite cset_set_cset_same by (rewrite Lc2; exact Liw).
        rewrite !Ec2. intros x Hx. apply In_union. left. exact Hx. }
    assert (Cb3 : forall y, cell_of s3 y = cell_of s2 y) by reflexivity.
    clearbody s3.
    assert (Sw3 : scv true s3 w) by (apply sct_V; eapply sct_ext; eauto).
    apply ok_gets.
    apply ok_set_cs'; auto. { apply (sc_cs (proj2 I3 eq_refl)). apply Sw3. reflexivity. }
    intros s4 Es4 I4 E4 _. unfold set_wild.
    assert (K4 : Kp D pend s4).
    { subst s4. apply Kp_set_cell_bound; auto. rewrite Cb3, Cb2. discriminate. }
    apply ok_upd_cell; auto; cbn [c_lower c_upper]; try apply (inv_lo I4); try apply (inv_up I4).
    intros s5 Es5 I5 E5 _.
    assert (K5 : Kp D pend s5) by (subst s5; apply Kp_set_cell; auto).
    assert (Sw5 : scv true s5 w) by (apply sct_V; eapply sct_ext; eauto).
    eapply ok_bind with (Q1 := KQ D pend).
    { destruct (c_lower (cell_of s v)) as [l|] eqn:El; [|done_ret].
      useK (Ab D pend). intros ->. exfalso. eapply (inv_lo I); eauto. }
    intros u s6 I6 E6 K6.
    eapply ok_bind with (Q1 := KQ D pend).
    { destruct (c_upper (cell_of s v)) as [l|] eqn:El; [|done_ret].
      useK (Be D pend). intros ->. exfalso. eapply (inv_up I); eauto.
      apply sct_V; eapply sct_ext; eauto. }
    intros u' s7 I7 E7 K7. apply ccK_use; auto. apply Kp_plus. exact K7.
  - unfold set_bound, upd_cell. apply ok_modify.
    match goal with |- ok _ _ _ _ ?s' => set (s2 := s') end.
    destruct (SB (c_wild (cell_of s1 v))) as (I2 & E12); [discriminate|]. fold s2 in I2, E12.
    destruct (C2 (c_wild (cell_of s1 v))) as (Cb2 & Cc2 & Co2). fold s2 in Cb2, Cc2, Co2.
    assert (E2 : ext s s2) by (eapply ext_trans; eauto).
    assert (Ek2 : constrs s2 = constrs s1) by reflexivity.
    assert (Ec2 : forall j, cset_of s2 j = cset_of s1 j) by reflexivity.
    assert (Lc2 : length (csets s2) = length (csets s1)) by reflexivity.
    assert (Lv2 : length (vars s2) = length (vars s1)) by (unfold s2; cbn; apply upd_length).
    clearbody s2.
    eapply ok_bind with (Q1 := fun _ s3 => Kp D (plus pend (cset_of s3 (c_cs (cell_of s3 v)))) s3);
      [|intros u s3 I3 E3 K3; apply ccK_use; auto].
    destruct (Engine.basic H o).
    + assert (K2 : Kp D (plus pend (cset_of s2 (c_cs (cell_of s2 v)))) s2).
      { apply (Kp_rebind D pend _ s1 s2 v (O o args) (O o args) I1 K1 Hv1 Cb2).
        - intros y Ny. rewrite (Co2 y Ny). reflexivity.
        - constructor.
        - rewrite Ek2. reflexivity.
        - intros c _. unfold constr_of. rewrite Ek2. reflexivity.
        - intros u _ Nu _. rewrite (Co2 u Nu). rewrite Ec2. apply incl_refl.
        - intros c Hc. left. exact Hc.
        - intros c Hc. right. rewrite Cc2, Ec2. exact Hc. }
      break_if; try done_fail; apply ok_ret; auto.
    + match goal with |- context[if ?c then _ else _] => destruct c end; [done_fail|].
      apply ok_lift; auto; [intros e; apply vars_f_err|]. intros vs Hvs.
      apply ok_modify.
      match goal with |- ok _ _ _ _ ?s' => set (s3 := s') end.
      assert (I3 : inv s3).
      { apply inv_set_cset; auto. apply Forall_fold_union with (g := fun w => cset_of s2 (c_cs (cell_of s2 w)));
          intros; apply (inv_cs_Forall _ I2). }
      assert (E3 : ext s s3) by (eapply ext_trans; [exact E2|apply ext_set_cset]).
      assert (Li : c_cs (cell_of s3 v) < length (csets s3)).
      { apply (sc_cs (proj2 I3 eq_refl)). eapply scv_ext; eauto. }
      set (iv := c_cs (cell_of s2 v)) in *.
      assert (Liv : iv < length (csets s2)).
      { apply (sc_cs (proj2 I2 eq_refl)). rewrite Lv2. exact Lv1. }
      assert (C3 : cset_of s3 iv = fold_right (fun w acc => union (cset_of s2 (c_cs (cell_of s2 w))) acc)
                                              (cset_of s2 iv) vs).
      { unfold s3. apply cset_set_cset_same. exact Liv. }
      assert (K3 : Kp D (plus pend (cset_of s3 iv)) s3).
      { apply (Kp_rebind D pend _ s1 s3 v (O o args) (O o args) I1 K1 Hv1 Cb2).
        - intros y Ny. change (cell_of s3 y) with (cell_of s2 y). rewrite (Co2 y Ny). reflexivity.
        - constructor.
        - change (constrs s3) with (constrs s2). rewrite Ek2. reflexivity.
        - intros c _. change (constr_of s3 c) with (constr_of s2 c). unfold constr_of. rewrite Ek2. reflexivity.
        - intros u _ Nu _. change (cell_of s3 u) with (cell_of s2 u). rewrite (Co2 u Nu). rewrite <- Ec2.
          unfold s3. apply cset_set_cset_incl. intros x Hx. apply In_fold_union. left. exact Hx.
        - intros c Hc. left. exact Hc.
        - intros x Hx. right. rewrite C3. apply In_fold_union. left. rewrite Cc2, Ec2. exact Hx. }
      assert (Mg : forall w, In w vs -> incl (cset_of s3 (c_cs (cell_of s3 w))) (cset_of s3 iv)).
      { intros w Hw. change (cell_of s3 w) with (cell_of s2 w). rewrite C3. intros x Hx.
        apply In_fold_union.
        destruct (cset_of_set_cset s2 iv
                    (fold_right (fun w acc => union (cset_of s2 (c_cs (cell_of s2 w))) acc) (cset_of s2 iv) vs)
                    (c_cs (cell_of s2 w))) as [(E0 & E1' & _)|E0]; unfold s3 in Hx; rewrite E0 in Hx.
        - apply In_fold_union in Hx. exact Hx.
        - right. exists w. auto. }
      assert (Cv3 : c_cs (cell_of s3 v) = iv) by reflexivity.
      clearbody s3.
      apply ok_gets. rewrite Cv3.
      eapply ok_conseq;
        [apply ok_forM with (J := fun s4 => ext s3 s4 /\ Kp D (plus pend (cset_of s3 iv)) s4 /\
              (forall j, cset_of s4 j = cset_of s3 j) /\ c_cs (cell_of s4 v) = iv /\
              (forall y, c_cs (cell_of s4 y) = c_cs (cell_of s3 y) \/ c_cs (cell_of s4 y) = iv));
           auto using ext_refl|].
      * split; [apply ext_refl|split; [exact K3|split; [reflexivity|split; [exact Cv3|auto]]]].
      * intros w s4 Hw I4 E4 (E34 & K4 & C4 & Cv4 & Cy4).
        apply ok_set_cs_end'; auto.
        { pose proof (ext_csets E34). rewrite Cv3 in Li. lia. }
        intros s5 Es5 I5 E5 E45. split; [eapply ext_trans; eauto|]. subst s5.
        split; [|split; [|split]].
        -- apply Kp_eq with (s := s4); auto.
           ++ intros y. apply bound_set_cell_same. reflexivity.
           ++ intros u Lu Hu. change (cset_of (set_cell s4 w (cs_cell s4 w iv))) with (cset_of s4).
              destruct (cell_of_set_cell s4 w (cs_cell s4 w iv) u) as [(E0 & -> & L)|E0]; rewrite E0;
                [|apply incl_refl].
              cbn [cs_cell c_cs]. rewrite !C4. destruct (Cy4 w) as [E1'|E1']; rewrite E1'.
              ** apply Mg. exact Hw.
              ** apply incl_refl.
        -- intros j. change (cset_of (set_cell s4 w (cs_cell s4 w iv)) j) with (cset_of s4 j). apply C4.
        -- destruct (cell_of_set_cell s4 w (cs_cell s4 w iv) v) as [(E0 & _)|E0]; rewrite E0; auto.
        -- intros y. destruct (cell_of_set_cell s4 w (cs_cell s4 w iv) y) as [(E0 & _)|E0]; rewrite E0; auto.
      * cbv beta. intros _ s4 _ _ (_ & K4 & C4 & Cv4 & _). rewrite Cv4, C4. exact K4.
Qed.

(* ---- unify (subtype mode, no skip flags) ---- *)
Lemma unifyK_step f :
  spec_unifyK f -> spec_bindK f -> spec_aboveK f -> spec_belowK f -> spec_unifyK (S f).
Proof.
  intros U B Ab Be D pend a0 b0 s I Kk Sa0 Sb0. rewrite unify_S. apply ok_gets. apply ok_gets.
  pose proof (follow_unbound a0 I) as Na. pose proof (follow_unbound b0 I) as Nb.
  pose proof (follow_sct I Sa0) as Sa. pose proof (follow_sct I Sb0) as Sb.
  destruct (follow s a0) as [va|oa xs]; destruct (follow s b0) as [vb|ob ys].
  - apply ok_gets. apply ok_gets. cbn [negb orb]. apply B; auto using sct_V, noccb_var.
  - destruct (Nat.eqb ob Top); [done_ret|].
    apply ok_lift; auto using ext_refl; [intros e; apply occurs_f_err|]. intros oc Hoc.
    destruct oc; [done_fail|].
    assert (No : noccb true s va (O ob ys)).
    { intros _. right. eapply occurs_false_nocc; eauto. apply I. }
    destruct (Engine.basic H ob).
    + apply ok_gets. cbn [orb andb]. apply Be; auto using sct_V; intros ->; exact Na.
    + cbn [orb]. apply B; auto using sct_V.
  - destruct (Nat.eqb oa Bottom); [done_ret|].
    apply ok_lift; auto using ext_refl; [intros e; apply occurs_f_err|]. intros oc Hoc.
    destruct oc; [done_fail|].
    assert (No : noccb true s vb (O oa xs)).
    { intros _. right. eapply occurs_false_nocc; eauto. apply I. }
    destruct (Engine.basic H oa).
    + apply ok_gets. cbn [orb andb]. apply Ab; auto using sct_V; intros ->; exact Nb.
    + cbn [orb]. apply B; auto using sct_V.
  - break_if; try done_ret; try done_fail.
    apply sct_args in Sa. apply sct_args in Sb.
    clear Na Nb Sa0 Sb0.
    assert (G : forall vs ys s1, inv s1 -> Kp D pend s1 -> ext s s1 -> Forall (sct true s) ys ->
              ok true s1 ((fix go (vs : list bool) (xs ys : list tyv) : M unit :=
                 match vs, xs, ys with
                 | v :: vs', x :: xs', y :: ys' =>
                     (if v then Engine.unify H f true false false x y else Engine.unify H f true false false y x) ;;;
                     go vs' xs' ys'
                 | _, _, _ => ret tt
                 end) vs xs ys) (KQ D pend) s1); [|apply G; auto using ext_refl].
    induction xs as [|x xs IHx]; intros vs ys' s1 I1 K1 E1 Sy; destruct vs as [|b' vs]; try done_ret;
      destruct ys' as [|y ys']; try done_ret.
    inversion Sa; subst. inversion Sy; subst.
    eapply ok_bind with (Q1 := KQ D pend).
    + destruct b'; apply U; auto; eapply sct_ext; eauto.
    + intros u s2 I2 E2 K2. useK IHx. eapply ext_trans; eauto.
Qed.


(* ---- check_constraints ---- *)
Lemma Kp_eqv D pend s s1 : vars s1 = vars s -> csets s1 = csets s -> constrs s1 = constrs s ->
  Kp D pend s -> Kp D pend s1.
Proof.
  intros Ev Ec Ek Kk c Lc. rewrite Ek in Lc.
  assert (Ecell : forall y, cell_of s1 y = cell_of s y) by (intros y; unfold cell_of; rewrite Ev; reflexivity).
  unfold constr_of at 1. rewrite Ek. fold (constr_of s c).
  eapply cst_transfer; [| |intros X; exact X|apply Kk; exact Lc].
  - intros y. rewrite Ecell. reflexivity.
  - intros u _ _ Hin. rewrite Ecell. unfold cset_of. rewrite Ec. exact Hin.
Qed.

Lemma loopK f D pend v s0 : spec_fulfillK f -> forall l s, inv s -> ext s0 s ->
  Forall (fun c => c < length (constrs s)) l -> Kp D (plus pend l) s ->
  ok true s0 (forM l (fun c =>
      done <- fulfill H f c ;;
      if done then modify (fun s => let i := c_cs (cell_of s v) in set_cset s i (remove_nat c (cset_of s i)))
      else ret tt)) (KQ D pend) s.
Proof.
  intros F. induction l as [|x l IH]; intros s I E Fl Kk; cbn [forM].
  - apply ok_ret; auto. unfold KQ. eapply Kp_mono; [|exact Kk]. intros c [Hc|[]]. exact Hc.
  - inversion Fl as [|? ? Lx Fl']; subst.
    eapply ok_bind with (Q1 := fun _ s2 => Kp D (plus pend l) s2 /\ ext s s2).
    + eapply ok_bind.
      * apply ok_use; [exact E|apply (F D (plus pend (x :: l)) x s I Kk Lx)].
      * intros d s1 I1 E1 ((K1 & Dn) & E01).
        assert (K1' : Kp D (plus pend l) s1).
        { eapply Kp_mono; [|exact K1]. intros c ([Hc|[<-|Hc]] & Ne); [left; auto|congruence|right; auto]. }
        destruct d.
        -- apply ok_modify_end.
           ++ apply inv_set_cset; auto. apply Forall_remove_nat. apply (inv_cs_Forall _ I1).
           ++ eapply ext_trans; [exact E1|apply ext_set_cset].
           ++ split; [apply Kp_remove; auto|eapply ext_trans; [exact E01|apply ext_set_cset]].
        -- apply ok_ret; auto.
    + intros u s2 I2 E2 (K2 & E02). apply IH; auto.
      eapply Forall_impl; [|exact Fl']. intros c Lc. pose proof (ext_constrs E02). cbv beta in Lc. lia.
Qed.

Lemma ccK_step f : spec_fulfillK f -> spec_ccK (S f).
Proof.
  intros F D pend v s I Kk. rewrite check_constraints_S. apply ok_gets.
  set (pending := cset_of s (c_cs (cell_of s v))) in *.
  assert (FP : Forall (fun c => c < length (constrs s)) pending) by (apply (inv_cs_Forall _ I)).
  eapply ok_bind with (Q1 := fun order s1 => Forall (fun c => c < length (constrs s1)) order /\
                                             Kp D (plus pend order) s1).
  - destruct (2 <=? length pending) eqn:E2.
    + apply ok_next_choice; auto using ext_refl. intros r s1 I1 E1 _ Hv Hcs Hc.
      apply ok_ret; auto. split.
      * apply Forall_permute. rewrite Hc. exact FP.
      * apply (Kp_eqv D _ s s1 Hv Hcs Hc). eapply Kp_mono; [|exact Kk].
        intros c [Hp|Hin]; [left; exact Hp|right].
        eapply Permutation_in; [apply Permutation_sym; apply permute_perm; lia|exact Hin].
    + apply ok_ret; auto using ext_refl.
  - intros order s1 I1 E1 (FO & K1). apply loopK; auto.
Qed.


(* ---- fulfill ---- *)
Lemma In_obs m l : In (ob m) (obs l) <-> In m l.
Proof.
  unfold FL.obs. rewrite in_map_iff. split.
  - intros (x & E & Hx). injection E as <-. exact Hx.
  - intros Hm. exists m. auto.
Qed.

Lemma nb_rsv s t : nb s t -> rsv s t t.
Proof. destruct t as [v|o args]; cbn; intros N; constructor; exact N. Qed.

Lemma Kp_upd D pend s c k' : Kp D pend s -> c < length (constrs s) ->
  cst D (set_constr s c k') (minus pend c) c k' -> Kp D (minus pend c) (set_constr s c k').
Proof.
  intros Kk Lc Ck c' Lc'. unfold set_constr in Lc'. cbn [constrs] in Lc'. rewrite upd_length in Lc'.
  destruct (Nat.eq_dec c' c) as [->|Nc].
  - rewrite constr_of_set_constr_same by exact Lc. exact Ck.
  - assert (E : constr_of (set_constr s c k') c' = constr_of s c').
    { unfold constr_of, set_constr. cbn [constrs]. apply nth_upd_other. exact Nc. }
    rewrite E. eapply cst_transfer; [| | |apply Kk; exact Lc']; auto.
    intros Hp. split; auto.
Qed.

Lemma Kp_minus_self D pend s c : Kp D pend s -> c < length (constrs s) ->
  cst D s (minus pend c) c (constr_of s c) -> Kp D (minus pend c) s.
Proof.
  intros Kk Lc Ck c' Lc'. destruct (Nat.eq_dec c' c) as [->|Nc]; [exact Ck|].
  eapply cst_transfer; [| | |apply Kk; exact Lc']; auto. intros Hp. split; auto.
Qed.

Lemma fulfillK_step f : spec_unifyK f -> spec_fulfillK (S f).
Proof.
  intros U D pend c s I Kk Lc.
  eapply ok_conseq; [apply ok_and; [apply (@fulfill_ok H true (S f) c s I Lc)|]|].
  2:{ cbv beta. intros b s' _ _ (_ & X). exact X. }
  intros b s' E.
  destruct (Kk c Lc) as (Sh & Hr).
  set (k := constr_of s c) in *.
  destruct (rsv_total s (k_ref k) (proj1 I)) as (r0 & R0).
  pose proof (rsv_follow _ _ _ R0) as Ef.
  assert (Rr : forall s'', (forall y, c_bound (cell_of s'' y) = c_bound (cell_of s y)) ->
             forall t r, rsv s t r0 -> rsv s'' t r -> r = r0).
  { intros s'' Eb t r Rt R. assert (R' : rsv s t r).
    { eapply rsv_bound_eq; [|exact R]. intros y. symmetry. apply Eb. }
    eapply rsv_det; eauto. }
  assert (R00 : rsv s r0 r0) by (apply nb_rsv; apply (rsv_nb _ _ _ R0)).
  destruct (k_elim k) eqn:Ee.
  - (* elimination constraint *)
    unfold shp in Sh. rewrite Ee in Sh. destruct Sh as (l & Gl & Ea & Il).
    destruct (k_done k) eqn:Ed.
    + rewrite FL.fulfill_S' in E. unfold bindM at 1 in E. unfold gets at 1 in E. fold k in E. rewrite Ee, Ed in E.
      inversion E; subst. split; [|intros _; exact Ed].
      apply Kp_minus_self; auto. fold k. split; [unfold shp; rewrite Ee; eauto|].
      intros r R. pose proof (Hr r R) as X.
      destruct r; cbn [rcl] in *; [exact X|]. left. unfold okres. rewrite Ee. left. exact Ed.
    + destruct (fulfill_elim_form H f c s l b s' Ee Ed Gl Ea Lc E) as ((g & ->) & Cases).
      fold k in Cases. rewrite Ef in Cases.
      set (s1 := set_constr s c (set_alts k r0 (obs (mins_of l)) false)) in *.
      set (l2 := filter (keep H (S (S g)) s1 r0) (mins_of l)) in *.
      assert (Gl2 : Forall gd l2 /\ incl l2 (nth c D [])).
      { split.
        - apply incl_Forall with (l1 := mins_of l); [|apply FL.mins_of_good; exact Gl].
          intros x Hx. apply filter_In in Hx. apply Hx.
        - intros x Hx. apply Il. apply (FL.mins_of_in H). apply filter_In in Hx. apply Hx. }
      destruct Cases as [(m1 & m2 & rest & El2 & -> & ->)|(m & u & El2 & Eu & Eb)].
      * split; [|discriminate]. apply Kp_upd; auto. split.
        -- unfold shp. cbn [set_alts k_elim k_alts]. exists l2. split; [apply Gl2|split; [reflexivity|apply Gl2]].
        -- intros r R. cbn [set_alts k_ref] in R.
           rewrite (Rr _ (fun y => eq_refl) r0 r R00 R). clear R r.
           destruct r0 as [x|o args]; cbn [rcl set_alts k_done].
           ++ pose proof (Hr _ R0) as X. cbn [rcl] in X. rewrite Ed in X. exact X.
           ++ left. unfold okres. cbn [set_alts k_elim k_done k_alts]. right. split.
              ** rewrite El2. discriminate.
              ** intros m Hm. apply In_obs in Hm. unfold l2 in Hm. apply filter_In in Hm. destruct Hm as (Hm & Hk).
                 pose proof (FL.mins_of_good H l Gl) as Gs. rewrite Forall_forall in Gs.
                 apply (keep_resolved H W (S g) s1 (O o args) o args m (Gs m Hm) (follow_O _ _ _) Hk).
      * assert (Hm : In m l2) by (rewrite El2; left; reflexivity).
        set (s3 := set_constr s c (set_alts k r0 [ob m] true)) in *.
        assert (K3 : Kp D (minus pend c) s3).
        { apply Kp_upd; auto. split.
          - unfold shp. cbn [set_alts k_elim k_alts]. exists [m]. destruct Gl2 as (G2 & I2). rewrite Forall_forall in G2.
            split; [constructor; [apply G2; exact Hm|constructor]|split; [reflexivity|]].
            intros x [<-|[]]. apply I2. exact Hm.
          - intros r R. cbn [set_alts k_ref] in R.
            rewrite (Rr _ (fun y => eq_refl) r0 r R00 R). clear R r.
            destruct r0 as [x|o args]; cbn [rcl set_alts k_done].
            + unfold okvar. cbn [set_alts k_elim]. exact Logic.I.
            + left. unfold okres. cbn [set_alts k_elim k_done]. left. reflexivity. }
        assert (Sr0 : sct true s r0).
        { rewrite <- Ef. apply follow_sct; auto.
          pose proof (scts_of_constr I Lc) as F. inversion F; assumption. }
        assert (I3 : inv s3).
        { apply inv_set_constr; auto; [cbn; discriminate|].
          unfold constr_terms. cbn [set_alts k_ref k_alts]. constructor; [exact Sr0|constructor; [apply sct_O0|constructor]]. }
        pose proof (U D (minus pend c) r0 (ob m) s3 I3 K3 Sr0 (sct_O0 _ _ _)) as O3. unfold ok in O3.
        rewrite Eu in O3. destruct O3 as (I' & E' & K'). split; [exact K'|].
        intros X. rewrite <- Eb. exact X.
  - (* subtype constraint *)
    unfold shp in Sh. rewrite Ee in Sh. destruct Sh as (a & Ea & Ba).
    assert (Pk : pureK H k).
    { split; [exact Ee|]. intros t Et. rewrite Ea in Et. inversion Et; subst. eauto. }
    rewrite (fulfill_pure H (S f) c s Pk) in E. fold k in E.
    destruct (pfc H (S f) s k) eqn:Ep; [discriminate| |]; inversion E; subst; clear E.
    + split; [|intros _; unfold markd; rewrite constr_of_set_constr_same by exact Lc; reflexivity].
      unfold markd. apply Kp_upd; auto. fold k. split.
      * unfold shp. cbn [done_of k_elim k_alts]. eauto.
      * intros r R. cbn [done_of k_ref] in R.
        rewrite (Rr _ (fun y => eq_refl) (k_ref k) r R0 R). clear R r.
        destruct r0 as [x|o args]; cbn [rcl done_of k_done].
        -- unfold okvar. cbn [done_of k_elim k_alts k_strict]. exists a. split; [exact Ea|].
           eapply (pfc_done_var H W); eauto.
        -- left. unfold okres. cbn [done_of k_elim k_alts k_strict]. exists a. split; [exact Ea|].
           eapply (pfc_hold H W); eauto. intros e. rewrite Ep. discriminate.
    + split; [|intros X; exact X].
      apply Kp_minus_self; auto. fold k. split; [unfold shp; rewrite Ee; eauto|].
      intros r R. rewrite (rsv_det _ _ _ R _ R0). pose proof (Hr _ R0) as X.
      destruct r0 as [x|o args]; cbn [rcl] in *; [exact X|]. left.
      unfold okres. rewrite Ee. exists a. split; [exact Ea|].
      eapply (pfc_hold H W); eauto. intros e. rewrite Ep. discriminate.
Qed.

Theorem specsK_all : forall f, specsK f.
Proof.
  induction f as [|f (U & B & Ab & Be & Fx & CC & Fu)]; [apply specsK_0|].
  unfold specsK. repeat apply conj.
  - apply unifyK_step; auto.
  - apply bindK_step; auto.
  - apply aboveK_step; auto.
  - apply belowK_step; auto.
  - apply fixK_step; auto.
  - apply ccK_step; auto.
  - apply fulfillK_step; auto.
Qed.

Lemma unifyK f : spec_unifyK f. Proof. apply specsK_all. Qed.
Lemma bindK f : spec_bindK f. Proof. apply specsK_all. Qed.
Lemma fixK f : spec_fixK f. Proof. apply specsK_all. Qed.
Lemma fulfillK f : spec_fulfillK f. Proof. apply specsK_all. Qed.

End KE.
