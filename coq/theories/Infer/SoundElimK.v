(* C03 (elimination constraints over base alternatives), part K: the constraint
   invariant.  Generalises the invariant [K] of Infer/SoundSub.v to stores that
   carry pure subtype constraints AND elimination constraints over user base
   operators, and proves it preserved by the whole engine: one induction on
   fuel over unify / bind / above / below / fix_ty / check_constraints /
   fulfill in the program logic [ok] of Infer/Inv.v.  Unlike in SoundSub.v a
   re-check round is no longer read-only (fulfilling an elimination constraint
   with one alternative left runs below(ref, alt), which may start further
   rounds), so every specification is stated for an arbitrary set [pend] of
   constraints that are still waiting for their re-check in an enclosing round.

   [cst D s pend c k], the state of constraint number c (object k):
     shape   subtype: one base target;  elimination: the alternatives are user
             base operators, all among the DECLARED ones [nth c D []];
     with r the resolution of the reference through the bindings
     r = O o args (resolved):   [okres]: subtype: the constraint holds;
             elimination: fulfilled, or the current alternatives are non-empty
             and ALL above o (what the filter of fulfill leaves)
             - or c is not fulfilled and in [pend];
     r = V u (unresolved), not fulfilled: c is ATTACHED to the constraint set
             of u;  fulfilled: (subtype) target Top, not strict. *)
From Coq Require Import List Arith Bool Lia Permutation.
Import ListNotations.
From TF Require Import Base.Hier Base.Ty Sub.SubSpec Infer.Store Infer.Engine Infer.Run
  Infer.Witness Infer.Check Infer.Sched Infer.Inv Infer.Sound Infer.SchedIndep Infer.SoundSub
  Infer.SoundElimS.
From TF Require Infer.Lub Infer.FitsEngineList.

Unset Implicit Arguments.

Section KE.
Variable H : hier.
Hypothesis W : wf_hier H.
Local Notation inv := (invb true).
Local Notation gd := (FL.good H).
Local Notation ob := FL.ob.
Local Notation obs := FL.obs.
Local Notation mins_of := (FL.mins_of H).
Local Notation ole := (Lub.ole H).
Implicit Types pend : nat -> Prop.

(* o fits the alternative m *)
Definition holdE (o m : nat) : Prop := o = Bottom \/ (basic H o = true /\ ole o m).

Definition shp (D : list (list nat)) (c : nat) (k : constr) : Prop :=
  if k_elim k then exists l, Forall gd l /\ k_alts k = obs l /\ incl l (nth c D [])
  else exists a, k_alts k = [O a []] /\ basic H a = true.

Definition okres (k : constr) (o : nat) : Prop :=
  if k_elim k then k_done k = true \/ (k_alts k <> [] /\ forall m, In (ob m) (k_alts k) -> holdE o m)
  else exists a, k_alts k = [O a []] /\ hold H o a (k_strict k).

Definition okvar (k : constr) : Prop :=
  if k_elim k then True else exists a, k_alts k = [O a []] /\ a = Top /\ k_strict k = false.

Definition rcl (s : store) (pend : nat -> Prop) (c : nat) (k : constr) (r : tyv) : Prop :=
  match r with
  | O o args => okres k o \/ (k_done k = false /\ pend c)
  | V u => if k_done k then okvar k else In c (cset_of s (c_cs (cell_of s u)))
  end.

Definition cst (D : list (list nat)) (s : store) (pend : nat -> Prop) (c : nat) (k : constr) : Prop :=
  shp D c k /\ forall r, rsv s (k_ref k) r -> rcl s pend c k r.

Definition Kp (D : list (list nat)) (pend : nat -> Prop) (s : store) : Prop :=
  forall c, c < length (constrs s) -> cst D s pend c (constr_of s c).

Definition none : nat -> Prop := fun _ => False.
Definition minus (pend : nat -> Prop) (c : nat) : nat -> Prop := fun x => pend x /\ x <> c.
Definition plus (pend : nat -> Prop) (l : list nat) : nat -> Prop := fun x => pend x \/ In x l.

Lemma okvar_okres k o : k_done k = true -> okvar k -> okres k o.
Proof.
  unfold okvar, okres. destruct (k_elim k); [auto|].
  intros _ (a & Ea & -> & Es). exists Top. split; [exact Ea|]. split; [right; left; reflexivity|].
  rewrite Es. discriminate.
Qed.

(* ---- transfer between stores that agree on what cst reads ---- *)
Lemma cst_transfer D s s' pend pend' c k :
  (forall y, c_bound (cell_of s' y) = c_bound (cell_of s y)) ->
  (forall u, rsv s (k_ref k) (V u) -> k_done k = false ->
     In c (cset_of s (c_cs (cell_of s u))) -> In c (cset_of s' (c_cs (cell_of s' u)))) ->
  (pend c -> pend' c) ->
  cst D s pend c k -> cst D s' pend' c k.
Proof.
  intros Eb Ec Ep (Sh & Hr). split; [exact Sh|]. intros r R.
  assert (R0 : rsv s (k_ref k) r).
  { eapply rsv_bound_eq; [|exact R]. intros v. symmetry. apply Eb. }
  specialize (Hr r R0). destruct r as [u|o args]; cbn [rcl] in *.
  - destruct (k_done k) eqn:Ed; [exact Hr|]. apply Ec; auto.
  - destruct Hr as [Hh|(Ed & Hp)]; [left; exact Hh|right; auto].
Qed.

Lemma Kp_mono D pend pend' s : (forall c, pend c -> pend' c) -> Kp D pend s -> Kp D pend' s.
Proof.
  intros M Kk c Lc. eapply cst_transfer; [| |apply M|apply Kk; exact Lc]; auto.
Qed.

(* the unresolved reference of a constraint is a variable in range *)
Lemma rsv_ref_range s c u : inv s -> c < length (constrs s) ->
  rsv s (k_ref (constr_of s c)) (V u) -> u < length (vars s).
Proof.
  intros I Lc R0.
  assert (Ts : tsc (length (vars s)) (V u)).
  { eapply (rsv_tsc s); [apply (proj2 I eq_refl)|reflexivity|exact R0|].
    pose proof (sc_constr (proj2 I eq_refl) Lc) as F. inversion F; assumption. }
  inversion Ts; assumption.
Qed.

Lemma Kp_eq D pend s s' : inv s ->
  (forall y, c_bound (cell_of s' y) = c_bound (cell_of s y)) ->
  length (constrs s') = length (constrs s) ->
  (forall c, c < length (constrs s) -> constr_of s' c = constr_of s c) ->
  (forall u, u < length (vars s) -> c_bound (cell_of s u) = None ->
     incl (cset_of s (c_cs (cell_of s u))) (cset_of s' (c_cs (cell_of s' u)))) ->
  Kp D pend s -> Kp D pend s'.
Proof.
  intros I Eb El Ek Ec Kk c Lc. rewrite El in Lc. rewrite (Ek c Lc).
  eapply cst_transfer; [exact Eb| |intros X; exact X|apply Kk; exact Lc].
  intros u R0 _ Hin. apply Ec; [eapply rsv_ref_range; eauto|apply (rsv_nb _ _ _ R0)|exact Hin].
Qed.

(* stores that differ only in the constraint objects *)
Lemma Kp_set_constr D pend s c k' :
  Kp D pend s -> cst D (set_constr s c k') pend c k' -> Kp D pend (set_constr s c k').
Proof.
  intros Kk Ck c' Lc'. unfold set_constr in Lc'. cbn [constrs] in Lc'. rewrite upd_length in Lc'.
  destruct (constr_of_set_constr s c k' c') as [(E & -> & L)|E]; rewrite E; [exact Ck|].
  eapply cst_transfer; [| |intros X; exact X|apply Kk; exact Lc']; auto.
Qed.

(* ---- binding an unbound variable ---- *)
Lemma Kp_rebind D pend pend' s s2 v t rt : inv s -> Kp D pend s ->
  c_bound (cell_of s v) = None -> c_bound (cell_of s2 v) = Some t ->
  (forall y, y <> v -> c_bound (cell_of s2 y) = c_bound (cell_of s y)) ->
  rsv s2 t rt ->
  length (constrs s2) = length (constrs s) ->
  (forall c, c < length (constrs s) -> constr_of s2 c = constr_of s c) ->
  (forall u, u < length (vars s) -> u <> v -> c_bound (cell_of s u) = None ->
     incl (cset_of s (c_cs (cell_of s u))) (cset_of s2 (c_cs (cell_of s2 u)))) ->
  (forall c, pend c -> pend' c) ->
  match rt with
  | V w => incl (cset_of s (c_cs (cell_of s v))) (cset_of s2 (c_cs (cell_of s2 w)))
  | O _ _ => forall c, In c (cset_of s (c_cs (cell_of s v))) -> pend' c
  end ->
  Kp D pend' s2.
Proof.
  intros I Kk Hv Ht Ho Rt El Ek Ec Mp Ev c Lc. rewrite El in Lc. rewrite (Ek c Lc).
  destruct (Kk c Lc) as (Sh & Hr). split; [exact Sh|]. intros r R2.
  destruct (rsv_total s (k_ref (constr_of s c)) (proj1 I)) as (r0 & R0).
  pose proof (rsv_rebind s s2 v t rt Hv Ht Ho Rt _ _ R0) as R2'.
  rewrite (rsv_det _ _ _ R2 _ R2'). clear R2 R2' r.
  specialize (Hr r0 R0). destruct r0 as [u|o args]; cbn [sw].
  - pose proof (rsv_ref_range s c u I Lc R0) as Lu. cbn [rcl] in Hr.
    destruct (Nat.eqb u v) eqn:E.
    + apply Nat.eqb_eq in E. subst u. destruct rt as [w|o args]; cbn [rcl].
      * destruct (k_done (constr_of s c)); [exact Hr|]. apply Ev. exact Hr.
      * destruct (k_done (constr_of s c)) eqn:Ed.
        -- left. apply okvar_okres; auto.
        -- right. split; [reflexivity|]. apply Ev. exact Hr.
    + apply Nat.eqb_neq in E. cbn [rcl]. destruct (k_done (constr_of s c)); [exact Hr|].
      apply Ec; auto. apply (rsv_nb _ _ _ R0).
  - cbn [rcl] in *. destruct Hr as [Hh|(Ed & Hp)]; [left; exact Hh|right; auto].
Qed.

Lemma Kp_set_cell D pend s v c' : inv s ->
  c_bound c' = c_bound (cell_of s v) -> c_cs c' = c_cs (cell_of s v) ->
  Kp D pend s -> Kp D pend (set_cell s v c').
Proof.
  intros I Gb Gc. apply Kp_eq; auto.
  - intros y. destruct (cell_of_set_cell s v c' y) as [(E & -> & L)|E]; rewrite E; auto.
  - intros u _ _. change (cset_of (set_cell s v c')) with (cset_of s).
    destruct (cell_of_set_cell s v c' u) as [(E & -> & L)|E]; rewrite E; [rewrite Gc|];
      apply incl_refl.
Qed.

Lemma Kp_set_cell_bound D pend s v c' : inv s ->
  c_bound c' = c_bound (cell_of s v) -> c_bound (cell_of s v) <> None ->
  Kp D pend s -> Kp D pend (set_cell s v c').
Proof.
  intros I Gb Nb. apply Kp_eq; auto.
  - intros y. destruct (cell_of_set_cell s v c' y) as [(E & -> & L)|E]; rewrite E; auto.
  - intros u _ Hu. change (cset_of (set_cell s v c')) with (cset_of s).
    rewrite cell_of_set_cell_other by (intros ->; congruence). apply incl_refl.
Qed.

(* removing a fulfilled constraint from a constraint set *)
Lemma Kp_remove D pend s i x : k_done (constr_of s x) = true -> Kp D pend s ->
  Kp D pend (set_cset s i (remove_nat x (cset_of s i))).
Proof.
  intros Dx Kk c Lc. change (constr_of (set_cset s i (remove_nat x (cset_of s i))) c) with (constr_of s c).
  eapply cst_transfer; [| |intros X; exact X|apply Kk; exact Lc]; auto.
  intros u _ Ed Hin. change (cell_of (set_cset s i (remove_nat x (cset_of s i))) u) with (cell_of s u).
  destruct (cset_of_set_cset s i (remove_nat x (cset_of s i)) (c_cs (cell_of s u))) as [(E & Ej & _)|E]; rewrite E; [|exact Hin].
  apply In_remove_nat. split; [rewrite <- Ej; exact Hin|]. intros ->. congruence.
Qed.

Lemma Kp_sched D pend s r : Kp D pend s -> Kp D pend (mkStore (vars s) (csets s) (constrs s) r).
Proof.
  intros Kk c Lc. change (constr_of (mkStore (vars s) (csets s) (constrs s) r) c) with (constr_of s c).
  eapply cst_transfer; [| |intros X; exact X|apply Kk; exact Lc]; auto.
Qed.


(* ================================================================== *)
(* the invariant is preserved by the engine                             *)
(* ================================================================== *)
Definition KQ (D : list (list nat)) pend {A} : A -> store -> Prop := fun _ s => Kp D pend s.

#[local] Hint Resolve not_crash_EFuel not_crash_sub not_crash_ty not_crash_rec not_crash_cv
  not_crash_fun : core.

Ltac done_ret := apply ok_ret; unfold KQ; auto using ext_refl.
Ltac done_fail := apply ok_fail; auto using ext_refl.
Ltac useK X := eapply ok_conseq;
  [apply ok_use; [first [eassumption|apply ext_refl]|apply X; auto]
  |cbv beta; unfold KQ; intros ? ? ? ? (? & ?); auto].
Ltac break_if := repeat match goal with |- context[if ?c then _ else _] => destruct c eqn:? end.

Definition spec_unifyK f := forall D pend a b0 s, inv s -> Kp D pend s -> sct true s a -> sct true s b0 ->
  ok true s (unify H f true false false a b0) (KQ D pend) s.
Definition spec_bindK f := forall D pend v t s, inv s -> Kp D pend s ->
  c_bound (cell_of s v) = None -> nb s t -> scv true s v -> sct true s t -> noccb true s v t ->
  ok true s (bind H f v t) (KQ D pend) s.
Definition spec_aboveK f := forall D pend v new s, inv s -> Kp D pend s ->
  (new = Top -> c_bound (cell_of s v) = None) -> scv true s v -> ok true s (above H f v new) (KQ D pend) s.
Definition spec_belowK f := forall D pend v new s, inv s -> Kp D pend s ->
  (new = Bottom -> c_bound (cell_of s v) = None) -> scv true s v -> ok true s (below H f v new) (KQ D pend) s.
Definition spec_fixK f := forall D pend pl t s, inv s -> Kp D pend s -> sct true s t ->
  ok true s (fix_ty H f pl t) (fun r s' => Kp D pend s' /\ nb s' r /\ sct true s' r) s.
Definition spec_ccK f := forall D pend v s, inv s ->
  Kp D (plus pend (cset_of s (c_cs (cell_of s v)))) s ->
  ok true s (check_constraints H f v) (KQ D pend) s.
Definition spec_fulfillK f := forall D pend c s, inv s -> Kp D pend s -> c < length (constrs s) ->
  ok true s (fulfill H f c)
     (fun b s' => Kp D (minus pend c) s' /\ (b = true -> k_done (constr_of s' c) = true)) s.

Definition specsK f :=
  spec_unifyK f /\ spec_bindK f /\ spec_aboveK f /\ spec_belowK f /\ spec_fixK f /\
  spec_ccK f /\ spec_fulfillK f.

Lemma specsK_0 : specsK 0.
Proof.
  unfold specsK, spec_unifyK, spec_bindK, spec_aboveK, spec_belowK, spec_fixK, spec_ccK, spec_fulfillK.
  repeat apply conj; intros; apply ok_fail; auto using ext_refl.
Qed.

Lemma Kp_plus D pend l s : Kp D pend s -> Kp D (plus pend l) s.
Proof. apply Kp_mono. intros c Hc. left. exact Hc. Qed.

(* ---- fix_ty ---- *)
Lemma fixK_step f : spec_bindK f -> spec_fixK f -> spec_fixK (S f).
Proof.
  intros B Fx D pend pl t s I Kk St. rewrite fix_ty_S. apply ok_gets.
  pose proof (follow_unbound t I) as N. pose proof (follow_sct I St) as Sa.
  destruct (follow s t) as [v|o args] eqn:Ef.
  - eapply ok_bind with (Q1 := KQ D pend).
    + apply ok_gets. destruct pl.
      * destruct (c_lower (cell_of s v)); [apply B; cbn; auto using sct_V, sct_O0, noccb_O0|done_ret].
      * destruct (c_upper (cell_of s v)); [apply B; cbn; auto using sct_V, sct_O0, noccb_O0|done_ret].
    + intros u s1 I1 E1 K1. apply ok_gets_end; auto. split; [exact K1|split].
      * apply (follow_unbound _ I1).
      * apply follow_sct; auto. eapply sct_ext; eauto.
  - eapply ok_bind with (Q1 := KQ D pend).
    + apply sct_args in Sa. clear Ef N St.
      assert (G : forall vs s1, inv s1 -> Kp D pend s1 -> ext s s1 ->
                ok true s1 ((fix go (vs : list bool) (ps : list tyv) : M unit :=
                   match vs, ps with
                   | v :: vs', p :: ps' =>
                       Engine.fix_ty H f (if v then pl else negb pl) p ;;; go vs' ps'
                   | _, _ => ret tt
                   end) vs args) (KQ D pend) s1); [|apply G; auto using ext_refl].
      induction args as [|p ps IHp]; intros vs s1 I1 K1 E1; destruct vs as [|b' vs]; try done_ret.
      inversion Sa; subst.
      eapply ok_bind with (Q1 := KQ D pend).
      { eapply ok_conseq; [apply (Fx D pend); auto; eapply sct_ext; eauto|].
        cbv beta. unfold KQ. intros ? ? ? ? (? & ?). auto. }
      intros r s2 I2 E2 K2.
      useK IHp. eapply ext_trans; eauto.
    + intros u s1 I1 E1 K1. apply ok_gets_end; auto. split; [exact K1|split; [exact Logic.I|]].
      apply follow_sct; auto. eapply sct_ext; eauto.
Qed.

(* ---- above / below ---- *)
Lemma aboveK_step f : spec_unifyK f -> spec_bindK f -> spec_ccK f -> spec_aboveK (S f).
Proof.
  intros U B CC D pend v new s I Kk P Sv. rewrite above_S. destruct (Nat.eqb new Top) eqn:Et.
  - apply Nat.eqb_eq in Et. apply B; cbn; auto using sct_O0, noccb_O0.
  - apply Nat.eqb_neq in Et. unfold set_wild.
    apply ok_upd_cell; auto using ext_refl; cbn [c_lower c_upper]; try apply (inv_lo I); try apply (inv_up I).
    intros s1 Es1 I1 E1 _.
    assert (K1 : Kp D pend s1) by (subst s1; apply Kp_set_cell; auto).
    apply ok_gets.
    destruct (c_bound (cell_of s1 v)) as [t|] eqn:Eb; [useK (U D pend); eauto using sct_O0, sct_of_bound|].
    assert (SL : ok true s (set_lower v (Some new);;; Engine.check_constraints H f v) (KQ D pend) s1).
    { unfold set_lower. apply ok_upd_cell; auto; cbn [c_lower c_upper]; try apply (inv_up I1); try congruence.
      intros s2 Es2 I2 E2 _. useK (CC D pend). apply Kp_plus. subst s2. apply Kp_set_cell; auto. }
    eapply ok_bind with (Q1 := KQ D pend).
    + destruct (c_upper (cell_of s1 v)), (c_lower (cell_of s1 v)); break_if;
        try exact SL; try done_ret; try done_fail.
    + intros u s2 I2 E2 K2. apply ok_gets.
      destruct (c_bound (cell_of s2 v)) eqn:Eb2; try done_ret.
      destruct (c_lower (cell_of s2 v)); try done_ret.
      destruct (c_upper (cell_of s2 v)); try done_ret.
      break_if; try done_ret. useK (B D pend); cbn; eauto using sct_O0, scv_ext, noccb_O0.
Qed.

Lemma belowK_step f : spec_unifyK f -> spec_bindK f -> spec_ccK f -> spec_belowK (S f).
Proof.
  intros U B CC D pend v new s I Kk P Sv. rewrite below_S. destruct (Nat.eqb new Bottom) eqn:Et.
  - apply Nat.eqb_eq in Et. apply B; cbn; auto using sct_O0, noccb_O0.
  - apply Nat.eqb_neq in Et. unfold set_wild.
    apply ok_upd_cell; auto using ext_refl; cbn [c_lower c_upper]; try apply (inv_lo I); try apply (inv_up I).
    intros s1 Es1 I1 E1 _.
    assert (K1 : Kp D pend s1) by (subst s1; apply Kp_set_cell; auto).
    apply ok_gets.
    destruct (c_bound (cell_of s1 v)) as [t|] eqn:Eb; [useK (U D pend); eauto using sct_O0, sct_of_bound|].
    assert (SL : ok true s (set_upper v (Some new);;; Engine.check_constraints H f v) (KQ D pend) s1).
    { unfold set_upper. apply ok_upd_cell; auto; cbn [c_lower c_upper]; try apply (inv_lo I1); try congruence.
      intros s2 Es2 I2 E2 _. useK (CC D pend). apply Kp_plus. subst s2. apply Kp_set_cell; auto. }
    eapply ok_bind with (Q1 := KQ D pend).
    + destruct (c_upper (cell_of s1 v)), (c_lower (cell_of s1 v)); break_if;
        try exact SL; try done_ret; try done_fail.
    + intros u s2 I2 E2 K2. apply ok_gets.
      destruct (c_bound (cell_of s2 v)) eqn:Eb2; try done_ret.
      destruct (c_upper (cell_of s2 v)); try done_ret.
      destruct (c_lower (cell_of s2 v)); try done_ret.
      break_if; try done_ret. useK (B D pend); cbn; eauto using sct_O0, scv_ext, noccb_O0.
Qed.


Lemma ccK_use f D pend v s0 s : spec_ccK f -> inv s -> ext s0 s ->
  Kp D (plus pend (cset_of s (c_cs (cell_of s v)))) s ->
  ok true s0 (check_constraints H f v) (KQ D pend) s.
Proof.
  intros CC I E Kk. eapply ok_conseq; [apply ok_use; [exact E|apply (CC D pend); auto]|].
  cbv beta. unfold KQ. intros ? ? ? ? (? & ?). auto.
Qed.

(* ---- bind ---- *)
Lemma bindK_step f : spec_aboveK f -> spec_belowK f -> spec_ccK f -> spec_bindK (S f).
Proof.
  intros Ab Be CC D pend v t s I Kk Hv Nt Sv St No. rewrite bind_S. apply ok_gets. rewrite Hv.
  unfold set_wild at 1.
  apply ok_upd_cell; auto using ext_refl; cbn [c_lower c_upper]; try apply (inv_lo I); try apply (inv_up I).
  intros s1 Es1 I1 E1 _.
  assert (K1 : Kp D pend s1) by (subst s1; apply Kp_set_cell; auto).
  assert (B1 : forall w, c_bound (cell_of s1 w) = c_bound (cell_of s w)).
  { subst s1. apply bound_set_cell_same. reflexivity. }
  assert (Hv1 : c_bound (cell_of s1 v) = None) by (rewrite B1; exact Hv).
  assert (Nt1 : nb s1 t) by (eapply nb_bound_eq; [exact B1|exact Nt]).
  assert (Sv1 : scv true s1 v) by (eapply scv_ext; eauto).
  assert (St1 : sct true s1 t) by (eapply sct_ext; eauto).
  assert (No1 : t <> V v -> nocc s1 v t).
  { intros Ne. destruct (No eq_refl) as [->|N]; [congruence|].
    eapply nocc_bound_eq; [exact B1|exact N]. }
  assert (Lv1 : v < length (vars s1)) by (apply Sv1; reflexivity).
  clear Es1.
  assert (SB : forall wld, let s2 := set_cell s1 v (mkCell wld (Some t) (c_lower (cell_of s1 v))
                                  (c_upper (cell_of s1 v)) (c_cs (cell_of s1 v))) in
               t <> V v -> inv s2 /\ ext s1 s2).
  { intros wld s2 Ne. split.
    - apply inv_set_cell; auto; cbn [c_lower c_upper c_bound c_cs]; try apply (inv_lo I1); try apply (inv_up I1).
      + right. split; auto. exists t. split; [reflexivity|split; [exact Nt1|split; [exact Ne|auto]]].
      + intros t' Ht'. inversion Ht'; subst. exact St1.
      + intros Bt L. apply (sc_cs (proj2 I1 Bt)). exact L.
    - apply ext_set_cell. intros t'. rewrite Hv1. discriminate. }
  assert (C2 : forall wld, let s2 := set_cell s1 v (mkCell wld (Some t) (c_lower (cell_of s1 v))
                                  (c_upper (cell_of s1 v)) (c_cs (cell_of s1 v))) in
               c_bound (cell_of s2 v) = Some t /\ c_cs (cell_of s2 v) = c_cs (cell_of s1 v) /\
               forall y, y <> v -> cell_of s2 y = cell_of s1 y).
  { intros wld s2. unfold s2. rewrite cell_of_set_cell_same by exact Lv1. cbn [c_bound c_cs].
    split; [reflexivity|split; [reflexivity|]]. intros y Ny. apply cell_of_set_cell_other. exact Ny. }
  destruct t as [w|o args].
  - destruct (Nat.eqb v w) eqn:Evw; [done_ret|]. apply Nat.eqb_neq in Evw.
    unfold set_bound, upd_cell. apply ok_modify.
    match goal with |- ok _ _ _ _ ?s' => set (s2 := s') end.
    destruct (SB (c_wild (cell_of s1 v))) as (I2 & E12); [congruence|]. fold s2 in I2, E12.
    destruct (C2 (c_wild (cell_of s1 v))) as (Cb2 & Cc2 & Co2). fold s2 in Cb2, Cc2, Co2.
    assert (E2 : ext s s2) by (eapply ext_trans; eauto).
    assert (Lw1 : w < length (vars s1)) by (apply (sct_V St1); reflexivity).
    assert (Ek2 : constrs s2 = constrs s1) by reflexivity.
    assert (Ec2 : forall j, cset_of s2 j = cset_of s1 j) by reflexivity.
    assert (Lc2 : length (csets s2) = length (csets s1)) by reflexivity.
    clearbody s2.
    apply ok_modify.
    match goal with |- ok _ _ _ _ ?s' => set (s3 := s') end.
    assert (I3 : inv s3).
    { apply inv_set_cset; auto. apply Forall_union; apply (inv_cs_Forall _ I2). }
    assert (E3 : ext s s3) by (eapply ext_trans; [exact E2|apply ext_set_cset]).
    assert (Liw : c_cs (cell_of s1 w) < length (csets s1)) by (apply (sc_cs (proj2 I1 eq_refl)); exact Lw1).
    assert (K3 : Kp D pend s3).
    { apply (Kp_rebind D pend pend s1 s3 v (V w) (V w) I1 K1 Hv1 Cb2).
      - intros y Ny. change (cell_of s3 y) with (cell_of s2 y). rewrite (Co2 y Ny). reflexivity.
      - constructor. change (cell_of s3 w) with (cell_of s2 w). rewrite Co2 by congruence. exact Nt1.
      - change (constrs s3) with (constrs s2). rewrite Ek2. reflexivity.
      - intros c _. change (constr_of s3 c) with (constr_of s2 c). unfold constr_of. rewrite Ek2. reflexivity.
      - intros u _ Nu _. change (cell_of s3 u) with (cell_of s2 u). rewrite (Co2 u Nu).
        rewrite <- Ec2. unfold s3. apply cset_set_cset_incl. intros x Hx. apply In_union. right. exact Hx.
      - auto.
      - change (cell_of s3 w) with (cell_of s2 w). rewrite Co2 by congruence.
        unfold s3. rewrite Cc2. rewrite (Co2 w) by congruence.
        rewrite cset_set_cset_same by (rewrite Lc2; exact Liw).
        rewrite !Ec2. intros x Hx. apply In_union. left. exact Hx. }
    assert (Cb3 : forall y, cell_of s3 y = cell_of s2 y) by reflexivity.
    clearbody s3.
    assert (Sw3 : scv true s3 w) by (apply sct_V; eapply sct_ext; eauto).
    apply ok_gets.
    apply ok_set_cs'; auto. { apply (sc_cs (proj2 I3 eq_refl)). apply Sw3. reflexivity. }
    intros s4 Es4 I4 E4 _. unfold set_wild.
    assert (K4 : Kp D pend s4).
    { subst s4. apply Kp_set_cell_bound; auto. rewrite Cb3, Cb2. discriminate. }
    apply ok_upd_cell; auto; cbn [c_lower c_upper]; try apply (inv_lo I4); try apply (inv_up I4).
    intros s5 Es5 I5 E5 _.
    assert (K5 : Kp D pend s5) by (subst s5; apply Kp_set_cell; auto).
    assert (Sw5 : scv true s5 w) by (apply sct_V; eapply sct_ext; eauto).
    eapply ok_bind with (Q1 := KQ D pend).
    { destruct (c_lower (cell_of s v)) as [l|] eqn:El; [|done_ret].
      useK (Ab D pend). intros ->. exfalso. eapply (inv_lo I); eauto. }
    intros u s6 I6 E6 K6.
    eapply ok_bind with (Q1 := KQ D pend).
    { destruct (c_upper (cell_of s v)) as [l|] eqn:El; [|done_ret].
      useK (Be D pend). intros ->. exfalso. eapply (inv_up I); eauto.
      apply sct_V; eapply sct_ext; eauto. }
    intros u' s7 I7 E7 K7. apply ccK_use; auto. apply Kp_plus. exact K7.
  - unfold set_bound, upd_cell. apply ok_modify.
    match goal with |- ok _ _ _ _ ?s' => set (s2 := s') end.
    destruct (SB (c_wild (cell_of s1 v))) as (I2 & E12); [discriminate|]. fold s2 in I2, E12.
    destruct (C2 (c_wild (cell_of s1 v))) as (Cb2 & Cc2 & Co2). fold s2 in Cb2, Cc2, Co2.
    assert (E2 : ext s s2) by (eapply ext_trans; eauto).
    assert (Ek2 : constrs s2 = constrs s1) by reflexivity.
    assert (Ec2 : forall j, cset_of s2 j = cset_of s1 j) by reflexivity.
    assert (Lc2 : length (csets s2) = length (csets s1)) by reflexivity.
    assert (Lv2 : length (vars s2) = length (vars s1)) by (unfold s2; cbn; apply upd_length).
    clearbody s2.
    eapply ok_bind with (Q1 := fun _ s3 => Kp D (plus pend (cset_of s3 (c_cs (cell_of s3 v)))) s3);
      [|intros u s3 I3 E3 K3; apply ccK_use; auto].
    destruct (Engine.basic H o).
    + assert (K2 : Kp D (plus pend (cset_of s2 (c_cs (cell_of s2 v)))) s2).
      { apply (Kp_rebind D pend _ s1 s2 v (O o args) (O o args) I1 K1 Hv1 Cb2).
        - intros y Ny. rewrite (Co2 y Ny). reflexivity.
        - constructor.
        - rewrite Ek2. reflexivity.
        - intros c _. unfold constr_of. rewrite Ek2. reflexivity.
        - intros u _ Nu _. rewrite (Co2 u Nu). rewrite Ec2. apply incl_refl.
        - intros c Hc. left. exact Hc.
        - intros c Hc. right. rewrite Cc2, Ec2. exact Hc. }
      break_if; try done_fail; apply ok_ret; auto.
    + match goal with |- context[if ?c then _ else _] => destruct c end; [done_fail|].
      apply ok_lift; auto; [intros e; apply vars_f_err|]. intros vs Hvs.
      apply ok_modify.
      match goal with |- ok _ _ _ _ ?s' => set (s3 := s') end.
      assert (I3 : inv s3).
      { apply inv_set_cset; auto. apply Forall_fold_union with (g := fun w => cset_of s2 (c_cs (cell_of s2 w)));
          intros; apply (inv_cs_Forall _ I2). }
      assert (E3 : ext s s3) by (eapply ext_trans; [exact E2|apply ext_set_cset]).
      assert (Li : c_cs (cell_of s3 v) < length (csets s3)).
      { apply (sc_cs (proj2 I3 eq_refl)). eapply scv_ext; eauto. }
      set (iv := c_cs (cell_of s2 v)) in *.
      assert (Liv : iv < length (csets s2)).
      { apply (sc_cs (proj2 I2 eq_refl)). rewrite Lv2. exact Lv1. }
      assert (C3 : cset_of s3 iv = fold_right (fun w acc => union (cset_of s2 (c_cs (cell_of s2 w))) acc)
                                              (cset_of s2 iv) vs).
      { unfold s3. apply cset_set_cset_same. exact Liv. }
      assert (K3 : Kp D (plus pend (cset_of s3 iv)) s3).
      { apply (Kp_rebind D pend _ s1 s3 v (O o args) (O o args) I1 K1 Hv1 Cb2).
        - intros y Ny. change (cell_of s3 y) with (cell_of s2 y). rewrite (Co2 y Ny). reflexivity.
        - constructor.
        - change (constrs s3) with (constrs s2). rewrite Ek2. reflexivity.
        - intros c _. change (constr_of s3 c) with (constr_of s2 c). unfold constr_of. rewrite Ek2. reflexivity.
        - intros u _ Nu _. change (cell_of s3 u) with (cell_of s2 u). rewrite (Co2 u Nu). rewrite <- Ec2.
          unfold s3. apply cset_set_cset_incl. intros x Hx. apply In_fold_union. left. exact Hx.
        - intros c Hc. left. exact Hc.
        - intros x Hx. right. rewrite C3. apply In_fold_union. left. rewrite Cc2, Ec2. exact Hx. }
      assert (Mg : forall w, In w vs -> incl (cset_of s3 (c_cs (cell_of s3 w))) (cset_of s3 iv)).
      { intros w Hw. change (cell_of s3 w) with (cell_of s2 w). rewrite C3. intros x Hx.
        apply In_fold_union.
        destruct (cset_of_set_cset s2 iv
                    (fold_right (fun w acc => union (cset_of s2 (c_cs (cell_of s2 w))) acc) (cset_of s2 iv) vs)
                    (c_cs (cell_of s2 w))) as [(E0 & E1' & _)|E0]; unfold s3 in Hx; rewrite E0 in Hx.
        - apply In_fold_union in Hx. exact Hx.
        - right. exists w. auto. }
      assert (Cv3 : c_cs (cell_of s3 v) = iv) by reflexivity.
      clearbody s3.
      apply ok_gets. rewrite Cv3.
      eapply ok_conseq;
        [apply ok_forM with (J := fun s4 => ext s3 s4 /\ Kp D (plus pend (cset_of s3 iv)) s4 /\
              (forall j, cset_of s4 j = cset_of s3 j) /\ c_cs (cell_of s4 v) = iv /\
              (forall y, c_cs (cell_of s4 y) = c_cs (cell_of s3 y) \/ c_cs (cell_of s4 y) = iv));
           auto using ext_refl|].
      * split; [apply ext_refl|split; [exact K3|split; [reflexivity|split; [exact Cv3|auto]]]].
      * intros w s4 Hw I4 E4 (E34 & K4 & C4 & Cv4 & Cy4).
        apply ok_set_cs_end'; auto.
        { pose proof (ext_csets E34). rewrite Cv3 in Li. lia. }
        intros s5 Es5 I5 E5 E45. split; [eapply ext_trans; eauto|]. subst s5.
        split; [|split; [|split]].
        -- apply Kp_eq with (s := s4); auto.
           ++ intros y. apply bound_set_cell_same. reflexivity.
           ++ intros u Lu Hu. change (cset_of (set_cell s4 w (cs_cell s4 w iv))) with (cset_of s4).
              destruct (cell_of_set_cell s4 w (cs_cell s4 w iv) u) as [(E0 & -> & L)|E0]; rewrite E0;
                [|apply incl_refl].
              cbn [cs_cell c_cs]. rewrite !C4. destruct (Cy4 w) as [E1'|E1']; rewrite E1'.
              ** apply Mg. exact Hw.
              ** apply incl_refl.
        -- intros j. change (cset_of (set_cell s4 w (cs_cell s4 w iv)) j) with (cset_of s4 j). apply C4.
        -- destruct (cell_of_set_cell s4 w (cs_cell s4 w iv) v) as [(E0 & _)|E0]; rewrite E0; auto.
        -- intros y. destruct (cell_of_set_cell s4 w (cs_cell s4 w iv) y) as [(E0 & _)|E0]; rewrite E0; auto.
      * cbv beta. intros _ s4 _ _ (_ & K4 & C4 & Cv4 & _). rewrite Cv4, C4. exact K4.
Qed.

(* ---- unify (subtype mode, no skip flags) ---- *)
Lemma unifyK_step f :
  spec_unifyK f -> spec_bindK f -> spec_aboveK f -> spec_belowK f -> spec_unifyK (S f).
Proof.
  intros U B Ab Be D pend a0 b0 s I Kk Sa0 Sb0. rewrite unify_S. apply ok_gets. apply ok_gets.
  pose proof (follow_unbound a0 I) as Na. pose proof (follow_unbound b0 I) as Nb.
  pose proof (follow_sct I Sa0) as Sa. pose proof (follow_sct I Sb0) as Sb.
  destruct (follow s a0) as [va|oa xs]; destruct (follow s b0) as [vb|ob ys].
  - apply ok_gets. apply ok_gets. cbn [negb orb]. apply B; auto using sct_V, noccb_var.
  - destruct (Nat.eqb ob Top); [done_ret|].
    apply ok_lift; auto using ext_refl; [intros e; apply occurs_f_err|]. intros oc Hoc.
    destruct oc; [done_fail|].
    assert (No : noccb true s va (O ob ys)).
    { intros _. right. eapply occurs_false_nocc; eauto. apply I. }
    destruct (Engine.basic H ob).
    + apply ok_gets. cbn [orb andb]. apply Be; auto using sct_V; intros ->; exact Na.
    + cbn [orb]. apply B; auto using sct_V.
  - destruct (Nat.eqb oa Bottom); [done_ret|].
    apply ok_lift; auto using ext_refl; [intros e; apply occurs_f_err|]. intros oc Hoc.
    destruct oc; [done_fail|].
    assert (No : noccb true s vb (O oa xs)).
    { intros _. right. eapply occurs_false_nocc; eauto. apply I. }
    destruct (Engine.basic H oa).
    + apply ok_gets. cbn [orb andb]. apply Ab; auto using sct_V; intros ->; exact Nb.
    + cbn [orb]. apply B; auto using sct_V.
  - break_if; try done_ret; try done_fail.
    apply sct_args in Sa. apply sct_args in Sb.
    clear Na Nb Sa0 Sb0.
    assert (G : forall vs ys s1, inv s1 -> Kp D pend s1 -> ext s s1 -> Forall (sct true s) ys ->
              ok true s1 ((fix go (vs : list bool) (xs ys : list tyv) : M unit :=
                 match vs, xs, ys with
                 | v :: vs', x :: xs', y :: ys' =>
                     (if v then Engine.unify H f true false false x y else Engine.unify H f true false false y x) ;;;
                     go vs' xs' ys'
                 | _, _, _ => ret tt
                 end) vs xs ys) (KQ D pend) s1); [|apply G; auto using ext_refl].
    induction xs as [|x xs IHx]; intros vs ys' s1 I1 K1 E1 Sy; destruct vs as [|b' vs]; try done_ret;
      destruct ys' as [|y ys']; try done_ret.
    inversion Sa; subst. inversion Sy; subst.
    eapply ok_bind with (Q1 := KQ D pend).
    + destruct b'; apply U; auto; eapply sct_ext; eauto.
    + intros u s2 I2 E2 K2. useK IHx. eapply ext_trans; eauto.
Qed.


(* ---- check_constraints ---- *)
Lemma Kp_eqv D pend s s1 : vars s1 = vars s -> csets s1 = csets s -> constrs s1 = constrs s ->
  Kp D pend s -> Kp D pend s1.
Proof.
  intros Ev Ec Ek Kk c Lc. rewrite Ek in Lc.
  assert (Ecell : forall y, cell_of s1 y = cell_of s y) by (intros y; unfold cell_of; rewrite Ev; reflexivity).
  unfold constr_of at 1. rewrite Ek. fold (constr_of s c).
  eapply cst_transfer; [| |intros X; exact X|apply Kk; exact Lc].
  - intros y. rewrite Ecell. reflexivity.
  - intros u _ _ Hin. rewrite Ecell. unfold cset_of. rewrite Ec. exact Hin.
Qed.

Lemma loopK f D pend v s0 : spec_fulfillK f -> forall l s, inv s -> ext s0 s ->
  Forall (fun c => c < length (constrs s)) l -> Kp D (plus pend l) s ->
  ok true s0 (forM l (fun c =>
      done <- fulfill H f c ;;
      if done then modify (fun s => let i := c_cs (cell_of s v) in set_cset s i (remove_nat c (cset_of s i)))
      else ret tt)) (KQ D pend) s.
Proof.
  intros F. induction l as [|x l IH]; intros s I E Fl Kk; cbn [forM].
  - apply ok_ret; auto. unfold KQ. eapply Kp_mono; [|exact Kk]. intros c [Hc|[]]. exact Hc.
  - inversion Fl as [|? ? Lx Fl']; subst.
    eapply ok_bind with (Q1 := fun _ s2 => Kp D (plus pend l) s2 /\ ext s s2).
    + eapply ok_bind.
      * apply ok_use; [exact E|apply (F D (plus pend (x :: l)) x s I Kk Lx)].
      * intros d s1 I1 E1 ((K1 & Dn) & E01).
        assert (K1' : Kp D (plus pend l) s1).
        { eapply Kp_mono; [|exact K1]. intros c ([Hc|[<-|Hc]] & Ne); [left; auto|congruence|right; auto]. }
        destruct d.
        -- apply ok_modify_end.
           ++ apply inv_set_cset; auto. apply Forall_remove_nat. apply (inv_cs_Forall _ I1).
           ++ eapply ext_trans; [exact E1|apply ext_set_cset].
           ++ split; [apply Kp_remove; auto|eapply ext_trans; [exact E01|apply ext_set_cset]].
        -- apply ok_ret; auto.
    + intros u s2 I2 E2 (K2 & E02). apply IH; auto.
      eapply Forall_impl; [|exact Fl']. intros c Lc. pose proof (ext_constrs E02). cbv beta in Lc. lia.
Qed.

Lemma ccK_step f : spec_fulfillK f -> spec_ccK (S f).
Proof.
  intros F D pend v s I Kk. rewrite check_constraints_S. apply ok_gets.
  set (pending := cset_of s (c_cs (cell_of s v))) in *.
  assert (FP : Forall (fun c => c < length (constrs s)) pending) by (apply (inv_cs_Forall _ I)).
  eapply ok_bind with (Q1 := fun order s1 => Forall (fun c => c < length (constrs s1)) order /\
                                             Kp D (plus pend order) s1).
  - destruct (2 <=? length pending) eqn:E2.
    + apply ok_next_choice; auto using ext_refl. intros r s1 I1 E1 _ Hv Hcs Hc.
      apply ok_ret; auto. split.
      * apply Forall_permute. rewrite Hc. exact FP.
      * apply (Kp_eqv D _ s s1 Hv Hcs Hc). eapply Kp_mono; [|exact Kk].
        intros c [Hp|Hin]; [left; exact Hp|right].
        eapply Permutation_in; [apply Permutation_sym; apply permute_perm; lia|exact Hin].
    + apply ok_ret; auto using ext_refl.
  - intros order s1 I1 E1 (FO & K1). apply loopK; auto.
Qed.


(* ---- fulfill ---- *)
Lemma In_obs m l : In (ob m) (obs l) <-> In m l.
Proof.
  unfold FL.obs. rewrite in_map_iff. split.
  - intros (x & E & Hx). injection E as <-. exact Hx.
  - intros Hm. exists m. auto.
Qed.

Lemma nb_rsv s t : nb s t -> rsv s t t.
Proof. destruct t as [v|o args]; cbn; intros N; constructor; exact N. Qed.

Lemma Kp_upd D pend s c k' : Kp D pend s -> c < length (constrs s) ->
  cst D (set_constr s c k') (minus pend c) c k' -> Kp D (minus pend c) (set_constr s c k').
Proof.
  intros Kk Lc Ck c' Lc'. unfold set_constr in Lc'. cbn [constrs] in Lc'. rewrite upd_length in Lc'.
  destruct (Nat.eq_dec c' c) as [->|Nc].
  - rewrite constr_of_set_constr_same by exact Lc. exact Ck.
  - assert (E : constr_of (set_constr s c k') c' = constr_of s c').
    { unfold constr_of, set_constr. cbn [constrs]. apply nth_upd_other. exact Nc. }
    rewrite E. eapply cst_transfer; [| | |apply Kk; exact Lc']; auto.
    intros Hp. split; auto.
Qed.

Lemma Kp_minus_self D pend s c : Kp D pend s -> c < length (constrs s) ->
  cst D s (minus pend c) c (constr_of s c) -> Kp D (minus pend c) s.
Proof.
  intros Kk Lc Ck c' Lc'. destruct (Nat.eq_dec c' c) as [->|Nc]; [exact Ck|].
  eapply cst_transfer; [| | |apply Kk; exact Lc']; auto. intros Hp. split; auto.
Qed.

Lemma fulfillK_step f : spec_unifyK f -> spec_fulfillK (S f).
Proof.
  intros U D pend c s I Kk Lc.
  eapply ok_conseq; [apply ok_and; [apply (@fulfill_ok H true (S f) c s I Lc)|]|].
  2:{ cbv beta. intros b s' _ _ (_ & X). exact X. }
  intros b s' E.
  destruct (Kk c Lc) as (Sh & Hr).
  set (k := constr_of s c) in *.
  destruct (rsv_total s (k_ref k) (proj1 I)) as (r0 & R0).
  pose proof (rsv_follow _ _ _ R0) as Ef.
  assert (Rr : forall s'', (forall y, c_bound (cell_of s'' y) = c_bound (cell_of s y)) ->
             forall t r, rsv s t r0 -> rsv s'' t r -> r = r0).
  { intros s'' Eb t r Rt R. assert (R' : rsv s t r).
    { eapply rsv_bound_eq; [|exact R]. intros y. symmetry. apply Eb. }
    eapply rsv_det; eauto. }
  assert (R00 : rsv s r0 r0) by (apply nb_rsv; apply (rsv_nb _ _ _ R0)).
  destruct (k_elim k) eqn:Ee.
  - (* elimination constraint *)
    unfold shp in Sh. rewrite Ee in Sh. destruct Sh as (l & Gl & Ea & Il).
    destruct (k_done k) eqn:Ed.
    + rewrite FL.fulfill_S' in E. unfold bindM at 1 in E. unfold gets at 1 in E. fold k in E. rewrite Ee, Ed in E.
      inversion E; subst. split; [|intros _; exact Ed].
      apply Kp_minus_self; auto. fold k. split; [unfold shp; rewrite Ee; eauto|].
      intros r R. pose proof (Hr r R) as X.
      destruct r; cbn [rcl] in *; [exact X|]. left. unfold okres. rewrite Ee. left. exact Ed.
    + destruct (fulfill_elim_form H f c s l b s' Ee Ed Gl Ea Lc E) as ((g & ->) & Cases).
      fold k in Cases. rewrite Ef in Cases.
      set (s1 := set_constr s c (set_alts k r0 (obs (mins_of l)) false)) in *.
      set (l2 := filter (keep H (S (S g)) s1 r0) (mins_of l)) in *.
      assert (Gl2 : Forall gd l2 /\ incl l2 (nth c D [])).
      { split.
        - apply incl_Forall with (l1 := mins_of l); [|apply FL.mins_of_good; exact Gl].
          intros x Hx. apply filter_In in Hx. apply Hx.
        - intros x Hx. apply Il. apply (FL.mins_of_in H). apply filter_In in Hx. apply Hx. }
      destruct Cases as [(m1 & m2 & rest & El2 & -> & ->)|(m & u & El2 & Eu & Eb)].
      * split; [|discriminate]. apply Kp_upd; auto. split.
        -- unfold shp. cbn [set_alts k_elim k_alts]. exists l2. split; [apply Gl2|split; [reflexivity|apply Gl2]].
        -- intros r R. cbn [set_alts k_ref] in R.
           assert (Er : r = r0) by (eapply Rr; cycle 1; [exact R00|exact R|intros y; reflexivity]). subst r. clear R.
           destruct r0 as [x|o args]; cbn [rcl set_alts k_done].
           ++ pose proof (Hr _ R0) as X. cbn [rcl] in X. rewrite Ed in X. exact X.
           ++ left. unfold okres. cbn [set_alts k_elim k_done k_alts]. right. split.
              ** rewrite El2. discriminate.
              ** intros m Hm. apply In_obs in Hm. unfold l2 in Hm. apply filter_In in Hm. destruct Hm as (Hm & Hk).
                 pose proof (FL.mins_of_good H l Gl) as Gs. rewrite Forall_forall in Gs.
                 apply (keep_resolved H W (S g) s1 (O o args) o args m (Gs m Hm) (follow_O _ _ _) Hk).
      * assert (Hm : In m l2) by (rewrite El2; left; reflexivity).
        set (s3 := set_constr s c (set_alts k r0 [ob m] true)) in *.
        assert (K3 : Kp D (minus pend c) s3).
        { apply Kp_upd; auto. split.
          - unfold shp. cbn [set_alts k_elim k_alts]. exists [m]. destruct Gl2 as (G2 & I2). rewrite Forall_forall in G2.
            split; [constructor; [apply G2; exact Hm|constructor]|split; [reflexivity|]].
            intros x [<-|[]]. apply I2. exact Hm.
          - intros r R. cbn [set_alts k_ref] in R.
            assert (Er : r = r0) by (eapply Rr; cycle 1; [exact R00|exact R|intros y; reflexivity]). subst r. clear R.
            destruct r0 as [x|o args]; cbn [rcl set_alts k_done].
            + unfold okvar. cbn [set_alts k_elim]. exact Logic.I.
            + left. unfold okres. cbn [set_alts k_elim k_done]. left. reflexivity. }
        assert (Sr0 : sct true s r0).
        { rewrite <- Ef. apply follow_sct; auto.
          pose proof (scts_of_constr I Lc) as F. inversion F; assumption. }
        assert (I3 : inv s3).
        { apply inv_set_constr.
          - exact I.
          - cbn. discriminate.
          - unfold constr_terms. cbn [set_alts k_ref k_alts].
            constructor; [exact Sr0|constructor; [apply sct_O0|constructor]]. }
        pose proof (U D (minus pend c) r0 (ob m) s3 I3 K3 Sr0 (@sct_O0 true s3 m)) as O3. unfold ok in O3.
        rewrite Eu in O3. destruct O3 as (I' & E' & K'). split; [exact K'|].
        intros X. rewrite <- Eb. exact X.
  - (* subtype constraint *)
    unfold shp in Sh. rewrite Ee in Sh. destruct Sh as (a & Ea & Ba).
    assert (Pk : pureK H k).
    { split; [exact Ee|]. intros t Et. rewrite Ea in Et. inversion Et; subst. eauto. }
    rewrite (fulfill_pure H (S f) c s Pk) in E. fold k in E.
    destruct (pfc H (S f) s k) eqn:Ep; [discriminate| |]; injection E as <- <-.
    + split; [|intros _; unfold markd; rewrite constr_of_set_constr_same by exact Lc; reflexivity].
      unfold markd. apply Kp_upd; auto. fold k. split.
      * unfold shp. cbn [done_of k_elim k_alts]. eauto.
      * intros r R. cbn [done_of k_ref] in R.
        assert (Er : r = r0) by (eapply Rr; cycle 1; [exact R0|exact R|intros y; reflexivity]). subst r. clear R.
        destruct r0 as [x|o args]; cbn [rcl done_of k_done].
        -- unfold okvar. cbn [done_of k_elim k_alts k_strict]. exists a. split; [exact Ea|].
           eapply (pfc_done_var H W); eauto.
        -- left. unfold okres. cbn [done_of k_elim k_alts k_strict]. exists a. split; [exact Ea|].
           eapply (pfc_hold H W); eauto. intros e. rewrite Ep. discriminate.
    + split; [|intros X; exact X].
      apply Kp_minus_self; auto. fold k. split; [unfold shp; rewrite Ee; eauto|].
      intros r R. rewrite (rsv_det _ _ _ R _ R0). pose proof (Hr _ R0) as X.
      destruct r0 as [x|o args]; cbn [rcl] in *; [exact X|]. left.
      unfold okres. rewrite Ee. exists a. split; [exact Ea|].
      eapply (pfc_hold H W); eauto. intros e. rewrite Ep. discriminate.
Qed.

Theorem specsK_all : forall f, specsK f.
Proof.
  induction f as [|f (U & B & Ab & Be & Fx & CC & Fu)]; [apply specsK_0|].
  unfold specsK. repeat apply conj.
  - apply unifyK_step; auto.
  - apply bindK_step; auto.
  - apply aboveK_step; auto.
  - apply belowK_step; auto.
  - apply fixK_step; auto.
  - apply ccK_step; auto.
  - apply fulfillK_step; auto.
Qed.

Lemma unifyK f : spec_unifyK f. Proof. apply specsK_all. Qed.
Lemma bindK f : spec_bindK f. Proof. apply specsK_all. Qed.
Lemma fixK f : spec_fixK f. Proof. apply specsK_all. Qed.
Lemma fulfillK f : spec_fulfillK f. Proof. apply specsK_all. Qed.


(* ================================================================== *)
(* allocation, new constraints, instance, apply, programs               *)
(* ================================================================== *)
Local Notation len s := (length (vars s)).
Local Notation tg := (Sound.tg H).
Local Notation JE := (SoundElimS.JE H).
Local Notation lefE := (SoundElimS.lefE H).
Local Notation goodE := (SoundElimS.goodE H).

Lemma tg_tsc n : forall t, tg n t -> tsc n t.
Proof.
  induction t as [v|o args IH] using tyv_ind'; intros Ht; inversion Ht; subst; constructor; auto.
  rewrite Forall_forall in *. auto.
Qed.

Lemma tg_sct s t : tg (len s) t -> sct true s t.
Proof. intros Ht _. apply tg_tsc. exact Ht. Qed.

Lemma tgs_scts s l : Forall (tg (len s)) l -> Forall (sct true s) l.
Proof. apply Forall_impl. intros t. apply tg_sct. Qed.

Lemma Kp_alloc_var D pend s w : inv s -> Kp D pend s -> Kp D pend (snd (alloc_var s w)).
Proof.
  intros I. apply Kp_eq; auto.
  - intros y. apply alloc_var_bound.
  - intros u Lu _. rewrite alloc_var_cs_old by exact Lu. intros x Hx. rewrite alloc_var_cset. exact Hx.
Qed.

Lemma fresh_listK D pend n : forall s, inv s -> Kp D pend s ->
  ok true s (fresh_list n) (fun fr s1 => Kp D pend s1) s.
Proof.
  induction n as [|n IH]; intros s I Kk; cbn [fresh_list].
  - apply ok_ret; auto using ext_refl.
  - apply ok_fresh; auto using ext_refl. intros s1 Es1 I1 E1 _.
    assert (K1 : Kp D pend s1) by (subst s1; apply Kp_alloc_var; auto).
    eapply ok_bind; [apply ok_use; [exact E1|apply IH; auto]|].
    intros r s2 I2 E2 (K2 & E12). apply ok_ret; auto.
Qed.

Lemma eval_styK D pend env : forall t s, inv s -> Kp D pend s -> Forall (sct true s) env -> sty_wf (length env) t ->
  ok true s (eval_sty env t) (fun r s1 => Kp D pend s1 /\ sct true s1 r) s.
Proof.
  induction t as [i| |o args IH] using sty_ind'; intros s I Kk Se Wf; cbn [eval_sty].
  - apply ok_gets_end; auto using ext_refl. split; [exact Kk|]. apply follow_sct; auto.
    inversion Wf; subst. rewrite Forall_forall in Se. apply Se; auto. apply nth_In. auto.
  - apply ok_fresh; auto using ext_refl. intros s1 Es1 I1 E1 _. apply ok_ret; auto. split.
    + subst s1. apply Kp_alloc_var; auto.
    + apply scv_V. intros _. subst s1. rewrite alloc_var_length. lia.
  - eapply ok_bind with (Q1 := fun xs s1 => Kp D pend s1 /\ Forall (sct true s1) xs);
      [|intros xs s1 I1 E1 (K1 & Sx); apply ok_ret; auto using sct_O].
    assert (Wa : Forall (sty_wf (length env)) args) by (inversion Wf; auto).
    clear Wf. revert s I Kk Se. induction IH as [|a r Ha Hr IHr]; intros s I Kk Se; [apply ok_ret; auto using ext_refl|].
    inversion Wa as [|? ? Wa1 Wr]; subst.
    eapply ok_bind; [apply Ha; auto|].
    intros x s1 I1 E1 (K1 & Sx).
    assert (Se1 : Forall (sct true s1) env) by (eapply scts_ext; eauto).
    eapply ok_bind with (Q1 := fun xs s2 => (Kp D pend s2 /\ Forall (sct true s2) xs) /\ ext s1 s2).
    + apply ok_use; [exact E1|]. apply IHr; auto.
    + intros xs s2 I2 E2 ((K2 & Sxs) & E12). apply ok_ret; auto. split; [exact K2|].
      constructor; auto. eapply sct_ext; eauto.
Qed.

(* the declared alternatives of a schema constraint *)
Definition sop (t : sty) : nat := match t with SOp a _ => a | _ => 0 end.
Definition decl (sc : sconstr) : list nat :=
  match sc with SCSub _ t _ => [sop t] | SCElim _ alts => map sop alts end.

Lemma map_sop_sb l : map sop (map FL.sb l) = l.
Proof. rewrite map_map. cbn. apply map_id. Qed.

Lemma cst_ext_D D dk s pend c k : c < length D -> cst D s pend c k -> cst (D ++ [dk]) s pend c k.
Proof.
  intros Lc (Sh & Hr). split; [|exact Hr]. unfold shp in *. rewrite app_nth1 by exact Lc. exact Sh.
Qed.

Lemma new_constraintK fuel D dk k s : inv s -> Kp D none s -> length D = length (constrs s) ->
  shp (D ++ [dk]) (length (constrs s)) k -> k_done k = false ->
  (k_elim k = false -> length (k_alts k) = 1) -> Forall (sct true s) (constr_terms k) ->
  ok true s (new_constraint H fuel k) (fun _ s' => Kp (D ++ [dk]) none s') s.
Proof.
  intros I Kk LD Sh Dk Ar Sk. unfold new_constraint.
  apply ok_alloc_constr; auto using ext_refl. intros s1 Es1 I1 E1 _.
  set (c := length (constrs s)) in *.
  assert (Lc : c < length (constrs s1)) by (subst s1; rewrite alloc_constr_length; unfold c; lia).
  assert (N1 : length (constrs s1) = S c) by (subst s1; rewrite alloc_constr_length; reflexivity).
  assert (Ck1 : constr_of s1 c = k) by (subst s1; apply alloc_constr_new).
  assert (Old1 : forall c', c' < c -> constr_of s1 c' = constr_of s c') by (intros c' L; subst s1; apply alloc_constr_old; exact L).
  assert (Ev1 : vars s1 = vars s) by (subst s1; reflexivity).
  assert (Ec1 : csets s1 = csets s) by (subst s1; reflexivity).
  clear Es1.
  apply ok_lift; auto; [intros e; apply closure_f_err|]. intros vs Hvs.
  pose proof Hvs as Hvs0. apply closure_f_unbound in Hvs; auto; [|apply I1].
  eapply ok_bind with (Q1 := fun _ s2 =>
      ((forall w, c_bound (cell_of s2 w) = c_bound (cell_of s1 w)) /\ ext s1 s2) /\
      (vars s2 = vars s1 /\ constrs s2 = constrs s1 /\ (forall j, incl (cset_of s1 j) (cset_of s2 j)) /\
       forall v, In v vs -> c_cs (cell_of s1 v) < length (csets s1) -> In c (cset_of s2 (c_cs (cell_of s2 v))))).
  - match goal with |- ok _ _ (forM _ ?f) _ _ => change f with (inform c) end.
    apply ok_and; [|intros u s2 E2; exact (inform_facts c vs s1 u s2 E2)].
    unfold inform.
    apply ok_forM with (J := fun s2 => (forall w, c_bound (cell_of s2 w) = c_bound (cell_of s1 w)) /\ ext s1 s2);
      auto using ext_refl.
    intros v s2 Hv I2 E2 (B2 & E12). apply ok_gets.
    rewrite B2. rewrite Forall_forall in Hvs. rewrite (Hvs v Hv).
    apply ok_modify_end.
    + apply inv_set_cset; auto. apply Forall_ins; [|apply (inv_cs_Forall _ I2)].
      pose proof (ext_constrs E12). lia.
    + eapply ext_trans; [exact E2|apply ext_set_cset].
    + split; [exact B2|]. eapply ext_trans; [exact E12|apply ext_set_cset].
  - intros u s2 I2 E2 ((B2 & E12) & (Ev2 & Ek2 & Ec2 & Hin)).
    assert (Lc2 : c < length (constrs s2)) by (rewrite Ek2; exact Lc).
    assert (Ecell : forall y, cell_of s2 y = cell_of s y).
    { intros y. unfold cell_of. rewrite Ev2, Ev1. reflexivity. }
    assert (K2 : Kp (D ++ [dk]) (fun x => x = c) s2).
    { intros c' Lc'. rewrite Ek2, N1 in Lc'. unfold constr_of at 1. rewrite Ek2. fold (constr_of s1 c').
      destruct (Nat.eq_dec c' c) as [->|Nc].
      - rewrite Ck1. split; [exact Sh|]. intros r R.
        assert (R1 : rsv s1 (k_ref k) r).
        { eapply rsv_bound_eq; [|exact R]. intros y. symmetry. apply B2. }
        destruct r as [x|o args]; cbn [rcl].
        + rewrite Dk. apply Hin.
          * eapply closure_has; [exact Hvs0|]. apply rsv_follow. exact R1.
          * assert (Lx : x < length (vars s)).
            { assert (Ts : tsc (length (vars s)) (V x)).
              { eapply (rsv_tsc s); [apply (proj2 I eq_refl)|reflexivity| |].
                - eapply rsv_bound_eq; [|exact R1]. intros y. unfold cell_of. rewrite Ev1. reflexivity.
                - inversion Sk as [|? ? Sr _]; subst. apply Sr. reflexivity. }
              inversion Ts; assumption. }
            unfold cell_of, cset_of. rewrite Ev1, Ec1. apply (sc_cs (proj2 I eq_refl)). exact Lx.
        + right. split; [exact Dk|reflexivity].
      - assert (L : c' < c) by lia. rewrite (Old1 c' L).
        apply cst_ext_D; [rewrite LD; exact L|].
        eapply cst_transfer; [| | |apply Kk; exact L].
        + intros y. rewrite Ecell. reflexivity.
        + intros x _ _ Hx. rewrite Ecell. apply Ec2. unfold cset_of. rewrite Ec1. exact Hx.
        + intros []. }
    eapply ok_bind with (Q1 := fun _ s3 => Kp (D ++ [dk]) none s3); [|intros d s3 I3 E3 K3; done_ret].
    eapply ok_conseq; [apply ok_use; [exact E2|apply (fulfillK fuel (D ++ [dk]) (fun x => x = c) c s2 I2 K2 Lc2)]|].
    cbv beta. intros d s3 _ _ ((K3 & _) & _). eapply Kp_mono; [|exact K3]. intros x (-> & Ne). congruence.
Qed.


Lemma eval_constrK fuel D env sc s : inv s -> JE s -> Kp D none s -> length D = length (constrs s) ->
  Forall (tg (len s)) env -> pscE H (length env) sc ->
  ok true s (eval_constr H fuel env sc)
     (fun _ s' => Kp (D ++ [decl sc]) none s' /\ JE s' /\ lefE s s' /\
                  length (constrs s') = S (length (constrs s))) s.
Proof.
  intros I J0 Kk LD Fe Pc.
  eapply ok_conseq;
    [apply ok_and; [|intros u s' E; exact (eval_constr_goodE H W fuel env sc s J0 Fe Pc u s' E)]
    |cbv beta; intros u s' _ _ (X & Y); exact (conj X Y)].
  assert (Sn : forall i, i < length env -> sct true s (follow s (follow s (nth i env (V 0))))).
  { intros i Li. apply follow_sct; auto. apply follow_sct; auto. apply tg_sct.
    rewrite Forall_forall in Fe. apply Fe. apply nth_In. exact Li. }
  destruct Pc as [Pc|Pc].
  - destruct sc as [r t strict|r alts]; cbn [psc] in Pc; [|tauto].
    destruct r as [i| |]; try tauto. destruct t as [| |a [|x xs]]; try tauto. destruct Pc as (Li & Va).
    unfold ok. rewrite SoundElimS.eval_constr_sub. cbn [decl sop]. apply new_constraintK; auto.
    + unfold shp. cbn [sub_constr k_elim k_alts]. exists a. split; [reflexivity|apply Lub.basic_iff; exact Va].
    + unfold constr_terms. cbn [sub_constr k_ref k_alts].
      constructor; [apply Sn; exact Li|constructor; [apply sct_O0|constructor]].
  - destruct sc as [r t strict|r alts]; cbn [pec] in Pc; [tauto|].
    destruct r as [i| |]; try tauto. destruct Pc as (Li & l & Gl & ->).
    unfold ok. rewrite SoundElimS.eval_constr_elimE. cbn [decl]. rewrite map_sop_sb. apply new_constraintK; auto.
    + unfold shp. cbn [elim_constr k_elim k_alts]. exists l. split; [exact Gl|split; [reflexivity|]].
      rewrite app_nth2 by lia. rewrite LD, Nat.sub_diag. apply incl_refl.
    + cbn. discriminate.
    + unfold constr_terms. cbn [elim_constr k_ref k_alts]. constructor; [apply Sn; exact Li|].
      rewrite Forall_forall. intros x Hx. apply in_map_iff in Hx. destruct Hx as (m & <- & _). apply sct_O0.
Qed.

Lemma constrsK fuel env : forall cs D s, inv s -> JE s -> Kp D none s -> length D = length (constrs s) ->
  Forall (tg (len s)) env -> Forall (pscE H (length env)) cs ->
  ok true s (forM cs (eval_constr H fuel env))
     (fun _ s' => Kp (D ++ map decl cs) none s' /\ JE s' /\ lefE s s' /\
                  length (constrs s') = length (constrs s) + length cs) s.
Proof.
  induction cs as [|c cs IH]; intros D s I J0 Kk LD Fe Fc; cbn [forM map].
  - apply ok_ret; auto using ext_refl. rewrite app_nil_r.
    split; [exact Kk|split; [exact J0|split; [apply lefE_refl|cbn; lia]]].
  - inversion Fc as [|? ? Pc Fc']; subst.
    eapply ok_bind; [apply eval_constrK; eauto|].
    intros u s1 I1 E1 (K1 & J1 & L1 & N1).
    eapply ok_conseq; [apply ok_use; [exact E1|apply (IH (D ++ [decl c]) s1); auto]|].
    + rewrite app_length. cbn. lia.
    + eapply Forall_tg_mono; [apply (lefE_len H _ _ L1)|exact Fe].
    + cbv beta. intros u' s2 _ _ ((K2 & J2 & L2 & N2) & _). rewrite <- app_assoc in K2.
      split; [exact K2|split; [exact J2|split; [eapply lefE_trans; eauto|cbn; lia]]].
Qed.

Lemma instanceK fuel D sc s : inv s -> JE s -> Kp D none s -> length D = length (constrs s) ->
  styg H (s_n sc) (s_body sc) -> Forall (pscE H (s_n sc)) (s_constrs sc) ->
  ok true s (instance H fuel sc)
     (fun r s' => Kp (D ++ map decl (s_constrs sc)) none s' /\ JE s' /\ tg (len s') r /\
                  length (constrs s') = length (constrs s) + length (s_constrs sc)) s.
Proof.
  intros I J0 Kk LD Sb Pc.
  eapply ok_conseq; [apply ok_and; [|intros r s' E; exact (instance_goodE H W fuel sc s J0 Sb Pc r s' E)]|].
  2:{ cbv beta. intros r s' _ _ (K' & (J' & _ & T' & N')).
      split; [exact K'|split; [exact J'|split; [exact T'|exact N']]]. }
  unfold instance.
  eapply ok_bind.
  { apply ok_and; [apply (fresh_listK D none (s_n sc) s I Kk)
                  |intros env s1 E; exact (fresh_list_goodE H (s_n sc) s J0 env s1 E)]. }
  intros env s1 I1 E1 (K1 & (J1 & L1 & Fe & Ne & Ek1)).
  assert (Fe1 : Forall (tg (len s1)) env) by (eapply Forall_impl; [|exact Fe]; intros t; apply isvar_tg).
  assert (Sb' : styg H (length env) (s_body sc)) by (rewrite Ne; exact Sb).
  eapply ok_bind.
  { apply ok_use; [exact E1|].
    apply ok_and; [apply (eval_styK D none env (s_body sc) s1 I1 K1)
                  |intros b s2 E; exact (eval_sty_goodE H env (s_body sc) s1 J1 Fe1 Sb' b s2 E)].
    - apply tgs_scts. exact Fe1.
    - apply (styg_wf H). exact Sb'. }
  intros body s2 I2 E2 (((K2 & Sbd) & (J2 & L2 & Tb & Ek2)) & E12).
  eapply ok_bind.
  { apply ok_use; [exact E2|]. apply (constrsK fuel env (s_constrs sc) D s2); auto.
    - congruence.
    - eapply Forall_tg_mono; [apply (lefE_len H _ _ L2)|exact Fe1].
    - rewrite Ne. exact Pc. }
  intros u s3 I3 E3 ((K3 & J3 & L3 & N3) & E23).
  eapply ok_conseq; [apply ok_use; [exact E3|apply (fixK fuel _ none true body s3 I3 K3)]|].
  - apply tg_sct. eapply tg_mono; [apply (lefE_len H _ _ L3)|exact Tb].
  - cbv beta. intros r s4 _ _ ((K4 & _) & _). exact K4.
Qed.

Lemma applyK fuel D f0 x0 fixb s : inv s -> Kp D none s -> sct true s f0 -> sct true s x0 ->
  ok true s (apply H fuel f0 x0 fixb) (fun r s1 => Kp D none s1 /\ sct true s1 r) s.
Proof.
  intros I Kk Sf0 Sx0. unfold apply. apply ok_gets. apply ok_gets.
  pose proof (follow_unbound f0 I) as Nf.
  pose proof (follow_sct I Sf0) as Sf. pose proof (follow_sct I Sx0) as Sx.
  eapply ok_bind with (Q1 := fun f' s1 => Kp D none s1 /\ sct true s1 f').
  - destruct (follow s f0) as [vf|o args]; [|apply ok_ret; auto using ext_refl].
    apply ok_fresh; auto using ext_refl. intros s1 Es1 I1 E1 _.
    assert (K1 : Kp D none s1) by (subst s1; apply Kp_alloc_var; auto).
    apply ok_fresh; auto. intros s2 Es2 I2 E2 E12.
    assert (K2 : Kp D none s2) by (subst s2; apply Kp_alloc_var; auto).
    eapply ok_bind with (Q1 := KQ D none).
    + useK (bindK fuel D none).
      5:{ intros Bt. right. pose proof (sct_V Sf Bt) as Lvf.
          apply nocc_op. intros x [<-|[<-|[]]];
            (apply nocc_unb; [|subst s2 s1; rewrite !alloc_var_bound; rewrite cell_of_oob; [reflexivity|]]);
            try (subst s1; rewrite alloc_var_length); try rewrite alloc_var_length; lia. }
      * subst s2 s1. rewrite !alloc_var_bound. exact Nf.
      * exact Logic.I.
      * apply sct_V. eapply sct_ext; [exact E2|exact Sf].
      * apply sct_O. constructor; [|constructor; [|constructor]]; apply scv_V; intros _.
        -- pose proof (ext_vars E12) as L. subst s1. rewrite alloc_var_length in L. lia.
        -- subst s2. rewrite alloc_var_length. lia.
    + intros u s3 I3 E3 K3. apply ok_gets_end; auto. split; [exact K3|].
      apply follow_sct; auto. eapply sct_ext; eauto.
  - intros f' s1 I1 E1 (K1 & Sf').
    destruct f' as [v|o [|lft [|rgt [|z r]]]]; try done_fail; break_if; try done_fail;
      try (apply ok_ret; auto using sct_O0; fail).
    + apply sct_args in Sf'. inversion Sf' as [|? ? Sl Sr']; subst. inversion Sr' as [|? ? Sr _]; subst.
      assert (Sx1 : sct true s1 (follow s x0)) by (eapply sct_ext; eauto).
      eapply ok_bind with (Q1 := fun _ s2 => Kp D none s2 /\ ext s1 s2).
      { eapply ok_conseq; [apply ok_use; [exact E1|apply (unifyK fuel D none); auto]|]. cbv beta. auto. }
      intros u s2 I2 E2 (K2 & E12).
      assert (Sr2 : sct true s2 rgt) by (eapply sct_ext; eauto).
      eapply ok_conseq; [apply ok_use; [exact E2|apply (fixK fuel D none); auto]|].
      cbv beta. intros r s4 _ _ ((K4 & _ & Sr4) & _). auto.
    + apply sct_args in Sf'. inversion Sf' as [|? ? Sl Sr']; subst. inversion Sr' as [|? ? Sr _]; subst.
      assert (Sx1 : sct true s1 (follow s x0)) by (eapply sct_ext; eauto).
      eapply ok_bind with (Q1 := fun _ s2 => Kp D none s2 /\ ext s1 s2).
      { eapply ok_conseq; [apply ok_use; [exact E1|apply (unifyK fuel D none); auto]|]. cbv beta. auto. }
      intros u s2 I2 E2 (K2 & E12). apply ok_ret; auto. split; [exact K2|]. eapply sct_ext; eauto.
Qed.

Definition decls_cmd (c : cmd) : list (list nat) :=
  match c with CInst sc => map decl (s_constrs sc) | _ => [] end.
Fixpoint decls (cs : list cmd) : list (list nat) :=
  match cs with [] => [] | c :: r => decls_cmd c ++ decls r end.

Lemma run_cmdK fuel D c vals s : inv s -> JE s -> Kp D none s -> length D = length (constrs s) ->
  Forall (tg (len s)) vals -> cmdE H (length vals) c ->
  ok true s (run_cmd H fuel c vals)
     (fun vals' s' => Kp (D ++ decls_cmd c) none s' /\ JE s' /\
                      length (D ++ decls_cmd c) = length (constrs s') /\
                      Forall (tg (len s')) vals' /\ length vals' = S (length vals)) s.
Proof.
  intros I J0 Kk LD Fv Pc.
  eapply ok_conseq;
    [apply ok_and; [|intros v' s' E; exact (run_cmd_goodE H W fuel c vals s J0 Fv Pc v' s' E)]|].
  2:{ cbv beta. intros v' s' _ _ (K' & (t & Ev & Tt & J' & L' & N' & _)).
      split; [exact K'|]. subst v'. split; [exact J'|split; [|split]].
      - rewrite app_length, LD, N'. f_equal. destruct c; cbn [decls_cmd ncon]; try reflexivity. apply map_length.
      - apply Forall_app. split; [eapply Forall_tg_mono; [apply (lefE_len H _ _ L')|exact Fv]|constructor; auto].
      - rewrite app_length. cbn. lia. }
  destruct Pc as [sc Sb Pcs|f x b Lf Lx]; cbn [run_cmd decls_cmd].
  - eapply ok_bind; [apply instanceK; eauto|]. intros t s1 I1 E1 (K1 & _). apply ok_ret; auto.
  - rewrite app_nil_r.
    eapply ok_bind; [apply (applyK fuel D); auto; apply tg_sct; apply tg_val; auto|].
    intros t s1 I1 E1 (K1 & _). apply ok_ret; auto.
Qed.

Theorem run_cmdsK fuel : forall cs i vals D s vals' s', inv s -> JE s -> Kp D none s ->
  length D = length (constrs s) -> Forall (tg (len s)) vals ->
  progE H (length vals) cs -> run_cmds H fuel cs i vals s = (None, vals', s') ->
  inv s' /\ Kp (D ++ decls cs) none s'.
Proof.
  induction cs as [|c cs IH]; intros i vals D s vals' s' I J0 Kk LD Fv P R; cbn [run_cmds decls] in *.
  - inversion R; subst. rewrite app_nil_r. auto.
  - destruct P as [Pc Pr].
    pose proof (run_cmdK fuel D c vals s I J0 Kk LD Fv Pc) as O. unfold ok in O.
    destruct (run_cmd H fuel c vals s) as [vals1 s1|e s1]; [|discriminate].
    destruct O as (I1 & E1 & K1 & J1 & LD1 & Fv1 & L1).
    rewrite app_assoc.
    eapply (IH (S i) vals1 (D ++ decls_cmd c) s1); eauto. rewrite L1. exact Pr.
Qed.

Lemma Kp_empty D sc : Kp D none (empty_store sc).
Proof. intros c Lc. cbn in Lc. lia. Qed.

Theorem elimK_final fuel sc prog vals s : progE H 0 prog ->
  run_cmds H fuel prog 0 [] (empty_store sc) = (None, vals, s) ->
  inv s /\ Kp (decls prog) none s.
Proof.
  intros P R.
  apply (run_cmdsK fuel prog 0 [] [] (empty_store sc) vals s (inv_empty true sc) (JE_empty H sc)
           (Kp_empty [] sc) eq_refl (Forall_nil _) P R).
Qed.

End KE.
