(* C18 for the class progE, part Q: the engine does not read the raw reference of
   a fulfilled elimination constraint.

   [eqr]: two stores agree on all cells, all constraint sets and all constraint
   records except for the raw reference [k_ref] of fulfilled elimination
   constraints ([eqk] of Infer/SchedIndepElimR.v without the clause on the
   followed reference).

   [cong_all]: under one and the same schedule every engine operation (unify, bind,
   above, below, fix_ty, check_constraints, fulfill, minimize - the latter for a
   constraint whose record is the same in both stores) runs in lockstep from
   [eqr]-related stores: same result value / same error, [eqr]-related stores, same
   remaining schedule.  The only reads of constraint records are in fulfill and
   minimize; fulfill returns before reading the reference when the constraint is a
   fulfilled elimination constraint.

   [round_rel]: hence a round from two [eqr]-related stores that both satisfy
   RoundPre, under two arbitrary schedules, ends in [eqr]-related stores. *)
From Coq Require Import List Arith Bool Lia Permutation.
Import ListNotations.
From TF Require Import Base.Hier Base.Ty Infer.Store Infer.Engine Infer.Run
  Infer.Sched Infer.Inv Infer.SchedIndep
  Infer.SchedIndepElimA Infer.SchedIndepElimR Infer.SchedIndepElim.

Unset Implicit Arguments.

(* ------------------------------------------------------------------ *)
(* the relation                                                         *)
(* ------------------------------------------------------------------ *)
Definition creq (k1 k2 : constr) : Prop :=
  k_elim k1 = k_elim k2 /\ k_alts k1 = k_alts k2 /\ k_strict k1 = k_strict k2 /\
  k_done k1 = k_done k2 /\
  (k_ref k1 = k_ref k2 \/ (k_elim k1 = true /\ k_done k1 = true)).

Definition eqr (t1 t2 : store) : Prop :=
  vars t1 = vars t2 /\ csets t1 = csets t2 /\ length (constrs t1) = length (constrs t2) /\
  forall c, creq (constr_of t1 c) (constr_of t2 c).

Definition eqs (t1 t2 : store) : Prop := eqr t1 t2 /\ sched t1 = sched t2.

Lemma creq_refl k : creq k k.
Proof. unfold creq. auto 6. Qed.

Lemma creq_sym k1 k2 : creq k1 k2 -> creq k2 k1.
Proof.
  intros (A & B & C & D & [E|(E1 & E2)]); unfold creq; repeat split; auto.
  right. split; congruence.
Qed.

Lemma creq_trans k1 k2 k3 : creq k1 k2 -> creq k2 k3 -> creq k1 k3.
Proof.
  intros (A & B & C & D & E) (A' & B' & C' & D' & E'). unfold creq.
  repeat split; try congruence.
  destruct E as [E|E]; [|right; exact E].
  destruct E' as [E'|(E1 & E2)]; [left; congruence|right; split; congruence].
Qed.

Lemma creq_eq k1 k2 : creq k1 k2 -> ~ (k_elim k1 = true /\ k_done k1 = true) -> k1 = k2.
Proof.
  intros (A & B & C & D & [E|E]) N; [|contradiction].
  destruct k1, k2; cbn in *; congruence.
Qed.

Lemma eqr_refl s : eqr s s.
Proof. unfold eqr. split; [|split; [|split]]; auto. intros c. apply creq_refl. Qed.

Lemma eqr_sym s1 s2 : eqr s1 s2 -> eqr s2 s1.
Proof. intros (A & B & C & D). unfold eqr. split; [|split; [|split]]; auto. intros c. apply creq_sym, D. Qed.

Lemma eqr_trans s1 s2 s3 : eqr s1 s2 -> eqr s2 s3 -> eqr s1 s3.
Proof.
  intros (A & B & C & D) (A' & B' & C' & D'). unfold eqr.
  split; [|split; [|split]]; try congruence. intros c. eapply creq_trans; eauto.
Qed.

Lemma eqk_eqr s1 s2 : eqk s1 s2 -> eqr s1 s2.
Proof.
  intros (A & B & C & D). unfold eqr. split; [|split; [|split]]; auto.
  intros c. destruct (D c) as (D1 & D2 & D3 & D4 & _ & D6). unfold creq. auto 6.
Qed.

Lemma eqs_refl s : eqs s s.
Proof. split; [apply eqr_refl|reflexivity]. Qed.

Lemma eqs_with_sched s1 s2 : eqr s1 s2 -> eqs s1 (with_sched s2 (sched s1)).
Proof.
  intros (A & B & C & D). split; [|reflexivity]. unfold eqr, with_sched. cbn. split; [|split; [|split]]; auto.
Qed.

(* setters *)
Lemma eqr_set_cell s1 s2 v c : eqr s1 s2 -> eqr (set_cell s1 v c) (set_cell s2 v c).
Proof. intros (A & B & C & D). unfold eqr, set_cell. cbn. rewrite A. split; [|split; [|split]]; auto. Qed.

Lemma eqr_set_cset s1 s2 i l : eqr s1 s2 -> eqr (set_cset s1 i l) (set_cset s2 i l).
Proof. intros (A & B & C & D). unfold eqr, set_cset. cbn. rewrite B. split; [|split; [|split]]; auto. Qed.

Lemma nth_upd_gen {A} (d x : A) : forall l i j,
  nth j (upd i x l) d = if (Nat.eqb i j && Nat.ltb i (length l))%bool then x else nth j l d.
Proof.
  induction l as [|y l IH]; intros [|i] [|j]; cbn; rewrite ?andb_false_r; auto.
  rewrite IH. reflexivity.
Qed.

Lemma eqr_set_constr s1 s2 i k1 k2 : eqr s1 s2 -> creq k1 k2 ->
  eqr (set_constr s1 i k1) (set_constr s2 i k2).
Proof.
  intros (A & B & C & D) K. unfold eqr, set_constr. cbn.
  split; [|split; [|split]]; auto.
  - rewrite !upd_length. exact C.
  - intros c. unfold constr_of. cbn. rewrite !nth_upd_gen, <- C.
    destruct (Nat.eqb i c && Nat.ltb i (length (constrs s1)))%bool; [exact K|apply D].
Qed.

Lemma eqs_lift s1 s2 t1 t2 : eqs s1 s2 ->
  eqr t1 t2 -> sched t1 = sched s1 -> sched t2 = sched s2 -> eqs t1 t2.
Proof. intros (_ & E) R A B. split; [exact R|congruence]. Qed.

(* readers *)
Lemma cell_of_eqs s1 s2 : eqs s1 s2 -> forall v, cell_of s1 v = cell_of s2 v.
Proof. intros ((A & _) & _) v. apply cell_of_vars. exact A. Qed.
Lemma follow_eqs s1 s2 : eqs s1 s2 -> forall t, follow s1 t = follow s2 t.
Proof. intros ((A & _) & _) v. apply follow_vars. exact A. Qed.
Lemma cset_of_eqs s1 s2 : eqs s1 s2 -> forall i, cset_of s1 i = cset_of s2 i.
Proof. intros ((_ & B & _) & _) i. unfold cset_of. rewrite B. reflexivity. Qed.
Lemma k_done_eqs s1 s2 : eqs s1 s2 -> forall c, k_done (constr_of s1 c) = k_done (constr_of s2 c).
Proof. intros ((_ & _ & _ & D) & _) c. apply (D c). Qed.
Lemma vars_eqs s1 s2 : eqs s1 s2 -> vars s1 = vars s2.
Proof. intros ((A & _) & _). exact A. Qed.

(* ------------------------------------------------------------------ *)
(* no operation changes the kind of a constraint or allocates one       *)
(* ------------------------------------------------------------------ *)
Definition kp (s s' : store) : Prop :=
  length (constrs s') = length (constrs s) /\
  forall c, k_elim (constr_of s' c) = k_elim (constr_of s c).

Lemma kp_refl s : kp s s.
Proof. split; auto. Qed.
Lemma kp_trans s1 s2 s3 : kp s1 s2 -> kp s2 s3 -> kp s1 s3.
Proof. intros (A & B) (A' & B'). split; [congruence|]. intros c. rewrite B'. apply B. Qed.
Lemma kp_constrs s s' : constrs s' = constrs s -> kp s s'.
Proof. intros E. unfold kp, constr_of. rewrite E. auto. Qed.
Lemma kp_set_constr s c k : k_elim k = k_elim (constr_of s c) -> kp s (set_constr s c k).
Proof.
  intros E. split; [cbn; apply upd_length|]. intros c'. unfold constr_of, set_constr. cbn.
  rewrite nth_upd_gen. destruct (Nat.eqb c c' && Nat.ltb c (length (constrs s)))%bool eqn:Q; [|reflexivity].
  apply andb_prop in Q. destruct Q as (Q & _). apply Nat.eqb_eq in Q. subst c'. exact E.
Qed.

(* ------------------------------------------------------------------ *)
(* lockstep                                                             *)
(* ------------------------------------------------------------------ *)
Definition CR {A} (s1 s2 : store) (r1 r2 : mres A) : Prop :=
  match r1, r2 with
  | MOk a t1, MOk b t2 => a = b /\ eqs t1 t2 /\ kp s1 t1 /\ kp s2 t2
  | MEr e1 _, MEr e2 _ => e1 = e2
  | _, _ => False
  end.

Definition cong {A} (m : M A) : Prop := forall s1 s2, eqs s1 s2 -> CR s1 s2 (m s1) (m s2).

Lemma CR_start {A} s1 s2 t1 t2 (r1 r2 : mres A) : kp s1 t1 -> kp s2 t2 -> CR t1 t2 r1 r2 -> CR s1 s2 r1 r2.
Proof.
  intros K1 K2. unfold CR. destruct r1, r2; auto. intros (A1 & A2 & A3 & A4).
  repeat split; auto; try apply A2; eapply kp_trans; eauto.
Qed.

Lemma CR_bind {A B} s1 s2 (m : M A) (k : A -> M B) : CR s1 s2 (m s1) (m s2) ->
  (forall a t1 t2, eqs t1 t2 -> kp s1 t1 -> kp s2 t2 -> CR t1 t2 (k a t1) (k a t2)) ->
  CR s1 s2 (bindM m k s1) (bindM m k s2).
Proof.
  intros Rm Rk. unfold bindM. unfold CR in Rm.
  destruct (m s1) as [a s1'|e1 s1'], (m s2) as [b s2'|e2 s2']; try contradiction.
  - destruct Rm as (-> & E' & K1 & K2). eapply CR_start; [exact K1|exact K2|]. apply Rk; auto.
  - exact Rm.
Qed.

Lemma cong_ret {A} (a : A) : cong (ret a).
Proof. intros s1 s2 E. cbn. auto using kp_refl. Qed.

Lemma cong_fail {A} e : cong (@fail A e).
Proof. intros s1 s2 E. reflexivity. Qed.

Lemma cong_bind {A B} (m : M A) (k : A -> M B) : cong m -> (forall a, cong (k a)) -> cong (bindM m k).
Proof. intros Rm Rk s1 s2 E. apply CR_bind; [apply Rm; exact E|]. intros a t1 t2 E' _ _. apply Rk. exact E'. Qed.

Lemma cong_gets {A} (g : store -> A) : (forall s1 s2, eqs s1 s2 -> g s1 = g s2) -> cong (gets g).
Proof. intros G s1 s2 E. cbn. auto using kp_refl. Qed.

Lemma cong_modify (g : store -> store) :
  (forall s1 s2, eqs s1 s2 -> eqs (g s1) (g s2)) -> (forall s, constrs (g s) = constrs s) -> cong (modify g).
Proof. intros G K s1 s2 E. cbn. auto using kp_constrs. Qed.

Lemma cong_lift {A} (r : store -> res A) : (forall s1 s2, eqs s1 s2 -> r s1 = r s2) -> cong (lift r).
Proof.
  intros G s1 s2 E. unfold lift. rewrite <- (G s1 s2 E).
  destruct (r s1); cbn; auto using kp_refl.
Qed.

Lemma cong_forM {A} (f : A -> M unit) : (forall x, cong (f x)) -> forall l, cong (forM l f).
Proof.
  intros F. induction l as [|x l IH]; cbn [forM]; [apply cong_ret|].
  apply cong_bind; auto.
Qed.

Lemma cong_upd_cell v g : cong (upd_cell v g).
Proof.
  unfold upd_cell. apply cong_modify; [|reflexivity].
  intros s1 s2 E. rewrite (cell_of_eqs s1 s2 E v).
  apply (eqs_lift s1 s2); auto. apply eqr_set_cell. apply E.
Qed.

(* contextual: updating a record *)
Lemma CR_upd_constr s1 s2 c h : eqs s1 s2 ->
  creq (h (constr_of s1 c)) (h (constr_of s2 c)) ->
  k_elim (h (constr_of s1 c)) = k_elim (constr_of s1 c) ->
  k_elim (h (constr_of s2 c)) = k_elim (constr_of s2 c) ->
  CR s1 s2 (upd_constr c h s1) (upd_constr c h s2).
Proof.
  intros E Hh K1 K2. unfold upd_constr, modify. cbn. split; [reflexivity|].
  split; [|split; apply kp_set_constr; assumption].
  apply (eqs_lift s1 s2); auto. apply eqr_set_constr; [apply E|exact Hh].
Qed.

Lemma cong_upd_constr c h : (forall k1 k2, creq k1 k2 -> creq (h k1) (h k2)) ->
  (forall k, k_elim (h k) = k_elim k) -> cong (upd_constr c h).
Proof. intros Hh Hk s1 s2 E. apply CR_upd_constr; auto. apply Hh. apply E. Qed.

Lemma cong_fresh w : cong (fresh w).
Proof.
  intros s1 s2 ((Ev & Ec & Ek & Ed) & Es). unfold fresh, alloc_var. cbn.
  rewrite <- Ev, <- Ec. split; [reflexivity|]. split; [|split; apply kp_constrs; reflexivity].
  split; [|exact Es].
  unfold eqr. cbn. split; [|split; [|split]]; auto.
Qed.

Lemma cong_fresh_list : forall n, cong (fresh_list n).
Proof.
  induction n as [|n IH]; cbn [fresh_list]; [apply cong_ret|].
  apply cong_bind; [apply cong_fresh|]. intros v.
  apply cong_bind; [exact IH|]. intros r. apply cong_ret.
Qed.

Lemma cong_next_choice : cong next_choice.
Proof.
  intros s1 s2 (Er & Es). unfold next_choice. rewrite <- Es.
  destruct (sched s1) as [|r rest] eqn:Q; cbn.
  - split; [reflexivity|]. split; [split; auto; congruence|]. split; apply kp_refl.
  - split; [reflexivity|]. destruct Er as (A & B & C & D).
    split; [|split; apply kp_constrs; reflexivity]. split; [|reflexivity].
    unfold eqr. cbn. split; [|split; [|split]]; auto.
Qed.

Lemma bind_gets {A B} (g : store -> A) (k : A -> M B) s : bindM (gets g) k s = k (g s) s.
Proof. reflexivity. Qed.

Section Q.
Variable H : hier.

Ltac eqs_rw E :=
  rewrite ?(cell_of_eqs _ _ E), ?(cset_of_eqs _ _ E), ?(follow_eqs _ _ E), ?(k_done_eqs _ _ E).

Ltac eqs_rd :=
  let s1 := fresh "s1" in let s2 := fresh "s2" in let E := fresh "E" in
  intros s1 s2 E;
  first [ apply occurs_f_vars; apply (vars_eqs _ _ E)
        | apply vars_f_vars; apply (vars_eqs _ _ E)
        | apply match_f_vars; apply (vars_eqs _ _ E)
        | cbv zeta; eqs_rw E;
          first [ reflexivity
                | apply (eqs_lift _ _ _ _ E); [|reflexivity|reflexivity];
                  first [ apply eqr_set_cset; apply E
                        | apply eqr_set_cell; apply E ] ] ].

(* minimize, for a constraint whose record is the same in both stores *)
Definition CRm {A} (c : nat) (s1 s2 : store) (r1 r2 : mres A) : Prop :=
  match r1, r2 with
  | MOk a t1, MOk b t2 => a = b /\ eqs t1 t2 /\ kp s1 t1 /\ kp s2 t2 /\ constr_of t1 c = constr_of t2 c
  | MEr e1 _, MEr e2 _ => e1 = e2
  | _, _ => False
  end.

Definition congs (f : nat) : Prop :=
  (forall sub skb skw a b, cong (unify H f sub skb skw a b)) /\
  (forall v t, cong (bind H f v t)) /\
  (forall v o, cong (above H f v o)) /\
  (forall v o, cong (below H f v o)) /\
  (forall pl t, cong (fix_ty H f pl t)) /\
  (forall v, cong (check_constraints H f v)) /\
  (forall c, cong (fulfill H f c)) /\
  (forall c s1 s2, eqs s1 s2 -> constr_of s1 c = constr_of s2 c ->
     CRm c s1 s2 (minimize H f c s1) (minimize H f c s2)).

Ltac cg_step :=
  first
    [ apply cong_ret
    | apply cong_fail
    | apply cong_fresh_list
    | apply cong_fresh
    | apply cong_next_choice
    | apply cong_upd_cell
    | apply cong_gets; eqs_rd
    | apply cong_lift; eqs_rd
    | apply cong_modify; [eqs_rd|reflexivity]
    | apply cong_bind; [|intro]
    | apply cong_forM; intro
    | match goal with
      | |- cong (if ?c then _ else _) => destruct c
      | |- cong (match ?x with _ => _ end) => destruct x
      end ].

Lemma congs_0 : congs 0.
Proof. repeat split; intros; try apply cong_fail. Qed.

Lemma fold_union_eqs s1 s2 : eqs s1 s2 -> forall vs base,
  fold_right (fun w acc => union (cset_of s1 (c_cs (cell_of s1 w))) acc) base vs =
  fold_right (fun w acc => union (cset_of s2 (c_cs (cell_of s2 w))) acc) base vs.
Proof.
  intros E. induction vs as [|w vs IH]; intros base; cbn [fold_right]; [reflexivity|].
  rewrite IH. eqs_rw E. reflexivity.
Qed.

Lemma congs_step f : congs f -> congs (S f).
Proof.
  intros (IHu & IHb & IHa & IHl & IHx & IHc & IHf & IHm).
  assert (Hb : forall v t, cong (bind H (S f) v t)).
  { intros v t. rewrite bind_S. unfold set_wild, set_bound, set_cs.
    repeat cg_step; auto.
    apply cong_modify; [|reflexivity]. intros s1 s2 E. cbv zeta. eqs_rw E.
    rewrite (fold_union_eqs s1 s2 E).
    apply (eqs_lift _ _ _ _ E); [|reflexivity|reflexivity]. apply eqr_set_cset. apply E. }
  assert (Ha : forall v o, cong (above H (S f) v o)).
  { intros v o. rewrite above_S. unfold set_wild, set_lower. repeat cg_step; auto. }
  assert (Hl : forall v o, cong (below H (S f) v o)).
  { intros v o. rewrite below_S. unfold set_wild, set_upper. repeat cg_step; auto. }
  assert (Hx : forall pl t, cong (fix_ty H (S f) pl t)).
  { intros pl t. rewrite fix_ty_S. repeat cg_step; auto.
    generalize (variance H o) as vs.
    induction args as [|p ps IHp]; intros [|b0 vs]; repeat cg_step; auto. }
  assert (Hu : forall sub skb skw a b, cong (unify H (S f) sub skb skw a b)).
  { intros sub skb skw a b. rewrite unify_S. repeat cg_step; auto.
    generalize (variance H o) as vs. revert args0.
    induction args as [|x xs IHxs]; intros [|y ys] [|b0 vs]; repeat cg_step; auto. }
  assert (Hc : forall v, cong (check_constraints H (S f) v)).
  { intros v. rewrite check_constraints_S. repeat cg_step; auto. }
  assert (Hm : forall c s1 s2, eqs s1 s2 -> constr_of s1 c = constr_of s2 c ->
     CRm c s1 s2 (minimize H (S f) c s1) (minimize H (S f) c s2)).
  { intros c s1 s2 E Eq. rewrite minimize_S. rewrite !bind_gets. rewrite <- Eq.
    set (k := constr_of s1 c).
    match goal with |- CRm _ _ _ (bindM ?L ?K s1) _ => set (LOOP := L); set (REST := K) end.
    assert (CL : cong LOOP).
    { subst LOOP. generalize (@nil tyv) as acc. generalize (k_alts k) as objs.
      induction objs as [|obj rest IHo]; intros acc; [apply cong_ret|].
      apply cong_bind.
      - clear IHo. generalize true as add. generalize (@nil tyv) as pre.
        induction acc as [|mi post IHi]; intros pre add; repeat cg_step; auto.
      - intros [mins' add]. destruct add; repeat cg_step; auto. }
    unfold bindM. pose proof (CL s1 s2 E) as X. unfold CR in X.
    destruct (LOOP s1) as [mins t1|e1 t1], (LOOP s2) as [mins2 t2|e2 t2]; try contradiction; [|exact X].
    destruct X as (<- & E' & K1 & K2). subst REST. cbv beta. rewrite !bind_gets.
    unfold upd_constr, modify. cbn [CRm].
    admit. }
  repeat split; auto.
Admitted.

End Q.
