(* C18 for the class progE, part Q: the engine does not read the raw reference of
   a fulfilled elimination constraint.

   [eqr]: two stores agree on all cells, all constraint sets and all constraint
   records except for the raw reference [k_ref] of fulfilled elimination
   constraints ([eqk] of Infer/SchedIndepElimR.v without the clause on the
   followed reference).

   [cong_all]: under one and the same schedule every engine operation (unify, bind,
   above, below, fix_ty, check_constraints, fulfill, minimize - the latter for a
   constraint whose record is the same in both stores) runs in lockstep from
   [eqr]-related stores: same result value / same error, [eqr]-related stores, same
   remaining schedule.  The only reads of constraint records are in fulfill and
   minimize; fulfill returns before reading the reference when the constraint is a
   fulfilled elimination constraint.

   [kp]: no engine operation allocates a constraint or changes the kind of one
   (tracked along, so that the updates of fulfill, which write a constant kind,
   are seen to preserve [eqr]).

   [round_rel]: hence a round from two [eqr]-related stores, one of which satisfies
   RoundPre, under two arbitrary schedules, ends in [eqr]-related stores
   (lockstep to move the first store's schedule onto the second store's data, then
   the one-round theorem [round_indep]). *)
From Coq Require Import List Arith Bool Lia Permutation.
Import ListNotations.
From TF Require Import Base.Hier Base.Ty Infer.Store Infer.Engine Infer.Run
  Infer.Sched Infer.Inv Infer.SchedIndep
  Infer.TermElim Infer.SchedIndepElimA Infer.SchedIndepElimR Infer.SchedIndepElim.

Unset Implicit Arguments.

(* ------------------------------------------------------------------ *)
(* the relation                                                         *)
(* ------------------------------------------------------------------ *)
Definition creq (k1 k2 : constr) : Prop :=
  k_elim k1 = k_elim k2 /\ k_alts k1 = k_alts k2 /\ k_strict k1 = k_strict k2 /\
  k_done k1 = k_done k2 /\
  (k_ref k1 = k_ref k2 \/ (k_elim k1 = true /\ k_done k1 = true)).

Definition eqr (t1 t2 : store) : Prop :=
  vars t1 = vars t2 /\ csets t1 = csets t2 /\ length (constrs t1) = length (constrs t2) /\
  forall c, creq (constr_of t1 c) (constr_of t2 c).

Definition eqs (t1 t2 : store) : Prop := eqr t1 t2 /\ sched t1 = sched t2.

Lemma creq_refl k : creq k k.
Proof. unfold creq. auto 6. Qed.

Lemma creq_sym k1 k2 : creq k1 k2 -> creq k2 k1.
Proof.
  intros (A & B & C & D & [E|(E1 & E2)]); unfold creq; repeat split; auto.
  right. split; congruence.
Qed.

Lemma creq_trans k1 k2 k3 : creq k1 k2 -> creq k2 k3 -> creq k1 k3.
Proof.
  intros (A & B & C & D & E) (A' & B' & C' & D' & E'). unfold creq.
  repeat split; try congruence.
  destruct E as [E|E]; [|right; exact E].
  destruct E' as [E'|(E1 & E2)]; [left; congruence|right; split; congruence].
Qed.

Lemma creq_eq k1 k2 : creq k1 k2 -> ~ (k_elim k1 = true /\ k_done k1 = true) -> k1 = k2.
Proof.
  intros (A & B & C & D & [E|E]) N; [|contradiction].
  destruct k1, k2; cbn in *; congruence.
Qed.

Lemma creq_filt k1 k2 a : creq k1 k2 ->
  creq (mkConstr true (k_ref k1) a (k_strict k1) (k_done k1)) (mkConstr true (k_ref k2) a (k_strict k2) (k_done k2)).
Proof.
  intros (A & B & C & D & [E|(E1 & E2)]); unfold creq; cbn; repeat split; auto.
Qed.

Lemma creq_mark k1 k2 : creq k1 k2 ->
  creq (mkConstr true (k_ref k1) (k_alts k1) (k_strict k1) true) (mkConstr true (k_ref k2) (k_alts k2) (k_strict k2) true).
Proof.
  intros (A & B & C & D & E); unfold creq; cbn; repeat split; auto.
Qed.

Lemma creq_markS k1 k2 : creq k1 k2 -> k_elim k1 = false ->
  creq (mkConstr false (k_ref k1) (k_alts k1) (k_strict k1) true) (mkConstr false (k_ref k2) (k_alts k2) (k_strict k2) true).
Proof.
  intros (A & B & C & D & [E|(E1 & E2)]) F; [|congruence]. unfold creq; cbn; repeat split; auto.
Qed.

Lemma eqr_refl s : eqr s s.
Proof. unfold eqr. split; [|split; [|split]]; auto. intros c. apply creq_refl. Qed.

Lemma eqr_sym s1 s2 : eqr s1 s2 -> eqr s2 s1.
Proof. intros (A & B & C & D). unfold eqr. split; [|split; [|split]]; auto. intros c. apply creq_sym, D. Qed.

Lemma eqr_trans s1 s2 s3 : eqr s1 s2 -> eqr s2 s3 -> eqr s1 s3.
Proof.
  intros (A & B & C & D) (A' & B' & C' & D'). unfold eqr.
  split; [|split; [|split]]; try congruence. intros c. eapply creq_trans; eauto.
Qed.

Lemma eqk_eqr s1 s2 : eqk s1 s2 -> eqr s1 s2.
Proof.
  intros (A & B & C & D). unfold eqr. split; [|split; [|split]]; auto.
  intros c. destruct (D c) as (D1 & D2 & D3 & D4 & _ & D6). unfold creq. auto 6.
Qed.

Lemma eqs_refl s : eqs s s.
Proof. split; [apply eqr_refl|reflexivity]. Qed.

Lemma eqs_with_sched s1 s2 : eqr s1 s2 -> eqs s1 (with_sched s2 (sched s1)).
Proof.
  intros (A & B & C & D). split; [|reflexivity]. unfold eqr, with_sched. cbn. split; [|split; [|split]]; auto.
Qed.

(* setters *)
Lemma eqr_set_cell s1 s2 v c : eqr s1 s2 -> eqr (set_cell s1 v c) (set_cell s2 v c).
Proof. intros (A & B & C & D). unfold eqr, set_cell. cbn. rewrite A. split; [|split; [|split]]; auto. Qed.

Lemma eqr_set_cset s1 s2 i l : eqr s1 s2 -> eqr (set_cset s1 i l) (set_cset s2 i l).
Proof. intros (A & B & C & D). unfold eqr, set_cset. cbn. rewrite B. split; [|split; [|split]]; auto. Qed.

Lemma nth_upd_gen {A} (d x : A) : forall l i j,
  nth j (upd i x l) d = if (Nat.eqb i j && Nat.ltb i (length l))%bool then x else nth j l d.
Proof.
  induction l as [|y l IH]; intros [|i] [|j]; cbn; rewrite ?andb_false_r; auto.
  rewrite IH. reflexivity.
Qed.

Lemma eqr_set_constr s1 s2 i k1 k2 : eqr s1 s2 -> creq k1 k2 ->
  eqr (set_constr s1 i k1) (set_constr s2 i k2).
Proof.
  intros (A & B & C & D) K. unfold eqr, set_constr. cbn.
  split; [|split; [|split]]; auto.
  - rewrite !upd_length. exact C.
  - intros c. unfold constr_of. cbn. rewrite !nth_upd_gen, <- C.
    destruct (Nat.eqb i c && Nat.ltb i (length (constrs s1)))%bool; [exact K|apply D].
Qed.

Lemma eqs_lift s1 s2 t1 t2 : eqs s1 s2 ->
  eqr t1 t2 -> sched t1 = sched s1 -> sched t2 = sched s2 -> eqs t1 t2.
Proof. intros (_ & E) R A B. split; [exact R|congruence]. Qed.

(* readers *)
Lemma cell_of_eqs s1 s2 : eqs s1 s2 -> forall v, cell_of s1 v = cell_of s2 v.
Proof. intros ((A & _) & _) v. apply cell_of_vars. exact A. Qed.
Lemma follow_eqs s1 s2 : eqs s1 s2 -> forall t, follow s1 t = follow s2 t.
Proof. intros ((A & _) & _) v. apply follow_vars. exact A. Qed.
Lemma cset_of_eqs s1 s2 : eqs s1 s2 -> forall i, cset_of s1 i = cset_of s2 i.
Proof. intros ((_ & B & _) & _) i. unfold cset_of. rewrite B. reflexivity. Qed.
Lemma k_done_eqs s1 s2 : eqs s1 s2 -> forall c, k_done (constr_of s1 c) = k_done (constr_of s2 c).
Proof. intros ((_ & _ & _ & D) & _) c. apply (D c). Qed.
Lemma vars_eqs s1 s2 : eqs s1 s2 -> vars s1 = vars s2.
Proof. intros ((A & _) & _). exact A. Qed.

(* ------------------------------------------------------------------ *)
(* no operation changes the kind of a constraint or allocates one       *)
(* ------------------------------------------------------------------ *)
Definition kp (s s' : store) : Prop :=
  length (constrs s') = length (constrs s) /\
  forall c, k_elim (constr_of s' c) = k_elim (constr_of s c).

Lemma kp_refl s : kp s s.
Proof. split; auto. Qed.
Lemma kp_trans s1 s2 s3 : kp s1 s2 -> kp s2 s3 -> kp s1 s3.
Proof. intros (A & B) (A' & B'). split; [congruence|]. intros c. rewrite B'. apply B. Qed.
Lemma kp_constrs s s' : constrs s' = constrs s -> kp s s'.
Proof. intros E. unfold kp, constr_of. rewrite E. auto. Qed.
Lemma kp_set_constr s c k : k_elim k = k_elim (constr_of s c) -> kp s (set_constr s c k).
Proof.
  intros E. split; [cbn; apply upd_length|]. intros c'. unfold constr_of, set_constr. cbn.
  rewrite nth_upd_gen. destruct (Nat.eqb c c' && Nat.ltb c (length (constrs s)))%bool eqn:Q; [|reflexivity].
  apply andb_prop in Q. destruct Q as (Q & _). apply Nat.eqb_eq in Q. subst c'. exact E.
Qed.

(* ------------------------------------------------------------------ *)
(* lockstep                                                             *)
(* ------------------------------------------------------------------ *)
Definition CR {A} (s1 s2 : store) (r1 r2 : mres A) : Prop :=
  match r1, r2 with
  | MOk a t1, MOk b t2 => a = b /\ eqs t1 t2 /\ kp s1 t1 /\ kp s2 t2
  | MEr e1 _, MEr e2 _ => e1 = e2
  | _, _ => False
  end.

Definition cong {A} (m : M A) : Prop := forall s1 s2, eqs s1 s2 -> CR s1 s2 (m s1) (m s2).

Lemma CR_start {A} s1 s2 t1 t2 (r1 r2 : mres A) : kp s1 t1 -> kp s2 t2 -> CR t1 t2 r1 r2 -> CR s1 s2 r1 r2.
Proof.
  intros K1 K2. unfold CR. destruct r1, r2; auto. intros (A1 & A2 & A3 & A4).
  repeat split; auto; try apply A2; eapply kp_trans; eauto.
Qed.

Lemma CR_bind {A B} s1 s2 (m : M A) (k : A -> M B) : CR s1 s2 (m s1) (m s2) ->
  (forall a t1 t2, eqs t1 t2 -> kp s1 t1 -> kp s2 t2 -> CR t1 t2 (k a t1) (k a t2)) ->
  CR s1 s2 (bindM m k s1) (bindM m k s2).
Proof.
  intros Rm Rk. unfold bindM. unfold CR in Rm.
  destruct (m s1) as [a s1'|e1 s1'], (m s2) as [b s2'|e2 s2']; try contradiction.
  - destruct Rm as (-> & E' & K1 & K2). eapply CR_start; [exact K1|exact K2|]. apply Rk; auto.
  - exact Rm.
Qed.

Lemma CRm_bind {A B} c s1 s2 (m : M A) (k : A -> M B) :
  match m s1, m s2 with
  | MOk a t1, MOk b t2 => a = b /\ eqs t1 t2 /\ kp s1 t1 /\ kp s2 t2 /\ constr_of t1 c = constr_of t2 c
  | MEr e1 _, MEr e2 _ => e1 = e2
  | _, _ => False
  end ->
  (forall a t1 t2, eqs t1 t2 -> kp s1 t1 -> kp s2 t2 -> constr_of t1 c = constr_of t2 c ->
     CR t1 t2 (k a t1) (k a t2)) ->
  CR s1 s2 (bindM m k s1) (bindM m k s2).
Proof.
  intros Rm Rk. unfold bindM.
  destruct (m s1) as [a s1'|e1 s1'], (m s2) as [b s2'|e2 s2']; try contradiction.
  - destruct Rm as (-> & E' & K1 & K2 & Q). eapply CR_start; [exact K1|exact K2|]. apply Rk; auto.
  - exact Rm.
Qed.

Lemma cong_ret {A} (a : A) : cong (ret a).
Proof. intros s1 s2 E. cbn. auto using kp_refl. Qed.

Lemma cong_fail {A} e : cong (@fail A e).
Proof. intros s1 s2 E. reflexivity. Qed.

Lemma cong_bind {A B} (m : M A) (k : A -> M B) : cong m -> (forall a, cong (k a)) -> cong (bindM m k).
Proof. intros Rm Rk s1 s2 E. apply CR_bind; [apply Rm; exact E|]. intros a t1 t2 E' _ _. apply Rk. exact E'. Qed.

Lemma cong_gets {A} (g : store -> A) : (forall s1 s2, eqs s1 s2 -> g s1 = g s2) -> cong (gets g).
Proof. intros G s1 s2 E. cbn. auto using kp_refl. Qed.

Lemma cong_modify (g : store -> store) :
  (forall s1 s2, eqs s1 s2 -> eqs (g s1) (g s2)) -> (forall s, constrs (g s) = constrs s) -> cong (modify g).
Proof. intros G K s1 s2 E. cbn. auto using kp_constrs. Qed.

Lemma cong_lift {A} (r : store -> res A) : (forall s1 s2, eqs s1 s2 -> r s1 = r s2) -> cong (lift r).
Proof.
  intros G s1 s2 E. unfold lift. rewrite <- (G s1 s2 E).
  destruct (r s1); cbn; auto using kp_refl.
Qed.

Lemma cong_forM {A} (f : A -> M unit) : (forall x, cong (f x)) -> forall l, cong (forM l f).
Proof.
  intros F. induction l as [|x l IH]; cbn [forM]; [apply cong_ret|].
  apply cong_bind; auto.
Qed.

Lemma cong_upd_cell v g : cong (upd_cell v g).
Proof.
  unfold upd_cell. apply cong_modify; [|reflexivity].
  intros s1 s2 E. rewrite (cell_of_eqs s1 s2 E v).
  apply (eqs_lift s1 s2); auto. apply eqr_set_cell. apply E.
Qed.

(* contextual: updating a record *)
Lemma CR_upd_constr s1 s2 c h : eqs s1 s2 ->
  creq (h (constr_of s1 c)) (h (constr_of s2 c)) ->
  k_elim (h (constr_of s1 c)) = k_elim (constr_of s1 c) ->
  k_elim (h (constr_of s2 c)) = k_elim (constr_of s2 c) ->
  CR s1 s2 (upd_constr c h s1) (upd_constr c h s2).
Proof.
  intros E Hh K1 K2. unfold upd_constr, modify. cbn. split; [reflexivity|].
  split; [|split; apply kp_set_constr; assumption].
  apply (eqs_lift s1 s2); auto. apply eqr_set_constr; [apply E|exact Hh].
Qed.

Lemma cong_upd_constr c h : (forall k1 k2, creq k1 k2 -> creq (h k1) (h k2)) ->
  (forall k, k_elim (h k) = k_elim k) -> cong (upd_constr c h).
Proof. intros Hh Hk s1 s2 E. apply CR_upd_constr; auto. apply Hh. apply E. Qed.

Lemma cong_fresh w : cong (fresh w).
Proof.
  intros s1 s2 ((Ev & Ec & Ek & Ed) & Es). unfold fresh, alloc_var. cbn.
  rewrite <- Ev, <- Ec. split; [reflexivity|]. split; [|split; apply kp_constrs; reflexivity].
  split; [|exact Es].
  unfold eqr. cbn. split; [|split; [|split]]; auto.
Qed.

Lemma cong_fresh_list : forall n, cong (fresh_list n).
Proof.
  induction n as [|n IH]; cbn [fresh_list]; [apply cong_ret|].
  apply cong_bind; [apply cong_fresh|]. intros v.
  apply cong_bind; [exact IH|]. intros r. apply cong_ret.
Qed.

Lemma cong_next_choice : cong next_choice.
Proof.
  intros s1 s2 (Er & Es). unfold next_choice. rewrite <- Es.
  destruct (sched s1) as [|r rest] eqn:Q; cbn.
  - split; [reflexivity|]. split; [split; auto; congruence|]. split; apply kp_refl.
  - split; [reflexivity|]. destruct Er as (A & B & C & D).
    split; [|split; apply kp_constrs; reflexivity]. split; [|reflexivity].
    unfold eqr. cbn. split; [|split; [|split]]; auto.
Qed.

Lemma bind_gets {A B} (g : store -> A) (k : A -> M B) s : bindM (gets g) k s = k (g s) s.
Proof. reflexivity. Qed.

Section Q.
Variable H : hier.

Ltac eqs_rw E :=
  rewrite ?(cell_of_eqs _ _ E), ?(cset_of_eqs _ _ E), ?(follow_eqs _ _ E), ?(k_done_eqs _ _ E).

Ltac eqs_rd :=
  let s1 := fresh "s1" in let s2 := fresh "s2" in let E := fresh "E" in
  intros s1 s2 E;
  first [ apply occurs_f_vars; apply (vars_eqs _ _ E)
        | apply vars_f_vars; apply (vars_eqs _ _ E)
        | apply match_f_vars; apply (vars_eqs _ _ E)
        | cbv zeta; eqs_rw E;
          first [ reflexivity
                | apply (eqs_lift _ _ _ _ E); [|reflexivity|reflexivity];
                  first [ apply eqr_set_cset; apply E
                        | apply eqr_set_cell; apply E ] ] ].

(* minimize, for a constraint whose record is the same in both stores *)
Definition CRm {A} (c : nat) (s1 s2 : store) (r1 r2 : mres A) : Prop :=
  match r1, r2 with
  | MOk a t1, MOk b t2 => a = b /\ eqs t1 t2 /\ kp s1 t1 /\ kp s2 t2 /\ constr_of t1 c = constr_of t2 c
  | MEr e1 _, MEr e2 _ => e1 = e2
  | _, _ => False
  end.

Definition congs (f : nat) : Prop :=
  (forall sub skb skw a b, cong (unify H f sub skb skw a b)) /\
  (forall v t, cong (bind H f v t)) /\
  (forall v o, cong (above H f v o)) /\
  (forall v o, cong (below H f v o)) /\
  (forall pl t, cong (fix_ty H f pl t)) /\
  (forall v, cong (check_constraints H f v)) /\
  (forall c, cong (fulfill H f c)) /\
  (forall c s1 s2, eqs s1 s2 -> constr_of s1 c = constr_of s2 c ->
     CRm c s1 s2 (minimize H f c s1) (minimize H f c s2)).

Ltac cg_step :=
  first
    [ apply cong_ret
    | apply cong_fail
    | apply cong_fresh_list
    | apply cong_fresh
    | apply cong_next_choice
    | apply cong_upd_cell
    | apply cong_gets; eqs_rd
    | apply cong_lift; eqs_rd
    | apply cong_modify; [eqs_rd|reflexivity]
    | apply cong_bind; [|intro]
    | apply cong_forM; intro
    | match goal with
      | |- cong (if ?c then _ else _) => destruct c
      | |- cong (match ?x with _ => _ end) => destruct x
      end ].

Lemma congs_0 : congs 0.
Proof. repeat split; intros; try apply cong_fail. Qed.

Lemma fold_union_eqs s1 s2 : eqs s1 s2 -> forall vs base,
  fold_right (fun w acc => union (cset_of s1 (c_cs (cell_of s1 w))) acc) base vs =
  fold_right (fun w acc => union (cset_of s2 (c_cs (cell_of s2 w))) acc) base vs.
Proof.
  intros E. induction vs as [|w vs IH]; intros base; cbn [fold_right]; [reflexivity|].
  rewrite IH. eqs_rw E. reflexivity.
Qed.

Lemma congs_step f : congs f -> congs (S f).
Proof.
  intros (IHu & IHb & IHa & IHl & IHx & IHc & IHf & IHm).
  assert (Hb : forall v t, cong (bind H (S f) v t)).
  { intros v t. rewrite bind_S. unfold set_wild, set_bound, set_cs.
    repeat cg_step; auto.
    apply cong_modify; [|reflexivity]. intros s1 s2 E. cbv zeta. eqs_rw E.
    rewrite (fold_union_eqs s1 s2 E).
    apply (eqs_lift _ _ _ _ E); [|reflexivity|reflexivity]. apply eqr_set_cset. apply E. }
  assert (Ha : forall v o, cong (above H (S f) v o)).
  { intros v o. rewrite above_S. unfold set_wild, set_lower. repeat cg_step; auto. }
  assert (Hl : forall v o, cong (below H (S f) v o)).
  { intros v o. rewrite below_S. unfold set_wild, set_upper. repeat cg_step; auto. }
  assert (Hx : forall pl t, cong (fix_ty H (S f) pl t)).
  { intros pl t. rewrite fix_ty_S. repeat cg_step; auto.
    generalize (variance H o) as vs.
    induction args as [|p ps IHp]; intros [|b0 vs]; repeat cg_step; auto. }
  assert (Hu : forall sub skb skw a b, cong (unify H (S f) sub skb skw a b)).
  { intros sub skb skw a b. rewrite unify_S. repeat cg_step; auto.
    generalize (variance H o) as vs. revert args0.
    induction args as [|x xs IHxs]; intros [|y ys] [|b0 vs]; repeat cg_step; auto. }
  assert (Hc : forall v, cong (check_constraints H (S f) v)).
  { intros v. rewrite check_constraints_S. repeat cg_step; auto. }
  assert (Hm : forall c s1 s2, eqs s1 s2 -> constr_of s1 c = constr_of s2 c ->
     CRm c s1 s2 (minimize H (S f) c s1) (minimize H (S f) c s2)).
  { intros c s1 s2 E Eq. rewrite minimize_S. rewrite !bind_gets. rewrite <- Eq.
    set (k := constr_of s1 c).
    match goal with |- CRm _ _ _ (bindM ?L ?K s1) _ => set (LOOP := L); set (REST := K) end.
    assert (CL : cong LOOP).
    { subst LOOP.
      match goal with |- cong (?F _ _) => assert (CO : forall objs acc, cong (F objs acc)); [|apply CO] end.
      induction objs as [|obj rest IHo]; intros acc; [apply cong_ret|].
      apply cong_bind.
      - clear IHo.
        match goal with |- cong (?F _ _ _) =>
          assert (CI : forall post pre add, cong (F pre post add)); [|apply CI] end.
        induction post as [|mi post IHi]; intros pre add; repeat cg_step; auto.
      - intros [mins' add]. destruct add; repeat cg_step; auto. }
    unfold bindM. pose proof (CL s1 s2 E) as X. unfold CR in X.
    destruct (LOOP s1) as [mins t1|e1 t1], (LOOP s2) as [mins2 t2|e2 t2]; try contradiction; [|exact X].
    destruct X as (<- & E' & K1 & K2). subst REST. cbv beta. rewrite !bind_gets.
    unfold upd_constr, modify. cbn [CRm].
    pose proof E' as ((Ev & Ecs & El & Ed) & Esch). destruct (Ed c) as (D1 & D2 & D3 & D4 & _).
    assert (Fo : forall t, follow t1 t = follow t2 t) by (apply follow_eqs; exact E').
    rewrite (map_ext _ _ Fo), Fo, D1, D3, D4.
    match goal with |- context [set_constr t2 c ?r] => set (k' := r) end.
    split; [reflexivity|].
    split; [apply (eqs_lift t1 t2); auto; apply eqr_set_constr; [apply E'|apply creq_refl]|].
    split; [eapply kp_trans; [exact K1|apply kp_set_constr; cbn; congruence]|].
    split; [eapply kp_trans; [exact K2|apply kp_set_constr; cbn; congruence]|].
    unfold constr_of, set_constr; cbn. rewrite !nth_upd_gen, El, Nat.eqb_refl. cbn [andb].
    destruct (Nat.ltb c (length (constrs t2))) eqn:Q; [reflexivity|].
    apply Nat.ltb_ge in Q. rewrite !nth_overflow; auto; lia. }
  assert (Hf : forall c, cong (fulfill H (S f) c)).
  { intros c s1 s2 E. rewrite fulfill_S. rewrite !bind_gets.
    pose proof E as ((_ & _ & _ & Ed) & _). pose proof (Ed c) as Kc.
    destruct (k_elim (constr_of s1 c)) eqn:El1.
    - assert (El2 : k_elim (constr_of s2 c) = true) by (destruct Kc as (A & _); congruence).
      rewrite El2.
      destruct (k_done (constr_of s1 c)) eqn:Dn1.
      + assert (Dn2 : k_done (constr_of s2 c) = true) by (destruct Kc as (_ & _ & _ & A & _); congruence).
        rewrite Dn2. apply cong_ret. exact E.
      + assert (Dn2 : k_done (constr_of s2 c) = false) by (destruct Kc as (_ & _ & _ & A & _); congruence).
        rewrite Dn2.
        assert (Eq : constr_of s1 c = constr_of s2 c)
          by (apply creq_eq; [exact Kc|intros (_ & X); congruence]).
        apply (CRm_bind c); [apply IHm; auto|].
        intros [] t1 t2 E1 K1 K2 Eq1. rewrite !bind_gets. rewrite <- Eq1.
        set (k1 := constr_of t1 c).
        match goal with |- CR _ _ ((if negb ?a then _ else _) _) ((if negb ?b then _ else _) _) =>
          assert (Nm : a = b) by (unfold cell_of; rewrite (vars_eqs _ _ E1); reflexivity) end.
        rewrite Nm. match goal with |- CR _ _ ((if ?a then _ else _) _) _ => destruct a end; [reflexivity|].
        apply CR_bind.
        { apply cong_lift; [|exact E1]. intros u1 u2 Eu.
          induction (k_alts k1) as [|t r IH]; [reflexivity|].
          rewrite (match_f_vars H f u1 u2 true true (k_ref k1) t (vars_eqs _ _ Eu)), IH. reflexivity. }
        intros alts u1 u2 Eu Ku1 Ku2.
        assert (Kl : forall u, kp t1 u -> k_elim (constr_of u c) = true)
          by (intros u Ku; rewrite (proj2 Ku), (proj2 K1); exact El1).
        assert (Kr : forall u, kp t2 u -> k_elim (constr_of u c) = true)
          by (intros u Ku; rewrite (proj2 Ku), (proj2 K2); exact El2).
        apply CR_bind.
        { apply CR_upd_constr; [exact Eu|apply creq_filt; apply Eu|cbn; symmetry; auto|cbn; symmetry; auto]. }
        intros [] w1 w2 Ew Kw1 Kw2.
        pose proof (kp_trans _ _ _ Ku1 Kw1) as Kw1'. pose proof (kp_trans _ _ _ Ku2 Kw2) as Kw2'.
        destruct alts as [|t [|t' r]].
        * reflexivity.
        * apply CR_bind.
          { apply CR_upd_constr; [exact Ew|apply creq_mark; apply Ew|cbn; symmetry; auto|cbn; symmetry; auto]. }
          intros [] x1 x2 Ex _ _. apply CR_bind; [apply IHu; exact Ex|].
          intros [] y1 y2 Ey _ _. revert y1 y2 Ey. repeat cg_step.
        * revert w1 w2 Ew Kw1 Kw2 Kw1' Kw2'. intros w1 w2 Ew _ _ _ _. revert w1 w2 Ew. repeat cg_step.
    - assert (El2 : k_elim (constr_of s2 c) = false) by (destruct Kc as (A & _); congruence).
      rewrite El2.
      assert (Eq : constr_of s1 c = constr_of s2 c)
        by (apply creq_eq; [exact Kc|intros (X & _); congruence]).
      rewrite <- Eq. set (k := constr_of s1 c).
      destruct (k_alts k) as [|target [|t' r']]; [reflexivity| |reflexivity].
      apply CR_bind; [apply IHu; exact E|]. intros [] t1 t2 E1 K1 K2.
      apply CR_bind; [apply cong_lift; [eqs_rd|exact E1]|]. intros r u1 u2 Eu Ku1 Ku2.
      pose proof (kp_trans _ _ _ K1 Ku1) as Ku1'. pose proof (kp_trans _ _ _ K2 Ku2) as Ku2'.
      destruct r as [[|]|].
      + apply CR_bind.
        { destruct (k_strict k); [apply cong_lift; [eqs_rd|exact Eu]|apply cong_ret; exact Eu]. }
        intros same w1 w2 Ew Kw1 Kw2.
        pose proof (kp_trans _ _ _ Ku1' Kw1) as Kw1'. pose proof (kp_trans _ _ _ Ku2' Kw2) as Kw2'.
        destruct same as [[|]|].
        * reflexivity.
        * apply CR_bind.
          { apply CR_upd_constr; [exact Ew|apply creq_markS; [apply Ew|]|cbn; symmetry|cbn; symmetry].
            - rewrite (proj2 Kw1'). exact El1.
            - rewrite (proj2 Kw1'). exact El1.
            - rewrite (proj2 Kw2'). exact El2. }
          intros [] x1 x2 Ex _ _. apply cong_ret; exact Ex.
        * clear Kw1 Kw2 Kw1' Kw2'. revert w1 w2 Ew. repeat cg_step.
      + reflexivity.
      + clear Ku1 Ku2 Ku1' Ku2'. revert u1 u2 Eu. repeat cg_step. }
  repeat split; auto.
Qed.

Theorem cong_all : forall f, congs f.
Proof. induction f as [|f IH]; [apply congs_0|apply congs_step; exact IH]. Qed.

Lemma cong_cc f v : cong (check_constraints H f v).
Proof. apply cong_all. Qed.
Lemma cong_unify f sub skb skw a b : cong (unify H f sub skb skw a b).
Proof. apply cong_all. Qed.
Lemma cong_bind_var f v t : cong (bind H f v t).
Proof. apply cong_all. Qed.
Lemma cong_above f v o : cong (above H f v o).
Proof. apply cong_all. Qed.
Lemma cong_below f v o : cong (below H f v o).
Proof. apply cong_all. Qed.
Lemma cong_fix_ty f pl t : cong (fix_ty H f pl t).
Proof. apply cong_all. Qed.
Lemma cong_fulfill f c : cong (fulfill H f c).
Proof. apply cong_all. Qed.



(* ------------------------------------------------------------------ *)
(* one round from two related stores under two schedules                *)
(* ------------------------------------------------------------------ *)
Lemma with_sched_self s : with_sched s (sched s) = s.
Proof. destruct s; reflexivity. Qed.

Theorem round_rel (W : wf_hier H) f1 f2 v s1 s2 : eqr s1 s2 -> RoundPre H s2 v ->
  match check_constraints H f1 v s1, check_constraints H f2 v s2 with
  | MOk _ t1, MOk _ t2 => eqr t1 t2
  | MOk _ _, MEr e _ => e = EFuel
  | MEr e _, MOk _ _ => e = EFuel
  | MEr _ _, MEr _ _ => True
  end.
Proof.
  intros E P.
  pose proof (cong_cc f1 v s1 _ (eqs_with_sched s1 s2 E)) as C.
  pose proof (round_indep H W f1 f2 v s2 (sched s1) (sched s2) P) as R.
  rewrite (with_sched_self s2) in R. unfold CR in C.
  destruct (check_constraints H f1 v s1) as [u1 t1|e1 t1],
           (check_constraints H f1 v (with_sched s2 (sched s1))) as [u' t'|e' t'],
           (check_constraints H f2 v s2) as [u2 t2|e2 t2]; try contradiction; auto.
  - destruct C as (_ & (C & _) & _). eapply eqr_trans; [exact C|apply eqk_eqr; exact R].
  - congruence.
Qed.

Theorem round_rel_fuel (W : wf_hier H) f1 f2 v s1 s2 : eqr s1 s2 -> RoundPre H s2 v ->
  5 * und s2 + 5 <= f1 -> 5 * und s2 + 5 <= f2 ->
  match check_constraints H f1 v s1, check_constraints H f2 v s2 with
  | MOk _ t1, MOk _ t2 => eqr t1 t2
  | MEr e1 _, MEr e2 _ => e1 <> EFuel /\ e2 <> EFuel
  | _, _ => False
  end.
Proof.
  intros E P L1 L2.
  pose proof (cong_cc f1 v s1 _ (eqs_with_sched s1 s2 E)) as C.
  pose proof (round_indep_fuel H W f1 f2 v s2 (sched s1) (sched s2) P L1 L2) as R.
  rewrite (with_sched_self s2) in R. unfold CR in C.
  destruct (check_constraints H f1 v s1) as [u1 t1|e1 t1],
           (check_constraints H f1 v (with_sched s2 (sched s1))) as [u' t'|e' t'],
           (check_constraints H f2 v s2) as [u2 t2|e2 t2]; try contradiction; auto.
  - destruct C as (_ & (C & _) & _). eapply eqr_trans; [exact C|apply eqk_eqr; exact R].
  - subst e'. exact R.
Qed.

End Q.
