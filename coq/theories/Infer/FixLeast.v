(* C05, last sentence: "Fixing a type whose bounded variables each occur with a
   single polarity yields the least instantiation within the bounds (lower
   bounds in covariant, upper bounds in contravariant positions)", and fuel
   (termination) bounds for the constraint-free fragment P (C17).

   All statements are about the frozen engine model Infer/Engine.v.

   Part 1  follow: [follow s t] is the end of the binding chain of t ([reach]).
   Part 2  polarity: [occ s pl t q v] - descending from t with the flag
           prefer_lower = pl, flipping it at contravariant parameters and
           looking through bindings, one reaches the unbound variable v with
           flag q.  [occurs_pos] / [occurs_neg] / [single_polarity].
   Part 3  what fix does ([fix_spec_all], [fix_binds]): in a store without
           constraints (Sound.J) a successful fix_ty binds exactly the
           unbound variables met with flag true that have a lower bound (to
           that bound) and those met with flag false that have an upper bound,
           and changes nothing else; the result is [follow s' t].
   Part 4  leastness ([fix_least_gen], [fix_least]).
   Part 5  termination: fix_ty always succeeds with fuel >= xdepth s t + 3
           ([fix_total]); explicit depth bound [xdepth] for every term of a
           store satisfying the full invariant ([dle_xdepth]).
   The fuel bounds for unify and apply are in Infer/TermP.v. *)
From Coq Require Import List Arith Bool Lia.
Import ListNotations.
From TF Require Import Base.Hier Base.Ty Sub.SubSpec Infer.Store Infer.Engine Infer.Run
  Infer.Inv Infer.Sound.
From TF Require Infer.Lub.

Unset Implicit Arguments.

Local Notation len s := (length (vars s)).

(* ------------------------------------------------------------------ *)
(* Part 1: follow is the end of the binding chain                       *)
(* ------------------------------------------------------------------ *)

Inductive reach (s : store) : tyv -> tyv -> Prop :=
| reach_refl t : reach s t t
| reach_step v t e : c_bound (cell_of s v) = Some t -> reach s t e -> reach s (V v) e.

Lemma reach_follow_f s : forall fuel t, reach s t (follow_f fuel s t).
Proof.
  induction fuel as [|f IH]; intros [v|o args]; cbn [follow_f]; try apply reach_refl.
  - destruct (c_bound (cell_of s v)); apply reach_refl.
  - destruct (c_bound (cell_of s v)) as [t'|] eqn:Hv; [|apply reach_refl].
    eapply reach_step; eauto.
Qed.

Lemma reach_follow s t : reach s t (follow s t).
Proof. apply reach_follow_f. Qed.

Lemma reach_trans s a b c : reach s a b -> reach s b c -> reach s a c.
Proof. induction 1; intros; auto. eapply reach_step; eauto. Qed.

Lemma reach_ext s s' :
  (forall v t, c_bound (cell_of s v) = Some t -> c_bound (cell_of s' v) = Some t) ->
  forall a b, reach s a b -> reach s' a b.
Proof.
  intros E a b R. induction R as [t|v t e Hv R IH]; [apply reach_refl|].
  eapply reach_step; eauto.
Qed.

Lemma follow_f_reach_nb s t l : chainl s t l -> forall fuel e, length l <= fuel ->
  reach s t e -> nb s e -> follow_f fuel s t = e.
Proof.
  induction 1 as [v Hv|v t l Hv Hc IH|o args]; intros fuel e L R N.
  - inversion R; subst; [|congruence]. apply follow_f_of_nb. exact N.
  - destruct fuel as [|f]; [cbn in L; lia|]. cbn [follow_f]. rewrite Hv.
    inversion R as [|v' t' e' Hv' R']; subst.
    + cbn in N. congruence.
    + rewrite Hv in Hv'. injection Hv' as <-. apply IH; auto. cbn in L. lia.
  - inversion R; subst. destruct fuel; reflexivity.
Qed.

Lemma core_chain_all s t : core s -> chain s t.
Proof.
  intros C. destruct t as [v|o args]; [apply (core_chain C)|exists []; constructor].
Qed.

Lemma follow_reach_nb s t e : core s -> reach s t e -> nb s e -> follow s t = e.
Proof.
  intros C R N. destruct (core_chain_all s t C) as (l & Cl). unfold follow.
  eapply follow_f_reach_nb; eauto. pose proof (chainl_length Cl). lia.
Qed.

(* following in a later store: first following in the earlier one is harmless *)
Lemma follow_follow s s' t : core s' ->
  (forall v x, c_bound (cell_of s v) = Some x -> c_bound (cell_of s' v) = Some x) ->
  follow s' (follow s t) = follow s' t.
Proof.
  intros C E. symmetry. apply follow_reach_nb; auto.
  - eapply reach_trans; [eapply reach_ext; [exact E|apply reach_follow]|apply reach_follow].
  - apply follow_unbound_core. exact C.
Qed.

(* ------------------------------------------------------------------ *)
(* Part 2: polarity of occurrences                                      *)
(* ------------------------------------------------------------------ *)
Section Pol.
Variable H : hier.

(* [occ s pl t q v]: descending from t with flag pl (flipped at the [false]
   entries of [variance H o]) and looking through bindings one reaches the
   unbound variable v with flag q *)
Inductive occ (s : store) : bool -> tyv -> bool -> nat -> Prop :=
| occ_unb pl v : c_bound (cell_of s v) = None -> occ s pl (V v) pl v
| occ_bnd pl w t q v : c_bound (cell_of s w) = Some t -> occ s pl t q v -> occ s pl (V w) q v
| occ_op pl o args i x b q v :
    nth_error (variance H o) i = Some b -> nth_error args i = Some x ->
    occ s (if b then pl else negb pl) x q v -> occ s pl (O o args) q v.

(* v occurs in t (after following bindings) at a covariant / contravariant position *)
Definition occurs_pos (s : store) (t : tyv) (v : nat) : Prop := occ s true t true v.
Definition occurs_neg (s : store) (t : tyv) (v : nat) : Prop := occ s true t false v.

(* "bounded variables each occur with a single polarity" *)
Definition bounded (s : store) (v : nat) : Prop :=
  c_lower (cell_of s v) <> None \/ c_upper (cell_of s v) <> None.
Definition single_polarity (s : store) (t : tyv) : Prop :=
  forall v, bounded s v -> ~ (occurs_pos s t v /\ occurs_neg s t v).

(* occurrences in a zipped parameter list *)
Definition occl (s : store) (pl : bool) (vs : list bool) (ps : list tyv) (q : bool) (v : nat) : Prop :=
  exists i b x, nth_error vs i = Some b /\ nth_error ps i = Some x /\
                occ s (if b then pl else negb pl) x q v.

Lemma occ_op_iff s pl o args q v : occ s pl (O o args) q v <-> occl s pl (variance H o) args q v.
Proof.
  split.
  - intros Oc. inversion Oc; subst. exists i, b, x. auto.
  - intros (i & b & x & A & B & C). eapply occ_op; eauto.
Qed.

Lemma occl_cons s pl b vs p ps q v :
  occl s pl (b :: vs) (p :: ps) q v <-> occ s (if b then pl else negb pl) p q v \/ occl s pl vs ps q v.
Proof.
  split.
  - intros (i & b' & x & A & B & C). destruct i as [|i]; cbn in A, B.
    + injection A as <-. injection B as <-. left. exact C.
    + right. exists i, b', x. auto.
  - intros [C|(i & b' & x & A & B & C)].
    + exists 0, b, p. auto.
    + exists (S i), b', x. auto.
Qed.

Lemma occl_nil_l s pl ps q v : ~ occl s pl [] ps q v.
Proof. intros (i & b & x & A & _). destruct i; discriminate. Qed.

Lemma occl_nil_r s pl vs q v : ~ occl s pl vs [] q v.
Proof. intros (i & b & x & _ & A & _). destruct i; discriminate. Qed.

Lemma occ_unbound s pl t q v : occ s pl t q v -> c_bound (cell_of s v) = None.
Proof. induction 1; auto. Qed.

Lemma occ_reach s a b : reach s a b -> forall pl q v, occ s pl b q v -> occ s pl a q v.
Proof. induction 1; intros; auto. eapply occ_bnd; eauto. Qed.

Lemma occ_reach_inv s a b : reach s a b -> forall pl q v, occ s pl a q v -> occ s pl b q v.
Proof.
  induction 1 as [t|w t e Hw R IH]; intros pl q v Oc; auto.
  apply IH. inversion Oc; subst; congruence.
Qed.

Lemma occ_follow s t pl q v : occ s pl (follow s t) q v <-> occ s pl t q v.
Proof. split; [apply occ_reach|apply occ_reach_inv]; apply reach_follow. Qed.

Lemma occ_var_unb s pl v q w : c_bound (cell_of s v) = None -> occ s pl (V v) q w -> w = v /\ q = pl.
Proof. intros Hv Oc. inversion Oc; subst; [auto|congruence]. Qed.

(* ------------------------------------------------------------------ *)
(* Part 3: what fix does                                                *)
(* ------------------------------------------------------------------ *)

(* the cell of a variable after fix resolved it to the base type o *)
Definition bcell (c : cell) (o : nat) : cell :=
  mkCell false (Some (O o [])) (c_lower c) (c_upper c) (c_cs c).

(* the bound fix uses under flag q *)
Definition pbound (q : bool) (c : cell) : option nat := if q then c_lower c else c_upper c.

(* s' arises from s by resolving some unbound variables to base types *)
Record bstep (s s' : store) : Prop := mkBstep {
  bs_len : len s' = len s;
  bs_csets : csets s' = csets s;
  bs_constrs : constrs s' = constrs s;
  bs_sched : sched s' = sched s;
  bs_cell : forall v, cell_of s' v = cell_of s v \/
              (c_bound (cell_of s v) = None /\ exists o, cell_of s' v = bcell (cell_of s v) o)
}.

Lemma bstep_refl s : bstep s s.
Proof. constructor; auto. Qed.

Lemma bstep_bound s s' : bstep s s' -> forall v t, c_bound (cell_of s v) = Some t -> c_bound (cell_of s' v) = Some t.
Proof. intros B v t Hv. destruct (bs_cell _ _ B v) as [E|(E & _)]; congruence. Qed.

Lemma bstep_unb s s' : bstep s s' -> forall v, c_bound (cell_of s' v) = None -> cell_of s' v = cell_of s v.
Proof.
  intros B v Hv. destruct (bs_cell _ _ B v) as [E|(_ & o & E)]; auto. rewrite E in Hv. discriminate.
Qed.

Lemma bstep_trans s1 s2 s3 : bstep s1 s2 -> bstep s2 s3 -> bstep s1 s3.
Proof.
  intros A B. constructor.
  - rewrite (bs_len _ _ B). apply A.
  - rewrite (bs_csets _ _ B). apply A.
  - rewrite (bs_constrs _ _ B). apply A.
  - rewrite (bs_sched _ _ B). apply A.
  - intros v. destruct (bs_cell _ _ B v) as [E|(Hv & o & E)].
    + rewrite E. apply A.
    + destruct (bs_cell _ _ A v) as [E1|(Hv1 & o1 & E1)].
      * right. rewrite <- E1. split; [congruence|]. eauto.
      * rewrite E1 in Hv. discriminate.
Qed.

(* occurrences after a bstep: the same, for the variables still unbound *)
Lemma occ_bstep s s' : bstep s s' -> forall pl t q v,
  occ s' pl t q v <-> occ s pl t q v /\ c_bound (cell_of s' v) = None.
Proof.
  intros B pl t q v. split.
  - intros Oc. split; [|eapply occ_unbound; eauto].
    induction Oc as [pl v Hv|pl w t q v Hw Oc IH|pl o args i x b q v A Bx Oc IH].
    + apply occ_unb. rewrite <- (bstep_unb _ _ B v Hv). exact Hv.
    + destruct (bs_cell _ _ B w) as [E|(Hw0 & o & E)].
      * eapply occ_bnd; eauto. congruence.
      * exfalso. rewrite E in Hw. cbn in Hw. injection Hw as <-.
        inversion Oc; subst. destruct i; discriminate.
    + eapply occ_op; eauto.
  - intros [Oc Hv]. induction Oc as [pl v Hv0|pl w t q v Hw Oc IH|pl o args i x b q v A Bx Oc IH].
    + apply occ_unb. exact Hv.
    + eapply occ_bnd; eauto. eapply bstep_bound; eauto.
    + eapply occ_op; eauto.
Qed.

(* [fixesP s P s']: s' resolves exactly the unbound variables v that P meets
   with a flag q under which v has a bound, each to such a bound *)
Record fixesP (s : store) (P : bool -> nat -> Prop) (s' : store) : Prop := mkFixes {
  fx_step : bstep s s';
  fx_sound : forall v, cell_of s' v = cell_of s v \/
     (c_bound (cell_of s v) = None /\
      exists q o, P q v /\ pbound q (cell_of s v) = Some o /\ cell_of s' v = bcell (cell_of s v) o);
  fx_complete : forall q v o, P q v -> pbound q (cell_of s v) = Some o -> c_bound (cell_of s' v) <> None
}.

Lemma fixesP_ext s P P' s' : (forall q v, P q v <-> P' q v) -> fixesP s P s' -> fixesP s P' s'.
Proof.
  intros E [B S C]. constructor; auto.
  - intros v. destruct (S v) as [Ev|(Hv & q & o & Pv & Bo & Ev)]; [left; auto|right].
    split; auto. exists q, o. split; [apply E; auto|auto].
  - intros q v o Pv. apply C. apply E. exact Pv.
Qed.

Lemma fixesP_nil s (P : bool -> nat -> Prop) : (forall q v, ~ P q v) -> fixesP s P s.
Proof.
  intros N. constructor; [apply bstep_refl|auto|]. intros q v o Pv. destruct (N q v Pv).
Qed.

Lemma fixesP_seq s s1 s2 (P1 P2 P2' : bool -> nat -> Prop) :
  (forall q v, P1 q v -> c_bound (cell_of s v) = None) ->
  (forall q v, P2' q v <-> P2 q v /\ c_bound (cell_of s1 v) = None) ->
  fixesP s P1 s1 -> fixesP s1 P2' s2 -> fixesP s (fun q v => P1 q v \/ P2 q v) s2.
Proof.
  intros U1 E2 [B1 S1 C1] [B2 S2 C2]. constructor.
  - eapply bstep_trans; eauto.
  - intros v. destruct (S2 v) as [Ev|(Hv & q & o & Pv & Bo & Ev)].
    + rewrite Ev. destruct (S1 v) as [Ev1|(Hv1 & q & o & Pv & Bo & Ev1)]; [left; auto|right].
      split; auto. exists q, o. auto.
    + right. apply E2 in Pv. destruct Pv as [Pv _].
      pose proof (bstep_unb _ _ B1 v Hv) as E1. rewrite E1 in *.
      split; auto. exists q, o. auto.
  - intros q v o [Pv|Pv] Bo.
    + specialize (C1 q v o Pv Bo). destruct (c_bound (cell_of s1 v)) as [x|] eqn:Hx; [|congruence].
      rewrite (bstep_bound _ _ B2 v x Hx). discriminate.
    + destruct (c_bound (cell_of s1 v)) as [x|] eqn:Hx.
      * rewrite (bstep_bound _ _ B2 v x Hx). discriminate.
      * apply (C2 q v o); [apply E2; auto|]. rewrite (bstep_unb _ _ B1 v Hx). exact Bo.
Qed.

Definition fixes (s : store) (pl : bool) (t : tyv) (s' : store) : Prop := fixesP s (occ s pl t) s'.

Hypothesis W : wf_hier H.
Local Notation ole := (Lub.ole H).

Lemma osubT_false a b : ole b a -> a <> Bottom -> b <> Top -> osub H true a b = false.
Proof.
  intros L NB NT. destruct (osub H true a b) eqn:E; auto.
  apply (Lub.osubT_iff H W) in E. destruct E as [E|[E|[A N]]]; try congruence.
  exfalso. apply N. apply (Lub.ole_antisym H W); auto. right; right; exact A.
Qed.

(* fix's bind of a variable to one of its own bounds always succeeds *)
Lemma bind_fix_eval f v q o s : J H s -> v < len s -> c_bound (cell_of s v) = None ->
  pbound q (cell_of s v) = Some o ->
  bind H (S (S f)) v (O o []) s = MOk tt (set_cell s v (bcell (cell_of s v) o)).
Proof.
  intros I Lv Hv Bo. pose proof (J_b H s I v) as (Bl & Bu & Bc).
  unfold bcell. destruct (cell_of s v) as [w b lo up i] eqn:Hc. cbn [c_bound c_lower c_upper c_cs] in *.
  subst b.
  assert (Vo : variance H o = [] /\ o <> Top /\ o <> Bottom).
  { destruct q; cbn in Bo; subst.
    - destruct (Bl o eq_refl) as (a & b & c); auto.
    - destruct (Bu o eq_refl) as (a & b & c); auto. }
  destruct Vo as (Vo & NT & NB).
  rewrite (Lub.bind_basic_eval H f v o s w lo up i Lv Hc (J_cs H s I i)); [|apply Lub.basic_iff; exact Vo].
  assert (E1 : match lo with Some l => osub H true o l | None => false end = false).
  { destruct lo as [l|]; [|reflexivity]. destruct (Bl l eq_refl) as (_ & _ & NTl).
    apply osubT_false; auto. destruct q; cbn in Bo.
    - injection Bo as ->. apply Lub.ole_refl.
    - subst up. apply Bc; auto. }
  assert (E2 : match up with Some u => osub H true u o | None => false end = false).
  { destruct up as [u|]; [|reflexivity]. destruct (Bu u eq_refl) as (_ & _ & NBu).
    apply osubT_false; auto. destruct q; cbn in Bo.
    - subst lo. apply Bc; auto.
    - injection Bo as ->. apply Lub.ole_refl. }
  rewrite E1, E2. reflexivity.
Qed.

(* a successful fix keeps the invariants *)
Lemma fix_post f pl t s r s' : J H s -> core s -> tg H (len s) t ->
  fix_ty H f pl t s = MOk r s' -> J H s' /\ core s' /\ ext s s'.
Proof.
  intros I C Tt E. split; [eapply (fix_sound_x H W); eauto|].
  assert (St : sct false s t) by (intros F; discriminate).
  pose proof (@fix_ok H false f pl t s (core_invb C) St) as K. unfold ok in K. rewrite E in K.
  destruct K as (I' & E' & _). split; [apply I'|exact E'].
Qed.

Definition fix_spec (f : nat) : Prop := forall pl t s r s',
  J H s -> core s -> tg H (len s) t -> fix_ty H f pl t s = MOk r s' ->
  fixes s pl t s' /\ r = follow s' t.

Lemma fix_spec_0 : fix_spec 0.
Proof. intros pl t s r s' _ _ _ E. discriminate. Qed.

Lemma fix_loop f pl : fix_spec f -> forall ps vs s s', J H s -> core s -> Forall (tg H (len s)) ps ->
  (fix go (vs : list bool) (ps : list tyv) : M unit :=
     match vs, ps with
     | v :: vs', p :: ps' => fix_ty H f (if v then pl else negb pl) p ;;; go vs' ps'
     | _, _ => ret tt
     end) vs ps s = MOk tt s' ->
  fixesP s (occl s pl vs ps) s'.
Proof.
  intros Fx. induction ps as [|p ps IH]; intros vs s s' I C Fp E.
  - destruct vs; inversion E; subst; apply fixesP_nil; intros q v; apply occl_nil_r.
  - destruct vs as [|b vs].
    + inversion E; subst. apply fixesP_nil. intros q v. apply occl_nil_l.
    + inversion Fp as [|? ? Tp Fp']; subst.
      unfold bindM in E at 1.
      destruct (fix_ty H f (if b then pl else negb pl) p s) as [r1 s1|e s1] eqn:E1; [|discriminate].
      destruct (Fx _ _ _ _ _ I C Tp E1) as [F1 _].
      destruct (fix_post _ _ _ _ _ _ I C Tp E1) as (I1 & C1 & _).
      pose proof (fx_step _ _ _ F1) as B1.
      assert (Fp1 : Forall (tg H (len s1)) ps) by (rewrite (bs_len _ _ B1); exact Fp').
      specialize (IH vs s1 s' I1 C1 Fp1 E).
      eapply fixesP_ext; [|eapply fixesP_seq with (P2 := occl s pl vs ps); [| |exact F1|exact IH]].
      * intros q v. cbv beta. symmetry. apply occl_cons.
      * intros q v. apply occ_unbound.
      * intros q v. split.
        -- intros (i & b' & x & A & Bx & Oc). apply (occ_bstep _ _ B1) in Oc. destruct Oc as [Oc Hv].
           split; auto. exists i, b', x. auto.
        -- intros [(i & b' & x & A & Bx & Oc) Hv]. exists i, b', x. split; auto. split; auto.
           apply (occ_bstep _ _ B1). auto.
Qed.

Lemma fix_spec_S f : fix_spec f -> fix_spec (S f).
Proof.
  intros Fx pl t s r s' I C Tt E.
  destruct (fix_post _ _ _ _ _ _ I C Tt E) as (I' & C' & X').
  rewrite Inv.fix_ty_S in E. unfold bindM at 1 in E. unfold gets at 1 in E.
  pose proof (tg_follow H s t I Tt) as Ta.
  pose proof (follow_unbound_core t C) as Na.
  assert (Oa : forall q v, occ s pl (follow s t) q v <-> occ s pl t q v) by (intros; apply occ_follow).
  assert (Fo : follow s' (follow s t) = follow s' t).
  { apply follow_follow; auto. apply (ext_bound X'). }
  set (a := follow s t) in *. clearbody a.
  unfold bindM in E at 1.
  match type of E with match ?m s with _ => _ end = _ => destruct (m s) as [u s1|e s1] eqn:E1; [|discriminate] end.
  unfold gets in E. inversion E; subst s1 r. clear E. split; [|exact Fo].
  unfold fixes. eapply fixesP_ext; [exact (Oa)|]. clear Oa Fo.
  destruct a as [v|o args].
  - cbn in Na. assert (Lv : v < len s) by (inversion Ta; auto).
    unfold bindM in E1 at 1. unfold gets in E1 at 1.
    assert (K : forall o, pbound pl (cell_of s v) = Some o -> bind H f v (O o []) s = MOk u s' ->
                fixesP s (occ s pl (V v)) s').
    { intros o Bo Eb. destruct f as [|[|f]]; try discriminate.
      - rewrite Inv.bind_S in Eb. unfold bindM at 1 in Eb. unfold gets at 1 in Eb. rewrite Na in Eb.
        unfold set_wild, upd_cell, bindM, modify in Eb.
        destruct (Engine.basic H o); cbn in Eb;
          repeat match type of Eb with context[if ?c then _ else _] => destruct c end; discriminate.
      - rewrite (bind_fix_eval f v pl o s I Lv Na Bo) in Eb. inversion Eb; subst s'. clear Eb.
        constructor.
        + constructor; cbn [vars csets constrs sched set_cell]; auto; [apply Inv.upd_length|].
          intros w. destruct (cell_of_set_cell s v (bcell (cell_of s v) o) w) as [(Ew & -> & _)|Ew].
          * right. split; auto. exists o. exact Ew.
          * left. exact Ew.
        + intros w. destruct (cell_of_set_cell s v (bcell (cell_of s v) o) w) as [(Ew & -> & _)|Ew].
          * right. split; auto. exists pl, o. split; [apply occ_unb; auto|auto].
          * left. exact Ew.
        + intros q w o' Oc Bo'. destruct (occ_var_unb s pl v q w Na Oc) as [-> ->].
          rewrite cell_of_set_cell_same by exact Lv. discriminate. }
    assert (K0 : pbound pl (cell_of s v) = None -> s' = s -> fixesP s (occ s pl (V v)) s').
    { intros Bo ->. constructor; [apply bstep_refl|auto|].
      intros q w o Oc Bo'. destruct (occ_var_unb s pl v q w Na Oc) as [-> ->]. congruence. }
    destruct pl; cbn [pbound] in K, K0.
    + destruct (c_lower (cell_of s v)) as [l|]; [eapply K; eauto|].
      apply K0; auto. inversion E1; auto.
    + destruct (c_upper (cell_of s v)) as [l|]; [eapply K; eauto|].
      apply K0; auto. inversion E1; auto.
  - destruct u. eapply fixesP_ext; [intros q v; symmetry; apply occ_op_iff|].
    eapply fix_loop; eauto. apply (tg_args H _ _ _ Ta).
Qed.

Theorem fix_spec_all : forall f, fix_spec f.
Proof. induction f; [apply fix_spec_0|apply fix_spec_S; auto]. Qed.

(* the specification with [fixes] unfolded *)
Theorem fix_spec_x fuel pl t s r s' :
  J H s -> core s -> tg H (len s) t ->
  fix_ty H fuel pl t s = MOk r s' ->
  (bstep s s' /\
   (forall v, cell_of s' v = cell_of s v \/
      (c_bound (cell_of s v) = None /\
       exists q o, occ s pl t q v /\ pbound q (cell_of s v) = Some o /\
                   cell_of s' v = bcell (cell_of s v) o)) /\
   (forall q v o, occ s pl t q v -> pbound q (cell_of s v) = Some o ->
                  c_bound (cell_of s' v) <> None)) /\
  r = follow s' t.
Proof.
  intros I C Tt E. destruct (fix_spec_all fuel pl t s r s' I C Tt E) as [[B S Cm] Er]. auto.
Qed.

(* C05_fix_binds *)
Theorem fix_binds fuel t s r s' :
  J H s -> core s -> tg H (len s) t -> single_polarity s t ->
  fix_ty H fuel true t s = MOk r s' ->
  r = follow s' t /\ bstep s s' /\
  forall v,
    (forall l, occurs_pos s t v -> c_lower (cell_of s v) = Some l ->
               cell_of s' v = bcell (cell_of s v) l) /\
    (forall u, occurs_neg s t v -> c_upper (cell_of s v) = Some u ->
               cell_of s' v = bcell (cell_of s v) u) /\
    (~ (occurs_pos s t v /\ c_lower (cell_of s v) <> None) ->
     ~ (occurs_neg s t v /\ c_upper (cell_of s v) <> None) ->
     cell_of s' v = cell_of s v).
Proof.
  intros I C Tt SP E. destruct (fix_spec_all fuel true t s r s' I C Tt E) as [[B S Cm] Er].
  split; [exact Er|]. split; [exact B|]. intros v. split; [|split].
  - intros l Oc El. pose proof (occ_unbound _ _ _ _ _ Oc) as Hv.
    pose proof (Cm true v l Oc El) as Hb.
    destruct (S v) as [Ev|(_ & q & o & Oc' & Bo & Ev)]; [congruence|].
    destruct q; cbn [pbound] in Bo; [congruence|].
    exfalso. apply (SP v); [left; congruence|split; assumption].
  - intros u Oc Eu. pose proof (occ_unbound _ _ _ _ _ Oc) as Hv.
    pose proof (Cm false v u Oc Eu) as Hb.
    destruct (S v) as [Ev|(_ & q & o & Oc' & Bo & Ev)]; [congruence|].
    destruct q; cbn [pbound] in Bo; [|congruence].
    exfalso. apply (SP v); [right; congruence|split; assumption].
  - intros N1 N2. destruct (S v) as [Ev|(_ & q & o & Oc' & Bo & Ev)]; [exact Ev|].
    exfalso. destruct q; cbn [pbound] in Bo; [apply N1|apply N2]; split; auto; congruence.
Qed.

(* ------------------------------------------------------------------ *)
(* Part 4: the fixed type is the least instantiation within the bounds  *)
(* ------------------------------------------------------------------ *)

Lemma nth_error_map_inv {A B} (f : A -> B) : forall l i y, nth_error (map f l) i = Some y ->
  exists a, nth_error l i = Some a /\ y = f a.
Proof.
  induction l as [|a l IH]; intros [|i] y E; cbn in E; try discriminate.
  - injection E as <-. exists a. auto.
  - apply IH. exact E.
Qed.

Lemma ArgsRel_nth (R : ty -> ty -> Prop) : forall (vs : list bool) (xs ys : list ty),
  length xs = length vs -> length ys = length vs ->
  (forall i (b : bool) x y, nth_error vs i = Some b -> nth_error xs i = Some x -> nth_error ys i = Some y ->
                   if b then R x y else R y x) ->
  ArgsRel R vs xs ys.
Proof.
  induction vs as [|b vs IH]; intros [|x xs] [|y ys] Lx Ly K; try discriminate.
  - constructor.
  - apply AR_cons.
    + apply (K 0 b x y); reflexivity.
    + apply IH; [cbn in Lx; lia|cbn in Ly; lia|]. intros i b' x' y'. apply (K (S i)).
Qed.

(* the denotation is monotone in covariant, antitone in contravariant occurrences *)
Lemma den_mono s th th' : J H s -> sat H th s -> sat H th' s ->
  forall t, wft s t -> forall pl, tg H (len s) t ->
  (forall q v, occ s pl t q v -> if q then Sub H (th' v) (th v) else Sub H (th v) (th' v)) ->
  if pl then Sub H (den th' t) (den th t) else Sub H (den th t) (den th' t).
Proof.
  intros I S S' t Wt. induction Wt as [v Hv|v t0 Hv Wt IH|o args Wa IH]; intros pl Tt K.
  - cbn [den]. apply (K pl v). apply occ_unb. exact Hv.
  - cbn [den]. destruct (S v) as [_ Sv]. destruct (S' v) as [_ Sv']. rewrite Hv in Sv, Sv'.
    rewrite Sv, Sv'. apply IH; [eapply J_sc; eauto|]. intros q w Oc. apply K. eapply occ_bnd; eauto.
  - destruct (tg_args H _ _ _ Tt) as [La Fa]. cbn [den].
    destruct (variance H o) as [|b0 vs0] eqn:V0.
    + destruct args; [|discriminate]. cbn [map].
      destruct pl; apply SubBase; auto using anc_refl.
    + assert (G : forall pl', pl' = pl -> forall i b x, nth_error (variance H o) i = Some b -> nth_error args i = Some x ->
                if (if b then pl else negb pl) then Sub H (den th' x) (den th x) else Sub H (den th x) (den th' x)).
      { intros pl' _ i b x A Bx. apply IH.
        - eapply nth_error_In; eauto.
        - rewrite Forall_forall in Fa. apply Fa. eapply nth_error_In; eauto.
        - intros q v Oc. apply K. eapply occ_op; eauto. }
      specialize (G pl eq_refl). rewrite V0 in G.
      destruct pl; (apply SubComp; [congruence|]); rewrite V0; apply ArgsRel_nth;
        rewrite ?map_length; auto; intros i b x y A Bx By;
        apply nth_error_map_inv in Bx; apply nth_error_map_inv in By;
        destruct Bx as (a1 & Ba1 & ->); destruct By as (a2 & Ba2 & ->);
        rewrite Ba1 in Ba2; injection Ba2 as <-; specialize (G i b a1 A Ba1);
        destruct b; cbn [negb] in G; exact G.
Qed.

Lemma tg_tsc n t : tg H n t -> tsc n t.
Proof.
  induction t as [v|o args IH] using tyv_ind'; intros Ht; inversion Ht; subst; constructor; auto.
  rewrite Forall_forall in *. auto.
Qed.

Lemma fix_post_inv f pl t s r s' : J H s -> inv s -> tg H (len s) t ->
  fix_ty H f pl t s = MOk r s' -> inv s'.
Proof.
  intros I Iv Tt E.
  assert (St : sct true s t) by (intros _; apply tg_tsc; exact Tt).
  pose proof (@fix_ok H true f pl t s Iv St) as K. unfold ok in K. rewrite E in K. apply K.
Qed.

(* the grounding of the fixed variable is on the right side of every grounding
   within the bounds *)
Lemma fixed_var_le s s' t th th' : J H s -> fixes s true t s' -> single_polarity s t ->
  sat H th s -> sat H th' s' -> (forall v, c_bound (cell_of s' v) = None -> th' v = th v) ->
  forall q v, occ s true t q v -> if q then Sub H (th' v) (th v) else Sub H (th v) (th' v).
Proof.
  intros I [B S C] SP St St' Eq q v Oc. pose proof (occ_unbound _ _ _ _ _ Oc) as Hv.
  destruct (St v) as [Wv Sv]. rewrite Hv in Sv.
  destruct (c_bound (cell_of s' v)) as [x|] eqn:Hv'.
  2:{ rewrite (Eq v Hv'). destruct q; apply Sub_refl; exact Wv. }
  destruct (S v) as [Ev|(_ & q' & o & Oc' & Bo & Ev)]; [congruence|].
  assert (q' = q).
  { destruct q, q'; auto; exfalso; apply (SP v); try (split; assumption);
      cbn [pbound] in Bo; unfold bounded; [right|left]; congruence. }
  subst q'. destruct (St' v) as [_ Sv']. rewrite Ev in Sv'. cbn [bcell c_bound den map] in Sv'.
  rewrite Sv'. pose proof (J_b H s I v) as (Bl & Bu & _). destruct Sv as [Sl Su].
  destruct q; cbn [pbound] in Bo.
  - destruct (Sl o Bo) as (b & Eb & L). rewrite Eb. apply ole_Sub; auto. apply (Bl o Bo).
  - destruct (Su o Bo) as (b & Eb & L). rewrite Eb. apply ole_Sub; auto.
    apply wf_base. rewrite <- Eb. exact Wv.
Qed.

(* C05_fix_least, general form: every grounding th within the bounds before
   fixing has a counterpart th' after fixing that agrees with th on everything
   fix left open, is itself a grounding within the bounds before fixing, and
   makes the fixed type a subtype of what t denotes under th *)
Theorem fix_least_gen fuel t s r s' :
  J H s -> inv s -> tg H (len s) t -> single_polarity s t ->
  fix_ty H fuel true t s = MOk r s' ->
  forall th, sat H th s ->
  exists th', sat H th' s' /\ sat H th' s /\
    (forall v, c_bound (cell_of s' v) = None -> th' v = th v) /\
    den th' r = den th' t /\
    Sub H (den th' r) (den th t).
Proof.
  intros I Iv Tt SP E th St.
  pose proof (inv_core Iv) as C.
  destruct (fix_spec_all fuel true t s r s' I C Tt E) as [F _].
  destruct (fix_sound_x H W fuel true t s r s' I Tt E) as (Tr & I' & [_ L] & _ & Dr).
  pose proof (fix_post_inv _ _ _ _ _ _ I Iv Tt E) as Iv'.
  pose proof (fx_step _ _ _ F) as B.
  destruct (sat_extend H W s' th (inv_wsc Iv') I') as (th' & St' & Eq).
  { intros v Hv. rewrite (bstep_unb _ _ B v Hv). destruct (St v) as [Wv Sv]. split; auto.
    rewrite <- (bstep_unb _ _ B v Hv), Hv in Sv. rewrite <- (bstep_unb _ _ B v Hv). exact Sv. }
  exists th'. split; [exact St'|]. split; [apply L; exact St'|]. split; [exact Eq|].
  split; [apply Dr; exact St'|]. rewrite (Dr th' St').
  apply (den_mono s th th' I St (L th' St') t (wft_all (inv_wsc Iv) t) true Tt).
  eapply fixed_var_le; eauto.
Qed.

(* every variable fix can meet has the bound fix wants there *)
Definition all_bounded (s : store) (t : tyv) : Prop :=
  forall q v, occ s true t q v -> pbound q (cell_of s v) <> None.

(* no unbound variable is left in r *)
Definition closed (s : store) (r : tyv) : Prop := forall pl q v, ~ occ s pl r q v.

Lemma occ_flag s pl t q v : occ s pl t q v -> forall pl', exists q', occ s pl' t q' v.
Proof.
  induction 1 as [pl v Hv|pl w t q v Hw Oc IH|pl o args i x b q v A Bx Oc IH]; intros pl'.
  - exists pl'. apply occ_unb. exact Hv.
  - destruct (IH pl') as (q' & Oc'). exists q'. eapply occ_bnd; eauto.
  - destruct (IH (if b then pl' else negb pl')) as (q' & Oc'). exists q'. eapply occ_op; eauto.
Qed.

(* C05_fix_least: when every variable met has the wanted bound, the result is
   closed (concrete), it is below EVERY instantiation of t within the bounds,
   and it is itself such an instantiation *)
Theorem fix_least fuel t s r s' :
  J H s -> inv s -> tg H (len s) t -> single_polarity s t -> all_bounded s t ->
  fix_ty H fuel true t s = MOk r s' ->
  closed s' r /\
  (forall th th', sat H th s -> sat H th' s' -> Sub H (den th' r) (den th t)) /\
  (forall th', sat H th' s' -> sat H th' s /\ den th' t = den th' r) /\
  (exists th', sat H th' s').
Proof.
  intros I Iv Tt SP AB E.
  pose proof (inv_core Iv) as C.
  destruct (fix_spec_all fuel true t s r s' I C Tt E) as [F Er].
  destruct (fix_sound_x H W fuel true t s r s' I Tt E) as (Tr & I' & [_ L] & _ & Dr).
  pose proof (fix_post_inv _ _ _ _ _ _ I Iv Tt E) as Iv'.
  pose proof (fx_step _ _ _ F) as B.
  assert (CL : forall q v, ~ occ s' true t q v).
  { intros q v Oc. apply (occ_bstep _ _ B) in Oc. destruct Oc as [Oc Hv'].
    destruct (pbound q (cell_of s v)) as [o|] eqn:Bo; [|apply (AB q v Oc Bo)].
    apply (fx_complete _ _ _ F q v o Oc Bo Hv'). }
  split; [|split; [|split]].
  - intros pl q v Oc. subst r. apply (proj1 (occ_follow _ _ _ _ _)) in Oc.
    destruct (occ_flag _ _ _ _ _ Oc true) as (q' & Oc'). apply (CL q' v Oc').
  - intros th th' St St'. rewrite (Dr th' St').
    apply (den_mono s th th' I St (L th' St') t (wft_all (inv_wsc Iv) t) true Tt).
    intros q v Oc. pose proof (occ_unbound _ _ _ _ _ Oc) as Hv.
    destruct (c_bound (cell_of s' v)) as [x|] eqn:Hv'.
    + (* fixed *)
      destruct (St v) as [Wv Sv]. rewrite Hv in Sv.
      destruct (fx_sound _ _ _ F v) as [Ev|(_ & q' & o & Oc' & Bo & Ev)]; [congruence|].
      assert (q' = q).
      { destruct q, q'; auto; exfalso; apply (SP v); try (split; assumption);
          cbn [pbound] in Bo; unfold bounded; [right|left]; congruence. }
      subst q'. destruct (St' v) as [_ Sv']. rewrite Ev in Sv'. cbn [bcell c_bound den map] in Sv'.
      rewrite Sv'. pose proof (J_b H s I v) as (Bl & Bu & _). destruct Sv as [Sl Su].
      destruct q; cbn [pbound] in Bo.
      * destruct (Sl o Bo) as (b & Eb & Lb). rewrite Eb. apply ole_Sub; auto. apply (Bl o Bo).
      * destruct (Su o Bo) as (b & Eb & Lb). rewrite Eb. apply ole_Sub; auto.
        apply wf_base. rewrite <- Eb. exact Wv.
    + exfalso. apply (CL q v). apply (occ_bstep _ _ B). auto.
  - intros th' St'. split; [apply L; exact St'|symmetry; apply Dr; exact St'].
  - destruct (satisfiable H W s' (inv_wsc Iv') I') as (th' & St' & _). exists th'. exact St'.
Qed.

(* ------------------------------------------------------------------ *)
(* Part 5a: fix_ty terminates, and in fragment P it always succeeds     *)
(* ------------------------------------------------------------------ *)

(* operator-nesting depth through bindings where an argument-free operator
   counts like a variable (it costs fix less fuel than an unbound variable) *)
Inductive fdl (s : store) : tyv -> nat -> Prop :=
| fdl_unb v n : c_bound (cell_of s v) = None -> fdl s (V v) n
| fdl_bnd v t n : c_bound (cell_of s v) = Some t -> fdl s t n -> fdl s (V v) n
| fdl_op0 o n : fdl s (O o []) n
| fdl_op o args n : (forall x, In x args -> fdl s x n) -> fdl s (O o args) (S n).

Lemma dle_fdl s t n : dle s t n -> fdl s t n.
Proof.
  induction 1 as [v n Hv|v t n Hv D IH|o args n D IH].
  - apply fdl_unb; auto.
  - eapply fdl_bnd; eauto.
  - apply fdl_op; auto.
Qed.

Lemma fdl_bstep s s' : bstep s s' -> forall t n, fdl s t n -> fdl s' t n.
Proof.
  intros B t n D. induction D as [v n Hv|v t n Hv D IH|o n|o args n D IH].
  - destruct (bs_cell _ _ B v) as [E|(_ & o & E)].
    + apply fdl_unb. congruence.
    + eapply fdl_bnd; [rewrite E; reflexivity|apply fdl_op0].
  - eapply fdl_bnd; eauto. eapply bstep_bound; eauto.
  - apply fdl_op0.
  - apply fdl_op; auto.
Qed.

Lemma fdl_follow_f s n : forall fuel t, fdl s t n -> fdl s (follow_f fuel s t) n.
Proof.
  induction fuel as [|f IH]; intros [v|o args] D; cbn [follow_f]; auto.
  - destruct (c_bound (cell_of s v)); auto.
  - destruct (c_bound (cell_of s v)) as [t'|] eqn:Hv; auto.
    apply IH. inversion D; subst; congruence.
Qed.

Lemma bindM_ok {A B} (m : M A) (k : A -> M B) s a s1 : m s = MOk a s1 -> bindM m k s = k a s1.
Proof. intros E. unfold bindM. rewrite E. reflexivity. Qed.

Lemma fix_total_fdl : forall f pl t s n, J H s -> core s -> tg H (len s) t -> fdl s t n -> n + 3 <= f ->
  exists r s', fix_ty H f pl t s = MOk r s'.
Proof.
  induction f as [|f IH]; intros pl t s n I C Tt D L; [lia|].
  rewrite Inv.fix_ty_S. unfold bindM at 1. unfold gets at 1.
  pose proof (tg_follow H s t I Tt) as Ta.
  pose proof (follow_unbound_core t C) as Na.
  pose proof (fdl_follow_f s n _ t D : fdl s (follow s t) n) as Da.
  set (a := follow s t) in *. clearbody a.
  assert (G : exists u s1, (match a with
     | V v => c <- gets (fun s0 => cell_of s0 v);;
         (if pl then match c_lower c with Some l => bind H f v (O l []) | None => ret tt end
          else match c_upper c with Some u => bind H f v (O u []) | None => ret tt end)
     | O o args =>
         (fix go (vs : list bool) (ps : list tyv) {struct vs} : M unit :=
            match vs with
            | [] => ret tt
            | v :: vs' => match ps with
                          | [] => ret tt
                          | p :: ps' => fix_ty H f (if v then pl else negb pl) p;;; go vs' ps'
                          end
            end) (variance H o) args
     end) s = MOk u s1).
  { destruct a as [v|o args].
    - cbn in Na. assert (Lv : v < len s) by (inversion Ta; auto).
      unfold bindM at 1. unfold gets at 1.
      destruct f as [|[|f]]; [lia|lia|].
      destruct pl.
      + destruct (c_lower (cell_of s v)) as [l|] eqn:El; [|eexists; eexists; reflexivity].
        rewrite (bind_fix_eval f v true l s I Lv Na El). eauto.
      + destruct (c_upper (cell_of s v)) as [l|] eqn:El; [|eexists; eexists; reflexivity].
        rewrite (bind_fix_eval f v false l s I Lv Na El). eauto.
    - destruct (tg_args H _ _ _ Ta) as [_ Fa].
      assert (Dx : forall x, In x args -> exists n', n' + 3 <= f /\ fdl s x n').
      { inversion Da; subst.
        - intros x [].
        - intros x Hx. exists n0. split; [lia|auto]. }
      clear Da Ta Na Tt D.
      generalize (variance H o) as vs. revert s I C Fa Dx.
      induction args as [|p ps IHp]; intros s I C Fa Dx vs.
      + destruct vs; eexists; eexists; reflexivity.
      + destruct vs as [|b vs]; [eexists; eexists; reflexivity|].
        inversion Fa as [|? ? Tp Fp]; subst.
        destruct (Dx p (or_introl eq_refl)) as (n' & L' & Dp).
        destruct (IH (if b then pl else negb pl) p s n' I C Tp Dp L') as (r1 & s1 & E1).
        unfold bindM at 1. rewrite E1.
        destruct (fix_post _ _ _ _ _ _ I C Tp E1) as (I1 & C1 & _).
        destruct (fix_spec_all _ _ _ _ _ _ I C Tp E1) as [F1 _].
        pose proof (fx_step _ _ _ F1) as B1.
        apply IHp; auto.
        * rewrite (bs_len _ _ B1). exact Fp.
        * intros x Hx. destruct (Dx x (or_intror Hx)) as (nx & Lx & Dxx).
          exists nx. split; auto. eapply fdl_bstep; eauto. }
  destruct G as (u & s1 & G).
  rewrite (bindM_ok _ _ _ _ _ G). unfold gets. eauto.
Qed.

(* ------------------------------------------------------------------ *)
(* Part 5b: an explicit depth bound for the terms of an acyclic store   *)
(* ------------------------------------------------------------------ *)

Fixpoint depth (t : tyv) : nat :=
  match t with V _ => 0 | O _ args => S (list_max (map depth args)) end.

Definition bdepth (c : cell) : nat := match c_bound c with Some t => depth t | None => 0 end.
Definition mdepth (s : store) : nat := list_max (map bdepth (vars s)).

(* depth of t through bindings is at most depth t + |vars| * (deepest binding) *)
Definition xdepth (s : store) (t : tyv) : nat := depth t + len s * mdepth s.

Lemma depth_arg o args x : In x args -> depth x < depth (O o args).
Proof.
  intros Hx. cbn [depth]. apply Nat.lt_succ_r.
  assert (F : Forall (fun k => k <= list_max (map depth args)) (map depth args))
    by (apply list_max_le; lia).
  rewrite Forall_forall in F. apply F. apply in_map. exact Hx.
Qed.

(* all bindings have depth at most M *)
Definition dok (M : nat) (s : store) : Prop :=
  forall v t, c_bound (cell_of s v) = Some t -> depth t <= M.

Lemma dok_mdepth s : dok (mdepth s) s.
Proof.
  intros v t Hv. destruct (Nat.lt_ge_cases v (len s)) as [L|L].
  - assert (F : Forall (fun k => k <= mdepth s) (map bdepth (vars s)))
      by (apply list_max_le; unfold mdepth; lia).
    rewrite Forall_forall in F.
    assert (E : depth t = bdepth (cell_of s v)) by (unfold bdepth; rewrite Hv; reflexivity).
    rewrite E. apply F. apply in_map. unfold cell_of. apply nth_In. exact L.
  - rewrite cell_of_oob in Hv by exact L. discriminate.
Qed.

Lemma dok_mono M M' s : M <= M' -> dok M s -> dok M' s.
Proof. intros L D v t Hv. specialize (D v t Hv). lia. Qed.

(* the child relation of the expansion of a term through the bindings *)
Inductive ch (s : store) : tyv -> tyv -> Prop :=
| ch_b v t : c_bound (cell_of s v) = Some t -> ch s (V v) t
| ch_o o args x : In x args -> ch s (O o args) x.

Inductive chs (s : store) : tyv -> tyv -> Prop :=
| chs_refl t : chs s t t
| chs_step x y z : ch s x y -> chs s y z -> chs s x z.

Lemma chs_snoc s x y z : chs s x y -> ch s y z -> chs s x z.
Proof.
  induction 1 as [t|x y' z' Hc R IH]; intros Hz.
  - eapply chs_step; [exact Hz|apply chs_refl].
  - eapply chs_step; [exact Hc|auto].
Qed.

(* a well-founded term is not its own proper descendant *)
Lemma wft_no_cycle s t : wft s t -> forall y, ch s t y -> chs s y t -> False.
Proof.
  induction 1 as [v Hv|v t0 Hv Wt IH|o args Wa IH]; intros y Hc R.
  - inversion Hc; subst. congruence.
  - inversion Hc as [v' t' Hv'|]; subst. rewrite Hv in Hv'. injection Hv' as <-.
    inversion R as [|x y' z Hc' R']; subst.
    + eapply IH; [exact Hc|apply chs_refl].
    + eapply IH; [exact Hc'|]. eapply chs_snoc; eauto.
  - inversion Hc as [|o' args' x Hx]; subst.
    inversion R as [|x' y' z Hc' R']; subst.
    + eapply (IH _ Hx); [exact Hc|apply chs_refl].
    + eapply (IH _ Hx); [exact Hc'|]. eapply chs_snoc; eauto.
Qed.

Lemma dle_avail s M : dok M s -> (forall t, wft s t) ->
  forall n avail, length avail <= n ->
  forall t, (forall w, chs s t (V w) -> c_bound (cell_of s w) <> None -> In w avail) ->
  dle s t (depth t + n * M).
Proof.
  intros D Wf. induction n as [|n IHn]; intros avail L t.
  - induction t as [v|o args IH] using tyv_ind'; intros Av.
    + destruct (c_bound (cell_of s v)) as [t0|] eqn:Hv; [|apply dle_unb; exact Hv].
      exfalso. destruct avail; [|cbn in L; lia]. apply (Av v); [apply chs_refl|congruence].
    + cbn [depth]. cbn [Nat.add]. apply dle_op. intros x Hx.
      rewrite Forall_forall in IH. eapply dle_mono; [apply (IH x Hx)|].
      * intros w R Hw. apply Av; auto. eapply chs_step; [apply ch_o; exact Hx|exact R].
      * pose proof (depth_arg o args x Hx) as Lt. cbn [depth] in Lt. lia.
  - induction t as [v|o args IH] using tyv_ind'; intros Av.
    + destruct (c_bound (cell_of s v)) as [t0|] eqn:Hv; [|apply dle_unb; exact Hv].
      eapply dle_bnd; [exact Hv|].
      assert (Iv : In v avail) by (apply Av; [apply chs_refl|congruence]).
      eapply dle_mono; [apply (IHn (remove Nat.eq_dec v avail))|].
      * pose proof (remove_length_lt Nat.eq_dec avail v Iv). lia.
      * intros w R Hw. apply in_in_remove.
        -- intros ->. eapply (wft_no_cycle s (V v) (Wf _)); [apply ch_b; exact Hv|exact R].
        -- apply Av; auto. eapply chs_step; [apply ch_b; exact Hv|exact R].
      * pose proof (D v t0 Hv). cbn [depth]. lia.
    + cbn [depth]. cbn [Nat.add]. apply dle_op. intros x Hx.
      rewrite Forall_forall in IH. eapply dle_mono; [apply (IH x Hx)|].
      * intros w R Hw. apply Av; auto. eapply chs_step; [apply ch_o; exact Hx|exact R].
      * pose proof (depth_arg o args x Hx) as Lt. cbn [depth] in Lt. lia.
Qed.

Lemma dle_dok s M : dok M s -> (forall t, wft s t) -> forall t, dle s t (depth t + len s * M).
Proof.
  intros D Wf t. apply (dle_avail s M D Wf (len s) (seq 0 (len s))); [rewrite seq_length; lia|].
  intros w _ Hw. apply in_seq. split; [lia|]. cbn.
  destruct (Nat.lt_ge_cases w (len s)) as [L|L]; auto.
  rewrite cell_of_oob in Hw by exact L. cbn in Hw. congruence.
Qed.

Theorem dle_xdepth s t : wsc s -> dle s t (xdepth s t).
Proof. intros Ws. apply dle_dok; [apply dok_mdepth|apply wft_all; exact Ws]. Qed.

(* C17, fix: with fuel > xdepth s t + 2, fix_ty returns, and in a store
   without constraints it returns a value (it cannot fail) *)
Theorem fix_total fuel pl t s : J H s -> inv s -> tg H (len s) t -> xdepth s t + 2 < fuel ->
  exists r s', fix_ty H fuel pl t s = MOk r s'.
Proof.
  intros I Iv Tt L. apply (fix_total_fdl fuel pl t s (xdepth s t)); auto.
  - apply inv_core. exact Iv.
  - apply dle_fdl. apply dle_xdepth. apply inv_wsc. exact Iv.
  - lia.
Qed.

Theorem fix_term fuel pl t s : J H s -> inv s -> tg H (len s) t -> xdepth s t + 2 < fuel ->
  forall s', fix_ty H fuel pl t s <> MEr EFuel s'.
Proof.
  intros I Iv Tt L s' E. destruct (fix_total fuel pl t s I Iv Tt L) as (r & s1 & E1). congruence.
Qed.

End Pol.
