(* C17, termination of the constraint-free fragment P of the engine model
   (Infer/Engine.v): explicit fuel bounds for unify (subtype mode, no skip
   flags), fix_ty and apply under the invariants J (Infer/Sound.v) and inv
   (Infer/Inv.v).

   [nf m s Q]: running m from s does not run out of fuel, and if it succeeds
   the result satisfies Q.
   [R M n s]: no constraints, exactly n variables, every binding has
   (syntactic) depth <= M.  Fragment P allocates nothing in unify and binds
   variables only to sub-terms of the terms at hand or to base types, so R is
   preserved; with acyclic bindings (wsc) R bounds the depth of every term
   seen through the bindings by depth t + n * M in EVERY later store
   ([sdle], using FixLeast.dle_dok), and unify descends one operator level of
   both (followed) terms per fuel unit. *)
From Coq Require Import List Arith Bool Lia.
Import ListNotations.
From TF Require Import Base.Hier Base.Ty Sub.SubSpec Infer.Store Infer.Engine Infer.Run
  Infer.Inv Infer.Sound Infer.FixLeast.
From TF Require Infer.Lub.

Unset Implicit Arguments.

Local Notation len s := (length (vars s)).

(* ------------------------------------------------------------------ *)
(* a total-correctness triple: no fuel exhaustion                       *)
(* ------------------------------------------------------------------ *)
Definition nf {A} (m : M A) (s : store) (Q : A -> store -> Prop) : Prop :=
  match m s with MOk a s' => Q a s' | MEr e _ => e <> EFuel end.

Lemma nf_ret {A} (a : A) s (Q : A -> store -> Prop) : Q a s -> nf (ret a) s Q.
Proof. intros HQ. exact HQ. Qed.

Lemma nf_fail {A} e s (Q : A -> store -> Prop) : e <> EFuel -> nf (fail e) s Q.
Proof. intros N. exact N. Qed.

Lemma nf_bind {A B} (m : M A) (k : A -> M B) s (Q1 : A -> store -> Prop) (Q : B -> store -> Prop) :
  nf m s Q1 -> (forall a s1, m s = MOk a s1 -> Q1 a s1 -> nf (k a) s1 Q) -> nf (bindM m k) s Q.
Proof.
  unfold nf, bindM. destruct (m s) as [a s1|e s1]; intros T K; [apply K; auto|exact T].
Qed.

Lemma nf_gets {A B} (g : store -> A) (k : A -> M B) s (Q : B -> store -> Prop) :
  nf (k (g s)) s Q -> nf (bindM (gets g) k) s Q.
Proof. intros T. exact T. Qed.

Lemma nf_gets_end {A} (g : store -> A) s (Q : A -> store -> Prop) : Q (g s) s -> nf (gets g) s Q.
Proof. intros HQ. exact HQ. Qed.

Lemma nf_modify {B} (g : store -> store) (k : unit -> M B) s (Q : B -> store -> Prop) :
  nf (k tt) (g s) Q -> nf (bindM (modify g) k) s Q.
Proof. intros T. exact T. Qed.

Lemma nf_modify_end (g : store -> store) s (Q : unit -> store -> Prop) :
  Q tt (g s) -> nf (modify g) s Q.
Proof. intros HQ. exact HQ. Qed.

Lemma nf_upd_cell {B} v g (k : unit -> M B) s (Q : B -> store -> Prop) :
  nf (k tt) (set_cell s v (g (cell_of s v))) Q -> nf (bindM (upd_cell v g) k) s Q.
Proof. intros T. exact T. Qed.

Lemma nf_upd_cell_end v g s (Q : unit -> store -> Prop) :
  Q tt (set_cell s v (g (cell_of s v))) -> nf (upd_cell v g) s Q.
Proof. intros T. exact T. Qed.

Lemma nf_lift {A B} (r : store -> res A) (k : A -> M B) s (Q : B -> store -> Prop) a :
  r s = Ok a -> nf (k a) s Q -> nf (bindM (lift r) k) s Q.
Proof. intros E T. unfold nf, bindM, lift. rewrite E. exact T. Qed.

Lemma nf_fresh {B} w (k : nat -> M B) s (Q : B -> store -> Prop) :
  nf (k (len s)) (snd (alloc_var s w)) Q -> nf (bindM (fresh w) k) s Q.
Proof. intros T. exact T. Qed.

Lemma nf_conseq {A} (m : M A) s (Q1 Q : A -> store -> Prop) :
  nf m s Q1 -> (forall a s1, m s = MOk a s1 -> Q1 a s1 -> Q a s1) -> nf m s Q.
Proof. unfold nf. destruct (m s); intros T K; auto. Qed.

Lemma nf_eq {A} (m : M A) s r (Q : A -> store -> Prop) :
  m s = r -> match r with MOk a s' => Q a s' | MEr e _ => e <> EFuel end -> nf m s Q.
Proof. intros <-. auto. Qed.

Lemma crash_ne n : ECrash n <> EFuel. Proof. discriminate. Qed.
Lemma sub_ne : ESubtypeMismatch <> EFuel. Proof. discriminate. Qed.
Lemma ty_ne : ETypeMismatch <> EFuel. Proof. discriminate. Qed.
Lemma rec_ne : ERecursive <> EFuel. Proof. discriminate. Qed.
Lemma fun_ne : EFunApp <> EFuel. Proof. discriminate. Qed.
#[local] Hint Resolve crash_ne sub_ne ty_ne rec_ne fun_ne : core.

Section Term.
Variable H : hier.
Hypothesis W : wf_hier H.
Variable M n : nat.
Hypothesis M1 : 1 <= M.

Record R (s : store) : Prop := mkR {
  R_cs : nocs s;
  R_len : len s = n;
  R_dok : dok M s
}.

Lemma R_set_cell s v c' : R s -> bdepth c' <= M -> R (set_cell s v c').
Proof.
  intros [Ncs L D] B. constructor.
  - apply nocs_set_cell. exact Ncs.
  - cbn [vars set_cell]. rewrite Inv.upd_length. exact L.
  - intros w t. destruct (cell_of_set_cell s v c' w) as [(E & -> & _)|E]; rewrite E.
    + intros Hb. unfold bdepth in B. rewrite Hb in B. exact B.
    + apply D.
Qed.

Lemma R_set_cset s i : R s -> R (set_cset s i []).
Proof.
  intros [Ncs L D]. constructor; [apply nocs_set_cset; exact Ncs|exact L|exact D].
Qed.

(* updates that keep the binding *)
Lemma R_upd s v c' : R s -> c_bound c' = c_bound (cell_of s v) -> R (set_cell s v c').
Proof.
  intros Rs E. apply R_set_cell; auto. unfold bdepth. rewrite E.
  destruct (c_bound (cell_of s v)) as [t|] eqn:Hv; [|lia]. apply (R_dok s Rs v t Hv).
Qed.

Notation RQ := (fun (_ : unit) s' => R s').

Lemma T_cc f v s (Q : unit -> store -> Prop) : nocs s -> 1 <= f -> Q tt s -> nf (check_constraints H f v) s Q.
Proof.
  intros Ncs L HQ. destruct f as [|f]; [lia|].
  eapply nf_eq; [apply Lub.check_constraints_empty; apply Ncs|exact HQ].
Qed.

(* v is unbound or resolved to an argument-free operator *)
Definition basev (s : store) (v : nat) : Prop :=
  forall t, c_bound (cell_of s v) = Some t -> exists o, t = O o [].
Notation Qb v := (fun (_ : unit) s' => R s' /\ basev s' v).

Lemma basev_unb s v : c_bound (cell_of s v) = None -> basev s v.
Proof. intros Hv t Ht. congruence. Qed.

Lemma basev_set s v c' : basev s v -> (forall t, c_bound c' = Some t -> exists o, t = O o []) ->
  basev (set_cell s v c') v.
Proof.
  intros B C t. destruct (cell_of_set_cell s v c' v) as [(Ev & _)|Ev]; rewrite Ev; auto.
Qed.

Lemma basev_upd s v c' : basev s v -> c_bound c' = c_bound (cell_of s v) -> basev (set_cell s v c') v.
Proof. intros B E. apply basev_set; auto. rewrite E. exact B. Qed.

Lemma basev_other s v w c' : basev s v -> w <> v -> basev (set_cell s w c') v.
Proof. intros B N t. rewrite cell_of_set_cell_other by auto. apply B. Qed.

(* bind to an argument-free operator *)
Lemma T_bind_base' f v o s : R s -> 2 <= f -> nf (bind H f v (O o [])) s (Qb v).
Proof.
  intros Rs L. destruct f as [|[|f]]; try lia.
  rewrite Inv.bind_S. apply nf_gets.
  destruct (c_bound (cell_of s v)) eqn:Hb; [apply nf_fail; auto|].
  unfold set_wild at 1. apply nf_upd_cell.
  set (s1 := set_cell s v _).
  assert (R1 : R s1) by (apply R_upd; auto).
  assert (B1 : basev s1 v) by (apply basev_upd; [apply basev_unb; exact Hb|reflexivity]).
  clearbody s1. unfold set_bound at 1. apply nf_upd_cell.
  set (s2 := set_cell s1 v _).
  assert (R2 : R s2) by (apply R_set_cell; auto; cbn; lia).
  assert (B2 : basev s2 v) by (apply basev_set; [exact B1|cbn; intros t [= <-]; eauto]).
  clearbody s2.
  eapply nf_bind with (Q1 := Qb v).
  - destruct (basic H o).
    + repeat match goal with |- nf (if ?c then _ else _) _ _ => destruct c end;
        try (apply nf_fail; auto); apply nf_ret; auto.
    + match goal with |- nf (if ?c then _ else _) _ _ => destruct c end; [apply nf_fail; auto|].
      eapply nf_lift with (a := []); [reflexivity|].
      apply nf_modify. cbn [fold_right]. rewrite (R_cs s2 R2).
      apply nf_gets. apply nf_ret. split; [apply R_set_cset; exact R2|exact B2].
  - intros _ s3 _ [R3 B3]. apply T_cc; auto; [apply R3|lia].
Qed.

Lemma T_bind_base f v o s : R s -> 2 <= f -> nf (bind H f v (O o [])) s RQ.
Proof.
  intros Rs L. eapply nf_conseq; [apply T_bind_base'; auto|]. cbv beta. intros _ s1 _ [R1 _]. exact R1.
Qed.

Ltac split_ifs :=
  repeat match goal with |- nf (if ?c then _ else _) _ _ => destruct c end.

(* set a bound and re-check the (absent) constraints *)
Lemma T_set_lower f v new s : R s -> 1 <= f ->
  nf (set_lower v (Some new) ;;; check_constraints H f v) s RQ.
Proof.
  intros Rs L. unfold set_lower. apply nf_upd_cell. apply T_cc; auto.
  - apply nocs_set_cell. apply Rs.
  - apply R_upd; auto.
Qed.

Lemma T_set_upper f v new s : R s -> 1 <= f ->
  nf (set_upper v (Some new) ;;; check_constraints H f v) s RQ.
Proof.
  intros Rs L. unfold set_upper. apply nf_upd_cell. apply T_cc; auto.
  - apply nocs_set_cell. apply Rs.
  - apply R_upd; auto.
Qed.

(* unify against an argument-free operator, given above/below at smaller fuel *)

Lemma match_base_ok f s new b : exists r, match_f H (S f) s false false (O new []) b = Ok r.
Proof.
  cbn [match_f]. rewrite Lub.follow_O. destruct (follow s b) as [vb|ob ys].
  - repeat match goal with |- context[if ?c then _ else _] => destruct c end; eauto.
  - cbn [andb]. destruct (basic H new); eauto. destruct (negb (new =? ob)); eauto.
    destruct (variance H new); eauto.
Qed.

Lemma occurs_base_ok f s new b : exists r, occurs_f H (S (S f)) s (O new []) b = Ok r.
Proof.
  cbn [occurs_f]. rewrite Lub.follow_O.
  destruct (match_base_ok f s new (follow s b)) as (r & ->). destruct r as [[|]|]; eauto.
Qed.

Lemma T_unify_base_l f new t s :
  (forall vb, follow s t = V vb -> nf (above H f vb new) s RQ) -> R s -> 2 <= f ->
  nf (unify H (S f) true false false (O new []) t) s RQ.
Proof.
  intros A Rs L. rewrite Inv.unify_S. apply nf_gets. apply nf_gets.
  change (follow s (O new [])) with (O new []).
  destruct (follow s t) as [vb|ob ys] eqn:Ef.
  - destruct (Nat.eqb new Bottom); [apply nf_ret; auto|].
    destruct f as [|[|f]]; try lia.
    destruct (occurs_base_ok f s new (V vb)) as (oc & Eo).
    eapply nf_lift; [exact Eo|]. destruct oc; [apply nf_fail; auto|].
    destruct (basic H new).
    + apply nf_gets. cbn [orb andb]. apply A. reflexivity.
    + cbn [orb]. apply T_bind_base; auto; lia.
  - split_ifs; try (apply nf_fail; auto); try (apply nf_ret; auto).
    destruct (variance H new); apply nf_ret; auto.
Qed.

Lemma T_unify_base_r f new t s :
  (forall va, follow s t = V va -> nf (below H f va new) s RQ) -> R s -> 2 <= f ->
  nf (unify H (S f) true false false t (O new [])) s RQ.
Proof.
  intros B Rs L. rewrite Inv.unify_S. apply nf_gets. apply nf_gets.
  change (follow s (O new [])) with (O new []).
  destruct (follow s t) as [va|oa xs] eqn:Ef.
  - destruct (Nat.eqb new Top); [apply nf_ret; auto|].
    destruct f as [|[|f]]; try lia.
    destruct (occurs_base_ok f s new (V va)) as (oc & Eo).
    eapply nf_lift; [exact Eo|]. destruct oc; [apply nf_fail; auto|].
    destruct (basic H new).
    + apply nf_gets. cbn [orb andb]. apply B. reflexivity.
    + cbn [orb]. apply T_bind_base; auto; lia.
  - split_ifs; try (apply nf_fail; auto); try (apply nf_ret; auto).
    destruct (variance H oa) as [|b vs]; [apply nf_ret; auto|].
    destruct xs; apply nf_ret; auto.
Qed.

(* ---- above / below ---- *)
Lemma T_above_unb f v new s : R s -> c_bound (cell_of s v) = None -> 3 <= f ->
  nf (above H f v new) s (Qb v).
Proof.
  intros Rs Hv L. destruct f as [|f]; [lia|]. rewrite Inv.above_S.
  destruct (Nat.eqb new Top); [apply T_bind_base'; auto; lia|].
  unfold set_wild at 1. apply nf_upd_cell.
  set (s1 := set_cell s v _).
  assert (R1 : R s1) by (apply R_upd; auto).
  assert (B1 : basev s1 v) by (apply basev_upd; [apply basev_unb; exact Hv|reflexivity]).
  assert (H1 : c_bound (cell_of s1 v) = None).
  { unfold s1. destruct (cell_of_set_cell s v (mkCell false (c_bound (cell_of s v)) (c_lower (cell_of s v))
      (c_upper (cell_of s v)) (c_cs (cell_of s v))) v) as [(E & _)|E]; rewrite E; auto. }
  clearbody s1. apply nf_gets. rewrite H1.
  assert (SL : nf (set_lower v (Some new);;; check_constraints H f v) s1 (Qb v)).
  { unfold set_lower. apply nf_upd_cell. apply T_cc; [apply nocs_set_cell; apply R1|lia|].
    split; [apply R_upd; auto|apply basev_upd; auto]. }
  eapply nf_bind with (Q1 := Qb v).
  - destruct (c_upper (cell_of s1 v)), (c_lower (cell_of s1 v)); split_ifs;
      try exact SL; try (apply nf_fail; auto); apply nf_ret; auto.
  - intros _ s2 _ [R2 B2]. apply nf_gets.
    destruct (c_bound (cell_of s2 v)); [apply nf_ret; auto|].
    destruct (c_lower (cell_of s2 v)); [|apply nf_ret; auto].
    destruct (c_upper (cell_of s2 v)); [|apply nf_ret; auto].
    destruct (Nat.eqb _ _); [|apply nf_ret; auto].
    apply T_bind_base'; auto. lia.
Qed.

Lemma T_below_unb f v new s : R s -> c_bound (cell_of s v) = None -> 3 <= f ->
  nf (below H f v new) s (Qb v).
Proof.
  intros Rs Hv L. destruct f as [|f]; [lia|]. rewrite Inv.below_S.
  destruct (Nat.eqb new Bottom); [apply T_bind_base'; auto; lia|].
  unfold set_wild at 1. apply nf_upd_cell.
  set (s1 := set_cell s v _).
  assert (R1 : R s1) by (apply R_upd; auto).
  assert (B1 : basev s1 v) by (apply basev_upd; [apply basev_unb; exact Hv|reflexivity]).
  assert (H1 : c_bound (cell_of s1 v) = None).
  { unfold s1. destruct (cell_of_set_cell s v (mkCell false (c_bound (cell_of s v)) (c_lower (cell_of s v))
      (c_upper (cell_of s v)) (c_cs (cell_of s v))) v) as [(E & _)|E]; rewrite E; auto. }
  clearbody s1. apply nf_gets. rewrite H1.
  assert (SL : nf (set_upper v (Some new);;; check_constraints H f v) s1 (Qb v)).
  { unfold set_upper. apply nf_upd_cell. apply T_cc; [apply nocs_set_cell; apply R1|lia|].
    split; [apply R_upd; auto|apply basev_upd; auto]. }
  eapply nf_bind with (Q1 := Qb v).
  - destruct (c_lower (cell_of s1 v)), (c_upper (cell_of s1 v)); split_ifs;
      try exact SL; try (apply nf_fail; auto); apply nf_ret; auto.
  - intros _ s2 _ [R2 B2]. apply nf_gets.
    destruct (c_bound (cell_of s2 v)); [apply nf_ret; auto|].
    destruct (c_upper (cell_of s2 v)); [|apply nf_ret; auto].
    destruct (c_lower (cell_of s2 v)); [|apply nf_ret; auto].
    destruct (Nat.eqb _ _); [|apply nf_ret; auto].
    apply T_bind_base'; auto. lia.
Qed.

Lemma follow_set_same s v c' t : c_bound c' = c_bound (cell_of s v) ->
  follow (set_cell s v c') t = follow s t.
Proof.
  intros E. unfold follow. cbn [vars set_cell]. rewrite Inv.upd_length.
  apply follow_f_bound_eq. apply bound_set_cell_same. exact E.
Qed.

(* on a variable that is unbound or whose binding follows to an operation or
   an unbound variable *)
Definition fnb (s : store) (v : nat) : Prop :=
  forall t, c_bound (cell_of s v) = Some t -> nb s (follow s t).

Lemma T_above f v new s : R s -> fnb s v -> 5 <= f -> nf (above H f v new) s RQ.
Proof.
  intros Rs Fv L. destruct (c_bound (cell_of s v)) as [t|] eqn:Hv.
  2:{ eapply nf_conseq; [apply T_above_unb; auto; lia|]. cbv beta. intros _ s1 _ [R1 _]. exact R1. }
  destruct f as [|f]; [lia|]. rewrite Inv.above_S.
  destruct (Nat.eqb new Top); [apply T_bind_base; auto; lia|].
  unfold set_wild at 1. apply nf_upd_cell.
  set (c1 := mkCell false _ _ _ _). set (s1 := set_cell s v c1).
  assert (R1 : R s1) by (apply R_upd; auto).
  assert (H1 : c_bound (cell_of s1 v) = Some t).
  { unfold s1. destruct (cell_of_set_cell s v c1 v) as [(E & _)|E]; rewrite E; auto. }
  assert (F1 : forall x, follow s1 x = follow s x) by (intros x; apply follow_set_same; reflexivity).
  assert (N1 : forall x, nb s x -> nb s1 x).
  { intros x. apply nb_bound_eq. apply bound_set_cell_same. reflexivity. }
  clearbody s1. apply nf_gets. rewrite H1.
  destruct f as [|f]; [lia|]. apply T_unify_base_l; auto; [|lia].
  intros vb Ef. eapply nf_conseq; [apply T_above_unb; auto; [|lia]|].
  - specialize (Fv t Hv). rewrite <- F1, Ef in Fv. apply N1 in Fv. exact Fv.
  - cbv beta. intros _ s2 _ [R2 _]. exact R2.
Qed.

Lemma T_below f v new s : R s -> fnb s v -> 5 <= f -> nf (below H f v new) s RQ.
Proof.
  intros Rs Fv L. destruct (c_bound (cell_of s v)) as [t|] eqn:Hv.
  2:{ eapply nf_conseq; [apply T_below_unb; auto; lia|]. cbv beta. intros _ s1 _ [R1 _]. exact R1. }
  destruct f as [|f]; [lia|]. rewrite Inv.below_S.
  destruct (Nat.eqb new Bottom); [apply T_bind_base; auto; lia|].
  unfold set_wild at 1. apply nf_upd_cell.
  set (c1 := mkCell false _ _ _ _). set (s1 := set_cell s v c1).
  assert (R1 : R s1) by (apply R_upd; auto).
  assert (H1 : c_bound (cell_of s1 v) = Some t).
  { unfold s1. destruct (cell_of_set_cell s v c1 v) as [(E & _)|E]; rewrite E; auto. }
  assert (F1 : forall x, follow s1 x = follow s x) by (intros x; apply follow_set_same; reflexivity).
  assert (N1 : forall x, nb s x -> nb s1 x).
  { intros x. apply nb_bound_eq. apply bound_set_cell_same. reflexivity. }
  clearbody s1. apply nf_gets. rewrite H1.
  destruct f as [|f]; [lia|]. apply T_unify_base_r; auto; [|lia].
  intros vb Ef. eapply nf_conseq; [apply T_below_unb; auto; [|lia]|].
  - specialize (Fv t Hv). rewrite <- F1, Ef in Fv. apply N1 in Fv. exact Fv.
  - cbv beta. intros _ s2 _ [R2 _]. exact R2.
Qed.

(* ---- bind ---- *)
Lemma unb_set_other s v w c' : w <> v -> c_bound (cell_of s w) = None ->
  c_bound (cell_of (set_cell s v c') w) = None.
Proof. intros N E. rewrite cell_of_set_cell_other by exact N. exact E. Qed.

Lemma unb_set_same s w c' : c_bound c' = None -> c_bound (cell_of s w) = None ->
  c_bound (cell_of (set_cell s w c') w) = None.
Proof. intros Ec E. destruct (cell_of_set_cell s w c' w) as [(Ew & _)|Ew]; rewrite Ew; auto. Qed.

Lemma T_bind_V f v w s : R s -> c_bound (cell_of s w) = None -> 6 <= f ->
  nf (bind H f v (V w)) s RQ.
Proof.
  intros Rs Hw L. destruct f as [|f]; [lia|].
  rewrite Inv.bind_S. apply nf_gets.
  destruct (c_bound (cell_of s v)) eqn:Hb; [apply nf_fail; auto|].
  set (c := cell_of s v).
  unfold set_wild at 1. apply nf_upd_cell.
  set (s1 := set_cell s v _).
  assert (R1 : R s1) by (apply R_upd; auto).
  destruct (Nat.eqb v w) eqn:Evw; [apply nf_ret; exact R1|].
  apply Nat.eqb_neq in Evw.
  assert (W1 : c_bound (cell_of s1 w) = None) by (apply unb_set_other; auto).
  clearbody s1. unfold set_bound at 1. apply nf_upd_cell.
  set (s2 := set_cell s1 v _).
  assert (R2 : R s2) by (apply R_set_cell; auto; cbn; lia).
  assert (W2 : c_bound (cell_of s2 w) = None) by (apply unb_set_other; auto).
  clearbody s2. apply nf_modify. rewrite !(R_cs s2 R2). change (union [] []) with (@nil nat).
  set (s3 := set_cset s2 _ []).
  assert (R3 : R s3) by (apply R_set_cset; exact R2).
  assert (W3 : c_bound (cell_of s3 w) = None) by exact W2.
  clearbody s3. apply nf_gets. unfold set_cs at 1. apply nf_upd_cell.
  set (s4 := set_cell s3 v _).
  assert (R4 : R s4) by (apply R_upd; auto).
  assert (W4 : c_bound (cell_of s4 w) = None) by (apply unb_set_other; auto).
  clearbody s4. unfold set_wild at 1. apply nf_upd_cell.
  set (s5 := set_cell s4 w _).
  assert (R5 : R s5) by (apply R_upd; auto).
  assert (W5 : c_bound (cell_of s5 w) = None) by (apply unb_set_same; auto).
  clearbody s5.
  eapply nf_bind with (Q1 := Qb w).
  { destruct (c_lower c); [apply T_above_unb; auto; lia|].
    apply nf_ret. split; [exact R5|apply basev_unb; exact W5]. }
  intros _ s6 _ [R6 B6].
  eapply nf_bind with (Q1 := RQ).
  { destruct (c_upper c); [|apply nf_ret; exact R6].
    apply T_below; auto; [|lia]. intros t Ht. destruct (B6 t Ht) as (o & ->). exact I. }
  intros _ s7 _ R7. apply T_cc; auto; [apply R7|lia].
Qed.

Lemma T_forM_set_cs iv : forall vs s, R s -> nf (forM vs (fun w => set_cs w iv)) s RQ.
Proof.
  induction vs as [|w vs IH]; intros s Rs; cbn [forM]; [apply nf_ret; exact Rs|].
  unfold set_cs at 1. apply nf_upd_cell. apply IH. apply R_upd; auto.
Qed.

Lemma T_bind_O f v o args s : R s -> depth (O o args) <= M -> 1 <= f ->
  (basic H o = false -> forall c2, c_bound c2 = Some (O o args) ->
     exists vs, vars_f f (set_cell s v c2) (O o args) [] = Ok vs) ->
  nf (bind H (S f) v (O o args)) s RQ.
Proof.
  intros Rs Dt L HV. rewrite Inv.bind_S. apply nf_gets.
  destruct (c_bound (cell_of s v)) eqn:Hb; [apply nf_fail; auto|].
  set (c := cell_of s v).
  unfold set_wild at 1. apply nf_upd_cell.
  unfold set_bound at 1. apply nf_upd_cell. rewrite Lub.set_cell_twice.
  set (c2 := mkCell _ (Some (O o args)) _ _ _). set (s2 := set_cell s v c2).
  assert (R2 : R s2) by (apply R_set_cell; auto).
  eapply nf_bind with (Q1 := RQ).
  - destruct (basic H o) eqn:Eb.
    + split_ifs; try (apply nf_fail; auto); apply nf_ret; auto.
    + match goal with |- nf (if ?c then _ else _) _ _ => destruct c end; [apply nf_fail; auto|].
      destruct (HV eq_refl c2 eq_refl) as (vs & Ev). fold s2 in Ev.
      eapply nf_lift; [exact Ev|]. apply nf_modify.
      rewrite (fold_union_nocs s2 _ vs (R_cs s2 R2)).
      apply nf_gets. apply T_forM_set_cs. apply R_set_cset. exact R2.
  - intros _ s3 _ R3. apply T_cc; auto. apply R3.
Qed.

(* ---- depth bounds that survive the evolution of the store ---- *)
Record fut (s s' : store) : Prop := mkFut {
  fut_b : forall v t, c_bound (cell_of s v) = Some t -> c_bound (cell_of s' v) = Some t;
  fut_len : len s' = n;
  fut_dok : dok M s';
  fut_wf : forall t, wft s' t
}.

(* t has depth <= k through the bindings of every store the run can reach *)
Definition sdle (s : store) (a : tyv) (k : nat) : Prop := forall s', fut s s' -> dle s' a k.

Lemma fut_refl s : R s -> wsc s -> fut s s.
Proof. intros Rs Ws. constructor; auto; [apply Rs|apply Rs|apply wft_all; exact Ws]. Qed.

Lemma fut_trans s1 s2 s3 : fut s1 s2 -> fut s2 s3 -> fut s1 s3.
Proof. intros [b1 _ _ _] [b2 l d w]. constructor; auto. Qed.

Lemma sdle_fut s s1 a k : fut s s1 -> sdle s a k -> sdle s1 a k.
Proof. intros F S s' F'. apply S. eapply fut_trans; eauto. Qed.

Lemma sdle_init s a : depth a <= M -> sdle s a (M + n * M).
Proof.
  intros D s' F. eapply dle_mono; [apply (dle_dok s' M (fut_dok _ _ F) (fut_wf _ _ F) a)|].
  rewrite (fut_len _ _ F). lia.
Qed.

Lemma dle_reach s a b k : reach s a b -> dle s a k -> dle s b k.
Proof.
  induction 1 as [t|v t e Hv Rch IH]; intros D; auto.
  apply IH. inversion D; subst; congruence.
Qed.

Lemma sdle_reach s a b k : reach s a b -> sdle s a k -> sdle s b k.
Proof.
  intros Rch S s' F. eapply dle_reach; [eapply reach_ext; [apply (fut_b _ _ F)|exact Rch]|].
  apply S. exact F.
Qed.

Lemma sdle_args s o args k : fut s s -> sdle s (O o args) k ->
  exists k', k = S k' /\ forall x, In x args -> sdle s x k'.
Proof.
  intros F0 S. destruct (dle_args (S s F0)) as (k' & -> & _). exists k'. split; auto.
  intros x Hx s' F. destruct (dle_args (S s' F)) as (k'' & E & Dx). injection E as <-. auto.
Qed.

Lemma depth_follow_f s : dok M s -> forall fuel a, depth a <= M -> depth (follow_f fuel s a) <= M.
Proof.
  intros D. induction fuel as [|f IH]; intros [v|o args] Da; cbn [follow_f]; auto.
  - destruct (c_bound (cell_of s v)); auto.
  - destruct (c_bound (cell_of s v)) as [t'|] eqn:Hv; auto. apply IH. eapply D; eauto.
Qed.

(* ---- unify ---- *)
Definition Pre (s : store) : Prop := J H s /\ inv s /\ R s.

Definition specU (f : nat) : Prop := forall a b s k, Pre s -> tg H n a -> tg H n b ->
  depth a <= M -> depth b <= M -> sdle s a k -> sdle s b k -> k + 8 <= f ->
  nf (unify H f true false false a b) s RQ.

Lemma unify_post f a b s s' : Pre s -> tg H n a -> tg H n b ->
  unify H f true false false a b s = MOk tt s' -> R s' -> Pre s' /\ fut s s'.
Proof.
  intros (I & Iv & Rs) Ta Tb E R'.
  rewrite <- (R_len s Rs) in Ta, Tb.
  destruct (unify_sound_x H W f a b s s' I Ta Tb E) as (I' & _).
  assert (Sa : sct true s a) by (intros _; apply tg_tsc with (H := H); exact Ta).
  assert (Sb : sct true s b) by (intros _; apply tg_tsc with (H := H); exact Tb).
  pose proof (@unify_ok H true f true false false a b s Iv Sa Sb) as K. unfold ok in K. rewrite E in K.
  destruct K as (Iv' & X & _).
  split; [split; [exact I'|split; [exact Iv'|exact R']]|].
  constructor; [apply (ext_bound X)|apply R'|apply R'|apply wft_all; apply inv_wsc; exact Iv'].
Qed.

Lemma U_loop f k' : specU f -> k' + 8 <= f -> forall vs xs ys s, Pre s ->
  Forall (fun x => tg H n x /\ depth x <= M /\ sdle s x k') xs ->
  Forall (fun x => tg H n x /\ depth x <= M /\ sdle s x k') ys ->
  nf ((fix go (vs : list bool) (xs ys : list tyv) : Engine.M unit :=
         match vs, xs, ys with
         | v :: vs', x :: xs', y :: ys' =>
             (if v then unify H f true false false x y else unify H f true false false y x) ;;;
             go vs' xs' ys'
         | _, _, _ => ret tt
         end) vs xs ys) s RQ.
Proof.
  intros U L. induction vs as [|v vs IH]; intros xs ys s P Fx Fy; [apply nf_ret; apply P|].
  destruct xs as [|x xs]; [apply nf_ret; apply P|]. destruct ys as [|y ys]; [apply nf_ret; apply P|].
  inversion Fx as [|? ? (Tx & Dx & Sx) Fx']; subst. inversion Fy as [|? ? (Ty & Dy & Sy) Fy']; subst.
  assert (K : forall s1, R s1 -> fut s s1 -> Pre s1 ->
     nf ((fix go (vs : list bool) (xs ys : list tyv) : Engine.M unit :=
         match vs, xs, ys with
         | v :: vs', x :: xs', y :: ys' =>
             (if v then unify H f true false false x y else unify H f true false false y x) ;;;
             go vs' xs' ys'
         | _, _, _ => ret tt
         end) vs xs ys) s1 RQ).
  { intros s1 R1 F1 P1. apply IH; auto.
    - eapply Forall_impl; [|exact Fx']. cbv beta. intros z (Tz & Dz & Sz). repeat split; auto.
      eapply sdle_fut; eauto.
    - eapply Forall_impl; [|exact Fy']. cbv beta. intros z (Tz & Dz & Sz). repeat split; auto.
      eapply sdle_fut; eauto. }
  destruct v.
  - eapply nf_bind with (Q1 := RQ); [apply (U x y s k'); auto|].
    intros [] s1 E1 R1. destruct (unify_post f x y s s1 P Tx Ty E1 R1) as [P1 F1]. apply K; auto.
  - eapply nf_bind with (Q1 := RQ); [apply (U y x s k'); auto|].
    intros [] s1 E1 R1. destruct (unify_post f y x s s1 P Ty Tx E1 R1) as [P1 F1]. apply K; auto.
Qed.

Lemma fut_bind s v c2 t : R s -> (forall x, wft s x) -> c_bound (cell_of s v) = None ->
  c_bound c2 = Some t -> depth t <= M -> nocc s v t -> fut s (set_cell s v c2).
Proof.
  intros Rs Wf Hv Hc Dt Nt.
  assert (R2 : R (set_cell s v c2)) by (apply R_set_cell; auto; unfold bdepth; rewrite Hc; exact Dt).
  constructor; [|apply R2|apply R2|].
  - intros w x Hw. rewrite cell_of_set_cell_other; auto. intros ->. congruence.
  - intros x. eapply wft_set_bound; eauto.
Qed.

Lemma U_step f : specU f -> specU (S f).
Proof.
  intros U a0 b0 s k P Ta0 Tb0 Da0 Db0 Sa0 Sb0 L. pose proof P as (I & Iv & Rs).
  pose proof (inv_core Iv) as C. pose proof (fut_refl s Rs (inv_wsc Iv)) as F0.
  pose proof (wft_all (inv_wsc Iv)) as Wf.
  rewrite Inv.unify_S. apply nf_gets. apply nf_gets.
  assert (Ta : tg H n (follow s a0)) by (rewrite <- (R_len s Rs) in *; apply tg_follow; auto).
  assert (Tb : tg H n (follow s b0)) by (rewrite <- (R_len s Rs) in *; apply tg_follow; auto).
  pose proof (follow_unbound_core a0 C) as Na. pose proof (follow_unbound_core b0 C) as Nb.
  pose proof (depth_follow_f s (R_dok s Rs) _ a0 Da0 : depth (follow s a0) <= M) as Da.
  pose proof (depth_follow_f s (R_dok s Rs) _ b0 Db0 : depth (follow s b0) <= M) as Db.
  pose proof (sdle_reach s a0 _ k (reach_follow s a0) Sa0) as Sa.
  pose proof (sdle_reach s b0 _ k (reach_follow s b0) Sb0) as Sb.
  set (a := follow s a0) in *. set (b := follow s b0) in *. clearbody a b.
  destruct a as [va|oa xs]; destruct b as [vb|ob ys].
  - (* V, V *)
    apply nf_gets. apply nf_gets. cbn [negb orb]. apply T_bind_V; auto. lia.
  - (* V, O *)
    destruct (Nat.eqb ob Top); [apply nf_ret; exact Rs|].
    destruct (@occurs_f_fuel H f s (O ob ys) (V va) k 0 (Sb s F0) (@dle_unb s va 0 Na)) as (oc & Eo); [lia|].
    eapply nf_lift; [exact Eo|]. destruct oc; [apply nf_fail; auto|].
    pose proof (@occurs_false_nocc H f s (O ob ys) va C Na Eo) as No.
    destruct (basic H ob) eqn:Eb.
    + apply nf_gets. cbn [orb andb]. apply T_below; auto; [|lia]. intros t Ht. cbn in Na. congruence.
    + cbn [orb]. destruct f as [|f']; [lia|]. apply T_bind_O; auto; [lia|].
      intros _ c2 Hc. apply (@vars_f_fuel f' (set_cell s va c2) (O ob ys) [] k); [|lia].
      apply Sb. apply (fut_bind s va c2 (O ob ys)); auto.
  - (* O, V *)
    destruct (Nat.eqb oa Bottom); [apply nf_ret; exact Rs|].
    destruct (@occurs_f_fuel H f s (O oa xs) (V vb) k 0 (Sa s F0) (@dle_unb s vb 0 Nb)) as (oc & Eo); [lia|].
    eapply nf_lift; [exact Eo|]. destruct oc; [apply nf_fail; auto|].
    pose proof (@occurs_false_nocc H f s (O oa xs) vb C Nb Eo) as No.
    destruct (basic H oa) eqn:Eb.
    + apply nf_gets. cbn [orb andb]. apply T_above; auto; [|lia]. intros t Ht. cbn in Nb. congruence.
    + cbn [orb]. destruct f as [|f']; [lia|]. apply T_bind_O; auto; [lia|].
      intros _ c2 Hc. apply (@vars_f_fuel f' (set_cell s vb c2) (O oa xs) [] k); [|lia].
      apply Sa. apply (fut_bind s vb c2 (O oa xs)); auto.
  - (* O, O *)
    destruct (Nat.eqb oa Bottom || Nat.eqb ob Top); [apply nf_ret; exact Rs|].
    destruct (basic H oa).
    { cbn [andb negb]. split_ifs; try (apply nf_fail; auto); apply nf_ret; exact Rs. }
    destruct (Nat.eqb oa ob); [|apply nf_fail; auto].
    destruct (sdle_args s oa xs k F0 Sa) as (k' & -> & Sx).
    destruct (sdle_args s ob ys (S k') F0 Sb) as (k'' & E & Sy). injection E as <-.
    apply (U_loop f k' U); [lia|exact P| |].
    + apply Forall_forall. intros x Hx. split; [|split; [|apply Sx; exact Hx]].
      * destruct (tg_args H _ _ _ Ta) as [_ Fa]. rewrite Forall_forall in Fa. auto.
      * pose proof (depth_arg oa xs x Hx). lia.
    + apply Forall_forall. intros y Hy. split; [|split; [|apply Sy; exact Hy]].
      * destruct (tg_args H _ _ _ Tb) as [_ Fb]. rewrite Forall_forall in Fb. auto.
      * pose proof (depth_arg ob ys y Hy). lia.
Qed.

Theorem specU_all : forall f, specU f.
Proof.
  induction f as [|f IH]; [|apply U_step; exact IH].
  intros a b s k _ _ _ _ _ _ _ L. lia.
Qed.

(* ---- the part of apply after the function type is known ---- *)
Lemma T_apply_tail fuel x f' fixb s : Pre s -> tg H n x -> tg H n f' ->
  depth x <= M -> depth f' <= M -> M + n * M + 8 <= fuel ->
  nf (match f' with
      | O o [lft; rgt] =>
          if Nat.eqb o Function then
            unify H fuel true false false x lft ;;;
            if fixb && negb (is_fun rgt) then fix_ty H fuel true rgt else ret rgt
          else if Nat.eqb o Top then ret (O Top [])
          else fail EFunApp
      | O o _ => if Nat.eqb o Top then ret (O Top []) else fail EFunApp
      | V _ => fail EFunApp
      end) s (fun _ _ => True).
Proof.
  intros P Tx Tf Dx Df L. pose proof P as (I & Iv & Rs).
  destruct f' as [v|o [|lft [|rgt [|z r]]]]; try (apply nf_fail; auto);
    try (destruct (Nat.eqb o Top); [apply nf_ret; exact Logic.I|apply nf_fail; auto]).
  destruct (Nat.eqb o Function).
  2:{ destruct (Nat.eqb o Top); [apply nf_ret; exact Logic.I|apply nf_fail; auto]. }
  destruct (tg_args H _ _ _ Tf) as [_ Fa]. inversion Fa as [|? ? Tl Fa']; subst.
  inversion Fa' as [|? ? Tr _]; subst.
  assert (Dl : depth lft <= M) by (pose proof (depth_arg o [lft; rgt] lft (or_introl eq_refl)); lia).
  eapply nf_bind with (Q1 := RQ).
  - apply (specU_all fuel x lft s (M + n * M)); auto; try (apply sdle_init; auto); lia.
  - intros [] s1 E1 R1. destruct (unify_post fuel x lft s s1 P Tx Tl E1 R1) as [(I1 & Iv1 & _) F1].
    destruct (fixb && negb (is_fun rgt)); [|apply nf_ret; exact Logic.I].
    destruct (fix_total_fdl H W fuel true rgt s1 (M + n * M)) as (r & s2 & E2); auto.
    + apply inv_core. exact Iv1.
    + rewrite (R_len s1 R1). exact Tr.
    + apply dle_fdl. eapply dle_mono; [apply (dle_dok s1 M (R_dok s1 R1) (fut_wf _ _ F1) rgt)|].
      rewrite (R_len s1 R1).
      pose proof (depth_arg o [lft; rgt] rgt (or_intror (or_introl eq_refl))). lia.
    + lia.
    + eapply nf_eq; [exact E2|exact Logic.I].
Qed.

End Term.

(* ------------------------------------------------------------------ *)
(* the explicit fuel bounds                                             *)
(* ------------------------------------------------------------------ *)

(* the deepest term around: the two arguments and every binding of the store *)
Definition mdep (s : store) (a b : tyv) : nat :=
  Nat.max 1 (Nat.max (mdepth s) (Nat.max (depth a) (depth b))).

Definition unify_bound (s : store) (a b : tyv) : nat :=
  mdep s a b + len s * mdep s a b + 7.

(* apply may allocate the two variables of a fresh function type *)
Definition apply_bound (s : store) (f x : tyv) : nat :=
  mdep s f x + (len s + 2) * mdep s f x + 7.

Section Bounds.
Variable H : hier.
Hypothesis W : wf_hier H.

Lemma R_intro s M : J H s -> mdepth s <= M -> R M (len s) s.
Proof.
  intros I L. constructor; [apply I|reflexivity|eapply dok_mono; [exact L|apply dok_mdepth]].
Qed.

(* C17_term_P, unify: with more fuel than unify_bound, unification in subtype
   mode returns - a value or one of the typing errors, never EFuel (nor a
   crash, Inv.unify_ok) *)
Theorem unify_term fuel a b s : J H s -> inv s -> tg H (len s) a -> tg H (len s) b ->
  unify_bound s a b < fuel ->
  (exists s', unify H fuel true false false a b s = MOk tt s') \/
  (exists e s', unify H fuel true false false a b s = MEr e s' /\ e <> EFuel /\ forall n, e <> ECrash n).
Proof.
  intros I Iv Ta Tb L. unfold unify_bound in L. set (M := mdep s a b) in *.
  assert (M1 : 1 <= M) by (unfold M, mdep; lia).
  assert (Rs : R M (len s) s) by (apply R_intro; auto; unfold M, mdep; lia).
  assert (P : Pre H M (len s) s) by (split; [exact I|split; [exact Iv|exact Rs]]).
  assert (Da : depth a <= M) by (unfold M, mdep; lia).
  assert (Db : depth b <= M) by (unfold M, mdep; lia).
  clearbody M.
  pose proof (specU_all H W M (len s) M1 fuel a b s (M + len s * M) P Ta Tb Da Db) as K.
  assert (Sa : sct true s a) by (intros _; apply tg_tsc with (H := H); exact Ta).
  assert (Sb : sct true s b) by (intros _; apply tg_tsc with (H := H); exact Tb).
  pose proof (@unify_ok H true fuel true false false a b s Iv Sa Sb) as K2. unfold ok in K2.
  unfold nf in K.
  destruct (unify H fuel true false false a b s) as [[] s'|e s'].
  - left. eauto.
  - right. exists e, s'. split; [reflexivity|]. split; [|apply K2].
    apply K; try (apply sdle_init; auto); lia.
Qed.

Lemma alloc_cell_old s w v : v < len s -> cell_of (snd (alloc_var s w)) v = cell_of s v.
Proof. intros L. unfold alloc_var, cell_of; cbn. apply app_nth1. exact L. Qed.

Lemma alloc_cell_new s w : c_bound (cell_of (snd (alloc_var s w)) (len s)) = None.
Proof. unfold alloc_var, cell_of; cbn. rewrite app_nth2 by lia. rewrite Nat.sub_diag. reflexivity. Qed.

Lemma R_alloc M s w : R M (len s) s -> R M (S (len s)) (snd (alloc_var s w)).
Proof.
  intros [Ncs _ D]. constructor.
  - intros i. rewrite alloc_var_cset. apply Ncs.
  - apply alloc_var_length.
  - intros v t. rewrite alloc_var_bound. apply D.
Qed.

(* C17_term_P, apply *)
Theorem apply_term fuel f0 x0 fixb s : J H s -> inv s -> tg H (len s) f0 -> tg H (len s) x0 ->
  apply_bound s f0 x0 < fuel ->
  forall s', apply H fuel f0 x0 fixb s <> MEr EFuel s'.
Proof.
  intros I Iv Tf0 Tx0 L. unfold apply_bound in L. set (M := mdep s f0 x0) in *.
  assert (M1 : 1 <= M) by (unfold M, mdep; lia).
  assert (Rs : R M (len s) s) by (apply R_intro; auto; unfold M, mdep; lia).
  assert (Df0 : depth f0 <= M) by (unfold M, mdep; lia).
  assert (Dx0 : depth x0 <= M) by (unfold M, mdep; lia).
  clearbody M.
  assert (K : nf (apply H fuel f0 x0 fixb) s (fun _ _ => True)).
  2:{ intros s' E. unfold nf in K. rewrite E in K. congruence. }
  unfold apply. apply nf_gets. apply nf_gets.
  pose proof (tg_follow H s f0 I Tf0) as Tf. pose proof (tg_follow H s x0 I Tx0) as Tx.
  pose proof (depth_follow_f M s (R_dok _ _ _ Rs) _ f0 Df0 : depth (follow s f0) <= M) as Df.
  pose proof (depth_follow_f M s (R_dok _ _ _ Rs) _ x0 Dx0 : depth (follow s x0) <= M) as Dx.
  pose proof (follow_unbound_core f0 (inv_core Iv)) as Nf.
  set (f := follow s f0) in *. set (x := follow s x0) in *. clearbody f x.
  eapply nf_bind with (Q1 := fun f' s1 => exists n1, n1 <= len s + 2 /\ Pre H M n1 s1 /\
                                 tg H n1 x /\ tg H n1 f' /\ depth f' <= M).
  - destruct f as [vf|o args].
    2:{ apply nf_ret. exists (len s). split; [lia|]. split; [split; [exact I|split; [exact Iv|exact Rs]]|]. auto. }
    cbn in Nf. assert (Lv : vf < len s) by (inversion Tf; auto).
    apply nf_fresh.
    pose proof (J_alloc H s false I) as I1. pose proof (@inv_alloc_var true s false Iv) as Iv1.
    pose proof (R_alloc M s false Rs) as R1. pose proof (alloc_var_length s false) as N1.
    pose proof (alloc_cell_old s false vf Lv) as C1. pose proof (alloc_cell_new s false) as A1.
    set (s1 := snd (alloc_var s false)) in *. clearbody s1.
    apply nf_fresh. rewrite N1.
    pose proof (J_alloc H s1 false I1) as I2. pose proof (@inv_alloc_var true s1 false Iv1) as Iv2.
    rewrite <- N1 in R1. pose proof (R_alloc M s1 false R1) as R2. pose proof (alloc_var_length s1 false) as N2.
    assert (C2 : cell_of (snd (alloc_var s1 false)) vf = cell_of s vf)
      by (rewrite alloc_cell_old by lia; exact C1).
    assert (A2 : c_bound (cell_of (snd (alloc_var s1 false)) (len s)) = None)
      by (rewrite alloc_cell_old by lia; exact A1).
    pose proof (alloc_cell_new s1 false) as B2. rewrite N1 in B2.
    set (s2 := snd (alloc_var s1 false)) in *. clearbody s2.
    set (t := O Function [V (len s); V (S (len s))]).
    assert (Vf : variance H Function = [false; true]) by apply (wf_fun H W).
    assert (Nbf : basic H Function = false).
    { destruct (basic H Function) eqn:Eb; auto. apply Lub.basic_iff in Eb. congruence. }
    assert (Tt : tg H (len s2) t).
    { constructor; [rewrite Vf; reflexivity|].
      constructor; [constructor; lia|constructor; [constructor; lia|constructor]]. }
    assert (Hvf : c_bound (cell_of s2 vf) = None) by (rewrite C2; exact Nf).
    assert (Dt : depth t <= M) by (unfold t; cbn; lia).
    assert (No : nocc s2 vf t).
    { apply nocc_op. intros z [<-|[<-|[]]]; apply nocc_unb; auto; lia. }
    destruct fuel as [|fuel']; [lia|].
    assert (R2' : R M (len s2) s2) by (rewrite N2; exact R2).
    assert (Lf : 2 <= fuel') by lia.
    eapply nf_bind with (Q1 := fun _ s3 => R M (len s2) s3).
    + apply T_bind_O; auto; [lia|]. intros _ c2 Hc.
      apply (@vars_f_fuel fuel' (set_cell s2 vf c2) t [] 1); [|lia].
      apply dle_op. intros z [<-|[<-|[]]]; apply dle_unb; rewrite cell_of_set_cell_other by lia; auto.
    + intros [] s3 E3 R3. apply nf_gets_end.
      destruct (bind_sound_x H W (S fuel') vf t s2 s3 I2) as (I3 & _); auto; [lia| |].
      { intros o args [= <- <-] Eb. congruence. }
      assert (Iv3 : inv s3 /\ ext s2 s3).
      { pose proof (@bind_ok H true (S fuel') vf t s2 Iv2 Hvf) as K3. unfold ok in K3. rewrite E3 in K3.
        destruct K3 as (A & B & _); auto.
        - exact Logic.I.
        - intros _. lia.
        - intros _. apply tg_tsc with (H := H). exact Tt.
        - intros _. right. exact No. }
      destruct Iv3 as [Iv3 X3].
      assert (L3 : len s3 = len s2) by apply R3.
      exists (len s2). split; [lia|]. split; [split; [exact I3|split; [exact Iv3|exact R3]]|].
      split; [eapply tg_mono; [|exact Tx]; lia|]. split.
      * rewrite <- L3. apply tg_follow; auto. constructor. lia.
      * apply (depth_follow_f M s3 (R_dok _ _ _ R3)). cbn. lia.
  - cbv beta. intros f' s1 _ (n1 & Ln & P1 & Tx1 & Tf1 & Df1).
    apply (T_apply_tail H W M n1 M1 fuel x f' fixb s1); auto.
    assert (n1 * M <= (len s + 2) * M) by (apply Nat.mul_le_mono_r; exact Ln). lia.
Qed.

End Bounds.
