(* C18 for the class progE, part R2: the relational replay.

   [T2 m s Q]: the computation m, started in the store s and in the store s with
   ANY other schedule, gives related outcomes - both succeed with the same value
   and [eqr]-related stores (and Q holds of the first), or both fail, or one of the
   two runs is out of fuel.  The rules of this triple have the shape of the rules of
   the unary triple [tr] of Infer/Sound.v, so that the proofs of
   Infer/SchedIndepElimP.v / ...I.v can be replayed; the rule for sequencing
   ([T2_bind]) needs, in addition, the lockstep congruence of the continuation
   ([cong], Infer/SchedIndepElimQ.v): after the first part the two runs are in
   different ([eqr]-related) stores; the continuation from the second store runs in
   lockstep with the continuation from the first store under the second schedule,
   and that one is compared with the first run by the triple of the continuation.
   A round is related to itself by the one-round theorem ([T2_cc]).

   Replayed: [R_bindb], [R_above], [R_below], [R_bindV], [R_bindC], [R_unify_all],
   [R_fix_all], [R_apply] (one GI store, two schedules; the unary halves are taken
   from Infer/SchedIndepElimP.v by [T2_post]);  [nc_T2] / [R_new_constraint],
   [R_eval_constr], [R_loop], [R_instance] (two [eqr]-related stores satisfying the
   invariant, two schedules: the closure at the creation of a constraint is the
   schematic variable alone on either side, the first fulfill of the new constraint
   is compared by [T2] and carried over by the lockstep congruence of fulfill).
   [two_sided]: lockstep congruence + [T2] at the second store give the two-store
   statement.  [RelCmd_all]: the hypothesis of [whole_partial];  [final]: the
   whole-program theorem. *)
From Coq Require Import List Arith Bool Lia Permutation.
Import ListNotations.
From TF Require Import Base.Hier Base.Ty Sub.SubSpec Infer.Store Infer.Engine Infer.Run
  Infer.Sched Infer.Inv Infer.Sound Infer.FixLeast Infer.TermP Infer.SchedIndep Infer.SoundSub
  Infer.TermSub Infer.SoundElimS Infer.SoundElimK Infer.SoundElim Infer.TermElim
  Infer.SchedIndepElimA Infer.SchedIndepElimR Infer.SchedIndepElim Infer.SchedIndepElimP
  Infer.SchedIndepElimI Infer.SchedIndepElimQ Infer.SchedIndepElimW Infer.Frame.
From TF Require Infer.Lub Infer.FitsEngineList.

Unset Implicit Arguments.

(* ------------------------------------------------------------------ *)
(* the relational triple                                                *)
(* ------------------------------------------------------------------ *)
Definition ro {A} (Q : A -> store -> Prop) (r1 r2 : mres A) : Prop :=
  match r1, r2 with
  | MOk a t1, MOk b t2 => a = b /\ eqr t1 t2 /\ Q a t1
  | MOk _ _, MEr e _ => e = EFuel
  | MEr e _, MOk _ _ => e = EFuel
  | MEr _ _, MEr _ _ => True
  end.

Definition T2 {A} (m : M A) (s : store) (Q : A -> store -> Prop) : Prop :=
  forall tau, ro Q (m s) (m (with_sched s tau)).

Lemma eqr_ws s tau : eqr s (with_sched s tau).
Proof. unfold eqr, with_sched. cbn. split; [|split; [|split]]; auto. intros c. apply creq_refl. Qed.

Lemma ro_CR {A} (Q : A -> store -> Prop) s1 s2 (r1 r' r2 : mres A) :
  ro Q r1 r' -> CR s1 s2 r' r2 -> ro Q r1 r2.
Proof.
  unfold ro, CR. destruct r1 as [a u1|e1 u1], r' as [b u'|e' u'], r2 as [c u2|e2 u2]; try tauto.
  - intros (-> & E & HQ) (-> & (E' & _) & _). split; [reflexivity|]. split; [eapply eqr_trans; eauto|exact HQ].
  - intros -> ->. reflexivity.
Qed.

Lemma T2_ret {A} (a : A) s (Q : A -> store -> Prop) : Q a s -> T2 (ret a) s Q.
Proof. intros HQ tau. cbn. split; [reflexivity|]. split; [apply eqr_ws|exact HQ]. Qed.

Lemma T2_fail {A} e s (Q : A -> store -> Prop) : T2 (fail e) s Q.
Proof. intros tau. exact I. Qed.

Lemma T2_bind {A B} (m : M A) (k : A -> M B) s (Q1 : A -> store -> Prop) (Q : B -> store -> Prop) :
  T2 m s Q1 -> (forall a, cong (k a)) ->
  (forall a s1, m s = MOk a s1 -> Q1 a s1 -> T2 (k a) s1 Q) -> T2 (bindM m k) s Q.
Proof.
  intros T1 Ck K tau. specialize (T1 tau). unfold bindM, ro in T1 |- *.
  destruct (m s) as [a t1|e1 t1] eqn:E1, (m (with_sched s tau)) as [b t2|e2 t2] eqn:E2.
  - destruct T1 as (<- & E & HQ).
    apply (ro_CR Q (with_sched t1 (sched t2)) t2 _ (k a (with_sched t1 (sched t2)))).
    + apply (K a t1 eq_refl HQ).
    + apply Ck. split; [|reflexivity]. eapply eqr_trans; [|exact E]. apply eqr_sym. apply eqr_ws.
  - subst e2. destruct (k a t1); auto.
  - subst e1. destruct (k b t2); auto.
  - exact I.
Qed.

Lemma T2_gets {A B} (g : store -> A) (k : A -> M B) s (Q : B -> store -> Prop) :
  (forall tau, g (with_sched s tau) = g s) -> T2 (k (g s)) s Q -> T2 (bindM (gets g) k) s Q.
Proof. intros G T tau. unfold bindM, gets. rewrite G. apply T. Qed.

Lemma T2_gets_end {A} (g : store -> A) s (Q : A -> store -> Prop) :
  (forall tau, g (with_sched s tau) = g s) -> Q (g s) s -> T2 (gets g) s Q.
Proof. intros G HQ tau. unfold gets. cbn. rewrite G. split; [reflexivity|]. split; [apply eqr_ws|exact HQ]. Qed.

Lemma T2_modify {B} (g : store -> store) (k : unit -> M B) s (Q : B -> store -> Prop) :
  (forall tau, g (with_sched s tau) = with_sched (g s) tau) -> T2 (k tt) (g s) Q -> T2 (bindM (modify g) k) s Q.
Proof. intros G T tau. unfold bindM, modify. rewrite G. apply T. Qed.

Lemma T2_modify_end (g : store -> store) s (Q : unit -> store -> Prop) :
  (forall tau, g (with_sched s tau) = with_sched (g s) tau) -> Q tt (g s) -> T2 (modify g) s Q.
Proof. intros G HQ tau. unfold modify. cbn. rewrite G. split; [reflexivity|]. split; [apply eqr_ws|exact HQ]. Qed.

Lemma T2_upd_cell {B} v g (k : unit -> M B) s (Q : B -> store -> Prop) :
  T2 (k tt) (set_cell s v (g (cell_of s v))) Q -> T2 (bindM (upd_cell v g) k) s Q.
Proof. unfold upd_cell. intros T. apply (T2_modify (fun s => set_cell s v (g (cell_of s v))) k s Q); [reflexivity|exact T]. Qed.

Lemma T2_upd_cell_end v g s (Q : unit -> store -> Prop) :
  Q tt (set_cell s v (g (cell_of s v))) -> T2 (upd_cell v g) s Q.
Proof. unfold upd_cell. intros T. apply (T2_modify_end (fun s => set_cell s v (g (cell_of s v))) s Q); [reflexivity|exact T]. Qed.

Lemma T2_lift {A B} (r : store -> res A) (k : A -> M B) s (Q : B -> store -> Prop) :
  (forall tau, r (with_sched s tau) = r s) ->
  (forall a, r s = Ok a -> T2 (k a) s Q) -> T2 (bindM (lift r) k) s Q.
Proof.
  intros G K tau. unfold bindM, lift. rewrite G. destruct (r s) as [a|e] eqn:Er; [|exact I].
  apply (K a eq_refl).
Qed.

Lemma T2_conseq {A} (m : M A) s (Q1 Q : A -> store -> Prop) :
  T2 m s Q1 -> (forall a s1, m s = MOk a s1 -> Q1 a s1 -> Q a s1) -> T2 m s Q.
Proof.
  intros T K tau. specialize (T tau). unfold ro in *.
  destruct (m s) as [a t1|e1 t1] eqn:E1, (m (with_sched s tau)) as [b t2|e2 t2]; auto.
  destruct T as (A1 & A2 & A3). auto.
Qed.

Lemma T2_fresh {B} w (k : nat -> M B) s (Q : B -> store -> Prop) :
  T2 (k (length (vars s))) (snd (alloc_var s w)) Q -> T2 (bindM (fresh w) k) s Q.
Proof. intros T tau. apply T. Qed.

Lemma T2_ret_bind {A B} (a : A) (k : A -> M B) s (Q : B -> store -> Prop) :
  T2 (k a) s Q -> T2 (bindM (ret a) k) s Q.
Proof. intros T tau. apply T. Qed.

(* the unary half *)
Lemma T2_tr {A} (m : M A) s (Q : A -> store -> Prop) : T2 m s Q -> tr m s Q.
Proof.
  intros T a s' E. specialize (T (sched s)). rewrite with_sched_self in T. unfold ro in T. rewrite E in T. apply T.
Qed.

Lemma T2_and {A} (m : M A) s (Q1 Q2 : A -> store -> Prop) :
  T2 m s Q1 -> tr m s Q2 -> T2 m s (fun a s' => Q1 a s' /\ Q2 a s').
Proof. intros T U. eapply T2_conseq; [exact T|]. intros a s1 E HQ. split; [exact HQ|apply U; exact E]. Qed.

Notation R2 m s := (T2 m s (fun _ _ => True)).

Lemma T2_post {A} (m : M A) s (Q : A -> store -> Prop) : R2 m s -> tr m s Q -> T2 m s Q.
Proof. intros T U. eapply T2_conseq; [exact T|]. intros a s1 E _. apply U. exact E. Qed.

Lemma T2_weak {A} (m : M A) s (Q : A -> store -> Prop) : T2 m s Q -> R2 m s.
Proof. intros T. eapply T2_conseq; [exact T|auto]. Qed.

Ltac sfree := intro; first [reflexivity | apply follow_vars; reflexivity].
Ltac t2_gets := apply T2_gets; [sfree|].
Ltac t2_modify := apply T2_modify; [intro; reflexivity|].

Lemma T2_pre {A B} (m : M A) (k : A -> M B) s a s' (Q : B -> store -> Prop) :
  (forall tau, (exists t, m (with_sched s tau) = MEr EFuel t) \/ m (with_sched s tau) = MOk a (with_sched s' tau)) ->
  sched s' = sched s -> T2 (k a) s' Q -> T2 (bindM m k) s Q.
Proof.
  intros Hm Es T tau. pose proof (Hm (sched s)) as H1. pose proof (Hm tau) as H2.
  rewrite with_sched_self in H1. unfold bindM, ro.
  assert (E' : with_sched s' (sched s) = s') by (rewrite <- Es; apply with_sched_self).
  destruct H1 as [(t1 & ->)| ->], H2 as [(t2 & ->)| ->].
  - exact I.
  - destruct (k a (with_sched s' tau)); reflexivity.
  - rewrite E'. destruct (k a s'); reflexivity.
  - rewrite E'. apply T.
Qed.

Section R2.
Variable H : hier.
Hypothesis W : wf_hier H.
Local Notation inv := (invb true).
Local Notation len s := (length (vars s)).
Local Notation cs s v := (c_cs (cell_of s v)).

(* ------------------------------------------------------------------ *)
(* lockstep congruence of continuations, by computation                 *)
(* ------------------------------------------------------------------ *)
Ltac eqs_rw E :=
  rewrite ?(cell_of_eqs _ _ E), ?(cset_of_eqs _ _ E), ?(follow_eqs _ _ E), ?(k_done_eqs _ _ E).

Ltac eqs_rd :=
  let s1 := fresh "s1" in let s2 := fresh "s2" in let E := fresh "E" in
  intros s1 s2 E;
  first [ apply occurs_f_vars; apply (vars_eqs _ _ E)
        | apply vars_f_vars; apply (vars_eqs _ _ E)
        | apply match_f_vars; apply (vars_eqs _ _ E)
        | cbv zeta; eqs_rw E;
          first [ reflexivity
                | apply (eqs_lift _ _ _ _ E); [|reflexivity|reflexivity];
                  first [ apply eqr_set_cset; apply E
                        | apply eqr_set_cell; apply E ] ] ].

Ltac cg_step :=
  first
    [ apply cong_ret
    | apply cong_fail
    | apply cong_fresh_list
    | apply cong_fresh
    | apply cong_unify
    | apply cong_bind_var
    | apply cong_above
    | apply cong_below
    | apply cong_fix_ty
    | apply cong_cc
    | apply cong_fulfill
    | apply cong_upd_cell
    | apply cong_gets; eqs_rd
    | apply cong_lift; eqs_rd
    | apply cong_modify; [eqs_rd|reflexivity]
    | apply cong_bind; [|intro]
    | apply cong_forM; intro
    | match goal with
      | |- cong (if ?c then _ else _) => destruct c
      | |- cong (match ?x with _ => _ end) => destruct x
      end ].
Ltac cg := intros; repeat cg_step.

(* ------------------------------------------------------------------ *)
(* a round                                                              *)
(* ------------------------------------------------------------------ *)
Theorem T2_cc pend f v s : GI H pend s -> share s pend v ->
  T2 (check_constraints H f v) s (fun _ s' => GI H nop s' /\ FrB s s').
Proof.
  intros G Sh tau.
  pose proof (round_indep H W f f v s (sched s) tau (GI_RoundPre H pend s v G Sh)) as R.
  rewrite with_sched_self in R. unfold ro.
  destruct (check_constraints H f v s) as [u t1|e1 t1] eqn:E1,
           (check_constraints H f v (with_sched s tau)) as [u2 t2|e2 t2]; auto.
  destruct u, u2. split; [reflexivity|]. split; [apply eqk_eqr; exact R|].
  apply (GI_cc H W pend f v s tt t1 G Sh E1).
Qed.

(* ------------------------------------------------------------------ *)
(* bind base, above, below                                              *)
(* ------------------------------------------------------------------ *)
Theorem R_bindb f pend v o s : GI H pend s -> share s pend v -> v < len s ->
  c_bound (cell_of s v) = None -> variance H o = [] -> R2 (bind H f v (O o [])) s.
Proof.
  intros G Sh Lv U Vo. destruct f as [|f]; [rewrite bind_0; apply T2_fail|].
  rewrite Inv.bind_S. t2_gets. rewrite U.
  unfold set_wild at 1. apply T2_upd_cell. unfold set_bound at 1. apply T2_upd_cell.
  rewrite set_cell_twice. rewrite cell_of_set_cell_same by exact Lv. cbn [c_wild c_lower c_upper c_cs].
  fold (cbd (cell_of s v) (O o [])). set (s2 := set_cell s v (cbd (cell_of s v) (O o []))).
  pose proof (GI_bindO H W pend s v o [] G Lv U (tg_O0 H _ o Vo) (nocc_O0 s v o)) as G2. fold s2 in G2.
  assert (Sh2 : share s2 pend v).
  { apply share_bindO; auto; [apply G|apply G2]. }
  eapply T2_bind with (Q1 := fun _ s3 => s3 = s2).
  - assert (Bo : basic H o = true) by (unfold basic, arity; rewrite Vo; reflexivity). rewrite Bo.
    repeat match goal with |- T2 (if ?c then _ else _) _ _ => destruct c end; try apply T2_fail. apply T2_ret. reflexivity.
  - cg.
  - intros _ s3 _ ->. eapply T2_weak. apply (T2_cc pend f v s2 G2 Sh2).
Qed.

Lemma R_mid_tail f pend v s s1 (body : M unit) (tl : cell -> M unit) :
  GI H pend s1 -> Qt s s1 -> share s1 pend v -> v < len s1 ->
  (forall c, Sound.bok H c -> tl c = ret tt \/
     (c_bound c = None /\ exists o, variance H o = [] /\ tl c = bind H f v (O o []))) ->
  (forall c, cong (tl c)) ->
  T2 body s1 (fun _ s2 => Mid H s1 s2) ->
  R2 (body ;;; (c' <- gets (fun s => cell_of s v) ;; tl c')) s1.
Proof.
  intros G1 Q Sh1 Lv Htl Ctl Tb. eapply T2_bind; [exact Tb| |].
  { intros _. apply cong_bind; [cg_step|exact Ctl]. }
  cbv beta. intros _ s2 _ M2. t2_gets.
  destruct M2 as [(G2 & F12)| ->].
  - assert (Lv2 : v < len s2) by (rewrite (proj1 F12); exact Lv).
    destruct (Htl _ (JE_b H s2 (proj1 G2) v)) as [->|(Hb & o & Vo & ->)].
    + apply T2_ret. exact I.
    + apply (R_bindb f nop v o s2 G2 (share_nop s2 v) Lv2 Hb Vo).
  - destruct (Htl _ (JE_b H s1 (proj1 G1) v)) as [->|(Hb & o & Vo & ->)].
    + apply T2_ret. exact I.
    + apply (R_bindb f pend v o s1 G1 Sh1 Lv Hb Vo).
Qed.

Lemma R_set_bounds_round f pend v s1 c1 : GI H pend s1 -> share s1 pend v -> v < len s1 ->
  c_bound (cell_of s1 v) = None -> c_bound c1 = None -> c_cs c1 = cs s1 v -> Sound.bok H c1 ->
  T2 (check_constraints H f v) (set_cell s1 v c1) (fun _ s2 => Mid H s1 s2).
Proof.
  intros G1 Sh1 Lv U Eb Ecs Bk. apply T2_post; [|apply (set_bounds_round H W f pend v s1 c1); auto].
  pose proof (GI_bounds H W pend s1 v c1 G1 Lv U Eb Ecs Bk) as G2.
  pose proof (share_bounds H pend s1 v c1 G1 Lv U Eb Ecs Sh1) as Sh2.
  eapply T2_weak. apply (T2_cc _ f v _ G2 Sh2).
Qed.

Lemma R_unify_OO f a b s : R2 (unify H f true false false (O a []) (O b [])) s.
Proof.
  destruct f as [|f]; [rewrite unify_0; apply T2_fail|].
  rewrite unify_S. t2_gets. t2_gets. rewrite !Lub.follow_O.
  repeat match goal with |- T2 (if ?c then _ else _) _ _ => destruct c end;
    try apply T2_fail; try (apply T2_ret; exact I).
  destruct (variance H a); apply T2_ret; exact I.
Qed.

Theorem R_above f pend v new s : GI H pend s -> share s pend v -> v < len s -> base_or_unb s v ->
  variance H new = [] -> new <> Bottom -> R2 (above H f v new) s.
Proof.
  intros G Sh Lv Bu Vn NBn. destruct f as [|f]; [rewrite above_0; apply T2_fail|].
  rewrite Inv.above_S. destruct (new =? Top) eqn:ET.
  { apply Nat.eqb_eq in ET. subst new. destruct Bu as [U|(a & Hb)].
    - apply (R_bindb f pend v Top s G Sh Lv U Vn).
    - apply T2_post with (Q := fun _ _ => True); [|intros u s' E; exact I].
      intros tau. unfold ro. destruct f as [|f]; [rewrite bind_0; exact I|].
      rewrite Inv.bind_S. unfold bindM, gets. change (cell_of (with_sched s tau) v) with (cell_of s v). rewrite Hb. exact I. }
  apply Nat.eqb_neq in ET.
  assert (Bn : basic H new = true) by (unfold basic, arity; rewrite Vn; reflexivity).
  unfold set_wild at 1. apply T2_upd_cell. fold (cwf' (cell_of s v)).
  set (s1 := set_cell s v (cwf' (cell_of s v))).
  assert (Q : Qt s s1) by (apply Qt_wild; [exact Lv|repeat split]).
  destruct (JEinv_cell H s v (cwf' (cell_of s v)) (proj1 G) (proj1 (proj2 G)) Lv eq_refl eq_refl (JE_b H s (proj1 G) v)) as (J1 & I1).
  fold s1 in J1, I1.
  pose proof (GI_quiet H W pend s s1 G Q J1 I1) as G1. pose proof (share_quiet pend s s1 v Q Sh) as Sh1.
  assert (Lv1 : v < len s1) by (rewrite (proj1 Q); exact Lv).
  assert (C1 : cell_of s1 v = cwf' (cell_of s v)) by (apply cell_of_set_cell_same; exact Lv).
  t2_gets. rewrite C1. cbn [cwf' c_bound c_lower c_upper].
  destruct Bu as [U|(a & Hb)].
  2:{ rewrite Hb. apply R_unify_OO. }
  rewrite U.
  assert (U1 : c_bound (cell_of s1 v) = None) by (rewrite C1; exact U).
  destruct (JE_b H s (proj1 G) v) as (B1 & B2 & B3).
  assert (SET : (forall u, c_upper (cell_of s v) = Some u -> Lub.ole H new u) ->
    T2 (set_lower v (Some new) ;;; check_constraints H f v) s1 (fun _ s2 => Mid H s1 s2)).
  { intros Hu. unfold set_lower. apply T2_upd_cell. rewrite C1. cbn [cwf' c_wild c_bound c_upper c_cs].
    apply (R_set_bounds_round f pend v s1 _ G1 Sh1 Lv1 U1); [exact U|rewrite C1; reflexivity|].
    split; [|split]; cbn.
    - intros l [= <-]. auto.
    - exact B2.
    - intros l u [= <-] Hu'. apply Hu. exact Hu'. }
  apply (R_mid_tail f pend v s s1 _ (fun c' => match c_bound c', c_lower c', c_upper c' with
            | None, Some l, Some u => if l =? u then bind H f v (O l []) else ret tt
            | _, _, _ => ret tt end) G1 Q Sh1 Lv1).
  - intros c (Bl & _). destruct (c_bound c); [left; reflexivity|].
    destruct (c_lower c) as [l|] eqn:Hl; [|left; reflexivity]. destruct (c_upper c); [|left; reflexivity].
    destruct (l =? n); [right|left; reflexivity]. split; [reflexivity|]. exists l. split; [apply (Bl l eq_refl)|reflexivity].
  - cg.
  - destruct (c_upper (cell_of s v)) as [u|] eqn:Hu.
    + destruct (osub H true u new); [apply T2_fail|].
      destruct (negb (osub H false new u)) eqn:En; [apply T2_fail|].
      assert (Le : forall u', Some u = Some u' -> Lub.ole H new u').
      { intros u' [= <-]. apply (osubF_ole H W). apply negb_false_iff in En. exact En. }
      destruct (c_lower (cell_of s v)) as [l|]; [|apply SET; exact Le].
      destruct (osub H true new l); [apply T2_ret; right; reflexivity|].
      destruct (osub H false l new); [apply SET; exact Le|apply T2_fail].
    + destruct (c_lower (cell_of s v)) as [l|]; [|apply SET; discriminate].
      destruct (osub H true new l); [apply T2_ret; right; reflexivity|].
      destruct (osub H false l new); [apply SET; discriminate|apply T2_fail].
Qed.

Theorem R_below f pend v new s : GI H pend s -> share s pend v -> v < len s -> base_or_unb s v ->
  variance H new = [] -> new <> Top -> R2 (below H f v new) s.
Proof.
  intros G Sh Lv Bu Vn NTn. destruct f as [|f]; [rewrite below_0; apply T2_fail|].
  rewrite Inv.below_S. destruct (new =? Bottom) eqn:EB.
  { apply Nat.eqb_eq in EB. subst new. destruct Bu as [U|(a & Hb)].
    - apply (R_bindb f pend v Bottom s G Sh Lv U Vn).
    - intros tau. unfold ro. destruct f as [|f]; [rewrite bind_0; exact I|].
      rewrite Inv.bind_S. unfold bindM, gets. change (cell_of (with_sched s tau) v) with (cell_of s v). rewrite Hb. exact I. }
  apply Nat.eqb_neq in EB.
  assert (Bn : basic H new = true) by (unfold basic, arity; rewrite Vn; reflexivity).
  unfold set_wild at 1. apply T2_upd_cell. fold (cwf' (cell_of s v)).
  set (s1 := set_cell s v (cwf' (cell_of s v))).
  assert (Q : Qt s s1) by (apply Qt_wild; [exact Lv|repeat split]).
  destruct (JEinv_cell H s v (cwf' (cell_of s v)) (proj1 G) (proj1 (proj2 G)) Lv eq_refl eq_refl (JE_b H s (proj1 G) v)) as (J1 & I1).
  fold s1 in J1, I1.
  pose proof (GI_quiet H W pend s s1 G Q J1 I1) as G1. pose proof (share_quiet pend s s1 v Q Sh) as Sh1.
  assert (Lv1 : v < len s1) by (rewrite (proj1 Q); exact Lv).
  assert (C1 : cell_of s1 v = cwf' (cell_of s v)) by (apply cell_of_set_cell_same; exact Lv).
  t2_gets. rewrite C1. cbn [cwf' c_bound c_lower c_upper].
  destruct Bu as [U|(a & Hb)].
  2:{ rewrite Hb. apply R_unify_OO. }
  rewrite U.
  assert (U1 : c_bound (cell_of s1 v) = None) by (rewrite C1; exact U).
  destruct (JE_b H s (proj1 G) v) as (B1 & B2 & B3).
  assert (SET : (forall l, c_lower (cell_of s v) = Some l -> Lub.ole H l new) ->
    T2 (set_upper v (Some new) ;;; check_constraints H f v) s1 (fun _ s2 => Mid H s1 s2)).
  { intros Hl. unfold set_upper. apply T2_upd_cell. rewrite C1. cbn [cwf' c_wild c_bound c_lower c_cs].
    apply (R_set_bounds_round f pend v s1 _ G1 Sh1 Lv1 U1); [exact U|rewrite C1; reflexivity|].
    split; [|split]; cbn.
    - exact B1.
    - intros u [= <-]. auto.
    - intros l u Hl' [= <-]. apply Hl. exact Hl'. }
  apply (R_mid_tail f pend v s s1 _ (fun c' => match c_bound c', c_upper c', c_lower c' with
            | None, Some u, Some l => if u =? l then bind H f v (O u []) else ret tt
            | _, _, _ => ret tt end) G1 Q Sh1 Lv1).
  - intros c (_ & Bu' & _). destruct (c_bound c); [left; reflexivity|].
    destruct (c_upper c) as [u|] eqn:Hu; [|left; reflexivity]. destruct (c_lower c); [|left; reflexivity].
    destruct (u =? n); [right|left; reflexivity]. split; [reflexivity|]. exists u. split; [apply (Bu' u eq_refl)|reflexivity].
  - cg.
  - destruct (c_lower (cell_of s v)) as [l|] eqn:Hl.
    + destruct (osub H true new l); [apply T2_fail|].
      destruct (negb (osub H false l new)) eqn:En; [apply T2_fail|].
      assert (Le : forall l', Some l = Some l' -> Lub.ole H l' new).
      { intros l' [= <-]. apply (osubF_ole H W). apply negb_false_iff in En. exact En. }
      destruct (c_upper (cell_of s v)) as [u|]; [|apply SET; exact Le].
      destruct (osub H true u new); [apply T2_ret; right; reflexivity|].
      destruct (osub H false new u); [apply SET; exact Le|apply T2_fail].
    + destruct (c_upper (cell_of s v)) as [u|]; [|apply SET; discriminate].
      destruct (osub H true u new); [apply T2_ret; right; reflexivity|].
      destruct (osub H false new u); [apply SET; discriminate|apply T2_fail].
Qed.

(* with the unary postconditions of Infer/SchedIndepElimP.v *)
Lemma R_above_post f pend v new s : GI H pend s -> share s pend v -> v < len s -> base_or_unb s v ->
  variance H new = [] -> new <> Bottom -> T2 (above H f v new) s (fun _ s' => PostG H pend s s').
Proof. intros. apply T2_post; [apply (R_above f pend); auto|apply (GS_above H W); auto]. Qed.

Lemma R_below_post f pend v new s : GI H pend s -> share s pend v -> v < len s -> base_or_unb s v ->
  variance H new = [] -> new <> Top -> T2 (below H f v new) s (fun _ s' => PostG H pend s s').
Proof. intros. apply T2_post; [apply (R_below f pend); auto|apply (GS_below H W); auto]. Qed.

(* ------------------------------------------------------------------ *)
(* bind variable-variable, bind compound                                *)
(* ------------------------------------------------------------------ *)
Theorem R_bindV f v w s : GI H nop s -> v < len s -> w < len s ->
  c_bound (cell_of s v) = None -> c_bound (cell_of s w) = None -> R2 (bind H f v (V w)) s.
Proof.
  intros G Lv Lw Uv Uw. destruct f as [|f]; [rewrite bind_0; apply T2_fail|].
  rewrite Inv.bind_S. t2_gets. rewrite Uv.
  unfold set_wild at 1. apply T2_upd_cell. fold (cwf' (cell_of s v)).
  destruct (v =? w) eqn:Evw.
  { apply T2_ret. exact I. }
  apply Nat.eqb_neq in Evw.
  unfold set_bound at 1. apply T2_upd_cell. t2_modify. t2_gets. unfold set_cs at 1. apply T2_upd_cell.
  unfold set_wild at 1. apply T2_upd_cell.
  match goal with |- T2 _ ?st _ => assert (Es : st = vv_store s v w) end.
  { unfold vv_store, cell_of, cset_of, set_cell, set_cset, cbd, cwf'.
    cbn [vars csets constrs sched c_wild c_bound c_lower c_upper c_cs].
    assert (Nwv : w <> v) by congruence.
    repeat match goal with
           | |- context[nth v (upd v ?x (vars s)) dcell] => rewrite (nth_upd_same x dcell (vars s) Lv)
           | |- context[nth w (upd v ?x (vars s)) dcell] => rewrite (nth_upd_other x dcell (vars s) Nwv)
           | |- context[upd ?i ?y (upd ?i ?x ?l)] => rewrite si_upd_upd
           | _ => progress cbn [c_wild c_bound c_lower c_upper c_cs]
           end.
    reflexivity. }
  rewrite Es. clear Es.
  destruct (vv_GI H W s v w G Lv Lw Evw Uv Uw) as (G4 & Shw & Shv).
  destruct (vv_facts H s v w G Lv Lw Evw Uv Uw) as (_ & _ & L4 & _ & Cw & _).
  set (s4 := vv_store s v w) in *.
  assert (Nx : forall p sA sB, PostG H p sA sB -> share sA p w -> share sA p v ->
                exists p', GI H p' sB /\ share sB p' w /\ share sB p' v).
  { intros p sA sB ([Gn|(Gp & Q)] & _) S1 S2.
    - exists nop. split; [exact Gn|split; apply share_nop].
    - exists p. split; [exact Gp|split; apply (share_quiet p sA sB _ Q); assumption]. }
  destruct (JE_b H s (proj1 G) v) as (B1 & B2 & _).
  eapply T2_bind with (Q1 := fun _ s5 => PostG H (refs s v) s4 s5).
  { destruct (c_lower (cell_of s v)) as [l|] eqn:El.
    - destruct (B1 l eq_refl) as (Vl & NBl & _).
      apply (R_above_post f (refs s v) w l s4 G4 Shw); [rewrite L4; exact Lw|left; rewrite Cw; exact Uw|exact Vl|exact NBl].
    - apply T2_ret. split; [right; split; [exact G4|apply Qt_refl]|apply FrB_refl]. }
  { cg. }
  intros _ s5 _ P5. destruct (Nx _ _ _ P5 Shw Shv) as (p5 & G5 & Sw5 & Sv5). destruct P5 as (_ & F45).
  assert (L5 : len s5 = len s) by (rewrite (proj1 F45); exact L4).
  assert (Bw5 : base_or_unb s5 w).
  { unfold base_or_unb. destruct (c_bound (cell_of s5 w)) as [t|] eqn:Hb; [right|left; reflexivity].
    destruct (proj2 (proj2 (proj2 F45 w)) t Hb) as [X|(a & ->)]; [rewrite Cw in X; cbn in X; congruence|eauto]. }
  eapply T2_bind with (Q1 := fun _ s6 => PostG H p5 s5 s6).
  { destruct (c_upper (cell_of s v)) as [u|] eqn:Eu.
    - destruct (B2 u eq_refl) as (Vu & NTu & _).
      apply (R_below_post f p5 w u s5 G5 Sw5); [rewrite L5; exact Lw|exact Bw5|exact Vu|exact NTu].
    - apply T2_ret. split; [right; split; [exact G5|apply Qt_refl]|apply FrB_refl]. }
  { cg. }
  intros _ s6 _ P6. destruct (Nx _ _ _ P6 Sw5 Sv5) as (p6 & G6 & _ & Sv6).
  eapply T2_weak. apply (T2_cc p6 f v s6 G6 Sv6).
Qed.

Lemma R_forM_set_cs iv : forall vs s, R2 (forM vs (fun x => set_cs x iv)) s.
Proof.
  induction vs as [|x vs IH]; intros s; cbn [forM]; [apply T2_ret; exact I|].
  unfold set_cs at 1. apply T2_upd_cell. apply IH.
Qed.

Theorem R_bindC f v o args s : GI H nop s -> v < len s -> c_bound (cell_of s v) = None ->
  tg H (len s) (O o args) -> nocc s v (O o args) -> basic H o = false -> R2 (bind H f v (O o args)) s.
Proof.
  intros G Lv Uv Tg No Bo. destruct f as [|f]; [rewrite bind_0; apply T2_fail|].
  rewrite Inv.bind_S. t2_gets. rewrite Uv.
  unfold set_wild at 1. apply T2_upd_cell. unfold set_bound at 1. apply T2_upd_cell.
  rewrite set_cell_twice. rewrite cell_of_set_cell_same by exact Lv. cbn [c_wild c_lower c_upper c_cs].
  fold (cbd (cell_of s v) (O o args)). set (s2 := set_cell s v (cbd (cell_of s v) (O o args))).
  pose proof (GI_bindO H W nop s v o args G Lv Uv Tg No) as G2. fold s2 in G2.
  rewrite Bo.
  eapply T2_bind with (Q1 := fun _ s4 => exists p, GI H p s4 /\ share s4 p v).
  - match goal with |- T2 (if ?c then _ else _) _ _ => destruct c end; [apply T2_fail|].
    apply T2_lift; [intro; apply vars_f_vars; reflexivity|]. intros vs Evs. t2_modify. t2_gets.
    apply T2_post; [apply R_forM_set_cs|].
    intros u s4 E.
    match type of E with forM _ _ ?st = _ => set (s3 := st) in E end.
    destruct (forM_set_cs_spec _ vs s3 u s4 E) as (L4 & Ec4 & Ek4 & Cc).
    assert (Fv : Forall (fun w => c_bound (cell_of s2 w) = None) vs).
    { eapply vars_f_unbound; [exact (proj1 (proj1 (proj2 G2)))|constructor|exact Evs]. }
    assert (Fr : Forall (fun w => w < len s) vs).
    { assert (L2 : len s2 = len s) by (unfold s2; cbn; apply upd_length). rewrite <- L2.
      eapply Frame.vars_f_scope; [exact (proj2 (proj1 (proj2 G2)) eq_refl)| |constructor|exact Evs].
      rewrite L2. apply tg_tsc with (H := H). exact Tg. }
    eexists. apply (cm_GI H W s v o args vs s4 G Lv Uv Tg No Fv Fr).
    + rewrite L4. unfold s3, s2. cbn. apply upd_length.
    + rewrite Ec4. reflexivity.
    + rewrite Ek4. reflexivity.
    + intros x. rewrite Cc. reflexivity.
  - cg.
  - intros _ s4 _ (p & G4 & Sh4). eapply T2_weak. apply (T2_cc p f v s4 G4 Sh4).
Qed.

(* ------------------------------------------------------------------ *)
(* unify, fix, apply                                                    *)
(* ------------------------------------------------------------------ *)
Definition RU f := forall a b s, GI H nop s -> tg H (len s) a -> tg H (len s) b ->
  R2 (unify H f true false false a b) s.

Lemma cong_uargs f : forall vs xs ys, cong (uargs H f vs xs ys).
Proof. induction vs as [|b vs IHv]; intros [|x xs] [|y ys]; cbn [uargs]; cg; auto. Qed.

Lemma R_uargs f : RU f -> forall vs xs ys s, GI H nop s ->
  Forall (tg H (len s)) xs -> Forall (tg H (len s)) ys -> R2 (uargs H f vs xs ys) s.
Proof.
  intros IH. induction vs as [|b vs IHv]; intros xs ys s G Fx Fy.
  - cbn. apply T2_ret. exact I.
  - destruct xs as [|x xs]; [cbn; apply T2_ret; exact I|].
    destruct ys as [|y ys]; [cbn; apply T2_ret; exact I|].
    inversion Fx as [|? ? Tx Fxs]; inversion Fy as [|? ? Ty Fys]; subst. cbn [uargs].
    assert (K : forall p q, tg H (len s) p -> tg H (len s) q ->
              R2 (unify H f true false false p q ;;; uargs H f vs xs ys) s).
    { intros p q Tp Tq. eapply T2_bind with (Q1 := fun _ s1 => GI H nop s1 /\ len s <= len s1).
      - apply T2_post; [apply IH; auto|]. intros u1 s1 E1. split.
        + apply (GS_unify_all H W f p q s G Tp Tq u1 s1 E1).
        + apply (unify_len H f p q s u1 s1 (proj1 (proj2 G)) Tp Tq E1).
      - intros _. apply cong_uargs.
      - intros _ s1 _ (G1 & Ln). apply IHv; auto; eapply Forall_impl; try eassumption; intros t Ht; eapply tg_mono; eauto. }
    destruct b; apply K; auto.
Qed.

Lemma R_unify_step f : RU f -> RU (S f).
Proof.
  intros IH a0 b0 s G Ta0 Tb0. rewrite unify_S. t2_gets. t2_gets.
  pose proof (tg_follow' H s a0 G Ta0) as Ta. pose proof (tg_follow' H s b0 G Tb0) as Tb.
  pose proof (@Inv.follow_unbound true s a0 (proj1 (proj2 G))) as Na.
  pose proof (@Inv.follow_unbound true s b0 (proj1 (proj2 G))) as Nb.
  destruct (follow s a0) as [va|oa xs] eqn:Ea; destruct (follow s b0) as [vb|ob ys] eqn:Eb.
  - t2_gets. t2_gets. cbn [negb orb].
    inversion Ta; inversion Tb; subst. apply R_bindV; auto.
  - destruct (ob =? Top) eqn:ET; [apply T2_ret; exact I|].
    apply T2_lift; [intro; apply occurs_f_vars; reflexivity|]. intros oc Eo. destruct oc; [apply T2_fail|].
    inversion Ta; subst.
    destruct (basic H ob) eqn:Bo.
    + t2_gets. cbn [orb andb].
      apply (R_below f nop va ob s G (share_nop s va)); auto; [left; exact Na|apply basic_var; exact Bo|].
      apply Nat.eqb_neq. exact ET.
    + cbn [orb]. apply R_bindC; auto.
      eapply occurs_false_nocc; [exact (proj1 (proj1 (proj2 G)))|exact Na|exact Eo].
  - destruct (oa =? Bottom) eqn:EB; [apply T2_ret; exact I|].
    apply T2_lift; [intro; apply occurs_f_vars; reflexivity|]. intros oc Eo. destruct oc; [apply T2_fail|].
    inversion Tb; subst.
    destruct (basic H oa) eqn:Bo.
    + t2_gets. cbn [orb andb].
      apply (R_above f nop vb oa s G (share_nop s vb)); auto; [left; exact Nb|apply basic_var; exact Bo|].
      apply Nat.eqb_neq. exact EB.
    + cbn [orb]. apply R_bindC; auto.
      eapply occurs_false_nocc; [exact (proj1 (proj1 (proj2 G)))|exact Nb|exact Eo].
  - destruct ((oa =? Bottom) || (ob =? Top)); [apply T2_ret; exact I|].
    destruct (basic H oa).
    + cbn [andb negb]. destruct (negb (osub H false oa ob)); [apply T2_fail|apply T2_ret; exact I].
    + destruct (oa =? ob); [|apply T2_fail].
      inversion Ta as [|? ? _ Fx]; inversion Tb as [|? ? _ Fy]; subst.
      apply (R_uargs f IH (variance H oa) xs ys s G Fx Fy).
Qed.

Theorem R_unify_all : forall f, RU f.
Proof.
  induction f as [|f IH]; [|apply R_unify_step; exact IH].
  intros a b s _ _ _. rewrite unify_0. apply T2_fail.
Qed.

Definition RF f := forall pl t s, GI H nop s -> tg H (len s) t -> R2 (fix_ty H f pl t) s.

Lemma cong_fargs f pl : forall vs ps, cong (fargs H f pl vs ps).
Proof. induction vs as [|b vs IHv]; intros [|p ps]; cbn [fargs]; cg; auto. Qed.

Lemma R_fargs f pl : RF f -> forall vs ps s, GI H nop s -> Forall (tg H (len s)) ps ->
  R2 (fargs H f pl vs ps) s.
Proof.
  intros IH. induction vs as [|b vs IHv]; intros ps s G Fp.
  - cbn. apply T2_ret. exact I.
  - destruct ps as [|p ps]; [cbn; apply T2_ret; exact I|].
    inversion Fp as [|? ? Tp Fps]; subst. cbn [fargs].
    eapply T2_bind with (Q1 := fun _ s1 => GI H nop s1 /\ len s <= len s1).
    + apply T2_post; [apply IH; auto|]. intros r1 s1 E1. split.
      * apply (GS_fix_all H W f _ p s G Tp r1 s1 E1).
      * apply (fix_len H f _ p s r1 s1 (proj1 (proj2 G)) Tp E1).
    + intros _. apply cong_fargs.
    + intros _ s1 _ (G1 & Ln). apply IHv; auto. eapply Forall_impl; [|exact Fps]. intros t Ht. eapply tg_mono; eauto.
Qed.

Lemma R_fix_step f : RF f -> RF (S f).
Proof.
  intros IH pl t s G Tt. rewrite fix_ty_S. t2_gets.
  pose proof (tg_follow' H s t G Tt) as Ta.
  pose proof (@Inv.follow_unbound true s t (proj1 (proj2 G))) as Na.
  eapply T2_bind with (Q1 := fun _ _ => True); [|cg|intros _ s1 _ _; apply T2_gets_end; [sfree|exact I]].
  destruct (follow s t) as [v|o args] eqn:Ef.
  - t2_gets. inversion Ta; subst. destruct (JE_b H s (proj1 G) v) as (B1 & B2 & _).
    destruct pl.
    + destruct (c_lower (cell_of s v)) as [l|] eqn:El; [|apply T2_ret; exact I].
      apply (R_bindb f nop v l s G (share_nop s v)); auto; apply (B1 l eq_refl).
    + destruct (c_upper (cell_of s v)) as [u|] eqn:Eu; [|apply T2_ret; exact I].
      apply (R_bindb f nop v u s G (share_nop s v)); auto; apply (B2 u eq_refl).
  - inversion Ta as [|? ? _ Fa]; subst. apply (R_fargs f pl IH (variance H o) args s G Fa).
Qed.

Theorem R_fix_all : forall f, RF f.
Proof.
  induction f as [|f IH]; [|apply R_fix_step; exact IH].
  intros pl t s _ _. rewrite fix_ty_0. apply T2_fail.
Qed.

Theorem R_apply fuel f0 x0 fixb s : GI H nop s -> tg H (len s) f0 -> tg H (len s) x0 ->
  R2 (apply H fuel f0 x0 fixb) s.
Proof.
  intros G Tf Tx. unfold apply. t2_gets. t2_gets.
  pose proof (tg_follow' H s f0 G Tf) as Tf'. pose proof (tg_follow' H s x0 G Tx) as Tx'.
  pose proof (@Inv.follow_unbound true s f0 (proj1 (proj2 G))) as Nf.
  eapply T2_bind with (Q1 := fun f' s1 => GI H nop s1 /\ len s <= len s1 /\ tg H (len s1) f').
  - destruct (follow s f0) as [vf|o args] eqn:Ef; [|apply T2_ret; auto].
    apply T2_fresh. apply T2_fresh.
    set (s1 := snd (alloc_var s false)). set (s2 := snd (alloc_var s1 false)).
    pose proof (GI_alloc H W s false G) as G1. fold s1 in G1. pose proof (GI_alloc H W s1 false G1) as G2. fold s2 in G2.
    assert (L1 : len s1 = S (len s)) by apply alloc_var_length.
    assert (L2 : len s2 = S (len s1)) by apply alloc_var_length.
    inversion Tf' as [? Lvf|]; subst. cbn [nb] in Nf.
    assert (U2 : forall x, c_bound (cell_of s2 x) = c_bound (cell_of s x)) by (intros x; unfold s2, s1; rewrite !alloc_var_bound; reflexivity).
    assert (Un : forall x, len s <= x -> c_bound (cell_of s x) = None) by (intros x Lx; rewrite (cell_of_oob s Lx); reflexivity).
    assert (Tg2 : tg H (len s2) (O Function [V (len s); V (len s1)])).
    { constructor; [rewrite (wf_fun H W); reflexivity|]. repeat constructor; lia. }
    assert (No2 : nocc s2 vf (O Function [V (len s); V (len s1)])).
    { apply nocc_op. intros x [<-|[<-|[]]]; apply nocc_unb; try lia; rewrite U2; apply Un; lia. }
    assert (Bf : basic H Function = false) by (unfold basic, arity; rewrite (wf_fun H W); reflexivity).
    assert (Uvf : c_bound (cell_of s2 vf) = None) by (rewrite U2; exact Nf).
    eapply T2_bind with (Q1 := fun _ s3 => GI H nop s3 /\ len s2 <= len s3).
    + apply T2_post; [apply (R_bindC fuel vf Function _ s2 G2 ltac:(lia) Uvf Tg2 No2 Bf)|].
      intros u s3 E. split.
      * apply (GS_bindC H W fuel vf Function _ s2 G2 ltac:(lia) Uvf Tg2 No2 Bf u s3 E).
      * apply (bindO_len H fuel vf Function _ s2 u s3 (proj1 (proj2 G2)) ltac:(lia) Uvf Tg2 No2 E).
    + cg.
    + intros _ s3 _ (G3 & L3). apply T2_gets_end; [sfree|]. split; [exact G3|split; [lia|]].
      apply tg_follow'; [exact G3|]. constructor. lia.
  - cg.
  - intros f' s1 _ (G1 & L1 & Tf1).
    assert (Tx1 : tg H (len s1) (follow s x0)) by (eapply tg_mono; eauto).
    destruct f' as [vf|o [|lft [|rgt [|z zs]]]]; try (apply T2_fail); try (destruct (o =? Top); [apply T2_ret; exact I|apply T2_fail]).
    destruct (o =? Function); [|destruct (o =? Top); [apply T2_ret; exact I|apply T2_fail]].
    inversion Tf1 as [|? ? _ Fa]; subst. inversion Fa as [|? ? Tl Fb]; subst. inversion Fb as [|? ? Tr _]; subst.
    eapply T2_bind with (Q1 := fun _ s2 => GI H nop s2 /\ len s1 <= len s2).
    + apply T2_post; [apply R_unify_all; auto|]. intros u2 s2 E2. split.
      * apply (GS_unify_all H W fuel _ _ s1 G1 Tx1 Tl u2 s2 E2).
      * apply (unify_len H fuel _ _ s1 u2 s2 (proj1 (proj2 G1)) Tx1 Tl E2).
    + cg.
    + intros _ s2 _ (G2 & L2). destruct (fixb && negb (is_fun rgt)); [|apply T2_ret; exact I].
      apply (R_fix_all fuel true rgt s2 G2). eapply tg_mono; eauto.
Qed.

(* ------------------------------------------------------------------ *)
(* creating a constraint                                                *)
(* ------------------------------------------------------------------ *)
Local Notation gd := (FL.good H).
Local Notation mins_of := (FL.mins_of H).

Definition XF (F c : nat) : M unit := _ <- fulfill H F c ;; ret tt.

Lemma cong_XF F c : cong (XF F c).
Proof. unfold XF. cg. Qed.

Definition GO (f : nat) (s : store) (r : tyv) : list tyv -> res (list tyv) :=
  fix go (l : list tyv) : res (list tyv) :=
     match l with
     | [] => Ok []
     | t :: r0 =>
         match match_f H f s true true r t with
         | Er e => Er e
         | Ok (Some false) => go r0
         | Ok _ => match go r0 with Er e => Er e | Ok r' => Ok (t :: r') end
         end
     end.

Lemma filt_vars f s s' r : vars s = vars s' -> forall l, GO f s r l = GO f s' r l.
Proof.
  intros E. induction l as [|t l IH]; [reflexivity|].
  change (GO f s r (t :: l)) with
    (match match_f H f s true true r t with
     | Er e => Er e
     | Ok (Some false) => GO f s r l
     | Ok _ => match GO f s r l with Er e => Er e | Ok r' => Ok (t :: r') end
     end).
  change (GO f s' r (t :: l)) with
    (match match_f H f s' true true r t with
     | Er e => Er e
     | Ok (Some false) => GO f s' r l
     | Ok _ => match GO f s' r l with Er e => Er e | Ok r' => Ok (t :: r') end
     end).
  rewrite (match_f_vars H f s s' true true r t E), IH. reflexivity.
Qed.

Lemma filt_incl f s r : forall l alts,
  (fix go (l : list tyv) : res (list tyv) :=
     match l with
     | [] => Ok []
     | t :: r0 =>
         match match_f H f s true true r t with
         | Er e => Er e
         | Ok (Some false) => go r0
         | Ok _ => match go r0 with Er e => Er e | Ok r' => Ok (t :: r') end
         end
     end) l = Ok alts -> incl alts l.
Proof.
  induction l as [|t l IH]; intros alts E.
  - inversion E. intros y [].
  - destruct (match_f H f s true true r t) as [[[|]|]|e]; try discriminate.
    + destruct ((fix go (l : list tyv) : res (list tyv) :=
     match l with
     | [] => Ok []
     | t :: r0 =>
         match match_f H f s true true r t with
         | Er e => Er e
         | Ok (Some false) => go r0
         | Ok _ => match go r0 with Er e => Er e | Ok r' => Ok (t :: r') end
         end
     end) l) as [r'|e] eqn:Eg; [|discriminate]. inversion E; subst.
      intros y [<-|Hy]; [left; reflexivity|right; apply (IH r' eq_refl); exact Hy].
    + intros y Hy. right. apply (IH alts E). exact Hy.
    + destruct ((fix go (l : list tyv) : res (list tyv) :=
     match l with
     | [] => Ok []
     | t :: r0 =>
         match match_f H f s true true r t with
         | Er e => Er e
         | Ok (Some false) => go r0
         | Ok _ => match go r0 with Er e => Er e | Ok r' => Ok (t :: r') end
         end
     end) l) as [r'|e] eqn:Eg; [|discriminate]. inversion E; subst.
      intros y [<-|Hy]; [left; reflexivity|right; apply (IH r' eq_refl); exact Hy].
Qed.

Section NewC.
Variables x i0 A : nat.
Variable own : nat -> Prop.

Definition nc_mid (s : store) (k : constr) : store :=
  let s1 := {| vars := vars s; csets := csets s; constrs := constrs s ++ [k]; sched := sched s |} in
  match c_bound (cell_of s x) with
  | None => set_cset s1 i0 (ins (length (constrs s)) (cset_of s1 i0))
  | Some _ => s1
  end.

Lemma nc_T2 F k s :
  GI H nop s -> Loc H x i0 A own s -> x < len s ->
  (forall y, y < len s -> c_bound (cell_of s y) = None -> cs s y = i0 -> y = x) ->
  kfc H x A k -> k_done k = false ->
  (c_bound (cell_of s x) = None -> k_ref k = V x) ->
  (forall o, c_bound (cell_of s x) = Some (O o []) -> k_ref k = O o []) ->
  (exists t, new_constraint H F k s = MEr EFuel t) \/
  (new_constraint H F k s = XF F (length (constrs s)) (nc_mid s k) /\
   R2 (XF F (length (constrs s))) (nc_mid s k)).
Proof.
  intros G L Lx Uq Kk Dk Hr1 Hr2.
  set (own' := fun c => own c \/ c = length (constrs s)).
  set (c := length (constrs s)) in *.
  set (s1 := {| vars := vars s; csets := csets s; constrs := constrs s ++ [k]; sched := sched s |}) in *.
  destruct Kk as (Rk & Sk & Ak). pose proof G as (J & I & Pi & Se & Sd).
  assert (Old : forall c', c' < c -> constr_of s1 c' = constr_of s c').
  { intros c' Lc'. unfold constr_of, s1. cbn [constrs]. apply app_nth1. exact Lc'. }
  assert (New : constr_of s1 c = k).
  { unfold constr_of, s1, c. cbn [constrs]. rewrite app_nth2 by lia. rewrite Nat.sub_diag. reflexivity. }
  assert (N1 : length (constrs s1) = S c) by (unfold s1, c; cbn [constrs]; rewrite app_length; cbn; lia).
  assert (OwnR : forall c', own c' -> c' < c) by (intros c' Oc'; apply (lo_own _ _ _ _ _ _ L c' Oc')).
  assert (Tk : tg H (len s) (k_ref k)).
  { destruct (lo_b _ _ _ _ _ _ L) as [Hx|(o' & Hx)].
    - rewrite (Hr1 Hx). constructor. exact Lx.
    - rewrite (Hr2 o' Hx). apply (JE_sc H s J x _ Hx). }
  assert (Sct : Forall (sct true s) (constr_terms k)).
  { unfold constr_terms. constructor; [apply (tg_sct H); exact Tk|].
    pose proof (shape_isb H k Sk) as Fb. eapply Forall_impl; [|exact Fb]. intros t (a & ->) _. constructor. constructor. }
  assert (Ar : k_elim k = false -> length (k_alts k) = 1).
  { intros Ek. unfold shape in Sk. rewrite Ek in Sk. destruct Sk as (a & -> & _). reflexivity. }
  assert (I1 : inv s1) by (apply (inv_alloc_constr I Ar Sct)).
  assert (Lo1 : Loc H x i0 A own' s1).
  { destruct L as [a b cc d]. constructor; auto.
    - intros c' [Oc' | ->].
      + destruct (cc c' Oc') as (Lc' & K'). split; [rewrite N1; unfold c; lia|]. rewrite Old by exact Lc'. exact K'.
      + split; [rewrite N1; lia|]. rewrite New. split; [exact Rk|split; [exact Sk|exact Ak]].
    - intros c' Hc'. left. apply d. exact Hc'. }
  set (inf := fun v : nat =>
      cv <- gets (fun s => cell_of s v) ;;
      match c_bound cv with
      | Some _ => @fail unit (ECrash site_inform_bound)
      | None => modify (fun s => let i := c_cs (cell_of s v) in set_cset s i (ins c (cset_of s i)))
      end).
  assert (Enc : new_constraint H F k s =
    match closure_f F s1 (constr_terms k) [] with
    | Er e => MEr e s1
    | Ok vs => (forM vs inf ;;; XF F c) s1
    end).
  { unfold new_constraint, bindM, lift, XF. cbn [alloc_constr]. fold c. fold s1.
    destruct (closure_f F s1 (constr_terms k) []); reflexivity. }
  destruct (closure_f F s1 (constr_terms k) []) as [vs|e] eqn:Ec.
  2:{ left. exists s1. rewrite Enc. rewrite (closure_f_err _ _ _ _ Ec). reflexivity. }
  right.
  assert (G2 : exists s2, forM vs inf s1 = MOk tt s2 /\
               ((c_bound (cell_of s x) = None /\ s2 = set_cset s1 i0 (ins c (cset_of s1 i0))) \/
                ((exists o, c_bound (cell_of s x) = Some (O o [])) /\ s2 = s1))).
  { destruct (lo_b _ _ _ _ _ _ L) as [Hx|(o & Hx)].
    - assert (vs = [x]).
      { unfold constr_terms in Ec. rewrite (Hr1 Hx) in Ec. destruct F as [|F']; [discriminate|].
        rewrite closure_S in Ec. rewrite vars_f_unb in Ec by exact Hx.
        cbn [filter mem existsb negb flat_map] in Ec. rewrite app_nil_r in Ec.
        change (union [x] []) with [x] in Ec.
        apply (closure_inert' s1 [x] _ F' vs) in Ec; [exact Ec|].
        apply Forall_app. split.
        - change (cell_of s1 x) with (cell_of s x). rewrite (lo_cs _ _ _ _ _ _ L).
          change (flat_map (fun c0 => constr_terms (constr_of s1 c0)) (cset_of s1 i0)) with (tws i0 s1).
          eapply Forall_impl; [|apply (tws_inert H x i0 A own' s1 Lo1 Hx)]. intros t Ht. exact Ht.
        - eapply Forall_impl; [|apply (shape_isb H k Sk)]. intros t Ht. left. exact Ht. }
      subst vs. exists (set_cset s1 i0 (ins c (cset_of s1 i0))). split; [|left; auto].
      cbn [forM]. unfold inf, bindM, gets, modify, ret. change (cell_of s1 x) with (cell_of s x). rewrite Hx.
      rewrite (lo_cs _ _ _ _ _ _ Lo1). reflexivity.
    - assert (vs = []).
      { apply (closure_inert' s1 [] _ F vs) in Ec; [exact Ec|].
        unfold constr_terms. rewrite (Hr2 o Hx). constructor; [left; eauto|].
        eapply Forall_impl; [|apply (shape_isb H k Sk)]. intros t Ht. left. exact Ht. }
      subst vs. exists s1. split; [reflexivity|right; eauto]. }
  destruct G2 as (s2 & Ef & Hs2).
  assert (Em : nc_mid s k = s2).
  { unfold nc_mid. fold c. fold s1. destruct Hs2 as [(Hx & ->)|((o & Hx) & ->)]; rewrite Hx; reflexivity. }
  rewrite Em. split.
  { rewrite Enc. unfold bindM. rewrite Ef. reflexivity. }
  (* the store after inform *)
  assert (Li0 : c_bound (cell_of s x) = None -> i0 < length (csets s)).
  { intros _. rewrite <- (lo_cs _ _ _ _ _ _ L). apply (sc_cs (proj2 I eq_refl)). exact Lx. }
  assert (Ev2 : vars s2 = vars s) by (destruct Hs2 as [(_ & ->)|(_ & ->)]; reflexivity).
  assert (Ek2 : constrs s2 = constrs s ++ [k]) by (destruct Hs2 as [(_ & ->)|(_ & ->)]; reflexivity).
  assert (C2 : forall j, j <> i0 -> cset_of s2 j = cset_of s j).
  { intros j Nj. destruct Hs2 as [(_ & ->)|(_ & ->)]; [|reflexivity].
    destruct (cset_of_set_cset s1 i0 (ins c (cset_of s1 i0)) j) as [(_ & X & _)|X]; [congruence|exact X]. }
  assert (Ci2 : forall c', In c' (cset_of s2 i0) <-> (c_bound (cell_of s x) = None /\ c' = c) \/ In c' (cset_of s i0)).
  { intros c'. destruct Hs2 as [(Hx & ->)|((o & Hx) & ->)].
    - unfold cset_of at 1. cbn [csets set_cset]. rewrite nth_upd_same by (apply Li0; exact Hx).
      rewrite In_ins. change (cset_of s1 i0) with (cset_of s i0). tauto.
    - change (cset_of s1 i0) with (cset_of s i0). split; [auto|]. intros [(X & _)|X]; [congruence|exact X]. }
  assert (I2 : inv s2).
  { destruct Hs2 as [(Hx & ->)|(_ & ->)]; [|exact I1]. apply inv_set_cset; [exact I1|].
    apply Forall_ins; [rewrite N1; lia|]. apply (@inv_cs_Forall true s1). exact I1. }
  assert (Lo2 : Loc H x i0 A own' s2).
  { destruct Hs2 as [(Hx & ->)|(_ & ->)]; [|exact Lo1]. destruct Lo1 as [a b cc dd]. constructor; auto.
    intros c' Hc'. destruct (cset_of_set_cset s1 i0 (ins c (cset_of s1 i0)) i0) as [(E0 & _ & _)|E0]; rewrite E0 in Hc'.
    - apply In_ins in Hc'. destruct Hc' as [->|Hc']; [right; reflexivity|apply dd; exact Hc'].
    - apply dd. exact Hc'. }
  assert (Ck2 : constr_of s2 c = k) by (unfold constr_of; rewrite Ek2; unfold c; rewrite app_nth2 by lia; rewrite Nat.sub_diag; reflexivity).
  assert (Lc2 : c < length (constrs s2)) by (rewrite Ek2, app_length; cbn; unfold c; lia).
  (* locality *)
  assert (Rf : forall y, follow s (k_ref k) = V y -> y = x /\ c_bound (cell_of s x) = None).
  { intros y Ey. destruct (lo_b _ _ _ _ _ _ L) as [Hx|(o & Hx)].
    - rewrite (Hr1 Hx) in Ey. rewrite Lub.follow_V_unbound in Ey by exact Hx. injection Ey as <-. auto.
    - rewrite (Hr2 o Hx), Lub.follow_O in Ey. discriminate. }
  assert (Rn : follow s (k_ref k) = k_ref k).
  { destruct (lo_b _ _ _ _ _ _ L) as [Hx|(o & Hx)]; [rewrite (Hr1 Hx); apply Lub.follow_V_unbound; exact Hx|rewrite (Hr2 o Hx); apply Lub.follow_O]. }
  assert (ADD : forall k', k_ref k' = k_ref k -> shape H k' ->
            (k_elim k' = true -> forall l, k_alts k' = FL.obs l -> PI H l) ->
            (k_elim k' = false -> k_done k' = true -> pfc H 4 s2 k' = PDone) ->
            (k_elim k' = false -> length (k_alts k') = 1) ->
            GI H nop (set_constr s2 c k')).
  { intros k' Er Shk' Pk' Dk' Ar'.
    apply (GI_add H s (set_constr s2 c k') k' x i0 G); auto.
    - cbn. rewrite Ek2. apply upd_last.
    - intros c' Hc'. apply (proj2 (Ci2 c')). right. exact Hc'.
    - intros c' Hc'. destruct (proj1 (Ci2 c') Hc') as [(_ & X)|X]; auto.
    - apply inv_set_constr; [exact I2|exact Ar'|]. unfold constr_terms. rewrite Er.
      pose proof (Forall_inv Sct) as St. constructor; [intros Bt; rewrite Ev2; apply St; exact Bt|].
      pose proof (shape_isb H k' Shk') as Fb. eapply Forall_impl; [|exact Fb]. intros t (a & ->) _. constructor. constructor.
    - rewrite Er. exact Tk.
    - intros _ _ w Ew. rewrite Er in Ew. destruct (Rf w Ew) as (-> & Hx).
      split; [reflexivity|split; [apply (lo_cs _ _ _ _ _ _ L)|split; [|exact Uq]]].
      apply (proj2 (Ci2 c)). left. auto.
    - intros E' D'. rewrite (pfc_vars H 4 (set_constr s2 c k') s2 k' k'); auto. }
  assert (Same : set_constr s2 c k = s2) by (rewrite <- Ck2 at 1; apply set_constr_same; exact Lc2).
  assert (Fr2 : FrB s s2) by (apply FrB_same; exact Ev2).
  (* the relational part: the first fulfill of the new constraint *)
  unfold XF. eapply T2_bind with (Q1 := fun _ _ => True); [|cg|intros; apply T2_ret; exact Logic.I].
  assert (Fo2 : forall r, follow s2 r = follow s r) by (intros r; apply follow_vars; exact Ev2).
  destruct (k_elim k) eqn:Ee.
  - pose proof Sk as Sk'. unfold shape in Sk'. rewrite Ee in Sk'. destruct Sk' as (l & Gl & Ea).
    destruct F as [|f]; [rewrite fulfill_0; apply T2_fail|].
    rewrite Inv.fulfill_S. t2_gets. rewrite Ck2, Ee, Dk.
    set (Km := mkConstr true (k_ref k) (FL.obs (mins_of l)) (k_strict k) false).
    apply (T2_pre (minimize H f c) _ s2 tt (set_constr s2 c Km)); [|reflexivity|].
    { intros tau. destruct (min_form H f c (with_sched s2 tau) l Gl) as [X|(_ & X)].
      - change (constr_of (with_sched s2 tau) c) with (constr_of s2 c). rewrite Ck2. exact Ea.
      - left. exact X.
      - right. rewrite X. change (constr_of (with_sched s2 tau) c) with (constr_of s2 c). rewrite Ck2, Ee, Dk.
        rewrite (follow_vars (with_sched s2 tau) s2 (k_ref k) eq_refl), Fo2, Rn. reflexivity. }
    set (sm := set_constr s2 c Km).
    assert (Ckm : constr_of sm c = Km) by (apply constr_of_set_constr_same; exact Lc2).
    t2_gets. rewrite Ckm. t2_gets.
    match goal with |- T2 (if negb ?b then _ else _) _ _ => destruct b end; cbn [negb]; [|apply T2_fail].
    apply T2_lift.
    { intro tau. apply (filt_vars f (with_sched sm tau) sm (k_ref Km) eq_refl). }
    intros alts Ealts. apply filt_incl in Ealts. cbn [k_alts k_ref Km] in Ealts.
    unfold upd_constr at 1. t2_modify. cbv beta. rewrite Ckm. cbn [k_ref k_strict k_done Km].
    destruct alts as [|t [|t' r]]; [apply T2_fail| |t2_gets; apply T2_ret; exact Logic.I].
    unfold upd_constr at 1. t2_modify. cbv beta.
    set (K3 := mkConstr true (k_ref k) [t] (k_strict k) true).
    match goal with |- T2 _ ?st _ => assert (Es3 : st = set_constr s2 c K3) end.
    { assert (Lcm : c < length (constrs sm)) by (unfold sm; cbn; rewrite upd_length; exact Lc2).
      rewrite constr_of_set_constr_same by exact Lcm. cbn [k_ref k_alts k_strict].
      unfold sm, set_constr. cbn [vars csets constrs sched]. rewrite !si_upd_upd. reflexivity. }
    rewrite Es3. clear Es3.
    assert (Ht : In t (FL.obs (mins_of l))) by (apply Ealts; left; reflexivity).
    unfold FL.obs in Ht. apply in_map_iff in Ht. destruct Ht as (m & <- & Hm).
    assert (Gm : gd m).
    { pose proof (FL.mins_of_good H l Gl) as Gs. rewrite Forall_forall in Gs. apply Gs. exact Hm. }
    assert (G3a : GI H nop (set_constr s2 c K3)).
    { apply ADD; auto; try (cbn; discriminate).
      - unfold shape. cbn. exists [m]. split; [constructor; [exact Gm|constructor]|reflexivity].
      - intros _ l' El'. cbn in El'. change [FL.ob m] with (FL.obs [m]) in El'. apply obs_inj in El'. subst l'.
        intros a b [<-|[]] [<-|[]] _. reflexivity. }
    assert (L3a : len (set_constr s2 c K3) = len s) by (cbn; rewrite Ev2; reflexivity).
    cbn [k_ref Km].
    eapply T2_bind with (Q1 := fun _ _ => True); [|cg|intros; t2_gets; apply T2_ret; exact Logic.I].
    apply (R_unify_all f (k_ref k) (FL.ob m) _ G3a).
    + rewrite L3a. exact Tk.
    + apply (tg_O0 H). apply Gm.
  - pose proof (shape_pureK H k Ee Sk) as Pk.
    intros tau. rewrite (fulfill_pure H F c s2) by (rewrite Ck2; exact Pk).
    rewrite (fulfill_pure H F c (with_sched s2 tau)) by (change (constr_of (with_sched s2 tau) c) with (constr_of s2 c); rewrite Ck2; exact Pk).
    change (constr_of (with_sched s2 tau) c) with (constr_of s2 c).
    rewrite (pfc_vars H F (with_sched s2 tau) s2 (constr_of s2 c) (constr_of s2 c) eq_refl eq_refl eq_refl eq_refl).
    destruct (pfc H F s2 (constr_of s2 c)); cbn; auto.
    + split; [reflexivity|]. split; [|exact Logic.I]. apply (eqr_ws (markd c s2) tau).
    + split; [reflexivity|]. split; [|exact Logic.I]. apply eqr_ws.
Qed.

Definition NCpre (s : store) (k : constr) : Prop :=
  GI H nop s /\ Loc H x i0 A own s /\ x < len s /\
  (forall y, y < len s -> c_bound (cell_of s y) = None -> cs s y = i0 -> y = x) /\
  kfc H x A k /\ k_done k = false /\
  (c_bound (cell_of s x) = None -> k_ref k = V x) /\
  (forall o, c_bound (cell_of s x) = Some (O o []) -> k_ref k = O o []).

Lemma eqr_nc_mid s1 s2 k : eqr s1 s2 -> eqr (nc_mid s1 k) (nc_mid s2 k).
Proof.
  intros (Ev & Ec & El & Ed). unfold nc_mid. rewrite (cell_of_vars s1 s2 x Ev), El.
  assert (E1 : eqr {| vars := vars s1; csets := csets s1; constrs := constrs s1 ++ [k]; sched := sched s1 |}
                   {| vars := vars s2; csets := csets s2; constrs := constrs s2 ++ [k]; sched := sched s2 |}).
  { unfold eqr. cbn [vars csets constrs]. split; [exact Ev|split; [exact Ec|split]].
    - rewrite !app_length, El. reflexivity.
    - intros c. unfold constr_of. cbn [constrs].
      destruct (Nat.lt_ge_cases c (length (constrs s1))) as [Lc|Lc].
      + rewrite !app_nth1 by lia. apply Ed.
      + rewrite !app_nth2 by lia. rewrite El. apply creq_refl. }
  destruct (c_bound (cell_of s2 x)); [exact E1|].
  match goal with |- eqr (set_cset ?r1 _ (ins _ (cset_of ?r1 _))) (set_cset ?r2 _ _) =>
    assert (El2 : cset_of r1 i0 = cset_of r2 i0) by (unfold cset_of; cbn [csets]; rewrite Ec; reflexivity) end.
  rewrite El2. apply eqr_set_cset. exact E1.
Qed.

Lemma ro_outr {B} (Q : B -> store -> Prop) r1 r2 : ro Q r1 r2 -> outr r1 r2.
Proof. unfold ro, outr. destruct r1, r2; auto. intros (X1 & X2 & _). auto. Qed.

Lemma R_new_constraint F k s1 s2 : eqr s1 s2 -> NCpre s1 k -> NCpre s2 k ->
  outr (new_constraint H F k s1) (new_constraint H F k s2).
Proof.
  intros E (a1 & a2 & a3 & a4 & a5 & a6 & a7 & a8) (b1 & b2 & b3 & b4 & b5 & b6 & b7 & b8).
  destruct (nc_T2 F k s1 a1 a2 a3 a4 a5 a6 a7 a8) as [(t1 & E1)|(E1 & T1)];
  destruct (nc_T2 F k s2 b1 b2 b3 b4 b5 b6 b7 b8) as [(t2 & E2)|(E2 & _)]; rewrite E1, E2.
  - exact Logic.I.
  - unfold outr. destruct (XF F (length (constrs s2)) (nc_mid s2 k)); auto.
  - unfold outr. destruct (XF F (length (constrs s1)) (nc_mid s1 k)); auto.
  - assert (El : length (constrs s2) = length (constrs s1)) by (symmetry; apply E). rewrite El.
    set (c := length (constrs s1)) in *. set (m1 := nc_mid s1 k) in *. set (m2 := nc_mid s2 k).
    pose proof (eqr_nc_mid s1 s2 k E) as Em. fold m1 m2 in Em.
    apply (ro_outr (fun _ _ => True)).
    apply (ro_CR _ (with_sched m1 (sched m2)) m2 _ (XF F c (with_sched m1 (sched m2)))).
    + apply T1.
    + apply cong_XF. split; [|reflexivity]. eapply eqr_trans; [|exact Em]. apply eqr_sym. apply eqr_ws.
Qed.

End NewC.

(* ------------------------------------------------------------------ *)
(* two related stores, two schedules                                    *)
(* ------------------------------------------------------------------ *)
Lemma two_sided {B} (m : M B) s1 s2 : eqr s1 s2 -> cong m -> R2 m s2 -> outr (m s1) (m s2).
Proof.
  intros E C T. pose proof (C s1 _ (eqs_with_sched s1 s2 E)) as X. specialize (T (sched s1)).
  unfold CR in X. unfold ro in T. unfold outr.
  destruct (m s1) as [a t1|e1 t1], (m (with_sched s2 (sched s1))) as [b t'|e' t'], (m s2) as [c t2|e2 t2];
    try contradiction; auto.
  - destruct X as (-> & (X & _) & _). destruct T as (-> & T & _). split; [reflexivity|].
    eapply eqr_trans; [exact X|apply eqr_sym; exact T].
  - congruence.
Qed.

(* ------------------------------------------------------------------ *)
(* the constraints of a schema, instance                                *)
(* ------------------------------------------------------------------ *)
Lemma ec_form F n0 nsc A sc : pscE H nsc sc -> nalts sc <= A ->
  exists i (K : store -> constr), i < nsc /\ sv sc = i /\
    (forall s s', vars s = vars s' -> K s = K s') /\
    forall s, eval_constr H F (map V (seq n0 nsc)) sc s = new_constraint H F (K s) s /\
      k_ref (K s) = follow s (follow s (V (n0 + i))) /\ shape H (K s) /\ length (k_alts (K s)) <= A /\
      k_done (K s) = false.
Proof.
  intros Pc La. destruct Pc as [Pc|Pc].
  - destruct sc as [r t strict|r alts]; cbn [psc] in Pc; [|tauto].
    destruct r as [i| |]; try tauto. destruct t as [| |a [|y ys]]; try tauto. destruct Pc as (Li & Va).
    exists i, (fun s => sub_constr s (map V (seq n0 nsc)) i a strict). split; [exact Li|split; [reflexivity|]].
    split.
    { intros s s' Ev. unfold sub_constr. rewrite (follow_vars s s' _ Ev). rewrite (follow_vars s s' _ Ev). reflexivity. }
    intros s.
    split; [apply SoundElimS.eval_constr_sub|]. unfold sub_constr. cbn [k_ref k_alts k_done k_elim].
    rewrite (nth_env n0 nsc i Li). split; [reflexivity|split; [|split; [exact La|reflexivity]]].
    unfold shape. cbn [k_elim k_alts]. exists a. split; [reflexivity|].
    unfold basic, arity. rewrite Va. reflexivity.
  - destruct sc as [r t strict|r alts]; cbn [pec] in Pc; [tauto|].
    destruct r as [i| |]; try tauto. destruct Pc as (Li & l & Gl & ->).
    exists i, (fun s => elim_constr s (map V (seq n0 nsc)) i l). split; [exact Li|split; [reflexivity|]].
    split.
    { intros s s' Ev. unfold elim_constr. rewrite (follow_vars s s' _ Ev). rewrite (follow_vars s s' _ Ev). reflexivity. }
    intros s.
    split; [apply SoundElimS.eval_constr_elimE|]. unfold elim_constr. cbn [k_ref k_alts k_done k_elim].
    rewrite (nth_env n0 nsc i Li). split; [reflexivity|split; [|split; [|reflexivity]]].
    + unfold shape. cbn [k_elim k_alts]. exists l. auto.
    + cbn [nalts] in La. unfold FL.obs. rewrite map_length in *. exact La.
Qed.

Lemma R_eval_constr F n0 c0 nsc A cb scs j s1 s2 sc : eqr s1 s2 ->
  IG H n0 c0 nsc A cb scs j s1 -> IG H n0 c0 nsc A cb scs j s2 ->
  nth j scs dsc = sc -> pscE H nsc sc -> nalts sc <= A ->
  outr (eval_constr H F (map V (seq n0 nsc)) sc s1) (eval_constr H F (map V (seq n0 nsc)) sc s2).
Proof.
  intros E Ig1 Ig2 Ej Pc La.
  destruct (ec_form F n0 nsc A sc Pc La) as (i & K & Li & Si & Kv & Kf).
  destruct (Kf s1) as (Ee1 & Rk1 & Sk1 & Ak1 & Dk1). destruct (Kf s2) as (Ee2 & Rk2 & Sk2 & Ak2 & Dk2).
  rewrite Ee1, Ee2. rewrite <- (Kv s1 s2 (proj1 E)) in *.
  assert (P : forall s, IG H n0 c0 nsc A cb scs j s -> k_ref (K s1) = follow s (follow s (V (n0 + i))) ->
            NCpre (n0 + i) (c0 + i) A (ownr scs cb j i) s (K s1)).
  { intros s [Gi Lo Kj Rg Uq] Rk. pose proof (Lo i Li) as Loi.
    split; [exact Gi|split; [exact Loi|split; [apply (Rg i Li)|split; [|split; [|split; [exact Dk1|split]]]]]].
    - intros y Ly Uy Cy. apply (Uq i y Li Ly Uy Cy).
    - split; [rewrite Rk; eapply rf_ff; eauto|split; [exact Sk1|exact Ak1]].
    - intros Hx. rewrite Rk. apply ff_unb. exact Hx.
    - intros o Hx. rewrite Rk. apply ff_base. exact Hx. }
  apply (R_new_constraint (n0 + i) (c0 + i) A (ownr scs cb j i) F (K s1) s1 s2 E (P s1 Ig1 Rk1) (P s2 Ig2 Rk2)).
Qed.

Lemma R_loop F n0 c0 nsc A cb scs : forall rest done s1 s2,
  scs = done ++ rest -> eqr s1 s2 ->
  IG H n0 c0 nsc A cb scs (length done) s1 -> IG H n0 c0 nsc A cb scs (length done) s2 ->
  Forall (pscE H nsc) rest -> Forall (fun sc => nalts sc <= A) rest ->
  outr (forM rest (eval_constr H F (map V (seq n0 nsc))) s1) (forM rest (eval_constr H F (map V (seq n0 nsc))) s2).
Proof.
  induction rest as [|sc rest IH]; intros done s1 s2 Ecs E Ig1 Ig2 Pc Ac; cbn [forM].
  - cbn. auto.
  - inversion Pc as [|? ? Psc Pr]; inversion Ac as [|? ? Asc Ar]; subst.
    assert (Ej : nth (length done) (done ++ sc :: rest) dsc = sc)
      by (rewrite app_nth2 by lia; rewrite Nat.sub_diag; reflexivity).
    pose proof (R_eval_constr F n0 c0 nsc A cb _ (length done) s1 s2 sc E Ig1 Ig2 Ej Psc Asc) as R.
    unfold bindM, outr in *.
    destruct (eval_constr H F (map V (seq n0 nsc)) sc s1) as [u1 t1|e1 t1] eqn:E1;
      destruct (eval_constr H F (map V (seq n0 nsc)) sc s2) as [u2 t2|e2 t2] eqn:E2.
    + destruct R as (_ & Et).
      destruct (eval_constr_IG H W F n0 c0 nsc A cb _ (length done) s1 sc Ig1 Ej Psc Asc u1 t1 E1) as (Ig1' & _).
      destruct (eval_constr_IG H W F n0 c0 nsc A cb _ (length done) s2 sc Ig2 Ej Psc Asc u2 t2 E2) as (Ig2' & _).
      apply (IH (done ++ [sc]) t1 t2); auto.
      * rewrite <- app_assoc. reflexivity.
      * rewrite app_length. cbn [length]. rewrite Nat.add_1_r. exact Ig1'.
      * rewrite app_length. cbn [length]. rewrite Nat.add_1_r. exact Ig2'.
    + subst e2. destruct (forM rest _ t1); auto.
    + subst e1. destruct (forM rest _ t2); auto.
    + exact Logic.I.
Qed.

Lemma cong_eval_sty env : forall t, cong (eval_sty env t).
Proof.
  induction t as [i| |o args IH] using sty_ind'; cbn [eval_sty]; [cg|cg|].
  apply cong_bind; [|cg]. induction IH as [|a r Ha Hr IHr]; cg; auto.
Qed.

Definition evs (env : list tyv) : list sty -> M (list tyv) :=
  fix go (l : list sty) : M (list tyv) :=
    match l with
    | [] => ret []
    | a :: r => x <- eval_sty env a ;; xs <- go r ;; ret (x :: xs)
    end.

Lemma cong_evs env : forall l, cong (evs env l).
Proof. induction l as [|a r IHr]; cbn [evs]; cg; [apply cong_eval_sty|exact IHr]. Qed.

Lemma R2_eval_sty env : forall t s, R2 (eval_sty env t) s.
Proof.
  induction t as [i| |o args IH] using sty_ind'; intros s; cbn [eval_sty].
  - apply T2_gets_end; [sfree|exact I].
  - apply T2_fresh. apply T2_ret. exact I.
  - eapply T2_bind with (Q1 := fun _ _ => True); [|cg|intros; apply T2_ret; exact I].
    change (R2 (evs env args) s). revert s. induction IH as [|a r Ha Hr IHr]; intros s; cbn [evs].
    + apply T2_ret. exact I.
    + eapply T2_bind with (Q1 := fun _ _ => True); [apply Ha| |].
      * intros x. apply cong_bind; [apply cong_evs|cg].
      * intros x s1 _ _. eapply T2_bind with (Q1 := fun _ _ => True); [apply IHr|cg|intros; apply T2_ret; exact I].
Qed.

Lemma R2_fresh_list : forall n s, R2 (fresh_list n) s.
Proof.
  induction n as [|n IH]; intros s; cbn [fresh_list]; [apply T2_ret; exact I|].
  apply T2_fresh. eapply T2_bind with (Q1 := fun _ _ => True); [apply IH|cg|intros; apply T2_ret; exact I].
Qed.

Definition PRE (sc : schema) : M (list tyv * tyv) :=
  env <- fresh_list (s_n sc) ;; body <- eval_sty env (s_body sc) ;; ret (env, body).

Lemma cong_PRE sc : cong (PRE sc).
Proof. unfold PRE. apply cong_bind; [apply cong_fresh_list|]. intros env. apply cong_bind; [apply cong_eval_sty|cg]. Qed.

Lemma R2_PRE sc s : R2 (PRE sc) s.
Proof.
  unfold PRE. eapply T2_bind with (Q1 := fun _ _ => True); [apply R2_fresh_list| |].
  - intros env. apply cong_bind; [apply cong_eval_sty|cg].
  - intros env s1 _ _. eapply T2_bind with (Q1 := fun _ _ => True); [apply R2_eval_sty|cg|intros; apply T2_ret; exact I].
Qed.

Lemma inst_pre F sc s : GI H nop s -> styg H (s_n sc) (s_body sc) ->
  exists r2 s2, let env := map V (seq (len s) (s_n sc)) in
    PRE sc s = MOk (env, r2) s2 /\
    instance H F sc s = (forM (s_constrs sc) (eval_constr H F env) ;;; fix_ty H F true r2) s2 /\
    IG H (len s) (length (csets s)) (s_n sc) (amax (s_constrs sc)) (length (constrs s)) (s_constrs sc) 0 s2 /\
    tg H (len s2) r2.
Proof.
  intros G Sb.
  destruct (fresh_list_grows (s_n sc) s) as (s1 & E1 & G1 & C1).
  set (env := map V (seq (len s) (s_n sc))) in *.
  assert (Le : length env = s_n sc) by (unfold env; rewrite map_length, seq_length; reflexivity).
  assert (Ue1 : Forall (uvar s1) env).
  { eapply Forall_impl; [|apply seq_uvar]. intros t. apply uvar_grows with (k := s_n sc). exact G1. }
  assert (Wb : sty_wf (length env) (s_body sc)) by (rewrite Le; apply (styg_wf H); exact Sb).
  destruct (eval_sty_spec env (s_body sc) s1 Ue1 Wb) as (r2 & s2 & E2 & G2 & _).
  pose proof (fresh_list_AL H W (s_n sc) s G _ s1 E1) as A1.
  pose proof (eval_sty_AL H W env (s_body sc) s1 (al_gi H _ _ A1) _ s2 E2) as A2.
  pose proof G as (J & I & _).
  destruct (fresh_list_goodE H (s_n sc) s J env s1 E1) as (J1 & _ & Fe & _ & _).
  assert (Fe1 : Forall (tg H (len s1)) env) by (eapply Forall_impl; [|exact Fe]; intros t; apply isvar_tg).
  assert (Sb' : styg H (length env) (s_body sc)) by (rewrite Le; exact Sb).
  destruct (eval_sty_goodE H env (s_body sc) s1 J1 Fe1 Sb' r2 s2 E2) as (_ & _ & Tr & _).
  set (scs := s_constrs sc) in *. set (A := amax scs).
  assert (Ig : IG H (len s) (length (csets s)) (s_n sc) A (length (constrs s)) scs 0 s2).
  { constructor.
    - exact (al_gi H _ _ A2).
    - intros i Li. constructor.
      + rewrite (g_old _ _ _ G2) by (rewrite (g_len _ _ _ G1); lia). rewrite C1 by exact Li. reflexivity.
      + left. rewrite (g_old _ _ _ G2) by (rewrite (g_len _ _ _ G1); lia). rewrite C1 by exact Li. reflexivity.
      + intros c (Rc & _). lia.
      + intros c Hc. rewrite (g_cset _ _ _ G2), (g_cset _ _ _ G1) in Hc.
        unfold cset_of in Hc. rewrite nth_overflow in Hc by lia. destruct Hc.
    - rewrite (g_constrs _ _ _ G2), (g_constrs _ _ _ G1). lia.
    - intros i Li. rewrite (g_len _ _ _ G2), (g_len _ _ _ G1). lia.
    - intros i y Li Ly Uy Cy.
      destruct (Nat.lt_ge_cases y (len s)) as [L0|L0].
      + exfalso. rewrite (g_old _ _ _ G2) in Cy by (rewrite (g_len _ _ _ G1); lia). rewrite (g_old _ _ _ G1) in Cy by exact L0.
        pose proof (sc_cs (proj2 I eq_refl) L0). lia.
      + destruct (Nat.lt_ge_cases y (len s1)) as [L1|L1].
        * rewrite (g_old _ _ _ G2) in Cy by exact L1. rewrite (g_len _ _ _ G1) in L1.
          replace y with (len s + (y - len s)) in Cy by lia. rewrite C1 in Cy by lia. cbn in Cy. lia.
        * exfalso. pose proof (al_new H _ _ A2 y L1 Ly) as X. rewrite (g_cslen _ _ _ G1) in X. lia. }
  exists r2, s2. cbv zeta. fold env. split; [|split; [|split; [exact Ig|exact Tr]]].
  - unfold PRE, bindM. rewrite E1. fold env. rewrite E2. reflexivity.
  - unfold instance, bindM. rewrite E1. fold env. rewrite E2. reflexivity.
Qed.

Theorem R_instance F sc s1 s2 : eqr s1 s2 -> GI H nop s1 -> GI H nop s2 ->
  styg H (s_n sc) (s_body sc) -> Forall (pscE H (s_n sc)) (s_constrs sc) ->
  outr (instance H F sc s1) (instance H F sc s2).
Proof.
  intros E G1 G2 Sb Pc.
  destruct (inst_pre F sc s1 G1 Sb) as (r1 & t1 & P1 & I1 & Ig1 & Tr1).
  destruct (inst_pre F sc s2 G2 Sb) as (r2 & t2 & P2 & I2 & Ig2 & Tr2).
  cbv zeta in *. pose proof E as (Ev & Ec & El & _).
  rewrite <- Ev, <- Ec, <- El in *.
  pose proof (two_sided (PRE sc) s1 s2 E (cong_PRE sc) (R2_PRE sc s2)) as Rp.
  rewrite P1, P2 in Rp. destruct Rp as (Er & Et). injection Er as <-.
  rewrite I1, I2. clear I1 I2.
  set (env := map V (seq (len s1) (s_n sc))) in *.
  pose proof (R_loop F (len s1) (length (csets s1)) (s_n sc) (amax (s_constrs sc)) (length (constrs s1))
                (s_constrs sc) (s_constrs sc) [] t1 t2 eq_refl Et Ig1 Ig2 Pc (amax_all 1 (le_n 1) _)) as Rl.
  pose proof (constr_loop_IG H W F (len s1) (length (csets s1)) (s_n sc) (amax (s_constrs sc)) (length (constrs s1))
                (s_constrs sc) (s_constrs sc) [] t2 eq_refl Ig2 Pc (amax_all 1 (le_n 1) _)) as Tl.
  fold env in Rl, Tl. unfold bindM. unfold outr in Rl.
  destruct (forM (s_constrs sc) (eval_constr H F env) t1) as [u1 w1|e1 w1];
    destruct (forM (s_constrs sc) (eval_constr H F env) t2) as [u2 w2|e2 w2] eqn:E2.
  - destruct Rl as (_ & Ew). destruct (Tl u2 w2 E2) as (Ig3 & L3).
    apply (two_sided (fix_ty H F true r1) w1 w2 Ew (cong_fix_ty H F true r1)).
    apply (R_fix_all F true r1 w2 (ig_gi _ _ _ _ _ _ _ _ _ Ig3)). rewrite L3. exact Tr2.
  - subst e2. unfold outr. destruct (fix_ty H F true r1 w1); auto.
  - subst e1. unfold outr. destruct (fix_ty H F true r1 w2); auto.
  - exact Logic.I.
Qed.

(* ------------------------------------------------------------------ *)
(* commands, programs                                                   *)
(* ------------------------------------------------------------------ *)
Theorem RelCmd_all : RelCmd H.
Proof.
  intros fuel c vals s1 s2 Pc Fv E G1 G2.
  assert (Fv2 : Forall (tg H (len s2)) vals) by (rewrite <- (proj1 E); exact Fv).
  destruct Pc as [sc Sb Pcs|f x b Lf Lx]; cbn [run_cmd].
  - pose proof (R_instance fuel sc s1 s2 E G1 G2 Sb Pcs) as R. unfold bindM, outr in *.
    destruct (instance H fuel sc s1) as [a t1|e1 t1], (instance H fuel sc s2) as [a2 t2|e2 t2]; auto.
    destruct R as (-> & R). cbn. auto.
  - apply two_sided; [exact E|cg|].
    eapply T2_bind with (Q1 := fun _ _ => True); [|cg|intros; apply T2_ret; exact I].
    apply (R_apply fuel _ _ b s2 G2 (tg_val H _ _ _ Fv2 Lf) (tg_val H _ _ _ Fv2 Lx)).
Qed.

Theorem final fuel prog sc1 sc2 : progE H 0 prog -> prog_fuelE prog <= fuel ->
  match run_cmds H fuel prog 0 [] (empty_store sc1), run_cmds H fuel prog 0 [] (empty_store sc2) with
  | (None, v1, t1), (None, v2, t2) => v1 = v2 /\ eqr t1 t2
  | (Some (e1, i1), _, _), (Some (e2, i2), _, _) => i1 = i2 /\ e1 <> EFuel /\ e2 <> EFuel
  | _, _ => False
  end.
Proof. exact (whole_partial H W RelCmd_all fuel prog sc1 sc2). Qed.

End R2.
