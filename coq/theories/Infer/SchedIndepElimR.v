(* C18 for the class progE, part R: one re-check round.

   Setting: a constraint-set index [i] and the store [s0] in which a re-check
   round on a variable v with c_cs v = i starts.  The constraints of [s0] are
   pure subtype constraints x <= A / x < A and elimination constraints over
   user base operators.  A round only writes the cells of ACTIVE variables
   (unbound, pointing to set i), the records of the constraints of set i and
   set i itself.

   [Inv s]   what every state of the round satisfies, relative to [s0]:
             [Step] (refinement of the cells of active variables, shape of the
             constraint records: alternatives = a filter of the minimized
             declared ones, nothing that could still be kept has been dropped)
             and [Pre] (well-formedness; every pending elimination constraint
             of the set refers to an active variable or is settled).
   [T2 s s'] two-state facts of every (complete) operation.
   [Stl s]   every constraint left in set i is settled: re-checking it is a
             no-op.
   [Dom s t] the cells of t refine those of s.
   The specifications [SP_cc] / [SP_ful] / [SP_below] / [SP_bindb] of
   check_constraints / fulfill / below / bind on this fragment (one induction on
   fuel, [SPs_all]) say, for an arbitrary store [t] that is the end of a run
   ([FinT t] = Step, Pre, T2 s0 t, Stl) whenever some state of the round dominates
   it: the operation re-establishes the invariants, ends settled, and a run from
   a state that dominates t ends in a state that dominates t and fails only for
   lack of fuel.  Two successful runs therefore end in stores that dominate each
   other - the same cells - and the records and the set are functions of the
   cells and of s0 ([Fin_unique], [round_unique]).  Equality of the final stores
   is up to the raw reference of fulfilled elimination constraints ([eqk]), which
   really depends on the order (SchedIndepElim.ref_refuted). *)
From Coq Require Import List Arith Bool Lia Permutation.
Import ListNotations.
From TF Require Import Base.Hier Base.Ty Sub.SubSpec Infer.Store Infer.Engine Infer.Run
  Infer.Sched Infer.Inv Infer.Sound Infer.FixLeast Infer.TermP Infer.SchedIndep Infer.SoundSub
  Infer.TermSub Infer.SoundElimS Infer.SoundElimK Infer.SoundElim Infer.TermElim
  Infer.SchedIndepElimA.
From TF Require Infer.Lub Infer.FitsEngineList.

Unset Implicit Arguments.

Local Arguments set_cell s v c /.
Local Arguments set_cset s i l /.
Local Arguments set_constr s i k /.

Section R.
Variable H : hier.
Hypothesis W : wf_hier H.
Variable i : nat.
Local Notation gd := (FL.good H).
Local Notation ob := FL.ob.
Local Notation obs := FL.obs.
Local Notation mins_of := (FL.mins_of H).
Local Notation ole := (Lub.ole H).
Local Notation bok := (Sound.bok H).
Local Notation inv := (invb true).
Local Notation len s := (length (vars s)).
Local Notation vd s k := (pfc H 4 s k).

Definition unb (s : store) (w : nat) : Prop := c_bound (cell_of s w) = None.
Definition act (s : store) (w : nat) : Prop :=
  w < len s /\ unb s w /\ c_cs (cell_of s w) = i.

(* ------------------------------------------------------------------ *)
(* refinement of a cell                                                 *)
(* ------------------------------------------------------------------ *)
Definition bcell (a : nat) : cell := mkCell false (Some (O a [])) (Some a) (Some a) i.

Definition ref (c c' : cell) : Prop :=
  c_cs c' = i /\ c_lower c' = c_lower c /\ (c_wild c' = true -> c_wild c = true) /\
  ((c_bound c' = None /\ forall u, c_upper c = Some u -> exists u', c_upper c' = Some u' /\ ole u' u) \/
   (exists a, c' = bcell a /\ c_lower c = Some a /\ forall u, c_upper c = Some u -> ole a u)).

Definition crel (c c' : cell) : Prop :=
  c' = c \/ (c_bound c = None /\ c_cs c = i /\ ref c c').

Lemma crel_refl c : crel c c.
Proof. left. reflexivity. Qed.

Lemma crel_bound c c' t : crel c c' -> c_bound c = Some t -> c' = c.
Proof. intros [E|(N & _)] B; [exact E|congruence]. Qed.

Lemma crel_cs c c' : crel c c' -> c_cs c' = c_cs c.
Proof. intros [->|(_ & E & (E' & _))]; congruence. Qed.

Lemma crel_lower c c' : crel c c' -> c_lower c' = c_lower c.
Proof. intros [->|(_ & _ & (_ & E & _))]; auto. Qed.

Lemma crel_unb c c' : crel c c' -> c_bound c' = None -> c_bound c = None.
Proof. intros [->|(N & _)]; auto. Qed.

Lemma crel_trans c1 c2 c3 : crel c1 c2 -> crel c2 c3 -> crel c1 c3.
Proof.
  intros [->|(N1 & I1 & R1)] R23; [exact R23|].
  destruct R23 as [->|(N2 & I2 & R2)]; [right; auto|].
  right. split; [exact N1|split; [exact I1|]].
  destruct R1 as (Ci1 & L1 & W1 & D1), R2 as (Ci2 & L2 & W2 & D2).
  split; [exact Ci2|split; [congruence|split; [auto|]]].
  destruct D1 as [(B1 & U1)|(a & E & _)]; [|rewrite E in N2; discriminate].
  destruct D2 as [(B2 & U2)|(a & E & La & Ua)].
  - left. split; [exact B2|]. intros u Hu. destruct (U1 u Hu) as (u' & Hu' & Le').
    destruct (U2 u' Hu') as (u'' & Hu'' & Le''). exists u''. split; [exact Hu''|].
    apply (SchedIndepElimA.ole_trans H W u'' u' u); auto.
  - right. exists a. split; [exact E|split; [congruence|]].
    intros u Hu. destruct (U1 u Hu) as (u' & Hu' & Le'). apply (SchedIndepElimA.ole_trans H W a u' u); [apply Ua; exact Hu'|exact Le'].
Qed.

(* two cells that refine each other are equal *)
Lemma crel_antisym c c' : bok c -> bok c' -> crel c c' -> crel c' c -> c = c'.
Proof.
  intros B B' [->|(N & I & R)] R'; [reflexivity|].
  destruct R' as [E|(N' & I' & R')]; [exact E|].
  destruct R as (Ci & L & Wd & D), R' as (Ci' & L' & Wd' & D').
  destruct D as [(Bn & U)|(a & E & _)]; [|rewrite E in N'; discriminate].
  destruct D' as [(Bn' & U')|(a & E & _)]; [|rewrite E in N; discriminate].
  destruct c as [w b l u cs], c' as [w' b' l' u' cs']. cbn in *. subst.
  assert (Ew : w = w').
  { destruct w, w'; auto. symmetry; auto. }
  assert (Eu : u = u').
  { destruct u as [x|], u' as [y|]; auto.
    - destruct (U x eq_refl) as (y' & [= <-] & L1). destruct (U' y eq_refl) as (x' & [= <-] & L2).
      f_equal. apply (Lub.ole_antisym H W); auto.
    - destruct (U x eq_refl) as (y' & X & _). discriminate.
    - destruct (U' y eq_refl) as (y' & X & _). discriminate. }
  subst. reflexivity.
Qed.

(* the filter verdict on the cell of a variable (unbound or resolved to a base type) *)
Definition kpcell (c : cell) (m : nat) : bool :=
  match c_bound c with
  | None => kpc H c m
  | Some (O o _) => kpo H o m
  | Some (V _) => false
  end.

Lemma kpcell_mono c c' m : bok c -> bok c' -> gd m -> crel c c' ->
  kpcell c' m = true -> kpcell c m = true.
Proof.
  intros B B' G [->|(N & I & R)]; [auto|].
  destruct R as (Ci & L & Wd & D). unfold kpcell at 2. rewrite N.
  destruct D as [(Bn & U)|(a & E & La & Ua)].
  - unfold kpcell. rewrite Bn. apply (kpc_mono H W c c' m B' L U).
  - subst c'. unfold kpcell. cbn [c_bound bcell]. apply (kpc_bound_mono H W c a m B La).
Qed.

(* ------------------------------------------------------------------ *)
(* following in a later store                                           *)
(* ------------------------------------------------------------------ *)
Definition bext (s s' : store) : Prop :=
  forall v x, c_bound (cell_of s v) = Some x -> c_bound (cell_of s' v) = Some x.

Lemma crel_bext s s' : (forall w, crel (cell_of s w) (cell_of s' w)) -> bext s s'.
Proof. intros C v x Hv. rewrite (crel_bound _ _ x (C v) Hv). exact Hv. Qed.

Lemma follow_ext s s' t : inv s' -> bext s s' -> follow s' (follow s t) = follow s' t.
Proof. intros I E. apply follow_follow; [apply I|exact E]. Qed.

Lemma follow_idem s t : inv s -> follow s (follow s t) = follow s t.
Proof. intros I. apply follow_of_nb. eapply Inv.follow_unbound. exact I. Qed.


Lemma follow_var_back s s' r w' : inv s -> inv s' -> (forall w, crel (cell_of s w) (cell_of s' w)) ->
  follow s' r = V w' -> follow s r = V w'.
Proof.
  intros I I' C E. rewrite <- (follow_ext s s' r I' (crel_bext s s' C)) in E.
  pose proof (@Inv.follow_unbound true s r I) as N.
  destruct (follow s r) as [w1|o xs] eqn:Ef; [|rewrite Lub.follow_O in E; discriminate].
  cbn [nb] in N. destruct (C w1) as [Ec|(_ & _ & (_ & _ & _ & D))].
  - rewrite Lub.follow_V_unbound in E by (rewrite Ec; exact N). exact E.
  - destruct D as [(Bn & _)|(a & Ec & _)].
    + rewrite Lub.follow_V_unbound in E by exact Bn. exact E.
    + rewrite (Lub.follow_V_bound_O s' w1 a []) in E by (rewrite Ec; reflexivity). discriminate.
Qed.

(* the filter verdict is monotone along a refinement of the store *)
Lemma kp_mono s s' r m : inv s -> inv s' -> (forall w, bok (cell_of s w)) -> (forall w, bok (cell_of s' w)) ->
  gd m -> (forall w, crel (cell_of s w) (cell_of s' w)) ->
  kp H s' r m = true -> kp H s r m = true.
Proof.
  intros I I' B B' G C. unfold kp at 1. rewrite <- (follow_ext s s' r I' (crel_bext s s' C)).
  pose proof (@Inv.follow_unbound true s r I) as N. unfold kp.
  destruct (follow s r) as [w1|o xs] eqn:Ef; [|rewrite Lub.follow_O; auto].
  cbn [nb] in N. destruct (C w1) as [Ec|(_ & _ & R)].
  - rewrite Lub.follow_V_unbound by (rewrite Ec; exact N). rewrite Ec. auto.
  - destruct R as (Ci & L & Wd & D). destruct D as [(Bn & U)|(a & Ec & La & Ua)].
    + rewrite Lub.follow_V_unbound by exact Bn. apply (kpc_mono H W _ _ m (B' w1) L U).
    + rewrite (Lub.follow_V_bound_O s' w1 a []) by (rewrite Ec; reflexivity).
      apply (kpc_bound_mono H W _ a m (B w1) La).
Qed.

(* a fulfilled subtype constraint stays fulfilled *)
Lemma vd_done_mono s s' k a : inv s -> inv s' -> (forall w, crel (cell_of s w) (cell_of s' w)) ->
  k_alts k = [O a []] -> basic H a = true ->
  vd s k = PDone -> vd s' k = PDone.
Proof.
  intros I I' C Ea Ba D.
  pose proof (@Inv.follow_unbound true s (k_ref k) I) as N.
  destruct (follow s (k_ref k)) as [w1|o xs] eqn:Ef.
  - cbn [nb] in N.
    pose proof (pfc_var H W 0 s k w1 a (@inv_chain true s I) Ef Ea Ba) as X. change (4 + 0) with 4 in X.
    rewrite X in D. clear X. unfold vdv in D.
    destruct (a =? Top) eqn:ET; [|destruct (kpc H (cell_of s w1) a); discriminate].
    destruct (k_strict k) eqn:Es; [discriminate|]. apply Nat.eqb_eq in ET. subst a.
    assert (E' : follow s' (k_ref k) = follow s' (V w1)).
    { rewrite <- (follow_ext s s' _ I' (crel_bext s s' C)), Ef. reflexivity. }
    destruct (C w1) as [Ec|(_ & _ & (_ & _ & _ & Dd))].
    + rewrite Lub.follow_V_unbound in E' by (rewrite Ec; exact N).
      pose proof (pfc_var H W 0 s' k w1 Top (@inv_chain true s' I') E' Ea Ba) as X. change (4 + 0) with 4 in X.
      rewrite X. unfold vdv. rewrite Es. reflexivity.
    + destruct Dd as [(Bn & _)|(b & Ec & _)].
      * rewrite Lub.follow_V_unbound in E' by exact Bn.
        pose proof (pfc_var H W 0 s' k w1 Top (@inv_chain true s' I') E' Ea Ba) as X. change (4 + 0) with 4 in X.
      rewrite X. unfold vdv. rewrite Es. reflexivity.
      * rewrite (Lub.follow_V_bound_O s' w1 b []) in E' by (rewrite Ec; reflexivity).
        cbn [pfc]. rewrite Ea. cbn [ubase]. rewrite E'. cbn [Nat.eqb Top orb]. rewrite orb_true_r.
        cbn [match_f]. rewrite Lub.follow_O, E'. cbn [andb Nat.eqb Top]. rewrite orb_true_r. rewrite Es. reflexivity.
  - assert (E' : follow s' (k_ref k) = O o xs).
    { rewrite <- (follow_ext s s' _ I' (crel_bext s s' C)), Ef. apply Lub.follow_O. }
    rewrite <- (pfc_res H 4 s s' k o xs a Ef E' Ea Ba). exact D.
Qed.

(* a violated subtype constraint stays violated *)
Lemma vd_err_mono s s' k a e : inv s -> inv s' -> (forall w, bok (cell_of s w)) -> (forall w, bok (cell_of s' w)) ->
  (forall w, crel (cell_of s w) (cell_of s' w)) ->
  k_alts k = [O a []] -> basic H a = true ->
  vd s k = PErr e -> exists e', vd s' k = PErr e'.
Proof.
  intros I I' B B' C Ea Ba D.
  pose proof (@Inv.follow_unbound true s (k_ref k) I) as N.
  destruct (follow s (k_ref k)) as [w1|o xs] eqn:Ef.
  - cbn [nb] in N.
    pose proof (pfc_var H W 0 s k w1 a (@inv_chain true s I) Ef Ea Ba) as X. change (4 + 0) with 4 in X.
    rewrite X in D. clear X. unfold vdv in D.
    destruct (a =? Top) eqn:ET; [destruct (k_strict k); discriminate|].
    destruct (kpc H (cell_of s w1) a) eqn:K; [discriminate|].
    assert (E' : follow s' (k_ref k) = follow s' (V w1)).
    { rewrite <- (follow_ext s s' _ I' (crel_bext s s' C)), Ef. reflexivity. }
    assert (UN : c_bound (cell_of s' w1) = None -> exists e', vd s' k = PErr e').
    { intros Bn. rewrite Lub.follow_V_unbound in E' by exact Bn.
      pose proof (pfc_var H W 0 s' k w1 a (@inv_chain true s' I') E' Ea Ba) as X. change (4 + 0) with 4 in X.
      rewrite X. unfold vdv. rewrite ET.
      destruct (kpc H (cell_of s' w1) a) eqn:K'; [|eauto]. exfalso.
      destruct (C w1) as [Ec|(_ & _ & (_ & L & _ & Dd))]; [rewrite Ec in K'; congruence|].
      destruct Dd as [(_ & U)|(b & Ec & _)]; [|rewrite Ec in Bn; discriminate].
      rewrite (kpc_mono H W _ _ a (B' w1) L U K') in K. discriminate. }
    destruct (C w1) as [Ec|(_ & _ & (_ & L & _ & Dd))]; [apply UN; rewrite Ec; exact N|].
    destruct Dd as [(Bn & _)|(b & Ec & Lb & _)]; [apply UN; exact Bn|].
    rewrite (Lub.follow_V_bound_O s' w1 b []) in E' by (rewrite Ec; reflexivity).
    destruct (B w1) as (B1 & _). destruct (B1 b Lb) as (Vb & NBb & NTb).
    assert (Bb : basic H b = true) by (unfold basic, arity; rewrite Vb; reflexivity).
    cbn [pfc]. rewrite Ea. cbn [ubase]. rewrite E'. rewrite (proj2 (Nat.eqb_neq b Bottom) NBb), ET. cbn [orb]. rewrite Bb.
    cbn [match_f]. rewrite Lub.follow_O, E'. cbn [andb]. rewrite (proj2 (Nat.eqb_neq b Bottom) NBb), ET. cbn [orb]. rewrite Bb.
    destruct ((b =? a) || osub H false b a) eqn:Kb; [|eauto]. exfalso.
    assert (Ko : kpo H b a = true).
    { unfold kpo. rewrite Bb. cbn [andb]. rewrite Kb. apply orb_true_r. }
    rewrite (kpc_bound_mono H W _ b a (B w1) Lb Ko) in K. discriminate.
  - assert (E' : follow s' (k_ref k) = O o xs).
    { rewrite <- (follow_ext s s' _ I' (crel_bext s s' C)), Ef. apply Lub.follow_O. }
    rewrite <- (pfc_res H 4 s s' k o xs a Ef E' Ea Ba). eauto.
Qed.

(* ------------------------------------------------------------------ *)
(* the invariants of a round                                            *)
(* ------------------------------------------------------------------ *)
Variable s0 : store.

Definition rho (c : nat) : tyv := follow s0 (k_ref (constr_of s0 c)).

Record LW (s : store) : Prop := mkLW {
  lw_inv : inv s;
  lw_bok : forall v, bok (cell_of s v);
  lw_kw : KW H s;
  lw_pi : forall c l, c < length (constrs s) -> k_elim (constr_of s c) = true ->
            k_alts (constr_of s c) = obs l -> PI H l
}.

Definition stlE (s : store) (c : nat) : Prop :=
  let k := constr_of s c in
  k_done k = false /\ follow s (k_ref k) = k_ref k /\
  exists l, k_alts k = obs l /\ anti H l /\ 2 <= length l /\
            forall m, In m l -> kp H s (k_ref k) m = true.

Definition stlS (s : store) (c : nat) : Prop :=
  let k := constr_of s c in k_done k = false /\ vd s k = PKeep.

Definition settled (s : store) (c : nat) : Prop :=
  if k_elim (constr_of s c) then stlE s c else stlS s c.

Definition Stl (s : store) : Prop := forall c, In c (cset_of s i) -> settled s c.

Definition HR (s : store) : Prop :=
  forall c w, In c (cset_of s i) -> k_elim (constr_of s c) = true -> k_done (constr_of s c) = false ->
    follow s (k_ref (constr_of s c)) = V w -> act s w \/ stlE s c.

Definition SD (s : store) : Prop :=
  forall c, In c (cset_of s0 i) -> k_elim (constr_of s c) = false -> k_done (constr_of s c) = true ->
    vd s (constr_of s c) = PDone.

Definition Pre (s : store) : Prop := LW s /\ HR s /\ SD s.

Record Step (s : store) : Prop := mkStep {
  st_len : len s = len s0;
  st_clen : length (constrs s) = length (constrs s0);
  st_cslen : length (csets s) = length (csets s0);
  st_cell : forall w, crel (cell_of s0 w) (cell_of s w);
  st_cso : forall j, j <> i -> cset_of s j = cset_of s0 j;
  st_csi : exists P, cset_of s i = filter P (cset_of s0 i);
  st_rm : forall c, In c (cset_of s0 i) -> ~ In c (cset_of s i) -> k_done (constr_of s c) = true;
  st_out : forall c, ~ In c (cset_of s0 i) -> constr_of s c = constr_of s0 c;
  st_sub : forall c, k_elim (constr_of s0 c) = false ->
             constr_of s c = constr_of s0 c \/ constr_of s c = done_of (constr_of s0 c);
  st_don : forall c, k_elim (constr_of s0 c) = true -> k_done (constr_of s0 c) = true ->
             constr_of s c = constr_of s0 c;
  st_elm : forall c l, In c (cset_of s0 i) -> k_elim (constr_of s0 c) = true ->
             k_done (constr_of s0 c) = false -> k_alts (constr_of s0 c) = obs l ->
             (constr_of s c = constr_of s0 c \/
              exists r P d, constr_of s c = mkConstr true r (obs (filter P (mins_of l)))
                                                     (k_strict (constr_of s0 c)) d) /\
             follow s (k_ref (constr_of s c)) = follow s (rho c);
  st_keeps : forall c l m, In c (cset_of s0 i) -> k_elim (constr_of s0 c) = true ->
             k_done (constr_of s0 c) = false -> k_alts (constr_of s0 c) = obs l ->
             In m (mins_of l) -> ~ In (ob m) (k_alts (constr_of s c)) -> kp H s (rho c) m = false
}.

(* the done clause of an elimination constraint fulfilled with alternative m *)
Definition dclv (s : store) (w m : nat) : Prop :=
  c_wild (cell_of s w) = false /\
  (unb s w -> exists u, c_upper (cell_of s w) = Some u /\ ole u m /\ c_lower (cell_of s w) <> Some u) /\
  (forall b, c_bound (cell_of s w) = Some b -> exists o, b = O o [] /\ ole o m).

Definition dcl (s : store) (r : tyv) (m : nat) : Prop :=
  match r with V w => dclv s w m | O o _ => kpo H o m = true end.

Record T2 (s s' : store) : Prop := mkT2 {
  t2_cell : forall w, crel (cell_of s w) (cell_of s' w);
  t2_ne : forall w a, unb s' w -> c_lower (cell_of s' w) = Some a -> c_upper (cell_of s' w) = Some a ->
            c_upper (cell_of s w) = Some a;
  t2_done : forall c, k_done (constr_of s c) = true -> k_done (constr_of s' c) = true;
  t2_frz : forall c, k_elim (constr_of s0 c) = true -> k_done (constr_of s c) = true ->
             constr_of s' c = constr_of s c;
  t2_dcl : forall c, In c (cset_of s0 i) -> k_elim (constr_of s0 c) = true ->
             k_done (constr_of s c) = false -> k_done (constr_of s' c) = true ->
             exists m, k_alts (constr_of s' c) = [ob m] /\ dcl s' (rho c) m
}.

Definition Dom (s t : store) : Prop := forall w, crel (cell_of s w) (cell_of t w).

Lemma T2_refl s : T2 s s.
Proof.
  constructor; auto using crel_refl. intros c _ _ E1 E2. congruence.
Qed.

Lemma dclv_T2 s s' w m : T2 s s' -> dclv s w m -> dclv s' w m.
Proof.
  intros T (Wd & U & B). pose proof (t2_cell _ _ T w) as C. split; [|split].
  - destruct C as [->|(_ & _ & (_ & _ & Wi & _))]; [exact Wd|].
    destruct (c_wild (cell_of s' w)); [|reflexivity]. rewrite Wi in Wd by reflexivity. discriminate.
  - intros U'. destruct C as [Ec|(N & _ & (_ & L & _ & D))].
    + rewrite Ec. apply U. unfold unb in *. rewrite <- Ec. exact U'.
    + destruct (U N) as (u & Hu & Le & Ne).
      destruct D as [(_ & Uu)|(a & Ec & _)]; [|unfold unb in U'; rewrite Ec in U'; discriminate].
      destruct (Uu u Hu) as (u' & Hu' & Le'). exists u'. split; [exact Hu'|split].
      * apply (SchedIndepElimA.ole_trans H W u' u m); auto.
      * intros El. rewrite L in El.
        pose proof (t2_ne _ _ T w u' U' ltac:(rewrite L; exact El) Hu') as X.
        rewrite Hu in X. injection X as ->. apply Ne. exact El.
  - intros b Hb. destruct C as [Ec|(N & _ & (_ & L & _ & D))].
    + apply B. rewrite <- Ec. exact Hb.
    + destruct D as [(Bn & _)|(a & Ec & La & Ua)]; [congruence|].
      rewrite Ec in Hb. cbn in Hb. injection Hb as <-. exists a. split; [reflexivity|].
      destruct (U N) as (u & Hu & Le & _). apply (SchedIndepElimA.ole_trans H W a u m); auto.
Qed.

Lemma dcl_T2 s s' r m : T2 s s' -> dcl s r m -> dcl s' r m.
Proof. destruct r as [w|o xs]; cbn [dcl]; [apply dclv_T2|auto]. Qed.

Lemma T2_trans s1 s2 s3 : T2 s1 s2 -> T2 s2 s3 -> T2 s1 s3.
Proof.
  intros A B. constructor.
  - intros w. eapply crel_trans; [apply (t2_cell _ _ A)|apply (t2_cell _ _ B)].
  - intros w a U L Up. pose proof (t2_ne _ _ B w a U L Up) as X.
    pose proof (t2_cell _ _ B w) as C.
    apply (t2_ne _ _ A w a); [eapply crel_unb; eauto|rewrite <- (crel_lower _ _ C); exact L|exact X].
  - intros c D. apply (t2_done _ _ B), (t2_done _ _ A), D.
  - intros c E D. rewrite (t2_frz _ _ B c E), (t2_frz _ _ A c E D); auto.
    rewrite (t2_frz _ _ A c E D). exact D.
  - intros c Hc E D1 D3. destruct (k_done (constr_of s2 c)) eqn:D2.
    + destruct (t2_dcl _ _ A c Hc E D1 D2) as (m & Ea & Dc).
      exists m. rewrite (t2_frz _ _ B c E D2). split; [exact Ea|]. eapply dcl_T2; eauto.
    + apply (t2_dcl _ _ B c Hc E D2 D3).
Qed.


Hypothesis P0 : Pre s0.

Lemma filter_all {A} (l : list A) : filter (fun _ => true) l = l.
Proof. induction l; cbn; congruence. Qed.

Lemma In_obs m l : In (ob m) (obs l) <-> In m l.
Proof.
  unfold FL.obs. rewrite in_map_iff. split.
  - intros (x & E & Hx). injection E as <-. exact Hx.
  - intros Hm. exists m. split; [reflexivity|exact Hm].
Qed.

Lemma obs_inj l : forall l', obs l = obs l' -> l = l'.
Proof.
  induction l as [|x l IH]; intros [|y l'] E; try discriminate; auto.
  cbn in E. injection E as -> E. f_equal. apply IH. exact E.
Qed.

Lemma Step_refl : Step s0.
Proof.
  constructor; auto using crel_refl.
  - exists (fun _ => true). symmetry. apply filter_all.
  - intros c l Hc E D Ea. split; [left; reflexivity|]. unfold rho. symmetry. apply follow_idem. apply P0.
  - intros c l m Hc E D Ea Hm N. exfalso. apply N. rewrite Ea. apply In_obs. apply (FL.mins_of_in H). exact Hm.
Qed.

Lemma in_range s c : LW s -> In c (cset_of s i) -> c < length (constrs s).
Proof. intros L Hc. eapply inv_cs; [apply L|exact Hc]. Qed.

Lemma in_range0 s c : Step s -> In c (cset_of s0 i) -> c < length (constrs s).
Proof. intros S Hc. rewrite (st_clen s S). apply (in_range s0 c); [apply P0|exact Hc]. Qed.

Lemma csi_incl s c : Step s -> In c (cset_of s i) -> In c (cset_of s0 i).
Proof. intros S Hc. destruct (st_csi s S) as (P & E). rewrite E in Hc. apply filter_In in Hc. apply Hc. Qed.

(* the alternatives declared in s0 *)
Lemma alts0 c : In c (cset_of s0 i) -> k_elim (constr_of s0 c) = true ->
  exists l, Forall gd l /\ k_alts (constr_of s0 c) = obs l /\ PI H l.
Proof.
  intros Hc E. destruct P0 as (L & _). pose proof (in_range s0 c L Hc) as Lc.
  pose proof (lw_kw s0 L c Lc) as Sh. unfold shape in Sh. rewrite E in Sh. destruct Sh as (l & G & Ea).
  exists l. split; [exact G|split; [exact Ea|]]. apply (lw_pi s0 L c l Lc E Ea).
Qed.

Lemma kind_elim s c : Step s -> In c (cset_of s0 i) -> k_elim (constr_of s0 c) = true ->
  k_elim (constr_of s c) = true.
Proof.
  intros S Hc E. destruct (k_done (constr_of s0 c)) eqn:D.
  - rewrite (st_don s S c E D). exact E.
  - destruct (alts0 c Hc E) as (l & _ & Ea & _).
    destruct (st_elm s S c l Hc E D Ea) as ([X|(r & P & d & X)] & _); rewrite X; auto.
Qed.

Lemma kind_sub s c : Step s -> k_elim (constr_of s0 c) = false -> k_elim (constr_of s c) = false.
Proof. intros S E. destruct (st_sub s S c E) as [X|X]; rewrite X; auto. Qed.

Lemma kind_eq s c : Step s -> In c (cset_of s0 i) -> k_elim (constr_of s c) = k_elim (constr_of s0 c).
Proof.
  intros S Hc. destruct (k_elim (constr_of s0 c)) eqn:E; [apply kind_elim|apply kind_sub]; auto.
Qed.

(* ------------------------------------------------------------------ *)
(* updating the cell of an active variable                              *)
(* ------------------------------------------------------------------ *)
Lemma cells_after s w c' : act s w -> ref (cell_of s w) c' ->
  forall w', crel (cell_of s w') (cell_of (set_cell s w c') w').
Proof.
  intros (Lw & U & Ci) R w'. destruct (cell_of_set_cell s w c' w') as [(E & -> & _)|E]; rewrite E.
  - right. auto.
  - left. reflexivity.
Qed.

Lemma gd_of_mins c l m : In c (cset_of s0 i) -> k_elim (constr_of s0 c) = true ->
  k_alts (constr_of s0 c) = obs l -> In m (mins_of l) -> gd m.
Proof.
  intros Hc E Ea Hm. destruct (alts0 c Hc E) as (l' & G & Ea' & _). rewrite Ea in Ea'.
  assert (l' = l) by (apply obs_inj; symmetry; exact Ea').
  subst l'. rewrite Forall_forall in G. apply G. apply (FL.mins_of_in H). exact Hm.
Qed.

Lemma cell_upd_pres s w c' : Step s -> Pre s -> act s w -> ref (cell_of s w) c' -> bok c' ->
  Step (set_cell s w c') /\ Pre (set_cell s w c').
Proof.
  intros S (L & Hr & Sd) A R Bk. pose proof (cells_after s w c' A R) as C.
  set (s' := set_cell s w c') in *.
  destruct A as (Lw & U & Ci).
  assert (I' : inv s').
  { destruct R as (Ci' & Ll & Wd & D). destruct Bk as (Bl & Bu & _).
    apply inv_set_cell; [apply L| | | | |].
    - intros E. destruct (Bl _ E) as (_ & _ & X). apply X. reflexivity.
    - intros E. destruct (Bu _ E) as (_ & _ & X). apply X. reflexivity.
    - destruct D as [(Bn & _)|(a & -> & _)]; [left; rewrite Bn; symmetry; exact U|].
      right. split; [exact U|]. exists (O a []). cbn. repeat split; try discriminate.
      intros _. apply nocc_op. intros x [].
    - intros t Ht _. destruct D as [(Bn & _)|(a & -> & _)]; [congruence|].
      cbn in Ht. injection Ht as <-. constructor. constructor.
    - intros _ _. rewrite Ci', <- Ci. apply (sc_cs (proj2 (lw_inv s L) eq_refl)). exact Lw. }
  assert (B' : forall v, bok (cell_of s' v)).
  { intros v. unfold s'. destruct (cell_of_set_cell s w c' v) as [(E & _ & _)|E]; rewrite E; [exact Bk|apply L]. }
  assert (L' : LW s').
  { constructor; [exact I'|exact B'|exact (lw_kw s L)|exact (lw_pi s L)]. }
  split; [|split; [exact L'|split]].
  - constructor.
    + unfold s'. cbn. rewrite upd_length. apply S.
    + exact (st_clen s S).
    + exact (st_cslen s S).
    + intros v. eapply crel_trans; [apply (st_cell s S)|apply C].
    + exact (st_cso s S).
    + exact (st_csi s S).
    + exact (st_rm s S).
    + exact (st_out s S).
    + exact (st_sub s S).
    + exact (st_don s S).
    + intros c l Hc E D Ea. destruct (st_elm s S c l Hc E D Ea) as (F & Ef). split; [exact F|].
      change (constr_of s' c) with (constr_of s c).
      rewrite <- (follow_ext s s' _ I' (crel_bext s s' C)), Ef. apply follow_ext; [exact I'|apply crel_bext; exact C].
    + intros c l m Hc E D Ea Hm N. change (constr_of s' c) with (constr_of s c) in N.
      pose proof (st_keeps s S c l m Hc E D Ea Hm N) as K.
      destruct (kp H s' (rho c) m) eqn:K'; [|reflexivity].
      rewrite (kp_mono s s' (rho c) m (lw_inv s L) I' (lw_bok s L) B' (gd_of_mins c l m Hc E Ea Hm) C K') in K.
      discriminate.
  - intros c w' Hc E D Ef. change (constr_of s' c) with (constr_of s c) in *.
    change (cset_of s' i) with (cset_of s i) in Hc.
    pose proof (follow_var_back s s' _ w' (lw_inv s L) I' C Ef) as Ef0.
    assert (U' : unb s' w').
    { pose proof (@Inv.follow_unbound true s' (k_ref (constr_of s c)) I') as N. rewrite Ef in N. exact N. }
    assert (A' : act s w' -> act s' w').
    { intros (X & _ & Z). split; [unfold s'; cbn; rewrite upd_length; exact X|split; [exact U'|]].
      rewrite (crel_cs _ _ (C w')). exact Z. }
    destruct (Hr c w' Hc E D Ef0) as [Aw|St]; [left; auto|].
    destruct (Nat.eq_dec w' w) as [->|Nw].
    + left. apply A'. repeat split; assumption.
    + right. destruct St as (Dn & En & l & Ea & An & Le & Kp). unfold stlE.
      change (constr_of s' c) with (constr_of s c).
      rewrite En in Ef0.
      assert (U0 : unb s w') by (eapply crel_unb; [apply C|exact U']).
      split; [exact Dn|split; [rewrite Ef0; apply Lub.follow_V_unbound; exact U'|]].
      exists l. repeat split; auto. intros m Hm. rewrite <- (Kp m Hm).
      rewrite Ef0. unfold kp. rewrite (Lub.follow_V_unbound s' w' U'), (Lub.follow_V_unbound s w' U0).
      unfold s'. rewrite cell_of_set_cell_other by exact Nw. reflexivity.
  - intros c Hc E D. change (constr_of s' c) with (constr_of s c) in *.
    pose proof (in_range0 s c S Hc) as Lc.
    pose proof (lw_kw s L c Lc) as Sh. unfold shape in Sh. rewrite E in Sh. destruct Sh as (a & Ea & Ba).
    apply (vd_done_mono s s' _ a (lw_inv s L) I' C Ea Ba). apply Sd; auto.
Qed.


(* ------------------------------------------------------------------ *)
(* updating a constraint record / the constraint set                    *)
(* ------------------------------------------------------------------ *)
Lemma filter_filter2 {A} (p q : A -> bool) l : filter q (filter p l) = filter (fun x => p x && q x) l.
Proof.
  induction l as [|x l IH]; [reflexivity|]. cbn [filter].
  destruct (p x); cbn [filter andb]; [destruct (q x)|]; rewrite IH; reflexivity.
Qed.

Lemma kp_vars s s' r m : vars s = vars s' -> kp H s r m = kp H s' r m.
Proof.
  intros E. unfold kp. rewrite (follow_vars s s' r E).
  destruct (follow s' r); [rewrite (cell_of_vars s s' _ E)|]; reflexivity.
Qed.

Lemma kp_follow s r r' m : follow s r = follow s r' -> kp H s r m = kp H s r' m.
Proof. unfold kp. intros ->. reflexivity. Qed.

Lemma stlE_same s s' c : vars s' = vars s -> constr_of s' c = constr_of s c -> stlE s c -> stlE s' c.
Proof.
  intros Ev Ek (Dn & En & l & Ea & An & Le & Kp). unfold stlE. rewrite Ek.
  split; [exact Dn|split; [rewrite (follow_vars s' s _ Ev); exact En|]].
  exists l. repeat split; auto. intros m Hm. rewrite (kp_vars s' s _ m Ev). auto.
Qed.

Lemma act_same s s' w : vars s' = vars s -> act s w -> act s' w.
Proof. unfold act, unb. intros Ev. rewrite (cell_of_vars s' s w Ev), Ev. auto. Qed.

(* what the alternatives of a pending elimination constraint look like *)
Lemma elm_form s c l0 ls : Step s -> In c (cset_of s0 i) -> k_elim (constr_of s0 c) = true ->
  k_done (constr_of s0 c) = false -> k_alts (constr_of s0 c) = obs l0 ->
  k_alts (constr_of s c) = obs ls ->
  k_strict (constr_of s c) = k_strict (constr_of s0 c) /\ PI H ls /\
  (exists P, mins_of ls = filter P (mins_of l0)) /\
  (forall m, In m (mins_of l0) -> ~ In m (mins_of ls) -> ~ In (ob m) (k_alts (constr_of s c))).
Proof.
  intros S Hc E D Ea Es. destruct (alts0 c Hc E) as (l' & G & Ea' & Pi).
  rewrite Ea in Ea'. apply obs_inj in Ea'. subst l'.
  destruct (st_elm s S c l0 Hc E D Ea) as ([X|(r & P & d & X)] & _).
  - rewrite X, Ea in Es. apply obs_inj in Es. subst ls. rewrite X.
    split; [reflexivity|split; [exact Pi|split]].
    + exists (fun _ => true). symmetry. apply filter_all.
    + intros m Hm N. contradiction.
  - rewrite X in Es. cbn [k_alts] in Es. apply obs_inj in Es. subst ls. rewrite X. cbn [k_strict k_alts].
    split; [reflexivity|split; [|split]].
    + apply anti_PI, anti_filter, (mins_of_PI H l0 Pi).
    + exists P. apply (mins_of_filter_mins H P l0 Pi).
    + intros m Hm N. rewrite (mins_of_filter_mins H P l0 Pi) in N. rewrite In_obs. exact N.
Qed.

Lemma elim_upd_pres s c l0 ls Q d :
  Step s -> Pre s -> In c (cset_of s0 i) -> k_elim (constr_of s0 c) = true ->
  k_done (constr_of s0 c) = false -> k_alts (constr_of s0 c) = obs l0 ->
  k_done (constr_of s c) = false -> k_alts (constr_of s c) = obs ls ->
  (forall m, In m (mins_of ls) -> Q m = false -> kp H s (k_ref (constr_of s c)) m = false) ->
  (d = false -> forall w, follow s (k_ref (constr_of s c)) = V w -> act s w) ->
  let k := constr_of s c in
  let s' := set_constr s c (mkConstr true (follow s (k_ref k)) (obs (filter Q (mins_of ls))) (k_strict k) d) in
  Step s' /\ Pre s'.
Proof.
  intros S (L & Hr & Sd) Hc E D Ea Dn Es HQ HA k s'.
  pose proof (in_range0 s c S Hc) as Lc.
  destruct (elm_form s c l0 ls S Hc E D Ea Es) as (Est & Pis & (P1 & EP1) & Hdrop).
  pose proof (kind_elim s c S Hc E) as Ek.
  pose proof (lw_kw s L c Lc) as Sh. unfold shape in Sh. rewrite Ek, Es in Sh.
  destruct Sh as (l' & Gl & El'). apply obs_inj in El'. subst l'.
  assert (Ev : vars s' = vars s) by reflexivity.
  assert (Csame : forall c', c' <> c -> constr_of s' c' = constr_of s c').
  { intros c' N. unfold s'. destruct (constr_of_set_constr s c (mkConstr true (follow s (k_ref k)) (obs (filter Q (mins_of ls))) (k_strict k) d) c') as [(_ & X & _)|X]; [contradiction|exact X]. }
  assert (Cc : constr_of s' c = mkConstr true (follow s (k_ref k)) (obs (filter Q (mins_of ls))) (k_strict k) d).
  { unfold s'. apply constr_of_set_constr_same. exact Lc. }
  assert (G2 : Forall gd (filter Q (mins_of ls))).
  { apply incl_Forall with (l1 := mins_of ls); [apply incl_filter|apply FL.mins_of_good; exact Gl]. }
  assert (I' : inv s').
  { apply inv_set_constr; [apply L|discriminate|].
    cbn [constr_terms k_ref k_alts]. constructor.
    - apply follow_sct; [apply L|].
      pose proof (@scts_of_constr true s c (lw_inv s L) Lc) as F. inversion F; assumption.
    - rewrite Forall_forall. intros x Hx _. unfold FL.obs in Hx. apply in_map_iff in Hx.
      destruct Hx as (m & <- & _). constructor. constructor. }
  split; [|split; [|split]].
  - constructor.
    + exact (st_len s S).
    + unfold s'. cbn. rewrite upd_length. apply S.
    + exact (st_cslen s S).
    + exact (st_cell s S).
    + exact (st_cso s S).
    + exact (st_csi s S).
    + intros c' Hc' N. destruct (Nat.eq_dec c' c) as [->|Nc].
      * exfalso. pose proof (st_rm s S c Hc N) as X. congruence.
      * rewrite (Csame c' Nc). apply (st_rm s S c' Hc' N).
    + intros c' N. rewrite Csame by (intros ->; contradiction). apply (st_out s S c' N).
    + intros c' E'. rewrite Csame by (intros ->; congruence). apply (st_sub s S c' E').
    + intros c' E' D'. rewrite Csame by (intros ->; congruence). apply (st_don s S c' E' D').
    + intros c' l Hc' E' D' Ea'. destruct (Nat.eq_dec c' c) as [->|Nc].
      * rewrite Ea in Ea'. apply obs_inj in Ea'. subst l. rewrite Cc. cbn [k_ref]. split.
        -- right. exists (follow s (k_ref k)), (fun x => P1 x && Q x), d.
           rewrite EP1, filter_filter2. unfold k. rewrite Est. reflexivity.
        -- rewrite !(follow_vars s' s _ Ev). rewrite follow_idem by apply L.
           apply (proj2 (st_elm s S c l0 Hc E D Ea)).
      * rewrite (Csame c' Nc). destruct (st_elm s S c' l Hc' E' D' Ea') as (F & Ef). split; [exact F|].
        rewrite !(follow_vars s' s _ Ev). exact Ef.
    + intros c' l m Hc' E' D' Ea' Hm N. rewrite <- (kp_vars s s' _ m (eq_sym Ev)).
      destruct (Nat.eq_dec c' c) as [->|Nc].
      * rewrite Ea in Ea'. apply obs_inj in Ea'. subst l. rewrite Cc in N. cbn [k_alts] in N. rewrite In_obs in N.
        destruct (in_dec Nat.eq_dec m (mins_of ls)) as [Hin|Hout].
        -- assert (Qm : Q m = false).
           { destruct (Q m) eqn:Qm; [|reflexivity]. exfalso. apply N. apply filter_In. auto. }
           rewrite <- (HQ m Hin Qm). apply kp_follow. symmetry. apply (proj2 (st_elm s S c l0 Hc E D Ea)).
        -- apply (st_keeps s S c l0 m Hc E D Ea Hm). apply Hdrop; auto.
      * rewrite (Csame c' Nc) in N. apply (st_keeps s S c' l m Hc' E' D' Ea' Hm N).
  - constructor; [exact I'|exact (lw_bok s L)| |].
    + intros c' Lc'. unfold s' in Lc'. cbn in Lc'. rewrite upd_length in Lc'.
      destruct (Nat.eq_dec c' c) as [->|Nc]; [|rewrite (Csame c' Nc); apply (lw_kw s L c' Lc')].
      rewrite Cc. unfold shape. cbn [k_elim k_alts]. eauto.
    + intros c' l Lc' E' Ea'. unfold s' in Lc'. cbn in Lc'. rewrite upd_length in Lc'.
      destruct (Nat.eq_dec c' c) as [->|Nc]; [|rewrite (Csame c' Nc) in *; apply (lw_pi s L c' l Lc' E' Ea')].
      rewrite Cc in Ea'. cbn [k_alts] in Ea'. apply obs_inj in Ea'. subst l.
      apply anti_PI, anti_filter, (mins_of_PI H ls Pis).
  - intros c' w Hc' E' D' Ef. change (cset_of s' i) with (cset_of s i) in Hc'.
    rewrite (follow_vars s' s _ Ev) in Ef.
    destruct (Nat.eq_dec c' c) as [->|Nc].
    + rewrite Cc in D', Ef. cbn [k_done k_ref] in D', Ef. left. apply (act_same s s' w Ev).
      apply (HA D' w). rewrite <- Ef. symmetry. apply follow_idem. apply L.
    + rewrite (Csame c' Nc) in E', D', Ef.
      destruct (Hr c' w Hc' E' D' Ef) as [A|St]; [left; apply (act_same s s' w Ev A)|right].
      apply (stlE_same s s' c' Ev (Csame c' Nc) St).
  - intros c' Hc' E' D'. destruct (Nat.eq_dec c' c) as [->|Nc]; [rewrite Cc in E'; discriminate|].
    rewrite (Csame c' Nc) in *.
    rewrite (pfc_vars H 4 s' s (constr_of s c') (constr_of s c') Ev); auto.
Qed.


Lemma sub_mark_pres s c : Step s -> Pre s -> In c (cset_of s0 i) -> k_elim (constr_of s0 c) = false ->
  vd s (constr_of s c) = PDone -> Step (markd c s) /\ Pre (markd c s).
Proof.
  intros S (L & Hr & Sd) Hc E Vd.
  pose proof (in_range0 s c S Hc) as Lc. pose proof (kind_sub s c S E) as Ek.
  set (s' := markd c s).
  assert (Ev : vars s' = vars s) by reflexivity.
  assert (Csame : forall c', c' <> c -> constr_of s' c' = constr_of s c').
  { intros c' N. destruct (constr_of_markd c s c') as [X|(X & _)]; [exact X|contradiction]. }
  assert (Cc : constr_of s' c = done_of (constr_of s c)).
  { unfold s', markd. apply constr_of_set_constr_same. exact Lc. }
  pose proof (lw_kw s L c Lc) as Sh. unfold shape in Sh. rewrite Ek in Sh. destruct Sh as (a & Ea & Ba).
  assert (I' : inv s').
  { unfold s', markd. apply inv_set_constr; [apply L|cbn; rewrite Ea; reflexivity|].
    apply (@scts_of_constr true s c (lw_inv s L) Lc). }
  split; [|split; [|split]].
  - constructor.
    + exact (st_len s S).
    + unfold s', markd. cbn. rewrite upd_length. apply S.
    + exact (st_cslen s S).
    + exact (st_cell s S).
    + exact (st_cso s S).
    + exact (st_csi s S).
    + intros c' Hc' N. destruct (Nat.eq_dec c' c) as [->|Nc]; [rewrite Cc; reflexivity|].
      rewrite (Csame c' Nc). apply (st_rm s S c' Hc' N).
    + intros c' N. rewrite Csame by (intros ->; contradiction). apply (st_out s S c' N).
    + intros c' E'. destruct (Nat.eq_dec c' c) as [->|Nc]; [|rewrite (Csame c' Nc); apply (st_sub s S c' E')].
      right. rewrite Cc. destruct (st_sub s S c E) as [X|X]; rewrite X; reflexivity.
    + intros c' E' D'. rewrite Csame by (intros ->; congruence). apply (st_don s S c' E' D').
    + intros c' l Hc' E' D' Ea'. rewrite Csame by (intros ->; congruence).
      destruct (st_elm s S c' l Hc' E' D' Ea') as (F & Ef). split; [exact F|].
      rewrite !(follow_vars s' s _ Ev). exact Ef.
    + intros c' l m Hc' E' D' Ea' Hm N. rewrite Csame in N by (intros ->; congruence).
      rewrite <- (kp_vars s s' _ m (eq_sym Ev)). apply (st_keeps s S c' l m Hc' E' D' Ea' Hm N).
  - constructor; [exact I'|exact (lw_bok s L)| |].
    + intros c' Lc'. unfold s', markd in Lc'. cbn in Lc'. rewrite upd_length in Lc'.
      destruct (Nat.eq_dec c' c) as [->|Nc]; [|rewrite (Csame c' Nc); apply (lw_kw s L c' Lc')].
      rewrite Cc. unfold shape. cbn [done_of k_elim k_alts]. eauto.
    + intros c' l Lc' E' Ea'. unfold s', markd in Lc'. cbn in Lc'. rewrite upd_length in Lc'.
      destruct (Nat.eq_dec c' c) as [->|Nc]; [rewrite Cc in E'; discriminate|].
      rewrite (Csame c' Nc) in *. apply (lw_pi s L c' l Lc' E' Ea').
  - intros c' w Hc' E' D' Ef. change (cset_of s' i) with (cset_of s i) in Hc'.
    rewrite (follow_vars s' s _ Ev) in Ef.
    destruct (Nat.eq_dec c' c) as [->|Nc]; [rewrite Cc in E'; discriminate|].
    rewrite (Csame c' Nc) in E', D', Ef.
    destruct (Hr c' w Hc' E' D' Ef) as [A|St]; [left; apply (act_same s s' w Ev A)|right].
    apply (stlE_same s s' c' Ev (Csame c' Nc) St).
  - intros c' Hc' E' D'. destruct (Nat.eq_dec c' c) as [->|Nc].
    + rewrite Cc. rewrite (pfc_vars H 4 s' s (done_of (constr_of s c)) (constr_of s c) Ev); auto.
    + rewrite (Csame c' Nc) in *.
      rewrite (pfc_vars H 4 s' s (constr_of s c') (constr_of s c') Ev); auto.
Qed.

(* stores with the same cells and records *)
Definition sameVC (s s' : store) : Prop := vars s' = vars s /\ constrs s' = constrs s.

Lemma constr_of_same s s' c : constrs s' = constrs s -> constr_of s' c = constr_of s c.
Proof. unfold constr_of. intros ->. reflexivity. Qed.

Lemma settled_same s s' c : sameVC s s' -> settled s c -> settled s' c.
Proof.
  intros (Ev & Ek). unfold settled, stlS. rewrite (constr_of_same s s' c Ek).
  destruct (k_elim (constr_of s c)).
  - apply stlE_same; [exact Ev|apply constr_of_same; exact Ek].
  - rewrite (pfc_vars H 4 s' s (constr_of s c) (constr_of s c) Ev); auto.
Qed.

(* removing a fulfilled constraint from the set; replacing the schedule *)
Lemma cset_pres s s' P : Step s -> Pre s -> sameVC s s' ->
  (forall j, j <> i -> cset_of s' j = cset_of s j) ->
  cset_of s' i = filter P (cset_of s i) ->
  (forall c, In c (cset_of s i) -> P c = false -> k_done (constr_of s c) = true) ->
  inv s' -> length (csets s') = length (csets s) -> Step s' /\ Pre s'.
Proof.
  intros S (L & Hr & Sd) (Ev & Ek) Co Ci Hd I' Ecl.
  assert (Ec : forall c, constr_of s' c = constr_of s c) by (intros c; apply constr_of_same; exact Ek).
  split; [|split; [|split]].
  - constructor.
    + rewrite Ev. apply S.
    + rewrite Ek. apply S.
    + rewrite Ecl. apply S.
    + intros w. rewrite (cell_of_vars s' s w Ev). apply S.
    + intros j Nj. rewrite (Co j Nj). apply (st_cso s S j Nj).
    + destruct (st_csi s S) as (P1 & E1). exists (fun x => P1 x && P x). rewrite Ci, E1. apply filter_filter2.
    + intros c Hc N. rewrite Ec. destruct (in_dec Nat.eq_dec c (cset_of s i)) as [Hin|Hout].
      * apply Hd; [exact Hin|]. destruct (P c) eqn:Pc; [|reflexivity]. exfalso. apply N. rewrite Ci. apply filter_In. auto.
      * apply (st_rm s S c Hc Hout).
    + intros c N. rewrite Ec. apply (st_out s S c N).
    + intros c E. rewrite Ec. apply (st_sub s S c E).
    + intros c E D. rewrite Ec. apply (st_don s S c E D).
    + intros c l Hc E D Ea. rewrite Ec. destruct (st_elm s S c l Hc E D Ea) as (F & Ef). split; [exact F|].
      rewrite !(follow_vars s' s _ Ev). exact Ef.
    + intros c l m Hc E D Ea Hm N. rewrite Ec in N. rewrite (kp_vars s' s _ m Ev).
      apply (st_keeps s S c l m Hc E D Ea Hm N).
  - constructor; [exact I'| | |].
    + intros v. rewrite (cell_of_vars s' s v Ev). apply L.
    + intros c Lc. rewrite Ec. apply (lw_kw s L). rewrite <- Ek. exact Lc.
    + intros c l Lc. rewrite Ec. apply (lw_pi s L). rewrite <- Ek. exact Lc.
  - intros c w Hc E D Ef. rewrite Ci in Hc. apply filter_In in Hc. destruct Hc as (Hc & _).
    rewrite Ec in E, D, Ef. rewrite (follow_vars s' s _ Ev) in Ef.
    destruct (Hr c w Hc E D Ef) as [A|St]; [left; apply (act_same s s' w Ev A)|right].
    apply (stlE_same s s' c Ev (Ec c) St).
  - intros c Hc E D. rewrite Ec in *. rewrite (pfc_vars H 4 s' s (constr_of s c) (constr_of s c) Ev); auto.
Qed.

Lemma T2_sameVC s s1 s2 : sameVC s1 s2 -> T2 s s1 -> T2 s s2.
Proof.
  intros (Ev & Ek) T.
  assert (Ec : forall c, constr_of s2 c = constr_of s1 c) by (intros c; apply constr_of_same; exact Ek).
  constructor.
  - intros w. rewrite (cell_of_vars s2 s1 w Ev). apply T.
  - intros w a. unfold unb. rewrite (cell_of_vars s2 s1 w Ev). apply (t2_ne _ _ T).
  - intros c. rewrite Ec. apply T.
  - intros c. rewrite Ec. apply T.
  - intros c Hc E D1 D2. rewrite Ec in *. destruct (t2_dcl _ _ T c Hc E D1 D2) as (m & Ea & Dc).
    exists m. split; [exact Ea|]. destruct (rho c) as [w|o xs]; [|exact Dc].
    unfold dcl, dclv, unb in *. rewrite (cell_of_vars s2 s1 w Ev). exact Dc.
Qed.

Lemma T2_sameVC_l s1 s2 s : sameVC s1 s2 -> T2 s2 s -> T2 s1 s.
Proof.
  intros (Ev & Ek) T.
  assert (Ec : forall c, constr_of s2 c = constr_of s1 c) by (intros c; apply constr_of_same; exact Ek).
  constructor.
  - intros w. rewrite <- (cell_of_vars s2 s1 w Ev). apply T.
  - intros w a. rewrite <- (cell_of_vars s2 s1 w Ev). apply (t2_ne _ _ T).
  - intros c. rewrite <- Ec. apply T.
  - intros c. rewrite <- Ec. apply T.
  - intros c Hc E. rewrite <- Ec. apply (t2_dcl _ _ T c Hc E).
Qed.

(* a record update that fulfils nothing *)
Lemma T2_constr s s' : vars s' = vars s ->
  (forall c, k_done (constr_of s c) = true -> constr_of s' c = constr_of s c) ->
  (forall c, k_done (constr_of s' c) = true -> k_done (constr_of s c) = true) ->
  T2 s s'.
Proof.
  intros Ev Hf Hd. constructor.
  - intros w. rewrite (cell_of_vars s' s w Ev). apply crel_refl.
  - intros w a _ _. rewrite (cell_of_vars s' s w Ev). auto.
  - intros c D. rewrite (Hf c D). exact D.
  - intros c _ D. apply Hf. exact D.
  - intros c _ _ D1 D2. rewrite (Hd c D2) in D1. discriminate.
Qed.


Lemma set_cell_twice s v c1 c2 : set_cell (set_cell s v c1) v c2 = set_cell s v c2.
Proof. cbn. f_equal. apply si_upd_upd. Qed.

Lemma wp_ret_bind {A B} (a : A) (k : A -> M B) s (Q : B -> store -> Prop) E :
  wp (k a) s Q E -> wp (bindM (ret a) k) s Q E.
Proof. intros T. exact T. Qed.

Lemma T2_prefix s s1 s' w : constrs s1 = constrs s ->
  (forall w', w' <> w -> cell_of s1 w' = cell_of s w') ->
  crel (cell_of s w) (cell_of s1 w) -> T2 s1 s' ->
  (forall a, unb s' w -> c_lower (cell_of s' w) = Some a -> c_upper (cell_of s' w) = Some a ->
             c_upper (cell_of s w) = Some a) ->
  T2 s s'.
Proof.
  intros Ek Eo Cw T Ne.
  assert (Ec : forall c, constr_of s1 c = constr_of s c) by (intros c; apply constr_of_same; exact Ek).
  constructor.
  - intros w'. destruct (Nat.eq_dec w' w) as [->|N].
    + eapply crel_trans; [exact Cw|apply T].
    + rewrite <- (Eo w' N). apply T.
  - intros w' a U L Up. destruct (Nat.eq_dec w' w) as [->|N]; [apply Ne; auto|].
    rewrite <- (Eo w' N). apply (t2_ne _ _ T w' a U L Up).
  - intros c. rewrite <- Ec. apply T.
  - intros c. rewrite <- Ec. apply T.
  - intros c Hc E. rewrite <- Ec. apply (t2_dcl _ _ T c Hc E).
Qed.

(* ================================================================== *)
(* the specifications, relative to the end [t] of another run           *)
(* ================================================================== *)
Section D.
Variable t : store.
Definition FinT : Prop := Step t /\ Pre t /\ T2 s0 t /\ Stl t.
(* t is the end of a run whenever some state of the round dominates it *)
Hypothesis FH : forall s, Step s -> Dom s t -> FinT.

Definition G (s s' : store) : Prop := Step s' /\ Pre s' /\ T2 s s'.
Definition efuel (P : Prop) (e : err) : Prop := e = EFuel \/ ~ P.

Definition ceqw (c c' : cell) : Prop :=
  c_bound c' = c_bound c /\ c_lower c' = c_lower c /\ c_upper c' = c_upper c /\ c_cs c' = c_cs c.

Definition QuietB (s s' : store) : Prop :=
  (forall w, ceqw (cell_of s w) (cell_of s' w)) /\ constrs s' = constrs s /\ csets s' = csets s /\
  len s' = len s.

Definition SP_cc f := forall v s, Step s -> Pre s -> c_cs (cell_of s v) = i ->
  wp (check_constraints H f v) s
     (fun _ s' => G s s' /\ Stl s' /\ (Dom s t -> Dom s' t)) (efuel (Dom s t)).

Definition SP_bindb f := forall w a s, Step s -> Pre s -> act s w ->
  c_lower (cell_of s w) = Some a -> c_upper (cell_of s w) = Some a ->
  wp (bind H f w (O a [])) s
     (fun _ s' => G s s' /\ Stl s' /\ ~ unb s' w /\ (Dom s t -> ~ unb t w -> Dom s' t))
     (efuel (Dom s t /\ ~ unb t w)).

Definition SP_below f := forall w m s, Step s -> Pre s -> act s w -> gd m ->
  kpc H (cell_of s w) m = true ->
  wp (below H f w m) s
     (fun _ s' => G s s' /\ dclv s' w m /\ (QuietB s s' \/ Stl s') /\
                  (Dom s t -> dclv t w m -> Dom s' t))
     (efuel (Dom s t /\ dclv t w m)).

Lemma bok_basic c a : bok c -> c_lower c = Some a -> variance H a = [] /\ a <> Bottom /\ a <> Top.
Proof. intros (Bl & _) E. apply Bl. exact E. Qed.

Lemma bindb_step f : SP_cc f -> SP_bindb (S f).
Proof.
  intros CC w a s S P A El Eu. pose proof A as (Lw & U & Ci). pose proof P as (L & _).
  destruct (bok_basic _ a (lw_bok s L w) El) as (Va & NBa & NTa).
  assert (Ba : basic H a = true) by (unfold basic, arity; rewrite Va; reflexivity).
  rewrite Inv.bind_S. apply wp_gets. unfold unb in U. rewrite U.
  unfold set_wild at 1. apply wp_upd_cell. unfold set_bound at 1. apply wp_upd_cell.
  rewrite set_cell_twice. rewrite cell_of_set_cell_same by exact Lw. cbn [c_wild c_lower c_upper c_cs].
  rewrite El, Eu, Ci. fold (bcell a). rewrite Ba.
  rewrite (Lub.osubT_irrefl H W a NTa NBa). apply wp_ret_bind.
  set (sb := set_cell s w (bcell a)).
  assert (R : ref (cell_of s w) (bcell a)).
  { split; [reflexivity|split; [symmetry; exact El|split; [discriminate|]]].
    right. exists a. split; [reflexivity|split; [exact El|]]. intros u Hu. rewrite Eu in Hu. injection Hu as <-. apply Lub.ole_refl. }
  assert (Bk : bok (bcell a)).
  { pose proof (lw_bok s L w) as (B1 & B2 & B3). split; [|split]; cbn.
    - intros l [= <-]. apply (B1 a El).
    - intros u [= <-]. apply (B2 a Eu).
    - intros l u [= <-] [= <-]. apply Lub.ole_refl. }
  destruct (cell_upd_pres s w (bcell a) S P A R Bk) as (Sb & Pb). fold sb in Sb, Pb.
  assert (Cb : cell_of sb w = bcell a) by (apply cell_of_set_cell_same; exact Lw).
  eapply wp_conseq; [apply (CC w sb Sb Pb); rewrite Cb; reflexivity| |].
  - intros _ s' ((S' & P' & T') & St & Dm).
    assert (Bw : cell_of s' w = bcell a).
    { rewrite <- Cb. apply (crel_bound _ _ (O a []) (t2_cell _ _ T' w)). rewrite Cb. reflexivity. }
    split; [split; [exact S'|split; [exact P'|]]|split; [exact St|split]].
    + apply (T2_prefix s sb s' w); [reflexivity| |rewrite Cb; right; auto|exact T'|].
      * intros w' N. apply cell_of_set_cell_other. exact N.
      * intros x Ux. unfold unb in Ux. rewrite Bw in Ux. discriminate.
    + unfold unb. rewrite Bw. discriminate.
    + intros D Nt. apply Dm. intros w'. destruct (Nat.eq_dec w' w) as [->|N].
      * rewrite Cb. left. destruct (D w) as [Et|(_ & _ & (_ & Lt & _ & Dd))].
        -- exfalso. apply Nt. unfold unb. rewrite Et. exact U.
        -- destruct Dd as [(Bn & _)|(a' & Et & La' & _)]; [contradiction|].
           rewrite Et. rewrite El in La'. injection La' as <-. reflexivity.
      * unfold sb. rewrite cell_of_set_cell_other by exact N. apply D.
  - intros e [->|Ne]; [left; reflexivity|right]. intros (D & Nt). apply Ne.
    intros w'. destruct (Nat.eq_dec w' w) as [->|N].
    + rewrite Cb. left. destruct (D w) as [Et|(_ & _ & (_ & Lt & _ & Dd))].
      * exfalso. apply Nt. unfold unb. rewrite Et. exact U.
      * destruct Dd as [(Bn & _)|(a' & Et & La' & _)]; [contradiction|].
        rewrite Et. rewrite El in La'. injection La' as <-. reflexivity.
    + unfold sb. rewrite cell_of_set_cell_other by exact N. apply D.
Qed.


(* ---- below on an active variable ---- *)
Definition btail (f w : nat) : M unit :=
  c' <- gets (fun s => cell_of s w) ;;
  match c_bound c', c_upper c', c_lower c' with
  | None, Some u, Some l => if Nat.eqb u l then bind H f w (O u []) else ret tt
  | _, _, _ => ret tt
  end.

Definition bset (f w m : nat) : M unit := set_upper w (Some m) ;;; check_constraints H f w.

Lemma below_eq f v new :
  below H (S f) v new =
  if Nat.eqb new Bottom then bind H f v (O Bottom [])
  else
    set_wild v false ;;;
    c <- gets (fun s => cell_of s v) ;;
    match c_bound c with
    | Some t => unify H f true false false t (O new [])
    | None =>
        (match c_lower c, c_upper c with
         | Some l, _ =>
             if osub H true new l then fail ESubtypeMismatch
             else if negb (osub H false l new) then fail ESubtypeMismatch
             else match c_upper c with
                  | Some u =>
                      if osub H true u new then ret tt
                      else if osub H false new u then bset f v new
                      else fail ESubtypeMismatch
                  | None => bset f v new
                  end
         | None, Some u =>
             if osub H true u new then ret tt
             else if osub H false new u then bset f v new
             else fail ESubtypeMismatch
         | None, None => bset f v new
         end) ;;; btail f v
    end.
Proof. reflexivity. Qed.

Definition neq_lu (s : store) (w : nat) : Prop :=
  forall a, c_lower (cell_of s w) = Some a -> c_upper (cell_of s w) = Some a -> False.

Lemma btail_spec f w s : SP_bindb f -> Step s -> Pre s -> w < len s -> c_cs (cell_of s w) = i ->
  wp (btail f w) s
     (fun _ s' => G s s' /\ (unb s' w -> neq_lu s' w) /\ (s' = s \/ Stl s') /\
                  (Dom s t -> (unb t w -> neq_lu t w) -> Dom s' t))
     (efuel (Dom s t /\ (unb t w -> neq_lu t w))).
Proof.
  intros BB S P Lw Ci. unfold btail. apply wp_gets.
  assert (Triv : forall (X : Prop), (unb s w -> neq_lu s w) ->
     G s s /\ (unb s w -> neq_lu s w) /\ (s = s \/ Stl s) /\ (Dom s t -> X -> Dom s t)).
  { intros X Hn. split; [split; [exact S|split; [exact P|apply T2_refl]]|]. auto. }
  destruct (c_bound (cell_of s w)) as [b|] eqn:Hb.
  { apply wp_ret. apply Triv. intros Ux. unfold unb in Ux. congruence. }
  destruct (c_upper (cell_of s w)) as [u|] eqn:Hu.
  2:{ apply wp_ret. apply Triv. intros _ a _ X. rewrite Hu in X. discriminate. }
  destruct (c_lower (cell_of s w)) as [l|] eqn:Hl.
  2:{ apply wp_ret. apply Triv. intros _ a X. rewrite Hl in X. discriminate. }
  destruct (u =? l) eqn:Eul.
  2:{ apply wp_ret. apply Triv. intros _ a X Y. rewrite Hl in X. rewrite Hu in Y.
      apply Nat.eqb_neq in Eul. congruence. }
  apply Nat.eqb_eq in Eul. subst l.
  eapply wp_conseq; [apply (BB w u s S P); [repeat split; auto|exact Hl|exact Hu]| |].
  - intros _ s' (Gs & St & Nb & Dm). split; [exact Gs|split; [intros X; contradiction|split; [right; exact St|]]].
    intros D Nt. apply Dm; [exact D|].
    intros Ut. destruct (D w) as [Et|(_ & _ & (_ & Lt & _ & Dd))].
    + apply (Nt Ut u); rewrite Et; assumption.
    + destruct Dd as [(_ & Uu)|(a' & Et & _)]; [|unfold unb in Ut; rewrite Et in Ut; discriminate].
      destruct (Uu u Hu) as (u' & Hu' & Le').
      destruct (FH s S D) as (_ & (Lt' & _) & _). destruct (lw_bok t Lt' w) as (_ & _ & B3).
      assert (u' = u).
      { apply (Lub.ole_antisym H W); [exact Le'|]. apply B3; [rewrite Lt; exact Hl|exact Hu']. }
      subst u'. apply (Nt Ut u); [rewrite Lt; exact Hl|exact Hu'].
  - intros e [->|Ne]; [left; reflexivity|right]. intros (D & Nt). apply Ne. split; [exact D|].
    intros Ut. destruct (D w) as [Et|(_ & _ & (_ & Lt & _ & Dd))].
    + apply (Nt Ut u); rewrite Et; assumption.
    + destruct Dd as [(_ & Uu)|(a' & Et & _)]; [|unfold unb in Ut; rewrite Et in Ut; discriminate].
      destruct (Uu u Hu) as (u' & Hu' & Le').
      destruct (FH s S D) as (_ & (Lt' & _) & _). destruct (lw_bok t Lt' w) as (_ & _ & B3).
      assert (u' = u).
      { apply (Lub.ole_antisym H W); [exact Le'|]. apply B3; [rewrite Lt; exact Hl|exact Hu']. }
      subst u'. apply (Nt Ut u); [rewrite Lt; exact Hl|exact Hu'].
Qed.


Definition cwf (c : cell) : cell := mkCell false (c_bound c) (c_lower c) (c_upper c) (c_cs c).
Definition cup (c : cell) (m : nat) : cell := mkCell (c_wild c) (c_bound c) (c_lower c) (Some m) (c_cs c).

Lemma crel_wild c ct : crel c ct -> c_wild ct = false -> crel (cwf c) ct.
Proof.
  intros [->|(N & Ci & (Ci' & L & Wd & D))] Wf.
  - left. destruct c; cbn in *; subst; reflexivity.
  - right. split; [exact N|split; [exact Ci|]]. split; [exact Ci'|split; [exact L|split; [congruence|exact D]]].
Qed.

Lemma crel_upper c ct m : crel c ct -> c_bound c = None -> c_cs c = i ->
  (forall u, c_upper c = Some u -> ole m u) ->
  (c_bound ct = None -> exists u, c_upper ct = Some u /\ ole u m) ->
  (forall b, c_bound ct = Some b -> exists o, b = O o [] /\ ole o m) ->
  crel (cup c m) ct.
Proof.
  intros R N Ci Hm Hu Hb. destruct R as [->|(_ & _ & (Ci' & L & Wd & D))].
  - left. destruct (Hu N) as (u & Eu & Le).
    assert (u = m) by (apply (Lub.ole_antisym H W); [exact Le|apply Hm; exact Eu]). subst u.
    destruct c; cbn in *; subst; reflexivity.
  - right. split; [exact N|split; [exact Ci|]]. split; [exact Ci'|split; [exact L|split; [exact Wd|]]].
    destruct D as [(Bn & _)|(a & Ec & La & _)].
    + left. split; [exact Bn|]. intros u [= <-]. apply Hu. exact Bn.
    + right. exists a. split; [exact Ec|split; [exact La|]]. intros u [= <-].
      destruct (Hb (O a [])) as (o & Eo & Le); [rewrite Ec; reflexivity|]. injection Eo as <-. exact Le.
Qed.

Lemma dclv_from s1 s' w m u0 : unb s1 w -> c_wild (cell_of s1 w) = false ->
  c_upper (cell_of s1 w) = Some u0 -> ole u0 m -> crel (cell_of s1 w) (cell_of s' w) ->
  (unb s' w -> neq_lu s' w) -> dclv s' w m.
Proof.
  intros U Wf Hu Le R Ne. destruct R as [Ec|(_ & _ & (_ & L & Wd & D))].
  - split; [rewrite Ec; exact Wf|split].
    + intros U'. exists u0. rewrite Ec. split; [exact Hu|split; [exact Le|]].
      intros X. apply (Ne U' u0); rewrite Ec; assumption.
    + intros b Hb. rewrite Ec in Hb. unfold unb in U. congruence.
  - split; [|split].
    + destruct (c_wild (cell_of s' w)); [|reflexivity]. rewrite Wd in Wf by reflexivity. discriminate.
    + intros U'. destruct D as [(_ & Uu)|(a & Ec & _)]; [|unfold unb in U'; rewrite Ec in U'; discriminate].
      destruct (Uu u0 Hu) as (u' & Hu' & Le'). exists u'. split; [exact Hu'|split].
      * apply (SchedIndepElimA.ole_trans H W u' u0 m); auto.
      * intros X. apply (Ne U' u'); assumption.
    + intros b Hb. destruct D as [(Bn & _)|(a & Ec & La & Ua)]; [congruence|].
      rewrite Ec in Hb. cbn in Hb. injection Hb as <-. exists a. split; [reflexivity|].
      apply (SchedIndepElimA.ole_trans H W a u0 m); auto.
Qed.

Lemma dclv_neq s w m : dclv s w m -> unb s w -> neq_lu s w.
Proof.
  intros (_ & Uu & _) U a La Ua. destruct (Uu U) as (u & Hu & _ & Ne). rewrite Ua in Hu. injection Hu as <-.
  apply Ne. exact La.
Qed.

Lemma below_step f : SP_cc f -> SP_bindb f -> SP_below (S f).
Proof.
  intros CC BB w m s S P A Gm Kp. pose proof A as (Lw & U & Ci). pose proof P as (L & _).
  pose proof Gm as (Vm & NTm & NBm). unfold unb in U.
  rewrite below_eq. rewrite (proj2 (Nat.eqb_neq m Bottom) NBm).
  unfold set_wild at 1. apply wp_upd_cell. fold (cwf (cell_of s w)).
  set (sa := set_cell s w (cwf (cell_of s w))).
  assert (Ca : cell_of sa w = cwf (cell_of s w)) by (apply cell_of_set_cell_same; exact Lw).
  assert (Oa : forall w', w' <> w -> cell_of sa w' = cell_of s w').
  { intros w' N. apply cell_of_set_cell_other. exact N. }
  assert (Ra : ref (cell_of s w) (cwf (cell_of s w))).
  { split; [exact Ci|split; [reflexivity|split; [discriminate|]]]. left. split; [exact U|].
    intros u Hu. exists u. split; [exact Hu|apply Lub.ole_refl]. }
  assert (Bka : bok (cwf (cell_of s w))) by apply (lw_bok s L w).
  destruct (cell_upd_pres s w _ S P A Ra Bka) as (Sa & Pa). fold sa in Sa, Pa.
  assert (Aa : act sa w).
  { split; [unfold sa; cbn; rewrite upd_length; exact Lw|split; [unfold unb; rewrite Ca; exact U|rewrite Ca; exact Ci]]. }
  assert (Cra : crel (cell_of s w) (cell_of sa w)) by (rewrite Ca; right; auto).
  assert (Doma : Dom s t -> dclv t w m -> Dom sa t).
  { intros D (Wt & _). intros w'. destruct (Nat.eq_dec w' w) as [->|N].
    - rewrite Ca. apply crel_wild; [apply D|exact Wt].
    - rewrite (Oa w' N). apply D. }
  apply wp_gets. rewrite Ca. cbn [cwf c_bound c_lower c_upper]. rewrite U.
  (* the two possible middle parts *)
  assert (NOP : forall u, c_upper (cell_of s w) = Some u -> osub H true u m = true ->
    wp (ret tt ;;; btail f w) sa
      (fun _ s' => G s s' /\ dclv s' w m /\ (QuietB s s' \/ Stl s') /\ (Dom s t -> dclv t w m -> Dom s' t))
      (efuel (Dom s t /\ dclv t w m))).
  { intros u Hu Lt. apply wp_ret_bind.
    eapply wp_conseq; [apply (btail_spec f w sa BB Sa Pa); [apply Aa|apply Aa]| |].
    - intros _ s' ((S' & P' & T') & Ne & Q & Dm). split; [split; [exact S'|split; [exact P'|]]|split; [|split]].
      + apply (T2_prefix s sa s' w); [reflexivity|exact Oa|exact Cra|exact T'|].
        intros a Ux La Ua. exfalso. apply (Ne Ux a La Ua).
      + apply (dclv_from sa s' w m u); [apply Aa|rewrite Ca; reflexivity|rewrite Ca; exact Hu| |apply T'|exact Ne].
        apply (Sound.osubT_true_ole H W). exact Lt.
      + destruct Q as [->|St]; [left|right; exact St].
        split; [|split; [reflexivity|split; [reflexivity|unfold sa; cbn; apply upd_length]]].
        intros w'. destruct (Nat.eq_dec w' w) as [->|N]; [rewrite Ca|rewrite (Oa w' N)]; repeat split.
      + intros D Dt. apply Dm; [apply Doma; assumption|]. intros Ut. apply (dclv_neq t w m Dt Ut).
    - intros e [->|Ne]; [left; reflexivity|right]. intros (D & Dt). apply Ne.
      split; [apply Doma; assumption|]. intros Ut. apply (dclv_neq t w m Dt Ut). }
  assert (SET : (forall u, c_upper (cell_of s w) = Some u -> ole m u) ->
    wp (bset f w m ;;; btail f w) sa
      (fun _ s' => G s s' /\ dclv s' w m /\ (QuietB s s' \/ Stl s') /\ (Dom s t -> dclv t w m -> Dom s' t))
      (efuel (Dom s t /\ dclv t w m))).
  { intros Hm. unfold bset. unfold set_upper at 1.
    set (c1 := cup (cwf (cell_of s w)) m).
    set (s1 := set_cell sa w c1).
    assert (R1 : ref (cell_of sa w) c1).
    { rewrite Ca. split; [exact Ci|split; [reflexivity|split; [discriminate|]]]. left. split; [exact U|].
      intros u Hu. exists m. split; [reflexivity|apply Hm; exact Hu]. }
    assert (Bk1 : bok c1).
    { destruct Bka as (B1 & B2 & B3). split; [exact B1|split].
      - intros u [= <-]. auto.
      - intros l u Hl [= <-]. unfold kpc in Kp. cbn in Hl. rewrite Hl in Kp.
        apply andb_true_iff in Kp. apply (osubF_ole H W). apply Kp. }
    destruct (cell_upd_pres sa w c1 Sa Pa Aa R1 Bk1) as (S1 & P1). fold s1 in S1, P1.
    assert (C1 : cell_of s1 w = c1) by (apply cell_of_set_cell_same; apply Aa).
    assert (O1 : forall w', w' <> w -> cell_of s1 w' = cell_of s w').
    { intros w' N. unfold s1. rewrite cell_of_set_cell_other by exact N. apply Oa. exact N. }
    assert (Cr1 : crel (cell_of s w) (cell_of s1 w)).
    { eapply crel_trans; [exact Cra|]. rewrite C1. right. split; [apply Aa|split; [apply Aa|exact R1]]. }
    assert (Dom1 : Dom s t -> dclv t w m -> Dom s1 t).
    { intros D Dt. pose proof (Doma D Dt) as Da. destruct Dt as (Wt & Ut & Bt).
      intros w'. destruct (Nat.eq_dec w' w) as [->|N]; [|rewrite (O1 w' N); apply D].
      rewrite C1. unfold c1. apply crel_upper; [rewrite <- Ca; apply Da|exact U|exact Ci|exact Hm| |exact Bt].
      intros Bn. destruct (Ut Bn) as (u & Hu & Le & _). eauto. }
    apply wp_bind with (Q1 := fun _ s2 => G s1 s2 /\ Stl s2 /\ (Dom s1 t -> Dom s2 t)).
    - unfold upd_cell. apply wp_modify. rewrite Ca. change (set_cell sa w _) with s1.
      eapply wp_conseq; [apply (CC w s1 S1 P1); rewrite C1; exact Ci|auto|].
      intros e [->|Ne]; [left; reflexivity|right]. intros (D & Dt). apply Ne. apply Dom1; assumption.
    - intros _ s2 ((S2 & P2 & T12) & St2 & Dm2).
      assert (Lw2 : w < len s2) by (rewrite (st_len s2 S2), <- (st_len s S); exact Lw).
      assert (Ci2 : c_cs (cell_of s2 w) = i).
      { rewrite (crel_cs _ _ (t2_cell _ _ T12 w)), C1. exact Ci. }
      eapply wp_conseq; [apply (btail_spec f w s2 BB S2 P2 Lw2 Ci2)| |].
      + intros _ s' ((S' & P' & T') & Ne & Q & Dm). pose proof (T2_trans _ _ _ T12 T') as T1'.
        split; [split; [exact S'|split; [exact P'|]]|split; [|split]].
        * apply (T2_prefix s s1 s' w); [reflexivity|exact O1|exact Cr1|exact T1'|].
          intros a Ux La Ua. exfalso. apply (Ne Ux a La Ua).
        * apply (dclv_from s1 s' w m m); [unfold unb; rewrite C1; exact U|rewrite C1; reflexivity|rewrite C1; reflexivity|apply Lub.ole_refl|apply T1'|exact Ne].
        * right. destruct Q as [->|St]; assumption.
        * intros D Dt. apply Dm; [apply Dm2; apply Dom1; assumption|]. intros Ut. apply (dclv_neq t w m Dt Ut).
      + intros e [->|Ne]; [left; reflexivity|right]. intros (D & Dt). apply Ne.
        split; [apply Dm2; apply Dom1; assumption|]. intros Ut. apply (dclv_neq t w m Dt Ut). }
  assert (F1 : forall l, c_lower (cell_of s w) = Some l ->
            osub H true m l = false /\ negb (osub H false l m) = false).
  { intros l Hl. unfold kpc in Kp. rewrite Hl in Kp. apply andb_true_iff in Kp. destruct Kp as (K1 & _).
    split; [|rewrite K1; reflexivity].
    destruct (osub H true m l) eqn:E; [|reflexivity]. exfalso.
    pose proof (Sound.osubT_true_ole H W m l E) as Le. apply (osubF_ole H W) in K1.
    assert (m = l) by (apply (Lub.ole_antisym H W); assumption). subst l.
    rewrite (Lub.osubT_irrefl H W m NTm NBm) in E. discriminate. }
  assert (F2 : forall u, c_upper (cell_of s w) = Some u -> osub H true u m = false ->
            osub H false m u = true).
  { intros u Hu E. unfold kpc in Kp. rewrite Hu in Kp. apply andb_true_iff in Kp. destruct Kp as (_ & K2).
    apply (osubF_ole H W). apply (Sound.osubT_false_cmp H W u m E).
    apply orb_true_iff in K2. destruct K2 as [K2|K2]; apply (osubF_ole H W) in K2; auto. }
  assert (UP : forall u, c_upper (cell_of s w) = Some u ->
    wp ((if osub H true u m then ret tt else if osub H false m u then bset f w m else fail ESubtypeMismatch) ;;; btail f w) sa
      (fun _ s' => G s s' /\ dclv s' w m /\ (QuietB s s' \/ Stl s') /\ (Dom s t -> dclv t w m -> Dom s' t))
      (efuel (Dom s t /\ dclv t w m))).
  { intros u Hu. destruct (osub H true u m) eqn:E; [apply (NOP u Hu E)|].
    rewrite (F2 u Hu E). apply SET. intros u' Hu'. rewrite Hu in Hu'. injection Hu' as <-.
    apply (osubF_ole H W). apply (F2 u Hu E). }
  destruct (c_lower (cell_of s w)) as [l|] eqn:Hl.
  - destruct (F1 l eq_refl) as (E1 & E2). rewrite E1, E2.
    destruct (c_upper (cell_of s w)) as [u|] eqn:Hu; [apply (UP u eq_refl)|].
    apply SET. intros u' Hu'. discriminate.
  - destruct (c_upper (cell_of s w)) as [u|] eqn:Hu; [apply (UP u eq_refl)|].
    apply SET. intros u' Hu'. discriminate.
Qed.


(* ---- closed forms of the pieces of fulfill ---- *)
Lemma minimize_1_err c s e s' : minimize H 1 c s = MEr e s' -> e = EFuel.
Proof.
  rewrite FL.minimize_S'. unfold bindM at 1. unfold gets at 1.
  destruct (k_alts (constr_of s c)) as [|x r]; [intros X; discriminate|].
  unfold bindM at 1. rewrite FL.min_outer_cons. unfold bindM at 1.
  rewrite FL.min_inner_nil. unfold ret at 1. unfold bindM at 1. unfold gets at 1.
  unfold bindM at 1. rewrite fix_ty_0. unfold fail. intros X. injection X as <- _. reflexivity.
Qed.

Lemma min_form f c s ls : Forall gd ls -> k_alts (constr_of s c) = obs ls ->
  (exists s', minimize H f c s = MEr EFuel s') \/
  (1 <= f /\ minimize H f c s =
   MOk tt (set_constr s c (mkConstr (k_elim (constr_of s c)) (follow s (k_ref (constr_of s c)))
                                     (obs (mins_of ls)) (k_strict (constr_of s c)) (k_done (constr_of s c))))).
Proof.
  intros G Ea. destruct f as [|[|g]].
  - left. eexists. rewrite minimize_0. reflexivity.
  - destruct ls as [|x ls].
    + right. split; [lia|]. apply (minimize_nil H 0 c s Ea).
    + left. destruct (minimize H 1 c s) as [u s'|e s'] eqn:Em.
      * apply minimize_1 in Em. rewrite Ea in Em. discriminate.
      * apply minimize_1_err in Em. subst e. eauto.
  - right. split; [lia|]. apply (minimize_bases1 H g c s ls G Ea).
Qed.

Lemma unify_var_form f s r w m : (forall v, chain s (V v)) -> follow s r = V w -> gd m ->
  (exists s', unify H f true false false r (O m []) s = MEr EFuel s') \/
  (exists g, f = S g /\ unify H f true false false r (O m []) s = below H g w m s).
Proof.
  intros C Ef (Vm & NTm & NBm).
  assert (Bs : basic H m = true) by (unfold basic, arity; rewrite Vm; reflexivity).
  destruct f as [|f1]; [left; eexists; rewrite unify_0; reflexivity|].
  rewrite unify_S. unfold bindM, gets. rewrite Lub.follow_O, Ef. rewrite (proj2 (Nat.eqb_neq m Top) NTm).
  unfold lift.
  destruct (occurs_f H f1 s (O m []) (V w)) as [[|]|e] eqn:Eo.
  - exfalso. eapply (occurs_base_not_true H); [exact Ef|exact Eo].
  - right. exists f1. split; [reflexivity|]. rewrite Bs. reflexivity.
  - left. apply occurs_f_err in Eo. subst e. eauto.
Qed.

Lemma unify_res_form f s r o xs m : follow s r = O o xs -> kpo H o m = true ->
  unify H (S f) true false false r (O m []) s = MOk tt s.
Proof.
  intros Ef K. rewrite unify_S. unfold bindM, gets. rewrite Lub.follow_O, Ef. unfold kpo in K.
  destruct (o =? Bottom); [reflexivity|]. cbn [orb] in K |- *.
  destruct (m =? Top); [reflexivity|].
  apply andb_true_iff in K. destruct K as (Bo & K). rewrite Bo. cbn [andb negb].
  assert (X : osub H false o m = true).
  { apply orb_true_iff in K. destruct K as [K|K]; [|exact K]. apply Nat.eqb_eq in K. subst. apply (osubF_ole H W). apply Lub.ole_refl. }
  rewrite X. reflexivity.
Qed.

Lemma set_constr_same s c : c < length (constrs s) -> set_constr s c (constr_of s c) = s.
Proof.
  intros L. destruct s as [vs cs ks sc]. cbn in *. f_equal. unfold constr_of. cbn.
  revert c L. induction ks as [|k ks IH]; intros [|c] L; cbn in *; try lia; auto.
  f_equal. apply IH. lia.
Qed.


(* ---- the canonical reference of a constraint in a later state ---- *)
Lemma rho_nb c : nb s0 (rho c).
Proof. unfold rho. eapply Inv.follow_unbound. apply P0. Qed.

Lemma rho_cases s c : Step s ->
  (exists o xs, rho c = O o xs) \/
  (exists w, rho c = V w /\ (unb s w /\ follow s (V w) = V w \/
                             exists a, cell_of s w = bcell a /\ c_lower (cell_of s0 w) = Some a /\ follow s (V w) = O a [])).
Proof.
  intros S. pose proof (rho_nb c) as N. destruct (rho c) as [w|o xs]; [right|left; eauto].
  cbn [nb] in N. exists w. split; [reflexivity|].
  destruct (st_cell s S w) as [Ec|(_ & _ & (_ & _ & _ & D))].
  - left. split; [unfold unb; rewrite Ec; exact N|apply Lub.follow_V_unbound; rewrite Ec; exact N].
  - destruct D as [(Bn & _)|(a & Ec & La & _)].
    + left. split; [exact Bn|apply Lub.follow_V_unbound; exact Bn].
    + right. exists a. split; [exact Ec|split; [exact La|]]. apply Lub.follow_V_bound_O. rewrite Ec. reflexivity.
Qed.

Lemma rho_var s c w : Step s -> follow s (rho c) = V w -> rho c = V w.
Proof.
  intros S E. destruct (rho_cases s c S) as [(o & xs & R)|(w1 & R & [(_ & F)|(a & _ & _ & F)])]; rewrite R in *.
  - rewrite Lub.follow_O in E. discriminate.
  - rewrite F in E. exact E.
  - rewrite F in E. discriminate.
Qed.

Lemma lower_basic a w : c_lower (cell_of s0 w) = Some a -> basic H a = true /\ a <> Bottom.
Proof.
  intros La. destruct P0 as (L & _). destruct (bok_basic _ a (lw_bok s0 L w) La) as (Va & NB & _).
  split; [unfold basic, arity; rewrite Va; reflexivity|exact NB].
Qed.

Lemma dcl_res s c o xs m : Step s -> follow s (rho c) = O o xs -> kpo H o m = true -> dcl s (rho c) m.
Proof.
  intros S E K. destruct (rho_cases s c S) as [(o' & xs' & R)|(w1 & R & [(_ & F)|(a & Ec & La & F)])]; rewrite R in *.
  - rewrite Lub.follow_O in E. injection E as -> ->. exact K.
  - rewrite F in E. discriminate.
  - rewrite F in E. injection E as <- <-. cbn [dcl]. split; [rewrite Ec; reflexivity|split].
    + intros U. unfold unb in U. rewrite Ec in U. discriminate.
    + intros b Hb. rewrite Ec in Hb. cbn in Hb. injection Hb as <-. exists a. split; [reflexivity|].
      apply (kpo_ole H W); [apply (lower_basic a w1 La)|exact K].
Qed.

Lemma dcl_kp s c m : Step s -> LW s -> dcl s (rho c) m -> kp H s (rho c) m = true.
Proof.
  intros S L D. destruct (rho_cases s c S) as [(o' & xs' & R)|(w1 & R & [(U & F)|(a & Ec & La & F)])]; rewrite R in *.
  - unfold kp. rewrite Lub.follow_O. exact D.
  - unfold kp. rewrite F. destruct D as (_ & Du & _). destruct (Du U) as (u & Hu & Le & _).
    apply (kpc_upper_le H W _ u m (lw_bok s L w1) Hu Le).
  - unfold kp. rewrite F. destruct D as (_ & _ & Db). destruct (Db (O a [])) as (o & Eo & Le); [rewrite Ec; reflexivity|].
    injection Eo as <-. apply (ole_kpo H W); [apply (lower_basic a w1 La)|exact Le].
Qed.

Lemma T2_mark s c k3 s' m : k_done (constr_of s c) = false -> c < length (constrs s) ->
  k_done k3 = true -> k_alts k3 = [ob m] ->
  T2 (set_constr s c k3) s' -> dcl s' (rho c) m -> T2 s s'.
Proof.
  intros Dn Lc D3 A3 T Dc. set (s3 := set_constr s c k3) in *.
  assert (Csame : forall c', c' <> c -> constr_of s3 c' = constr_of s c').
  { intros c' N. destruct (constr_of_set_constr s c k3 c') as [(_ & X & _)|X]; [contradiction|exact X]. }
  assert (Cc : constr_of s3 c = k3) by (apply constr_of_set_constr_same; exact Lc).
  constructor.
  - exact (t2_cell _ _ T).
  - exact (t2_ne _ _ T).
  - intros c' D. assert (N : c' <> c) by (intros ->; congruence).
    apply (t2_done _ _ T). rewrite (Csame c' N). exact D.
  - intros c' E D. assert (N : c' <> c) by (intros ->; congruence).
    rewrite <- (Csame c' N). apply (t2_frz _ _ T c' E). rewrite (Csame c' N). exact D.
  - intros c' Hc E D1 D2. destruct (Nat.eq_dec c' c) as [->|N].
    + exists m. rewrite (t2_frz _ _ T c E) by (rewrite Cc; exact D3). rewrite Cc. auto.
    + apply (t2_dcl _ _ T c' Hc E); [rewrite (Csame c' N); exact D1|exact D2].
Qed.

(* ---- what the end t of the other run knows about a constraint ---- *)
Lemma mins_of_single m : mins_of [m] = [m].
Proof. reflexivity. Qed.

Lemma t_in c : FinT -> In c (cset_of s0 i) -> k_done (constr_of t c) = false -> In c (cset_of t i).
Proof.
  intros (FS & FP & FT & FL') Hc D. destruct (in_dec Nat.eq_dec c (cset_of t i)) as [X|X]; [exact X|].
  rewrite (st_rm t FS c Hc X) in D. discriminate.
Qed.

Lemma t_sub_ok c : FinT -> In c (cset_of s0 i) -> k_elim (constr_of s0 c) = false ->
  vd t (constr_of t c) = PKeep \/ vd t (constr_of t c) = PDone.
Proof.
  intros F Hc E. pose proof F as (FS & FP & FT & FL'). pose proof (kind_sub t c FS E) as Ek. destruct FP as (_ & _ & Sd).
  destruct (k_done (constr_of t c)) eqn:D; [right; apply Sd; auto|left].
  pose proof (FL' c (t_in c F Hc D)) as St. unfold settled in St. rewrite Ek in St. apply St.
Qed.

Lemma t_alts c l0 : FinT -> In c (cset_of s0 i) -> k_elim (constr_of s0 c) = true ->
  k_done (constr_of s0 c) = false -> k_alts (constr_of s0 c) = obs l0 ->
  exists lt, k_alts (constr_of t c) = obs lt /\ lt <> [] /\ NoDup lt /\
    (forall m, In m lt -> In m (mins_of l0) /\ kp H t (rho c) m = true) /\
    (forall m, lt = [m] -> dcl t (rho c) m).
Proof.
  intros F Hc E D Ea. pose proof F as (FS & FP & FT & FL'). pose proof FP as (Lt & _).
  pose proof (in_range0 t c FS Hc) as Lc. pose proof (kind_elim t c FS Hc E) as Ek.
  pose proof (lw_kw t Lt c Lc) as Sh. unfold shape in Sh. rewrite Ek in Sh. destruct Sh as (lt & Gl & El).
  destruct (elm_form t c l0 lt FS Hc E D Ea El) as (_ & Pit & (P & EP) & _).
  exists lt. split; [exact El|].
  destruct (k_done (constr_of t c)) eqn:Dt.
  - destruct (t2_dcl _ _ FT c Hc E D Dt) as (m & Am & Dc). rewrite El in Am.
    change [ob m] with (obs [m]) in Am. apply obs_inj in Am. subst lt.
    split; [discriminate|split; [repeat constructor; intros []|split]].
    + intros m' [<-|[]]. split; [|apply dcl_kp; auto].
      rewrite mins_of_single in EP. assert (X : In m [m]) by (left; reflexivity). rewrite EP in X.
      apply filter_In in X. apply X.
    + intros m' [= <-]. exact Dc.
  - pose proof (FL' c (t_in c F Hc Dt)) as St. unfold settled in St. rewrite Ek in St.
    destruct St as (_ & En & l & El' & An & Le & Kp). rewrite El in El'. apply obs_inj in El'. subst l.
    split; [intros ->; cbn in Le; lia|split; [apply (anti_NoDup H); exact An|split]].
    + intros m Hm. split.
      * rewrite (mins_of_anti H lt An) in EP. rewrite EP in Hm. apply filter_In in Hm. apply Hm.
      * rewrite <- (Kp m Hm). apply kp_follow. symmetry. apply (proj2 (st_elm t FS c l0 Hc E D Ea)).
    + intros m ->. cbn in Le. lia.
Qed.

(* every alternative t still has survives the filter in a state that dominates t *)
Lemma lt_in s c l0 ls lt r0 m : FinT -> Step s -> Pre s -> Dom s t -> In c (cset_of s0 i) ->
  k_elim (constr_of s0 c) = true -> k_done (constr_of s0 c) = false -> k_alts (constr_of s0 c) = obs l0 ->
  k_alts (constr_of s c) = obs ls -> follow s r0 = follow s (rho c) ->
  k_alts (constr_of t c) = obs lt -> In m lt ->
  (forall m, In m lt -> In m (mins_of l0) /\ kp H t (rho c) m = true) ->
  In m (filter (kp H s r0) (mins_of ls)).
Proof.
  intros (FS & FP & FT & FL') S (L & _) Dm Hc E D Ea Es Er Et Hm Ht. destruct (Ht m Hm) as (Hm0 & Kt). pose proof FP as (Lt & _).
  assert (Ks : kp H s (rho c) m = true).
  { apply (kp_mono s t (rho c) m (lw_inv s L) (lw_inv t Lt) (lw_bok s L) (lw_bok t Lt) (gd_of_mins c l0 m Hc E Ea Hm0) Dm Kt). }
  destruct (elm_form s c l0 ls S Hc E D Ea Es) as (_ & Pis & _ & _).
  apply filter_In. split.
  - apply (proj2 (mins_of_PI H ls Pis)). destruct (in_dec Nat.eq_dec m ls) as [X|X]; [exact X|exfalso].
    assert (N : ~ In (ob m) (k_alts (constr_of s c))) by (rewrite Es, In_obs; exact X).
    rewrite (st_keeps s S c l0 m Hc E D Ea Hm0 N) in Ks. discriminate.
  - rewrite <- Ks. apply kp_follow. exact Er.
Qed.


(* ---- fulfill ---- *)
Lemma wp_bind_ok {A B} (m : M A) (k : A -> M B) s a s1 (Q : B -> store -> Prop) E :
  m s = MOk a s1 -> wp (k a) s1 Q E -> wp (bindM m k) s Q E.
Proof. intros Em T. unfold wp, bindM. rewrite Em. exact T. Qed.

Lemma wp_bind_er {A B} (m : M A) (k : A -> M B) s e s1 (Q : B -> store -> Prop) (E : err -> Prop) :
  m s = MEr e s1 -> E e -> wp (bindM m k) s Q E.
Proof. intros Em T. unfold wp, bindM. rewrite Em. exact T. Qed.

Lemma T2_constr' s s' : vars s' = vars s ->
  (forall c, k_done (constr_of s c) = true -> constr_of s' c = constr_of s c) ->
  (forall c, k_elim (constr_of s0 c) = true -> k_done (constr_of s' c) = true -> k_done (constr_of s c) = true) ->
  T2 s s'.
Proof.
  intros Ev Hf Hd. constructor.
  - intros w. rewrite (cell_of_vars s' s w Ev). apply crel_refl.
  - intros w a _ _. rewrite (cell_of_vars s' s w Ev). auto.
  - intros c D. rewrite (Hf c D). exact D.
  - intros c _ D. apply Hf. exact D.
  - intros c _ E D1 D2. rewrite (Hd c E D2) in D1. discriminate.
Qed.

Lemma sub_rec s c : Step s -> k_elim (constr_of s0 c) = false ->
  k_ref (constr_of s c) = k_ref (constr_of s0 c) /\ k_alts (constr_of s c) = k_alts (constr_of s0 c) /\
  k_strict (constr_of s c) = k_strict (constr_of s0 c).
Proof. intros S E. destruct (st_sub s S c E) as [X|X]; rewrite X; auto. Qed.

Definition Quiet (c : nat) (b : bool) (s s' : store) : Prop :=
  (forall w, ceqw (cell_of s w) (cell_of s' w)) /\
  (forall c', c' <> c -> constr_of s' c' = constr_of s c') /\
  csets s' = csets s /\ len s' = len s /\
  (b = false -> In c (cset_of s i) -> settled s' c).

Definition SP_ful f := forall c s, Step s -> Pre s -> In c (cset_of s0 i) ->
  wp (fulfill H f c) s
     (fun b s' => G s s' /\ (b = true -> k_done (constr_of s' c) = true) /\
                  (Quiet c b s s' \/ Stl s') /\ (Dom s t -> Dom s' t))
     (efuel (Dom s t)).

Lemma ceqw_refl c : ceqw c c.
Proof. repeat split. Qed.

Lemma ful_sub f c s : Step s -> Pre s -> In c (cset_of s0 i) -> k_elim (constr_of s0 c) = false ->
  wp (fulfill H f c) s
     (fun b s' => G s s' /\ (b = true -> k_done (constr_of s' c) = true) /\
                  (Quiet c b s s' \/ Stl s') /\ (Dom s t -> Dom s' t))
     (efuel (Dom s t)).
Proof.
  intros S P Hc E0. pose proof P as (L & Hr & Sd).
  pose proof (in_range0 s c S Hc) as Lc. pose proof (kind_sub s c S E0) as Ek.
  pose proof (lw_kw s L c Lc) as Sh. pose proof (shape_pureK H _ Ek Sh) as Pk.
  unfold shape in Sh. rewrite Ek in Sh. destruct Sh as (a & Ea & Ba).
  eapply wp_eq; [apply (fulfill_pure H f c s Pk)|].
  destruct (pfc_fuel H f s (constr_of s c) a Ea Ba) as [X|X]; rewrite X; [left; reflexivity|].
  destruct (vd s (constr_of s c)) as [e| |] eqn:V.
  - right. intros Dm. pose proof (FH s S Dm) as F. pose proof F as (FS & (Lt & _) & _).
    destruct (vd_err_mono s t _ a e (lw_inv s L) (lw_inv t Lt) (lw_bok s L) (lw_bok t Lt) Dm Ea Ba V) as (e' & X').
    destruct (sub_rec s c S E0) as (R1 & R2 & R3). destruct (sub_rec t c FS E0) as (T1 & T2' & T3).
    rewrite (pfc_vars H 4 t t (constr_of s c) (constr_of t c)) in X' by congruence.
    destruct (t_sub_ok c F Hc E0) as [Y|Y]; congruence.
  - destruct (sub_mark_pres s c S P Hc E0 V) as (S' & P').
    assert (Csame : forall c', c' <> c -> constr_of (markd c s) c' = constr_of s c').
    { intros c' N. destruct (constr_of_markd c s c') as [Y|(Y & _)]; [exact Y|contradiction]. }
    assert (Cc : constr_of (markd c s) c = done_of (constr_of s c)).
    { unfold markd. apply constr_of_set_constr_same. exact Lc. }
    split; [split; [exact S'|split; [exact P'|]]|split; [|split]].
    + apply T2_constr'; [reflexivity| |].
      * intros c' D. destruct (Nat.eq_dec c' c) as [->|N]; [|apply Csame; exact N].
        rewrite Cc. unfold done_of. destruct (constr_of s c); cbn in *; subst; reflexivity.
      * intros c' E' D. destruct (Nat.eq_dec c' c) as [->|N]; [congruence|]. rewrite <- (Csame c' N). exact D.
    + intros _. rewrite Cc. reflexivity.
    + left. split; [intros w; apply ceqw_refl|split; [exact Csame|split; [reflexivity|split; [reflexivity|discriminate]]]].
    + intros D. exact D.
  - split; [split; [exact S|split; [exact P|apply T2_refl]]|split; [auto|split; [|auto]]].
    left. split; [intros w; apply ceqw_refl|split; [reflexivity|split; [reflexivity|split; [reflexivity|]]]].
    intros Dn _. unfold settled. rewrite Ek. split; assumption.
Qed.


Lemma s_in s c : Step s -> In c (cset_of s0 i) -> k_done (constr_of s c) = false -> In c (cset_of s i).
Proof.
  intros S Hc D. destruct (in_dec Nat.eq_dec c (cset_of s i)) as [X|X]; [exact X|].
  rewrite (st_rm s S c Hc X) in D. discriminate.
Qed.

Lemma done0_false s c : Step s -> k_elim (constr_of s0 c) = true -> k_done (constr_of s c) = false ->
  k_done (constr_of s0 c) = false.
Proof.
  intros S E D. destruct (k_done (constr_of s0 c)) eqn:D0; [|reflexivity].
  rewrite (st_don s S c E D0) in D. congruence.
Qed.

Lemma ful_elim f c s : (forall g, g <= f -> SP_below g) ->
  Step s -> Pre s -> In c (cset_of s0 i) -> k_elim (constr_of s0 c) = true ->
  wp (fulfill H (S f) c) s
     (fun b s' => G s s' /\ (b = true -> k_done (constr_of s' c) = true) /\
                  (Quiet c b s s' \/ Stl s') /\ (Dom s t -> Dom s' t))
     (efuel (Dom s t)).
Proof.
  intros BL Ss P Hc E0. pose proof P as (L & Hr & Sd).
  pose proof (in_range0 s c Ss Hc) as Lc. pose proof (kind_elim s c Ss Hc E0) as Ek.
  rewrite FL.fulfill_S'. apply wp_gets. rewrite Ek.
  destruct (k_done (constr_of s c)) eqn:Ed.
  { apply wp_ret. split; [split; [exact Ss|split; [exact P|apply T2_refl]]|split; [auto|split; [|auto]]].
    left. split; [intros w; apply ceqw_refl|split; [reflexivity|split; [reflexivity|split; [reflexivity|discriminate]]]]. }
  pose proof (done0_false s c Ss E0 Ed) as D0. pose proof (s_in s c Ss Hc Ed) as Hci.
  destruct (alts0 c Hc E0) as (l0 & Gl0 & Ea0 & Pi0).
  pose proof (lw_kw s L c Lc) as Sh. unfold shape in Sh. rewrite Ek in Sh. destruct Sh as (ls & Gls & Es).
  destruct (elm_form s c l0 ls Ss Hc E0 D0 Ea0 Es) as (Est & Pis & (P1 & EP1) & Hdrop).
  pose proof (proj2 (st_elm s Ss c l0 Hc E0 D0 Ea0)) as Erho.
  set (k := constr_of s c) in *. set (r0 := follow s (k_ref k)).
  assert (Nr0 : nb s r0) by (apply (@Inv.follow_unbound true s (k_ref k)); apply L).
  assert (Fr0 : follow s r0 = r0) by (apply follow_of_nb; exact Nr0).
  assert (Er0 : follow s r0 = follow s (rho c)) by (rewrite Fr0; exact Erho).
  destruct (min_form f c s ls Gls Es) as [(s' & Em)|(Lf & Em)].
  { eapply wp_bind_er; [exact Em|left; reflexivity]. }
  eapply wp_bind_ok; [exact Em|]. fold k. rewrite Ek, Ed. fold r0.
  set (L1 := mins_of ls) in *.
  set (s1 := set_constr s c (mkConstr true r0 (obs L1) (k_strict k) false)).
  assert (C1 : constr_of s1 c = mkConstr true r0 (obs L1) (k_strict k) false)
    by (unfold s1; apply constr_of_set_constr_same; exact Lc).
  assert (GL1 : Forall gd L1) by (apply FL.mins_of_good; exact Gls).
  apply wp_gets. rewrite C1. apply wp_gets.
  assert (Nm : forallb (fun t0 => match t0 with
                | V v => match c_bound (cell_of s1 v) with Some _ => false | None => true end
                | O _ _ => true end) (constr_terms (mkConstr true r0 (obs L1) (k_strict k) false)) = true).
  { cbn [constr_terms k_ref k_alts forallb]. rewrite FL.forallb_obs, andb_true_r.
    destruct r0 as [v|o xs]; [|reflexivity]. change (cell_of s1 v) with (cell_of s v). cbn [nb] in Nr0. rewrite Nr0. reflexivity. }
  rewrite Nm. cbn [negb k_ref k_alts].
  destruct f as [|f']; [lia|].
  eapply wp_lift; [apply (filt_keep H f' s1 r0 L1 GL1)|].
  set (l2 := filter (keep H (S f') s1 r0) L1).
  assert (El2 : l2 = filter (kp H s r0) L1).
  { unfold l2. apply filter_ext_in. intros m Hm. rewrite Forall_forall in GL1.
    rewrite (keep_kp H f' s1 r0 m (GL1 m Hm)). apply kp_vars. reflexivity. }
  assert (G2 : Forall gd l2).
  { apply incl_Forall with (l1 := L1); [apply incl_filter|exact GL1]. }
  unfold upd_constr at 1. apply wp_modify. rewrite C1. cbn [k_ref k_strict k_done].
  assert (Es2 : set_constr s1 c (mkConstr true r0 (obs l2) (k_strict k) false) =
                set_constr s c (mkConstr true r0 (obs l2) (k_strict k) false)).
  { unfold s1. cbn. rewrite si_upd_upd. reflexivity. }
  rewrite Es2. clear Es2.
  set (s2 := set_constr s c (mkConstr true r0 (obs l2) (k_strict k) false)).
  assert (C2 : constr_of s2 c = mkConstr true r0 (obs l2) (k_strict k) false)
    by (unfold s2; apply constr_of_set_constr_same; exact Lc).
  (* what t knows *)
  assert (TA : Dom s t -> exists lt, lt <> [] /\ NoDup lt /\ (forall m, In m lt -> In m l2) /\
                                    (forall m, lt = [m] -> dcl t (rho c) m)).
  { intros Dm. pose proof (FH s Ss Dm) as F.
    destruct (t_alts c l0 F Hc E0 D0 Ea0) as (lt & Elt & Nlt & NDlt & Hlt & Hsing).
    exists lt. split; [exact Nlt|split; [exact NDlt|split; [|exact Hsing]]].
    intros m Hm. rewrite El2. apply (lt_in s c l0 ls lt r0 m F Ss P Dm Hc E0 D0 Ea0 Es Er0 Elt Hm Hlt). }
  assert (HQ : forall m, In m L1 -> kp H s r0 m = false -> kp H s (k_ref k) m = false).
  { intros m _ X. rewrite <- X. apply kp_follow. symmetry. exact Fr0. }
  assert (K2 : forall m, In m l2 -> kp H s r0 m = true).
  { intros m Hm. rewrite El2 in Hm. apply filter_In in Hm. apply Hm. }
  assert (Stl2 : stlE s c -> l2 = ls /\ r0 = k_ref k).
  { intros (_ & En & l & El & An & _ & Kp). fold k in En, El, Kp. rewrite Es in El. apply obs_inj in El. subst l.
    split; [|exact En]. rewrite El2. unfold L1. rewrite (mins_of_anti H ls An).
    rewrite <- (filter_all ls) at 2. apply filter_ext_in. intros m Hm. rewrite <- (Kp m Hm).
    apply kp_follow. exact Fr0. }
  clearbody l2.
  destruct l2 as [|m1 [|m2 rest]]; cbn [FL.obs map].
  - (* no alternative left *)
    apply wp_fail. right. intros Dm. destruct (TA Dm) as (lt & Nlt & _ & LT & _).
    destruct lt as [|m lt']; [contradiction|]. apply (LT m). left. reflexivity.
  - (* one alternative left: the constraint is fulfilled, unify (ref, alt) *)
    unfold upd_constr at 1. apply wp_modify. rewrite C2. cbn [k_ref k_alts k_strict].
    assert (Es3 : set_constr s2 c (mkConstr true r0 (obs [m1]) (k_strict k) true) =
                  set_constr s c (mkConstr true r0 [ob m1] (k_strict k) true)).
    { unfold s2. cbn. rewrite si_upd_upd. reflexivity. }
    rewrite Es3. clear Es3.
    set (k3 := mkConstr true r0 [ob m1] (k_strict k) true). set (s3 := set_constr s c k3).
    assert (Gm1 : gd m1) by (inversion G2; assumption).
    assert (NS : ~ stlE s c).
    { intros St. destruct (Stl2 St) as (X & _). destruct St as (_ & _ & l & El & _ & Le & _).
      fold k in El. rewrite Es in El. apply obs_inj in El. subst l. rewrite <- X in Le. cbn in Le. lia. }
    destruct (elim_upd_pres s c l0 ls (kp H s r0) true Ss P Hc E0 D0 Ea0 Ed Es HQ ltac:(discriminate)) as (S3 & P3).
    fold k r0 L1 in S3, P3. rewrite <- El2 in S3, P3. change (obs [m1]) with [ob m1] in S3, P3. fold k3 s3 in S3, P3.
    assert (C3 : constr_of s3 c = k3) by (unfold s3; apply constr_of_set_constr_same; exact Lc).
    assert (Dsing : Dom s t -> dcl t (rho c) m1).
    { intros Dm. destruct (TA Dm) as (lt & Nlt & NDlt & X & Hsing). apply Hsing. clear - X Nlt NDlt.
      destruct lt as [|a [|b r]]; [contradiction| |].
      - destruct (X a (or_introl eq_refl)) as [->|[]]. reflexivity.
      - exfalso. destruct (X a (or_introl eq_refl)) as [<-|[]]. destruct (X b (or_intror (or_introl eq_refl))) as [<-|[]].
        inversion NDlt as [|? ? N _]. apply N. left. reflexivity. }
    assert (Post : forall s4, G s3 s4 -> dcl s4 (rho c) m1 -> (QuietB s3 s4 \/ Stl s4) -> (Dom s t -> Dom s4 t) ->
      G s s4 /\ (k_done (constr_of s4 c) = true -> k_done (constr_of s4 c) = true) /\
      (Quiet c (k_done (constr_of s4 c)) s s4 \/ Stl s4) /\ (Dom s t -> Dom s4 t)).
    { intros s4 (S4 & P4 & T34) Dc Q Dm.
      assert (D4 : k_done (constr_of s4 c) = true) by (apply (t2_done _ _ T34); rewrite C3; reflexivity).
      split; [split; [exact S4|split; [exact P4|]]|split; [auto|split; [|exact Dm]]].
      - apply (T2_mark s c k3 s4 m1 Ed Lc eq_refl eq_refl T34 Dc).
      - destruct Q as [(Qc & Qk & Qs & Ql)|St]; [left|right; exact St].
        split; [exact Qc|split; [|split; [exact Qs|split; [exact Ql|rewrite D4; discriminate]]]].
        intros c' N. rewrite (constr_of_same s3 s4 c' Qk).
        destruct (constr_of_set_constr s c k3 c') as [(_ & X & _)|X]; [contradiction|exact X]. }
    destruct r0 as [w|o xs] eqn:Er.
    + (* the reference is an unbound variable: below *)
      assert (A : act s w).
      { destruct (Hr c w Hci Ek Ed Er) as [A|St]; [exact A|contradiction]. }
      assert (Rw : rho c = V w) by (apply (rho_var s c w Ss); rewrite <- Er0; exact Fr0).
      assert (Kc : kpc H (cell_of s w) m1 = true).
      { rewrite <- (K2 m1 (or_introl eq_refl)). unfold kp. rewrite Fr0. reflexivity. }
      destruct (unify_var_form (S f') s3 (V w) w m1 (@inv_chain true s3 (lw_inv s3 (proj1 P3)))) as [(s' & Eu)|(g & Eg & Eu)];
        [rewrite (follow_vars s3 s _ eq_refl); exact Fr0|exact Gm1| |].
      { eapply wp_bind_er; [exact Eu|left; reflexivity]. }
      injection Eg as <-.
      eapply wp_bind with (Q1 := fun _ s4 => G s3 s4 /\ dclv s4 w m1 /\ (QuietB s3 s4 \/ Stl s4) /\ (Dom s3 t -> dclv t w m1 -> Dom s4 t)).
      * eapply wp_eq; [exact Eu|].
        eapply wp_conseq; [apply (BL f' ltac:(lia) w m1 s3 S3 P3 (act_same s s3 w eq_refl A) Gm1 Kc)|auto|].
        intros e [->|Ne]; [left; reflexivity|right]. intros Dm. apply Ne. split; [exact Dm|].
        pose proof (Dsing Dm) as X. rewrite Rw in X. exact X.
      * intros _ s4 (G34 & Dv & Q & Dm). apply wp_gets. apply wp_ret.
        apply Post; auto. { rewrite Rw. exact Dv. }
        intros D. apply Dm; [exact D|]. pose proof (Dsing D) as X. rewrite Rw in X. exact X.
    + (* the reference is resolved: nothing to do *)
      assert (Ko : kpo H o m1 = true).
      { rewrite <- (K2 m1 (or_introl eq_refl)). unfold kp. rewrite Fr0. reflexivity. }
      eapply wp_bind_ok; [apply (unify_res_form f' s3 (O o xs) o xs m1 (Lub.follow_O _ _ _) Ko)|].
      apply wp_gets. apply wp_ret. apply Post.
      * split; [exact S3|split; [exact P3|apply T2_refl]].
      * apply (dcl_res s3 c o xs m1 S3); [|exact Ko]. rewrite (follow_vars s3 s _ eq_refl), <- Er0. exact Fr0.
      * left. split; [intros w; apply ceqw_refl|auto].
      * auto.
  - (* several alternatives left *)
    apply wp_gets. rewrite C2. cbn [k_done]. apply wp_ret.
    assert (Dj : stlE s c \/ (forall w, follow s (k_ref k) = V w -> act s w)).
    { destruct r0 as [w|o xs] eqn:Er.
      - destruct (Hr c w Hci Ek Ed Er) as [A|St]; [right|left; exact St].
        intros w' Ew. unfold r0 in Er. rewrite Er in Ew. injection Ew as <-. exact A.
      - right. intros w Ew. unfold r0 in Er. rewrite Er in Ew. discriminate. }
    destruct Dj as [St|HA].
    + destruct (Stl2 St) as (X & Y).
      assert (E2 : s2 = s).
      { unfold s2. rewrite X, Y, <- Es. rewrite <- (set_constr_same s c Lc) at 2. fold k. f_equal.
        destruct k; cbn in *; subst; reflexivity. }
      rewrite E2. split; [split; [exact Ss|split; [exact P|apply T2_refl]]|split; [discriminate|split; [|auto]]].
      left. split; [intros w; apply ceqw_refl|split; [reflexivity|split; [reflexivity|split; [reflexivity|]]]].
      intros _ _. unfold settled. fold k. rewrite Ek. exact St.
    + destruct (elim_upd_pres s c l0 ls (kp H s r0) false Ss P Hc E0 D0 Ea0 Ed Es HQ (fun _ => HA)) as (S2 & P2).
      fold k r0 L1 in S2, P2. rewrite <- El2 in S2, P2. fold s2 in S2, P2.
      assert (Csame : forall c', c' <> c -> constr_of s2 c' = constr_of s c').
      { intros c' N. unfold s2. destruct (constr_of_set_constr s c (mkConstr true r0 (obs (m1 :: m2 :: rest)) (k_strict k) false) c') as [(_ & X & _)|X]; [contradiction|exact X]. }
      split; [split; [exact S2|split; [exact P2|]]|split; [discriminate|split; [|auto]]].
      * apply T2_constr'; [reflexivity| |].
        -- intros c' D. apply Csame. intros ->. fold k in D. congruence.
        -- intros c' _ D. destruct (Nat.eq_dec c' c) as [->|N]; [rewrite C2 in D; discriminate|]. rewrite <- (Csame c' N). exact D.
      * left. split; [intros w; apply ceqw_refl|split; [exact Csame|split; [reflexivity|split; [reflexivity|]]]].
        intros _ _. unfold settled. rewrite C2. cbn [k_elim]. unfold stlE. rewrite C2. cbn [k_done k_ref k_alts].
        split; [reflexivity|split; [rewrite (follow_vars s2 s _ eq_refl); exact Fr0|]].
        exists (m1 :: m2 :: rest). split; [reflexivity|split; [|split; [cbn; lia|]]].
        -- rewrite El2. apply anti_filter. apply (mins_of_PI H ls Pis).
        -- intros m Hm. rewrite (kp_vars s2 s _ m eq_refl). apply K2. exact Hm.
Qed.


(* ---- a re-check round ---- *)
Lemma follow_ceqw s s' r : (forall w, ceqw (cell_of s w) (cell_of s' w)) -> len s' = len s ->
  follow s' r = follow s r.
Proof.
  intros C El. unfold follow. rewrite El. apply follow_f_bound_eq. intros v. apply (C v).
Qed.

Lemma kp_ceqw s s' r m : (forall w, ceqw (cell_of s w) (cell_of s' w)) -> len s' = len s ->
  kp H s' r m = kp H s r m.
Proof.
  intros C El. unfold kp. rewrite (follow_ceqw s s' r C El).
  destruct (follow s r) as [w|o xs]; [|reflexivity]. destruct (C w) as (_ & L & U & _). apply kpc_ext; assumption.
Qed.

Lemma vd_ceqw s s' k a : inv s -> inv s' -> (forall w, ceqw (cell_of s w) (cell_of s' w)) -> len s' = len s ->
  k_alts k = [O a []] -> basic H a = true -> vd s' k = vd s k.
Proof.
  intros I I' C El Ea Ba. pose proof (follow_ceqw s s' (k_ref k) C El) as Ef.
  destruct (follow s (k_ref k)) as [w|o xs] eqn:E.
  - pose proof (pfc_var H W 0 s k w a (@inv_chain true s I) E Ea Ba) as X.
    pose proof (pfc_var H W 0 s' k w a (@inv_chain true s' I') Ef Ea Ba) as X'.
    change (4 + 0) with 4 in X, X'. rewrite X, X'. unfold vdv.
    destruct (C w) as (_ & L & U & _). rewrite (kpc_ext H _ _ a L U). reflexivity.
  - symmetry. apply (pfc_res H 4 s s' k o xs a E Ef Ea Ba).
Qed.

Lemma settled_quiet c b s s' c' : LW s -> LW s' -> Quiet c b s s' -> c' <> c -> c' < length (constrs s) ->
  settled s c' -> settled s' c'.
Proof.
  intros L L' (Qc & Qk & _ & Ql & _) N Lc. unfold settled, stlE, stlS. rewrite (Qk c' N).
  pose proof (lw_kw s L c' Lc) as Sh. unfold shape in Sh.
  destruct (k_elim (constr_of s c')).
  - intros (Dn & En & l & Ea & An & Le & Kp). split; [exact Dn|split; [rewrite (follow_ceqw s s' _ Qc Ql); exact En|]].
    exists l. repeat split; auto. intros m Hm. rewrite (kp_ceqw s s' _ m Qc Ql). auto.
  - destruct Sh as (a & Ea & Ba). intros (Dn & V). split; [exact Dn|].
    rewrite (vd_ceqw s s' _ a (lw_inv s L) (lw_inv s' L') Qc Ql Ea Ba). exact V.
Qed.

Definition PS (s : store) (l : list nat) : Prop :=
  forall c, In c (cset_of s i) -> In c l \/ settled s c.

Lemma loop_spec f v : SP_ful f -> forall l s, Step s -> Pre s -> c_cs (cell_of s v) = i ->
  (forall c, In c l -> In c (cset_of s0 i)) -> PS s l ->
  wp (loop H f v l) s (fun _ s' => G s s' /\ Stl s' /\ (Dom s t -> Dom s' t)) (efuel (Dom s t)).
Proof.
  intros FF. induction l as [|c l IH]; intros s Ss P Ci Hl Ps; unfold loop; cbn [forM].
  - apply wp_ret. split; [split; [exact Ss|split; [exact P|apply T2_refl]]|split; [|auto]].
    intros c Hc. destruct (Ps c Hc) as [[]|X]; exact X.
  - fold (loop H f v l).
    apply wp_bind with (Q1 := fun _ s2 => G s s2 /\ c_cs (cell_of s2 v) = i /\ PS s2 l /\ (Dom s t -> Dom s2 t)).
    + unfold body. eapply wp_bind; [apply (FF c s Ss P); apply Hl; left; reflexivity|].
      cbv beta. intros b s1 ((S1 & P1 & T1) & Db & Q & Dm).
      assert (Ci1 : c_cs (cell_of s1 v) = i) by (rewrite (crel_cs _ _ (t2_cell _ _ T1 v)); exact Ci).
      assert (Lr : forall c', In c' (cset_of s i) -> c' < length (constrs s)) by (intros c'; apply (in_range s c'); apply P).
      assert (Ps1 : forall c', In c' (cset_of s1 i) -> c' <> c -> In c' l \/ settled s1 c').
      { intros c' Hc' N. destruct Q as [Qq|St]; [|right; apply St; exact Hc'].
        pose proof Qq as (_ & _ & Qs & _). unfold cset_of in Hc'. rewrite Qs in Hc'. fold (cset_of s i) in Hc'.
        destruct (Ps c' Hc') as [[X|X]|X]; [congruence|left; exact X|right].
        apply (settled_quiet c b s s1 c' (proj1 P) (proj1 P1) Qq N (Lr c' Hc') X). }
      destruct b.
      * apply wp_modify_end. rewrite Ci1.
        set (s2 := set_cset s1 i (remove_nat c (cset_of s1 i))).
        assert (Ei : cset_of s2 i = remove_nat c (cset_of s1 i)).
        { unfold s2. destruct (cset_of_set_cset s1 i (remove_nat c (cset_of s1 i)) i) as [(X & _)|X]; [exact X|].
          destruct (Nat.lt_ge_cases i (length (csets s1))) as [Li|Li].
          - unfold cset_of in *. cbn in *. rewrite nth_upd_same; [reflexivity|exact Li].
          - rewrite X. unfold cset_of. rewrite nth_overflow by exact Li. reflexivity. }
        assert (I2 : inv s2).
        { unfold s2. apply inv_set_cset; [apply P1|]. apply Forall_remove_nat. rewrite Forall_forall.
          intros x Hx. eapply inv_cs; [apply P1|exact Hx]. }
        assert (Co2 : forall j, j <> i -> cset_of s2 j = cset_of s1 j).
        { intros j Nj. unfold s2. destruct (cset_of_set_cset s1 i (remove_nat c (cset_of s1 i)) j) as [(_ & X & _)|X]; [congruence|exact X]. }
        assert (Hd2 : forall c', In c' (cset_of s1 i) -> negb (c =? c') = false -> k_done (constr_of s1 c') = true).
        { intros c' Hc' Pc. apply negb_false_iff, Nat.eqb_eq in Pc. subst c'. apply Db. reflexivity. }
        assert (Ecl : length (csets s2) = length (csets s1)) by (unfold s2; cbn; apply upd_length).
        destruct (cset_pres s1 s2 (fun y => negb (c =? y)) S1 P1 (conj eq_refl eq_refl) Co2 Ei Hd2 I2 Ecl) as (S2 & P2).
        split; [split; [exact S2|split; [exact P2|apply (T2_sameVC s s1 s2 (conj eq_refl eq_refl) T1)]]|split; [exact Ci1|split; [|exact Dm]]].
        intros c' Hc'. rewrite Ei in Hc'. apply In_remove_nat in Hc'. destruct Hc' as (Hc' & N).
        destruct (Ps1 c' Hc' N) as [X|X]; [left; exact X|right].
        apply (settled_same s1 s2 c' (conj eq_refl eq_refl) X).
      * apply wp_ret. split; [split; [exact S1|split; [exact P1|exact T1]]|split; [exact Ci1|split; [|exact Dm]]].
        intros c' Hc'. destruct (Nat.eq_dec c' c) as [->|N]; [|apply Ps1; assumption].
        right. destruct Q as [(_ & _ & Qs & _ & Qb)|St]; [|apply St; exact Hc'].
        apply Qb; [reflexivity|]. unfold cset_of in *. rewrite <- Qs. exact Hc'.
    + intros _ s2 ((S2 & P2 & T2') & Ci2 & Ps2 & Dm2).
      eapply wp_conseq; [apply (IH s2 S2 P2 Ci2); [intros c' Hc'; apply Hl; right; exact Hc'|exact Ps2]| |].
      * intros _ s' ((S' & P' & T') & St & Dm). split; [split; [exact S'|split; [exact P'|eapply T2_trans; eauto]]|split; [exact St|auto]].
      * intros e [->|Ne]; [left; reflexivity|right; auto].
Qed.


Lemma cc_loop f v l s s1 : SP_ful f -> Step s -> Pre s -> c_cs (cell_of s v) = i ->
  Permutation l (cset_of s i) -> vars s1 = vars s -> constrs s1 = constrs s -> csets s1 = csets s -> inv s1 ->
  wp (loop H f v l) s1 (fun _ s' => G s s' /\ Stl s' /\ (Dom s t -> Dom s' t)) (efuel (Dom s t)).
Proof.
  intros FF Ss P Ci Pm Ev Ek Ec I1.
  assert (Ecs : forall j, cset_of s1 j = cset_of s j) by (intros j; unfold cset_of; rewrite Ec; reflexivity).
  assert (Ei1 : cset_of s1 i = filter (fun _ => true) (cset_of s i)) by (rewrite Ecs; symmetry; apply filter_all).
  assert (Hd1 : forall c, In c (cset_of s i) -> (fun _ : nat => true) c = false -> k_done (constr_of s c) = true) by (intros c _ X; discriminate).
  assert (Ecl : length (csets s1) = length (csets s)) by (rewrite Ec; reflexivity).
  destruct (cset_pres s s1 (fun _ => true) Ss P (conj Ev Ek) (fun j _ => Ecs j) Ei1 Hd1 I1 Ecl) as (S1 & P1).
  eapply wp_conseq; [apply (loop_spec f v FF l s1 S1 P1)| |].
  - rewrite (cell_of_vars s1 s v Ev). exact Ci.
  - intros c Hc. apply (csi_incl s c Ss). eapply Permutation_in; eauto.
  - intros c Hc. left. rewrite Ecs in Hc. eapply Permutation_in; [apply Permutation_sym; exact Pm|exact Hc].
  - intros _ s' ((S' & P' & T') & St & Dm). split; [split; [exact S'|split; [exact P'|]]|split; [exact St|]].
    + apply (T2_sameVC_l s s1 s' (conj Ev Ek) T').
    + intros D. apply Dm. intros w. rewrite (cell_of_vars s1 s w Ev). apply D.
  - intros e [->|Ne]; [left; reflexivity|right]. intros D. apply Ne. intros w. rewrite (cell_of_vars s1 s w Ev). apply D.
Qed.

Lemma cc_step f : SP_ful f -> SP_cc (S f).
Proof.
  intros FF v s Ss P Ci. unfold wp. rewrite cc_S_eq. cbv zeta. rewrite Ci.
  set (p := cset_of s i).
  assert (Pp : forall r, Permutation (permute (length p) r p) p) by (intros r; apply permute_perm; lia).
  destruct (2 <=? length p).
  - destruct (sched s) as [|r rest].
    + apply (cc_loop f v _ s s FF Ss P Ci (Pp 0)); auto. apply P.
    + apply (cc_loop f v _ s _ FF Ss P Ci (Pp r)); auto. apply inv_sched. apply P.
  - apply (cc_loop f v p s s FF Ss P Ci (Permutation_refl p)); auto. apply P.
Qed.

Definition SPs (f : nat) : Prop :=
  forall g, g <= f -> SP_cc g /\ SP_bindb g /\ SP_below g /\ SP_ful g.

Lemma SPs_all : forall f, SPs f.
Proof.
  induction f as [|f IH]; intros g Lg.
  - assert (g = 0) by lia. subst g. repeat split.
    + intros v s _ _ _. unfold wp. rewrite check_constraints_0. left. reflexivity.
    + intros w a s _ _ _ _ _. unfold wp. rewrite bind_0. left. reflexivity.
    + intros w m s _ _ _ _ _. unfold wp. rewrite below_0. left. reflexivity.
    + intros c s _ _ _. unfold wp. rewrite fulfill_0. left. reflexivity.
  - destruct (Nat.eq_dec g (S f)) as [->|N]; [|apply IH; lia].
    destruct (IH f (le_n f)) as (CC & BB & BL & FF).
    split; [apply cc_step; exact FF|split; [apply bindb_step; exact CC|split; [apply below_step; assumption|]]].
    intros c s Ss P Hc. destruct (k_elim (constr_of s0 c)) eqn:E0.
    + apply ful_elim; auto. intros g Lg'. apply (IH g Lg').
    + apply ful_sub; auto.
Qed.

End D.

(* ================================================================== *)
(* the end of a round is unique                                         *)
(* ================================================================== *)
Definition eqk (t1 t2 : store) : Prop :=
  vars t1 = vars t2 /\ csets t1 = csets t2 /\ length (constrs t1) = length (constrs t2) /\
  forall c, let k1 := constr_of t1 c in let k2 := constr_of t2 c in
    k_elim k1 = k_elim k2 /\ k_alts k1 = k_alts k2 /\ k_strict k1 = k_strict k2 /\ k_done k1 = k_done k2 /\
    follow t1 (k_ref k1) = follow t2 (k_ref k2) /\
    (k_ref k1 = k_ref k2 \/ (k_elim k1 = true /\ k_done k1 = true)).

Lemma fin_settled_nd t c : FinT t -> In c (cset_of t i) -> k_done (constr_of t c) = false.
Proof.
  intros (_ & _ & _ & St) Hc. pose proof (St c Hc) as X. unfold settled in X.
  destruct (k_elim (constr_of t c)); apply X.
Qed.

Lemma fin_alts t c l0 : FinT t -> In c (cset_of s0 i) -> k_elim (constr_of s0 c) = true ->
  k_done (constr_of s0 c) = false -> k_alts (constr_of s0 c) = obs l0 ->
  k_alts (constr_of t c) = obs (filter (kp H t (rho c)) (mins_of l0)) /\
  (k_done (constr_of t c) = true <-> length (k_alts (constr_of t c)) = 1).
Proof.
  intros F Hc E D Ea. pose proof F as (FS & FP & FT & FL').
  destruct (t_alts t c l0 F Hc E D Ea) as (lt & Elt & Nlt & NDlt & Hlt & Hsing).
  destruct (alts0 c Hc E) as (l0' & _ & Ea' & Pi0). rewrite Ea in Ea'. apply obs_inj in Ea'. subst l0'.
  assert (Form : exists P, lt = filter P (mins_of l0)).
  { destruct (st_elm t FS c l0 Hc E D Ea) as ([X|(r & P & d & X)] & _).
    - rewrite X, Ea in Elt. apply obs_inj in Elt. subst lt.
      assert (Dt : k_done (constr_of t c) = false) by (rewrite X; exact D).
      pose proof (FL' c (t_in t c F Hc Dt)) as St. unfold settled in St. rewrite (kind_elim t c FS Hc E) in St.
      destruct St as (_ & _ & l & El & An & _). rewrite X, Ea in El. apply obs_inj in El. subst l.
      exists (fun _ => true). rewrite (mins_of_anti H l0 An). symmetry. apply filter_all.
    - rewrite X in Elt. cbn [k_alts] in Elt. apply obs_inj in Elt. eauto. }
  destruct Form as (P & EP). split.
  - rewrite Elt, EP. f_equal. apply filter_ext_in. intros m Hm.
    destruct (P m) eqn:Pm.
    + symmetry. apply (Hlt m). rewrite EP. apply filter_In. auto.
    + destruct (kp H t (rho c) m) eqn:K; [|reflexivity]. exfalso.
      assert (N : ~ In (ob m) (k_alts (constr_of t c))).
      { rewrite Elt, In_obs, EP. intros X. apply filter_In in X. destruct X. congruence. }
      rewrite (st_keeps t FS c l0 m Hc E D Ea Hm N) in K. discriminate.
  - split.
    + intros Dt. destruct (t2_dcl _ _ FT c Hc E D Dt) as (m & Am & _). rewrite Am. reflexivity.
    + intros Ln. destruct (k_done (constr_of t c)) eqn:Dt; [reflexivity|exfalso].
      pose proof (FL' c (t_in t c F Hc Dt)) as St. unfold settled in St. rewrite (kind_elim t c FS Hc E) in St.
      destruct St as (_ & _ & l & El & _ & Le & _). rewrite El in Ln. unfold FL.obs in Ln. rewrite map_length in Ln. lia.
Qed.

Lemma fin_sub_done t c : FinT t -> In c (cset_of s0 i) -> k_elim (constr_of s0 c) = false ->
  (k_done (constr_of t c) = true <-> vd t (constr_of t c) = PDone).
Proof.
  intros F Hc E. pose proof F as (FS & (_ & _ & Sd) & FT & FL'). pose proof (kind_sub t c FS E) as Ek. split.
  - intros D. apply Sd; auto.
  - intros V. destruct (k_done (constr_of t c)) eqn:D; [reflexivity|exfalso].
    pose proof (FL' c (t_in t c F Hc D)) as St. unfold settled in St. rewrite Ek in St. destruct St as (_ & X). congruence.
Qed.

Theorem Fin_unique t1 t2 : FinT t1 -> FinT t2 -> Dom t1 t2 -> Dom t2 t1 -> eqk t1 t2.
Proof.
  intros F1 F2 D12 D21. pose proof F1 as (S1 & P1 & T1 & St1). pose proof F2 as (S2 & P2 & T2' & St2).
  assert (Ecell : forall w, cell_of t1 w = cell_of t2 w).
  { intros w. apply crel_antisym; [apply P1|apply P2|apply D12|apply D21]. }
  assert (Ev : vars t1 = vars t2).
  { apply (nth_ext _ _ dcell dcell); [rewrite (st_len t1 S1), (st_len t2 S2); reflexivity|].
    intros n _. apply (Ecell n). }
  assert (Ecn : forall c,
    let k1 := constr_of t1 c in let k2 := constr_of t2 c in
    k_elim k1 = k_elim k2 /\ k_alts k1 = k_alts k2 /\ k_strict k1 = k_strict k2 /\ k_done k1 = k_done k2 /\
    follow t1 (k_ref k1) = follow t2 (k_ref k2) /\
    (k_ref k1 = k_ref k2 \/ (k_elim k1 = true /\ k_done k1 = true))).
  { intros c. cbv zeta. destruct (in_dec Nat.eq_dec c (cset_of s0 i)) as [Hc|Hc].
    2:{ rewrite (st_out t1 S1 c Hc), (st_out t2 S2 c Hc). repeat split; auto. apply follow_vars. exact Ev. }
    destruct (k_elim (constr_of s0 c)) eqn:E.
    2:{ destruct (sub_rec t1 c S1 E) as (R1 & A1 & X1). destruct (sub_rec t2 c S2 E) as (R2 & A2 & X2).
        rewrite (kind_sub t1 c S1 E), (kind_sub t2 c S2 E), R1, R2, A1, A2, X1, X2.
        repeat split; auto; [|apply follow_vars; exact Ev].
        assert (V : vd t1 (constr_of t1 c) = vd t2 (constr_of t2 c)) by (apply pfc_vars; congruence).
        pose proof (fin_sub_done t1 c F1 Hc E) as Q1. pose proof (fin_sub_done t2 c F2 Hc E) as Q2.
        rewrite V in Q1. destruct (k_done (constr_of t1 c)), (k_done (constr_of t2 c)); auto.
        - symmetry. apply Q2, Q1. reflexivity.
        - apply Q1, Q2. reflexivity. }
    destruct (k_done (constr_of s0 c)) eqn:D.
    { rewrite (st_don t1 S1 c E D), (st_don t2 S2 c E D). repeat split; auto. apply follow_vars. exact Ev. }
    destruct (alts0 c Hc E) as (l0 & _ & Ea & _).
    destruct (fin_alts t1 c l0 F1 Hc E D Ea) as (A1 & Dn1). destruct (fin_alts t2 c l0 F2 Hc E D Ea) as (A2 & Dn2).
    assert (EA : k_alts (constr_of t1 c) = k_alts (constr_of t2 c)).
    { rewrite A1, A2. f_equal. apply filter_ext. intros m. apply kp_vars. exact Ev. }
    assert (ED : k_done (constr_of t1 c) = k_done (constr_of t2 c)).
    { rewrite EA in Dn1. destruct (k_done (constr_of t1 c)), (k_done (constr_of t2 c)); auto.
      - symmetry. apply Dn2, Dn1. reflexivity.
      - apply Dn1, Dn2. reflexivity. }
    pose proof (lw_kw t1 (proj1 P1) c (in_range0 t1 c S1 Hc)) as Sh1. unfold shape in Sh1. rewrite (kind_elim t1 c S1 Hc E) in Sh1.
    pose proof (lw_kw t2 (proj1 P2) c (in_range0 t2 c S2 Hc)) as Sh2. unfold shape in Sh2. rewrite (kind_elim t2 c S2 Hc E) in Sh2.
    destruct Sh1 as (l1 & _ & El1), Sh2 as (l2 & _ & El2).
    destruct (elm_form t1 c l0 l1 S1 Hc E D Ea El1) as (X1 & _). destruct (elm_form t2 c l0 l2 S2 Hc E D Ea El2) as (X2 & _).
    assert (EF : follow t1 (k_ref (constr_of t1 c)) = follow t2 (k_ref (constr_of t2 c))).
    { rewrite (proj2 (st_elm t1 S1 c l0 Hc E D Ea)), (proj2 (st_elm t2 S2 c l0 Hc E D Ea)). apply follow_vars. exact Ev. }
    rewrite (kind_elim t1 c S1 Hc E), (kind_elim t2 c S2 Hc E).
    split; [reflexivity|split; [exact EA|split; [congruence|split; [exact ED|split; [exact EF|]]]]].
    destruct (k_done (constr_of t1 c)) eqn:D1; [right; auto|left].
    pose proof (St1 c (t_in t1 c F1 Hc D1)) as Y1. unfold settled in Y1. rewrite (kind_elim t1 c S1 Hc E) in Y1.
    assert (D2 : k_done (constr_of t2 c) = false) by congruence.
    pose proof (St2 c (t_in t2 c F2 Hc D2)) as Y2. unfold settled in Y2. rewrite (kind_elim t2 c S2 Hc E) in Y2.
    destruct Y1 as (_ & En1 & _), Y2 as (_ & En2 & _). congruence. }
  split; [exact Ev|split; [|split; [rewrite (st_clen t1 S1), (st_clen t2 S2); reflexivity|exact Ecn]]].
  apply (nth_ext _ _ [] []); [rewrite (st_cslen t1 S1), (st_cslen t2 S2); reflexivity|].
  intros j _. change (cset_of t1 j = cset_of t2 j).
  destruct (Nat.eq_dec j i) as [->|Nj]; [|rewrite (st_cso t1 S1 j Nj), (st_cso t2 S2 j Nj); reflexivity].
  destruct (st_csi t1 S1) as (Q1 & E1). destruct (st_csi t2 S2) as (Q2 & E2). rewrite E1, E2.
  apply filter_ext_in. intros c Hc.
  assert (M : forall t Q, FinT t -> cset_of t i = filter Q (cset_of s0 i) -> (Q c = true <-> k_done (constr_of t c) = false)).
  { intros t Q F Eq. split.
    - intros Qc. apply (fin_settled_nd t c F). rewrite Eq. apply filter_In. auto.
    - intros Dn. pose proof (t_in t c F Hc Dn) as X. rewrite Eq in X. apply filter_In in X. apply X. }
  pose proof (M t1 Q1 F1 E1) as M1. pose proof (M t2 Q2 F2 E2) as M2.
  destruct (Ecn c) as (_ & _ & _ & ED & _). rewrite ED in M1.
  destruct (Q1 c), (Q2 c); auto.
  - symmetry. apply M2, M1. reflexivity.
  - apply M1, M2. reflexivity.
Qed.


(* ---- running a round from (a store with the cells, sets and records of) s0 ---- *)
Definition startok (s : store) : Prop :=
  vars s = vars s0 /\ constrs s = constrs s0 /\ csets s = csets s0 /\ inv s.

Lemma start_step s : startok s -> Step s /\ Pre s.
Proof.
  intros (Ev & Ek & Ec & I).
  assert (Ecs : forall j, cset_of s j = cset_of s0 j) by (intros j; unfold cset_of; rewrite Ec; reflexivity).
  apply (cset_pres s0 s (fun _ => true) Step_refl P0 (conj Ev Ek) (fun j _ => Ecs j)); auto.
  - rewrite Ecs. symmetry. apply filter_all.
  - intros c _ X. discriminate.
  - rewrite Ec. reflexivity.
Qed.

Lemma start_dom s t : startok s -> T2 s0 t -> Dom s t.
Proof. intros (Ev & _) T w. rewrite (cell_of_vars s s0 w Ev). apply T. Qed.

Lemma no_dom : exists td, forall s, Step s -> ~ Dom s td.
Proof.
  set (cd := mkCell false None (match c_lower (cell_of s0 0) with Some _ => None | None => Some 0 end) None 0).
  exists (mkStore [cd] [] [] []). intros s Ss D.
  pose proof (crel_trans _ _ _ (st_cell s Ss 0) (D 0)) as C. apply crel_lower in C.
  change (cell_of (mkStore [cd] [] [] []) 0) with cd in C. cbn in C.
  destruct (c_lower (cell_of s0 0)); discriminate.
Qed.

Lemma round_run f v s t : startok s -> c_cs (cell_of s0 v) = i ->
  (forall s', Step s' -> Dom s' t -> FinT t) ->
  wp (check_constraints H f v) s (fun _ s' => FinT s' /\ (Dom s t -> Dom s' t)) (efuel (Dom s t)).
Proof.
  intros So Ci FH. destruct (start_step s So) as (Ss & P). pose proof So as (Ev & Ek & _).
  destruct (SPs_all t FH f f (le_n f)) as (CC & _).
  eapply wp_conseq; [apply (CC v s Ss P); rewrite (cell_of_vars s s0 v Ev); exact Ci| |auto].
  intros _ s' ((S' & P' & T') & St & Dm). split; [|exact Dm].
  split; [exact S'|split; [exact P'|split; [|exact St]]].
  apply (T2_sameVC_l s0 s s' (conj Ev Ek) T').
Qed.

Theorem round_unique f1 f2 v s1 s2 : startok s1 -> startok s2 -> c_cs (cell_of s0 v) = i ->
  match check_constraints H f1 v s1, check_constraints H f2 v s2 with
  | MOk _ t1, MOk _ t2 => eqk t1 t2
  | MOk _ _, MEr e _ => e = EFuel
  | MEr e _, MOk _ _ => e = EFuel
  | MEr _ _, MEr _ _ => True
  end.
Proof.
  intros So1 So2 Ci. destruct no_dom as (td & Ntd).
  assert (FHd : forall s', Step s' -> Dom s' td -> FinT td) by (intros s' Ss' D; destruct (Ntd s' Ss' D)).
  pose proof (round_run f1 v s1 td So1 Ci FHd) as R1. pose proof (round_run f2 v s2 td So2 Ci FHd) as R2.
  unfold wp in R1, R2.
  destruct (check_constraints H f1 v s1) as [u1 t1|e1 t1] eqn:E1;
    destruct (check_constraints H f2 v s2) as [u2 t2|e2 t2] eqn:E2; auto.
  - destruct R1 as (F1 & _), R2 as (F2 & _).
    pose proof (round_run f1 v s1 t2 So1 Ci (fun _ _ _ => F2)) as X1. unfold wp in X1. rewrite E1 in X1.
    pose proof (round_run f2 v s2 t1 So2 Ci (fun _ _ _ => F1)) as X2. unfold wp in X2. rewrite E2 in X2.
    apply Fin_unique; auto.
    + apply X1. apply start_dom; [exact So1|apply F2].
    + apply X2. apply start_dom; [exact So2|apply F1].
  - destruct R1 as (F1 & _).
    pose proof (round_run f2 v s2 t1 So2 Ci (fun _ _ _ => F1)) as X2. unfold wp in X2. rewrite E2 in X2.
    destruct X2 as [X|X]; [exact X|]. exfalso. apply X. apply start_dom; [exact So2|apply F1].
  - destruct R2 as (F2 & _).
    pose proof (round_run f1 v s1 t2 So1 Ci (fun _ _ _ => F2)) as X1. unfold wp in X1. rewrite E1 in X1.
    destruct X1 as [X|X]; [exact X|]. exfalso. apply X. apply start_dom; [exact So1|apply F2].
Qed.

End R.
