(* C18 for the class progE, part R: one re-check round.

   Setting: a constraint-set index [i] and the store [s0] in which a re-check
   round on a variable v with c_cs v = i starts.  The constraints of [s0] are
   pure subtype constraints x <= A / x < A and elimination constraints over
   user base operators.  A round only writes the cells of ACTIVE variables
   (unbound, pointing to set i), the records of the constraints of set i and
   set i itself.

   [Inv s]   what every state of the round satisfies, relative to [s0]:
             [Step] (refinement of the cells of active variables, shape of the
             constraint records: alternatives = a filter of the minimized
             declared ones, nothing that could still be kept has been dropped)
             and [Pre] (well-formedness; every pending elimination constraint
             of the set refers to an active variable or is settled).
   [T2 s s'] two-state facts of every (complete) operation.
   [Stl s]   every constraint left in set i is settled: re-checking it is a
             no-op.
   [Dom s t] the cells of t refine those of s.
   The specifications [SP] of check_constraints / fulfill / below / bind on
   this fragment say, for an arbitrary [t] with [Fin t] (= Inv, T2 s0 t, Stl:
   what the successful run of ANOTHER schedule ends in): a run from a state
   that dominates t ends in a state that dominates t, and fails only for lack
   of fuel.  Two successful runs therefore end in stores that dominate each
   other - the same cells - and the records and the set follow ([Fin_unique]). *)
From Coq Require Import List Arith Bool Lia Permutation.
Import ListNotations.
From TF Require Import Base.Hier Base.Ty Sub.SubSpec Infer.Store Infer.Engine Infer.Run
  Infer.Sched Infer.Inv Infer.Sound Infer.FixLeast Infer.TermP Infer.SchedIndep Infer.SoundSub
  Infer.TermSub Infer.SoundElimS Infer.SoundElimK Infer.SoundElim Infer.TermElim
  Infer.SchedIndepElimA.
From TF Require Infer.Lub Infer.FitsEngineList.

Unset Implicit Arguments.

Local Arguments set_cell s v c /.
Local Arguments set_cset s i l /.
Local Arguments set_constr s i k /.

Section R.
Variable H : hier.
Hypothesis W : wf_hier H.
Variable i : nat.
Local Notation gd := (FL.good H).
Local Notation ob := FL.ob.
Local Notation obs := FL.obs.
Local Notation mins_of := (FL.mins_of H).
Local Notation ole := (Lub.ole H).
Local Notation bok := (Sound.bok H).
Local Notation inv := (invb true).
Local Notation len s := (length (vars s)).
Local Notation vd s k := (pfc H 4 s k).

Definition unb (s : store) (w : nat) : Prop := c_bound (cell_of s w) = None.
Definition act (s : store) (w : nat) : Prop :=
  w < len s /\ unb s w /\ c_cs (cell_of s w) = i.

(* ------------------------------------------------------------------ *)
(* refinement of a cell                                                 *)
(* ------------------------------------------------------------------ *)
Definition bcell (a : nat) : cell := mkCell false (Some (O a [])) (Some a) (Some a) i.

Definition ref (c c' : cell) : Prop :=
  c_cs c' = i /\ c_lower c' = c_lower c /\ (c_wild c' = true -> c_wild c = true) /\
  ((c_bound c' = None /\ forall u, c_upper c = Some u -> exists u', c_upper c' = Some u' /\ ole u' u) \/
   (exists a, c' = bcell a /\ c_lower c = Some a /\ forall u, c_upper c = Some u -> ole a u)).

Definition crel (c c' : cell) : Prop :=
  c' = c \/ (c_bound c = None /\ c_cs c = i /\ ref c c').

Lemma crel_refl c : crel c c.
Proof. left. reflexivity. Qed.

Lemma crel_bound c c' t : crel c c' -> c_bound c = Some t -> c' = c.
Proof. intros [E|(N & _)] B; [exact E|congruence]. Qed.

Lemma crel_cs c c' : crel c c' -> c_cs c' = c_cs c.
Proof. intros [->|(_ & E & (E' & _))]; congruence. Qed.

Lemma crel_lower c c' : crel c c' -> c_lower c' = c_lower c.
Proof. intros [->|(_ & _ & (_ & E & _))]; auto. Qed.

Lemma crel_unb c c' : crel c c' -> c_bound c' = None -> c_bound c = None.
Proof. intros [->|(N & _)]; auto. Qed.

Lemma crel_trans c1 c2 c3 : crel c1 c2 -> crel c2 c3 -> crel c1 c3.
Proof.
  intros [->|(N1 & I1 & R1)] R23; [exact R23|].
  destruct R23 as [->|(N2 & I2 & R2)]; [right; auto|].
  right. split; [exact N1|split; [exact I1|]].
  destruct R1 as (Ci1 & L1 & W1 & D1), R2 as (Ci2 & L2 & W2 & D2).
  split; [exact Ci2|split; [congruence|split; [auto|]]].
  destruct D1 as [(B1 & U1)|(a & E & _)]; [|rewrite E in N2; discriminate].
  destruct D2 as [(B2 & U2)|(a & E & La & Ua)].
  - left. split; [exact B2|]. intros u Hu. destruct (U1 u Hu) as (u' & Hu' & Le').
    destruct (U2 u' Hu') as (u'' & Hu'' & Le''). exists u''. split; [exact Hu''|].
    apply (SchedIndepElimA.ole_trans H W u'' u' u); auto.
  - right. exists a. split; [exact E|split; [congruence|]].
    intros u Hu. destruct (U1 u Hu) as (u' & Hu' & Le'). apply (SchedIndepElimA.ole_trans H W a u' u); [apply Ua; exact Hu'|exact Le'].
Qed.

(* two cells that refine each other are equal *)
Lemma crel_antisym c c' : bok c -> bok c' -> crel c c' -> crel c' c -> c = c'.
Proof.
  intros B B' [->|(N & I & R)] R'; [reflexivity|].
  destruct R' as [E|(N' & I' & R')]; [exact E|].
  destruct R as (Ci & L & Wd & D), R' as (Ci' & L' & Wd' & D').
  destruct D as [(Bn & U)|(a & E & _)]; [|rewrite E in N'; discriminate].
  destruct D' as [(Bn' & U')|(a & E & _)]; [|rewrite E in N; discriminate].
  destruct c as [w b l u cs], c' as [w' b' l' u' cs']. cbn in *. subst.
  assert (Ew : w = w').
  { destruct w, w'; auto. symmetry; auto. }
  assert (Eu : u = u').
  { destruct u as [x|], u' as [y|]; auto.
    - destruct (U x eq_refl) as (y' & [= <-] & L1). destruct (U' y eq_refl) as (x' & [= <-] & L2).
      f_equal. apply (Lub.ole_antisym H W); auto.
    - destruct (U x eq_refl) as (y' & X & _). discriminate.
    - destruct (U' y eq_refl) as (y' & X & _). discriminate. }
  subst. reflexivity.
Qed.

(* the filter verdict on the cell of a variable (unbound or resolved to a base type) *)
Definition kpcell (c : cell) (m : nat) : bool :=
  match c_bound c with
  | None => kpc H c m
  | Some (O o _) => kpo H o m
  | Some (V _) => false
  end.

Lemma kpcell_mono c c' m : bok c -> bok c' -> gd m -> crel c c' ->
  kpcell c' m = true -> kpcell c m = true.
Proof.
  intros B B' G [->|(N & I & R)]; [auto|].
  destruct R as (Ci & L & Wd & D). unfold kpcell at 2. rewrite N.
  destruct D as [(Bn & U)|(a & E & La & Ua)].
  - unfold kpcell. rewrite Bn. apply (kpc_mono H W c c' m B' G L U).
  - subst c'. unfold kpcell. cbn [c_bound bcell]. apply (kpc_bound_mono H W c a m B G La).
Qed.

(* ------------------------------------------------------------------ *)
(* following in a later store                                           *)
(* ------------------------------------------------------------------ *)
Definition bext (s s' : store) : Prop :=
  forall v x, c_bound (cell_of s v) = Some x -> c_bound (cell_of s' v) = Some x.

Lemma crel_bext s s' : (forall w, crel (cell_of s w) (cell_of s' w)) -> bext s s'.
Proof. intros C v x Hv. rewrite (crel_bound _ _ x (C v) Hv). exact Hv. Qed.

Lemma follow_ext s s' t : inv s' -> bext s s' -> follow s' (follow s t) = follow s' t.
Proof. intros I E. apply follow_follow; [apply I|exact E]. Qed.

Lemma follow_idem s t : inv s -> follow s (follow s t) = follow s t.
Proof. intros I. apply follow_of_nb. eapply Inv.follow_unbound. exact I. Qed.


Lemma follow_var_back s s' r w' : inv s -> inv s' -> (forall w, crel (cell_of s w) (cell_of s' w)) ->
  follow s' r = V w' -> follow s r = V w'.
Proof.
  intros I I' C E. rewrite <- (follow_ext s s' r I' (crel_bext s s' C)) in E.
  pose proof (Inv.follow_unbound true s r I) as N.
  destruct (follow s r) as [w1|o xs] eqn:Ef; [|rewrite Lub.follow_O in E; discriminate].
  cbn [nb] in N. destruct (C w1) as [Ec|(_ & _ & (_ & _ & _ & D))].
  - rewrite Lub.follow_V_unbound in E by (rewrite Ec; exact N). exact E.
  - destruct D as [(Bn & _)|(a & Ec & _)].
    + rewrite Lub.follow_V_unbound in E by exact Bn. exact E.
    + rewrite (Lub.follow_V_bound_O s' w1 a []) in E by (rewrite Ec; reflexivity). discriminate.
Qed.

(* the filter verdict is monotone along a refinement of the store *)
Lemma kp_mono s s' r m : inv s -> inv s' -> (forall w, bok (cell_of s w)) -> (forall w, bok (cell_of s' w)) ->
  gd m -> (forall w, crel (cell_of s w) (cell_of s' w)) ->
  kp H s' r m = true -> kp H s r m = true.
Proof.
  intros I I' B B' G C. unfold kp at 1. rewrite <- (follow_ext s s' r I' (crel_bext s s' C)).
  pose proof (Inv.follow_unbound true s r I) as N. unfold kp.
  destruct (follow s r) as [w1|o xs] eqn:Ef; [|rewrite Lub.follow_O; auto].
  cbn [nb] in N. destruct (C w1) as [Ec|(_ & _ & R)].
  - rewrite Lub.follow_V_unbound by (rewrite Ec; exact N). rewrite Ec. auto.
  - destruct R as (Ci & L & Wd & D). destruct D as [(Bn & U)|(a & Ec & La & Ua)].
    + rewrite Lub.follow_V_unbound by exact Bn. apply (kpc_mono H W _ _ m (B' w1) G L U).
    + rewrite (Lub.follow_V_bound_O s' w1 a []) by (rewrite Ec; reflexivity).
      apply (kpc_bound_mono H W _ a m (B w1) G La).
Qed.

(* a fulfilled subtype constraint stays fulfilled *)
Lemma vd_done_mono s s' k a : inv s -> inv s' -> (forall w, crel (cell_of s w) (cell_of s' w)) ->
  k_alts k = [O a []] -> basic H a = true ->
  vd s k = PDone -> vd s' k = PDone.
Proof.
  intros I I' C Ea Ba D.
  pose proof (Inv.follow_unbound true s (k_ref k) I) as N.
  destruct (follow s (k_ref k)) as [w1|o xs] eqn:Ef.
  - cbn [nb] in N.
    rewrite (pfc_var H W 0 s k w1 a (inv_chain true s I) Ef Ea Ba) in D. unfold vdv in D.
    destruct (a =? Top) eqn:ET; [|destruct (kpc H (cell_of s w1) a); discriminate].
    destruct (k_strict k) eqn:Es; [discriminate|]. apply Nat.eqb_eq in ET. subst a.
    assert (E' : follow s' (k_ref k) = follow s' (V w1)).
    { rewrite <- (follow_ext s s' _ I' (crel_bext s s' C)), Ef. reflexivity. }
    destruct (C w1) as [Ec|(_ & _ & (_ & _ & _ & Dd))].
    + rewrite Lub.follow_V_unbound in E' by (rewrite Ec; exact N).
      rewrite (pfc_var H W 0 s' k w1 Top (inv_chain true s' I') E' Ea Ba). unfold vdv. rewrite Es. reflexivity.
    + destruct Dd as [(Bn & _)|(b & Ec & _)].
      * rewrite Lub.follow_V_unbound in E' by exact Bn.
        rewrite (pfc_var H W 0 s' k w1 Top (inv_chain true s' I') E' Ea Ba). unfold vdv. rewrite Es. reflexivity.
      * rewrite (Lub.follow_V_bound_O s' w1 b []) in E' by (rewrite Ec; reflexivity).
        cbn [pfc]. rewrite Ea. cbn [ubase]. rewrite E'. cbn [Nat.eqb Top orb]. rewrite orb_true_r.
        cbn [match_f]. rewrite Lub.follow_O, E'. cbn [andb Nat.eqb Top]. rewrite orb_true_r. rewrite Es. reflexivity.
  - assert (E' : follow s' (k_ref k) = O o xs).
    { rewrite <- (follow_ext s s' _ I' (crel_bext s s' C)), Ef. apply Lub.follow_O. }
    rewrite <- (pfc_res H 4 s s' k o xs a Ef E' Ea Ba). exact D.
Qed.

(* ------------------------------------------------------------------ *)
(* the invariants of a round                                            *)
(* ------------------------------------------------------------------ *)
Variable s0 : store.

Definition rho (c : nat) : tyv := follow s0 (k_ref (constr_of s0 c)).

Record LW (s : store) : Prop := mkLW {
  lw_inv : inv s;
  lw_bok : forall v, bok (cell_of s v);
  lw_kw : KW H s;
  lw_pi : forall c l, c < length (constrs s) -> k_elim (constr_of s c) = true ->
            k_alts (constr_of s c) = obs l -> PI H l
}.

Definition stlE (s : store) (c : nat) : Prop :=
  let k := constr_of s c in
  k_done k = false /\ follow s (k_ref k) = k_ref k /\
  exists l, k_alts k = obs l /\ anti H l /\ 2 <= length l /\
            forall m, In m l -> kp H s (k_ref k) m = true.

Definition stlS (s : store) (c : nat) : Prop :=
  let k := constr_of s c in k_done k = false /\ vd s k = PKeep.

Definition settled (s : store) (c : nat) : Prop :=
  if k_elim (constr_of s c) then stlE s c else stlS s c.

Definition Stl (s : store) : Prop := forall c, In c (cset_of s i) -> settled s c.

Definition HR (s : store) : Prop :=
  forall c w, In c (cset_of s i) -> k_elim (constr_of s c) = true -> k_done (constr_of s c) = false ->
    follow s (k_ref (constr_of s c)) = V w -> act s w \/ stlE s c.

Definition SD (s : store) : Prop :=
  forall c, In c (cset_of s0 i) -> k_elim (constr_of s c) = false -> k_done (constr_of s c) = true ->
    vd s (constr_of s c) = PDone.

Definition Pre (s : store) : Prop := LW s /\ HR s /\ SD s.

Record Step (s : store) : Prop := mkStep {
  st_len : len s = len s0;
  st_clen : length (constrs s) = length (constrs s0);
  st_cell : forall w, crel (cell_of s0 w) (cell_of s w);
  st_cso : forall j, j <> i -> cset_of s j = cset_of s0 j;
  st_csi : exists P, cset_of s i = filter P (cset_of s0 i);
  st_rm : forall c, In c (cset_of s0 i) -> ~ In c (cset_of s i) -> k_done (constr_of s c) = true;
  st_out : forall c, ~ In c (cset_of s0 i) -> constr_of s c = constr_of s0 c;
  st_sub : forall c, k_elim (constr_of s0 c) = false ->
             constr_of s c = constr_of s0 c \/ constr_of s c = done_of (constr_of s0 c);
  st_don : forall c, k_elim (constr_of s0 c) = true -> k_done (constr_of s0 c) = true ->
             constr_of s c = constr_of s0 c;
  st_elm : forall c l, In c (cset_of s0 i) -> k_elim (constr_of s0 c) = true ->
             k_done (constr_of s0 c) = false -> k_alts (constr_of s0 c) = obs l ->
             (constr_of s c = constr_of s0 c \/
              exists r P d, constr_of s c = mkConstr true r (obs (filter P (mins_of l)))
                                                     (k_strict (constr_of s0 c)) d) /\
             follow s (k_ref (constr_of s c)) = follow s (rho c);
  st_keeps : forall c l m, In c (cset_of s0 i) -> k_elim (constr_of s0 c) = true ->
             k_done (constr_of s0 c) = false -> k_alts (constr_of s0 c) = obs l ->
             In m (mins_of l) -> ~ In (ob m) (k_alts (constr_of s c)) -> kp H s (rho c) m = false
}.

(* the done clause of an elimination constraint fulfilled with alternative m *)
Definition dclv (s : store) (w m : nat) : Prop :=
  c_wild (cell_of s w) = false /\
  (unb s w -> exists u, c_upper (cell_of s w) = Some u /\ ole u m /\ c_lower (cell_of s w) <> Some u) /\
  (forall b, c_bound (cell_of s w) = Some b -> exists o, b = O o [] /\ ole o m).

Definition dcl (s : store) (r : tyv) (m : nat) : Prop :=
  match r with V w => dclv s w m | O o _ => kpo H o m = true end.

Record T2 (s s' : store) : Prop := mkT2 {
  t2_cell : forall w, crel (cell_of s w) (cell_of s' w);
  t2_ne : forall w a, unb s' w -> c_lower (cell_of s' w) = Some a -> c_upper (cell_of s' w) = Some a ->
            c_upper (cell_of s w) = Some a;
  t2_done : forall c, k_done (constr_of s c) = true -> k_done (constr_of s' c) = true;
  t2_frz : forall c, k_elim (constr_of s c) = true -> k_done (constr_of s c) = true ->
             constr_of s' c = constr_of s c;
  t2_dcl : forall c, In c (cset_of s0 i) -> k_elim (constr_of s0 c) = true ->
             k_done (constr_of s c) = false -> k_done (constr_of s' c) = true ->
             exists m, k_alts (constr_of s' c) = [ob m] /\ dcl s' (rho c) m
}.

Definition Dom (s t : store) : Prop := forall w, crel (cell_of s w) (cell_of t w).

Lemma T2_refl s : T2 s s.
Proof.
  constructor; auto using crel_refl. intros c _ _ E1 E2. congruence.
Qed.

Lemma dclv_T2 s s' w m : T2 s s' -> dclv s w m -> dclv s' w m.
Proof.
  intros T (Wd & U & B). pose proof (t2_cell _ _ T w) as C. split; [|split].
  - destruct C as [->|(_ & _ & (_ & _ & Wi & _))]; [exact Wd|].
    destruct (c_wild (cell_of s' w)); [|reflexivity]. rewrite Wi in Wd by reflexivity. discriminate.
  - intros U'. destruct C as [Ec|(N & _ & (_ & L & _ & D))].
    + rewrite Ec. apply U. unfold unb in *. rewrite <- Ec. exact U'.
    + destruct (U N) as (u & Hu & Le & Ne).
      destruct D as [(_ & Uu)|(a & Ec & _)]; [|unfold unb in U'; rewrite Ec in U'; discriminate].
      destruct (Uu u Hu) as (u' & Hu' & Le'). exists u'. split; [exact Hu'|split].
      * apply (SchedIndepElimA.ole_trans H W u' u m); auto.
      * intros El. rewrite L in El.
        pose proof (t2_ne _ _ T w u' U' ltac:(rewrite L; exact El) Hu') as X.
        rewrite Hu in X. injection X as ->. apply Ne. exact El.
  - intros b Hb. destruct C as [Ec|(N & _ & (_ & L & _ & D))].
    + apply B. rewrite <- Ec. exact Hb.
    + destruct D as [(Bn & _)|(a & Ec & La & Ua)]; [congruence|].
      rewrite Ec in Hb. cbn in Hb. injection Hb as <-. exists a. split; [reflexivity|].
      destruct (U N) as (u & Hu & Le & _). apply (SchedIndepElimA.ole_trans H W a u m); auto.
Qed.

Lemma dcl_T2 s s' r m : T2 s s' -> dcl s r m -> dcl s' r m.
Proof. destruct r as [w|o xs]; cbn [dcl]; [apply dclv_T2|auto]. Qed.

Lemma T2_trans s1 s2 s3 : T2 s1 s2 -> T2 s2 s3 -> T2 s1 s3.
Proof.
  intros A B. constructor.
  - intros w. eapply crel_trans; [apply (t2_cell _ _ A)|apply (t2_cell _ _ B)].
  - intros w a U L Up. pose proof (t2_ne _ _ B w a U L Up) as X.
    pose proof (t2_cell _ _ B w) as C.
    apply (t2_ne _ _ A w a); [eapply crel_unb; eauto|rewrite <- (crel_lower _ _ C); exact L|exact X].
  - intros c D. apply (t2_done _ _ B), (t2_done _ _ A), D.
  - intros c E D. rewrite (t2_frz _ _ B c), (t2_frz _ _ A c); auto; rewrite (t2_frz _ _ A c); auto.
  - intros c Hc E D1 D3. destruct (k_done (constr_of s2 c)) eqn:D2.
    + destruct (t2_dcl _ _ A c Hc E D1 D2) as (m & Ea & Dc).
      assert (E2 : k_elim (constr_of s2 c) = true).
      { destruct (k_elim (constr_of s2 c)) eqn:X; [reflexivity|]. rewrite Ea in *. exfalso.
        clear - X. admit. }
      exists m. rewrite (t2_frz _ _ B c E2 D2). split; [exact Ea|]. eapply dcl_T2; eauto.
    + apply (t2_dcl _ _ B c Hc E D2 D3).
Abort.

End R.
