(* The re-check schedule only reorders the pending constraints. *)
From Coq Require Import List Arith Bool Lia Permutation.
Import ListNotations.
From TF Require Import Base.Hier Base.Ty Infer.Store Infer.Engine Infer.Run.

Lemma remove_nth_perm {A} (d : A) : forall (l : list A) i, i < length l ->
  Permutation (nth i l d :: remove_nth i l) l.
Proof.
  induction l as [|x l IH]; intros i Hi; cbn in Hi; [lia|].
  destruct i as [|i]; cbn [nth remove_nth].
  - reflexivity.
  - eapply perm_trans; [apply perm_swap|]. constructor. apply IH. lia.
Qed.

Lemma remove_nth_length {A} : forall (l : list A) i, i < length l ->
  length (remove_nth i l) = length l - 1.
Proof.
  induction l as [|x l IH]; intros i Hi; cbn in Hi; [lia|].
  destruct i as [|i]; cbn [remove_nth length]; [lia|].
  rewrite IH by lia. destruct l; cbn in *; lia.
Qed.

(* every schedule entry yields a permutation of the pending list *)
Theorem permute_perm : forall fuel r l, length l <= fuel -> Permutation (permute fuel r l) l.
Proof.
  induction fuel as [|f IH]; intros r l Hl.
  - destruct l; [reflexivity | cbn in Hl; lia].
  - cbn [permute]. destruct l as [|x l']; [reflexivity|].
    set (l := x :: l') in *.
    assert (Hn : length l <> 0) by (subst l; cbn; lia).
    assert (Hi : r mod length l < length l) by (apply Nat.mod_upper_bound; exact Hn).
    eapply perm_trans; [|apply (remove_nth_perm 0 l _ Hi)].
    constructor. apply IH. rewrite remove_nth_length by exact Hi. lia.
Qed.

(* entry 0 is the creation order itself *)
Lemma permute_zero : forall fuel l, length l <= fuel -> permute fuel 0 l = l.
Proof.
  induction fuel as [|f IH]; intros l Hl; [reflexivity|].
  destruct l as [|x l]; [reflexivity|].
  cbn [permute]. rewrite Nat.mod_0_l by (cbn; lia).
  rewrite Nat.div_0_l by (cbn; lia). cbn [nth remove_nth].
  f_equal. apply IH. cbn in Hl. lia.
Qed.
