(* C17, termination half, for the engine model WITH pure subtype constraints
   (x <= A / x < A on bare variables, base targets; class SoundSub.progS).

   Part 1  more fuel never changes a successful reader (match_f, occurs_f, vars_f).
   Part 2  a pure constraint is re-checked with constant fuel: [pfc_nofuel] - four
           units suffice whatever its reference is resolved to; a whole
           check_constraints round therefore needs five units, INDEPENDENT of the
           number of pending constraints (forM hands every fulfill the same fuel).
   Part 3  fuel-shifted forward simulation [simF]: if the constraint-free run
           (SoundSub's erasure) with fuel f does not run out of fuel, the real
           run with fuel f + 4 does not either ([simFs_all]: one induction on
           fuel over unify/bind/above/below/fix_ty).
   Part 4  the bounds of Infer/TermP.v transfer: unify / apply / fix_ty.
   Part 5  TypeSchema.instance with m pure constraints.
   Part 6  whole programs: [prog_fuel]. *)
From Coq Require Import List Arith Bool Lia Permutation.
Import ListNotations.
From TF Require Import Base.Hier Base.Ty Sub.SubSpec Infer.Store Infer.Engine Infer.Run
  Infer.Sched Infer.Inv Infer.Sound Infer.FixLeast Infer.TermP Infer.SchedIndep Infer.SoundSub.
From TF Require Infer.Lub.

Unset Implicit Arguments.

Local Notation len s := (length (vars s)).

(* ================================================================== *)
(* Part 1.  Readers are monotone in fuel                                *)
(* ================================================================== *)
Section FuelMono.
Variable H : hier.

Lemma match_f_mono : forall f s sub aw a b r, match_f H f s sub aw a b = Ok r ->
  forall f', f <= f' -> match_f H f' s sub aw a b = Ok r.
Proof.
  induction f as [|f IH]; intros s sub aw a b r E f' L; [discriminate|].
  destruct f' as [|f']; [lia|]. assert (L' : f <= f') by lia. clear L.
  revert E. cbn [match_f].
  destruct (follow s a) as [va|oa xs]; destruct (follow s b) as [vb|ob ys]; auto.
  destruct (sub && ((oa =? Bottom) || (ob =? Top))); auto.
  destruct (basic H oa); auto.
  destruct (negb (oa =? ob)); auto.
  generalize (Some true). generalize (variance H oa) as vs. revert ys.
  induction xs as [|x xs IHx]; intros ys vs acc; destruct vs as [|v vs]; auto;
    destruct ys as [|y ys]; auto.
  destruct v.
  - destruct (match_f H f s sub aw x y) as [r1|e] eqn:E1; [|discriminate].
    rewrite (IH _ _ _ _ _ _ E1 f' L'). destruct r1 as [[|]|]; auto.
  - destruct (match_f H f s sub aw y x) as [r1|e] eqn:E1; [|discriminate].
    rewrite (IH _ _ _ _ _ _ E1 f' L'). destruct r1 as [[|]|]; auto.
Qed.

Lemma occurs_f_mono : forall f s a b r, occurs_f H f s a b = Ok r ->
  forall f', f <= f' -> occurs_f H f' s a b = Ok r.
Proof.
  induction f as [|f IH]; intros s a b r E f' L; [discriminate|].
  destruct f' as [|f']; [lia|]. assert (L' : f <= f') by lia. clear L.
  revert E. cbn [occurs_f].
  destruct (match_f H f s false false (follow s a) (follow s b)) as [m|e] eqn:Em; [|discriminate].
  rewrite (match_f_mono _ _ _ _ _ _ _ Em f' L').
  assert (G : forall args,
    (fix go (l : list tyv) : res bool :=
       match l with
       | [] => Ok false
       | t :: r0 => match occurs_f H f s t (follow s b) with
                    | Er e => Er e | Ok true => Ok true | Ok false => go r0 end
       end) args = Ok r ->
    (fix go (l : list tyv) : res bool :=
       match l with
       | [] => Ok false
       | t :: r0 => match occurs_f H f' s t (follow s b) with
                    | Er e => Er e | Ok true => Ok true | Ok false => go r0 end
       end) args = Ok r).
  { induction args as [|x xs IHx]; auto.
    destruct (occurs_f H f s x (follow s b)) as [r1|e] eqn:E1; [|discriminate].
    rewrite (IH _ _ _ _ E1 f' L'). destruct r1; auto. }
  destruct m as [[|]|]; auto; destruct (follow s a) as [va|oa xs]; auto.
Qed.

Lemma vars_f_mono : forall f s t acc r, vars_f f s t acc = Ok r ->
  forall f', f <= f' -> vars_f f' s t acc = Ok r.
Proof.
  induction f as [|f IH]; intros s t acc r E f' L; [discriminate|].
  destruct f' as [|f']; [lia|]. assert (L' : f <= f') by lia. clear L.
  revert E. cbn [vars_f].
  destruct (follow s t) as [v|o args]; auto.
  revert acc. induction args as [|x xs IHx]; intros acc; auto.
  destruct (vars_f f s x acc) as [acc'|e] eqn:E1; [|discriminate].
  rewrite (IH _ _ _ _ E1 f' L'). auto.
Qed.

End FuelMono.

(* ================================================================== *)
(* Part 2.  Re-checking a pure constraint needs constant fuel           *)
(* ================================================================== *)
Section Recheck.
Variable H : hier.

Lemma match_base_r_ok f s sub aw ref a : exists r, match_f H (S f) s sub aw ref (O a []) = Ok r.
Proof.
  cbn [match_f]. rewrite follow_O. destruct (follow s ref) as [va|oa xs].
  - repeat match goal with |- context[if ?c then _ else _] => destruct c end; eauto.
  - destruct (sub && ((oa =? Bottom) || (a =? Top))); eauto.
    destruct (basic H oa); eauto. destruct (negb (oa =? a)); eauto.
    destruct (variance H oa); eauto. destruct xs; eauto.
Qed.

Lemma ubase_nofuel f s ref a : ubase H (S (S (S f))) s ref a <> Some EFuel.
Proof.
  cbn [ubase]. destruct (follow s ref) as [va|oa xs].
  - destruct (a =? Top); [discriminate|].
    destruct (TermP.occurs_base_ok H f s a (V va)) as (r & ->). destruct r; discriminate.
  - repeat match goal with |- context[if ?c then _ else _] => destruct c end; discriminate.
Qed.

(* whatever the reference of the constraint is resolved to *)
Lemma pfc_nofuel n s k : 4 <= n -> pfc H n s k <> PErr EFuel.
Proof.
  intros L. destruct n as [|[|[|[|n]]]]; try lia. cbn [pfc].
  destruct (k_alts k) as [|t [|t2 r]]; try discriminate.
  destruct t as [v|a [|x xs]]; try discriminate.
  pose proof (ubase_nofuel n s (k_ref k) a) as U.
  destruct (ubase H (S (S (S n))) s (k_ref k) a) as [e|]; [congruence|].
  destruct (match_base_r_ok (S (S n)) s true false (k_ref k) a) as (r1 & ->).
  destruct (match_base_r_ok (S (S n)) s false false (k_ref k) a) as (r2 & ->).
  destruct r1 as [[|]|]; try discriminate.
  destruct (k_strict k); [|discriminate]. destruct r2 as [[|]|]; discriminate.
Qed.

Lemma loop_nofuel n v : 4 <= n -> forall l s s', lpure H s l -> loop H n v l s <> MEr EFuel s'.
Proof.
  intros L l s s' P E. apply (loop_err H n v l s EFuel s' P) in E.
  destruct E as (c & _ & E). unfold act_of in E.
  pose proof (pfc_nofuel n s (constr_of s c) L) as N.
  destruct (pfc H n s (constr_of s c)) as [e| |]; try discriminate.
  - congruence.
  - destruct (k_done (constr_of s c)); discriminate.
Qed.

(* a whole re-check round: five units, whatever the number of pending constraints *)
Theorem cc_nofuel n v s s' : allpure H s -> 5 <= n -> check_constraints H n v s <> MEr EFuel s'.
Proof.
  intros P L. destruct n as [|f]; [lia|]. rewrite cc_S_eq. cbv zeta.
  set (p := cset_of s (c_cs (cell_of s v))).
  destruct (2 <=? length p); [destruct (sched s)|]; apply loop_nofuel; try lia;
    apply allpure_lpure; first [exact P|eapply allpure_constrs; [|exact P]; reflexivity].
Qed.

End Recheck.

(* ================================================================== *)
(* Part 3.  Fuel-shifted forward simulation                             *)
(* ================================================================== *)
Section Shift.
Variable H : hier.

(* m: the real run (pure constraints), m0: the constraint-free run.  If m0 does
   not run out of fuel, m does not either; they agree on success. *)
Definition simF {A} (m m0 : M A) : Prop :=
  forall s s0, Rv H s s0 ->
  match m0 s0 with
  | MOk a s0' => match m s with MOk a' s' => a' = a /\ Rv H s' s0' | MEr e _ => e <> EFuel end
  | MEr e0 _ => e0 <> EFuel -> match m s with MOk _ _ => False | MEr e _ => e <> EFuel end
  end.

Lemma simF_ret {A} (a : A) : simF (ret a) (ret a).
Proof. intros s s0 R. cbn. auto. Qed.

Lemma simF_fail {A} e : simF (@fail A e) (fail e).
Proof. intros s s0 R. cbn. auto. Qed.

Lemma simF_bind {A B} (m m0 : M A) (k k0 : A -> M B) :
  simF m m0 -> (forall a, simF (k a) (k0 a)) -> simF (bindM m k) (bindM m0 k0).
Proof.
  intros Sm Sk s s0 R. specialize (Sm s s0 R). unfold bindM.
  destruct (m0 s0) as [a s0'|e0 s0'].
  - destruct (m s) as [a' s'|e s'].
    + destruct Sm as (-> & R'). apply Sk. exact R'.
    + destruct (k0 a s0'); auto.
  - intros N. specialize (Sm N). destruct (m s); [destruct Sm|auto].
Qed.

(* total operations: the one-directional simulation of SoundSub is enough *)
Lemma simF_total {A} (m : M A) : sim2 H m m -> (forall s, exists a s', m s = MOk a s') -> simF m m.
Proof.
  intros Sm T s s0 R. destruct (T s) as (a & s' & E).
  destruct (Sm s s0 R a s' E) as (s0' & E0 & R'). rewrite E0, E. auto.
Qed.

Lemma simF_gets {A} (g : store -> A) :
  (forall s s0, vars s0 = vars s -> g s = g s0) -> simF (gets g) (gets g).
Proof. intros G. apply simF_total; [apply sim_gets; exact G|]. intros s. eexists; eexists; reflexivity. Qed.

Lemma simF_modify (g : store -> store) :
  (forall s s0, Rv H s s0 -> Rv H (g s) (g s0)) -> simF (modify g) (modify g).
Proof. intros G. apply simF_total; [apply sim_modify; exact G|]. intros s. eexists; eexists; reflexivity. Qed.

Lemma simF_upd_cell v g : simF (upd_cell v g) (upd_cell v g).
Proof. apply simF_total; [apply sim_upd_cell|]. intros s. eexists; eexists; reflexivity. Qed.

Lemma simF_fresh w : simF (fresh w) (fresh w).
Proof. apply simF_total; [apply sim_fresh|]. intros s. eexists; eexists; reflexivity. Qed.

Lemma fresh_list_total : forall n s, exists a s', fresh_list n s = MOk a s'.
Proof.
  induction n as [|n IH]; intros s; cbn [fresh_list]; [eexists; eexists; reflexivity|].
  unfold bindM at 1. unfold fresh at 1. cbn [alloc_var].
  match goal with |- exists a s', _ ?sx = _ => destruct (IH sx) as (a & s' & E) end.
  unfold bindM. rewrite E. eexists; eexists; reflexivity.
Qed.

Lemma simF_fresh_list n : simF (fresh_list n) (fresh_list n).
Proof. apply simF_total; [apply sim_fresh_list|apply fresh_list_total]. Qed.

Lemma simF_forM {A} (f f0 : A -> M unit) : (forall x, simF (f x) (f0 x)) -> forall l, simF (forM l f) (forM l f0).
Proof.
  intros F. induction l as [|x l IH]; cbn [forM]; [apply simF_ret|].
  apply simF_bind; auto.
Qed.

Lemma simF_lift {A} (r r0 : store -> res A) :
  (forall s s0 a, vars s0 = vars s -> r0 s0 = Ok a -> r s = Ok a) ->
  (forall s0 e, r0 s0 = Er e -> e = EFuel) -> simF (lift r) (lift r0).
Proof.
  intros G E s s0 R. unfold lift. destruct (r0 s0) as [a|e] eqn:E0.
  - rewrite (G s s0 a (proj1 R) E0). auto.
  - intros N. destruct (N (E s0 e E0)).
Qed.

Lemma simF_occurs f d a b :
  simF (lift (fun s => occurs_f H (f + d) s a b)) (lift (fun s => occurs_f H f s a b)).
Proof.
  apply simF_lift.
  - intros s s0 r E E0. rewrite (occurs_f_vars H (f + d) s s0 a b (eq_sym E)).
    eapply occurs_f_mono; [exact E0|lia].
  - intros s0 e. apply occurs_f_err.
Qed.

Lemma simF_vars_f f d t :
  simF (lift (fun s => vars_f (f + d) s t [])) (lift (fun s => vars_f f s t [])).
Proof.
  apply simF_lift.
  - intros s s0 r E E0. rewrite (vars_f_vars (f + d) s s0 t [] (eq_sym E)).
    eapply vars_f_mono; [exact E0|lia].
  - intros s0 e. apply vars_f_err.
Qed.

(* the only place where the two runs differ *)
Lemma simF_cc f v : simF (check_constraints H (f + 4) v) (check_constraints H f v).
Proof.
  intros s s0 R. destruct f as [|f]; [cbn; congruence|].
  rewrite (cc_nocs H f v s0) by apply R.
  destruct (check_constraints H (S f + 4) v s) as [[] s'|e s'] eqn:E.
  - split; [reflexivity|]. destruct (cc_vars H _ _ _ _ _ (proj1 (proj2 (proj2 R))) E) as (Ev & P' & Lc').
    destruct R as (Ev0 & N & P & Lc). split; [congruence|split; [auto|split; [auto|congruence]]].
  - intros ->. revert E. apply cc_nofuel; [apply R|lia].
Qed.

Ltac simF_rd :=
  let s := fresh "s" in let s0 := fresh "s0" in let E := fresh "E" in
  intros s s0 E; symmetry in E;
  rewrite ?(follow_vars s s0 _ E); rewrite ?(cell_of_vars s s0 _ E); reflexivity.

Ltac simF_step :=
  first
    [ apply simF_ret
    | apply simF_fail
    | apply simF_fresh_list
    | apply simF_fresh
    | apply simF_cc
    | apply simF_upd_cell
    | apply simF_occurs
    | apply simF_vars_f
    | apply simF_gets; simF_rd
    | apply simF_bind; [|intro]
    | apply simF_forM; intro
    | match goal with
      | |- simF (if ?c then _ else _) _ => destruct c
      | |- simF (match ?x with _ => _ end) _ => destruct x
      end ].

Definition simFs (f : nat) : Prop :=
  (forall sub skb skw a b, simF (unify H (f + 4) sub skb skw a b) (unify H f sub skb skw a b)) /\
  (forall v t, simF (bind H (f + 4) v t) (bind H f v t)) /\
  (forall v o, simF (above H (f + 4) v o) (above H f v o)) /\
  (forall v o, simF (below H (f + 4) v o) (below H f v o)) /\
  (forall pl t, simF (fix_ty H (f + 4) pl t) (fix_ty H f pl t)).

Lemma simF_fuel0 {A} (m : M A) : simF m (fail EFuel).
Proof. intros s s0 R. cbn. congruence. Qed.

Lemma simFs_0 : simFs 0.
Proof. repeat split; intros; apply simF_fuel0. Qed.

Lemma simFs_step f : simFs f -> simFs (S f).
Proof.
  intros (IHu & IHb & IHa & IHl & IHx). change (S f + 4) with (S (f + 4)).
  assert (Hb : forall v t, simF (bind H (S (f + 4)) v t) (bind H (S f) v t)).
  { intros v t. rewrite !bind_S. unfold set_wild, set_bound, set_cs.
    repeat simF_step; auto.
    - apply simF_modify. intros s s0 R. apply Rv_set_cset_union. exact R.
    - apply simF_modify. intros s s0 R. apply Rv_set_cset_fold. exact R. }
  assert (Ha : forall v o, simF (above H (S (f + 4)) v o) (above H (S f) v o)).
  { intros v o. rewrite !above_S. unfold set_wild, set_lower. repeat simF_step; auto. }
  assert (Hl : forall v o, simF (below H (S (f + 4)) v o) (below H (S f) v o)).
  { intros v o. rewrite !below_S. unfold set_wild, set_upper. repeat simF_step; auto. }
  assert (Hx : forall pl t, simF (fix_ty H (S (f + 4)) pl t) (fix_ty H (S f) pl t)).
  { intros pl t. rewrite !fix_ty_S. repeat simF_step; auto.
    generalize (variance H o) as vs.
    induction args as [|p ps IHp]; intros [|b0 vs]; repeat simF_step; auto. }
  repeat split; auto.
  intros sub skb skw a b. rewrite !unify_S. repeat simF_step; auto.
  generalize (variance H o) as vs. revert args0.
  induction args as [|x xs IHxs]; intros [|y ys] [|b0 vs]; repeat simF_step; auto.
Qed.

Theorem simFs_all : forall f, simFs f.
Proof. induction f as [|f IH]; [apply simFs_0|apply simFs_step; exact IH]. Qed.

Lemma simF_unify f sub skb skw a b : simF (unify H (f + 4) sub skb skw a b) (unify H f sub skb skw a b).
Proof. apply simFs_all. Qed.
Lemma simF_bind_var f v t : simF (bind H (f + 4) v t) (bind H f v t).
Proof. apply simFs_all. Qed.
Lemma simF_fix_ty f pl t : simF (fix_ty H (f + 4) pl t) (fix_ty H f pl t).
Proof. apply simFs_all. Qed.

Lemma simF_eval_sty env : forall t, simF (eval_sty env t) (eval_sty env t).
Proof.
  induction t as [i| |o args IH] using sty_ind'; cbn [eval_sty]; repeat simF_step.
  induction IH as [|a r Ha Hr IHr]; repeat simF_step; auto.
Qed.

Lemma simF_apply fuel f x fixb : simF (apply H (fuel + 4) f x fixb) (apply H fuel f x fixb).
Proof.
  unfold apply. repeat simF_step; auto using simF_bind_var, simF_unify, simF_fix_ty.
Qed.

(* reading the relation *)
Lemma simF_nofuel {A} (m m0 : M A) s s0 : simF m m0 -> Rv H s s0 ->
  (forall s0', m0 s0 <> MEr EFuel s0') -> forall s', m s <> MEr EFuel s'.
Proof.
  intros S R N s' E. specialize (S s s0 R). rewrite E in S.
  destruct (m0 s0) as [a s0'|e0 s0'].
  - congruence.
  - apply S; [|reflexivity]. intros ->. apply (N s0'). reflexivity.
Qed.

End Shift.

(* ================================================================== *)
(* Part 4.  The bounds of TermP transfer to stores with pure constraints *)
(* ================================================================== *)
Section Bounds.
Variable H : hier.
Hypothesis W : wf_hier H.

Lemma strip_bound s v : c_bound (cell_of (strip s) v) = c_bound (cell_of s v).
Proof. reflexivity. Qed.

Lemma nocs_strip s : nocs (strip s).
Proof.
  intros i. unfold cset_of, strip. cbn [csets]. revert i.
  induction (csets s) as [|x l IH]; intros [|i]; cbn; auto.
Qed.

Lemma inv_strip s : inv s -> inv (strip s).
Proof.
  intros I. pose proof (inv_core I) as C. pose proof (inv_wsc I) as Ws. apply inv_intro.
  - constructor.
    + intros v. apply (@chain_vars_eq s (strip s) eq_refl). apply C.
    + intros v. apply (core_lo C).
    + intros v. apply (core_up C).
    + intros i c. rewrite nocs_strip. intros [].
    + intros c L. cbn in L. lia.
  - constructor.
    + intros v t. apply (sc_bound Ws).
    + intros c L. cbn in L. lia.
    + intros v L. unfold strip. cbn [csets]. rewrite map_length. apply (sc_cs Ws). exact L.
    + intros v. apply (@wft_bound_eq s (strip s)); [reflexivity|]. apply (sc_wf Ws).
Qed.

Lemma J_strip s : Jv H s -> J H (strip s).
Proof. intros Jvs. apply (J_of_Jv H s (strip s) Jvs eq_refl). apply nocs_strip. Qed.

Lemma tsc_of_tg n t : tg H n t -> tsc n t.
Proof. apply tg_tsc. Qed.

(* C17_term_sub_unify *)
Theorem unify_term_sub fuel a b s : Jv H s -> allpure H s -> inv s ->
  tg H (len s) a -> tg H (len s) b -> unify_bound s a b + 4 < fuel ->
  (exists s', unify H fuel true false false a b s = MOk tt s') \/
  (exists e s', unify H fuel true false false a b s = MEr e s' /\ e <> EFuel /\ forall n, e <> ECrash n).
Proof.
  intros Jvs P Iv Ta Tb L.
  assert (Sa : sct true s a) by (intros _; apply tg_tsc with (H := H); exact Ta).
  assert (Sb : sct true s b) by (intros _; apply tg_tsc with (H := H); exact Tb).
  pose proof (@unify_ok H true fuel true false false a b s Iv Sa Sb) as K. unfold ok in K.
  destruct (unify H fuel true false false a b s) as [[] s'|e s'] eqn:E; [left; eauto|right].
  exists e, s'. split; [reflexivity|]. split; [|apply K].
  intros ->. revert E. replace fuel with ((fuel - 4) + 4) by lia.
  apply (simF_nofuel H _ _ s (strip s) (simF_unify H (fuel - 4) true false false a b) (Rv_strip H s P)).
  intros s0' E0.
  destruct (unify_term H W (fuel - 4) a b (strip s) (J_strip s Jvs) (inv_strip s Iv) Ta Tb) as [(s1 & E1)|(e & s1 & E1 & N & _)];
    [change (unify_bound (strip s) a b) with (unify_bound s a b); lia|congruence|congruence].
Qed.

(* C17_term_sub_apply *)
Theorem apply_term_sub fuel f x fixb s : Jv H s -> allpure H s -> inv s ->
  tg H (len s) f -> tg H (len s) x -> apply_bound s f x + 4 < fuel ->
  forall s', apply H fuel f x fixb s <> MEr EFuel s'.
Proof.
  intros Jvs P Iv Tf Tx L. replace fuel with ((fuel - 4) + 4) by lia.
  apply (simF_nofuel H _ _ s (strip s) (simF_apply H (fuel - 4) f x fixb) (Rv_strip H s P)).
  apply (apply_term H W (fuel - 4) f x fixb (strip s) (J_strip s Jvs) (inv_strip s Iv) Tf Tx).
  change (apply_bound (strip s) f x) with (apply_bound s f x). lia.
Qed.

(* C17_term_sub_fix *)
Theorem fix_term_sub fuel pl t s : Jv H s -> allpure H s -> inv s ->
  tg H (len s) t -> xdepth s t + 6 < fuel ->
  forall s', fix_ty H fuel pl t s <> MEr EFuel s'.
Proof.
  intros Jvs P Iv Tt L. replace fuel with ((fuel - 4) + 4) by lia.
  apply (simF_nofuel H _ _ s (strip s) (simF_fix_ty H (fuel - 4) pl t) (Rv_strip H s P)).
  apply (fix_term H W (fuel - 4) pl t (strip s) (J_strip s Jvs) (inv_strip s Iv) Tt).
  change (xdepth (strip s) t) with (xdepth s t). lia.
Qed.

End Bounds.

(* ================================================================== *)
(* Part 5.  TypeSchema.instance                                         *)
(* ================================================================== *)

(* ---- allocation only: what fresh_list / eval_sty do to a store ---- *)
Record grows (k : nat) (s s' : store) : Prop := mkGrows {
  g_len : len s' = len s + k;
  g_cslen : length (csets s') = length (csets s) + k;
  g_old : forall v, v < len s -> cell_of s' v = cell_of s v;
  g_new : forall v, len s <= v -> c_bound (cell_of s' v) = None;
  g_cset : forall i, cset_of s' i = cset_of s i;
  g_constrs : constrs s' = constrs s
}.

Lemma grows_refl s : grows 0 s s.
Proof.
  constructor; auto. intros v L. rewrite cell_of_oob by exact L. reflexivity.
Qed.

Lemma grows_trans k1 k2 s s1 s2 : grows k1 s s1 -> grows k2 s1 s2 -> grows (k1 + k2) s s2.
Proof.
  intros [L1 C1 O1 N1 S1 K1] [L2 C2 O2 N2 S2 K2]. constructor.
  - lia.
  - lia.
  - intros v L. rewrite O2 by lia. apply O1. exact L.
  - intros v L. destruct (Nat.lt_ge_cases v (len s1)) as [L'|L'].
    + rewrite O2 by exact L'. apply N1. exact L.
    + apply N2. exact L'.
  - intros i. rewrite S2. apply S1.
  - congruence.
Qed.

Lemma grows_alloc s w : grows 1 s (snd (alloc_var s w)).
Proof.
  constructor.
  - cbn. rewrite app_length. cbn. lia.
  - cbn. rewrite app_length. cbn. lia.
  - intros v L. unfold cell_of. cbn. apply app_nth1. exact L.
  - intros v L. rewrite alloc_var_bound. rewrite cell_of_oob by exact L. reflexivity.
  - intros i. apply alloc_var_cset.
  - reflexivity.
Qed.

Lemma grows_unb k s s' x : grows k s s' -> c_bound (cell_of s x) = None -> c_bound (cell_of s' x) = None.
Proof.
  intros G Hx. destruct (Nat.lt_ge_cases x (len s)) as [L|L].
  - rewrite (g_old _ _ _ G) by exact L. exact Hx.
  - apply (g_new _ _ _ G). exact L.
Qed.

Lemma grows_dok k s s' M : grows k s s' -> dok M s -> dok M s'.
Proof.
  intros G D v t Hv. destruct (Nat.lt_ge_cases v (len s)) as [L|L].
  - rewrite (g_old _ _ _ G) in Hv by exact L. eapply D; eauto.
  - rewrite (g_new _ _ _ G) in Hv by exact L. discriminate.
Qed.

Lemma alloc_new_cell s w : cell_of (snd (alloc_var s w)) (len s) = mkCell w None None None (length (csets s)).
Proof. unfold cell_of. cbn. rewrite app_nth2 by lia. rewrite Nat.sub_diag. reflexivity. Qed.

(* fresh_list n: the variables len s .. len s + n - 1, each with its own empty set *)
Lemma fresh_list_grows : forall n s, exists s1,
  fresh_list n s = MOk (map V (seq (len s) n)) s1 /\ grows n s s1 /\
  forall i, i < n -> cell_of s1 (len s + i) = mkCell false None None None (length (csets s) + i).
Proof.
  induction n as [|n IH]; intros s; cbn [fresh_list seq map].
  - exists s. split; [reflexivity|split; [apply grows_refl|intros i L; lia]].
  - unfold bindM at 1. unfold fresh at 1. cbn [alloc_var].
    pose proof (grows_alloc s false) as G1. pose proof (alloc_new_cell s false) as C1.
    cbn [alloc_var snd] in G1, C1.
    match type of G1 with grows 1 s ?sx => set (s1 := sx) in * end.
    destruct (IH s1) as (s2 & E2 & G2 & C2).
    assert (L1 : len s1 = S (len s)) by (rewrite (g_len _ _ _ G1); lia).
    assert (K1 : length (csets s1) = S (length (csets s))) by (rewrite (g_cslen _ _ _ G1); lia).
    exists s2. unfold bindM. rewrite E2. rewrite L1. split; [reflexivity|]. split.
    + apply (grows_trans 1 n s s1 s2 G1 G2).
    + intros [|i] L.
      * rewrite Nat.add_0_r. rewrite (g_old _ _ _ G2) by lia. rewrite C1. f_equal. lia.
      * replace (len s + S i) with (len s1 + i) by lia. rewrite C2 by lia. f_equal. lia.
Qed.

(* schematic types: number of wildcards, operator nesting *)
Fixpoint wilds (t : sty) : nat :=
  match t with SVar _ => 0 | SWild => 1 | SOp _ args => list_sum (map wilds args) end.
Fixpoint sdepth (t : sty) : nat :=
  match t with SVar _ => 0 | SWild => 0 | SOp _ args => S (list_max (map sdepth args)) end.

(* an unbound variable *)
Definition uvar (s : store) (t : tyv) : Prop := exists x, t = V x /\ c_bound (cell_of s x) = None.

Lemma uvar_grows k s s' t : grows k s s' -> uvar s t -> uvar s' t.
Proof. intros G (x & -> & Hx). exists x. split; [reflexivity|eapply grows_unb; eauto]. Qed.

Lemma follow_uvar s t : uvar s t -> follow s t = t.
Proof. intros (x & -> & Hx). apply follow_of_nb. exact Hx. Qed.

Lemma seq_uvar s k : Forall (uvar s) (map V (seq (len s) k)) .
Proof.
  apply Forall_forall. intros t Ht. apply in_map_iff in Ht. destruct Ht as (x & <- & Hx).
  apply in_seq in Hx. exists x. split; [reflexivity|]. rewrite cell_of_oob by lia. reflexivity.
Qed.

Lemma eval_sty_spec env : forall t s, Forall (uvar s) env -> sty_wf (length env) t ->
  exists r s', eval_sty env t s = MOk r s' /\ grows (wilds t) s s' /\ depth r <= sdepth t.
Proof.
  induction t as [i| |o args IH] using sty_ind'; intros s Ue Wf; cbn [eval_sty wilds sdepth].
  - exists (follow s (nth i env (V 0))), s. split; [reflexivity|split; [apply grows_refl|]].
    inversion Wf; subst. rewrite Forall_forall in Ue.
    destruct (Ue (nth i env (V 0))) as (x & E & Hx); [apply nth_In; auto|].
    rewrite E. rewrite follow_of_nb by exact Hx. cbn. lia.
  - exists (V (len s)), (snd (alloc_var s true)). split; [reflexivity|split; [apply grows_alloc|cbn; lia]].
  - assert (Wa : Forall (sty_wf (length env)) args) by (inversion Wf; auto). clear Wf.
    assert (G : exists xs s', (fix go (l : list sty) : M (list tyv) :=
                 match l with
                 | [] => ret []
                 | a :: r => x <- eval_sty env a ;; xs <- go r ;; ret (x :: xs)
                 end) args s = MOk xs s' /\ grows (list_sum (map wilds args)) s s' /\
               list_max (map depth xs) <= list_max (map sdepth args)).
    { revert s Ue. induction IH as [|a r Ha Hr IHr]; intros s Ue.
      - exists [], s. split; [reflexivity|split; [apply grows_refl|cbn; lia]].
      - inversion Wa as [|? ? Wa1 War]; subst.
        destruct (Ha s Ue Wa1) as (x & s1 & E1 & G1 & D1).
        assert (Ue1 : Forall (uvar s1) env).
        { eapply Forall_impl; [|exact Ue]. intros t. apply uvar_grows with (k := wilds a). exact G1. }
        destruct (IHr War s1 Ue1) as (xs & s2 & E2 & G2 & D2).
        exists (x :: xs), s2. unfold bindM at 1. rewrite E1. unfold bindM at 1. rewrite E2.
        split; [reflexivity|]. split; [cbn [map list_sum]; eapply grows_trans; eauto|].
        change (Nat.max (depth x) (list_max (map depth xs)) <= Nat.max (sdepth a) (list_max (map sdepth r))).
        lia. }
    destruct G as (xs & s' & E & G & D). exists (O o xs), s'. unfold bindM at 1. rewrite E.
    split; [reflexivity|split; [exact G|cbn [depth]; lia]].
Qed.

(* ---- Constraint.variables(indirect=True) on a fresh schematic variable ---- *)
Lemma closure_S f s t rest seen :
  closure_f (S f) s (t :: rest) seen =
  match vars_f (S f) s t [] with
  | Er e => Er e
  | Ok vs =>
      let new := filter (fun v => negb (mem v seen)) vs in
      closure_f f s (flat_map (fun v => flat_map (fun c => constr_terms (constr_of s c))
                                         (cset_of s (c_cs (cell_of s v)))) new ++ rest) (union new seen)
  end.
Proof. reflexivity. Qed.

Lemma vars_f_unb f s y : c_bound (cell_of s y) = None -> vars_f (S f) s (V y) [] = Ok [y].
Proof. intros Hy. cbn [vars_f]. rewrite follow_of_nb by exact Hy. reflexivity. Qed.

Lemma vars_f_base f s a : vars_f (S f) s (O a []) [] = Ok [].
Proof. cbn [vars_f]. rewrite follow_O. reflexivity. Qed.

(* a term that contributes nothing new to the closure *)
Definition inert (s : store) (seen : list nat) (t : tyv) : Prop :=
  (exists a, t = O a []) \/ (exists y, t = V y /\ c_bound (cell_of s y) = None /\ mem y seen = true).

Lemma closure_inert s seen : forall todo f, Forall (inert s seen) todo -> length todo < f ->
  closure_f f s todo seen = Ok seen.
Proof.
  induction todo as [|t rest IH]; intros f Fi L; (destruct f as [|f]; [cbn in L; lia|]).
  - reflexivity.
  - inversion Fi as [|? ? It Fr]; subst. rewrite closure_S.
    destruct It as [(a & ->)|(y & -> & Hy & My)].
    + rewrite vars_f_base. cbn [filter flat_map app]. apply IH; [exact Fr|cbn in L; lia].
    + rewrite vars_f_unb by exact Hy. cbn [filter]. rewrite My. cbn [negb flat_map app].
      apply IH; [exact Fr|cbn in L; lia].
Qed.

Lemma closure_fresh f s x a :
  c_bound (cell_of s x) = None ->
  Forall (fun c => exists a', constr_terms (constr_of s c) = [V x; O a' []]) (cset_of s (c_cs (cell_of s x))) ->
  2 * length (cset_of s (c_cs (cell_of s x))) + 3 <= f ->
  closure_f f s [V x; O a []] [] = Ok [x].
Proof.
  intros Hx Fc L. destruct f as [|f]; [lia|]. rewrite closure_S. rewrite vars_f_unb by exact Hx.
  cbn [filter mem existsb negb flat_map]. rewrite app_nil_r.
  change (union [x] []) with [x].
  apply closure_inert.
  - apply Forall_app. split; [|constructor; [left; eauto|constructor]]. clear L.
    induction Fc as [|c l (a' & Ec) Fl IHl]; cbn [flat_map]; [constructor|].
    rewrite Ec. cbn [app]. constructor; [|constructor; [left; eauto|exact IHl]].
    right. exists x. split; [reflexivity|split; [exact Hx|]]. cbn. rewrite Nat.eqb_refl. reflexivity.
  - rewrite app_length. cbn [length].
    assert (E : length (flat_map (fun c => constr_terms (constr_of s c)) (cset_of s (c_cs (cell_of s x)))) =
                2 * length (cset_of s (c_cs (cell_of s x)))).
    { clear L. induction Fc as [|c l (a' & Ec) Fl IHl]; [reflexivity|].
      cbn [flat_map]. rewrite app_length, Ec, IHl. cbn [length]. lia. }
    rewrite E. lia.
Qed.

Lemma length_ins x : forall l, length (ins x l) <= S (length l).
Proof.
  induction l as [|y l IH]; cbn [ins length]; [lia|].
  destruct (x <? y); [cbn; lia|]. destruct (x =? y); cbn [length]; lia.
Qed.

Section Instance.
Variable H : hier.
Hypothesis W : wf_hier H.

(* ---- the constraints of a schema instance being created ----
   n0 / c0: index of the first schematic variable / of its constraint set;
   j: number of constraints created so far *)
Definition kform (s : store) (x : nat) (c : nat) : Prop :=
  exists a st d, constr_of s c = mkConstr false (V x) [O a []] st d.

Record II (n0 c0 n j : nat) (s : store) : Prop := mkII {
  ii_cell : forall i, i < n -> cell_of s (n0 + i) = mkCell false None None None (c0 + i);
  ii_cs : forall i, i < n -> Forall (kform s (n0 + i)) (cset_of s (c0 + i));
  ii_len : forall i, i < n -> length (cset_of s (c0 + i)) <= j;
  ii_pure : allpure H s
}.

Lemma kform_range s x c : kform s x c -> c < length (constrs s).
Proof.
  intros (a & st & d & E). destruct (Nat.lt_ge_cases c (length (constrs s))) as [L|L]; [exact L|].
  rewrite constr_of_oob in E by exact L. discriminate.
Qed.

Lemma II_markd n0 c0 n j s c : II n0 c0 n j s -> II n0 c0 n j (markd c s).
Proof.
  intros [A B C D]. constructor; auto.
  - intros i L. specialize (B i L). eapply Forall_impl; [|exact B].
    intros c' (a & st & d & E). unfold kform.
    destruct (constr_of_markd c s c') as [E'|(-> & E')]; rewrite E'.
    + exists a, st, d. exact E.
    + rewrite E. exists a, st, true. reflexivity.
  - apply allpure_markd. exact D.
Qed.

Lemma eval_constr_eq F env i a st s :
  eval_constr H F env (SCSub (SVar i) (SOp a []) st) s =
  new_constraint H F (mkConstr false (follow s (follow s (nth i env (V 0)))) [O a []] st false) s.
Proof. reflexivity. Qed.

Lemma nth_env n0 n i : i < n -> nth i (map V (seq n0 n)) (V 0) = V (n0 + i).
Proof. intros L. rewrite (map_nth V (seq n0 n) 0 i). rewrite seq_nth by exact L. reflexivity. Qed.

Lemma eval_constr_step F n0 c0 n j s i a st :
  II n0 c0 n j s -> i < n -> variance H a = [] -> 2 * j + 3 <= F -> 4 <= F ->
  match eval_constr H F (map V (seq n0 n)) (SCSub (SVar i) (SOp a []) st) s with
  | MOk _ s' => II n0 c0 n (S j) s'
  | MEr e _ => e <> EFuel
  end.
Proof.
  intros Ii Li Va LF L4. pose proof Ii as [Ic Ics Il Ip].
  rewrite eval_constr_eq, (nth_env n0 n i Li).
  assert (Hx : c_bound (cell_of s (n0 + i)) = None) by (rewrite Ic by exact Li; reflexivity).
  rewrite !(follow_of_nb s (V (n0 + i))) by exact Hx.
  set (x := n0 + i) in *. set (k := mkConstr false (V x) [O a []] st false).
  unfold new_constraint. unfold bindM at 1. cbn [alloc_constr].
  set (c := length (constrs s)).
  set (s1 := {| vars := vars s; csets := csets s; constrs := constrs s ++ [k]; sched := sched s |}).
  assert (Old : forall c', c' < c -> constr_of s1 c' = constr_of s c').
  { intros c' L. unfold constr_of, s1. cbn [constrs]. apply app_nth1. exact L. }
  assert (New : constr_of s1 c = k).
  { unfold constr_of, s1, c. cbn [constrs]. rewrite app_nth2 by lia. rewrite Nat.sub_diag. reflexivity. }
  assert (Cx : c_cs (cell_of s1 x) = c0 + i) by (change (cell_of s1 x) with (cell_of s x); unfold x; rewrite Ic by exact Li; reflexivity).
  assert (Ecl : closure_f F s1 (constr_terms k) [] = Ok [x]).
  { apply closure_fresh; [exact Hx| |].
    - rewrite Cx. change (cset_of s1 (c0 + i)) with (cset_of s (c0 + i)).
      eapply Forall_impl; [|apply (Ics i Li)]. intros c' Kc. pose proof (kform_range _ _ _ Kc) as Lc.
      destruct Kc as (a' & st' & d' & E). exists a'. rewrite (Old c' Lc), E. reflexivity.
    - rewrite Cx. change (cset_of s1 (c0 + i)) with (cset_of s (c0 + i)). specialize (Il i Li). lia. }
  unfold bindM at 1. unfold lift at 1. rewrite Ecl.
  unfold bindM at 1. cbn [forM]. unfold bindM at 1. unfold bindM at 1. unfold gets at 1.
  change (cell_of s1 x) with (cell_of s x). rewrite Hx. unfold modify at 1. unfold ret at 1.
  change (cell_of s1 x) with (cell_of s x). replace (c_cs (cell_of s x)) with (c0 + i) by (symmetry; exact Cx).
  set (s2 := set_cset s1 (c0 + i) (ins c (cset_of s1 (c0 + i)))).
  assert (Pk : pureK H k).
  { split; [reflexivity|]. cbn [k_alts k]. intros t Et. inversion Et; subst. exists a. split; [reflexivity|].
    unfold basic, arity. rewrite Va. reflexivity. }
  assert (I2 : II n0 c0 n (S j) s2).
  { constructor.
    - intros i' L'. exact (Ic i' L').
    - intros i' L'.
      assert (Fo : Forall (kform s2 (n0 + i')) (cset_of s (c0 + i'))).
      { eapply Forall_impl; [|apply (Ics i' L')]. intros c' Kc. pose proof (kform_range _ _ _ Kc) as Lc.
        destruct Kc as (a' & st' & d' & E). exists a', st', d'.
        change (constr_of s2 c') with (constr_of s1 c'). rewrite (Old c' Lc). exact E. }
      destruct (cset_of_set_cset s1 (c0 + i) (ins c (cset_of s1 (c0 + i))) (c0 + i')) as [(E & Ei & _)|E];
        fold s2 in E; rewrite E; [|exact Fo].
      assert (i' = i) by lia. subst i'. apply Forall_ins; [|exact Fo].
      exists a, st, false. change (constr_of s2 c) with (constr_of s1 c). exact New.
    - intros i' L'.
      destruct (cset_of_set_cset s1 (c0 + i) (ins c (cset_of s1 (c0 + i))) (c0 + i')) as [(E & Ei & _)|E];
        fold s2 in E; rewrite E.
      + pose proof (length_ins c (cset_of s1 (c0 + i))) as Li'.
        change (cset_of s1 (c0 + i)) with (cset_of s (c0 + i)) in Li'. specialize (Il i Li).
        change (cset_of s1 (c0 + i)) with (cset_of s (c0 + i)). lia.
      + change (cset_of s1 (c0 + i')) with (cset_of s (c0 + i')). specialize (Il i' L'). lia.
    - eapply allpure_constrs with (s := s1); [reflexivity|].
      apply (allpure_alloc_constr H s k Ip Pk). }
  assert (Pk2 : pureK H (constr_of s2 c)) by (change (constr_of s2 c) with (constr_of s1 c); rewrite New; exact Pk).
  unfold bindM at 1. rewrite (fulfill_pure H F c s2 Pk2).
  pose proof (pfc_nofuel H F s2 (constr_of s2 c) L4) as Nf.
  destruct (pfc H F s2 (constr_of s2 c)) as [e| |].
  - congruence.
  - cbn. apply II_markd. exact I2.
  - cbn. exact I2.
Qed.

Lemma psc_inv n sc : psc H n sc -> exists i a st, sc = SCSub (SVar i) (SOp a []) st /\ i < n /\ variance H a = [].
Proof.
  destruct sc as [r t st|r alts]; cbn; [|tauto].
  destruct r as [i| |]; try tauto. destruct t as [| |a [|x xs]]; try tauto.
  intros [L Va]. exists i, a, st. auto.
Qed.

(* creating the constraints of a schema: no fuel exhaustion, variable cells untouched *)
Lemma constr_loop F n0 c0 n : forall cs j s, II n0 c0 n j s -> Forall (psc H n) cs ->
  2 * (j + length cs) + 1 <= F -> 4 <= F ->
  match forM cs (eval_constr H F (map V (seq n0 n))) s with
  | MOk _ s' => vq H s s'
  | MEr e _ => e <> EFuel
  end.
Proof.
  induction cs as [|sc cs IH]; intros j s Ii Pc LF L4; cbn [forM].
  - cbn. apply vq_refl. apply Ii.
  - inversion Pc as [|? ? Psc Pcs]; subst. destruct (psc_inv n sc Psc) as (i & a & st & -> & Li & Va).
    cbn [length] in LF.
    pose proof (eval_constr_step F n0 c0 n j s i a st Ii Li Va ltac:(lia) L4) as St.
    assert (Q : quiet H (eval_constr H F (map V (seq n0 n)) (SCSub (SVar i) (SOp a []) st))).
    { apply quiet_eval_constr. exact Va. }
    unfold bindM at 1.
    destruct (eval_constr H F (map V (seq n0 n)) (SCSub (SVar i) (SOp a []) st) s) as [u s1|e s1] eqn:E1; [|exact St].
    pose proof (Q s (ii_pure _ _ _ _ _ Ii) u s1 E1) as Q1.
    specialize (IH (S j) s1 St Pcs ltac:(lia) L4).
    destruct (forM cs (eval_constr H F (map V (seq n0 n))) s1) as [u2 s2|e s2]; [|exact IH].
    eapply vq_trans; eauto.
Qed.

End Instance.

(* ---- the constraint-free run: bounds AND what the store looks like afterwards ---- *)
Section Erased.
Variable H : hier.
Hypothesis W : wf_hier H.
Variable M : nat.
Hypothesis M1 : 1 <= M.

Lemma R_grows k n s s' : grows k s s' -> R M n s -> R M (n + k) s'.
Proof.
  intros G [Ncs L D]. constructor.
  - intros i. rewrite (g_cset _ _ _ G). apply Ncs.
  - rewrite (g_len _ _ _ G). lia.
  - eapply grows_dok; eauto.
Qed.

Lemma fix_R f pl t s r s' n : J H s -> core s -> R M n s -> tg H (len s) t -> depth t <= M ->
  fix_ty H f pl t s = MOk r s' -> R M n s' /\ depth r <= M.
Proof.
  intros I C [Ncs L D] Tt Dt E.
  destruct (fix_spec_x H W f pl t s r s' I C Tt E) as ((B & _ & _) & ->).
  assert (R' : R M n s').
  { constructor.
    - intros i. unfold cset_of. rewrite (bs_csets _ _ B). apply Ncs.
    - rewrite (bs_len _ _ B). exact L.
    - intros v x Hv. destruct (bs_cell _ _ B v) as [Ev|(_ & o & Ev)]; rewrite Ev in Hv.
      + eapply D; eauto.
      + cbn in Hv. injection Hv as <-. cbn. lia. }
  split; [exact R'|]. apply (depth_follow_f M s' (R_dok _ _ _ R')). exact Dt.
Qed.

(* TypeSchema.instance without constraints *)
Lemma inst_nf f sc s n : J H s -> inv s -> R M n s ->
  styg H (s_n sc) (s_body sc) -> sdepth (s_body sc) <= M ->
  M + (n + (s_n sc + wilds (s_body sc))) * M + 3 <= f ->
  nf (instance H f (erase_schema sc)) s
     (fun r s' => J H s' /\ inv s' /\ tg H (len s') r /\ R M (n + (s_n sc + wilds (s_body sc))) s' /\ depth r <= M).
Proof.
  intros I Iv Rs Sb Db L. unfold instance. cbn [erase_schema s_n s_body s_constrs forM].
  destruct (fresh_list_grows (s_n sc) s) as (s1 & E1 & G1 & _).
  set (env := map V (seq (len s) (s_n sc))) in *.
  assert (Le : length env = s_n sc) by (unfold env; rewrite map_length, seq_length; reflexivity).
  assert (Ue1 : Forall (uvar s1) env).
  { eapply Forall_impl; [|apply seq_uvar]. intros t. apply uvar_grows with (k := s_n sc). exact G1. }
  assert (Wb : sty_wf (length env) (s_body sc)) by (rewrite Le; apply (styg_wf H); exact Sb).
  destruct (eval_sty_spec env (s_body sc) s1 Ue1 Wb) as (r & s2 & E2 & G2 & D2).
  (* J, inv, tg along the allocation *)
  destruct (fresh_list_good H (s_n sc) s I env s1 E1) as (I1 & L1 & Fe & _).
  assert (Fe1 : Forall (tg H (len s1)) env) by (eapply Forall_impl; [|exact Fe]; intros t; apply isvar_tg).
  assert (Sb' : styg H (length env) (s_body sc)) by (rewrite Le; exact Sb).
  destruct (eval_sty_good H env (s_body sc) s1 I1 Fe1 Sb' r s2 E2) as (I2 & L2 & Tr).
  pose proof (@Inv.fresh_list_spec true (s_n sc) s Iv) as K1. unfold ok in K1. rewrite E1 in K1.
  destruct K1 as (Iv1 & _ & _ & Se & _).
  pose proof (@eval_sty_ok true env (s_body sc) s1 Iv1 Se (fun _ => Wb)) as K2. unfold ok in K2. rewrite E2 in K2.
  destruct K2 as (Iv2 & _ & _).
  pose proof (grows_trans _ _ _ _ _ G1 G2) as G12.
  pose proof (R_grows _ _ _ _ G12 Rs) as R2.
  assert (Dr : depth r <= M) by lia.
  assert (Dl : dle s2 r (M + (n + (s_n sc + wilds (s_body sc))) * M)).
  { eapply dle_mono; [apply (dle_dok s2 M (R_dok _ _ _ R2) (wft_all (inv_wsc Iv2)) r)|].
    rewrite (R_len _ _ _ R2). lia. }
  destruct (fix_total_fdl H W f true r s2 _ I2 (inv_core Iv2) Tr (dle_fdl _ _ _ Dl)) as (r' & s3 & E3); [lia|].
  eapply nf_eq.
  { unfold bindM. rewrite E1, E2. cbn [ret]. exact E3. }
  destruct (fix_post H W f true r s2 r' s3 I2 (inv_core Iv2) Tr E3) as (I3 & _ & _).
  pose proof (fix_post_inv H f true r s2 r' s3 I2 Iv2 Tr E3) as Iv3.
  destruct (fix_sound_x H W f true r s2 r' s3 I2 Tr E3) as (Tr' & _).
  destruct (fix_R f true r s2 r' s3 _ I2 (inv_core Iv2) R2 Tr Dr E3) as (R3 & Dr').
  auto.
Qed.

End Erased.

(* Type.apply without constraints: TermP.apply_term with a postcondition *)
Section ErasedApply.
Variable H : hier.
Hypothesis W : wf_hier H.
Variable M : nat.
Hypothesis M1 : 1 <= M.

#[local] Hint Resolve crash_ne sub_ne ty_ne rec_ne fun_ne : core.

Notation APost n := (fun r s' => J H s' /\ inv s' /\ R M n s' /\ depth r <= M).

Lemma apply_tail_nf n fuel x f' fixb s : Pre H M n s -> tg H n x -> tg H n f' ->
  depth x <= M -> depth f' <= M -> M + n * M + 8 <= fuel ->
  nf (match f' with
      | O o [lft; rgt] =>
          if Nat.eqb o Function then
            unify H fuel true false false x lft ;;;
            if fixb && negb (is_fun rgt) then fix_ty H fuel true rgt else ret rgt
          else if Nat.eqb o Top then ret (O Top [])
          else fail EFunApp
      | O o _ => if Nat.eqb o Top then ret (O Top []) else fail EFunApp
      | V _ => fail EFunApp
      end) s (APost n).
Proof.
  intros P Tx Tf Dx Df L. pose proof P as (I & Iv & Rs).
  assert (TopR : nf (ret (O Top [])) s (APost n)).
  { apply nf_ret. split; [exact I|split; [exact Iv|split; [exact Rs|cbn; lia]]]. }
  destruct f' as [v|o [|lft [|rgt [|z r]]]]; try (apply nf_fail; auto);
    try (destruct (Nat.eqb o Top); [exact TopR|apply nf_fail; auto]).
  destruct (Nat.eqb o Function).
  2:{ destruct (Nat.eqb o Top); [exact TopR|apply nf_fail; auto]. }
  destruct (tg_args H _ _ _ Tf) as [_ Fa]. inversion Fa as [|? ? Tl Fa']; subst.
  inversion Fa' as [|? ? Tr _]; subst.
  assert (Dl : depth lft <= M) by (pose proof (depth_arg o [lft; rgt] lft (or_introl eq_refl)); lia).
  assert (Dr : depth rgt <= M) by (pose proof (depth_arg o [lft; rgt] rgt (or_intror (or_introl eq_refl))); lia).
  eapply nf_bind with (Q1 := fun _ s' => R M n s').
  - apply (specU_all H W M n M1 fuel x lft s (M + n * M)); auto; try (apply sdle_init; auto); lia.
  - intros [] s1 E1 R1. destruct (unify_post H W M n fuel x lft s s1 P Tx Tl E1 R1) as [(I1 & Iv1 & _) F1].
    destruct (fixb && negb (is_fun rgt)); [|apply nf_ret; auto].
    assert (Tr1 : tg H (len s1) rgt) by (rewrite (R_len _ _ _ R1); exact Tr).
    destruct (fix_total_fdl H W fuel true rgt s1 (M + n * M)) as (r & s2 & E2); auto.
    + apply inv_core. exact Iv1.
    + apply dle_fdl. eapply dle_mono; [apply (dle_dok s1 M (R_dok _ _ _ R1) (fut_wf _ _ _ _ F1) rgt)|].
      rewrite (R_len _ _ _ R1). lia.
    + lia.
    + eapply nf_eq; [exact E2|].
      destruct (fix_post H W fuel true rgt s1 r s2 I1 (inv_core Iv1) Tr1 E2) as (I2 & _ & _).
      pose proof (fix_post_inv H fuel true rgt s1 r s2 I1 Iv1 Tr1 E2) as Iv2.
      destruct (fix_R H W M M1 fuel true rgt s1 r s2 n I1 (inv_core Iv1) R1 Tr1 Dr E2) as (R2 & Dr2).
      auto.
Qed.

Theorem apply_nf fuel f0 x0 fixb s n : J H s -> inv s -> R M n s -> tg H n f0 -> tg H n x0 ->
  depth f0 <= M -> depth x0 <= M -> M + (n + 2) * M + 8 <= fuel ->
  nf (apply H fuel f0 x0 fixb) s
     (fun r s' => exists n', n <= n' <= n + 2 /\ J H s' /\ inv s' /\ R M n' s' /\ depth r <= M).
Proof.
  intros I Iv Rs Tf0 Tx0 Df0 Dx0 L.
  pose proof (R_len _ _ _ Rs) as Ln. subst n.
  unfold apply. apply nf_gets. apply nf_gets.
  pose proof (tg_follow H s f0 I Tf0) as Tf. pose proof (tg_follow H s x0 I Tx0) as Tx.
  pose proof (depth_follow_f M s (R_dok _ _ _ Rs) _ f0 Df0 : depth (follow s f0) <= M) as Df.
  pose proof (depth_follow_f M s (R_dok _ _ _ Rs) _ x0 Dx0 : depth (follow s x0) <= M) as Dx.
  pose proof (follow_unbound_core f0 (inv_core Iv)) as Nf.
  set (f := follow s f0) in *. set (x := follow s x0) in *. clearbody f x.
  eapply nf_bind with (Q1 := fun f' s1 => exists n1, len s <= n1 <= len s + 2 /\ Pre H M n1 s1 /\
                                 tg H n1 x /\ tg H n1 f' /\ depth f' <= M).
  - destruct f as [vf|o args].
    2:{ apply nf_ret. exists (len s). split; [lia|]. split; [split; [exact I|split; [exact Iv|exact Rs]]|]. auto. }
    cbn in Nf. assert (Lv : vf < len s) by (inversion Tf; auto).
    apply nf_fresh.
    pose proof (J_alloc H s false I) as I1. pose proof (@inv_alloc_var true s false Iv) as Iv1.
    pose proof (R_alloc M s false Rs) as R1. pose proof (alloc_var_length s false) as N1.
    pose proof (alloc_cell_old s false vf Lv) as C1. pose proof (alloc_cell_new s false) as A1.
    set (s1 := snd (alloc_var s false)) in *. clearbody s1.
    apply nf_fresh. rewrite N1.
    pose proof (J_alloc H s1 false I1) as I2. pose proof (@inv_alloc_var true s1 false Iv1) as Iv2.
    rewrite <- N1 in R1. pose proof (R_alloc M s1 false R1) as R2. pose proof (alloc_var_length s1 false) as N2.
    assert (C2 : cell_of (snd (alloc_var s1 false)) vf = cell_of s vf)
      by (rewrite alloc_cell_old by lia; exact C1).
    assert (A2 : c_bound (cell_of (snd (alloc_var s1 false)) (len s)) = None)
      by (rewrite alloc_cell_old by lia; exact A1).
    pose proof (alloc_cell_new s1 false) as B2. rewrite N1 in B2.
    set (s2 := snd (alloc_var s1 false)) in *. clearbody s2.
    set (t := O Function [V (len s); V (S (len s))]).
    assert (Vf : variance H Function = [false; true]) by apply (wf_fun H W).
    assert (Nbf : basic H Function = false).
    { destruct (basic H Function) eqn:Eb; auto. apply Lub.basic_iff in Eb. congruence. }
    assert (Tt : tg H (len s2) t).
    { constructor; [rewrite Vf; reflexivity|].
      constructor; [constructor; lia|constructor; [constructor; lia|constructor]]. }
    assert (Hvf : c_bound (cell_of s2 vf) = None) by (rewrite C2; exact Nf).
    assert (Dt : depth t <= M) by (unfold t; cbn; lia).
    assert (No : nocc s2 vf t).
    { apply nocc_op. intros z [<-|[<-|[]]]; apply nocc_unb; auto; lia. }
    destruct fuel as [|fuel']; [lia|].
    assert (R2' : R M (len s2) s2) by (rewrite N2; exact R2).
    assert (Lf : 2 <= fuel') by lia.
    eapply nf_bind with (Q1 := fun _ s3 => R M (len s2) s3).
    + apply T_bind_O; auto; [lia|]. intros _ c2 Hc.
      apply (@vars_f_fuel fuel' (set_cell s2 vf c2) t [] 1); [|lia].
      apply dle_op. intros z [<-|[<-|[]]]; apply dle_unb; rewrite cell_of_set_cell_other by lia; auto.
    + intros [] s3 E3 R3. apply nf_gets_end.
      destruct (bind_sound_x H W (S fuel') vf t s2 s3 I2) as (I3 & _); auto; [lia| |].
      { intros o args [= <- <-] Eb. congruence. }
      assert (Iv3 : inv s3 /\ ext s2 s3).
      { pose proof (@bind_ok H true (S fuel') vf t s2 Iv2 Hvf) as K3. unfold ok in K3. rewrite E3 in K3.
        destruct K3 as (A & B & _); auto.
        - exact Logic.I.
        - intros _. lia.
        - intros _. apply tg_tsc with (H := H). exact Tt.
        - intros _. right. exact No. }
      destruct Iv3 as [Iv3 X3].
      assert (L3 : len s3 = len s2) by apply R3.
      exists (len s2). split; [lia|]. split; [split; [exact I3|split; [exact Iv3|exact R3]]|].
      split; [eapply tg_mono; [|exact Tx]; lia|]. split.
      * rewrite <- L3. apply tg_follow; auto. constructor. lia.
      * apply (depth_follow_f M s3 (R_dok _ _ _ R3)). cbn. lia.
  - cbv beta. intros f' s1 _ (n1 & Ln & P1 & Tx1 & Tf1 & Df1).
    eapply nf_conseq.
    + apply (apply_tail_nf n1 fuel x f' fixb s1); auto.
      assert (n1 * M <= (len s + 2) * M) by (apply Nat.mul_le_mono_r; lia). lia.
    + cbv beta. intros r s2 _ Hp. exists n1. split; [exact Ln|exact Hp].
Qed.

End ErasedApply.

(* ---- instance with m pure constraints against instance of the erased schema ---- *)
Section InstanceShift.
Variable H : hier.
Hypothesis W : wf_hier H.

Lemma bindM_er {A B} (m : M A) (k : A -> M B) s e s1 : m s = MEr e s1 -> bindM m k s = MEr e s1.
Proof. intros E. unfold bindM. rewrite E. reflexivity. Qed.

Lemma instance_shift f sc : sty_wf (s_n sc) (s_body sc) -> Forall (psc H (s_n sc)) (s_constrs sc) ->
  2 * length (s_constrs sc) + 1 <= f + 4 ->
  simF H (instance H (f + 4) sc) (instance H f (erase_schema sc)).
Proof.
  intros Wb Pc LF s s0 R.
  (* the real run up to the constraints *)
  destruct (fresh_list_grows (s_n sc) s) as (s1 & E1 & G1 & C1).
  set (env := map V (seq (len s) (s_n sc))) in *.
  assert (Le : length env = s_n sc) by (unfold env; rewrite map_length, seq_length; reflexivity).
  assert (Ue1 : Forall (uvar s1) env).
  { eapply Forall_impl; [|apply seq_uvar]. intros t. apply uvar_grows with (k := s_n sc). exact G1. }
  assert (Wb' : sty_wf (length env) (s_body sc)) by (rewrite Le; exact Wb).
  destruct (eval_sty_spec env (s_body sc) s1 Ue1 Wb') as (r & s2 & E2 & G2 & _).
  (* the constraint-free run *)
  pose proof (simF_fresh_list H (s_n sc) s s0 R) as S1. rewrite E1 in S1.
  destruct (fresh_list (s_n sc) s0) as [env0 s01|e0 s01] eqn:E01.
  2:{ destruct (fresh_list_total (s_n sc) s0) as (a & s' & X). congruence. }
  destruct S1 as (<- & R1).
  pose proof (simF_eval_sty H env (s_body sc) s1 s01 R1) as S2. rewrite E2 in S2.
  assert (E0 : instance H f (erase_schema sc) s0 =
               match eval_sty env (s_body sc) s01 with
               | MOk r0 s02 => fix_ty H f true r0 s02
               | MEr e s02 => MEr e s02
               end).
  { unfold instance. cbn [erase_schema s_n s_body s_constrs forM].
    rewrite (bindM_ok _ _ _ _ _ E01). unfold bindM, ret. destruct (eval_sty env (s_body sc) s01); reflexivity. }
  rewrite E0.
  destruct (eval_sty env (s_body sc) s01) as [r0 s02|e0 s02] eqn:E02.
  2:{ intros N. destruct (S2 N). }
  destruct S2 as (<- & R2).
  (* the constraints: only the real run *)
  assert (Ii : II H (len s) (length (csets s)) (s_n sc) 0 s2).
  { constructor.
    - intros i Li. rewrite (g_old _ _ _ G2) by (rewrite (g_len _ _ _ G1); lia). apply C1. exact Li.
    - intros i Li. rewrite (g_cset _ _ _ G2), (g_cset _ _ _ G1).
      unfold cset_of. rewrite nth_overflow by lia. constructor.
    - intros i Li. rewrite (g_cset _ _ _ G2), (g_cset _ _ _ G1).
      unfold cset_of. rewrite nth_overflow by lia. cbn. lia.
    - eapply allpure_constrs; [|apply R].
      rewrite (g_constrs _ _ _ G2). apply (g_constrs _ _ _ G1). }
  pose proof (constr_loop H (f + 4) (len s) (length (csets s)) (s_n sc) (s_constrs sc) 0 s2 Ii Pc
                ltac:(cbn; lia) ltac:(lia)) as Lp.
  fold env in Lp.
  unfold instance. rewrite (bindM_ok _ _ _ _ _ E1). rewrite (bindM_ok _ _ _ _ _ E2).
  destruct (forM (s_constrs sc) (eval_constr H (f + 4) env) s2) as [u s3|e s3] eqn:E3.
  - rewrite (bindM_ok _ _ _ _ _ E3).
    apply (simF_fix_ty H f true r s3 s02). eapply Rv_vq; eauto.
  - rewrite (bindM_er _ _ _ _ _ E3). destruct (fix_ty H f true r s02); auto.
Qed.

End InstanceShift.

(* the deepest term around: the bindings of the store and the schema body *)
Definition inst_dep (s : store) (sc : schema) : nat :=
  Nat.max 1 (Nat.max (mdepth s) (sdepth (s_body sc))).

(* instance allocates s_n sc schematic variables and one variable per wildcard,
   creates the constraints (closure: two terms per constraint already attached
   to the variable) and fixes the body *)
Definition inst_bound (s : store) (sc : schema) : nat :=
  Nat.max (inst_dep s sc + (len s + (s_n sc + wilds (s_body sc))) * inst_dep s sc + 6)
          (2 * length (s_constrs sc)).

Section InstanceTerm.
Variable H : hier.
Hypothesis W : wf_hier H.

Lemma nf_nofuel {A} (m : M A) s Q : nf m s Q -> forall s', m s <> MEr EFuel s'.
Proof. unfold nf. intros N s' E. rewrite E in N. congruence. Qed.

(* C17_term_sub_instance *)
Theorem instance_term_sub fuel sc s : Jv H s -> allpure H s -> inv s ->
  styg H (s_n sc) (s_body sc) -> Forall (psc H (s_n sc)) (s_constrs sc) ->
  inst_bound s sc < fuel ->
  forall s', instance H fuel sc s <> MEr EFuel s'.
Proof.
  intros Jvs P Iv Sb Pc L. unfold inst_bound in L. set (M := inst_dep s sc) in *.
  assert (M1 : 1 <= M) by (unfold M, inst_dep; lia).
  assert (Rs : R M (len (strip s)) (strip s)).
  { apply (R_intro H); [apply J_strip; exact Jvs|]. change (mdepth (strip s)) with (mdepth s). unfold M, inst_dep. lia. }
  assert (Db : sdepth (s_body sc) <= M) by (unfold M, inst_dep; lia).
  clearbody M.
  replace fuel with ((fuel - 4) + 4) by lia.
  apply (simF_nofuel H _ _ s (strip s)
           (instance_shift H (fuel - 4) sc (styg_wf H _ _ Sb) Pc ltac:(lia)) (Rv_strip H s P)).
  eapply nf_nofuel.
  apply (inst_nf H W M M1 (fuel - 4) sc (strip s) (len (strip s)) (J_strip H s Jvs) (inv_strip s Iv) Rs Sb Db).
  change (len (strip s)) with (len s). lia.
Qed.

End InstanceTerm.

(* ================================================================== *)
(* Part 6.  Whole programs                                              *)
(* ================================================================== *)
Definition cmd_vars (c : cmd) : nat :=
  match c with CInst sc => s_n sc + wilds (s_body sc) | CApply _ _ _ => 2 | _ => 0 end.
Definition cmd_depth (c : cmd) : nat :=
  match c with CInst sc => sdepth (s_body sc) | _ => 0 end.
Definition cmd_cons (c : cmd) : nat :=
  match c with CInst sc => length (s_constrs sc) | _ => 0 end.

(* N: an upper bound on the number of variables ever allocated;
   D: the deepest schema body; C: the largest number of constraints of a schema *)
Definition prog_vars (prog : list cmd) : nat := list_sum (map cmd_vars prog).
Definition prog_depth (prog : list cmd) : nat := Nat.max 1 (list_max (map cmd_depth prog)).
Definition prog_cons (prog : list cmd) : nat := list_max (map cmd_cons prog).

Definition prog_fuel (prog : list cmd) : nat :=
  Nat.max (prog_depth prog * (prog_vars prog + 1) + 12) (2 * prog_cons prog + 1).

Section Programs.
Variable H : hier.
Hypothesis W : wf_hier H.
Variable M : nat.
Hypothesis M1 : 1 <= M.

Definition CPost (n k : nat) (vals : list tyv) : list tyv -> store -> Prop :=
  fun vals' s' => exists n', n <= n' <= n + k /\ J H s' /\ inv s' /\ R M n' s' /\
     Forall (tg H n') vals' /\ Forall (fun t => depth t <= M) vals' /\ length vals' = S (length vals).

Lemma val_tg n vals i : Forall (tg H n) vals -> i < length vals -> tg H n (val vals i).
Proof. intros F L. rewrite Forall_forall in F. apply F. apply nth_In. exact L. Qed.

Lemma val_depth vals i : Forall (fun t => depth t <= M) vals -> i < length vals -> depth (val vals i) <= M.
Proof. intros F L. rewrite Forall_forall in F. apply (F (val vals i)). apply nth_In. exact L. Qed.

Lemma cmdS_erase n c : cmdS H n c -> cmdP H n (erase_cmd c).
Proof. intros [sc Sb _|f x b Lf Lx]; cbn [erase_cmd]; constructor; auto. Qed.

(* one command of the constraint-free program *)
Lemma cmd_nf f c vals s n : J H s -> inv s -> R M n s ->
  Forall (tg H n) vals -> Forall (fun t => depth t <= M) vals ->
  cmdS H (length vals) c -> cmd_depth c <= M -> M + (n + cmd_vars c) * M + 8 <= f ->
  nf (run_cmd H f (erase_cmd c) vals) s (CPost n (cmd_vars c) vals).
Proof.
  intros I Iv Rs Tv Dv Pc Dc L.
  destruct Pc as [sc Sb Pcs|fi xi b Lf Lx]; cbn [erase_cmd run_cmd cmd_vars cmd_depth] in *.
  - eapply nf_bind; [apply (inst_nf H W M M1 f sc s n); auto; lia|].
    cbv beta. intros t s1 _ (I1 & Iv1 & Tt & R1 & Dt). apply nf_ret.
    exists (n + (s_n sc + wilds (s_body sc))). split; [lia|].
    split; [exact I1|split; [exact Iv1|split; [exact R1|split; [|split]]]].
    + apply Forall_app. split; [eapply Forall_impl; [|exact Tv]; intros a; apply tg_mono; lia|].
      constructor; [|constructor]. rewrite <- (R_len _ _ _ R1). exact Tt.
    + apply Forall_app. split; [exact Dv|constructor; [exact Dt|constructor]].
    + rewrite app_length. cbn. lia.
  - eapply nf_bind.
    + apply (apply_nf H W M M1 f (val vals fi) (val vals xi) b s n); auto using val_tg, val_depth.
    + cbv beta. intros t s1 E1 (n' & Ln & I1 & Iv1 & R1 & Dt). apply nf_ret.
      assert (Tf : tg H (len s) (val vals fi)) by (rewrite (R_len _ _ _ Rs); apply val_tg; auto).
      assert (Tx : tg H (len s) (val vals xi)) by (rewrite (R_len _ _ _ Rs); apply val_tg; auto).
      destruct (apply_good H W f (val vals fi) (val vals xi) b s I Tf Tx t s1 E1) as (Tt & _).
      exists n'. split; [exact Ln|].
      split; [exact I1|split; [exact Iv1|split; [exact R1|split; [|split]]]].
      * apply Forall_app. split; [eapply Forall_impl; [|exact Tv]; intros a; apply tg_mono; lia|].
        constructor; [|constructor]. rewrite <- (R_len _ _ _ R1). exact Tt.
      * apply Forall_app. split; [exact Dv|constructor; [exact Dt|constructor]].
      * rewrite app_length. cbn. lia.
Qed.

(* one command of the real program against the same command without constraints *)
Lemma run_cmd_shift f c vals : cmdS H (length vals) c -> 2 * cmd_cons c + 1 <= f + 4 ->
  simF H (run_cmd H (f + 4) c vals) (run_cmd H f (erase_cmd c) vals).
Proof.
  intros [sc Sb Pcs|fi xi b Lf Lx] L; cbn [erase_cmd run_cmd cmd_cons] in *.
  - apply simF_bind; [|intro; apply simF_ret].
    apply instance_shift; auto. apply (styg_wf H). exact Sb.
  - apply simF_bind; [apply simF_apply|intro; apply simF_ret].
Qed.

Definition no_fuel_err (r : option (err * nat)) : Prop :=
  match r with None => True | Some (e, _) => e <> EFuel end.

Lemma run_cmds_shift f : forall cs i vals s s0 n, Rv H s s0 -> J H s0 -> inv s0 -> R M n s0 ->
  Forall (tg H n) vals -> Forall (fun t => depth t <= M) vals ->
  progS H (length vals) cs -> Forall (fun c => cmd_depth c <= M) cs ->
  Forall (fun c => 2 * cmd_cons c + 1 <= f + 4) cs ->
  M + (n + prog_vars cs) * M + 8 <= f ->
  no_fuel_err (fst (fst (run_cmds H (f + 4) cs i vals s))).
Proof.
  induction cs as [|c cs IH]; intros i vals s s0 n Rv0 I Iv Rs Tv Dv Pp Dp Cp L; cbn [run_cmds].
  - exact Logic.I.
  - destruct Pp as [Pc Pr]. inversion Dp as [|? ? Dc Dr]; subst. inversion Cp as [|? ? Cc Cr]; subst.
    change (prog_vars (c :: cs)) with (cmd_vars c + prog_vars cs) in L.
    pose proof (run_cmd_shift f c vals Pc Cc s s0 Rv0) as S.
    assert (Lc : M + (n + cmd_vars c) * M + 8 <= f).
    { assert ((n + cmd_vars c) * M <= (n + (cmd_vars c + prog_vars cs)) * M) by (apply Nat.mul_le_mono_r; lia). lia. }
    pose proof (cmd_nf f c vals s0 n I Iv Rs Tv Dv Pc Dc Lc) as N. unfold nf in N.
    destruct (run_cmd H f (erase_cmd c) vals s0) as [vals0 s0'|e0 s0'].
    + destruct (run_cmd H (f + 4) c vals s) as [vals' s'|e s']; [|exact S].
      destruct S as (-> & Rv'). destruct N as (n' & Ln & I' & Iv' & R' & Tv' & Dv' & Lv').
      apply (IH (S i) vals0 s' s0' n'); auto.
      * rewrite Lv'. exact Pr.
      * assert ((n' + prog_vars cs) * M <= (n + (cmd_vars c + prog_vars cs)) * M) by (apply Nat.mul_le_mono_r; lia). lia.
    + specialize (S N). destruct (run_cmd H (f + 4) c vals s) as [vals' s'|e s']; [destruct S|exact S].
Qed.

End Programs.

Section ProgTerm.
Variable H : hier.
Hypothesis W : wf_hier H.

Lemma list_max_in (g : cmd -> nat) c : forall l, In c l -> g c <= list_max (map g l).
Proof.
  induction l as [|x l IH]; intros Hc; [destruct Hc|].
  cbn [map]. change (g c <= Nat.max (g x) (list_max (map g l))).
  destruct Hc as [->|Hc]; [lia|specialize (IH Hc); lia].
Qed.

Lemma R_empty M sc : R M 0 (empty_store sc).
Proof.
  constructor.
  - apply (J_empty H sc).
  - reflexivity.
  - intros v t. unfold cell_of. cbn. destruct v; discriminate.
Qed.

(* C17_term_sub_prog *)
Theorem prog_term_sub prog sc fuel : progS H 0 prog -> prog_fuel prog <= fuel ->
  match fst (fst (run_cmds H fuel prog 0 [] (empty_store sc))) with
  | None => True
  | Some (e, _) =>
      e = ESubtypeMismatch \/ e = ETypeMismatch \/ e = EFunApp \/ e = ERecursive \/
      e = EConstraintViolation
  end.
Proof.
  intros P L. unfold prog_fuel in L.
  assert (M1 : 1 <= prog_depth prog) by (unfold prog_depth; lia).
  pose proof (run_cmds_shift H W (prog_depth prog) M1 (fuel - 4) prog 0 [] (empty_store sc) (empty_store sc) 0
                (Rv_empty H sc) (J_empty H sc) (inv_empty true sc) (R_empty _ sc)
                (Forall_nil _) (Forall_nil _) P) as K.
  replace (fuel - 4 + 4) with fuel in K by lia.
  destruct (run_cmds H fuel prog 0 [] (empty_store sc)) as [[o vals] s] eqn:E. cbn [fst] in *.
  destruct o as [[e i]|]; [|exact Logic.I].
  pose proof (@engine_nocrash H fuel sc prog e i vals s E) as Nc.
  assert (Nf : e <> EFuel).
  { apply K.
    - apply Forall_forall. intros c Hc. pose proof (list_max_in cmd_depth c prog Hc). unfold prog_depth. lia.
    - apply Forall_forall. intros c Hc. pose proof (list_max_in cmd_cons c prog Hc). unfold prog_cons in L. lia.
    - cbn [Nat.add]. lia. }
  destruct e; auto 6; [destruct (Nc site eq_refl)|congruence].
Qed.

End ProgTerm.

(* ================================================================== *)
(* Explicit readings                                                    *)
(* ================================================================== *)
Section Readings.
Variable H : hier.

(* re-checking one pure constraint: four units *)
Theorem fulfill_nofuel n c s : pureK H (constr_of s c) -> 4 <= n -> forall s', fulfill H n c s <> MEr EFuel s'.
Proof.
  intros P L s'. rewrite (fulfill_pure H n c s P).
  pose proof (pfc_nofuel H n s (constr_of s c) L) as N.
  destruct (pfc H n s (constr_of s c)); congruence.
Qed.

(* the fuel shift, spelled out: s0 has the variable cells of s and no constraints *)
Theorem shift_unify f sub skb skw a b s s0 :
  vars s0 = vars s -> nocs s0 -> allpure H s -> length (csets s0) = length (csets s) ->
  (forall s0', unify H f sub skb skw a b s0 <> MEr EFuel s0') ->
  forall s', unify H (f + 4) sub skb skw a b s <> MEr EFuel s'.
Proof.
  intros Ev N P Lc. apply (simF_nofuel H _ _ s s0 (simF_unify H f sub skb skw a b)).
  split; [exact Ev|split; [exact N|split; [exact P|exact Lc]]].
Qed.

Theorem shift_fix_ty f pl t s s0 :
  vars s0 = vars s -> nocs s0 -> allpure H s -> length (csets s0) = length (csets s) ->
  (forall s0', fix_ty H f pl t s0 <> MEr EFuel s0') ->
  forall s', fix_ty H (f + 4) pl t s <> MEr EFuel s'.
Proof.
  intros Ev N P Lc. apply (simF_nofuel H _ _ s s0 (simF_fix_ty H f pl t)).
  split; [exact Ev|split; [exact N|split; [exact P|exact Lc]]].
Qed.

Theorem shift_apply f x y fixb s s0 :
  vars s0 = vars s -> nocs s0 -> allpure H s -> length (csets s0) = length (csets s) ->
  (forall s0', apply H f x y fixb s0 <> MEr EFuel s0') ->
  forall s', apply H (f + 4) x y fixb s <> MEr EFuel s'.
Proof.
  intros Ev N P Lc. apply (simF_nofuel H _ _ s s0 (simF_apply H f x y fixb)).
  split; [exact Ev|split; [exact N|split; [exact P|exact Lc]]].
Qed.

End Readings.
