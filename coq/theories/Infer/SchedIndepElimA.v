(* C18 for the class progE, part A: the order-theoretic ingredients.

   - [wp]: a Hoare triple with separate post-conditions for results and errors;
   - the operator order on a forest: two operators above a common one are
     comparable ([ole_linear]);
   - [kpc] / [kp]: the verdict of the filter of EliminationConstraint.fulfill
     on a base alternative in closed form (no fuel), and its MONOTONICITY: an
     alternative kept under tighter bounds is kept under looser ones
     ([kpc_mono], [kpc_bound_mono]);
   - lists of alternatives whose comparable members are equal ([PI]): minimize
     leaves an antichain, on which minimize and every filter are stable;
   - the verdict of a pure subtype constraint ([pfc]) on an unresolved
     reference in closed form, monotone as well. *)
From Coq Require Import List Arith Bool Lia Permutation.
Import ListNotations.
From TF Require Import Base.Hier Base.Ty Sub.SubSpec Infer.Store Infer.Engine Infer.Run
  Infer.Sched Infer.Inv Infer.Sound Infer.TermP Infer.SchedIndep Infer.SoundSub Infer.TermSub
  Infer.SoundElimS.
From TF Require Infer.Lub Infer.FitsEngineList.

Unset Implicit Arguments.

(* ------------------------------------------------------------------ *)
(* a triple with a post-condition for errors                            *)
(* ------------------------------------------------------------------ *)
Definition wp {A} (m : M A) (s : store) (Q : A -> store -> Prop) (E : err -> Prop) : Prop :=
  match m s with MOk a s' => Q a s' | MEr e _ => E e end.

Lemma wp_ret {A} (a : A) s (Q : A -> store -> Prop) E : Q a s -> wp (ret a) s Q E.
Proof. intros HQ. exact HQ. Qed.

Lemma wp_fail {A} e s (Q : A -> store -> Prop) (E : err -> Prop) : E e -> wp (fail e) s Q E.
Proof. intros N. exact N. Qed.

Lemma wp_bind {A B} (m : M A) (k : A -> M B) s (Q1 : A -> store -> Prop) (Q : B -> store -> Prop) E :
  wp m s Q1 E -> (forall a s1, Q1 a s1 -> wp (k a) s1 Q E) -> wp (bindM m k) s Q E.
Proof.
  unfold wp, bindM. destruct (m s) as [a s1|e s1]; intros T K; [apply K; auto|exact T].
Qed.

Lemma wp_gets {A B} (g : store -> A) (k : A -> M B) s (Q : B -> store -> Prop) E :
  wp (k (g s)) s Q E -> wp (bindM (gets g) k) s Q E.
Proof. intros T. exact T. Qed.

Lemma wp_gets_end {A} (g : store -> A) s (Q : A -> store -> Prop) E : Q (g s) s -> wp (gets g) s Q E.
Proof. intros HQ. exact HQ. Qed.

Lemma wp_modify {B} (g : store -> store) (k : unit -> M B) s (Q : B -> store -> Prop) E :
  wp (k tt) (g s) Q E -> wp (bindM (modify g) k) s Q E.
Proof. intros T. exact T. Qed.

Lemma wp_modify_end (g : store -> store) s (Q : unit -> store -> Prop) E :
  Q tt (g s) -> wp (modify g) s Q E.
Proof. intros HQ. exact HQ. Qed.

Lemma wp_upd_cell {B} v g (k : unit -> M B) s (Q : B -> store -> Prop) E :
  wp (k tt) (set_cell s v (g (cell_of s v))) Q E -> wp (bindM (upd_cell v g) k) s Q E.
Proof. intros T. exact T. Qed.

Lemma wp_lift {A B} (r : store -> res A) (k : A -> M B) s (Q : B -> store -> Prop) E a :
  r s = Ok a -> wp (k a) s Q E -> wp (bindM (lift r) k) s Q E.
Proof. intros Er T. unfold wp, bindM, lift. rewrite Er. exact T. Qed.

Lemma wp_conseq {A} (m : M A) s (Q1 Q : A -> store -> Prop) (E1 E : err -> Prop) :
  wp m s Q1 E1 -> (forall a s1, Q1 a s1 -> Q a s1) -> (forall e, E1 e -> E e) -> wp m s Q E.
Proof. unfold wp. destruct (m s); intros T K K'; auto. Qed.

Lemma wp_eq {A} (m : M A) s r (Q : A -> store -> Prop) E :
  m s = r -> match r with MOk a s' => Q a s' | MEr e _ => E e end -> wp m s Q E.
Proof. intros <-. auto. Qed.

Lemma wp_ok {A} (m : M A) s (Q : A -> store -> Prop) E a s' : wp m s Q E -> m s = MOk a s' -> Q a s'.
Proof. unfold wp. intros T X. rewrite X in T. exact T. Qed.

Lemma wp_er {A} (m : M A) s (Q : A -> store -> Prop) E e s' : wp m s Q E -> m s = MEr e s' -> E e.
Proof. unfold wp. intros T X. rewrite X in T. exact T. Qed.

Section A.
Variable H : hier.
Hypothesis W : wf_hier H.
Local Notation gd := (FL.good H).
Local Notation ob := FL.ob.
Local Notation obs := FL.obs.
Local Notation mins_of := (FL.mins_of H).
Local Notation ole := (Lub.ole H).
Local Notation bok := (Sound.bok H).
Local Notation osubF := (osub H false).

(* ------------------------------------------------------------------ *)
(* the operator order                                                   *)
(* ------------------------------------------------------------------ *)
Lemma osubF_ole a b : osubF a b = true <-> ole a b.
Proof. apply Lub.osubF_iff. exact W. Qed.

Lemma ole_trans a b c : ole a b -> ole b c -> ole a c.
Proof. apply Lub.ole_trans. exact W. Qed.

(* two operators above a common proper one are comparable *)
Lemma ole_linear x a b : x <> Bottom -> ole x a -> ole x b -> ole a b \/ ole b a.
Proof.
  unfold Lub.ole. intros NB [E|[->|Aa]] [E'|[->|Ab]]; try contradiction; auto.
  destruct (Anc_linear H x a b Aa Ab); auto.
Qed.

(* ------------------------------------------------------------------ *)
(* the filter of fulfill on a base alternative, in closed form          *)
(* ------------------------------------------------------------------ *)
Definition kpc (c : cell) (m : nat) : bool :=
  (match c_lower c with Some l => osubF l m | None => true end) &&
  (match c_upper c with Some u => osubF u m || osubF m u | None => true end).

Definition kpo (o m : nat) : bool :=
  (o =? Bottom) || (basic H o && ((o =? m) || osubF o m)).

Definition kp (s : store) (r : tyv) (m : nat) : bool :=
  match follow s r with
  | V w => kpc (cell_of s w) m
  | O o _ => kpo o m
  end.

Lemma keep_kp f s r m : gd m -> keep H (S f) s r m = kp s r m.
Proof.
  intros (Vm & Tm & Bm). unfold keep, kp. cbn [match_f]. rewrite Lub.follow_O.
  assert (Bs : basic H m = true) by (unfold basic, arity; rewrite Vm; reflexivity).
  apply Nat.eqb_neq in Tm.
  destruct (follow s r) as [w|o args].
  - cbn [andb]. rewrite Tm, Bs. cbn [negb andb]. unfold kpc.
    destruct (c_upper (cell_of s w)) as [u|], (c_lower (cell_of s w)) as [l|]; cbn [andb negb];
      repeat match goal with |- context[osub H false ?a ?b] => destruct (osub H false a b) end;
      cbn [negb andb orb]; try reflexivity; destruct (c_wild (cell_of s w)); reflexivity.
  - cbn [andb]. rewrite Tm, orb_false_r. unfold kpo.
    destruct (o =? Bottom); [reflexivity|]. cbn [orb].
    destruct (basic H o) eqn:Bo; cbn [andb].
    + destruct ((o =? m) || osub H false o m); reflexivity.
    + destruct (o =? m) eqn:Eo; [|reflexivity].
      apply Nat.eqb_eq in Eo. subst o. congruence.
Qed.

Lemma kp_var s r w m : follow s r = V w -> kp s r m = kpc (cell_of s w) m.
Proof. unfold kp. intros ->. reflexivity. Qed.

Lemma kp_res s r o args m : follow s r = O o args -> kp s r m = kpo o m.
Proof. unfold kp. intros ->. reflexivity. Qed.

(* kpc reads the bounds only *)
Lemma kpc_ext c c' m : c_lower c' = c_lower c -> c_upper c' = c_upper c -> kpc c' m = kpc c m.
Proof. unfold kpc. intros -> ->. reflexivity. Qed.

(* monotonicity: kept under a tighter upper bound => kept under the looser one *)
Lemma kpc_mono c c' m : bok c' ->
  c_lower c' = c_lower c ->
  (forall u, c_upper c = Some u -> exists u', c_upper c' = Some u' /\ ole u' u) ->
  kpc c' m = true -> kpc c m = true.
Proof.
  intros Bk El Eu. unfold kpc. rewrite El.
  intros K. apply andb_true_iff in K. destruct K as (K1 & K2). rewrite K1. cbn [andb].
  destruct (c_upper c) as [u|] eqn:Hu; [|reflexivity].
  destruct (Eu u eq_refl) as (u' & Hu' & Le). rewrite Hu' in K2.
  destruct Bk as (_ & Bu & _). destruct (Bu u' Hu') as (_ & _ & NBu).
  apply orb_true_iff in K2. apply orb_true_iff. destruct K2 as [K2|K2].
  - apply osubF_ole in K2. destruct (ole_linear u' u m NBu Le K2) as [X|X]; [left|right]; apply osubF_ole; exact X.
  - right. apply osubF_ole. apply osubF_ole in K2. eapply ole_trans; eauto.
Qed.

(* the variable has meanwhile been resolved to its lower bound *)
Lemma kpc_bound_mono c o m : bok c -> c_lower c = Some o ->
  kpo o m = true -> kpc c m = true.
Proof.
  intros (Bl & Bu & Blu) El K. unfold kpc. rewrite El.
  destruct (Bl o El) as (Vo & NBo & NTo).
  assert (Lo : ole o m).
  { unfold kpo in K. apply orb_true_iff in K. destruct K as [K|K].
    - apply Nat.eqb_eq in K. contradiction.
    - apply andb_true_iff in K. destruct K as (_ & K). apply orb_true_iff in K. destruct K as [K|K].
      + apply Nat.eqb_eq in K. subst. apply Lub.ole_refl.
      + apply osubF_ole. exact K. }
  assert (E1 : osubF o m = true) by (apply osubF_ole; exact Lo). rewrite E1. cbn [andb].
  destruct (c_upper c) as [u|] eqn:Hu; [|reflexivity].
  pose proof (Blu o u El eq_refl) as Lu.
  apply orb_true_iff. destruct (ole_linear o u m NBo Lu Lo) as [X|X]; [left|right]; apply osubF_ole; exact X.
Qed.

(* an upper bound below m keeps m *)
Lemma kpc_upper_le c u m : bok c -> c_upper c = Some u -> ole u m -> kpc c m = true.
Proof.
  intros (Bl & Bu & Blu) Hu Le. unfold kpc. rewrite Hu.
  assert (E : osubF u m = true) by (apply osubF_ole; exact Le). rewrite E. cbn [orb]. rewrite andb_true_r.
  destruct (c_lower c) as [l|] eqn:Hl; [|reflexivity].
  apply osubF_ole. eapply ole_trans; [apply (Blu l u eq_refl Hu)|exact Le].
Qed.

Lemma kpo_ole o m : o <> Bottom -> kpo o m = true -> ole o m.
Proof.
  intros NB K. unfold kpo in K. apply orb_true_iff in K. destruct K as [K|K].
  - apply Nat.eqb_eq in K. contradiction.
  - apply andb_true_iff in K. destruct K as (_ & K). apply orb_true_iff in K. destruct K as [K|K].
    + apply Nat.eqb_eq in K. subst. apply Lub.ole_refl.
    + apply osubF_ole. exact K.
Qed.

Lemma ole_kpo o m : basic H o = true -> ole o m -> kpo o m = true.
Proof.
  intros Bo Le. unfold kpo. rewrite Bo. cbn [andb]. apply orb_true_iff. right.
  apply orb_true_iff. right. apply osubF_ole. exact Le.
Qed.

(* ------------------------------------------------------------------ *)
(* alternatives whose comparable members are equal                      *)
(* ------------------------------------------------------------------ *)
Definition PI (l : list nat) : Prop :=
  forall x y, In x l -> In y l -> FL.le H x y = true -> x = y.

Definition anti (l : list nat) : Prop := ForallOrdPairs (FL.incomp H) l.

Lemma PI_incl l l' : incl l' l -> PI l -> PI l'.
Proof. intros I P x y Hx Hy. apply P; auto. Qed.

Lemma anti_filter (p : nat -> bool) l : anti l -> anti (filter p l).
Proof.
  induction 1 as [|x l Hx Hl IH]; cbn [filter]; [constructor|].
  destruct (p x); [|exact IH]. constructor; [|exact IH].
  rewrite Forall_forall in *. intros y Hy. apply filter_In in Hy. apply Hx, Hy.
Qed.

Lemma anti_app_one ms b : anti ms -> Forall (fun m => FL.incomp H m b) ms -> anti (ms ++ [b]).
Proof.
  induction 1 as [|x l Hx Hl IH]; cbn [app]; intros F.
  - constructor; constructor.
  - inversion F; subst. constructor; [|apply IH; assumption].
    apply Forall_app. split; [exact Hx|constructor; [assumption|constructor]].
Qed.

Lemma anti_NoDup l : anti l -> NoDup l.
Proof.
  induction 1 as [|x l Hx Hl IH]; constructor; [|exact IH].
  intros Hin. rewrite Forall_forall in Hx. destruct (Hx x Hin) as (E & _).
  rewrite FL.le_refl in E. discriminate.
Qed.

Lemma anti_PI l : anti l -> PI l.
Proof.
  induction 1 as [|x l Hx Hl IH]; intros a b Ha Hb Le; [destruct Ha|].
  rewrite Forall_forall in Hx. destruct Ha as [<-|Ha], Hb as [<-|Hb]; auto.
  - destruct (Hx b Hb) as (E & _). congruence.
  - destruct (Hx a Ha) as (_ & E). congruence.
Qed.

(* one step of minimize on such a list: add the alternative unless present *)
Lemma min_step_PI ms b :
  (forall m, In m ms -> FL.le H m b = true -> m = b) ->
  (forall m, In m ms -> FL.le H b m = true -> m = b) ->
  FL.min_step H ms b = if existsb (Nat.eqb b) ms then ms else ms ++ [b].
Proof.
  intros P1 P2. unfold FL.min_step.
  assert (E : map (FL.repl H b) ms = ms).
  { rewrite <- (map_id ms) at 2. apply map_ext_in. intros m Hm. unfold FL.repl.
    destruct (FL.le H m b) eqn:L; [symmetry; apply P1; auto|reflexivity]. }
  rewrite E.
  assert (X : existsb (FL.le H b) ms = existsb (Nat.eqb b) ms).
  { apply eq_true_iff_eq. rewrite !existsb_exists. split; intros (m & Hm & L); exists m; split; auto.
    - apply Nat.eqb_eq. symmetry. apply P2; auto.
    - apply Nat.eqb_eq in L. subst. apply FL.le_refl. }
  rewrite X. reflexivity.
Qed.

Lemma fold_PI l : forall ms, PI (ms ++ l) -> anti ms ->
  anti (fold_left (FL.min_step H) l ms) /\
  (forall x, In x (fold_left (FL.min_step H) l ms) <-> In x ms \/ In x l).
Proof.
  induction l as [|b l IH]; intros ms P A; cbn [fold_left].
  - split; [exact A|]. intros x. split; [auto|intros [X|[]]; exact X].
  - assert (Hb : In b (ms ++ b :: l)) by (apply in_or_app; right; left; reflexivity).
    rewrite min_step_PI.
    2:{ intros m Hm L. apply P; auto. apply in_or_app; auto. }
    2:{ intros m Hm L. symmetry. apply P; auto. apply in_or_app; auto. }
    destruct (existsb (Nat.eqb b) ms) eqn:Ex.
    + apply existsb_exists in Ex. destruct Ex as (m & Hm & Em). apply Nat.eqb_eq in Em. subst m.
      destruct (IH ms) as (A' & I'); [|exact A|].
      { eapply PI_incl; [|exact P]. intros x Hx. apply in_app_or in Hx. apply in_or_app.
        destruct Hx; [left|right; right]; assumption. }
      split; [exact A'|]. intros x. rewrite I'. cbn [In]. split; [tauto|].
      intros [X|[<-|X]]; auto.
    + destruct (IH (ms ++ [b])) as (A' & I').
      { eapply PI_incl; [|exact P]. intros x Hx. rewrite <- app_assoc in Hx. exact Hx. }
      { apply anti_app_one; [exact A|]. rewrite Forall_forall. intros m Hm.
        assert (Nmb : m <> b).
        { intros ->. assert (existsb (Nat.eqb b) ms = true); [|congruence].
          apply existsb_exists. exists b. split; [exact Hm|apply Nat.eqb_refl]. }
        split.
        - destruct (FL.le H m b) eqn:L; [|reflexivity]. exfalso. apply Nmb. apply P; auto. apply in_or_app; auto.
        - destruct (FL.le H b m) eqn:L; [|reflexivity]. exfalso. apply Nmb. symmetry. apply P; auto. apply in_or_app; auto. }
      split; [exact A'|]. intros x. rewrite I'. rewrite in_app_iff. cbn [In]. tauto.
Qed.

Lemma mins_of_PI l : PI l -> anti (mins_of l) /\ (forall x, In x (mins_of l) <-> In x l).
Proof.
  intros P. destruct (fold_PI l [] P) as (A & I); [constructor|].
  split; [exact A|]. intros x. unfold FL.mins_of. rewrite I. cbn [In]. tauto.
Qed.

Lemma mins_of_anti l : anti l -> mins_of l = l.
Proof. apply FL.mins_of_incomp. Qed.

Lemma mins_of_filter_mins (p : nat -> bool) l : PI l ->
  mins_of (filter p (mins_of l)) = filter p (mins_of l).
Proof. intros P. apply mins_of_anti. apply anti_filter. apply (mins_of_PI l P). Qed.

(* ------------------------------------------------------------------ *)
(* the verdict of a pure subtype constraint on an unresolved reference   *)
(* ------------------------------------------------------------------ *)
Definition vdv (c : cell) (a : nat) (strict : bool) : pres :=
  if a =? Top then (if strict then PKeep else PDone)
  else if kpc c a then PKeep else PErr EConstraintViolation.

Lemma follow_V_unb s t w : (forall v, chain s (V v)) -> follow s t = V w ->
  c_bound (cell_of s w) = None /\ follow s (V w) = V w.
Proof.
  intros C E.
  assert (N : nb s (follow s t)).
  { apply follow_nb_chain. destruct t as [v|o args]; [apply C|exists []; constructor]. }
  rewrite E in N. cbn [nb] in N.
  split; [exact N|]. apply FL.follow_unbound. exact N.
Qed.

Lemma pfc_var n s k w a : (forall v, chain s (V v)) ->
  follow s (k_ref k) = V w -> k_alts k = [O a []] -> basic H a = true ->
  pfc H (4 + n) s k = vdv (cell_of s w) a (k_strict k).
Proof.
  intros C Ef Ea Ba. destruct (follow_V_unb s _ w C Ef) as (Hw & Eww).
  cbn [plus pfc]. rewrite Ea. cbn [ubase]. rewrite Ef. unfold vdv.
  destruct (a =? Top) eqn:ET.
  - apply Nat.eqb_eq in ET. subst a.
    assert (Bt : basic H Top = true) by exact Ba.
    assert (X : forall x, osub H false x Top = true).
    { intros x. apply osubF_ole. right; left; reflexivity. }
    cbn [match_f]. rewrite !Lub.follow_O, Ef. cbn [andb Nat.eqb Top]. rewrite ?Bt.
    destruct (k_strict k); [|reflexivity].
    destruct (c_upper (cell_of s w)), (c_lower (cell_of s w)); cbn [andb negb]; rewrite ?X; cbn [negb andb]; reflexivity.
  - destruct (occurs_base_ok H n s a (V w)) as (oc & Eo). rewrite Eo.
    assert (Noc : oc = false).
    { destruct oc; [|reflexivity]. exfalso. eapply (occurs_base_not_true H); [exact Ef|exact Eo]. }
    subst oc.
    cbn [match_f]. rewrite Lub.follow_O, Ef. cbn [andb]. rewrite ET, Ba. cbn [negb andb]. unfold kpc.
    destruct (c_upper (cell_of s w)) as [u|], (c_lower (cell_of s w)) as [l|]; cbn [andb negb];
      repeat match goal with |- context[osub H false ?a ?b] => destruct (osub H false a b) end;
      cbn [negb andb orb]; reflexivity.
Qed.

(* a resolved reference: the verdict does not read the cells *)
Lemma pfc_res n s s' k o args a :
  follow s (k_ref k) = O o args -> follow s' (k_ref k) = O o args ->
  k_alts k = [O a []] -> basic H a = true ->
  pfc H n s k = pfc H n s' k.
Proof.
  intros E E' Ea Ba. destruct n as [|f]; [reflexivity|]. cbn [pfc]. rewrite Ea.
  assert (U : ubase H f s (k_ref k) a = ubase H f s' (k_ref k) a).
  { destruct f as [|f]; [reflexivity|]. cbn [ubase]. rewrite E, E'. reflexivity. }
  rewrite U. destruct (ubase H f s' (k_ref k) a); [reflexivity|].
  assert (M : forall sub, match_f H f s sub false (k_ref k) (O a []) = match_f H f s' sub false (k_ref k) (O a [])).
  { intros sub. destruct f as [|f]; [reflexivity|]. cbn [match_f]. rewrite !Lub.follow_O, E, E'.
    destruct (sub && ((o =? Bottom) || (a =? Top))); [reflexivity|].
    destruct (basic H o); [reflexivity|].
    destruct (negb (o =? a)) eqn:En; [reflexivity|].
    apply negb_false_iff, Nat.eqb_eq in En. subst o.
    destruct (variance H a) eqn:Va; [reflexivity|].
    unfold basic, arity in Ba. rewrite Va in Ba. discriminate. }
  rewrite !M. reflexivity.
Qed.

(* monotonicity of the verdict in the bounds *)
Lemma vdv_mono c c' a st : bok c' -> variance H a = [] -> a <> Bottom ->
  c_lower c' = c_lower c ->
  (forall u, c_upper c = Some u -> exists u', c_upper c' = Some u' /\ ole u' u) ->
  vdv c' a st <> PErr EConstraintViolation -> vdv c a st <> PErr EConstraintViolation.
Proof.
  intros Bk Va NB El Eu. unfold vdv. destruct (a =? Top) eqn:ET; [auto|].
  apply Nat.eqb_neq in ET.
  destruct (kpc c' a) eqn:K'; [|intros X; exfalso; apply X; reflexivity].
  rewrite (kpc_mono c c' a Bk El Eu K'). auto.
Qed.

(* the verdict does not depend on the fuel once there is enough of it *)
Lemma match_base_fuel f s sub r a : basic H a = true ->
  match_f H (S f) s sub false r (O a []) = match_f H 1 s sub false r (O a []).
Proof.
  intros Ba. cbn [match_f]. rewrite Lub.follow_O.
  destruct (follow s r) as [w|o xs]; [reflexivity|].
  destruct (sub && ((o =? Bottom) || (a =? Top))); [reflexivity|].
  destruct (basic H o) eqn:Bo; [reflexivity|].
  destruct (negb (o =? a)) eqn:En; [reflexivity|].
  apply negb_false_iff, Nat.eqb_eq in En. subst o. congruence.
Qed.

Lemma occurs_base_fuel f s a b : 
  occurs_f H (S (S f)) s (O a []) b = occurs_f H 2 s (O a []) b.
Proof.
  cbn [occurs_f]. rewrite Lub.follow_O.
  assert (E : match_f H (S f) s false false (O a []) (follow s b) = match_f H 1 s false false (O a []) (follow s b)).
  { cbn [match_f]. rewrite Lub.follow_O.
    destruct (follow s (follow s b)) as [w|o xs]; [reflexivity|].
    cbn [andb]. destruct (basic H a); [reflexivity|]. destruct (negb (a =? o)); [reflexivity|].
    destruct (variance H a); reflexivity. }
  rewrite E. reflexivity.
Qed.

Lemma pfc_fuel n s k a : k_alts k = [O a []] -> basic H a = true ->
  pfc H n s k = PErr EFuel \/ pfc H n s k = pfc H 4 s k.
Proof.
  intros Ea Ba.
  assert (G : forall f, pfc H (4 + f) s k = pfc H 4 s k).
  { intros f. cbn [plus pfc]. rewrite Ea.
    assert (U : ubase H (S (S (S f))) s (k_ref k) a = ubase H 3 s (k_ref k) a).
    { cbn [ubase]. destruct (follow s (k_ref k)); [|reflexivity].
      rewrite (occurs_base_fuel f). reflexivity. }
    rewrite U. rewrite !(match_base_fuel (S (S f))), !(match_base_fuel 2) by exact Ba. reflexivity. }
  destruct n as [|[|[|[|n]]]]; [left; reflexivity| | | |right; apply (G n)].
  - cbn [pfc]. rewrite Ea. cbn [ubase]. left. reflexivity.
  - cbn [pfc]. rewrite Ea. cbn [ubase].
    destruct (follow s (k_ref k)) as [w|o xs] eqn:Ef.
    + destruct (a =? Top) eqn:ET; [|left; reflexivity].
      right. rewrite !(match_base_fuel 2) by exact Ba. reflexivity.
    + right. rewrite !(match_base_fuel 2) by exact Ba. reflexivity.
  - cbn [pfc]. rewrite Ea. cbn [ubase].
    destruct (follow s (k_ref k)) as [w|o xs] eqn:Ef.
    + destruct (a =? Top) eqn:ET.
      * right. rewrite !(match_base_fuel 2), !(match_base_fuel 1) by exact Ba. reflexivity.
      * left. cbn [occurs_f]. reflexivity.
    + right. rewrite !(match_base_fuel 2), !(match_base_fuel 1) by exact Ba. reflexivity.
Qed.

End A.
