(* C18 for the class progE (pure subtype constraints x <= A / x < A and
   elimination constraints x << [A1..An] over user base operators): what
   depends on the order in which pending constraints are re-checked, and what
   does not.

   Depends on the order, by computation on the faithful model:
     [kind_refuted]   the KIND of the error when every order fails
                      (TypeMismatch from a subtype constraint whose variable was
                      bound to a compound type, ConstraintViolation from an
                      elimination constraint on the same variable);
     [ref_refuted]    the raw [reference] field of a FULFILLED elimination
                      constraint: minimize() overwrites it with
                      reference.follow(), so a constraint fulfilled after its
                      variable was bound holds the operation, one fulfilled before
                      holds the (now bound) variable.  The two follow to the same
                      type; nothing else differs.
   Does not depend on the order: see Infer/SchedIndepElimR.v (one re-check round). *)
From Coq Require Import List Arith Bool Lia.
Import ListNotations.
From TF Require Import Base.Hier Base.Ty Infer.Store Infer.Engine Infer.Run Infer.Sound
  Infer.SoundSub Infer.SoundElimS.
From TF Require Infer.FitsEngineList.

(* small helpers to establish membership in the class *)
Lemma gd_intro H b : variance H b = [] -> b <> Top -> b <> Bottom -> FL.good H b.
Proof. intros A B C. repeat split; assumption. Qed.

Ltac progE_tac :=
  cbn [progE]; repeat split;
  try (apply cE_apply; auto with arith; fail);
  try (apply cE_inst;
       [cbn; repeat (constructor; cbn; auto with arith)
       |cbn; repeat (constructor; cbn; auto with arith)]).

(* ---- (a) the error kind ---- *)
(* A = 5, C = 6 unrelated, F = 7 unary.   x ** x [x <= A, x << [A, C]]  applied to F(A) *)
Definition kH := mk_hier [] [(7,[true])].
Definition ksig := mkSchema 1 (SOp Function [SVar 0; SVar 0])
  [SCSub (SVar 0) (SOp 5 []) false; SCElim (SVar 0) [SOp 5 []; SOp 6 []]].
Definition kprog := [CInst ksig; CInst (mkSchema 0 (SOp 7 [SOp 5 []]) []); CApply 0 1 true].

Lemma kprog_progE : progE kH 0 kprog.
Proof.
  cbn [progE kprog]. repeat split; try (apply cE_apply; auto with arith; fail).
  - apply cE_inst; cbn [ksig s_n s_body s_constrs].
    + repeat (constructor; cbn; auto with arith).
    + constructor; [left; cbn; auto with arith|constructor; [|constructor]].
      right. cbn. split; [auto with arith|]. exists [5; 6]. split; [|reflexivity].
      constructor; [apply gd_intro; [reflexivity|discriminate|discriminate]|].
      constructor; [apply gd_intro; [reflexivity|discriminate|discriminate]|constructor].
  - apply cE_inst; cbn; [|constructor].
    repeat (constructor; cbn; auto with arith).
Qed.

Theorem kind_refuted : exists H prog sc1 sc2, progE H 0 prog /\
  fst (fst (run_cmds H 100 prog 0 [] (empty_store sc1))) = Some (ETypeMismatch, 2) /\
  fst (fst (run_cmds H 100 prog 0 [] (empty_store sc2))) = Some (EConstraintViolation, 2).
Proof.
  exists kH, kprog, [], [1]. split; [exact kprog_progE|]. vm_compute. split; reflexivity.
Qed.

(* ---- the raw reference of a fulfilled elimination constraint ---- *)
(* A = 5;  M = 6 < A;  B1 = 7 < M;  B2 = 8, B3 = 9, B4 = 10 < A.
   (x ** A) ** x ** x  [x << [B1, B2], x << [M, B3], x << [M, B4]]
   applied to (A ** A): x <= A, all three pending; then applied to B1: x >= B1,
   the first constraint leaves B1, below(x, B1) makes the bounds meet; in the
   nested round the constraint re-checked first (alternative M, above the bound:
   below is a no-op) makes below bind x := B1, the other one is re-checked with
   x bound and stores the operation B1 as its reference. *)
Definition rH := mk_hier [(6,5);(7,6);(8,5);(9,5);(10,5)] [].
Definition rb (o : nat) := SOp o [].
Definition rsig := mkSchema 1
  (SOp Function [SOp Function [SVar 0; rb 5]; SOp Function [SVar 0; SVar 0]])
  [SCElim (SVar 0) [rb 7; rb 8]; SCElim (SVar 0) [rb 6; rb 9]; SCElim (SVar 0) [rb 6; rb 10]].
Definition rprog := [CInst rsig; CInst (mkSchema 0 (SOp Function [rb 5; rb 5]) []); CApply 0 1 false;
                     CInst (mkSchema 0 (rb 7) []); CApply 2 3 false].

Lemma rgood b : In b [6;7;8;9;10] -> FL.good rH b.
Proof.
  intros Hb. cbn in Hb.
  destruct Hb as [<-|[<-|[<-|[<-|[<-|[]]]]]]; (apply gd_intro; [reflexivity|discriminate|discriminate]).
Qed.

Lemma rprog_progE : progE rH 0 rprog.
Proof.
  cbn [progE rprog]. repeat split; try (apply cE_apply; auto with arith; fail).
  - apply cE_inst; cbn [rsig s_n s_body s_constrs].
    + repeat (constructor; cbn; auto with arith).
    + constructor; [|constructor; [|constructor; [|constructor]]]; right; cbn; (split; [auto with arith|]).
      * exists [7; 8]. split; [|reflexivity]. repeat constructor; apply rgood; cbn; auto 10.
      * exists [6; 9]. split; [|reflexivity]. repeat constructor; apply rgood; cbn; auto 10.
      * exists [6; 10]. split; [|reflexivity]. repeat constructor; apply rgood; cbn; auto 10.
  - apply cE_inst; cbn; [|constructor]. repeat (constructor; cbn; auto with arith).
  - apply cE_inst; cbn; [|constructor]. repeat (constructor; cbn; auto with arith).
Qed.

Theorem ref_refuted : exists H prog sc1 sc2, progE H 0 prog /\
  let r1 := run_cmds H 200 prog 0 [] (empty_store sc1) in
  let r2 := run_cmds H 200 prog 0 [] (empty_store sc2) in
  fst (fst r1) = None /\ fst (fst r2) = None /\ snd (fst r1) = snd (fst r2) /\
  vars (snd r1) = vars (snd r2) /\ csets (snd r1) = csets (snd r2) /\
  map (fun k => (k_elim k, k_alts k, k_strict k, k_done k)) (constrs (snd r1)) =
  map (fun k => (k_elim k, k_alts k, k_strict k, k_done k)) (constrs (snd r2)) /\
  map (fun k => follow (snd r1) (k_ref k)) (constrs (snd r1)) =
  map (fun k => follow (snd r2) (k_ref k)) (constrs (snd r2)) /\
  map k_ref (constrs (snd r1)) = [V 0; V 0; O 7 []] /\
  map k_ref (constrs (snd r2)) = [V 0; V 0; V 0].
Proof.
  exists rH, rprog, [], [0; 1]. split; [exact rprog_progE|]. vm_compute. repeat split; reflexivity.
Qed.
