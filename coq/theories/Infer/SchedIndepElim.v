(* C18 for the class progE (pure subtype constraints x <= A / x < A and
   elimination constraints x << [A1..An] over user base operators): what
   depends on the order in which pending constraints are re-checked, and what
   does not.

   Depends on the order, by computation on the faithful model:
     [kind_refuted]   the KIND of the error when every order fails
                      (TypeMismatch from a subtype constraint whose variable was
                      bound to a compound type, ConstraintViolation from an
                      elimination constraint on the same variable);
     [ref_refuted]    the raw [reference] field of a FULFILLED elimination
                      constraint: minimize() overwrites it with
                      reference.follow(), so a constraint fulfilled after its
                      variable was bound holds the operation, one fulfilled before
                      holds the (now bound) variable.  The two follow to the same
                      type; nothing else differs.
   Does not depend on the order (proved in Infer/SchedIndepElimR.v, exported
   below): the outcome of ONE re-check round [check_constraints v], including
   all the rounds nested in it, under ANY two schedules:
     [round_indep]        both runs succeed with stores that agree on all cells,
                          all constraint sets and all constraint records up to
                          the raw reference of fulfilled elimination constraints
                          ([eqk]); or both fail; or one of them ran out of fuel;
     [round_indep_fuel]   with 5 * und s + 5 units of fuel: both succeed ([eqk]) or
                          both fail with a declared error - never one of each.
   Hypothesis [RoundPre H s v] on the store in which the round starts
   ([RoundPre_intro]): well-formed (JE, inv), the alternatives of every
   elimination constraint pairwise equal-or-incomparable (what minimize leaves),
   every pending elimination constraint of the set of v refers to an unbound
   variable that points to this set, or is settled (re-checking it is a no-op),
   and a fulfilled subtype constraint of the set holds. *)
From Coq Require Import List Arith Bool Lia.
Import ListNotations.
From TF Require Import Base.Hier Base.Ty Infer.Store Infer.Engine Infer.Run Infer.Inv Infer.Sound
  Infer.SchedIndep Infer.SoundSub Infer.SoundElimS Infer.SoundElimK Infer.SoundElim Infer.TermElim
  Infer.SchedIndepElimA Infer.SchedIndepElimR.
From TF Require Infer.Lub Infer.FitsEngineList.

(* small helpers to establish membership in the class *)
Lemma gd_intro H b : variance H b = [] -> b <> Top -> b <> Bottom -> FL.good H b.
Proof. intros A B C. repeat split; assumption. Qed.

Ltac progE_tac :=
  cbn [progE]; repeat split;
  try (apply cE_apply; auto with arith; fail);
  try (apply cE_inst;
       [cbn; repeat (constructor; cbn; auto with arith)
       |cbn; repeat (constructor; cbn; auto with arith)]).

(* ---- (a) the error kind ---- *)
(* A = 5, C = 6 unrelated, F = 7 unary.   x ** x [x <= A, x << [A, C]]  applied to F(A) *)
Definition kH := mk_hier [] [(7,[true])].
Definition ksig := mkSchema 1 (SOp Function [SVar 0; SVar 0])
  [SCSub (SVar 0) (SOp 5 []) false; SCElim (SVar 0) [SOp 5 []; SOp 6 []]].
Definition kprog := [CInst ksig; CInst (mkSchema 0 (SOp 7 [SOp 5 []]) []); CApply 0 1 true].

Lemma kprog_progE : progE kH 0 kprog.
Proof.
  cbn [progE kprog]. repeat split; try (apply cE_apply; auto with arith; fail).
  - apply cE_inst; cbn [ksig s_n s_body s_constrs].
    + repeat (constructor; cbn; auto with arith).
    + constructor; [left; cbn; auto with arith|constructor; [|constructor]].
      right. cbn. split; [auto with arith|]. exists [5; 6]. split; [|reflexivity].
      constructor; [apply gd_intro; [reflexivity|discriminate|discriminate]|].
      constructor; [apply gd_intro; [reflexivity|discriminate|discriminate]|constructor].
  - apply cE_inst; cbn; [|constructor].
    repeat (constructor; cbn; auto with arith).
Qed.

Theorem kind_refuted : exists H prog sc1 sc2, progE H 0 prog /\
  fst (fst (run_cmds H 100 prog 0 [] (empty_store sc1))) = Some (ETypeMismatch, 2) /\
  fst (fst (run_cmds H 100 prog 0 [] (empty_store sc2))) = Some (EConstraintViolation, 2).
Proof.
  exists kH, kprog, [], [1]. split; [exact kprog_progE|]. vm_compute. split; reflexivity.
Qed.

(* ---- the raw reference of a fulfilled elimination constraint ---- *)
(* A = 5;  M = 6 < A;  B1 = 7 < M;  B2 = 8, B3 = 9, B4 = 10 < A.
   (x ** A) ** x ** x  [x << [B1, B2], x << [M, B3], x << [M, B4]]
   applied to (A ** A): x <= A, all three pending; then applied to B1: x >= B1,
   the first constraint leaves B1, below(x, B1) makes the bounds meet; in the
   nested round the constraint re-checked first (alternative M, above the bound:
   below is a no-op) makes below bind x := B1, the other one is re-checked with
   x bound and stores the operation B1 as its reference. *)
Definition rH := mk_hier [(6,5);(7,6);(8,5);(9,5);(10,5)] [].
Definition rb (o : nat) := SOp o [].
Definition rsig := mkSchema 1
  (SOp Function [SOp Function [SVar 0; rb 5]; SOp Function [SVar 0; SVar 0]])
  [SCElim (SVar 0) [rb 7; rb 8]; SCElim (SVar 0) [rb 6; rb 9]; SCElim (SVar 0) [rb 6; rb 10]].
Definition rprog := [CInst rsig; CInst (mkSchema 0 (SOp Function [rb 5; rb 5]) []); CApply 0 1 false;
                     CInst (mkSchema 0 (rb 7) []); CApply 2 3 false].

Lemma rgood b : In b [6;7;8;9;10] -> FL.good rH b.
Proof.
  intros Hb. cbn in Hb.
  destruct Hb as [<-|[<-|[<-|[<-|[<-|[]]]]]]; (apply gd_intro; [reflexivity|discriminate|discriminate]).
Qed.

Lemma rprog_progE : progE rH 0 rprog.
Proof.
  cbn [progE rprog]. repeat split; try (apply cE_apply; auto with arith; fail).
  - apply cE_inst; cbn [rsig s_n s_body s_constrs].
    + repeat (constructor; cbn; auto with arith).
    + constructor; [|constructor; [|constructor; [|constructor]]]; right; cbn; (split; [auto with arith|]).
      * exists [7; 8]. split; [|reflexivity]. repeat constructor; apply rgood; cbn; auto 10.
      * exists [6; 9]. split; [|reflexivity]. repeat constructor; apply rgood; cbn; auto 10.
      * exists [6; 10]. split; [|reflexivity]. repeat constructor; apply rgood; cbn; auto 10.
  - apply cE_inst; cbn; [|constructor]. repeat (constructor; cbn; auto with arith).
  - apply cE_inst; cbn; [|constructor]. repeat (constructor; cbn; auto with arith).
Qed.

Theorem ref_refuted : exists H prog sc1 sc2, progE H 0 prog /\
  let r1 := run_cmds H 200 prog 0 [] (empty_store sc1) in
  let r2 := run_cmds H 200 prog 0 [] (empty_store sc2) in
  fst (fst r1) = None /\ fst (fst r2) = None /\ snd (fst r1) = snd (fst r2) /\
  vars (snd r1) = vars (snd r2) /\ csets (snd r1) = csets (snd r2) /\
  map (fun k => (k_elim k, k_alts k, k_strict k, k_done k)) (constrs (snd r1)) =
  map (fun k => (k_elim k, k_alts k, k_strict k, k_done k)) (constrs (snd r2)) /\
  map (fun k => follow (snd r1) (k_ref k)) (constrs (snd r1)) =
  map (fun k => follow (snd r2) (k_ref k)) (constrs (snd r2)) /\
  map k_ref (constrs (snd r1)) = [V 0; V 0; O 7 []] /\
  map k_ref (constrs (snd r2)) = [V 0; V 0; V 0].
Proof.
  exists rH, rprog, [], [0; 1]. split; [exact rprog_progE|]. vm_compute. repeat split; reflexivity.
Qed.


(* ================================================================== *)
(* one re-check round is independent of the schedule                    *)
(* ================================================================== *)
Definition RoundPre (H : hier) (s : store) (v : nat) : Prop :=
  Pre H (c_cs (cell_of s v)) s s.

Theorem round_indep H (W : wf_hier H) f1 f2 v s sc1 sc2 : RoundPre H s v ->
  match check_constraints H f1 v (with_sched s sc1), check_constraints H f2 v (with_sched s sc2) with
  | MOk _ t1, MOk _ t2 => eqk t1 t2
  | MOk _ _, MEr e _ => e = EFuel
  | MEr e _, MOk _ _ => e = EFuel
  | MEr _ _, MEr _ _ => True
  end.
Proof.
  intros P.
  assert (So : forall sc, startok s (with_sched s sc)).
  { intros sc. destruct P as (L & _). split; [reflexivity|split; [reflexivity|split; [reflexivity|]]].
    apply inv_sched. apply L. }
  exact (round_unique H W (c_cs (cell_of s v)) s P f1 f2 v _ _ (So sc1) (So sc2) eq_refl).
Qed.

Theorem round_indep_fuel H (W : wf_hier H) f1 f2 v s sc1 sc2 : RoundPre H s v ->
  5 * und s + 5 <= f1 -> 5 * und s + 5 <= f2 ->
  match check_constraints H f1 v (with_sched s sc1), check_constraints H f2 v (with_sched s sc2) with
  | MOk _ t1, MOk _ t2 => eqk t1 t2
  | MEr e1 _, MEr e2 _ => e1 <> EFuel /\ e2 <> EFuel
  | _, _ => False
  end.
Proof.
  intros P L1 L2. pose proof (round_indep H W f1 f2 v s sc1 sc2 P) as R.
  assert (C : forall v, chain s (V v)) by (apply inv_chain with (b := true); apply P).
  assert (K : KW H s) by apply P.
  assert (C' : forall sc v, chain (with_sched s sc) (V v)) by (intros sc v0; apply (@chain_vars_eq s (with_sched s sc) eq_refl); apply C).
  pose proof (cc_nofuel_elim H f1 v (with_sched s sc1) (C' sc1) K L1) as N1.
  pose proof (cc_nofuel_elim H f2 v (with_sched s sc2) (C' sc2) K L2) as N2.
  destruct (check_constraints H f1 v (with_sched s sc1)) as [u1 t1|e1 t1],
           (check_constraints H f2 v (with_sched s sc2)) as [u2 t2|e2 t2]; auto; congruence.
Qed.

(* the hypothesis in elementary terms *)
Theorem RoundPre_intro H s v : JE H s -> invb true s ->
  (forall c l, c < length (constrs s) -> k_elim (constr_of s c) = true ->
     k_alts (constr_of s c) = FL.obs l -> PI H l) ->
  (forall c w, In c (cset_of s (c_cs (cell_of s v))) -> k_elim (constr_of s c) = true ->
     k_done (constr_of s c) = false -> follow s (k_ref (constr_of s c)) = V w ->
     (w < length (vars s) /\ c_bound (cell_of s w) = None /\ c_cs (cell_of s w) = c_cs (cell_of s v)) \/
     stlE H s c) ->
  (forall c, In c (cset_of s (c_cs (cell_of s v))) -> k_elim (constr_of s c) = false ->
     k_done (constr_of s c) = true -> pfc H 4 s (constr_of s c) = PDone) ->
  RoundPre H s v.
Proof.
  intros J I Pi Hr Sd. split; [|split].
  - constructor; [exact I|apply JE_b; exact J|apply CW_KW; exact J|exact Pi].
  - exact Hr.
  - exact Sd.
Qed.

(* ================================================================== *)
(* non-vacuity: a reachable round with three interacting constraints    *)
(* ================================================================== *)
Lemma rH_wf : wf_hier rH.
Proof.
  split.
  - intros o p. cbn. repeat (destruct o as [|o]; try discriminate; cbn); intros [= <-]; auto with arith.
  - intros o p. cbn. repeat (destruct o as [|o]; try discriminate; cbn); intros [= <-]; cbn; repeat split; discriminate.
  - split; reflexivity.
  - split; reflexivity.
  - reflexivity.
Qed.

(* the signature instantiated and applied to (A ** A): x <= A, three constraints pending *)
Definition rpre := [CInst rsig; CInst (mkSchema 0 (SOp Function [rb 5; rb 5]) []); CApply 0 1 false].
Definition rrun := Eval vm_compute in run_cmds rH 200 rpre 0 [] (empty_store []).
Definition rs := snd rrun.
(* the store in which above(x, B1) starts its re-check round: the lower bound is set *)
Definition rse := set_cell rs 0 (mkCell false None (Some 7) (Some 5) 0).

Lemma rpre_progE : progE rH 0 rpre.
Proof.
  pose proof rprog_progE as P. cbn [progE rprog rpre] in *. tauto.
Qed.

Lemma rse_pre : RoundPre rH rse 0.
Proof.
  assert (R : run_cmds rH 200 rpre 0 [] (empty_store []) = (None, snd (fst rrun), rs)) by (vm_compute; reflexivity).
  destruct (elim_final rH rH_wf 200 [] rpre _ rs rpre_progE R) as (I & _ & J & _).
  assert (Bk : Sound.bok rH (mkCell false None (Some 7) (Some 5) 0)).
  { split; [|split].
    - intros l [= <-]. repeat split; discriminate.
    - intros u [= <-]. repeat split; discriminate.
    - intros l u [= <-] [= <-]. right; right. eapply anc_step; [reflexivity|]. eapply anc_step; [reflexivity|]. apply anc_refl. }
  apply RoundPre_intro.
  - apply JE_set_cell; [exact J|exact Bk|discriminate].
  - unfold rse. apply inv_set_cell.
    + exact I.
    + cbn [c_lower]. discriminate.
    + cbn [c_upper]. discriminate.
    + left. reflexivity.
    + intros t Ht. cbn [c_bound] in Ht. discriminate.
    + intros _ _. vm_compute. auto with arith.
  - intros c l _ E Ea.
    assert (Hc : c = 0 \/ c = 1 \/ c = 2).
    { destruct c as [|[|[|c]]]; auto. exfalso. unfold constr_of, rse, rs in E. cbn in E. destruct c; discriminate. }
    assert (PIl : forall x y, x <> y -> FL.le rH x y = false -> FL.le rH y x = false -> PI rH [x; y]).
    { intros x y N L1 L2 a b Ha Hb Le. cbn in Ha, Hb. destruct Ha as [<-|[<-|[]]], Hb as [<-|[<-|[]]]; auto; congruence. }
    destruct Hc as [->|[->| ->]].
    + change (k_alts (constr_of rse 0)) with (FL.obs [7; 8]) in Ea. apply obs_inj in Ea. subst l.
      apply PIl; [discriminate|reflexivity|reflexivity].
    + change (k_alts (constr_of rse 1)) with (FL.obs [6; 9]) in Ea. apply obs_inj in Ea. subst l.
      apply PIl; [discriminate|reflexivity|reflexivity].
    + change (k_alts (constr_of rse 2)) with (FL.obs [6; 10]) in Ea. apply obs_inj in Ea. subst l.
      apply PIl; [discriminate|reflexivity|reflexivity].
  - intros c w Hc E D Ef. left. change (cset_of rse (c_cs (cell_of rse 0))) with [0; 1; 2] in Hc.
    assert (w = 0).
    { destruct Hc as [<-|[<-|[<-|[]]]];
        [change (follow rse (k_ref (constr_of rse 0))) with (V 0) in Ef
        |change (follow rse (k_ref (constr_of rse 1))) with (V 0) in Ef
        |change (follow rse (k_ref (constr_of rse 2))) with (V 0) in Ef]; congruence. }
    subst w. split; [cbn; auto with arith|split; reflexivity].
  - intros c Hc E D. exfalso. change (cset_of rse (c_cs (cell_of rse 0))) with [0; 1; 2] in Hc.
    destruct Hc as [<-|[<-|[<-|[]]]]; discriminate E.
Qed.

(* the round succeeds; the first schedule leaves the operation, the second the
   variable as reference of the third constraint, everything else is the same *)
Example rse_round :
  (forall f1 f2 sc1 sc2, 20 <= f1 -> 20 <= f2 ->
     match check_constraints rH f1 0 (with_sched rse sc1), check_constraints rH f2 0 (with_sched rse sc2) with
     | MOk _ t1, MOk _ t2 => eqk t1 t2
     | MEr e1 _, MEr e2 _ => e1 <> EFuel /\ e2 <> EFuel
     | _, _ => False
     end) /\
  und rse = 3 /\ cset_of rse (c_cs (cell_of rse 0)) = [0; 1; 2] /\
  (exists t1 t2, check_constraints rH 20 0 (with_sched rse []) = MOk tt t1 /\
                 check_constraints rH 20 0 (with_sched rse [1]) = MOk tt t2 /\
                 map k_ref (constrs t1) = [V 0; V 0; O 7 []] /\ map k_ref (constrs t2) = [V 0; V 0; V 0] /\
                 map k_done (constrs t1) = [true; true; true] /\
                 c_bound (cell_of t1 0) = Some (O 7 [])).
Proof.
  split; [|split; [reflexivity|split; [reflexivity|]]].
  - intros f1 f2 sc1 sc2 L1 L2. apply (round_indep_fuel rH rH_wf f1 f2 0 rse sc1 sc2 rse_pre); exact L1 || exact L2.
  - eexists. eexists. split; [vm_compute; reflexivity|split; [vm_compute; reflexivity|]].
    vm_compute. repeat split; reflexivity.
Qed.
