(* C03 for schemas whose constraints have CONCRETE targets / alternatives of
   any shape:
        x <= T,  x < T      T a well-formed concrete type (F(A), A ** B, ...)
        x << [T1, ..., Tn]  every Ti a well-formed concrete type
   x a schematic variable of the schema: class [progC] (CInst / CApply
   commands, schemas well-scoped).  [progE] (base alternatives) is a sub-class,
   [progG] (arbitrary constraints, main clause only) a super-class.

   Assembly of
     Infer/ConcMatch.v    concrete types in the engine; soundness of the verdicts
                          of match against a concrete type; match on fully
                          resolved types is decided;
     Infer/SoundElimCS.v  forward soundness; every FULFILLED constraint satisfies
                          its done clause [dcl] under every satisfying grounding;
     Infer/SoundElimCK.v  the constraint invariant [Kc]: shape (alternatives
                          among the declared ones), ATTACHMENT to every reachable
                          unbound variable, fully resolved => filtered;
   into clause (iii) of C03 for every accepted progC program
   ([conc_constraints_hold]): for every constraint c of the final store whose
   reference is fully resolved ([grd s (k_ref k) T]):
     elimination  there is a DECLARED alternative B, still among the current
                  alternatives, with Sub T B;
     subtype      the target is the declared B, Sub T B, and T <> B if strict. *)
From Coq Require Import List Arith Bool Lia Permutation.
Import ListNotations.
From TF Require Import Base.Hier Base.Ty Sub.SubSpec Infer.Store Infer.Engine Infer.Run
  Infer.Witness Infer.Check Infer.Sched Infer.Inv Infer.Sound Infer.SchedIndep Infer.SoundSub
  Infer.Fits Infer.ConcMatch Infer.SoundElimCS Infer.SoundElimCK.
From TF Require Infer.Lub Infer.FitsEngineList Infer.SoundElimS Infer.SoundGen Infer.ExprSound.

Unset Implicit Arguments.

Section Main.
Variable H : hier.
Hypothesis W : wf_hier H.
Local Notation len s := (length (vars s)).
Local Notation tg := (Sound.tg H).
Local Notation sat := (Sound.sat H).

(* ------------------------------------------------------------------ *)
(* the class: between progE and progG                                   *)
(* ------------------------------------------------------------------ *)
Lemma styg_sconc n : forall B, wf_ty H B -> styg H n (sconc B).
Proof.
  induction B as [o args IH] using ty_ind'. intros Wb. apply wf_ty_unfold in Wb. destruct Wb as [L F].
  cbn [sconc]. constructor; [rewrite map_length; exact L|].
  rewrite Forall_forall in *. intros x Hx. apply in_map_iff in Hx. destruct Hx as (y & <- & Hy). auto.
Qed.

Lemma pcc_scg n sc : pcc H n sc -> SoundGen.scg H n sc.
Proof.
  destruct sc as [r t st|r alts]; cbn [pcc SoundGen.scg]; destruct r as [i| |]; try tauto.
  - intros (Li & B & WB & ->). split; [constructor; exact Li|apply styg_sconc; exact WB].
  - intros (Li & l & Wl & ->). split; [constructor; exact Li|].
    rewrite Forall_forall in *. intros x Hx. apply in_map_iff in Hx. destruct Hx as (y & <- & Hy).
    apply styg_sconc. auto.
Qed.

Theorem progC_progG : forall cs n, progC H n cs -> SoundGen.progG H n cs.
Proof.
  induction cs as [|c cs IH]; intros n P; cbn [SoundGen.progG]; [exact Logic.I|].
  destruct P as [Pc Pr]. destruct Pc as [sc Sb Pc|f x b Lf Lx]; cbn [ExprSound.nxt].
  - split; [|apply IH; exact Pr]. constructor; [exact Sb|].
    eapply Forall_impl; [|exact Pc]. intros k. apply pcc_scg.
  - split; [|apply IH; exact Pr]. constructor; auto.
Qed.

Lemma psc_pcc n sc : psc H n sc -> pcc H n sc.
Proof.
  destruct sc as [r t st|r alts]; cbn [psc pcc]; [|tauto].
  destruct r as [i| |]; try tauto. destruct t as [| |a [|x xs]]; try tauto. intros (Li & Va).
  split; [exact Li|]. exists (TOp a []). split; [apply (Sound.wf_base_ty H); exact Va|reflexivity].
Qed.

Lemma pec_pcc n sc : SoundElimS.pec H n sc -> pcc H n sc.
Proof.
  destruct sc as [r t st|r alts]; cbn [SoundElimS.pec pcc]; [tauto|].
  destruct r as [i| |]; try tauto. intros (Li & l & Gl & ->).
  split; [exact Li|]. exists (map (fun b => TOp b []) l). split.
  - rewrite Forall_forall in *. intros x Hx. apply in_map_iff in Hx. destruct Hx as (b & <- & Hb).
    apply (Sound.wf_base_ty H). apply (Gl b Hb).
  - rewrite map_map. reflexivity.
Qed.

Theorem progE_progC : forall cs n, SoundElimS.progE H n cs -> progC H n cs.
Proof.
  induction cs as [|c cs IH]; intros n P; cbn [progC]; [exact Logic.I|].
  destruct P as [Pc Pr]. split; [|apply IH; exact Pr].
  destruct Pc as [sc Sb Pc|f x b Lf Lx]; constructor; auto.
  eapply Forall_impl; [|exact Pc]. intros k [Pk|Pk]; [apply psc_pcc|apply pec_pcc]; exact Pk.
Qed.

(* ------------------------------------------------------------------ *)
(* JC is an instance of JG; satisfiability                              *)
(* ------------------------------------------------------------------ *)
Lemma JC_JG s : JC H s -> SoundGen.JG H s.
Proof.
  intros (Jv0 & Cw & _). split; [exact Jv0|]. intros c Lc. destruct (Cw c Lc) as (Tr & (l & Ea & Wl & _)).
  split; [exact Tr|]. rewrite Ea. rewrite Forall_forall in *. intros x Hx.
  apply in_map_iff in Hx. destruct Hx as (B & <- & HB). apply (tg_inj H). auto.
Qed.

Theorem conc_satisfiable fuel sc prog vals s : progC H 0 prog ->
  run_cmds H fuel prog 0 [] (empty_store sc) = (None, vals, s) ->
  exists th, sat th s /\ forall v, c_bound (cell_of s v) = None -> th v = canon s v.
Proof. intros P R. apply (SoundGen.gen_satisfiable H W fuel sc prog vals s (progC_progG _ _ P) R). Qed.

(* ---- (i)+(ii) ---- *)
Theorem conc_sound12 fuel sc prog vals s : progC H 0 prog ->
  run_cmds H fuel prog 0 [] (empty_store sc) = (None, vals, s) ->
  forall th, sat th s -> forall f x r, In (f, x, r) (steps_of prog 0) ->
    StepSem H th (val vals f) (val vals x) (val vals r).
Proof.
  intros P R. destruct (concS_final H W fuel sc prog vals s P R) as (_ & _ & _ & _ & _ & St). exact St.
Qed.

(* ---- (iv) ---- *)
Theorem conc_bounded fuel sc prog vals s : progC H 0 prog ->
  run_cmds H fuel prog 0 [] (empty_store sc) = (None, vals, s) ->
  forall v t o args, c_bound (cell_of s v) = Some t ->
    (c_lower (cell_of s v) <> None \/ c_upper (cell_of s v) <> None) ->
    follow s t = O o args -> args = [].
Proof. intros P R. apply (SoundGen.gen_bounded H W fuel sc prog vals s (progC_progG _ _ P) R). Qed.

(* ------------------------------------------------------------------ *)
(* the constraint invariant on the final store                          *)
(* ------------------------------------------------------------------ *)
Lemma declsC_length : forall prog, length (declsC prog) = ncons prog.
Proof.
  induction prog as [|c r IH]; [reflexivity|]. cbn [declsC ncons]. rewrite app_length, IH. f_equal.
  destruct c; cbn; try reflexivity. apply map_length.
Qed.

(* the value of a fully resolved, well-scoped term is well formed *)
Lemma grd_wf s t T th : sat th s -> tg (len s) t -> grd s t T -> wf_ty H T.
Proof.
  intros S Tt G. rewrite <- (grd_den H s th S t T G). apply (Sound.wf_den H th (len s)); [apply (sat_wf H th s S)|exact Tt].
Qed.

Theorem conc_constraints fuel sc prog vals s : progC H 0 prog ->
  run_cmds H fuel prog 0 [] (empty_store sc) = (None, vals, s) ->
  length (constrs s) = ncons prog /\
  forall c, c < length (constrs s) ->
  let k := constr_of s c in
  tg (len s) (k_ref k) /\
  (* shape: concrete alternatives among the declared ones *)
  (exists l, k_alts k = map inj l /\ incl l (nth c (declsC prog) []) /\ Forall (wf_ty H) l /\
             (k_elim k = false -> length l = 1)) /\
  (* fulfilled: one alternative B left, the reference is below it (and different from
     it, for a strict subtype constraint) under EVERY satisfying grounding *)
  (k_done k = true ->
     exists B, k_alts k = [inj B] /\
       forall th, sat th s -> Sub H (den th (k_ref k)) B /\
         (k_elim k = false -> k_strict k = true -> den th (k_ref k) <> B)) /\
  (* pending: attached to every unbound variable reachable from the reference; a fully
     resolved reference of an elimination constraint is below EVERY remaining alternative,
     that of a subtype constraint does not occur *)
  (k_done k = false ->
     (forall u, reach s (k_ref k) u -> In c (cset_of s (c_cs (cell_of s u)))) /\
     (forall T, grd s (k_ref k) T ->
        k_elim k = true /\ k_alts k <> [] /\ forall B, In (inj B) (k_alts k) -> Sub H T B)).
Proof.
  intros P R.
  destruct (concS_final H W fuel sc prog vals s P R) as (J0 & _ & Dn & _ & N & _).
  destruct (concK_final H W fuel sc prog vals s P R) as (I & R0 & LR & Kk).
  destruct (conc_satisfiable fuel sc prog vals s P R) as (th0 & S0 & _).
  split; [exact N|]. intros c Lc k.
  destruct (proj1 (proj2 J0) c Lc) as (Tr & _). fold k in Tr. split; [exact Tr|].
  destruct (Kk c Lc) as (Sh & Ha & Hg). fold k in Sh, Ha, Hg.
  destruct Sh as (l & Ea & Il & Wl & Hs). cbn [fst] in Il.
  split; [exists l; split; [exact Ea|split; [exact Il|split; [exact Wl|intros X; apply (Hs X)]]]|].
  split.
  - intros Ed. apply (Dn c Ed).
  - intros Ed. split; [exact (Ha Ed)|]. intros T G.
    assert (WT : wf_ty H T) by (eapply grd_wf; eauto).
    destruct (Hg T G WT) as [Ok|(_ & [])]. unfold okg in Ok.
    destruct (k_elim k); [|congruence]. destruct Ok as [Ok|Ok]; [congruence|].
    split; [reflexivity|exact Ok].
Qed.

(* clause (iii): every constraint whose reference is fully resolved holds *)
Theorem conc_constraints_hold fuel sc prog vals s : progC H 0 prog ->
  run_cmds H fuel prog 0 [] (empty_store sc) = (None, vals, s) ->
  forall c, c < length (constrs s) ->
  forall T, grd s (k_ref (constr_of s c)) T ->
  if k_elim (constr_of s c)
  then exists B, In B (nth c (declsC prog) []) /\ In (inj B) (k_alts (constr_of s c)) /\ Sub H T B
  else exists B, In B (nth c (declsC prog) []) /\ k_alts (constr_of s c) = [inj B] /\ Sub H T B /\
                 (k_strict (constr_of s c) = true -> T <> B).
Proof.
  intros P R c Lc T G.
  destruct (concS_final H W fuel sc prog vals s P R) as (J0 & _ & Dn & _ & N & _).
  destruct (concK_final H W fuel sc prog vals s P R) as (I & R0 & LR & Kk).
  destruct (conc_satisfiable fuel sc prog vals s P R) as (th0 & S0 & _).
  destruct (proj1 (proj2 J0) c Lc) as (Tr & _).
  destruct (Kk c Lc) as (Sh & Ha & Hg). destruct Sh as (l & Ea & Il & Wl & Hs). cbn [fst] in Il.
  set (k := constr_of s c) in *.
  assert (WT : wf_ty H T) by (eapply grd_wf; eauto).
  pose proof (grd_den H s th0 S0 _ _ G) as Dt.
  assert (Done : k_done k = true -> exists B, l = [B] /\ Sub H T B /\
            (k_elim k = false -> k_strict k = true -> T <> B)).
  { intros Ed. destruct (Dn c Ed) as (B & Eb & Hb). fold k in Eb, Hb. exists B.
    destruct (Hb th0 S0) as (Sb & Ne). rewrite Dt in Sb, Ne. split; [|split; [exact Sb|exact Ne]].
    rewrite Ea in Eb. destruct l as [|B1 [|B2 l']]; cbn [map] in Eb; try discriminate.
    injection Eb as Eb. apply (inj_inj) in Eb. subst. reflexivity. }
  destruct (k_elim k) eqn:Ee.
  - destruct (Hg T G WT) as [Ok|(_ & [])]. unfold okg in Ok. rewrite Ee in Ok.
    destruct Ok as [Ed|(Ne & Hb)].
    + destruct (Done Ed) as (B & -> & Sb & _). exists B. split; [apply Il; left; reflexivity|].
      split; [rewrite Ea; left; reflexivity|exact Sb].
    + destruct l as [|B l']; [rewrite Ea in Ne; cbn in Ne; congruence|].
      assert (HB : In (inj B) (k_alts k)) by (rewrite Ea; left; reflexivity).
      exists B. split; [apply Il; left; reflexivity|split; [exact HB|apply Hb; exact HB]].
  - destruct (Hg T G WT) as [Ok|(_ & [])]. unfold okg in Ok. rewrite Ee in Ok.
    destruct (Done Ok) as (B & -> & Sb & Ne). exists B.
    split; [apply Il; left; reflexivity|split; [rewrite Ea; reflexivity|split; [exact Sb|apply Ne; reflexivity]]].
Qed.

(* under every satisfying grounding a fully resolved term denotes its value *)
Theorem conc_resolved_den s t T : grd s t T -> forall th, sat th s -> den th t = T.
Proof. intros G th S. apply (grd_den H s th S t T G). Qed.

(* clause (iii), semantically: under EVERY satisfying grounding *)
Theorem conc_constraints_hold_den fuel sc prog vals s : progC H 0 prog ->
  run_cmds H fuel prog 0 [] (empty_store sc) = (None, vals, s) ->
  forall c, c < length (constrs s) ->
  forall T, grd s (k_ref (constr_of s c)) T ->
  forall th, sat th s ->
  exists B, In B (nth c (declsC prog) []) /\ In (inj B) (k_alts (constr_of s c)) /\
            Sub H (den th (k_ref (constr_of s c))) B /\
            (k_elim (constr_of s c) = false -> k_strict (constr_of s c) = true ->
             den th (k_ref (constr_of s c)) <> B).
Proof.
  intros P R c Lc T G th S. rewrite (grd_den H s th S _ _ G).
  pose proof (conc_constraints_hold fuel sc prog vals s P R c Lc T G) as Hc.
  destruct (k_elim (constr_of s c)).
  - destruct Hc as (B & Ib & Ia & Sb). exists B. split; [exact Ib|split; [exact Ia|split; [exact Sb|discriminate]]].
  - destruct Hc as (B & Ib & Ea & Sb & Ne). exists B.
    split; [exact Ib|split; [rewrite Ea; left; reflexivity|split; [exact Sb|intros _; exact Ne]]].
Qed.

(* ---- C03 for progC programs, all clauses ---- *)
Theorem conc_sound fuel sc prog vals s : progC H 0 prog ->
  run_cmds H fuel prog 0 [] (empty_store sc) = (None, vals, s) ->
  (* (i)+(ii) every application step is well typed under every grounding *)
  (forall th, sat th s -> forall f x r, In (f, x, r) (steps_of prog 0) ->
     StepSem H th (val vals f) (val vals x) (val vals r)) /\
  (* (iii) every constraint whose reference is fully resolved holds *)
  (forall c, c < length (constrs s) ->
   forall T, grd s (k_ref (constr_of s c)) T ->
   if k_elim (constr_of s c)
   then exists B, In B (nth c (declsC prog) []) /\ In (inj B) (k_alts (constr_of s c)) /\ Sub H T B
   else exists B, In B (nth c (declsC prog) []) /\ k_alts (constr_of s c) = [inj B] /\ Sub H T B /\
                  (k_strict (constr_of s c) = true -> T <> B)) /\
  (* (iv) a variable that carries a bound is never resolved to a compound type *)
  (forall v t o args, c_bound (cell_of s v) = Some t ->
     (c_lower (cell_of s v) <> None \/ c_upper (cell_of s v) <> None) ->
     follow s t = O o args -> args = []).
Proof.
  intros P R. split; [exact (conc_sound12 fuel sc prog vals s P R)|split].
  - exact (conc_constraints_hold fuel sc prog vals s P R).
  - exact (conc_bounded fuel sc prog vals s P R).
Qed.

(* the hypotheses of the per-operation statements hold of every reachable store *)
Theorem conc_final fuel sc prog vals s : progC H 0 prog ->
  run_cmds H fuel prog 0 [] (empty_store sc) = (None, vals, s) ->
  invb true s /\ JC H s /\ dn H s /\ Forall (tg (len s)) vals /\
  exists R, length R = length (declsC prog) /\ Kc H (declsC prog, R) (@none) s.
Proof.
  intros P R.
  destruct (concS_final H W fuel sc prog vals s P R) as (J0 & _ & Dn & Fv & _).
  destruct (concK_final H W fuel sc prog vals s P R) as (I & R0 & LR & Kk).
  split; [exact I|split; [exact J0|split; [exact Dn|split; [exact Fv|]]]]. exists R0. auto.
Qed.

End Main.
