(* C17, termination half, for the engine model WITH elimination constraints
   x << [A1..An] over user base operators (and pure subtype constraints):
   class SoundElimS.progE.

   Unlike a pure subtype constraint, fulfilling an elimination constraint
   WRITES variable cells: when one alternative is left, fulfill marks the
   constraint fulfilled and calls unify(ref, alt, subtype) = below(ref, alt),
   which sets the upper bound of the reference (possibly binds it) and
   re-enters check_constraints on the pending set of that variable - and
   check_constraints hands every pending constraint the SAME fuel.  So the
   fuel a re-check round needs is governed by the NESTING DEPTH of such
   rounds, not by the number of pending constraints or of alternatives.

   Measure.  [und s] = number of elimination constraints of the store that are
   not yet marked fulfilled.  The mark is set BEFORE the nested unify, is never
   reset, and the engine creates constraints only in TypeSchema.instance; so
   every nested round runs in a store with a strictly smaller [und].  Along the
   nesting path  fulfill -> unify -> below -> bind -> check_constraints -> fulfill
   five units are spent, hence
        check_constraints   needs   5 * und s + 5   units      ([cc_fuel])
        fulfill             needs   5 * und s + 4   units      ([ff_fuel])
   (with und s = 0 these are the constants 5 / 4 of Infer/TermSub.v).

   Part 1  the light invariant [LI] (acyclic binding chains, n variables,
           bindings of depth <= M, constraint objects of the class, und <= u)
           and the nesting induction on u ([CCs_all]: T_fulfill at level u+1
           uses unify-against-a-base-type at level u, which uses the round at
           level u).  [LI] is preserved by every cell / constraint-set update
           the engine makes, so it is available at the intermediate states
           inside bind / above / below where the rounds start.
   Part 2  unify in subtype mode on arbitrary terms: Infer/TermP.v's induction
           on fuel redone with check_constraints no longer a no-op
           ([specU_all]: fuel >= depth-through-bindings + cc_fuel u + 8).  A
           fuel-shifted simulation with the constraint-free run (Infer/TermSub.v)
           is impossible here: the constrained run writes cells the erased run
           does not and the two branch differently.  Between sub-unifications the
           strong invariants are re-established from the partial-correctness
           results (JE: SoundElimS.unify_soundE, inv: Inv.unify_ok).
   Part 3  fix_ty ([specF_all]), apply ([apply_nfE]); 3b the explicit bounds.
   Part 4  TypeSchema.instance.  4a: a round rooted at a variable x all of whose
           pending constraints refer to x itself (the schematic variables of
           the instance being created) stays inside x ([Ls_all], partial
           correctness): this keeps Constraint.variables(indirect=True)
           (closure_f) linear in the constraints created so far.  4b: one
           new_constraint.  4c: the constraint loop, instance ([inst_nfE]).
   Part 5  whole programs ([prog_term_elim], [prog_fuelE]). *)
From Coq Require Import List Arith Bool Lia Permutation.
Import ListNotations.
From TF Require Import Base.Hier Base.Ty Sub.SubSpec Infer.Store Infer.Engine Infer.Run
  Infer.Sched Infer.Inv Infer.Sound Infer.FixLeast Infer.TermP Infer.SchedIndep Infer.SoundSub
  Infer.TermSub Infer.SoundElimS Infer.SoundElimK Infer.SoundElim.
From TF Require Infer.Lub Infer.FitsEngineList.

Unset Implicit Arguments.

Local Notation len s := (length (vars s)).

#[local] Hint Resolve crash_ne sub_ne ty_ne rec_ne fun_ne : core.
Lemma cv_ne : EConstraintViolation <> EFuel. Proof. discriminate. Qed.
#[local] Hint Resolve cv_ne : core.

(* ================================================================== *)
(* Part 0.  Small facts                                                 *)
(* ================================================================== *)
Lemma nf_bind_eq {A B} (m : M A) (k : A -> M B) s a s1 (Q : B -> store -> Prop) :
  m s = MOk a s1 -> nf (k a) s1 Q -> nf (bindM m k) s Q.
Proof. intros E T. unfold nf, bindM. rewrite E. exact T. Qed.

Lemma nf_nofuel' {A} (m : M A) s Q : nf m s Q -> forall s', m s <> MEr EFuel s'.
Proof. unfold nf. intros N s' E. rewrite E in N. congruence. Qed.

(* counting the elements of a list that satisfy p *)
Definition cnt {A} (p : A -> bool) (l : list A) : nat := length (filter p l).

Lemma cnt_upd {A} (p : A -> bool) (x d : A) : forall l i, i < length l ->
  cnt p (upd i x l) + Nat.b2n (p (nth i l d)) = cnt p l + Nat.b2n (p x).
Proof.
  unfold cnt. induction l as [|y l IH]; intros [|i] L; cbn in L; try lia.
  - cbn [upd nth filter]. destruct (p x), (p y); cbn; lia.
  - cbn [upd nth filter]. specialize (IH i ltac:(lia)).
    destruct (p y); cbn [length]; lia.
Qed.

Lemma cnt_upd_oob {A} (p : A -> bool) (x : A) l i : length l <= i -> cnt p (upd i x l) = cnt p l.
Proof. intros L. rewrite si_upd_oob by exact L. reflexivity. Qed.

Lemma cnt_app {A} (p : A -> bool) l1 l2 : cnt p (l1 ++ l2) = cnt p l1 + cnt p l2.
Proof. unfold cnt. rewrite filter_app, app_length. reflexivity. Qed.

Lemma chain_all s : (forall v, chain s (V v)) -> forall t, chain s t.
Proof. intros C [v|o args]; [apply C|exists []; constructor]. Qed.

(* ================================================================== *)
(* Part 1.  The nesting induction                                       *)
(* ================================================================== *)

(* an elimination constraint that is not yet marked fulfilled *)
Definition undone (k : constr) : bool := k_elim k && negb (k_done k).
Definition und (s : store) : nat := cnt undone (constrs s).

Definition cc_fuel (u : nat) : nat := 5 * u + 5.
Definition ff_fuel (u : nat) : nat := 5 * u + 4.

Section Chain.
Variable H : hier.
Variable M n : nat.
Hypothesis M1 : 1 <= M.
Local Notation gd := (FL.good H).
Local Notation ob := FL.ob.
Local Notation obs := FL.obs.
Local Notation mins_of := (FL.mins_of H).

(* the class of constraint objects: a subtype constraint has one base target,
   an elimination constraint a list of user base operators as alternatives *)
Definition shape (k : constr) : Prop :=
  if k_elim k then exists l, Forall gd l /\ k_alts k = obs l
  else exists a, k_alts k = [O a []] /\ basic H a = true.

Definition KW (s : store) : Prop := forall c, c < length (constrs s) -> shape (constr_of s c).

Record LI (u : nat) (s : store) : Prop := mkLI {
  li_chain : forall v, chain s (V v);
  li_len : len s = n;
  li_dok : dok M s;
  li_kw : KW s;
  li_und : und s <= u
}.

Notation LIQ u := (fun (_ : unit) s' => LI u s').

Lemma LI_mono u u' s : u <= u' -> LI u s -> LI u' s.
Proof. intros L [A B C D E]. constructor; auto. lia. Qed.

Lemma LI_set_cell_same u s v c' : c_bound c' = c_bound (cell_of s v) -> LI u s -> LI u (set_cell s v c').
Proof.
  intros Eb [A B C D E]. constructor; auto.
  - intros w. eapply chain_bound_eq; [|apply A]. apply bound_set_cell_same. exact Eb.
  - cbn [vars set_cell]. rewrite upd_length. exact B.
  - intros w t. rewrite (bound_set_cell_same s v c' Eb). apply C.
Qed.

Lemma LI_set_cell_bind u s v c' t : c_bound (cell_of s v) = None -> c_bound c' = Some t ->
  nb s t -> t <> V v -> depth t <= M -> LI u s -> LI u (set_cell s v c').
Proof.
  intros Hv Hc Nt Ne Dt [A B C D E]. constructor; auto.
  - intros w. eapply chain_set_bound; eauto.
  - cbn [vars set_cell]. rewrite upd_length. exact B.
  - intros w x. destruct (cell_of_set_cell s v c' w) as [(Ew & -> & _)|Ew]; rewrite Ew.
    + rewrite Hc. intros [= <-]. exact Dt.
    + apply C.
Qed.

Lemma LI_set_cset u s i l : LI u s -> LI u (set_cset s i l).
Proof.
  intros [A B C D E]. constructor; [|exact B|exact C|exact D|exact E].
  intros w. eapply chain_bound_eq; [|apply A]. reflexivity.
Qed.

Lemma LI_sched u s r : LI u s -> LI u (mkStore (vars s) (csets s) (constrs s) r).
Proof.
  intros [A B C D E]. constructor; [|exact B|exact C|exact D|exact E].
  intros w. eapply chain_bound_eq; [|apply A]. reflexivity.
Qed.

Lemma und_set_constr s c k' : c < length (constrs s) ->
  und (set_constr s c k') + Nat.b2n (undone (constr_of s c)) = und s + Nat.b2n (undone k').
Proof. intros L. unfold und, set_constr, constr_of. cbn [constrs]. apply cnt_upd. exact L. Qed.

Lemma und_set_constr_oob s c k' : length (constrs s) <= c -> und (set_constr s c k') = und s.
Proof. intros L. unfold und, set_constr. cbn [constrs]. apply cnt_upd_oob. exact L. Qed.

Lemma KW_set_constr s c k' : shape k' -> KW s -> KW (set_constr s c k').
Proof.
  intros Sk Kw c' Lc'. unfold set_constr in Lc'. cbn [constrs] in Lc'. rewrite upd_length in Lc'.
  destruct (constr_of_set_constr s c k' c') as [(E & _ & _)|E]; rewrite E; auto.
Qed.

(* replacing a constraint object by one of the class that is not "more undone" *)
Lemma LI_set_constr u s c k' : shape k' ->
  (undone k' = true -> undone (constr_of s c) = true) -> LI u s -> LI u (set_constr s c k').
Proof.
  intros Sk Hu [A B C D E].
  constructor; [intros w; apply (@chain_vars_eq s); [reflexivity|apply A]|exact B|exact C| |].
  - apply KW_set_constr; auto.
  - destruct (Nat.lt_ge_cases c (length (constrs s))) as [L|L].
    + pose proof (und_set_constr s c k' L) as X.
      revert X. destruct (undone k') eqn:Ek; [rewrite (Hu eq_refl)|]; destruct (undone (constr_of s c)); cbn [Nat.b2n]; lia.
    + rewrite und_set_constr_oob by exact L. exact E.
Qed.

(* marking an undone elimination constraint fulfilled: the measure drops *)
Lemma LI_mark u s c k' : shape k' -> undone k' = false -> undone (constr_of s c) = true ->
  LI (S u) s -> LI u (set_constr s c k').
Proof.
  intros Sk Hk Hc [A B C D E].
  constructor; [intros w; apply (@chain_vars_eq s); [reflexivity|apply A]|exact B|exact C| |].
  - apply KW_set_constr; auto.
  - destruct (Nat.lt_ge_cases c (length (constrs s))) as [L|L].
    + pose proof (und_set_constr s c k' L) as X. rewrite Hk, Hc in X. cbn [Nat.b2n] in X. lia.
    + rewrite constr_of_oob in Hc by exact L. discriminate.
Qed.

Lemma LI_nb u s t : LI u s -> nb s (follow s t).
Proof. intros I. apply follow_nb_chain. apply chain_all. apply I. Qed.

(* ---- what the nesting induction provides at level u ---- *)
Definition CCs (u : nat) : Prop := forall f v s, LI u s -> cc_fuel u <= f ->
  nf (check_constraints H f v) s (LIQ u).
Definition UBr (u : nat) : Prop := forall f t new s, LI u s -> cc_fuel u + 3 <= f ->
  nf (unify H f true false false t (O new [])) s (LIQ u).

Ltac split_ifs :=
  repeat match goal with |- nf (if ?c then _ else _) _ _ => destruct c end.

(* ---- bind to an argument-free operator ---- *)
Lemma T_bind_base u f v o s : CCs u -> LI u s -> cc_fuel u + 1 <= f ->
  nf (bind H f v (O o [])) s (LIQ u).
Proof.
  intros CC I L. destruct f as [|f]; [unfold cc_fuel in L; lia|].
  rewrite Inv.bind_S. apply nf_gets.
  destruct (c_bound (cell_of s v)) eqn:Hb; [apply nf_fail; auto|].
  unfold set_wild at 1. apply nf_upd_cell.
  set (s1 := set_cell s v _).
  assert (I1 : LI u s1) by (apply LI_set_cell_same; auto).
  assert (H1 : c_bound (cell_of s1 v) = None).
  { unfold s1. rewrite bound_set_cell_same by reflexivity. exact Hb. }
  clearbody s1. unfold set_bound at 1. apply nf_upd_cell.
  set (s2 := set_cell s1 v _).
  assert (I2 : LI u s2).
  { apply (LI_set_cell_bind u s1 v _ (O o [])); [exact H1|reflexivity|exact Logic.I|discriminate|cbn; lia|exact I1]. }
  clearbody s2.
  eapply nf_bind with (Q1 := LIQ u).
  - destruct (basic H o).
    + split_ifs; try (apply nf_fail; auto); apply nf_ret; auto.
    + match goal with |- nf (if ?c then _ else _) _ _ => destruct c end; [apply nf_fail; auto|].
      destruct f as [|f]; [unfold cc_fuel in L; lia|].
      eapply nf_lift with (a := []); [reflexivity|].
      apply nf_modify. cbn [fold_right].
      apply nf_gets. apply nf_ret. apply LI_set_cset. exact I2.
  - intros _ s3 _ I3. apply CC; auto. lia.
Qed.

Lemma T_set_lower u f v new s : CCs u -> LI u s -> cc_fuel u <= f ->
  nf (set_lower v (Some new) ;;; check_constraints H f v) s (LIQ u).
Proof.
  intros CC I L. unfold set_lower. apply nf_upd_cell. apply CC; auto.
  apply LI_set_cell_same; auto.
Qed.

Lemma T_set_upper u f v new s : CCs u -> LI u s -> cc_fuel u <= f ->
  nf (set_upper v (Some new) ;;; check_constraints H f v) s (LIQ u).
Proof.
  intros CC I L. unfold set_upper. apply nf_upd_cell. apply CC; auto.
  apply LI_set_cell_same; auto.
Qed.

(* ---- above / below on an unbound variable ---- *)
Lemma T_above_unb u f v new s : CCs u -> LI u s -> c_bound (cell_of s v) = None ->
  cc_fuel u + 2 <= f -> nf (above H f v new) s (LIQ u).
Proof.
  intros CC I Hv L. destruct f as [|f]; [lia|]. rewrite Inv.above_S.
  destruct (Nat.eqb new Top); [apply T_bind_base; auto; lia|].
  unfold set_wild at 1. apply nf_upd_cell.
  set (s1 := set_cell s v _).
  assert (I1 : LI u s1) by (apply LI_set_cell_same; auto).
  assert (H1 : c_bound (cell_of s1 v) = None).
  { unfold s1. rewrite bound_set_cell_same by reflexivity. exact Hv. }
  clearbody s1. apply nf_gets. rewrite H1.
  assert (SL : nf (set_lower v (Some new);;; check_constraints H f v) s1 (LIQ u))
    by (apply T_set_lower; auto; lia).
  eapply nf_bind with (Q1 := LIQ u).
  - destruct (c_upper (cell_of s1 v)), (c_lower (cell_of s1 v)); split_ifs;
      try exact SL; try (apply nf_fail; auto); apply nf_ret; auto.
  - intros _ s2 _ I2. apply nf_gets.
    destruct (c_bound (cell_of s2 v)); [apply nf_ret; auto|].
    destruct (c_lower (cell_of s2 v)); [|apply nf_ret; auto].
    destruct (c_upper (cell_of s2 v)); [|apply nf_ret; auto].
    destruct (Nat.eqb _ _); [|apply nf_ret; auto].
    apply T_bind_base; auto. lia.
Qed.

Lemma T_below_unb u f v new s : CCs u -> LI u s -> c_bound (cell_of s v) = None ->
  cc_fuel u + 2 <= f -> nf (below H f v new) s (LIQ u).
Proof.
  intros CC I Hv L. destruct f as [|f]; [lia|]. rewrite Inv.below_S.
  destruct (Nat.eqb new Bottom); [apply T_bind_base; auto; lia|].
  unfold set_wild at 1. apply nf_upd_cell.
  set (s1 := set_cell s v _).
  assert (I1 : LI u s1) by (apply LI_set_cell_same; auto).
  assert (H1 : c_bound (cell_of s1 v) = None).
  { unfold s1. rewrite bound_set_cell_same by reflexivity. exact Hv. }
  clearbody s1. apply nf_gets. rewrite H1.
  assert (SL : nf (set_upper v (Some new);;; check_constraints H f v) s1 (LIQ u))
    by (apply T_set_upper; auto; lia).
  eapply nf_bind with (Q1 := LIQ u).
  - destruct (c_lower (cell_of s1 v)), (c_upper (cell_of s1 v)); split_ifs;
      try exact SL; try (apply nf_fail; auto); apply nf_ret; auto.
  - intros _ s2 _ I2. apply nf_gets.
    destruct (c_bound (cell_of s2 v)); [apply nf_ret; auto|].
    destruct (c_upper (cell_of s2 v)); [|apply nf_ret; auto].
    destruct (c_lower (cell_of s2 v)); [|apply nf_ret; auto].
    destruct (Nat.eqb _ _); [|apply nf_ret; auto].
    apply T_bind_base; auto. lia.
Qed.

(* ---- unify against an argument-free operator ---- *)
Lemma T_unify_base_r u f t new s : CCs u -> LI u s -> cc_fuel u + 3 <= f ->
  nf (unify H f true false false t (O new [])) s (LIQ u).
Proof.
  intros CC I L. destruct f as [|f]; [lia|].
  rewrite Inv.unify_S. apply nf_gets. apply nf_gets.
  change (follow s (O new [])) with (O new []).
  pose proof (LI_nb u s t I) as Na.
  destruct (follow s t) as [va|oa xs] eqn:Ef.
  - destruct (Nat.eqb new Top); [apply nf_ret; auto|].
    destruct f as [|[|f]]; try (unfold cc_fuel in L; lia).
    destruct (TermP.occurs_base_ok H f s new (V va)) as (oc & Eo).
    eapply nf_lift; [exact Eo|]. destruct oc; [apply nf_fail; auto|].
    destruct (basic H new).
    + apply nf_gets. cbn [orb andb]. apply T_below_unb; auto. lia.
    + cbn [orb]. apply T_bind_base; auto. lia.
  - split_ifs; try (apply nf_fail; auto); try (apply nf_ret; auto).
    destruct (variance H oa) as [|b vs]; [apply nf_ret; auto|].
    destruct xs; apply nf_ret; auto.
Qed.

Lemma T_unify_base_l u f t new s : CCs u -> LI u s -> cc_fuel u + 3 <= f ->
  nf (unify H f true false false (O new []) t) s (LIQ u).
Proof.
  intros CC I L. destruct f as [|f]; [lia|].
  rewrite Inv.unify_S. apply nf_gets. apply nf_gets.
  change (follow s (O new [])) with (O new []).
  pose proof (LI_nb u s t I) as Na.
  destruct (follow s t) as [vb|ob' ys] eqn:Ef.
  - destruct (Nat.eqb new Bottom); [apply nf_ret; auto|].
    destruct f as [|[|f]]; try (unfold cc_fuel in L; lia).
    destruct (TermP.occurs_base_ok H f s new (V vb)) as (oc & Eo).
    eapply nf_lift; [exact Eo|]. destruct oc; [apply nf_fail; auto|].
    destruct (basic H new).
    + apply nf_gets. cbn [orb andb]. apply T_above_unb; auto. lia.
    + cbn [orb]. apply T_bind_base; auto. lia.
  - split_ifs; try (apply nf_fail; auto); try (apply nf_ret; auto).
    destruct (variance H new); apply nf_ret; auto.
Qed.

(* ---- above / below on any variable ---- *)
Lemma T_above u f v new s : CCs u -> LI u s -> cc_fuel u + 4 <= f -> nf (above H f v new) s (LIQ u).
Proof.
  intros CC I L. destruct (c_bound (cell_of s v)) as [t|] eqn:Hv.
  2:{ apply T_above_unb; auto. lia. }
  destruct f as [|f]; [lia|]. rewrite Inv.above_S.
  destruct (Nat.eqb new Top); [apply T_bind_base; auto; lia|].
  unfold set_wild at 1. apply nf_upd_cell.
  set (s1 := set_cell s v _).
  assert (I1 : LI u s1) by (apply LI_set_cell_same; auto).
  assert (H1 : c_bound (cell_of s1 v) = Some t).
  { unfold s1. rewrite bound_set_cell_same by reflexivity. exact Hv. }
  clearbody s1. apply nf_gets. rewrite H1.
  apply T_unify_base_l; auto. lia.
Qed.

Lemma T_below u f v new s : CCs u -> LI u s -> cc_fuel u + 4 <= f -> nf (below H f v new) s (LIQ u).
Proof.
  intros CC I L. destruct (c_bound (cell_of s v)) as [t|] eqn:Hv.
  2:{ apply T_below_unb; auto. lia. }
  destruct f as [|f]; [lia|]. rewrite Inv.below_S.
  destruct (Nat.eqb new Bottom); [apply T_bind_base; auto; lia|].
  unfold set_wild at 1. apply nf_upd_cell.
  set (s1 := set_cell s v _).
  assert (I1 : LI u s1) by (apply LI_set_cell_same; auto).
  assert (H1 : c_bound (cell_of s1 v) = Some t).
  { unfold s1. rewrite bound_set_cell_same by reflexivity. exact Hv. }
  clearbody s1. apply nf_gets. rewrite H1.
  apply T_unify_base_r; auto. lia.
Qed.

(* ---- fulfill ---- *)
Lemma pureK_dconstr : pureK H dconstr.
Proof. split; [reflexivity|]. cbn. discriminate. Qed.

Lemma shape_pureK k : k_elim k = false -> shape k -> pureK H k.
Proof.
  unfold shape. intros Ee Sk. rewrite Ee in Sk. destruct Sk as (a & Ea & Ba).
  split; [exact Ee|]. intros t Et. rewrite Ea in Et. inversion Et; subst. eauto.
Qed.

Lemma und_pos s c : undone (constr_of s c) = true -> 1 <= und s.
Proof.
  intros Hc. destruct (Nat.lt_ge_cases c (length (constrs s))) as [L|L].
  - pose proof (und_set_constr s c dconstr L) as X. rewrite Hc in X. cbn [Nat.b2n] in X.
    change (undone dconstr) with false in X. cbn [Nat.b2n] in X. lia.
  - rewrite constr_of_oob in Hc by exact L. discriminate.
Qed.

Lemma T_fulfill u f c s : (forall u', u = S u' -> CCs u') -> LI u s -> ff_fuel u <= f ->
  nf (fulfill H f c) s (fun _ s' => LI u s').
Proof.
  intros CC I L. destruct (k_elim (constr_of s c)) eqn:Ee.
  2:{ (* a pure subtype constraint: constant fuel, read-only up to the done flag *)
      assert (P : pureK H (constr_of s c)).
      { destruct (Nat.lt_ge_cases c (length (constrs s))) as [Lc|Lc].
        - apply shape_pureK; [exact Ee|]. apply (li_kw u s I). exact Lc.
        - rewrite constr_of_oob by exact Lc. apply pureK_dconstr. }
      eapply nf_eq; [apply (fulfill_pure H f c s P)|].
      pose proof (pfc_nofuel H f s (constr_of s c) ltac:(unfold ff_fuel in L; lia)) as N.
      destruct (pfc H f s (constr_of s c)) as [e| |] eqn:Ep; [congruence| |exact I].
      unfold markd.
      destruct (Nat.lt_ge_cases c (length (constrs s))) as [Lc|Lc].
      - apply LI_set_constr; [| |exact I].
        + pose proof (li_kw u s I c Lc) as Sk. unfold shape in *. rewrite Ee in Sk. exact Sk.
        + cbn. discriminate.
      - unfold set_constr. rewrite si_upd_oob by exact Lc. destruct s; exact I. }
  pose proof (elim_in_range s c Ee) as Lc.
  pose proof (li_kw u s I c Lc) as Sk. unfold shape in Sk. rewrite Ee in Sk. destruct Sk as (l & Gl & Ea).
  destruct f as [|f]; [unfold ff_fuel in L; lia|].
  rewrite FL.fulfill_S'. apply nf_gets. rewrite Ee.
  destruct (k_done (constr_of s c)) eqn:Ed; [apply nf_ret; exact I|].
  assert (Hu : undone (constr_of s c) = true) by (unfold undone; rewrite Ee, Ed; reflexivity).
  destruct f as [|[|g]]; try (unfold ff_fuel in L; lia).
  eapply nf_bind_eq; [apply (minimize_bases1 H g c s l Gl Ea)|]. rewrite Ee, Ed.
  set (k := constr_of s c) in *. set (r0 := follow s (k_ref k)).
  set (s1 := set_constr s c (mkConstr true r0 (obs (mins_of l)) (k_strict k) false)).
  assert (C1 : constr_of s1 c = mkConstr true r0 (obs (mins_of l)) (k_strict k) false)
    by (unfold s1; apply constr_of_set_constr_same; exact Lc).
  pose proof (FL.mins_of_good H l Gl) as Gm.
  apply nf_gets. rewrite C1. apply nf_gets.
  match goal with |- nf (if negb ?b then _ else _) _ _ => destruct b end; [|apply nf_fail; auto].
  cbn [negb k_ref k_alts].
  eapply nf_lift; [apply (filt_keep H (S g) s1 r0 (mins_of l) Gm)|].
  set (l2 := filter (keep H (S (S g)) s1 r0) (mins_of l)).
  assert (G2 : Forall gd l2).
  { apply incl_Forall with (l1 := mins_of l); [|exact Gm]. intros x Hx. apply filter_In in Hx. apply Hx. }
  unfold upd_constr at 1. apply nf_modify. rewrite C1. cbn [k_ref k_strict k_done].
  assert (Es2 : set_constr s1 c (mkConstr true r0 (obs l2) (k_strict k) false) =
                set_constr s c (mkConstr true r0 (obs l2) (k_strict k) false)).
  { unfold s1, set_constr. cbn [vars csets constrs sched]. rewrite si_upd_upd. reflexivity. }
  rewrite Es2. clear Es2.
  set (s2 := set_constr s c (mkConstr true r0 (obs l2) (k_strict k) false)).
  assert (C2 : constr_of s2 c = mkConstr true r0 (obs l2) (k_strict k) false)
    by (unfold s2; apply constr_of_set_constr_same; exact Lc).
  assert (I2 : LI u s2).
  { apply LI_set_constr; [|intros _; exact Hu|exact I]. unfold shape. cbn [k_elim k_alts]. eauto. }
  clearbody l2. destruct l2 as [|m1 [|m2 rest]]; cbn [FL.obs map].
  - apply nf_fail; auto.
  - unfold upd_constr at 1. apply nf_modify. rewrite C2. cbn [k_ref k_alts k_strict].
    assert (Es3 : set_constr s2 c (mkConstr true r0 (obs [m1]) (k_strict k) true) =
                  set_constr s c (mkConstr true r0 [ob m1] (k_strict k) true)).
    { unfold s2, set_constr. cbn [vars csets constrs sched]. rewrite si_upd_upd. reflexivity. }
    rewrite Es3. clear Es3.
    set (s3 := set_constr s c (mkConstr true r0 [ob m1] (k_strict k) true)).
    destruct u as [|u'].
    { exfalso. pose proof (und_pos s c Hu). pose proof (li_und 0 s I). lia. }
    assert (I3 : LI u' s3).
    { apply LI_mark; [|reflexivity|exact Hu|exact I]. unfold shape. cbn [k_elim k_alts].
      exists [m1]. split; [|reflexivity]. inversion G2; subst. constructor; auto. }
    eapply nf_bind with (Q1 := LIQ u').
    + apply T_unify_base_r; [apply CC; reflexivity|exact I3|]. unfold ff_fuel, cc_fuel in *. lia.
    + intros _ s4 _ I4. apply nf_gets. apply nf_ret. eapply LI_mono; [|exact I4]. lia.
  - apply nf_gets. apply nf_ret. exact I2.
Qed.

(* ---- a re-check round ---- *)
Lemma T_loop u f v : (forall c s, LI u s -> nf (fulfill H f c) s (fun _ s' => LI u s')) ->
  forall l s, LI u s -> nf (loop H f v l) s (LIQ u).
Proof.
  intros F. induction l as [|c l IH]; intros s I; unfold loop; cbn [forM].
  - apply nf_ret. exact I.
  - eapply nf_bind with (Q1 := LIQ u).
    + unfold body. eapply nf_bind; [apply F; exact I|]. cbv beta. intros d s1 _ I1.
      destruct d; [apply nf_modify_end; apply LI_set_cset; exact I1|apply nf_ret; exact I1].
    + intros _ s1 _ I1. apply IH. exact I1.
Qed.

Lemma T_cc u : (forall u', u = S u' -> CCs u') -> CCs u.
Proof.
  intros CC f v s I L. destruct f as [|f]; [unfold cc_fuel in L; lia|].
  assert (F : forall c s, LI u s -> nf (fulfill H f c) s (fun _ s' => LI u s')).
  { intros c s0 I0. apply T_fulfill; auto. unfold ff_fuel, cc_fuel in *. lia. }
  eapply nf_eq; [apply cc_S_eq|]. cbv zeta.
  set (p := cset_of s (c_cs (cell_of s v))).
  destruct (2 <=? length p); [destruct (sched s)|]; apply (T_loop u f v F); auto using LI_sched.
Qed.

(* the nesting induction *)
Theorem CCs_all : forall u, CCs u.
Proof.
  induction u as [|u IH]; apply T_cc.
  - intros u' E. discriminate.
  - intros u' E. injection E as <-. exact IH.
Qed.

End Chain.

(* ================================================================== *)
(* Part 2.  unify on arbitrary terms (Infer/TermP.v with constraints)   *)
(* ================================================================== *)
Section Term.
Variable H : hier.
Hypothesis W : wf_hier H.
Variable M n u : nat.
Hypothesis M1 : 1 <= M.

Local Notation LIu := (LI H M n u).
Notation LQ := (fun (_ : unit) s' => LI H M n u s').
Local Notation CC := (CCs_all H M n M1 u).

Ltac split_ifs :=
  repeat match goal with |- nf (if ?c then _ else _) _ _ => destruct c end.

(* ---- bind ---- *)
Lemma T_bind_V f v w s : LIu s -> c_bound (cell_of s w) = None -> cc_fuel u + 5 <= f ->
  nf (bind H f v (V w)) s LQ.
Proof.
  intros I Hw L. destruct f as [|f]; [lia|].
  rewrite Inv.bind_S. apply nf_gets.
  destruct (c_bound (cell_of s v)) eqn:Hb; [apply nf_fail; auto|].
  set (c := cell_of s v).
  unfold set_wild at 1. apply nf_upd_cell.
  set (s1 := set_cell s v _).
  assert (I1 : LIu s1) by (apply LI_set_cell_same; auto).
  assert (B1 : forall y, c_bound (cell_of s1 y) = c_bound (cell_of s y))
    by (intros y; unfold s1; apply bound_set_cell_same; reflexivity).
  destruct (Nat.eqb v w) eqn:Evw; [apply nf_ret; exact I1|].
  apply Nat.eqb_neq in Evw.
  clearbody s1. unfold set_bound at 1. apply nf_upd_cell.
  set (s2 := set_cell s1 v _).
  assert (I2 : LIu s2).
  { apply (LI_set_cell_bind H M n u s1 v _ (V w)); [rewrite B1; exact Hb|reflexivity|cbn; rewrite B1; exact Hw| |cbn; lia|exact I1].
    intros [= E]. congruence. }
  clearbody s2. apply nf_modify.
  set (s3 := set_cset s2 _ _).
  assert (I3 : LIu s3) by (apply LI_set_cset; exact I2).
  clearbody s3. apply nf_gets. unfold set_cs at 1. apply nf_upd_cell.
  set (s4 := set_cell s3 v _).
  assert (I4 : LIu s4) by (apply LI_set_cell_same; auto).
  clearbody s4. unfold set_wild at 1. apply nf_upd_cell.
  set (s5 := set_cell s4 w _).
  assert (I5 : LIu s5) by (apply LI_set_cell_same; auto).
  clearbody s5.
  eapply nf_bind with (Q1 := LQ).
  { destruct (c_lower c); [apply T_above; auto; [apply CC|lia]|apply nf_ret; exact I5]. }
  intros _ s6 _ I6.
  eapply nf_bind with (Q1 := LQ).
  { destruct (c_upper c); [apply T_below; auto; [apply CC|lia]|apply nf_ret; exact I6]. }
  intros _ s7 _ I7. apply CC; auto. lia.
Qed.

Lemma T_forM_set_cs iv : forall vs s, LIu s -> nf (forM vs (fun w => set_cs w iv)) s LQ.
Proof.
  induction vs as [|w vs IH]; intros s I; cbn [forM]; [apply nf_ret; exact I|].
  unfold set_cs at 1. apply nf_upd_cell. apply IH. apply LI_set_cell_same; auto.
Qed.

Lemma T_bind_O f v o args s : LIu s -> depth (O o args) <= M -> cc_fuel u <= f ->
  (basic H o = false -> forall c2, c_bound c2 = Some (O o args) ->
     exists vs, vars_f f (set_cell s v c2) (O o args) [] = Ok vs) ->
  nf (bind H (S f) v (O o args)) s LQ.
Proof.
  intros I Dt L HV. rewrite Inv.bind_S. apply nf_gets.
  destruct (c_bound (cell_of s v)) eqn:Hb; [apply nf_fail; auto|].
  set (c := cell_of s v).
  unfold set_wild at 1. apply nf_upd_cell.
  unfold set_bound at 1. apply nf_upd_cell. rewrite Lub.set_cell_twice.
  set (c2 := mkCell _ (Some (O o args)) _ _ _). set (s2 := set_cell s v c2).
  assert (I2 : LIu s2).
  { apply (LI_set_cell_bind H M n u s v c2 (O o args)); auto; [exact Logic.I|discriminate]. }
  eapply nf_bind with (Q1 := LQ).
  - destruct (basic H o) eqn:Eb.
    + split_ifs; try (apply nf_fail; auto); apply nf_ret; auto.
    + match goal with |- nf (if ?c then _ else _) _ _ => destruct c end; [apply nf_fail; auto|].
      destruct (HV eq_refl c2 eq_refl) as (vs & Ev). fold s2 in Ev.
      eapply nf_lift; [exact Ev|]. apply nf_modify.
      apply nf_gets. apply T_forM_set_cs. apply LI_set_cset. exact I2.
  - intros _ s3 _ I3. apply CC; auto.
Qed.

(* ---- unify ---- *)
Definition PreE (s : store) : Prop := JE H s /\ inv s /\ LIu s.

Definition specU (f : nat) : Prop := forall a b s k, PreE s -> tg H n a -> tg H n b ->
  depth a <= M -> depth b <= M -> sdle M n s a k -> sdle M n s b k -> k + cc_fuel u + 8 <= f ->
  nf (unify H f true false false a b) s LQ.

Lemma fut_of s s' : ext s s' -> inv s' -> LIu s' -> fut M n s s'.
Proof.
  intros X Iv I. constructor; [apply (ext_bound X)|apply I|apply I|apply wft_all; apply inv_wsc; exact Iv].
Qed.

Lemma fut_refl s : inv s -> LIu s -> fut M n s s.
Proof. intros Iv I. apply fut_of; auto using ext_refl. Qed.

Lemma unify_post f a b s s' : PreE s -> tg H n a -> tg H n b ->
  unify H f true false false a b s = MOk tt s' -> LIu s' -> PreE s' /\ fut M n s s'.
Proof.
  intros (I & Iv & Ls) Ta Tb E L'.
  rewrite <- (li_len _ _ _ _ _ Ls) in Ta, Tb.
  pose proof (unify_soundE H W f a b s I Ta Tb tt s' E) as (I' & _).
  assert (Sa : sct true s a) by (intros _; apply tg_tsc with (H := H); exact Ta).
  assert (Sb : sct true s b) by (intros _; apply tg_tsc with (H := H); exact Tb).
  pose proof (@unify_ok H true f true false false a b s Iv Sa Sb) as K. unfold ok in K. rewrite E in K.
  destruct K as (Iv' & X & _).
  split; [split; [exact I'|split; [exact Iv'|exact L']]|]. apply fut_of; auto.
Qed.

Lemma U_loop f k' : specU f -> k' + cc_fuel u + 8 <= f -> forall vs xs ys s, PreE s ->
  Forall (fun x => tg H n x /\ depth x <= M /\ sdle M n s x k') xs ->
  Forall (fun x => tg H n x /\ depth x <= M /\ sdle M n s x k') ys ->
  nf ((fix go (vs : list bool) (xs ys : list tyv) : Engine.M unit :=
         match vs, xs, ys with
         | v :: vs', x :: xs', y :: ys' =>
             (if v then unify H f true false false x y else unify H f true false false y x) ;;;
             go vs' xs' ys'
         | _, _, _ => ret tt
         end) vs xs ys) s LQ.
Proof.
  intros U L. induction vs as [|v vs IH]; intros xs ys s P Fx Fy; [apply nf_ret; apply P|].
  destruct xs as [|x xs]; [apply nf_ret; apply P|]. destruct ys as [|y ys]; [apply nf_ret; apply P|].
  inversion Fx as [|? ? (Tx & Dx & Sx) Fx']; subst. inversion Fy as [|? ? (Ty & Dy & Sy) Fy']; subst.
  assert (K : forall s1, fut M n s s1 -> PreE s1 ->
     nf ((fix go (vs : list bool) (xs ys : list tyv) : Engine.M unit :=
         match vs, xs, ys with
         | v :: vs', x :: xs', y :: ys' =>
             (if v then unify H f true false false x y else unify H f true false false y x) ;;;
             go vs' xs' ys'
         | _, _, _ => ret tt
         end) vs xs ys) s1 LQ).
  { intros s1 F1 P1. apply IH; auto.
    - eapply Forall_impl; [|exact Fx']. cbv beta. intros z (Tz & Dz & Sz). repeat split; auto.
      eapply sdle_fut; eauto.
    - eapply Forall_impl; [|exact Fy']. cbv beta. intros z (Tz & Dz & Sz). repeat split; auto.
      eapply sdle_fut; eauto. }
  destruct v.
  - eapply nf_bind with (Q1 := LQ); [apply (U x y s k'); auto|].
    intros [] s1 E1 R1. destruct (unify_post f x y s s1 P Tx Ty E1 R1) as [P1 F1]. apply K; auto.
  - eapply nf_bind with (Q1 := LQ); [apply (U y x s k'); auto|].
    intros [] s1 E1 R1. destruct (unify_post f y x s s1 P Ty Tx E1 R1) as [P1 F1]. apply K; auto.
Qed.

Lemma fut_bind s v c2 t : LIu s -> (forall x, wft s x) -> c_bound (cell_of s v) = None ->
  c_bound c2 = Some t -> nb s t -> t <> V v -> depth t <= M -> nocc s v t -> fut M n s (set_cell s v c2).
Proof.
  intros I Wf Hv Hc Nt Ne Dt No.
  assert (I2 : LIu (set_cell s v c2)) by (eapply LI_set_cell_bind; eauto).
  constructor; [|apply I2|apply I2|].
  - intros w x Hw. rewrite cell_of_set_cell_other; auto. intros ->. congruence.
  - intros x. eapply wft_set_bound; eauto.
Qed.

Lemma U_step f : specU f -> specU (S f).
Proof.
  intros U a0 b0 s k P Ta0 Tb0 Da0 Db0 Sa0 Sb0 L. pose proof P as (I & Iv & Ls).
  pose proof (inv_core Iv) as C. pose proof (fut_refl s Iv Ls) as F0.
  pose proof (wft_all (inv_wsc Iv)) as Wf.
  pose proof (li_len _ _ _ _ _ Ls) as Ln.
  rewrite Inv.unify_S. apply nf_gets. apply nf_gets.
  assert (Ta : tg H n (follow s a0)) by (rewrite <- Ln in *; apply SoundElimS.tg_follow; auto).
  assert (Tb : tg H n (follow s b0)) by (rewrite <- Ln in *; apply SoundElimS.tg_follow; auto).
  pose proof (follow_unbound_core a0 C) as Na. pose proof (follow_unbound_core b0 C) as Nb.
  pose proof (depth_follow_f M s (li_dok _ _ _ _ _ Ls) _ a0 Da0 : depth (follow s a0) <= M) as Da.
  pose proof (depth_follow_f M s (li_dok _ _ _ _ _ Ls) _ b0 Db0 : depth (follow s b0) <= M) as Db.
  pose proof (sdle_reach M n s a0 _ k (reach_follow s a0) Sa0) as Sa.
  pose proof (sdle_reach M n s b0 _ k (reach_follow s b0) Sb0) as Sb.
  set (a := follow s a0) in *. set (b := follow s b0) in *. clearbody a b.
  destruct a as [va|oa xs]; destruct b as [vb|ob ys].
  - (* V, V *)
    apply nf_gets. apply nf_gets. cbn [negb orb]. apply T_bind_V; auto. lia.
  - (* V, O *)
    destruct (Nat.eqb ob Top); [apply nf_ret; exact Ls|].
    destruct (@occurs_f_fuel H f s (O ob ys) (V va) k 0 (Sb s F0) (@dle_unb s va 0 Na)) as (oc & Eo); [lia|].
    eapply nf_lift; [exact Eo|]. destruct oc; [apply nf_fail; auto|].
    pose proof (@occurs_false_nocc H f s (O ob ys) va C Na Eo) as No.
    destruct (basic H ob) eqn:Eb.
    + apply nf_gets. cbn [orb andb]. apply T_below; auto; [apply CC|lia].
    + cbn [orb]. destruct f as [|f']; [lia|]. apply T_bind_O; auto; [lia|].
      intros _ c2 Hc. apply (@vars_f_fuel f' (set_cell s va c2) (O ob ys) [] k); [|lia].
      apply Sb. apply (fut_bind s va c2 (O ob ys)); auto; try exact Logic.I; try discriminate.
  - (* O, V *)
    destruct (Nat.eqb oa Bottom); [apply nf_ret; exact Ls|].
    destruct (@occurs_f_fuel H f s (O oa xs) (V vb) k 0 (Sa s F0) (@dle_unb s vb 0 Nb)) as (oc & Eo); [lia|].
    eapply nf_lift; [exact Eo|]. destruct oc; [apply nf_fail; auto|].
    pose proof (@occurs_false_nocc H f s (O oa xs) vb C Nb Eo) as No.
    destruct (basic H oa) eqn:Eb.
    + apply nf_gets. cbn [orb andb]. apply T_above; auto; [apply CC|lia].
    + cbn [orb]. destruct f as [|f']; [lia|]. apply T_bind_O; auto; [lia|].
      intros _ c2 Hc. apply (@vars_f_fuel f' (set_cell s vb c2) (O oa xs) [] k); [|lia].
      apply Sa. apply (fut_bind s vb c2 (O oa xs)); auto; try exact Logic.I; try discriminate.
  - (* O, O *)
    destruct (Nat.eqb oa Bottom || Nat.eqb ob Top); [apply nf_ret; exact Ls|].
    destruct (basic H oa).
    { cbn [andb negb]. split_ifs; try (apply nf_fail; auto); apply nf_ret; exact Ls. }
    destruct (Nat.eqb oa ob); [|apply nf_fail; auto].
    destruct (sdle_args M n s oa xs k F0 Sa) as (k' & -> & Sx).
    destruct (sdle_args M n s ob ys (S k') F0 Sb) as (k'' & E & Sy). injection E as <-.
    apply (U_loop f k' U); [lia|exact P| |].
    + apply Forall_forall. intros x Hx. split; [|split; [|apply Sx; exact Hx]].
      * destruct (tg_args H _ _ _ Ta) as [_ Fa]. rewrite Forall_forall in Fa. auto.
      * pose proof (depth_arg oa xs x Hx). lia.
    + apply Forall_forall. intros y Hy. split; [|split; [|apply Sy; exact Hy]].
      * destruct (tg_args H _ _ _ Tb) as [_ Fb]. rewrite Forall_forall in Fb. auto.
      * pose proof (depth_arg ob ys y Hy). lia.
Qed.

Theorem specU_all : forall f, specU f.
Proof.
  induction f as [|f IH]; [|apply U_step; exact IH].
  intros a b s k _ _ _ _ _ _ _ L. lia.
Qed.

End Term.

(* ================================================================== *)
(* Part 3.  fix_ty and apply                                            *)
(* ================================================================== *)
Section Fix.
Variable H : hier.
Hypothesis W : wf_hier H.
Variable M n u : nat.
Hypothesis M1 : 1 <= M.

Local Notation LIu := (LI H M n u).
Notation LQ := (fun (_ : unit) s' => LI H M n u s').
Local Notation CC := (CCs_all H M n M1 u).
Local Notation PreE := (PreE H M n u).

Definition specF (f : nat) : Prop := forall pl t s k, PreE s -> tg H n t -> depth t <= M ->
  sdle M n s t k -> k + cc_fuel u + 3 <= f ->
  nf (fix_ty H f pl t) s (fun r s' => LIu s' /\ depth r <= M).

Lemma fix_post' f pl t s r s' : PreE s -> tg H n t -> fix_ty H f pl t s = MOk r s' -> LIu s' ->
  PreE s' /\ fut M n s s' /\ tg H (len s') r.
Proof.
  intros (I & Iv & Ls) Tt E L'.
  rewrite <- (li_len _ _ _ _ _ Ls) in Tt.
  pose proof (fix_soundE H W f pl t s I Tt r s' E) as (Tr & I' & _).
  assert (St : sct true s t) by (intros _; apply tg_tsc with (H := H); exact Tt).
  pose proof (@fix_ok H true f pl t s Iv St) as K. unfold ok in K. rewrite E in K.
  destruct K as (Iv' & X & _).
  split; [split; [exact I'|split; [exact Iv'|exact L']]|split; [apply (fut_of H M n u); auto|exact Tr]].
Qed.

Lemma F_loop f k' : specF f -> k' + cc_fuel u + 3 <= f -> forall pl ps vs s, PreE s ->
  Forall (fun x => tg H n x /\ depth x <= M /\ sdle M n s x k') ps ->
  nf ((fix go (vs : list bool) (ps : list tyv) : Engine.M unit :=
         match vs, ps with
         | v :: vs', p :: ps' =>
             fix_ty H f (if v then pl else negb pl) p ;;; go vs' ps'
         | _, _ => ret tt
         end) vs ps) s LQ.
Proof.
  intros F L pl. induction ps as [|p ps IH]; intros vs s P Fp; destruct vs as [|b vs];
    try (apply nf_ret; apply P).
  inversion Fp as [|? ? (Tp & Dp & Sp) Fp']; subst.
  eapply nf_bind; [apply (F (if b then pl else negb pl) p s k'); auto|].
  cbv beta. intros r s1 E1 (L1 & _).
  destruct (fix_post' f _ p s r s1 P Tp E1 L1) as (P1 & F1 & _).
  apply IH; auto. eapply Forall_impl; [|exact Fp']. cbv beta. intros z (Tz & Dz & Sz).
  repeat split; auto. eapply sdle_fut; eauto.
Qed.

Lemma F_step f : specF f -> specF (S f).
Proof.
  intros F pl t s k P Tt Dt St L. pose proof P as (I & Iv & Ls).
  pose proof (li_len _ _ _ _ _ Ls) as Ln.
  rewrite Inv.fix_ty_S. apply nf_gets.
  assert (Ta : tg H n (follow s t)) by (rewrite <- Ln in *; apply SoundElimS.tg_follow; auto).
  pose proof (depth_follow_f M s (li_dok _ _ _ _ _ Ls) _ t Dt : depth (follow s t) <= M) as Da.
  pose proof (sdle_reach M n s t _ k (reach_follow s t) St) as Sa.
  set (a := follow s t) in *. clearbody a.
  eapply nf_bind with (Q1 := LQ).
  - destruct a as [v|o args].
    + apply nf_gets. destruct pl.
      * destruct (c_lower (cell_of s v)); [apply T_bind_base; auto; [apply CC|lia]|apply nf_ret; exact Ls].
      * destruct (c_upper (cell_of s v)); [apply T_bind_base; auto; [apply CC|lia]|apply nf_ret; exact Ls].
    + destruct (sdle_args M n s o args k (fut_refl H M n u s Iv Ls) Sa) as (k' & -> & Sx).
      apply (F_loop f k' F); [lia|exact P|].
      apply Forall_forall. intros x Hx. split; [|split; [|apply Sx; exact Hx]].
      * destruct (tg_args H _ _ _ Ta) as [_ Fa]. rewrite Forall_forall in Fa. auto.
      * pose proof (depth_arg o args x Hx). lia.
  - intros _ s1 _ L1. apply nf_gets_end. split; [exact L1|].
    apply (depth_follow_f M s1 (li_dok _ _ _ _ _ L1)). exact Da.
Qed.

Theorem specF_all : forall f, specF f.
Proof.
  induction f as [|f IH]; [|apply F_step; exact IH].
  intros pl t s k _ _ _ _ L. lia.
Qed.

End Fix.

Section Apply.
Variable H : hier.
Hypothesis W : wf_hier H.
Variable M u : nat.
Hypothesis M1 : 1 <= M.

Local Notation PreE n := (PreE H M n u).

Lemma LI_alloc n s w : LI H M n u s -> LI H M (S n) u (snd (alloc_var s w)).
Proof.
  intros [A B C D E]. constructor.
  - intros v. eapply chain_bound_eq; [|apply A]. intros y. apply alloc_var_bound.
  - rewrite alloc_var_length. lia.
  - intros v t. rewrite alloc_var_bound. apply C.
  - exact D.
  - exact E.
Qed.

Lemma PreE_alloc n s w : PreE n s -> PreE (S n) (snd (alloc_var s w)).
Proof.
  intros (I & Iv & Ls). split; [apply JE_alloc; exact I|split; [apply (@inv_alloc_var true); exact Iv|apply LI_alloc; exact Ls]].
Qed.

Notation APost n := (fun r s' => JE H s' /\ inv s' /\ LI H M n u s' /\ depth r <= M /\ tg H n r).

Lemma apply_tail_nfE n fuel x f' fixb s : PreE n s -> tg H n x -> tg H n f' ->
  depth x <= M -> depth f' <= M -> M + n * M + cc_fuel u + 8 <= fuel ->
  nf (match f' with
      | O o [lft; rgt] =>
          if Nat.eqb o Function then
            unify H fuel true false false x lft ;;;
            if fixb && negb (is_fun rgt) then fix_ty H fuel true rgt else ret rgt
          else if Nat.eqb o Top then ret (O Top [])
          else fail EFunApp
      | O o _ => if Nat.eqb o Top then ret (O Top []) else fail EFunApp
      | V _ => fail EFunApp
      end) s (APost n).
Proof.
  intros P Tx Tf Dx Df L. pose proof P as (I & Iv & Ls).
  assert (TopR : nf (ret (O Top [])) s (APost n)).
  { apply nf_ret. split; [exact I|split; [exact Iv|split; [exact Ls|split; [cbn; lia|]]]].
    apply tg_O0. apply (SubSpec.var_top H W). }
  destruct f' as [v|o [|lft [|rgt [|z r]]]]; try (apply nf_fail; auto);
    try (destruct (Nat.eqb o Top); [exact TopR|apply nf_fail; auto]).
  destruct (Nat.eqb o Function).
  2:{ destruct (Nat.eqb o Top); [exact TopR|apply nf_fail; auto]. }
  destruct (tg_args H _ _ _ Tf) as [_ Fa]. inversion Fa as [|? ? Tl Fa']; subst.
  inversion Fa' as [|? ? Tr _]; subst.
  assert (Dl : depth lft <= M) by (pose proof (depth_arg o [lft; rgt] lft (or_introl eq_refl)); lia).
  assert (Dr : depth rgt <= M) by (pose proof (depth_arg o [lft; rgt] rgt (or_intror (or_introl eq_refl))); lia).
  eapply nf_bind with (Q1 := fun _ s' => LI H M n u s').
  - apply (specU_all H W M n u M1 fuel x lft s (M + n * M)); auto; try (apply sdle_init; auto); lia.
  - intros [] s1 E1 R1. destruct (unify_post H W M n u fuel x lft s s1 P Tx Tl E1 R1) as [P1 F1].
    pose proof P1 as (I1 & Iv1 & _).
    destruct (fixb && negb (is_fun rgt)); [|apply nf_ret; auto 6].
    eapply nf_conseq.
    + apply (specF_all H W M n u M1 fuel true rgt s1 (M + n * M)); auto; [apply sdle_init; auto|lia].
    + cbv beta. intros r s2 E2 (L2 & Dr2).
      destruct (fix_post' H W M n u fuel true rgt s1 r s2 P1 Tr E2 L2) as ((I2 & Iv2 & _) & _ & Tr2).
      rewrite (li_len _ _ _ _ _ L2) in Tr2. auto 6.
Qed.

Theorem apply_nfE fuel f0 x0 fixb s n : PreE n s -> tg H n f0 -> tg H n x0 ->
  depth f0 <= M -> depth x0 <= M -> M + (n + 2) * M + cc_fuel u + 8 <= fuel ->
  nf (apply H fuel f0 x0 fixb) s
     (fun r s' => exists n', n <= n' <= n + 2 /\ JE H s' /\ inv s' /\ LI H M n' u s' /\ depth r <= M /\ tg H n' r).
Proof.
  intros P Tf0 Tx0 Df0 Dx0 L. pose proof P as (I & Iv & Ls).
  pose proof (li_len _ _ _ _ _ Ls) as Ln. subst n.
  unfold apply. apply nf_gets. apply nf_gets.
  pose proof (SoundElimS.tg_follow H s f0 I Tf0) as Tf. pose proof (SoundElimS.tg_follow H s x0 I Tx0) as Tx.
  pose proof (depth_follow_f M s (li_dok _ _ _ _ _ Ls) _ f0 Df0 : depth (follow s f0) <= M) as Df.
  pose proof (depth_follow_f M s (li_dok _ _ _ _ _ Ls) _ x0 Dx0 : depth (follow s x0) <= M) as Dx.
  pose proof (follow_unbound_core f0 (inv_core Iv)) as Nf.
  set (f := follow s f0) in *. set (x := follow s x0) in *. clearbody f x.
  eapply nf_bind with (Q1 := fun f' s1 => exists n1, len s <= n1 <= len s + 2 /\ PreE n1 s1 /\
                                 tg H n1 x /\ tg H n1 f' /\ depth f' <= M).
  - destruct f as [vf|o args].
    2:{ apply nf_ret. exists (len s). split; [lia|]. split; [exact P|]. auto. }
    cbn in Nf. assert (Lv : vf < len s) by (inversion Tf; auto).
    apply nf_fresh.
    pose proof (PreE_alloc (len s) s false P) as P1. pose proof (alloc_var_length s false) as N1.
    pose proof (alloc_cell_old s false vf Lv) as C1. pose proof (alloc_cell_new s false) as A1.
    set (s1 := snd (alloc_var s false)) in *. clearbody s1.
    apply nf_fresh. rewrite N1.
    pose proof (PreE_alloc (S (len s)) s1 false P1) as P2. pose proof (alloc_var_length s1 false) as N2.
    assert (C2 : cell_of (snd (alloc_var s1 false)) vf = cell_of s vf)
      by (rewrite alloc_cell_old by lia; exact C1).
    assert (A2 : c_bound (cell_of (snd (alloc_var s1 false)) (len s)) = None)
      by (rewrite alloc_cell_old by lia; exact A1).
    pose proof (alloc_cell_new s1 false) as B2. rewrite N1 in B2.
    set (s2 := snd (alloc_var s1 false)) in *. clearbody s2.
    destruct P2 as (I2 & Iv2 & L2).
    assert (E2 : len s2 = S (S (len s))) by lia.
    set (t := O Function [V (len s); V (S (len s))]).
    assert (Vf : variance H Function = [false; true]) by apply (wf_fun H W).
    assert (Nbf : basic H Function = false).
    { destruct (basic H Function) eqn:Eb; auto. apply Lub.basic_iff in Eb. congruence. }
    assert (Tt : tg H (len s2) t).
    { constructor; [rewrite Vf; reflexivity|].
      constructor; [constructor; lia|constructor; [constructor; lia|constructor]]. }
    assert (Hvf : c_bound (cell_of s2 vf) = None) by (rewrite C2; exact Nf).
    assert (Dt : depth t <= M) by (unfold t; cbn; lia).
    assert (No : nocc s2 vf t).
    { apply nocc_op. intros z [<-|[<-|[]]]; apply nocc_unb; auto; lia. }
    destruct fuel as [|fuel']; [lia|].
    eapply nf_bind with (Q1 := fun _ s3 => LI H M (S (S (len s))) u s3).
    + apply (T_bind_O H M (S (S (len s))) u M1); auto; [unfold cc_fuel in *; lia|]. intros _ c2 Hc.
      apply (@vars_f_fuel fuel' (set_cell s2 vf c2) t [] 1); [|unfold cc_fuel in *; lia].
      apply dle_op. intros z [<-|[<-|[]]]; apply dle_unb; rewrite cell_of_set_cell_other by lia; auto.
    + intros [] s3 E3 R3. apply nf_gets_end.
      assert (Lvf : vf < len s2) by lia.
      pose proof (bind_soundE H W (S fuel') vf t s2 I2 Lvf Tt) as Kb.
      assert (I3 : JE H s3).
      { apply (Kb ltac:(intros o args [= <- <-] Eb; congruence) tt s3 E3). }
      assert (Iv3 : inv s3 /\ ext s2 s3).
      { pose proof (@bind_ok H true (S fuel') vf t s2 Iv2 Hvf) as K3. unfold ok in K3. rewrite E3 in K3.
        destruct K3 as (A & B & _); auto.
        - exact Logic.I.
        - intros _. lia.
        - intros _. apply tg_tsc with (H := H). exact Tt.
        - intros _. right. exact No. }
      destruct Iv3 as [Iv3 X3].
      assert (L3 : len s3 = len s2) by (rewrite (li_len _ _ _ _ _ R3); lia).
      exists (S (S (len s))). split; [lia|]. split; [split; [exact I3|split; [exact Iv3|exact R3]]|].
      split; [eapply tg_mono; [|exact Tx]; lia|]. split.
      * rewrite <- E2, <- L3. apply SoundElimS.tg_follow; auto. constructor. lia.
      * apply (depth_follow_f M s3 (li_dok _ _ _ _ _ R3)). cbn. lia.
  - cbv beta. intros f' s1 _ (n1 & Ln & P1 & Tx1 & Tf1 & Df1).
    eapply nf_conseq.
    + apply (apply_tail_nfE n1 fuel x f' fixb s1); auto.
      assert (n1 * M <= (len s + 2) * M) by (apply Nat.mul_le_mono_r; lia). lia.
    + cbv beta. intros r s2 _ Hp. exists n1. split; [exact Ln|exact Hp].
Qed.

End Apply.

(* ================================================================== *)
(* Part 3b.  The explicit bounds for a store of the class               *)
(* ================================================================== *)
Section BoundsE.
Variable H : hier.
Hypothesis W : wf_hier H.

Lemma CW_KW s : JE H s -> KW H s.
Proof.
  intros (_ & Cw) c Lc. destruct (Cw c Lc) as (_ & Sh). exact Sh.
Qed.

Lemma LI_intro s M : JE H s -> inv s -> mdepth s <= M -> LI H M (len s) (und s) s.
Proof.
  intros I Iv L. constructor.
  - apply (core_chain (inv_core Iv)).
  - reflexivity.
  - eapply dok_mono; [exact L|apply dok_mdepth].
  - apply CW_KW. exact I.
  - lia.
Qed.

(* the fuel a re-check round may need on top of the constraint-free bound *)
Definition nest (s : store) : nat := cc_fuel (und s).

(* C17_term_elim_unify *)
Theorem unify_term_elim fuel a b s : JE H s -> inv s -> tg H (len s) a -> tg H (len s) b ->
  unify_bound s a b + nest s < fuel ->
  (exists s', unify H fuel true false false a b s = MOk tt s') \/
  (exists e s', unify H fuel true false false a b s = MEr e s' /\ e <> EFuel /\ forall n, e <> ECrash n).
Proof.
  intros I Iv Ta Tb L. unfold unify_bound, nest in L. set (M := mdep s a b) in *.
  assert (M1 : 1 <= M) by (unfold M, mdep; lia).
  assert (Ls : LI H M (len s) (und s) s) by (apply LI_intro; auto; unfold M, mdep; lia).
  assert (P : PreE H M (len s) (und s) s) by (split; [exact I|split; [exact Iv|exact Ls]]).
  assert (Da : depth a <= M) by (unfold M, mdep; lia).
  assert (Db : depth b <= M) by (unfold M, mdep; lia).
  clearbody M.
  pose proof (specU_all H W M (len s) (und s) M1 fuel a b s (M + len s * M) P Ta Tb Da Db) as K.
  assert (Sa : sct true s a) by (intros _; apply tg_tsc with (H := H); exact Ta).
  assert (Sb : sct true s b) by (intros _; apply tg_tsc with (H := H); exact Tb).
  pose proof (@unify_ok H true fuel true false false a b s Iv Sa Sb) as K2. unfold ok in K2.
  unfold nf in K.
  destruct (unify H fuel true false false a b s) as [[] s'|e s'].
  - left. eauto.
  - right. exists e, s'. split; [reflexivity|]. split; [|apply K2].
    apply K; try (apply sdle_init; auto); lia.
Qed.

(* C17_term_elim_apply *)
Theorem apply_term_elim fuel f0 x0 fixb s : JE H s -> inv s -> tg H (len s) f0 -> tg H (len s) x0 ->
  apply_bound s f0 x0 + nest s < fuel ->
  forall s', apply H fuel f0 x0 fixb s <> MEr EFuel s'.
Proof.
  intros I Iv Tf0 Tx0 L. unfold apply_bound, nest in L. set (M := mdep s f0 x0) in *.
  assert (M1 : 1 <= M) by (unfold M, mdep; lia).
  assert (Ls : LI H M (len s) (und s) s) by (apply LI_intro; auto; unfold M, mdep; lia).
  assert (P : PreE H M (len s) (und s) s) by (split; [exact I|split; [exact Iv|exact Ls]]).
  assert (Df0 : depth f0 <= M) by (unfold M, mdep; lia).
  assert (Dx0 : depth x0 <= M) by (unfold M, mdep; lia).
  clearbody M.
  eapply nf_nofuel'. apply (apply_nfE H W M (und s) M1 fuel f0 x0 fixb s (len s)); auto. lia.
Qed.

(* C17_term_elim_fix *)
Definition fix_bound (s : store) (t : tyv) : nat := mdep s t t + len s * mdep s t t + 2.

Theorem fix_term_elim fuel pl t s : JE H s -> inv s -> tg H (len s) t ->
  fix_bound s t + nest s < fuel ->
  forall s', fix_ty H fuel pl t s <> MEr EFuel s'.
Proof.
  intros I Iv Tt L. unfold fix_bound, nest in L. set (M := mdep s t t) in *.
  assert (M1 : 1 <= M) by (unfold M, mdep; lia).
  assert (Ls : LI H M (len s) (und s) s) by (apply LI_intro; auto; unfold M, mdep; lia).
  assert (P : PreE H M (len s) (und s) s) by (split; [exact I|split; [exact Iv|exact Ls]]).
  assert (Dt : depth t <= M) by (unfold M, mdep; lia).
  clearbody M.
  eapply nf_nofuel'.
  apply (specF_all H W M (len s) (und s) M1 fuel pl t s (M + len s * M) P Tt Dt); [|lia].
  apply sdle_init; auto.
Qed.

End BoundsE.

(* ================================================================== *)
(* Part 4.  TypeSchema.instance                                         *)
(* ================================================================== *)

(* ---- 4a. a re-check round rooted at a variable x whose pending constraints
   all refer to x itself (the schematic variables of an instance being
   created) stays inside x: it touches the cell of x, the pending set of x and
   the constraint objects owned by x - nothing else.  Partial correctness
   ([tr]), one induction on fuel. ---- *)
Lemma length_min_step H ms b : length (FL.min_step H ms b) <= S (length ms).
Proof.
  unfold FL.min_step. destruct (existsb _ _); [rewrite map_length; lia|].
  rewrite app_length, map_length. cbn. lia.
Qed.

Lemma length_mins_of H l : length (FL.mins_of H l) <= length l.
Proof.
  unfold FL.mins_of. assert (G : forall ms, length (fold_left (FL.min_step H) l ms) <= length ms + length l).
  { induction l as [|b l IH]; intros ms; cbn [fold_left length]; [lia|].
    specialize (IH (FL.min_step H ms b)). pose proof (length_min_step H ms b). lia. }
  apply (G []).
Qed.

Lemma length_filter_le {A} (p : A -> bool) l : length (filter p l) <= length l.
Proof. induction l as [|y l IH]; cbn [filter length]; [lia|]. destruct (p y); cbn [length]; lia. Qed.

Section Own.
Variable H : hier.
Variables x i0 A : nat.
Variable own : nat -> Prop.
Local Notation gd := (FL.good H).
Local Notation ob := FL.ob.
Local Notation obs := FL.obs.
Local Notation mins_of := (FL.mins_of H).

Definition rf (r : tyv) : Prop := r = V x \/ exists o, r = O o [].
Definition kfc (k : constr) : Prop := rf (k_ref k) /\ shape H k /\ length (k_alts k) <= A.
Definition kf (s : store) (c : nat) : Prop := c < length (constrs s) /\ kfc (constr_of s c).

Definition bb (c : cell) : Prop := c_bound c = None \/ exists o, c_bound c = Some (O o []).

Record Loc (s : store) : Prop := mkLoc {
  lo_cs : c_cs (cell_of s x) = i0;
  lo_b : bb (cell_of s x);
  lo_own : forall c, own c -> kf s c;
  lo_in : forall c, In c (cset_of s i0) -> own c
}.

Record Fr (s s' : store) : Prop := mkFr {
  fr_cell : forall y, y <> x -> cell_of s' y = cell_of s y;
  fr_cset : forall i, i <> i0 -> cset_of s' i = cset_of s i;
  fr_len : len s' = len s;
  fr_cl : length (csets s') = length (csets s);
  fr_kl : length (constrs s') = length (constrs s);
  fr_k : forall c, ~ own c -> constr_of s' c = constr_of s c;
  fr_sl : length (cset_of s' i0) <= length (cset_of s i0)
}.

Definition LP {B} (s : store) : B -> store -> Prop := fun _ s' => Fr s s' /\ Loc s'.

Lemma Fr_refl s : Fr s s.
Proof. constructor; auto. Qed.

Lemma Fr_trans s1 s2 s3 : Fr s1 s2 -> Fr s2 s3 -> Fr s1 s3.
Proof.
  intros [a b c d e f g] [a' b' c' d' e' f' g']. constructor; try congruence; try lia.
  - intros y N. rewrite a' by exact N. apply a. exact N.
  - intros i N. rewrite b' by exact N. apply b. exact N.
  - intros k N. rewrite f' by exact N. apply f. exact N.
Qed.

Lemma LP_refl {B} s (b : B) : Loc s -> LP s b s.
Proof. intros L. split; [apply Fr_refl|exact L]. Qed.

Lemma LP_trans {B C} s1 s2 s3 (b : B) (c : C) : LP s1 b s2 -> LP s2 c s3 -> LP s1 c s3.
Proof. intros [F1 _] [F2 L3]. split; [eapply Fr_trans; eauto|exact L3]. Qed.

(* updates of the cell of x *)
Lemma Loc_set_cell s c' : Loc s -> c_cs c' = c_cs (cell_of s x) -> bb c' ->
  Fr s (set_cell s x c') /\ Loc (set_cell s x c').
Proof.
  intros [a b c d] Ec Bc. split.
  - constructor; auto.
    + intros y N. apply cell_of_set_cell_other. exact N.
    + cbn [vars set_cell]. apply upd_length.
  - constructor; auto.
    + destruct (cell_of_set_cell s x c' x) as [(E & _ & _)|E]; rewrite E; congruence.
    + destruct (cell_of_set_cell s x c' x) as [(E & _ & _)|E]; rewrite E; auto.
Qed.

Lemma LP_set_cell {B} s c' (u : B) : Loc s -> c_cs c' = c_cs (cell_of s x) -> bb c' -> LP s u (set_cell s x c').
Proof. intros L E Bc. exact (Loc_set_cell s c' L E Bc). Qed.

(* shrinking the pending set of x *)
Lemma Loc_set_cset s l' : Loc s -> incl l' (cset_of s i0) -> length l' <= length (cset_of s i0) ->
  Fr s (set_cset s i0 l') /\ Loc (set_cset s i0 l').
Proof.
  intros [a b c d] Il Ll. split.
  - constructor; auto.
    + intros i N. destruct (cset_of_set_cset s i0 l' i) as [(_ & E & _)|E]; [congruence|exact E].
    + cbn [csets set_cset]. apply upd_length.
    + destruct (cset_of_set_cset s i0 l' i0) as [(E & _ & _)|E]; rewrite E; lia.
  - constructor; auto.
    intros k Hk. destruct (cset_of_set_cset s i0 l' i0) as [(E & _ & _)|E]; rewrite E in Hk; auto.
Qed.

(* replacing an owned constraint object *)
Lemma Loc_set_constr s c k' : Loc s -> own c -> kfc k' ->
  Fr s (set_constr s c k') /\ Loc (set_constr s c k').
Proof.
  intros [a b cc d] Oc Kk. split.
  - constructor; auto.
    + cbn [constrs set_constr]. apply upd_length.
    + intros c' N. destruct (constr_of_set_constr s c k' c') as [(_ & E & _)|E]; [congruence|exact E].
  - constructor; auto.
    intros c' Oc'. destruct (cc c' Oc') as (Lc' & K'). split.
    + cbn [constrs set_constr]. rewrite upd_length. exact Lc'.
    + destruct (constr_of_set_constr s c k' c') as [(E & _ & _)|E]; rewrite E; auto.
Qed.

Lemma Loc_sched s r : Loc s -> LP s tt (mkStore (vars s) (csets s) (constrs s) r).
Proof. intros [a b c d]. split; constructor; auto. Qed.

Lemma follow_base s v o : c_bound (cell_of s v) = Some (O o []) -> follow s (V v) = O o [].
Proof.
  intros E. unfold follow. cbn [follow_f]. rewrite E. destruct (len s); reflexivity.
Qed.

Lemma rf_follow s r : Loc s -> rf r -> rf (follow s r).
Proof.
  intros L [->|(o & ->)]; [|right; exists o; reflexivity].
  destruct (lo_b s L) as [E|(o & E)].
  - rewrite follow_of_nb by exact E. left. reflexivity.
  - rewrite (follow_base s x o E). right. eauto.
Qed.

(* ---- the specifications ---- *)
Definition LB f := forall o s, Loc s -> tr (bind H f x (O o [])) s (LP s).
Definition LD f := forall a s, Loc s -> tr (below H f x a) s (LP s).
Definition LU f := forall r a s, Loc s -> rf r -> tr (unify H f true false false r (O a [])) s (LP s).
Definition LC f := forall s, Loc s -> tr (check_constraints H f x) s (LP s).
Definition LF f := forall c s, Loc s -> own c -> tr (fulfill H f c) s (LP s).
Definition Ls f := LB f /\ LD f /\ LU f /\ LC f /\ LF f.

Lemma Ls_0 : Ls 0.
Proof. unfold Ls, LB, LD, LU, LC, LF. repeat apply conj; intros; intros ? ? E; inversion E. Qed.

Lemma LB_step f : LC f -> LB (S f).
Proof.
  intros CC o s L. rewrite Inv.bind_S. apply tr_gets.
  destruct (c_bound (cell_of s x)) eqn:Hb; [apply tr_fail|].
  unfold set_wild at 1. apply tr_upd_cell.
  set (s1 := set_cell s x _).
  assert (P1 : LP s tt s1) by (apply LP_set_cell; auto; left; exact Hb).
  clearbody s1. unfold set_bound at 1. apply tr_upd_cell.
  set (s2 := set_cell s1 x _).
  assert (P2 : LP s tt s2).
  { eapply LP_trans; [exact P1|]. apply LP_set_cell; [apply P1|reflexivity|right; cbn; eauto]. }
  clearbody s2. clear P1.
  eapply tr_bind with (Q1 := LP s).
  - destruct (basic H o).
    + repeat match goal with |- tr (if ?c then _ else _) _ _ => destruct c end;
        try apply tr_fail; apply tr_ret; exact P2.
    + match goal with |- tr (if ?c then _ else _) _ _ => destruct c end; [apply tr_fail|].
      apply tr_lift. intros vs Ev.
      assert (vs = []) as ->.
      { destruct f as [|f]; [discriminate|]. cbn in Ev. congruence. }
      apply tr_modify. cbn [fold_right]. rewrite (lo_cs s2 (proj2 P2)).
      apply tr_gets. cbn [forM]. apply tr_ret.
      eapply LP_trans; [exact P2|]. apply (Loc_set_cset s2 (cset_of s2 i0)); [apply P2|apply incl_refl|lia].
  - intros u s3 P3. eapply tr_conseq; [apply CC; apply P3|]. cbv beta. intros u' s4 P4.
    eapply LP_trans; eauto.
Qed.

Lemma LD_step f : LB f -> LU f -> LC f -> LD (S f).
Proof.
  intros B U CC a s L. rewrite Inv.below_S.
  destruct (Nat.eqb a Bottom); [apply B; exact L|].
  unfold set_wild at 1. apply tr_upd_cell.
  set (s1 := set_cell s x _).
  assert (P1 : LP s tt s1) by (apply LP_set_cell; auto; apply (lo_b s L)).
  assert (B1 : c_bound (cell_of s1 x) = c_bound (cell_of s x))
    by (unfold s1; apply bound_set_cell_same; reflexivity).
  clearbody s1. apply tr_gets.
  destruct (c_bound (cell_of s1 x)) as [t|] eqn:Hb.
  - destruct (lo_b s1 (proj2 P1)) as [E|(o & E)]; [congruence|].
    rewrite Hb in E. injection E as ->.
    eapply tr_conseq; [apply U; [apply P1|right; eauto]|]. cbv beta. intros u s2 P2. eapply LP_trans; eauto.
  - assert (SU : forall new, tr (set_upper x (Some new);;; check_constraints H f x) s1 (LP s)).
    { intros new. unfold set_upper. apply tr_upd_cell.
      set (s2 := set_cell s1 x _).
      assert (P2 : LP s1 tt s2) by (apply LP_set_cell; [apply P1|reflexivity|left; exact Hb]).
      clearbody s2. eapply tr_conseq; [apply CC; apply P2|]. cbv beta. intros u s3 P3.
      eapply LP_trans; [exact P1|eapply LP_trans; eauto]. }
    eapply tr_bind with (Q1 := LP s).
    + destruct (c_lower (cell_of s1 x)), (c_upper (cell_of s1 x));
        repeat match goal with |- tr (if ?c then _ else _) _ _ => destruct c end;
        try apply tr_fail; try apply SU; apply tr_ret; exact P1.
    + intros u s2 P2. apply tr_gets.
      assert (R : tr (ret tt) s2 (LP s)) by (apply tr_ret; exact P2).
      destruct (c_bound (cell_of s2 x)); [exact R|].
      destruct (c_upper (cell_of s2 x)); [|exact R].
      destruct (c_lower (cell_of s2 x)); [|exact R].
      destruct (Nat.eqb _ _); [|exact R].
      eapply tr_conseq; [apply B; apply P2|]. cbv beta. intros u' s3 P3. eapply LP_trans; eauto.
Qed.

Lemma LU_step f : LB f -> LD f -> LU (S f).
Proof.
  intros B D r a s L Rr. rewrite Inv.unify_S. apply tr_gets. apply tr_gets.
  change (follow s (O a [])) with (O a []).
  pose proof (rf_follow s r L Rr) as Rf.
  destruct Rf as [->|(o & ->)].
  - destruct (Nat.eqb a Top); [apply tr_ret; apply LP_refl; exact L|].
    apply tr_lift. intros oc _. destruct oc; [apply tr_fail|].
    destruct (basic H a).
    + apply tr_gets. cbn [orb andb]. apply D. exact L.
    + cbn [orb]. apply B. exact L.
  - assert (R : tr (ret tt) s (LP s)) by (apply tr_ret; apply LP_refl; exact L).
    repeat match goal with |- tr (if ?c then _ else _) _ _ => destruct c end;
      try apply tr_fail; try exact R.
    destruct (variance H o); exact R.
Qed.

Lemma L_loop f : LF f -> forall l s, Loc s -> Forall own l -> tr (loop H f x l) s (LP s).
Proof.
  intros F. induction l as [|c l IH]; intros s L Fo; unfold loop; cbn [forM].
  - apply tr_ret. apply LP_refl. exact L.
  - inversion Fo as [|? ? Oc Fo']; subst.
    eapply tr_bind with (Q1 := LP s).
    + unfold body. eapply tr_bind; [apply F; auto|]. cbv beta. intros d s1 P1.
      destruct d; [|apply tr_ret; exact P1].
      apply tr_modify_end. rewrite (lo_cs s1 (proj2 P1)).
      eapply LP_trans; [exact P1|]. apply Loc_set_cset; [apply P1| |apply length_filter_le].
      intros k Hk. apply In_remove_nat in Hk. apply Hk.
    + intros u s1 P1. change (forM l (body H f x)) with (loop H f x l).
      eapply tr_conseq; [apply IH; [apply P1|exact Fo']|]. cbv beta. intros u' s2 P2.
      eapply LP_trans; eauto.
Qed.

Lemma LC_step f : LF f -> LC (S f).
Proof.
  intros F s L a s' E. rewrite cc_S_eq in E. cbv zeta in E.
  rewrite (lo_cs s L) in E.
  assert (Fo : forall r, Forall own (permute (length (cset_of s i0)) r (cset_of s i0))).
  { intros r. apply Forall_permute. apply Forall_forall. apply (lo_in s L). }
  assert (Fo' : Forall own (cset_of s i0)) by (apply Forall_forall; apply (lo_in s L)).
  destruct (2 <=? length (cset_of s i0)).
  - destruct (sched s) as [|r rest].
    + eapply (L_loop f F); [exact L|apply Fo|exact E].
    + pose proof (Loc_sched s rest L) as P0.
      eapply LP_trans; [exact P0|]. eapply (L_loop f F); [apply P0|apply Fo|exact E].
  - eapply (L_loop f F); [exact L|exact Fo'|exact E].
Qed.

Lemma LF_step f : LU f -> LF (S f).
Proof.
  intros U c s L Oc b s' E.
  destruct (lo_own s L c Oc) as (Lc & Rk & Sk & Ak).
  destruct (k_elim (constr_of s c)) eqn:Ee.
  - unfold shape in Sk. rewrite Ee in Sk. destruct Sk as (l & Gl & Ea).
    destruct (k_done (constr_of s c)) eqn:Ed.
    + rewrite FL.fulfill_S' in E. unfold bindM at 1 in E. unfold gets at 1 in E. rewrite Ee, Ed in E.
      inversion E; subst. apply LP_refl. exact L.
    + pose proof (rf_follow s _ L Rk) as Rr0.
      assert (Ll : length l <= A) by (rewrite Ea in Ak; unfold FL.obs in Ak; rewrite map_length in Ak; exact Ak).
      destruct (fulfill_elim_form H f c s l b s' Ee Ed Gl Ea Lc E)
        as (_ & [(m1 & m2 & rest & El2 & -> & ->)|(m & u & El2 & Eu & ->)]).
      * apply Loc_set_constr; auto. split; [exact Rr0|split].
        -- unfold shape. cbn [set_alts k_elim k_alts]. eexists. split; [|reflexivity].
           apply incl_Forall with (l1 := mins_of l); [|apply FL.mins_of_good; exact Gl].
           intros y Hy. apply filter_In in Hy. apply Hy.
        -- cbn [set_alts k_alts]. unfold FL.obs. rewrite map_length.
           etransitivity; [apply length_filter_le|]. pose proof (length_mins_of H l). lia.
      * set (k := constr_of s c) in *. set (r0 := follow s (k_ref k)) in *.
        set (s3 := set_constr s c (set_alts k r0 [ob m] true)) in *.
        assert (Hm : In m (mins_of l)).
        { assert (X : In m (filter (keep H f (set_constr s c (set_alts k r0 (obs (mins_of l)) false)) r0) (mins_of l)))
            by (rewrite El2; left; reflexivity).
          apply filter_In in X. apply X. }
        assert (Gm : gd m).
        { pose proof (FL.mins_of_good H l Gl) as Gs. rewrite Forall_forall in Gs. apply Gs. exact Hm. }
        assert (P3 : Fr s s3 /\ Loc s3).
        { apply Loc_set_constr; auto. split; [exact Rr0|split].
          - unfold shape. cbn [set_alts k_elim k_alts]. exists [m]. split; [constructor; auto|reflexivity].
          - cbn [set_alts k_alts length]. pose proof (length_mins_of H l).
            destruct (mins_of l); [destruct Hm|]. cbn [length] in *. lia. }
        pose proof (U r0 m s3 (proj2 P3) Rr0 u s' Eu) as P'.
        split; [eapply Fr_trans; [apply P3|apply P']|apply P'].
  - assert (Pk : pureK H (constr_of s c)) by (apply shape_pureK; auto).
    rewrite (fulfill_pure H (S f) c s Pk) in E.
    destruct (pfc H (S f) s (constr_of s c)); [discriminate| |]; inversion E; subst.
    + unfold markd. apply Loc_set_constr; auto. split; [exact Rk|split; [|exact Ak]].
      unfold shape in *. rewrite Ee in Sk. exact Sk.
    + apply LP_refl. exact L.
Qed.

Theorem Ls_all : forall f, Ls f.
Proof.
  induction f as [|f (B & D & U & CC & F)]; [apply Ls_0|].
  unfold Ls. repeat apply conj.
  - apply LB_step; auto.
  - apply LD_step; auto.
  - apply LU_step; auto.
  - apply LC_step; auto.
  - apply LF_step; auto.
Qed.

End Own.

(* ---- 4b. creating one constraint on a variable x of that kind ---- *)
Lemma flat_map_ext_in' {A B} (f g : A -> list B) l : (forall a, In a l -> f a = g a) -> flat_map f l = flat_map g l.
Proof.
  induction l as [|a l IH]; intros E; cbn [flat_map]; [reflexivity|].
  rewrite (E a (or_introl eq_refl)), IH; [reflexivity|]. intros b Hb. apply E. right. exact Hb.
Qed.

Lemma nf_and_tr {A} (m : M A) s (Q1 Q2 : A -> store -> Prop) :
  nf m s Q1 -> tr m s Q2 -> nf m s (fun a s' => Q1 a s' /\ Q2 a s').
Proof. unfold nf, tr. destruct (m s) as [a s'|e s']; auto. Qed.

Section NewConstr.
Variable H : hier.
Variable M n : nat.
Hypothesis M1 : 1 <= M.
Variables x i0 A : nat.
Variable own : nat -> Prop.

Definition isb (t : tyv) : Prop := exists a, t = O a [].

Lemma shape_isb k : shape H k -> Forall isb (k_alts k).
Proof.
  unfold shape. destruct (k_elim k).
  - intros (l & _ & ->). apply Forall_forall. intros t Ht. apply in_map_iff in Ht.
    destruct Ht as (m & <- & _). exists m. reflexivity.
  - intros (a & -> & _). constructor; [exists a; reflexivity|constructor].
Qed.

(* the terms of the constraints pending on x *)
Definition tws (s : store) : list tyv :=
  flat_map (fun c => constr_terms (constr_of s c)) (cset_of s i0).

Lemma tws_inert s : Loc H x i0 A own s -> c_bound (cell_of s x) = None ->
  Forall (inert s [x]) (tws s).
Proof.
  intros L Hx. unfold tws. apply Forall_forall. intros t Ht. apply in_flat_map in Ht.
  destruct Ht as (c & Hc & Ht). destruct (lo_own _ _ _ _ _ _ L c (lo_in _ _ _ _ _ _ L c Hc)) as (_ & Rk & Sk & _).
  destruct Ht as [<-|Ht].
  - destruct Rk as [->|(o & ->)]; [|left; eauto].
    right. exists x. split; [reflexivity|split; [exact Hx|]]. cbn. rewrite Nat.eqb_refl. reflexivity.
  - pose proof (shape_isb _ Sk) as Fb. rewrite Forall_forall in Fb. left. apply Fb. exact Ht.
Qed.

Lemma tws_length s j : Loc H x i0 A own s -> length (cset_of s i0) <= j -> length (tws s) <= j * S A.
Proof.
  intros L. unfold tws. generalize (lo_in _ _ _ _ _ _ L). revert j.
  induction (cset_of s i0) as [|c l IH]; intros j Hin Lj; cbn [flat_map length]; [lia|].
  destruct j as [|j]; [cbn in Lj; lia|].
  rewrite app_length.
  destruct (lo_own _ _ _ _ _ _ L c (Hin c (or_introl eq_refl))) as (_ & _ & _ & Ak).
  specialize (IH j (fun c' Hc' => Hin c' (or_intror Hc')) ltac:(cbn in Lj; lia)).
  unfold constr_terms at 1. cbn [length]. lia.
Qed.

(* what creating the constraint number [length (constrs s)] on x does *)
Record NC (own' : nat -> Prop) (s s' : store) : Prop := mkNC {
  nc_cell : forall y, y <> x -> cell_of s' y = cell_of s y;
  nc_cset : forall i, i <> i0 -> cset_of s' i = cset_of s i;
  nc_len : len s' = len s;
  nc_cl : length (csets s') = length (csets s);
  nc_kl : length (constrs s') = S (length (constrs s));
  nc_k : forall c, ~ own' c -> c < length (constrs s) -> constr_of s' c = constr_of s c;
  nc_sl : length (cset_of s' i0) <= S (length (cset_of s i0));
  nc_loc : Loc H x i0 A own' s'
}.

Lemma nf_alloc_constr {B} k (K : nat -> Engine.M B) s (Q : B -> store -> Prop) :
  nf (K (length (constrs s))) (snd (alloc_constr s k)) Q ->
  nf (bindM (fun s => let (c, s') := alloc_constr s k in MOk c s') K) s Q.
Proof. intros T. exact T. Qed.

Lemma new_constraint_step F k e s :
  LI H M n e s -> Loc H x i0 A own s -> kfc H x A k -> k_done k = false ->
  (c_bound (cell_of s x) = None -> k_ref k = V x) ->
  (forall o, c_bound (cell_of s x) = Some (O o []) -> k_ref k = O o []) ->
  length (tws s) + length (k_alts k) + 2 <= F ->
  ff_fuel (e + Nat.b2n (k_elim k)) <= F ->
  nf (new_constraint H F k) s
     (fun _ s' => LI H M n (e + Nat.b2n (k_elim k)) s' /\
                  NC (fun c => own c \/ c = length (constrs s)) s s').
Proof.
  intros Ls L Kk Dk Hr1 Hr2 LF1 LF2.
  set (own' := fun c => own c \/ c = length (constrs s)).
  unfold new_constraint. apply nf_alloc_constr. cbn [alloc_constr snd].
  set (c := length (constrs s)) in *.
  set (s1 := {| vars := vars s; csets := csets s; constrs := constrs s ++ [k]; sched := sched s |}).
  assert (Old : forall c', c' < c -> constr_of s1 c' = constr_of s c').
  { intros c' Lc'. unfold constr_of, s1. cbn [constrs]. apply app_nth1. exact Lc'. }
  assert (New : constr_of s1 c = k).
  { unfold constr_of, s1, c. cbn [constrs]. rewrite app_nth2 by lia. rewrite Nat.sub_diag. reflexivity. }
  assert (N1 : length (constrs s1) = S c) by (unfold s1, c; cbn [constrs]; rewrite app_length; cbn; lia).
  destruct Kk as (Rk & Sk & Ak).
  assert (Uk : undone k = k_elim k) by (unfold undone; rewrite Dk; apply andb_true_r).
  assert (L1 : LI H M n (e + Nat.b2n (k_elim k)) s1).
  { destruct Ls as [a b cc d ee]. constructor.
    - intros v. apply (@chain_vars_eq s); [reflexivity|apply a].
    - exact b.
    - exact cc.
    - intros c' Lc'. rewrite N1 in Lc'. destruct (Nat.eq_dec c' c) as [->|Ne].
      + rewrite New. exact Sk.
      + rewrite Old by lia. apply d. unfold c in *. lia.
    - unfold und, s1. cbn [constrs]. rewrite cnt_app. unfold cnt at 2. cbn [filter]. rewrite Uk.
      fold (und s). destruct (k_elim k); cbn [length Nat.b2n]; lia. }
  assert (OwnR : forall c', own c' -> c' < c).
  { intros c' Oc'. apply (lo_own _ _ _ _ _ _ L c' Oc'). }
  assert (Lo1 : Loc H x i0 A own' s1).
  { destruct L as [a b cc d]. constructor; auto.
    - intros c' [Oc' | ->].
      + destruct (cc c' Oc') as (Lc' & K'). split; [rewrite N1; unfold c; lia|]. rewrite Old by exact Lc'. exact K'.
      + split; [rewrite N1; lia|]. rewrite New. split; [exact Rk|split; [exact Sk|exact Ak]].
    - intros c' Hc'. left. apply d. exact Hc'. }
  assert (Tw1 : tws s1 = tws s).
  { unfold tws. apply flat_map_ext_in'. intros c' Hc'. rewrite Old; [reflexivity|].
    apply OwnR. apply (lo_in _ _ _ _ _ _ L c' Hc'). }
  set (inf := fun v : nat =>
          cv <- gets (fun s => cell_of s v) ;;
          match c_bound cv with
          | Some _ => fail (ECrash site_inform_bound)
          | None => modify (fun s => let i := c_cs (cell_of s v) in set_cset s i (ins c (cset_of s i)))
          end).
  (* closure and inform *)
  assert (G : exists vs s2, closure_f F s1 (constr_terms k) [] = Ok vs /\ forM vs inf s1 = MOk tt s2 /\
     (s2 = s1 \/ s2 = set_cset s1 i0 (ins c (cset_of s1 i0)))).
  { destruct (lo_b _ _ _ _ _ _ L) as [Hx|(o & Hx)].
    - (* x unbound: the closure is [x] *)
      exists [x], (set_cset s1 i0 (ins c (cset_of s1 i0))). split; [|split; [|right; reflexivity]].
      + unfold constr_terms. rewrite (Hr1 Hx). destruct F as [|F']; [lia|].
        rewrite closure_S. rewrite vars_f_unb by exact Hx.
        cbn [filter mem existsb negb flat_map]. rewrite app_nil_r.
        change (union [x] []) with [x].
        change (cell_of s1 x) with (cell_of s x). rewrite (lo_cs _ _ _ _ _ _ L).
        change (flat_map (fun c0 => constr_terms (constr_of s1 c0)) (cset_of s1 i0)) with (tws s1).
        rewrite Tw1. apply closure_inert.
        * apply Forall_app. split.
          -- eapply Forall_impl; [|apply (tws_inert s L Hx)]. intros t [Ht|(y & -> & Hy & My)]; [left; exact Ht|].
             right. exists y. auto.
          -- eapply Forall_impl; [|apply (shape_isb k Sk)]. intros t Ht. left. exact Ht.
        * rewrite app_length. lia.
      + cbn [forM]. unfold inf at 1. unfold bindM at 1. unfold bindM at 1. unfold gets at 1.
        change (cell_of s1 x) with (cell_of s x). rewrite Hx. unfold modify at 1. unfold ret.
        change (cell_of s1 x) with (cell_of s x). rewrite (lo_cs _ _ _ _ _ _ L). reflexivity.
    - (* x resolved to a base type: nothing to inform *)
      exists [], s1. split; [|split; [reflexivity|left; reflexivity]].
      apply closure_inert.
      + unfold constr_terms. rewrite (Hr2 o Hx). constructor; [left; eauto|].
        eapply Forall_impl; [|apply (shape_isb k Sk)]. intros t Ht. left. exact Ht.
      + unfold constr_terms. cbn [length]. lia. }
  destruct G as (vs & s2 & Ec & Ef & Hs2).
  eapply nf_lift; [exact Ec|]. fold inf. eapply nf_bind_eq; [exact Ef|].
  assert (L2 : LI H M n (e + Nat.b2n (k_elim k)) s2).
  { destruct Hs2 as [->| ->]; [exact L1|apply LI_set_cset; exact L1]. }
  assert (V2 : vars s2 = vars s /\ constrs s2 = constrs s1 /\ length (csets s2) = length (csets s)).
  { destruct Hs2 as [->| ->]; [auto|]. split; [reflexivity|split; [reflexivity|]].
    cbn [csets set_cset]. apply upd_length. }
  destruct V2 as (Ev2 & Ek2 & El2).
  assert (C2 : forall i, i <> i0 -> cset_of s2 i = cset_of s i).
  { intros i Ne. destruct Hs2 as [->| ->]; [reflexivity|].
    destruct (cset_of_set_cset s1 i0 (ins c (cset_of s1 i0)) i) as [(_ & E & _)|E]; [congruence|exact E]. }
  assert (S2 : length (cset_of s2 i0) <= S (length (cset_of s i0))).
  { destruct Hs2 as [->| ->]; [change (cset_of s1 i0) with (cset_of s i0); lia|].
    destruct (cset_of_set_cset s1 i0 (ins c (cset_of s1 i0)) i0) as [(E & _ & _)|E]; rewrite E.
    - apply length_ins.
    - change (cset_of s1 i0) with (cset_of s i0). lia. }
  assert (Lo2 : Loc H x i0 A own' s2).
  { destruct Hs2 as [->| ->]; [exact Lo1|]. destruct Lo1 as [a b cc d]. constructor; auto.
    intros c' Hc'. destruct (cset_of_set_cset s1 i0 (ins c (cset_of s1 i0)) i0) as [(E & _ & _)|E]; rewrite E in Hc'.
    - apply In_ins in Hc'. destruct Hc' as [->|Hc']; [right; reflexivity|apply d; exact Hc'].
    - apply d. exact Hc'. }
  eapply nf_bind.
  - apply nf_and_tr.
    + apply (T_fulfill H M n M1 (e + Nat.b2n (k_elim k)) F c s2); [|exact L2|exact LF2].
      intros u' _. apply CCs_all; auto.
    + destruct (Ls_all H x i0 A own' F) as (_ & _ & _ & _ & LFf).
      apply (LFf c s2 Lo2). right. reflexivity.
  - cbv beta. intros d s3 _ (L3 & F3 & Lo3). apply nf_ret. split; [exact L3|].
    destruct F3 as [fa fb fc fd fe ff fg].
    constructor.
    + intros y Ny. rewrite fa by exact Ny. unfold cell_of. rewrite Ev2. reflexivity.
    + intros i Ni. rewrite fb by exact Ni. apply C2. exact Ni.
    + rewrite fc, Ev2. reflexivity.
    + lia.
    + rewrite fe, Ek2. exact N1.
    + intros c' Nc' Lc'. rewrite ff by exact Nc'. unfold constr_of at 1. rewrite Ek2. fold (constr_of s1 c').
      apply Old. exact Lc'.
    + lia.
    + exact Lo3.
Qed.

End NewConstr.

(* ---- 4c. the constraints of a schema instance being created ---- *)
Definition sv (sc : sconstr) : nat :=
  match sc with SCSub (SVar i) _ _ => i | SCElim (SVar i) _ => i | _ => 0 end.
Definition iselim (sc : sconstr) : bool := match sc with SCElim _ _ => true | SCSub _ _ _ => false end.
Definition nalts (sc : sconstr) : nat := match sc with SCElim _ alts => length alts | SCSub _ _ _ => 1 end.
Definition dsc : sconstr := SCSub SWild SWild false.
(* number of elimination constraints / largest number of alternatives of a list of schema constraints *)
Definition ecnt (cs : list sconstr) : nat := cnt iselim cs.
Definition amax (cs : list sconstr) : nat := list_max (map nalts cs).

(* the constraint ids created so far (j of them, starting at cb) for schematic variable i *)
Definition ownr (cs : list sconstr) (cb j i c : nat) : Prop :=
  cb <= c < cb + j /\ sv (nth (c - cb) cs dsc) = i.

Section Inst.
Variable H : hier.
Hypothesis W : wf_hier H.
Variable M : nat.
Hypothesis M1 : 1 <= M.

Lemma Loc_ext x i0 A (own own' : nat -> Prop) s : (forall c, own c <-> own' c) ->
  Loc H x i0 A own s -> Loc H x i0 A own' s.
Proof.
  intros E [a b c d]. constructor; auto.
  - intros k Ok. apply c. apply E. exact Ok.
  - intros k Hk. apply E. apply d. exact Hk.
Qed.

Lemma Loc_transfer x i0 A own s s' : Loc H x i0 A own s ->
  cell_of s' x = cell_of s x -> cset_of s' i0 = cset_of s i0 ->
  (forall c, own c -> constr_of s' c = constr_of s c) ->
  length (constrs s) <= length (constrs s') -> Loc H x i0 A own s'.
Proof.
  intros [a b c d] Ec Es Ek Ll. constructor.
  - rewrite Ec. exact a.
  - rewrite Ec. exact b.
  - intros k Ok. destruct (c k Ok) as (Lk & Kk). split; [lia|]. rewrite (Ek k Ok). exact Kk.
  - intros k Hk. rewrite Es in Hk. apply d. exact Hk.
Qed.

Record IJ (n0 c0 nsc A cb : nat) (cs : list sconstr) (j : nat) (s : store) : Prop := mkIJ {
  ij_loc : forall i, i < nsc -> Loc H (n0 + i) (c0 + i) A (ownr cs cb j i) s;
  ij_len : forall i, i < nsc -> length (cset_of s (c0 + i)) <= j;
  ij_k : length (constrs s) = cb + j
}.

Lemma rf_ff x i0 A own s : Loc H x i0 A own s -> rf x (follow s (follow s (V x))).
Proof. intros L. apply (rf_follow H x i0 A own); auto. apply (rf_follow H x i0 A own); auto. left. reflexivity. Qed.

Lemma ff_unb s x : c_bound (cell_of s x) = None -> follow s (follow s (V x)) = V x.
Proof. intros E. rewrite !(follow_of_nb s (V x)) by exact E. reflexivity. Qed.

Lemma ff_base s x o : c_bound (cell_of s x) = Some (O o []) -> follow s (follow s (V x)) = O o [].
Proof. intros E. rewrite (follow_base s x o E). reflexivity. Qed.

(* one schema constraint: number j of the instance, on schematic variable i *)
Lemma eval_constr_stepE F n n0 c0 nsc A cb cs j e s sc :
  LI H M n e s -> IJ n0 c0 nsc A cb cs j s -> nth j cs dsc = sc -> pscE H nsc sc -> nalts sc <= A ->
  j * S A + A + 2 <= F -> ff_fuel (e + Nat.b2n (iselim sc)) <= F ->
  nf (eval_constr H F (map V (seq n0 nsc)) sc) s
     (fun _ s' => LI H M n (e + Nat.b2n (iselim sc)) s' /\ IJ n0 c0 nsc A cb cs (S j) s').
Proof.
  intros Ls Ij Ej Pc La LF1 LF2.
  assert (G : exists i k, i < nsc /\ sv sc = i /\
     eval_constr H F (map V (seq n0 nsc)) sc s = new_constraint H F k s /\
     k_ref k = follow s (follow s (V (n0 + i))) /\ shape H k /\ length (k_alts k) <= A /\
     k_done k = false /\ k_elim k = iselim sc).
  { destruct Pc as [Pc|Pc].
    - destruct sc as [r t strict|r alts]; cbn [psc] in Pc; [|tauto].
      destruct r as [i| |]; try tauto. destruct t as [| |a [|y ys]]; try tauto. destruct Pc as (Li & Va).
      exists i, (sub_constr s (map V (seq n0 nsc)) i a strict). split; [exact Li|split; [reflexivity|]].
      split; [apply SoundElimS.eval_constr_sub|]. unfold sub_constr. cbn [k_ref k_alts k_done k_elim iselim].
      rewrite (nth_env n0 nsc i Li). split; [reflexivity|split; [|split; [exact La|split; reflexivity]]].
      unfold shape. cbn [k_elim k_alts]. exists a. split; [reflexivity|apply var_basic; exact Va].
    - destruct sc as [r t strict|r alts]; cbn [pec] in Pc; [tauto|].
      destruct r as [i| |]; try tauto. destruct Pc as (Li & l & Gl & ->).
      exists i, (elim_constr s (map V (seq n0 nsc)) i l). split; [exact Li|split; [reflexivity|]].
      split; [apply SoundElimS.eval_constr_elimE|]. unfold elim_constr. cbn [k_ref k_alts k_done k_elim iselim].
      rewrite (nth_env n0 nsc i Li). split; [reflexivity|split; [|split; [|split; reflexivity]]].
      + unfold shape. cbn [k_elim k_alts]. exists l. auto.
      + cbn [nalts] in La. unfold FL.obs. rewrite map_length in *. exact La. }
  destruct G as (i & k & Li & Si & Ee & Rk & Sk & Ak & Dk & Ek).
  pose proof (ij_loc _ _ _ _ _ _ _ _ Ij i Li) as Lo.
  pose proof (ij_len _ _ _ _ _ _ _ _ Ij i Li) as Lj.
  pose proof (ij_k _ _ _ _ _ _ _ _ Ij) as Kj.
  eapply nf_eq; [exact Ee|].
  assert (T := new_constraint_step H M n M1 (n0 + i) (c0 + i) A (ownr cs cb j i) F k e s Ls Lo).
  rewrite Ek in T.
  assert (T' : nf (new_constraint H F k) s
     (fun _ s' => LI H M n (e + Nat.b2n (iselim sc)) s' /\
        NC H (n0 + i) (c0 + i) A (fun c => ownr cs cb j i c \/ c = length (constrs s)) s s')).
  { apply T; auto.
    - split; [rewrite Rk; eapply rf_ff; eauto|split; [exact Sk|exact Ak]].
    - intros Hx. rewrite Rk. apply ff_unb. exact Hx.
    - intros o Hx. rewrite Rk. apply ff_base. exact Hx.
    - pose proof (tws_length H M M1 (n0 + i) (c0 + i) A (ownr cs cb j i) s j Lo Lj). lia. }
  clear T. unfold nf in T'. destruct (new_constraint H F k s) as [u s'|er s']; [|exact T'].
  destruct T' as (L' & Nc). split; [exact L'|].
  assert (OwnS : forall i' c, ownr cs cb (S j) i' c <-> (ownr cs cb j i' c \/ (c = cb + j /\ i' = i))).
  { intros i' c. unfold ownr. split.
    - intros (Rc & Sc). destruct (Nat.eq_dec c (cb + j)) as [->|Ne].
      + right. split; [reflexivity|]. replace (cb + j - cb) with j in Sc by lia. rewrite Ej, Si in Sc. auto.
      + left. split; [lia|exact Sc].
    - intros [(Rc & Sc)|(-> & ->)]; [split; [lia|exact Sc]|].
      split; [lia|]. replace (cb + j - cb) with j by lia. rewrite Ej. exact Si. }
  constructor.
  - intros i' Li'. destruct (Nat.eq_dec i' i) as [->|Ne].
    + eapply Loc_ext; [|apply (nc_loc _ _ _ _ _ _ _ Nc)]. intros c. rewrite OwnS, Kj. cbv beta. tauto.
    + eapply Loc_ext with (own := ownr cs cb j i').
      { intros c. rewrite OwnS. tauto. }
      apply (Loc_transfer _ _ _ _ s s' (ij_loc _ _ _ _ _ _ _ _ Ij i' Li')).
      * apply (nc_cell _ _ _ _ _ _ _ Nc). lia.
      * apply (nc_cset _ _ _ _ _ _ _ Nc). lia.
      * intros c Oc. apply (nc_k _ _ _ _ _ _ _ Nc).
        -- intros [(_ & Sc)|Ec]; destruct Oc as (Rc & Sc'); [congruence|lia].
        -- destruct Oc as (Rc & _). lia.
      * rewrite (nc_kl _ _ _ _ _ _ _ Nc). lia.
  - intros i' Li'. destruct (Nat.eq_dec i' i) as [->|Ne].
    + pose proof (nc_sl _ _ _ _ _ _ _ Nc). lia.
    + rewrite (nc_cset _ _ _ _ _ _ _ Nc) by lia. pose proof (ij_len _ _ _ _ _ _ _ _ Ij i' Li'). lia.
  - rewrite (nc_kl _ _ _ _ _ _ _ Nc). lia.
Qed.

End Inst.

Section Inst2.
Variable H : hier.
Hypothesis W : wf_hier H.
Variable M : nat.
Hypothesis M1 : 1 <= M.

Lemma pscE_wf n sc : pscE H n sc -> sconstr_wf n sc.
Proof.
  intros [Pc|Pc].
  - destruct sc as [r t strict|r alts]; cbn [psc] in Pc; [|tauto].
    destruct r as [i| |]; try tauto. destruct t as [| |a [|y ys]]; try tauto. destruct Pc as (Li & _).
    split; constructor; auto.
  - destruct sc as [r t strict|r alts]; cbn [pec] in Pc; [tauto|].
    destruct r as [i| |]; try tauto. destruct Pc as (Li & l & _ & ->).
    split; [constructor; exact Li|]. apply Forall_forall. intros t Ht. apply in_map_iff in Ht.
    destruct Ht as (m & <- & _). constructor. constructor.
Qed.

Lemma ecnt_cons sc rest : ecnt (sc :: rest) = Nat.b2n (iselim sc) + ecnt rest.
Proof. unfold ecnt, cnt. cbn [filter]. destruct (iselim sc); reflexivity. Qed.

Lemma ff_fuel_mono a b : a <= b -> ff_fuel a <= ff_fuel b.
Proof. unfold ff_fuel. lia. Qed.

Lemma constr_loopE F n n0 c0 nsc A cb cs : forall rest done s e,
  cs = done ++ rest -> JE H s -> inv s -> LI H M n e s -> IJ H n0 c0 nsc A cb cs (length done) s ->
  Forall (tg H n) (map V (seq n0 nsc)) ->
  Forall (pscE H nsc) rest -> Forall (fun sc => nalts sc <= A) rest ->
  length cs * S A + A + 2 <= F -> ff_fuel (e + ecnt rest) <= F ->
  nf (forM rest (eval_constr H F (map V (seq n0 nsc)))) s
     (fun _ s' => JE H s' /\ inv s' /\ LI H M n (e + ecnt rest) s' /\ IJ H n0 c0 nsc A cb cs (length cs) s').
Proof.
  set (env := map V (seq n0 nsc)).
  assert (Le : length env = nsc) by (unfold env; rewrite map_length, seq_length; reflexivity).
  induction rest as [|sc rest IH]; intros done s e Ecs I Iv Ls Ij Fe Pc Ac LF1 LF2; cbn [forM].
  - apply nf_ret. rewrite app_nil_r in Ecs. subst done. unfold ecnt, cnt. cbn [filter length]. rewrite Nat.add_0_r. auto.
  - pose proof (Forall_inv Pc) as Pc1. pose proof (Forall_inv_tail Pc) as Pc'.
    pose proof (Forall_inv Ac) as Ac1. pose proof (Forall_inv_tail Ac) as Ac'. cbv beta in Ac1.
    subst cs. rewrite ecnt_cons in LF2.
    assert (Ej : nth (length done) (done ++ sc :: rest) dsc = sc).
    { rewrite app_nth2 by lia. rewrite Nat.sub_diag. reflexivity. }
    assert (Ld : length done < length (done ++ sc :: rest)) by (rewrite app_length; cbn; lia).
    pose proof (li_len _ _ _ _ _ Ls) as Ln.
    eapply nf_bind.
    + apply (eval_constr_stepE H M M1 F n n0 c0 nsc A cb (done ++ sc :: rest) (length done) e s sc Ls Ij Ej Pc1 Ac1).
      * assert (length done * S A <= length (done ++ sc :: rest) * S A) by (apply Nat.mul_le_mono_r; lia). lia.
      * eapply Nat.le_trans; [apply ff_fuel_mono|exact LF2]. lia.
    + cbv beta. intros u s1 E1 (L1 & Ij1).
      assert (I1 : JE H s1).
      { rewrite <- Ln in Fe. rewrite <- Le in Pc1.
        apply (eval_constr_goodE H W F env sc s I Fe Pc1 u s1 E1). }
      assert (Iv1 : inv s1).
      { assert (Se : Forall (sct true s) env).
        { rewrite <- Ln in Fe. eapply Forall_impl; [|exact Fe]. intros t Tt _. apply tg_tsc with (H := H). exact Tt. }
        pose proof (@eval_constr_ok H true F env sc s Iv Se) as K. unfold ok in K.
        fold env in E1. rewrite E1 in K. apply K. intros _. rewrite Le. apply pscE_wf. exact Pc1. }
      rewrite ecnt_cons. rewrite Nat.add_assoc.
      apply (IH (done ++ [sc]) s1 (e + Nat.b2n (iselim sc))); auto.
      * rewrite <- app_assoc. reflexivity.
      * rewrite app_length. cbn [length]. rewrite Nat.add_1_r. exact Ij1.
      * rewrite <- Nat.add_assoc. exact LF2.
Qed.

End Inst2.

Section InstNF.
Variable H : hier.
Hypothesis W : wf_hier H.
Variable M : nat.
Hypothesis M1 : 1 <= M.

Lemma LI_grows k n e s s' : grows k s s' -> LI H M n e s -> LI H M (n + k) e s'.
Proof.
  intros G [a b c d ee]. constructor.
  - intros v. eapply chain_bound_eq; [|apply a]. intros y.
    destruct (Nat.lt_ge_cases y (len s)) as [L|L].
    + rewrite (g_old _ _ _ G) by exact L. reflexivity.
    + rewrite (g_new _ _ _ G) by exact L. rewrite cell_of_oob by exact L. reflexivity.
  - rewrite (g_len _ _ _ G). lia.
  - eapply grows_dok; eauto.
  - intros c' Lc'. unfold constr_of. rewrite (g_constrs _ _ _ G) in *. apply d. exact Lc'.
  - unfold und. rewrite (g_constrs _ _ _ G). exact ee.
Qed.

Lemma amax_all cs : Forall (fun sc => nalts sc <= amax cs) cs.
Proof.
  unfold amax. assert (F : Forall (fun k => k <= list_max (map nalts cs)) (map nalts cs))
    by (apply list_max_le; lia).
  rewrite Forall_forall in *. intros sc Hs. apply F. apply in_map. exact Hs.
Qed.

(* TypeSchema.instance for a schema of the class *)
Lemma inst_nfE F sc s n e : JE H s -> inv s -> LI H M n e s ->
  styg H (s_n sc) (s_body sc) -> Forall (pscE H (s_n sc)) (s_constrs sc) -> sdepth (s_body sc) <= M ->
  M + (n + (s_n sc + wilds (s_body sc))) * M + cc_fuel (e + ecnt (s_constrs sc)) + 3 <= F ->
  length (s_constrs sc) * S (amax (s_constrs sc)) + amax (s_constrs sc) + 2 <= F ->
  nf (instance H F sc) s
     (fun r s' => JE H s' /\ inv s' /\
        LI H M (n + (s_n sc + wilds (s_body sc))) (e + ecnt (s_constrs sc)) s' /\
        tg H (n + (s_n sc + wilds (s_body sc))) r /\ depth r <= M).
Proof.
  intros I Iv Ls Sb Pc Db LF1 LF2. unfold instance.
  pose proof (li_len _ _ _ _ _ Ls) as Ln.
  destruct (fresh_list_grows (s_n sc) s) as (s1 & E1 & G1 & C1).
  set (env := map V (seq (len s) (s_n sc))) in *.
  assert (Le : length env = s_n sc) by (unfold env; rewrite map_length, seq_length; reflexivity).
  assert (Ue1 : Forall (uvar s1) env).
  { eapply Forall_impl; [|apply seq_uvar]. intros t. apply uvar_grows with (k := s_n sc). exact G1. }
  assert (Wb : sty_wf (length env) (s_body sc)) by (rewrite Le; apply (styg_wf H); exact Sb).
  destruct (eval_sty_spec env (s_body sc) s1 Ue1 Wb) as (r & s2 & E2 & G2 & D2).
  (* JE, inv, tg along the allocation *)
  destruct (fresh_list_goodE H (s_n sc) s I env s1 E1) as (I1 & _ & Fe & _ & _).
  assert (Fe1 : Forall (tg H (len s1)) env) by (eapply Forall_impl; [|exact Fe]; intros t; apply isvar_tg).
  assert (Sb' : styg H (length env) (s_body sc)) by (rewrite Le; exact Sb).
  destruct (eval_sty_goodE H env (s_body sc) s1 I1 Fe1 Sb' r s2 E2) as (I2 & Lf2 & Tr & _).
  pose proof (@Inv.fresh_list_spec true (s_n sc) s Iv) as K1. unfold ok in K1. rewrite E1 in K1.
  destruct K1 as (Iv1 & _ & _ & Se & _).
  pose proof (@eval_sty_ok true env (s_body sc) s1 Iv1 Se (fun _ => Wb)) as K2. unfold ok in K2. rewrite E2 in K2.
  destruct K2 as (Iv2 & _ & _).
  pose proof (grows_trans _ _ _ _ _ G1 G2) as G12.
  pose proof (LI_grows _ _ _ _ _ G12 Ls) as L2.
  set (n' := n + (s_n sc + wilds (s_body sc))) in *.
  pose proof (li_len _ _ _ _ _ L2) as Ln2.
  assert (Fe2 : Forall (tg H n') env).
  { rewrite <- Ln2. eapply Forall_tg_mono; [|exact Fe1]. rewrite (g_len _ _ _ G2). lia. }
  eapply nf_bind_eq; [exact E1|]. eapply nf_bind_eq; [exact E2|].
  (* the constraints *)
  set (cs := s_constrs sc) in *. set (A := amax cs) in *.
  assert (Ij : IJ H (len s) (length (csets s)) (s_n sc) A (length (constrs s)) cs 0 s2).
  { constructor.
    - intros i Li. constructor.
      + rewrite (g_old _ _ _ G2) by (rewrite (g_len _ _ _ G1); lia). rewrite C1 by exact Li. reflexivity.
      + left. rewrite (g_old _ _ _ G2) by (rewrite (g_len _ _ _ G1); lia). rewrite C1 by exact Li. reflexivity.
      + intros c (Rc & _). lia.
      + intros c Hc. rewrite (g_cset _ _ _ G2), (g_cset _ _ _ G1) in Hc.
        unfold cset_of in Hc. rewrite nth_overflow in Hc by lia. destruct Hc.
    - intros i Li. rewrite (g_cset _ _ _ G2), (g_cset _ _ _ G1).
      unfold cset_of. rewrite nth_overflow by lia. cbn. lia.
    - rewrite (g_constrs _ _ _ G2), (g_constrs _ _ _ G1). lia. }
  eapply nf_bind.
  - apply (constr_loopE H W M M1 F n' (len s) (length (csets s)) (s_n sc) A (length (constrs s)) cs cs [] s2 e);
      [reflexivity|exact I2|exact Iv2|exact L2|exact Ij|exact Fe2|exact Pc|apply amax_all|exact LF2|].
    eapply Nat.le_trans; [|exact LF1]. unfold ff_fuel, cc_fuel. lia.
  - cbv beta. intros u s3 _ (I3 & Iv3 & L3 & _).
    assert (P3 : PreE H M n' (e + ecnt cs) s3) by (split; [exact I3|split; [exact Iv3|exact L3]]).
    assert (Tr3 : tg H n' r) by (rewrite <- Ln2; exact Tr).
    assert (Dr : depth r <= M) by lia.
    eapply nf_conseq.
    + apply (specF_all H W M n' (e + ecnt cs) M1 F true r s3 (M + n' * M)); auto; try (apply sdle_init; auto); lia.
    + cbv beta. intros r' s4 E4 (L4 & Dr').
      destruct (fix_post' H W M n' (e + ecnt cs) F true r s3 r' s4 P3 Tr3 E4 L4) as ((I4 & Iv4 & _) & _ & Tr4).
      rewrite (li_len _ _ _ _ _ L4) in Tr4. auto.
Qed.

End InstNF.

(* ================================================================== *)
(* Part 5.  Whole programs                                              *)
(* ================================================================== *)
(* E: number of elimination constraints a command creates;
   K: fuel for Constraint.variables(indirect=True) while the constraints of a
      schema are created: (1 + most alternatives) terms per earlier constraint *)
Definition cmd_elim (c : cmd) : nat :=
  match c with CInst sc => ecnt (s_constrs sc) | _ => 0 end.
Definition cmd_clos (c : cmd) : nat :=
  match c with
  | CInst sc => length (s_constrs sc) * S (amax (s_constrs sc)) + amax (s_constrs sc) + 2
  | _ => 0
  end.
Definition prog_elim (prog : list cmd) : nat := list_sum (map cmd_elim prog).
Definition prog_clos (prog : list cmd) : nat := list_max (map cmd_clos prog).

Definition prog_fuelE (prog : list cmd) : nat :=
  Nat.max (prog_depth prog * (prog_vars prog + 1) + cc_fuel (prog_elim prog) + 8) (prog_clos prog).

Section ProgramsE.
Variable H : hier.
Hypothesis W : wf_hier H.
Variable M : nat.
Hypothesis M1 : 1 <= M.

Definition CPostE (n k e : nat) (vals : list tyv) : list tyv -> store -> Prop :=
  fun vals' s' => exists n', n <= n' <= n + k /\ JE H s' /\ inv s' /\ LI H M n' e s' /\
     Forall (tg H n') vals' /\ Forall (fun t => depth t <= M) vals' /\ length vals' = S (length vals).

Lemma cmd_nfE f c vals s n e : JE H s -> inv s -> LI H M n e s ->
  Forall (tg H n) vals -> Forall (fun t => depth t <= M) vals ->
  cmdE H (length vals) c -> cmd_depth c <= M ->
  M + (n + cmd_vars c) * M + cc_fuel (e + cmd_elim c) + 8 <= f -> cmd_clos c <= f ->
  nf (run_cmd H f c vals) s (CPostE n (cmd_vars c) (e + cmd_elim c) vals).
Proof.
  intros I Iv Ls Tv Dv Pc Dc L Lc.
  destruct Pc as [sc Sb Pcs|fi xi b Lf Lx]; cbn [run_cmd cmd_vars cmd_depth cmd_elim cmd_clos] in *.
  - eapply nf_bind; [apply (inst_nfE H W M M1 f sc s n e); auto; lia|].
    cbv beta. intros t s1 _ (I1 & Iv1 & L1 & Tt & Dt). apply nf_ret.
    exists (n + (s_n sc + wilds (s_body sc))). split; [lia|].
    split; [exact I1|split; [exact Iv1|split; [exact L1|split; [|split]]]].
    + apply Forall_app. split; [eapply Forall_impl; [|exact Tv]; intros a; apply tg_mono; lia|].
      constructor; [exact Tt|constructor].
    + apply Forall_app. split; [exact Dv|constructor; [exact Dt|constructor]].
    + rewrite app_length. cbn. lia.
  - rewrite Nat.add_0_r in *.
    assert (P : PreE H M n e s) by (split; [exact I|split; [exact Iv|exact Ls]]).
    eapply nf_bind.
    + apply (apply_nfE H W M e M1 f (val vals fi) (val vals xi) b s n); auto using val_tg, val_depth.
    + cbv beta. intros t s1 E1 (n' & Ln & I1 & Iv1 & L1 & Dt & Tt). apply nf_ret.
      exists n'. split; [exact Ln|].
      split; [exact I1|split; [exact Iv1|split; [exact L1|split; [|split]]]].
      * apply Forall_app. split; [eapply Forall_impl; [|exact Tv]; intros a; apply tg_mono; lia|].
        constructor; [exact Tt|constructor].
      * apply Forall_app. split; [exact Dv|constructor; [exact Dt|constructor]].
      * rewrite app_length. cbn. lia.
Qed.

Lemma run_cmds_nfE f : forall cs i vals s n e, JE H s -> inv s -> LI H M n e s ->
  Forall (tg H n) vals -> Forall (fun t => depth t <= M) vals ->
  progE H (length vals) cs -> Forall (fun c => cmd_depth c <= M) cs ->
  Forall (fun c => cmd_clos c <= f) cs ->
  M + (n + prog_vars cs) * M + cc_fuel (e + prog_elim cs) + 8 <= f ->
  no_fuel_err (fst (fst (run_cmds H f cs i vals s))).
Proof.
  induction cs as [|c cs IH]; intros i vals s n e I Iv Ls Tv Dv Pp Dp Cp L; cbn [run_cmds].
  - exact Logic.I.
  - destruct Pp as [Pc Pr]. inversion Dp as [|? ? Dc Dr]; subst. inversion Cp as [|? ? Cc Cr]; subst.
    change (prog_vars (c :: cs)) with (cmd_vars c + prog_vars cs) in L.
    change (prog_elim (c :: cs)) with (cmd_elim c + prog_elim cs) in L.
    assert (Lc : M + (n + cmd_vars c) * M + cc_fuel (e + cmd_elim c) + 8 <= f).
    { assert ((n + cmd_vars c) * M <= (n + (cmd_vars c + prog_vars cs)) * M) by (apply Nat.mul_le_mono_r; lia).
      unfold cc_fuel in *. lia. }
    pose proof (cmd_nfE f c vals s n e I Iv Ls Tv Dv Pc Dc Lc Cc) as N. unfold nf in N.
    destruct (run_cmd H f c vals s) as [vals' s'|er s']; [|exact N].
    destruct N as (n' & Ln & I' & Iv' & L' & Tv' & Dv' & Lv').
    apply (IH (S i) vals' s' n' (e + cmd_elim c)); auto.
    + rewrite Lv'. exact Pr.
    + assert ((n' + prog_vars cs) * M <= (n + (cmd_vars c + prog_vars cs)) * M) by (apply Nat.mul_le_mono_r; lia).
      unfold cc_fuel in *. lia.
Qed.

End ProgramsE.

Section ProgTermE.
Variable H : hier.
Hypothesis W : wf_hier H.

Lemma LI_empty M e sc : LI H M 0 e (empty_store sc).
Proof.
  constructor.
  - apply (core_chain (core_empty sc)).
  - reflexivity.
  - intros v t. unfold cell_of. cbn. destruct v; discriminate.
  - intros c Lc. cbn in Lc. lia.
  - cbn. lia.
Qed.

(* C17_term_elim_prog *)
Theorem prog_term_elim prog sc fuel : progE H 0 prog -> prog_fuelE prog <= fuel ->
  match fst (fst (run_cmds H fuel prog 0 [] (empty_store sc))) with
  | None => True
  | Some (e, _) =>
      e = ESubtypeMismatch \/ e = ETypeMismatch \/ e = EFunApp \/ e = ERecursive \/
      e = EConstraintViolation
  end.
Proof.
  intros P L. unfold prog_fuelE in L.
  assert (M1 : 1 <= prog_depth prog) by (unfold prog_depth; lia).
  pose proof (run_cmds_nfE H W (prog_depth prog) M1 fuel prog 0 [] (empty_store sc) 0 0
                (JE_empty H sc) (inv_empty true sc) (LI_empty _ 0 sc)
                (Forall_nil _) (Forall_nil _) P) as K.
  destruct (run_cmds H fuel prog 0 [] (empty_store sc)) as [[o vals] s] eqn:E. cbn [fst] in *.
  destruct o as [[e i]|]; [|exact Logic.I].
  pose proof (@engine_nocrash H fuel sc prog e i vals s E) as Nc.
  assert (Nf : e <> EFuel).
  { apply K.
    - apply Forall_forall. intros c Hc. pose proof (list_max_in cmd_depth c prog Hc). unfold prog_depth. lia.
    - apply Forall_forall. intros c Hc. pose proof (list_max_in cmd_clos c prog Hc). unfold prog_clos in L. lia.
    - cbn [Nat.add]. lia. }
  destruct e; auto 6; [destruct (Nc site eq_refl)|congruence].
Qed.

End ProgTermE.

(* ================================================================== *)
(* Explicit readings                                                    *)
(* ================================================================== *)
Definition inst_boundE (s : store) (sc : schema) : nat :=
  Nat.max (inst_dep s sc + (len s + (s_n sc + wilds (s_body sc))) * inst_dep s sc
             + cc_fuel (und s + ecnt (s_constrs sc)) + 2)
          (length (s_constrs sc) * S (amax (s_constrs sc)) + amax (s_constrs sc) + 1).

Section ReadingsE.
Variable H : hier.
Hypothesis W : wf_hier H.

Lemma LI_intro' s : (forall v, chain s (V v)) -> KW H s ->
  LI H (Nat.max 1 (mdepth s)) (len s) (und s) s.
Proof.
  intros C K. constructor; auto.
  eapply dok_mono; [|apply dok_mdepth]. lia.
Qed.

(* re-checking one constraint: 5 * (unfulfilled elimination constraints) + 4 *)
Theorem fulfill_nofuel_elim f c s : (forall v, chain s (V v)) -> KW H s ->
  ff_fuel (und s) <= f -> forall s', fulfill H f c s <> MEr EFuel s'.
Proof.
  intros C K L. eapply nf_nofuel'.
  apply (T_fulfill H (Nat.max 1 (mdepth s)) (len s) ltac:(lia) (und s) f c s); auto using LI_intro'.
  intros u' _. apply CCs_all. lia.
Qed.

(* a whole re-check round, whatever the number of pending constraints and of
   alternatives: 5 * (unfulfilled elimination constraints) + 5; the measure
   does not grow *)
Theorem cc_nofuel_elim f v s : (forall v, chain s (V v)) -> KW H s ->
  cc_fuel (und s) <= f ->
  match check_constraints H f v s with
  | MOk _ s' => und s' <= und s /\ KW H s' /\ forall v, chain s' (V v)
  | MEr e _ => e <> EFuel
  end.
Proof.
  intros C K L.
  pose proof (CCs_all H (Nat.max 1 (mdepth s)) (len s) ltac:(lia) (und s) f v s (LI_intro' s C K) L) as N.
  unfold nf in N. destruct (check_constraints H f v s) as [u s'|e s']; [|exact N].
  split; [apply N|split; apply N].
Qed.

(* the entry points of a nested round *)
Theorem below_nofuel_elim f v a s : (forall v, chain s (V v)) -> KW H s ->
  cc_fuel (und s) + 4 <= f -> forall s', below H f v a s <> MEr EFuel s'.
Proof.
  intros C K L. eapply nf_nofuel'.
  apply (T_below H (Nat.max 1 (mdepth s)) (len s) ltac:(lia) (und s) f v a s); auto using LI_intro'.
  apply CCs_all. lia.
Qed.

Theorem above_nofuel_elim f v a s : (forall v, chain s (V v)) -> KW H s ->
  cc_fuel (und s) + 4 <= f -> forall s', above H f v a s <> MEr EFuel s'.
Proof.
  intros C K L. eapply nf_nofuel'.
  apply (T_above H (Nat.max 1 (mdepth s)) (len s) ltac:(lia) (und s) f v a s); auto using LI_intro'.
  apply CCs_all. lia.
Qed.

(* the invariants of SoundElim give the two hypotheses *)
Lemma JE_inv_chain s : inv s -> forall v, chain s (V v).
Proof. intros Iv. apply (core_chain (inv_core Iv)). Qed.

(* C17_term_elim_instance *)
Theorem instance_term_elim fuel sc s : JE H s -> inv s ->
  styg H (s_n sc) (s_body sc) -> Forall (pscE H (s_n sc)) (s_constrs sc) ->
  inst_boundE s sc < fuel ->
  forall s', instance H fuel sc s <> MEr EFuel s'.
Proof.
  intros I Iv Sb Pc L. unfold inst_boundE in L. set (M := inst_dep s sc) in *.
  assert (M1 : 1 <= M) by (unfold M, inst_dep; lia).
  assert (Ls : LI H M (len s) (und s) s) by (apply LI_intro; auto; unfold M, inst_dep; lia).
  assert (Db : sdepth (s_body sc) <= M) by (unfold M, inst_dep; lia).
  clearbody M. eapply nf_nofuel'.
  apply (inst_nfE H W M M1 fuel sc s (len s) (und s) I Iv Ls Sb Pc Db); lia.
Qed.

End ReadingsE.
