(* A verified checker for the soundness conditions of C03/C04 on a final
   engine state: under a grounding of the unresolved variables, every
   application step has argument <= parameter and returns the instantiated
   result; resolved constraints hold; bounded variables are base types.
   The checker computes with the code's own [match3]; its soundness theorem
   restates the verdict in terms of the declarative order [Sub]. *)
From Coq Require Import List Arith Bool Lia.
Import ListNotations.
From TF Require Import Base.Hier Base.Ty Sub.Match Sub.SubSpec Sub.SubProofs
  Infer.Store Infer.Engine.

Section Witness.
  Variable H : hier.

  Definition theta := list (nat * ty).
  Definition th_get (th : theta) (dflt : ty) (v : nat) : ty :=
    match assoc v th with Some t => t | None => dflt end.

  Section mapM.
    Context {A B : Type} (f : A -> option B).
    Fixpoint mapM (l : list A) : option (list B) :=
      match l with
      | [] => Some []
      | x :: r => match f x, mapM r with
                  | Some y, Some ys => Some (y :: ys)
                  | _, _ => None
                  end
      end.
  End mapM.

  (* follow bindings, replace unresolved variables by the grounding *)
  Fixpoint ground (fuel : nat) (s : store) (th : theta) (dflt : ty) (t : tyv) : option ty :=
    match fuel with
    | 0 => None
    | S f =>
        match follow s t with
        | V v => Some (th_get th dflt v)
        | O o args => match mapM (ground f s th dflt) args with
                      | Some xs => Some (TOp o xs)
                      | None => None
                      end
        end
    end.

  (* one application step: function value, argument value, result value *)
  Definition step := (tyv * tyv * tyv)%type.

  Definition step_ok (fuel : nat) (s : store) (th : theta) (dflt : ty) (st : step) : bool :=
    let '(fv, xv, rv) := st in
    match ground fuel s th dflt fv, ground fuel s th dflt xv, ground fuel s th dflt rv with
    | Some (TOp o [a; b]), Some x, Some r =>
        Nat.eqb o Function && wf_tyb H a && wf_tyb H x &&
        (match match3 H true x a with Some true => true | _ => false end) &&
        ty_eqb r b
    | Some (TOp o []), Some x, Some r =>
        (* applying Top yields Top *)
        Nat.eqb o Top && ty_eqb r (TOp Top [])
    | _, _, _ => false
    end.

  Definition StepHolds (fuel : nat) (s : store) (th : theta) (dflt : ty) (st : step) : Prop :=
    let '(fv, xv, rv) := st in
    (exists a b x, ground fuel s th dflt fv = Some (TOp Function [a; b]) /\
                   ground fuel s th dflt xv = Some x /\
                   Sub H x a /\ ground fuel s th dflt rv = Some b)
    \/ (ground fuel s th dflt fv = Some (TOp Top []) /\
        ground fuel s th dflt rv = Some (TOp Top [])).

  Hypothesis W : wf_hier H.

  Lemma step_ok_sound fuel s th dflt st :
    step_ok fuel s th dflt st = true -> StepHolds fuel s th dflt st.
  Proof.
    destruct st as [[fv xv] rv]. unfold step_ok, StepHolds.
    destruct (ground fuel s th dflt fv) as [[o args]|]; [|discriminate].
    destruct (ground fuel s th dflt xv) as [x|];
      [|destruct args as [|? [|? [|]]]; discriminate].
    destruct (ground fuel s th dflt rv) as [r|];
      [|destruct args as [|? [|? [|]]]; discriminate].
    destruct args as [|a [|b [|]]]; try discriminate.
    - rewrite andb_true_iff, Nat.eqb_eq, ty_eqb_eq. intros [-> ->]. right. auto.
    - rewrite !andb_true_iff, Nat.eqb_eq, ty_eqb_eq, !wf_tyb_spec.
      intros [[[[-> Wa] Wx] M] ->]. left. exists a, b, x. repeat split; auto.
      destruct (match3 H true x a) as [[|]|] eqn:E; try discriminate.
      now apply (match3_exact H W x a Wx Wa).
  Qed.

  (* a resolved subtype constraint: both sides concrete in the final store *)
  Definition sub_constr_ok (fuel : nat) (s : store) (k : constr) : bool :=
    match k_alts k with
    | [target] =>
        match ground fuel s [] (TOp Top []) (k_ref k), ground fuel s [] (TOp Top []) target with
        | Some r, Some t =>
            wf_tyb H r && wf_tyb H t &&
            (match match3 H true r t with Some true => true | _ => false end) &&
            (negb (k_strict k) || negb (ty_eqb r t))
        | _, _ => false
        end
    | _ => false
    end.

  Lemma sub_constr_ok_sound fuel s k :
    sub_constr_ok fuel s k = true ->
    exists r t target, k_alts k = [target] /\
      ground fuel s [] (TOp Top []) (k_ref k) = Some r /\
      ground fuel s [] (TOp Top []) target = Some t /\
      Sub H r t /\ (k_strict k = true -> r <> t).
  Proof.
    unfold sub_constr_ok. destruct (k_alts k) as [|target [|]]; try discriminate.
    destruct (ground fuel s [] (TOp Top []) (k_ref k)) as [r|] eqn:G1; [|discriminate].
    destruct (ground fuel s [] (TOp Top []) target) as [t|] eqn:G2; [|discriminate].
    rewrite !andb_true_iff, !wf_tyb_spec. intros [[[Wr Wt] M] St].
    exists r, t, target. split; [reflexivity|]. split; [reflexivity|]. split; [exact G2|]. split.
    - destruct (match3 H true r t) as [[|]|] eqn:E; try discriminate.
      now apply (match3_exact H W r t Wr Wt).
    - intros E. rewrite E in St. cbn in St. intros ->.
      assert (ty_eqb t t = true) by now apply ty_eqb_eq.
      rewrite H0 in St. discriminate.
  Qed.

  (* a resolved elimination constraint: the reference is a subtype of one of
     the remaining alternatives *)
  Definition elim_constr_ok (fuel : nat) (s : store) (k : constr) : bool :=
    match ground fuel s [] (TOp Top []) (k_ref k) with
    | Some r =>
        wf_tyb H r &&
        existsb (fun alt => match ground fuel s [] (TOp Top []) alt with
                            | Some t => wf_tyb H t &&
                                (match match3 H true r t with Some true => true | _ => false end)
                            | None => false end) (k_alts k)
    | None => false
    end.

  Lemma elim_constr_ok_sound fuel s k :
    elim_constr_ok fuel s k = true ->
    exists r alt t, In alt (k_alts k) /\
      ground fuel s [] (TOp Top []) (k_ref k) = Some r /\
      ground fuel s [] (TOp Top []) alt = Some t /\ Sub H r t.
  Proof.
    unfold elim_constr_ok.
    destruct (ground fuel s [] (TOp Top []) (k_ref k)) as [r|] eqn:G1; [|discriminate].
    rewrite andb_true_iff, wf_tyb_spec, existsb_exists. intros [Wr (alt & Hin & Hal)].
    destruct (ground fuel s [] (TOp Top []) alt) as [t|] eqn:G; [|discriminate].
    rewrite andb_true_iff, wf_tyb_spec in Hal. destruct Hal as [Wt M].
    exists r, alt, t. split; [exact Hin|]. split; [reflexivity|]. split; [exact G|].
    destruct (match3 H true r t) as [[|]|] eqn:E; try discriminate.
    now apply (match3_exact H W r t Wr Wt).
  Qed.

  (* (iv) a variable that carries a base-type bound is not bound to a compound type *)
  Definition bounded_ok (s : store) : bool :=
    forallb (fun c =>
      match c_lower c, c_upper c with
      | None, None => true
      | _, _ => match c_bound c with
                | Some t => match follow s t with
                            | O o args => Nat.eqb (length args) 0
                            | V _ => true
                            end
                | None => true
                end
      end) (vars s).

  Lemma bounded_ok_sound s : bounded_ok s = true ->
    forall v c t o args, nth_error (vars s) v = Some c ->
      (c_lower c <> None \/ c_upper c <> None) -> c_bound c = Some t ->
      follow s t = O o args -> args = [].
  Proof.
    unfold bounded_ok. rewrite forallb_forall. intros F v c t o args Hn Hb Hbd Hf.
    specialize (F c (nth_error_In _ _ Hn)). rewrite Hbd, Hf in F.
    destruct (c_lower c), (c_upper c); try (destruct Hb; congruence);
      apply Nat.eqb_eq in F; now destruct args.
  Qed.

  (* all steps under all listed groundings *)
  Definition all_steps_ok fuel s (ths : list theta) dflt (steps : list step) : bool :=
    forallb (fun th => forallb (step_ok fuel s th dflt) steps) ths.

  Theorem all_steps_ok_sound fuel s ths dflt steps :
    all_steps_ok fuel s ths dflt steps = true ->
    forall th, In th ths -> forall st, In st steps -> StepHolds fuel s th dflt st.
  Proof.
    unfold all_steps_ok. rewrite forallb_forall. intros F th Hth st Hst.
    specialize (F th Hth). rewrite forallb_forall in F. apply step_ok_sound. auto.
  Qed.
End Witness.
