(* C04 (core): every expression accepted by the engine model is well-typed at
   every application node and every leaf carries an instance of its declared
   signature - for expressions whose leaves have constraint-free signatures.

   An expression tree ([expr]) is, for the engine, the command program of its
   construction sequence ([compile], what harness/c04.py's Compiler.build
   emits, mirroring Language.parse_expr and Application.__init__ of
   transforge/lang.py and expr.py): a leaf instantiates its schema (CInst),
   an application node compiles its function part, then its argument, then
   applies (CApply vf vx true).  Every command pushes one value, so the value
   index of a node compiled at offset n is n + size e - 1 ([vidx]).

   Structure:  [compile_eq] (closed form [code]/[vidx]), [code_progP] (the
   program is in fragment P of Infer/Sound.v), [steps_code] (the application
   steps of the program are exactly the triples [nodes e], one per EApp node),
   [insts_code] (the CInst commands are exactly [leaves e]), [nodes_occ] /
   [leaves_occ] (the same said with the sub-expression occurrence relation
   [occ]).
   Semantics:  [expr_sound] (StepSem at every application node under EVERY
   satisfying grounding, from Sound.core_sound), [instance_inst] (a
   constraint-free instance denotes a substitution instance [sinst] of the
   schema body under every grounding of every later store),
   [run_cmds_insts], [expr_leaf_instance].

   Part 2 (second half of the file): [xexpr] adds numbered inputs, annotations
   `e : T`, the self-unification of typed sources and data operators; [xprog]
   is the whole program of harness/c04.py's compile_case (input instances,
   Compiler.build, the fix traversal of Expr.fix).  [cmdQ]/[progQ] extend
   fragment P by CUnify (subtype mode) and CFix; [run_cmds_goodQ] is
   Sound.run_cmds_good for that class with the semantic reading [prog_sem] of
   every command; [xprog_ok], [xsem_of_prog], [fixed_sem], [xexpr_sound]. *)
From Coq Require Import List Arith Bool Lia.
Import ListNotations.
From TF Require Import Base.Hier Base.Ty Sub.SubSpec Infer.Store Infer.Engine Infer.Run
  Infer.Witness Infer.Check Infer.Inv Infer.Sound.

Unset Implicit Arguments.

(* ------------------------------------------------------------------ *)
(* expression trees and their construction sequence                     *)
(* ------------------------------------------------------------------ *)
Inductive expr :=
| EOp (sc : schema)        (* operator leaf: its declared signature *)
| ESrc (t : sty)           (* source `- : t` (SWild = untyped source `-`) *)
| EApp (f x : expr).

(* the number of schematic variables a source type needs *)
Fixpoint sbound (t : sty) : nat :=
  match t with
  | SVar i => S i
  | SWild => 0
  | SOp _ args => fold_right (fun a m => Nat.max (sbound a) m) 0 args
  end.

(* a source's type is a one-off schema over its own variables *)
Definition src_schema (t : sty) : schema := mkSchema (sbound t) t [].

(* commands, value index of the node's type, next free value index *)
Fixpoint compile (e : expr) (n : nat) : list cmd * nat * nat :=
  match e with
  | EOp sc => ([CInst sc], n, S n)
  | ESrc t => ([CInst (src_schema t)], n, S n)
  | EApp f x =>
      let '(cf, vf, n1) := compile f n in
      let '(cx, vx, n2) := compile x n1 in
      (cf ++ cx ++ [CApply vf vx true], n2, S n2)
  end.

(* closed form *)
Fixpoint size (e : expr) : nat :=
  match e with EApp f x => size f + size x + 1 | _ => 1 end.

Definition vidx (e : expr) (n : nat) : nat := n + size e - 1.

Fixpoint code (e : expr) (n : nat) : list cmd :=
  match e with
  | EOp sc => [CInst sc]
  | ESrc t => [CInst (src_schema t)]
  | EApp f x =>
      code f n ++ code x (n + size f) ++ [CApply (vidx f n) (vidx x (n + size f)) true]
  end.

Lemma size_pos e : 1 <= size e.
Proof. destruct e; cbn [size]; lia. Qed.

Lemma compile_eq e : forall n, compile e n = (code e n, vidx e n, n + size e).
Proof.
  induction e as [sc|t|f IHf x IHx]; intros n; cbn [compile code size]; unfold vidx; cbn [size].
  - f_equal; [f_equal|]; lia.
  - f_equal; [f_equal|]; lia.
  - rewrite IHf, IHx. pose proof (size_pos f). pose proof (size_pos x).
    unfold vidx. f_equal; [f_equal|]; lia.
Qed.

Lemma code_length e : forall n, length (code e n) = size e.
Proof.
  induction e as [sc|t|f IHf x IHx]; intros n; cbn [code size]; try reflexivity.
  rewrite !app_length, IHf, IHx. cbn. lia.
Qed.

(* the (function, argument, node) value indices expected for the EApp nodes,
   in construction order *)
Fixpoint nodes (e : expr) (n : nat) : list (nat * nat * nat) :=
  match e with
  | EApp f x =>
      nodes f n ++ nodes x (n + size f) ++
      [(vidx f n, vidx x (n + size f), vidx (EApp f x) n)]
  | _ => []
  end.

Fixpoint napps (e : expr) : nat :=
  match e with EApp f x => napps f + napps x + 1 | _ => 0 end.

Definition leaf_schema (e : expr) : option schema :=
  match e with EOp sc => Some sc | ESrc t => Some (src_schema t) | EApp _ _ => None end.

(* (value index, declared schema) of the leaves *)
Fixpoint leaves (e : expr) (n : nat) : list (nat * schema) :=
  match e with
  | EOp sc => [(n, sc)]
  | ESrc t => [(n, src_schema t)]
  | EApp f x => leaves f n ++ leaves x (n + size f)
  end.

(* the CInst commands of a program with their value indices *)
Fixpoint insts_of (cs : list cmd) (n : nat) : list (nat * schema) :=
  match cs with
  | [] => []
  | CInst sc :: r => (n, sc) :: insts_of r (S n)
  | CApply _ _ _ :: r => insts_of r (S n)
  | CUnify _ _ _ :: r => insts_of r n
  | CFix _ _ :: r => insts_of r (S n)
  end.

Lemma steps_code e : forall n rest,
  steps_of (code e n ++ rest) n = nodes e n ++ steps_of rest (n + size e).
Proof.
  induction e as [sc|t|f IHf x IHx]; intros n rest; cbn [code nodes size].
  - cbn. rewrite Nat.add_1_r. reflexivity.
  - cbn. rewrite Nat.add_1_r. reflexivity.
  - rewrite <- !app_assoc. rewrite IHf, IHx. cbn [app steps_of].
    rewrite <- ?app_assoc. cbn [app]. unfold vidx. cbn [size].
    replace (n + (size f + size x + 1) - 1) with (n + size f + size x) by lia.
    replace (n + (size f + size x + 1)) with (S (n + size f + size x)) by lia.
    reflexivity.
Qed.

Lemma steps_code0 e n : steps_of (code e n) n = nodes e n.
Proof.
  rewrite <- (app_nil_r (code e n)). rewrite steps_code. cbn. apply app_nil_r.
Qed.

Lemma insts_code e : forall n rest,
  insts_of (code e n ++ rest) n = leaves e n ++ insts_of rest (n + size e).
Proof.
  induction e as [sc|t|f IHf x IHx]; intros n rest; cbn [code leaves size].
  - cbn. rewrite Nat.add_1_r. reflexivity.
  - cbn. rewrite Nat.add_1_r. reflexivity.
  - rewrite <- !app_assoc. rewrite IHf, IHx. cbn [app insts_of].
    rewrite <- ?app_assoc.
    replace (n + (size f + size x + 1)) with (S (n + size f + size x)) by lia. reflexivity.
Qed.

Lemma insts_code0 e n : insts_of (code e n) n = leaves e n.
Proof.
  rewrite <- (app_nil_r (code e n)). rewrite insts_code. cbn. apply app_nil_r.
Qed.

Lemma nodes_length e : forall n, length (nodes e n) = napps e.
Proof.
  induction e as [sc|t|f IHf x IHx]; intros n; cbn [nodes napps]; try reflexivity.
  rewrite !app_length, IHf, IHx. cbn. lia.
Qed.

(* ---- occurrences of sub-expressions ---- *)
(* [occ e n g m]: g occurs in e, and when e is compiled at offset n that
   occurrence is compiled at offset m *)
Inductive occ : expr -> nat -> expr -> nat -> Prop :=
| occ_here e n : occ e n e n
| occ_fun f x n g m : occ f n g m -> occ (EApp f x) n g m
| occ_arg f x n g m : occ x (n + size f) g m -> occ (EApp f x) n g m.

Lemma occ_range e n g m : occ e n g m -> n <= m /\ m + size g <= n + size e.
Proof.
  induction 1 as [e n|f x n g m _ IH|f x n g m _ IH]; cbn [size]; lia.
Qed.

Lemma nodes_occ e : forall n a b c,
  In (a, b, c) (nodes e n) <->
  exists f x m, occ e n (EApp f x) m /\
    a = vidx f m /\ b = vidx x (m + size f) /\ c = vidx (EApp f x) m.
Proof.
  induction e as [sc|t|f IHf x IHx]; intros n a b c; cbn [nodes].
  - split; [intros []|]. intros (f & x & m & O & _). inversion O.
  - split; [intros []|]. intros (f & x & m & O & _). inversion O.
  - rewrite !in_app_iff. split.
    + intros [Hin|[Hin|[[= <- <- <-]|[]]]].
      * apply IHf in Hin. destruct Hin as (f' & x' & m & O & E). exists f', x', m.
        split; [apply occ_fun; exact O|exact E].
      * apply IHx in Hin. destruct Hin as (f' & x' & m & O & E). exists f', x', m.
        split; [apply occ_arg; exact O|exact E].
      * exists f, x, n. split; [apply occ_here|auto].
    + intros (f' & x' & m & O & Ea & Eb & Ec).
      inversion O as [? ?|? ? ? ? ? O'|? ? ? ? ? O']; subst.
      * right; right; left. reflexivity.
      * left. apply IHf. exists f', x', m. auto.
      * right; left. apply IHx. exists f', x', m. auto.
Qed.

Lemma leaves_occ e : forall n k sc,
  In (k, sc) (leaves e n) <-> exists g, occ e n g k /\ leaf_schema g = Some sc.
Proof.
  induction e as [sc0|t|f IHf x IHx]; intros n k sc; cbn [leaves].
  - split.
    + intros [[= <- <-]|[]]. exists (EOp sc0). split; [apply occ_here|reflexivity].
    + intros (g & O & E). inversion O; subst. cbn in E. inversion E; subst. left; reflexivity.
  - split.
    + intros [[= <- <-]|[]]. exists (ESrc t). split; [apply occ_here|reflexivity].
    + intros (g & O & E). inversion O; subst. cbn in E. inversion E; subst. left; reflexivity.
  - rewrite in_app_iff. split.
    + intros [Hin|Hin].
      * apply IHf in Hin. destruct Hin as (g & O & E). exists g. split; [apply occ_fun; exact O|exact E].
      * apply IHx in Hin. destruct Hin as (g & O & E). exists g. split; [apply occ_arg; exact O|exact E].
    + intros (g & O & E). inversion O as [? ?|? ? ? ? ? O'|? ? ? ? ? O']; subst.
      * discriminate.
      * left. apply IHf. exists g. auto.
      * right. apply IHx. exists g. auto.
Qed.

(* the node indices are pairwise distinct: one triple per EApp node *)
Lemma nodes_range e : forall n a b c, In (a, b, c) (nodes e n) ->
  n <= a < c /\ n <= b < c /\ c < n + size e.
Proof.
  intros n a b c Hin. apply nodes_occ in Hin. destruct Hin as (f & x & m & O & -> & -> & ->).
  apply occ_range in O. cbn [size] in O. unfold vidx. cbn [size].
  pose proof (size_pos f). pose proof (size_pos x). lia.
Qed.

Lemma NoDup_app' {A} (l1 l2 : list A) : NoDup l1 -> NoDup l2 ->
  (forall a, In a l1 -> In a l2 -> False) -> NoDup (l1 ++ l2).
Proof.
  induction l1 as [|a l1 IH]; intros N1 N2 D; cbn; auto.
  inversion N1; subst. constructor.
  - rewrite in_app_iff. intros [I1|I2]; [auto|]. apply (D a); cbn; auto.
  - apply IH; auto. intros b I1 I2. apply (D b); cbn; auto.
Qed.

Lemma nodes_NoDup e : forall n, NoDup (map snd (nodes e n)).
Proof.
  assert (R : forall e0 n c, In c (map snd (nodes e0 n)) -> n <= c < n + size e0).
  { intros e0 n c Hin. apply in_map_iff in Hin. destruct Hin as ([[a b] c'] & <- & Hin).
    apply nodes_range in Hin. cbn. lia. }
  induction e as [sc|t|f IHf x IHx]; intros n; cbn [nodes map]; try constructor.
  rewrite !map_app. cbn [map snd].
  apply NoDup_app'; [apply IHf| |].
  - apply NoDup_app'; [apply IHx|constructor; [intros []|constructor]|].
    intros c I1 [<-|[]]. apply R in I1. unfold vidx in I1. cbn [size] in I1. lia.
  - intros c I1 I2. apply R in I1. apply in_app_iff in I2. destruct I2 as [I2|[<-|[]]].
    + apply R in I2. lia.
    + unfold vidx in I1. cbn [size] in I1. pose proof (size_pos x). lia.
Qed.

(* ------------------------------------------------------------------ *)
(* substitution instances of a schematic type                           *)
(* ------------------------------------------------------------------ *)
Section Inst.
Variable H : hier.

(* d is the body t with sigma i for the i-th schematic variable and an
   arbitrary well-formed type for every occurrence of the wildcard *)
Inductive sinst (sigma : nat -> ty) : sty -> ty -> Prop :=
| si_var i : sinst sigma (SVar i) (sigma i)
| si_wild d : wf_ty H d -> sinst sigma SWild d
| si_op o args ds : Forall2 (sinst sigma) args ds -> sinst sigma (SOp o args) (TOp o ds).

Fixpoint ssubst (sigma : nat -> ty) (t : sty) : ty :=
  match t with
  | SVar i => sigma i
  | SWild => TOp Top []
  | SOp o args => TOp o (map (ssubst sigma) args)
  end.

Fixpoint nowild (t : sty) : bool :=
  match t with
  | SVar _ => true
  | SWild => false
  | SOp _ args => forallb nowild args
  end.

Lemma sinst_nowild sigma : forall t d, nowild t = true -> sinst sigma t d -> d = ssubst sigma t.
Proof.
  induction t as [i| |o args IH] using sty_ind'; intros d Nw Si; inversion Si; subst; cbn [ssubst].
  - reflexivity.
  - discriminate.
  - f_equal. cbn [nowild] in Nw. rewrite forallb_forall in Nw.
    clear Si.
    match goal with F2 : Forall2 _ _ _ |- _ => revert IH Nw; induction F2 as [|a d' args' ds' Sa F2 IHF]; intros IH Nw end.
    + reflexivity.
    + inversion IH; subst. cbn [map]. f_equal.
      * auto with datatypes.
      * apply IHF; auto. intros y Hy. apply Nw. right. exact Hy.
Qed.

Lemma sinst_ssubst sigma : forall t, nowild t = true -> sinst sigma t (ssubst sigma t).
Proof.
  induction t as [i| |o args IH] using sty_ind'; intros Nw; cbn [ssubst].
  - constructor.
  - discriminate.
  - constructor. cbn [nowild] in Nw. rewrite forallb_forall in Nw.
    induction IH as [|a r Ha Hr IHr]; cbn [map]; constructor.
    + apply Ha. apply Nw. left. reflexivity.
    + apply IHr. intros y Hy. apply Nw. right. exact Hy.
Qed.
End Inst.

(* ------------------------------------------------------------------ *)
(* the engine on compiled expressions                                   *)
(* ------------------------------------------------------------------ *)
Section ExprSound.
Variable H : hier.
Hypothesis W : wf_hier H.
Local Notation len s := (length (vars s)).

(* the leaves carry constraint-free, well-scoped, arity-correct signatures *)
Fixpoint leaves_ok (e : expr) : Prop :=
  match e with
  | EOp sc => s_constrs sc = [] /\ styg H (s_n sc) (s_body sc)
  | ESrc t => styg H (sbound t) t
  | EApp f x => leaves_ok f /\ leaves_ok x
  end.

(* any well-scoped arity-correct type can be the type of a source *)
Lemma styg_mono n m : n <= m -> forall t, styg H n t -> styg H m t.
Proof.
  intros L. induction t as [i| |o args IH] using sty_ind'; intros St; inversion St; subst; constructor; auto.
  - lia.
  - rewrite Forall_forall in *. auto.
Qed.

Lemma styg_sbound : forall t n, styg H n t -> styg H (sbound t) t.
Proof.
  induction t as [i| |o args IH] using sty_ind'; intros n St; inversion St as [| |? ? La Fa]; subst; cbn [sbound].
  - constructor. lia.
  - constructor.
  - constructor; [exact La|]. clear La St.
    induction IH as [|a r Ha Hr IHr]; [constructor|]. inversion Fa; subst. cbn [fold_right]. constructor.
    + eapply styg_mono; [|eapply Ha; eauto]. lia.
    + eapply Forall_impl; [|apply IHr; auto]. cbv beta. intros t. apply styg_mono. lia.
Qed.

Lemma progP_app : forall a n b, progP H n a -> progP H (n + length a) b -> progP H n (a ++ b).
Proof.
  induction a as [|c a IH]; intros n b Pa Pb; cbn [app length] in *.
  - rewrite Nat.add_0_r in Pb. exact Pb.
  - destruct Pa as [Pc Pa]. split; [exact Pc|]. apply IH; [exact Pa|].
    replace (S n + length a) with (n + S (length a)) by lia. exact Pb.
Qed.

Lemma code_progP e : leaves_ok e -> forall n, progP H n (code e n).
Proof.
  induction e as [sc|t|f IHf x IHx]; intros L n; cbn [code leaves_ok] in *.
  - destruct L as [Nc Sb]. split; [constructor; auto|exact Logic.I].
  - split; [constructor; auto|exact Logic.I].
  - destruct L as [Lf Lx]. apply progP_app; [apply IHf; exact Lf|]. rewrite code_length.
    apply progP_app; [apply IHx; exact Lx|]. rewrite code_length.
    pose proof (size_pos f). pose proof (size_pos x).
    split; [|exact Logic.I]. unfold vidx. constructor; lia.
Qed.

(* ---- application nodes ---- *)
Theorem expr_sound e fuel sc vals s : leaves_ok e ->
  run_cmds H fuel (code e 0) 0 [] (empty_store sc) = (None, vals, s) ->
  forall th, sat H th s -> forall f x r, In (f, x, r) (nodes e 0) ->
    StepSem H th (val vals f) (val vals x) (val vals r).
Proof.
  intros L R th S f x r Hin. rewrite <- steps_code0 in Hin.
  eapply core_sound; eauto. apply code_progP. exact L.
Qed.

(* ---- leaves ---- *)
Lemma tr_conj {A} (m : M A) s (Q1 Q2 : A -> store -> Prop) :
  tr m s Q1 -> tr m s Q2 -> tr m s (fun a s' => Q1 a s' /\ Q2 a s').
Proof. intros T1 T2 a s' E. split; [apply T1|apply T2]; exact E. Qed.

Definition sig_of (th : nat -> ty) (env : list tyv) (i : nat) : ty := den th (nth i env (V 0)).

Lemma eval_sty_inst env : forall t s, J H s -> Forall (tg H (len s)) env -> styg H (length env) t ->
  tr (eval_sty env t) s
     (fun r s' => forall th, sat H th s' -> sinst H (sig_of th env) t (den th r)).
Proof.
  induction t as [i| |o args IH] using sty_ind'; intros s I Fe St; cbn [eval_sty].
  - apply tr_gets_end. intros th S. rewrite (den_follow H th s _ S). apply si_var.
  - apply tr_fresh. apply tr_ret. intros th S. cbn [den]. apply si_wild. eapply sat_wf; eauto.
  - inversion St as [| |? ? La Fa]; subst.
    eapply tr_bind with (Q1 := fun xs s1 => forall th, sat H th s1 ->
                                 Forall2 (sinst H (sig_of th env)) args (map (den th) xs)).
    + clear La St. revert s I Fe.
      induction IH as [|a r Ha Hr IHr]; intros s I Fe.
      * apply tr_ret. intros th _. constructor.
      * inversion Fa as [|? ? Sa Sr]; subst.
        eapply tr_bind.
        { apply tr_conj; [apply (eval_sty_good H env a s I Fe Sa)|apply (Ha s I Fe Sa)]. }
        cbv beta. intros x s1 ((I1 & L1 & Tx) & Dx).
        assert (Fe1 : Forall (tg H (len s1)) env)
          by (eapply Forall_tg_mono; [apply (lef_len _ _ _ L1)|exact Fe]).
        eapply tr_bind with (Q1 := fun xs s2 => lef H s1 s2 /\ forall th, sat H th s2 ->
                                 Forall2 (sinst H (sig_of th env)) r (map (den th) xs)).
        { apply tr_conj; [|apply IHr; auto].
          (* the loop over the remaining arguments only refines the store *)
          clear - W I1 Fe1 Sr. revert s1 I1 Fe1.
          induction Sr as [|b r' Sb Sr' IHl]; intros s1 I1 Fe1.
          - apply tr_ret. apply lef_refl.
          - eapply tr_bind; [apply (eval_sty_good H env b s1 I1 Fe1 Sb)|].
            cbv beta. intros y s2 (I2 & L2 & Ty).
            assert (Fe2 : Forall (tg H (len s2)) env)
              by (eapply Forall_tg_mono; [apply (lef_len _ _ _ L2)|exact Fe1]).
            eapply tr_bind; [apply IHl; auto|]. cbv beta. intros ys s3 L3.
            apply tr_ret. eapply lef_trans; eauto. }
        cbv beta. intros xs s2 (L2 & Dxs). apply tr_ret. intros th S2. cbn [map]. constructor.
        -- apply Dx. apply L2. exact S2.
        -- apply Dxs. exact S2.
    + cbv beta. intros xs s1 Dxs. apply tr_ret. intros th S1. cbn [den]. apply si_op. apply Dxs. exact S1.
Qed.

(* a constraint-free instance denotes a substitution instance of the body *)
Definition inst_post (sc : schema) (r : tyv) (s' : store) : Prop :=
  forall th, sat H th s' ->
    exists sigma, (forall i, wf_ty H (sigma i)) /\ sinst H sigma (s_body sc) (den th r).

Lemma instance_inst fuel sc s : J H s -> s_constrs sc = [] -> styg H (s_n sc) (s_body sc) ->
  tr (instance H fuel sc) s (inst_post sc).
Proof.
  intros I Nc Sb. unfold instance. rewrite Nc. cbn [forM].
  eapply tr_bind; [apply fresh_list_good; exact I|]. cbv beta. intros env s1 (I1 & L1 & Fe & Ne).
  assert (Fe' : Forall (tg H (len s1)) env).
  { eapply Forall_impl; [|exact Fe]. intros t. apply isvar_tg. }
  assert (Sb' : styg H (length env) (s_body sc)) by (rewrite Ne; exact Sb).
  eapply tr_bind.
  { apply tr_conj; [apply (eval_sty_good H env _ s1 I1 Fe' Sb')|apply (eval_sty_inst env _ s1 I1 Fe' Sb')]. }
  cbv beta. intros body s2 ((I2 & L2 & Tb) & Db).
  apply tr_ret_bind.
  eapply tr_conseq; [apply (fix_sound H W); auto|]. cbv beta. intros r s3 (Tr & G3).
  destruct G3 as (I3 & L3 & F3 & R3).
  intros th S3. exists (sig_of th env). split.
  - intros i. unfold sig_of. eapply wf_den with (n := S (len s3)); [eapply sat_wf; eauto|].
    destruct (Nat.lt_ge_cases i (length env)) as [Li|Li].
    + rewrite Forall_forall in Fe'. eapply tg_mono; [|apply Fe'; apply nth_In; exact Li].
      pose proof (lef_len _ _ _ L2). pose proof (proj1 L3). lia.
    + rewrite nth_overflow by exact Li. constructor. lia.
  - rewrite (R3 th S3). apply Db. apply L3. exact S3.
Qed.

Theorem run_cmds_insts fuel : forall cs i vals s vals' s', J H s -> Forall (tg H (len s)) vals ->
  progP H (length vals) cs -> run_cmds H fuel cs i vals s = (None, vals', s') ->
  forall k sc, In (k, sc) (insts_of cs (length vals)) -> inst_post sc (val vals' k) s'.
Proof.
  induction cs as [|c cs IH]; intros i vals s vals' s' I Fv P R k sc Hin; [destruct Hin|].
  destruct P as [Pc Pr]. cbn [run_cmds] in R.
  pose proof (run_cmd_good H W fuel c vals s I Fv Pc) as T. unfold tr in T.
  destruct (run_cmd H fuel c vals s) as [vals1 s1|e s1] eqn:Ec; [|discriminate].
  destruct (T vals1 s1 eq_refl) as (t & -> & Tt & G1).
  pose proof G1 as (I1 & L1 & F1 & _).
  assert (Fv1 : Forall (tg H (len s1)) (vals ++ [t])).
  { apply Forall_app. split; [eapply Forall_tg_mono; [apply L1|exact Fv]|constructor; auto]. }
  assert (Ln : length (vals ++ [t]) = S (length vals)) by (rewrite app_length; cbn; lia).
  assert (Pr1 : progP H (length (vals ++ [t])) cs) by (rewrite Ln; exact Pr).
  assert (Rest : forall k sc, In (k, sc) (insts_of cs (S (length vals))) -> inst_post sc (val vals' k) s').
  { intros k' sc' Hin'. eapply (IH (S i) (vals ++ [t]) s1); eauto. rewrite Ln. exact Hin'. }
  destruct Pc as [sc0 Nc Sb|f x b Lf Lx]; cbn [insts_of] in Hin; [|apply Rest; exact Hin].
  destruct Hin as [[= <- <-]|Hin]; [|apply Rest; exact Hin].
  (* the value pushed by this CInst *)
  destruct (run_cmds_good H W fuel cs (S i) (vals ++ [t]) s1 vals' s' I1 Fv1 Pr1 R)
    as (_ & L' & _ & (ext & ->) & _).
  rewrite <- app_assoc. cbn [app]. rewrite val_app_new.
  cbn [run_cmd] in Ec. unfold bindM in Ec.
  destruct (instance H fuel sc0 s) as [t0 s0|e0 s0] eqn:Ei; [|discriminate].
  cbn in Ec. unfold ret in Ec. inversion Ec as [[Ev Es]]. subst s0.
  apply app_inv_head in Ev. inversion Ev; subst t0.
  pose proof (instance_inst fuel sc0 s I Nc Sb t s1 Ei) as Pi.
  intros th S'. apply Pi. apply L'. exact S'.
Qed.

Theorem expr_leaf_instance e fuel sc vals s : leaves_ok e ->
  run_cmds H fuel (code e 0) 0 [] (empty_store sc) = (None, vals, s) ->
  forall k sch, In (k, sch) (leaves e 0) ->
  forall th, sat H th s ->
    exists sigma, (forall i, wf_ty H (sigma i)) /\ sinst H sigma (s_body sch) (den th (val vals k)).
Proof.
  intros L R k sch Hin. rewrite <- insts_code0 in Hin.
  eapply (run_cmds_insts fuel (code e 0) 0 [] (empty_store sc) vals s); eauto.
  - apply J_empty.
  - apply code_progP. exact L.
Qed.

End ExprSound.

(* ------------------------------------------------------------------ *)
(* the statements exported by props/C04_core.v                          *)
(* ------------------------------------------------------------------ *)
Definition prog_of (e : expr) : list cmd := fst (fst (compile e 0)).

Lemma prog_of_code e : prog_of e = code e 0.
Proof. unfold prog_of. rewrite compile_eq. reflexivity. Qed.

Theorem compile_wf H e : leaves_ok H e -> forall n,
  let '(cs, v, n') := compile e n in
  progP H n cs /\ prog_wf n cs /\ length cs = size e /\ v = n + size e - 1 /\ n' = n + size e.
Proof.
  intros L n. rewrite compile_eq. pose proof (code_progP H e L n) as P.
  split; [exact P|split; [apply (progP_wf H); exact P|split; [apply code_length|split; reflexivity]]].
Qed.

Theorem nodes_covered e n :
  let '(cs, v, n') := compile e n in
  steps_of cs n = nodes e n /\ insts_of cs n = leaves e n /\
  length (nodes e n) = napps e /\ NoDup (map snd (nodes e n)).
Proof.
  rewrite compile_eq. split; [apply steps_code0|split; [apply insts_code0|split; [apply nodes_length|apply nodes_NoDup]]].
Qed.

Theorem expr_core H (W : wf_hier H) e fuel sc vals s : leaves_ok H e ->
  run_cmds H fuel (prog_of e) 0 [] (empty_store sc) = (None, vals, s) ->
  forall th, sat H th s ->
  forall f x r, In (f, x, r) (nodes e 0) ->
    (exists a b, den th (val vals f) = TOp Function [a; b] /\
                 Sub H (den th (val vals x)) a /\ den th (val vals r) = b) \/
    (den th (val vals f) = TOp Top [] /\ den th (val vals r) = TOp Top []).
Proof.
  intros L R th S f x r Hin. rewrite prog_of_code in R.
  exact (expr_sound H W e fuel sc vals s L R th S f x r Hin).
Qed.

(* the same, said about the sub-expression occurrences of e *)
Theorem expr_core_occ H (W : wf_hier H) e fuel sc vals s : leaves_ok H e ->
  run_cmds H fuel (prog_of e) 0 [] (empty_store sc) = (None, vals, s) ->
  forall th, sat H th s ->
  forall f x m, occ e 0 (EApp f x) m ->
    let tf := den th (val vals (vidx f m)) in
    let tx := den th (val vals (vidx x (m + size f))) in
    let tr := den th (val vals (vidx (EApp f x) m)) in
    (exists a b, tf = TOp Function [a; b] /\ Sub H tx a /\ tr = b) \/
    (tf = TOp Top [] /\ tr = TOp Top []).
Proof.
  intros L R th S f x m O. cbv zeta.
  apply (expr_core H W e fuel sc vals s L R th S). apply nodes_occ. exists f, x, m. auto.
Qed.

Theorem leaf_instance H (W : wf_hier H) e fuel sc vals s : leaves_ok H e ->
  run_cmds H fuel (prog_of e) 0 [] (empty_store sc) = (None, vals, s) ->
  forall th, sat H th s ->
  forall k sch, In (k, sch) (leaves e 0) ->
    exists sigma, (forall i, wf_ty H (sigma i)) /\
      sinst H sigma (s_body sch) (den th (val vals k)) /\
      (nowild (s_body sch) = true -> den th (val vals k) = ssubst sigma (s_body sch)).
Proof.
  intros L R th S k sch Hin. rewrite prog_of_code in R.
  destruct (expr_leaf_instance H W e fuel sc vals s L R k sch Hin th S) as (sigma & Ws & Si).
  exists sigma. split; [exact Ws|split; [exact Si|]]. intros Nw. eapply sinst_nowild; eauto.
Qed.

Theorem leaf_instance_occ H (W : wf_hier H) e fuel sc vals s : leaves_ok H e ->
  run_cmds H fuel (prog_of e) 0 [] (empty_store sc) = (None, vals, s) ->
  forall th, sat H th s ->
  forall g m sch, occ e 0 g m -> leaf_schema g = Some sch ->
    exists sigma, (forall i, wf_ty H (sigma i)) /\
      sinst H sigma (s_body sch) (den th (val vals m)) /\
      (nowild (s_body sch) = true -> den th (val vals m) = ssubst sigma (s_body sch)).
Proof.
  intros L R th S g m sch O E. apply (leaf_instance H W e fuel sc vals s L R th S).
  apply leaves_occ. exists g. auto.
Qed.

(* not vacuous: an accepted expression has a satisfying grounding *)
Theorem expr_satisfiable H (W : wf_hier H) e fuel sc vals s : leaves_ok H e ->
  run_cmds H fuel (prog_of e) 0 [] (empty_store sc) = (None, vals, s) ->
  exists th, sat H th s.
Proof.
  intros L R. rewrite prog_of_code in R.
  destruct (core_satisfiable H W fuel sc (code e 0) vals s (code_progP H e L 0) R) as (th & S & _).
  exists th. exact S.
Qed.

(* ================================================================== *)
(* Part 2: annotations, numbered inputs, typed-source self-unification  *)
(* and the fix traversal - the whole program harness/c04.py compiles    *)
(* ================================================================== *)

Inductive xexpr :=
| XOp (sc : schema) (data : bool)  (* operator leaf; data = true: a non-function operator,
                                      instantiated as a Source (re-fixed by Expr.fix) *)
| XSrc (t : sty)                   (* `- : t`; t = SWild: the untyped source `-` *)
| XIn (i : nat)                    (* numbered input (0-based) *)
| XApp (f x : xexpr)
| XAnn (e : xexpr) (T : sty).      (* e : T *)

(* the tree of value indices the compiler returns (harness: ("leaf", v),
   ("source", v), ("app", v, f, x)) *)
Inductive node := NLeaf (v : nat) | NSource (v : nat) | NApp (v : nat) (f x : node).
Definition nval (nd : node) : nat :=
  match nd with NLeaf v => v | NSource v => v | NApp v _ _ => v end.

Definition is_wild (t : sty) : bool := match t with SWild => true | _ => false end.

(* Compiler.build *)
Fixpoint xcompile (e : xexpr) (n : nat) : list cmd * node * nat :=
  match e with
  | XOp sc data => ([CInst sc], (if data then NSource n else NLeaf n), S n)
  | XSrc t =>
      (CInst (src_schema t) :: (if is_wild t then [] else [CUnify n n true]), NSource n, S n)
  | XIn i => ([], NSource i, n)
  | XApp f x =>
      let '(cf, nf, n1) := xcompile f n in
      let '(cx, nx, n2) := xcompile x n1 in
      (cf ++ cx ++ [CApply (nval nf) (nval nx) true], NApp n2 nf nx, S n2)
  | XAnn e T =>
      let '(ce, ne, n1) := xcompile e n in
      (ce ++ [CInst (src_schema T); CUnify (nval ne) n1 true], ne, S n1)
  end.

(* Compiler.fix = Expr.fix: sources to the most general, applications to the
   most specific type *)
Fixpoint fixc (nd : node) : list cmd :=
  match nd with
  | NLeaf _ => []
  | NSource v => [CFix v false]
  | NApp v f x => fixc f ++ fixc x ++ [CFix v true]
  end.

(* the value indices after the fix traversal run at offset m *)
Fixpoint fixed (nd : node) (m : nat) : node * nat :=
  match nd with
  | NLeaf v => (NLeaf v, m)
  | NSource v => (NSource m, S m)
  | NApp v f x =>
      let '(f', m1) := fixed f m in
      let '(x', m2) := fixed x m1 in
      (NApp m2 f' x', S m2)
  end.

Definition input_cmds (inputs : list sty) : list cmd := map (fun t => CInst (src_schema t)) inputs.

(* compile_case *)
Definition xprog (inputs : list sty) (e : xexpr) : list cmd :=
  let '(cs, nd, _) := xcompile e (length inputs) in
  input_cmds inputs ++ cs ++ fixc nd.

(* value count after a command *)
Definition nxt (c : cmd) (n : nat) : nat := match c with CUnify _ _ _ => n | _ => S n end.
Fixpoint nxts (cs : list cmd) (n : nat) : nat :=
  match cs with [] => n | c :: r => nxts r (nxt c n) end.

Lemma nxts_app a : forall b n, nxts (a ++ b) n = nxts b (nxts a n).
Proof. induction a as [|c a IH]; intros b n; cbn [app nxts]; auto. Qed.

Lemma nxt_le c n : n <= nxt c n.
Proof. destruct c; cbn; lia. Qed.

Lemma nxts_le cs : forall n, n <= nxts cs n.
Proof.
  induction cs as [|c cs IH]; intros n; cbn [nxts]; [lia|].
  eapply Nat.le_trans; [apply (nxt_le c)|apply IH].
Qed.

(* the CUnify / CFix commands of a program: (left, right) and (argument, result) indices *)
Fixpoint unifs_of (cs : list cmd) : list (nat * nat) :=
  match cs with
  | [] => []
  | CInst _ :: r => unifs_of r
  | CApply _ _ _ :: r => unifs_of r
  | CUnify a b _ :: r => (a, b) :: unifs_of r
  | CFix _ _ :: r => unifs_of r
  end.

Fixpoint fixes_of (cs : list cmd) (n : nat) : list (nat * nat) :=
  match cs with
  | [] => []
  | CInst _ :: r => fixes_of r (S n)
  | CApply _ _ _ :: r => fixes_of r (S n)
  | CUnify _ _ _ :: r => fixes_of r n
  | CFix a _ :: r => (a, n) :: fixes_of r (S n)
  end.

Section Full.
Variable H : hier.
Hypothesis W : wf_hier H.
Local Notation len s := (length (vars s)).

(* ---- the command class ---- *)
Inductive cmdQ (n : nat) : cmd -> Prop :=
| cQ_inst sc : s_constrs sc = [] -> styg H (s_n sc) (s_body sc) -> cmdQ n (CInst sc)
| cQ_apply f x b : f < n -> x < n -> cmdQ n (CApply f x b)
| cQ_unify a b : a < n -> b < n -> cmdQ n (CUnify a b true)
| cQ_fix a pl : a < n -> cmdQ n (CFix a pl).

Fixpoint progQ (n : nat) (cs : list cmd) : Prop :=
  match cs with
  | [] => True
  | c :: r => cmdQ n c /\ progQ (nxt c n) r
  end.

Lemma cmdQ_mono n m c : n <= m -> cmdQ n c -> cmdQ m c.
Proof. intros L [sc Nc Sb|f x b Lf Lx|a b La Lb|a pl La]; constructor; auto; lia. Qed.

Lemma progQ_app a : forall n b, progQ n a -> progQ (nxts a n) b -> progQ n (a ++ b).
Proof.
  induction a as [|c a IH]; intros n b Pa Pb; cbn [app nxts] in *; [exact Pb|].
  destruct Pa as [Pc Pa]. split; [exact Pc|]. apply IH; auto.
Qed.

Lemma progQ_wf : forall cs n, progQ n cs -> prog_wf n cs.
Proof.
  induction cs as [|c cs IH]; intros n P; cbn [prog_wf]; [exact Logic.I|].
  destruct P as [Pc Pr]. split; [|apply IH; exact Pr].
  destruct Pc as [sc Nc Sb|f x b Lf Lx|a b La Lb|a pl La]; cbn [cmd_wf]; auto.
  split; [apply (styg_wf H); exact Sb|]. rewrite Nc. constructor.
Qed.

(* ---- the meaning of a command / a program in a final state ---- *)
Definition is_inst (th : nat -> ty) (sc : schema) (t : tyv) : Prop :=
  exists sigma, (forall i, wf_ty H (sigma i)) /\ sinst H sigma (s_body sc) (den th t).

Definition cmd_sem (th : nat -> ty) (vals : list tyv) (c : cmd) (n : nat) : Prop :=
  match c with
  | CInst sc => is_inst th sc (val vals n)
  | CApply f x _ => StepSem H th (val vals f) (val vals x) (val vals n)
  | CUnify a b _ => Sub H (den th (val vals a)) (den th (val vals b))
  | CFix a _ => den th (val vals n) = den th (val vals a)
  end.

Fixpoint prog_sem (th : nat -> ty) (vals : list tyv) (cs : list cmd) (n : nat) : Prop :=
  match cs with
  | [] => True
  | c :: r => cmd_sem th vals c n /\ prog_sem th vals r (nxt c n)
  end.

Lemma prog_sem_app th vals a : forall b n,
  prog_sem th vals (a ++ b) n <-> prog_sem th vals a n /\ prog_sem th vals b (nxts a n).
Proof.
  induction a as [|c a IH]; intros b n; cbn [app prog_sem nxts]; [tauto|].
  rewrite IH. tauto.
Qed.

Lemma cmd_sem_ext th vals ext c n : cmdQ n c -> nxt c n <= length vals ->
  cmd_sem th vals c n -> cmd_sem th (vals ++ ext) c n.
Proof.
  intros [sc Nc Sb|f x b Lf Lx|a b La Lb|a pl La] L; cbn [cmd_sem nxt] in *;
    rewrite ?val_app_l by lia; auto.
Qed.

Lemma run_cmd_goodQ fuel c vals s : J H s -> Forall (tg H (len s)) vals -> cmdQ (length vals) c ->
  tr (run_cmd H fuel c vals) s
     (fun vals' s' => (exists ext, vals' = vals ++ ext) /\ length vals' = nxt c (length vals) /\
        Forall (tg H (len s')) vals' /\ J H s' /\ lef H s s' /\
        forall th, sat H th s' -> cmd_sem th vals' c (length vals)).
Proof.
  intros I Fv Pc.
  assert (Push : forall t s', tg H (len s') t -> lef H s s' ->
            (exists ext, vals ++ [t] = vals ++ ext) /\ length (vals ++ [t]) = S (length vals) /\
            Forall (tg H (len s')) (vals ++ [t])).
  { intros t s' Tt L. split; [eexists; reflexivity|]. split; [rewrite app_length; cbn; lia|].
    apply Forall_app. split; [eapply Forall_tg_mono; [apply (lef_len _ _ _ L)|exact Fv]|constructor; auto]. }
  destruct Pc as [sc Nc Sb|f x b Lf Lx|a b La Lb|a pl La]; cbn [run_cmd nxt cmd_sem].
  - eapply tr_bind.
    { apply tr_conj; [apply (instance_good H W fuel sc s I Nc Sb)|apply (instance_inst H W fuel sc s I Nc Sb)]. }
    cbv beta. intros t s1 ((I1 & L1 & Tt) & Pi). apply tr_ret.
    destruct (Push t s1 Tt L1) as (A & B & C). split; [exact A|split; [exact B|split; [exact C|]]].
    split; [exact I1|split; [exact L1|]]. intros th S1. rewrite val_app_new. apply Pi. exact S1.
  - eapply tr_bind; [apply (apply_good H W); auto using tg_val|]. cbv beta. intros t s1 (Tt & G1).
    apply tr_ret. pose proof (good_lef _ _ _ _ G1) as L1.
    destruct (Push t s1 Tt L1) as (A & B & C). split; [exact A|split; [exact B|split; [exact C|]]].
    split; [apply G1|split; [exact L1|]]. intros th S1.
    rewrite val_app_new, !val_app_l by lia. apply G1. exact S1.
  - eapply tr_bind; [apply (unify_sound H W); auto using tg_val|]. cbv beta. intros _ s1 G1.
    apply tr_ret. pose proof (good_lef _ _ _ _ G1) as L1.
    split; [exists []; rewrite app_nil_r; reflexivity|split; [reflexivity|]].
    split; [eapply Forall_tg_mono; [apply (lef_len _ _ _ L1)|exact Fv]|].
    split; [apply G1|split; [exact L1|]]. intros th S1. apply G1. exact S1.
  - eapply tr_bind; [apply (fix_sound H W); auto using tg_val|]. cbv beta. intros t s1 (Tt & G1).
    apply tr_ret. pose proof (good_lef _ _ _ _ G1) as L1.
    destruct (Push t s1 Tt L1) as (A & B & C). split; [exact A|split; [exact B|split; [exact C|]]].
    split; [apply G1|split; [exact L1|]]. intros th S1.
    rewrite val_app_new, val_app_l by lia. apply G1. exact S1.
Qed.

Lemma prog_sem_ext th vals ext : forall cs n, progQ n cs -> nxts cs n <= length vals ->
  prog_sem th vals cs n -> prog_sem th (vals ++ ext) cs n.
Proof.
  induction cs as [|c cs IH]; intros n P L S; cbn [prog_sem progQ nxts] in *; [exact Logic.I|].
  destruct P as [Pc Pr]. destruct S as [Sc Sr]. split.
  - apply cmd_sem_ext; auto. eapply Nat.le_trans; [apply nxts_le|exact L].
  - apply IH; auto.
Qed.

Theorem run_cmds_goodQ fuel : forall cs i vals s vals' s', J H s -> Forall (tg H (len s)) vals ->
  progQ (length vals) cs -> run_cmds H fuel cs i vals s = (None, vals', s') ->
  J H s' /\ lef H s s' /\ Forall (tg H (len s')) vals' /\ (exists ext, vals' = vals ++ ext) /\
  length vals' = nxts cs (length vals) /\
  forall th, sat H th s' -> prog_sem th vals' cs (length vals).
Proof.
  induction cs as [|c cs IH]; intros i vals s vals' s' I Fv P R; cbn [run_cmds] in R.
  - inversion R; subst. split; [auto|split; [apply lef_refl|split; [auto|split]]].
    + exists []. rewrite app_nil_r. reflexivity.
    + split; [reflexivity|]. intros th _. exact Logic.I.
  - destruct P as [Pc Pr].
    pose proof (run_cmd_goodQ fuel c vals s I Fv Pc) as T. unfold tr in T.
    destruct (run_cmd H fuel c vals s) as [vals1 s1|e s1] eqn:Ec; [|discriminate].
    destruct (T vals1 s1 eq_refl) as ((ext1 & E1) & Ln & Fv1 & I1 & L1 & Sem1).
    rewrite <- Ln in Pr.
    destruct (IH (S i) vals1 s1 vals' s' I1 Fv1 Pr R) as (I' & L' & Fv' & (ext & ->) & Ln' & Sem').
    split; [auto|split; [eapply lef_trans; eauto|split; [auto|split]]].
    + exists (ext1 ++ ext). rewrite E1, app_assoc. reflexivity.
    + split; [cbn [nxts]; rewrite <- Ln; exact Ln'|].
      intros th S'. cbn [prog_sem]. split.
      * apply cmd_sem_ext; [exact Pc|lia|]. apply Sem1. apply L'. exact S'.
      * rewrite <- Ln. apply Sem'. exact S'.
Qed.

(* ---- observation lists of a program ---- *)
Lemma prog_sem_obs th vals : forall cs n, prog_sem th vals cs n ->
  (forall f x r, In (f, x, r) (steps_of cs n) ->
     StepSem H th (val vals f) (val vals x) (val vals r)) /\
  (forall k sc, In (k, sc) (insts_of cs n) -> is_inst th sc (val vals k)) /\
  (forall a b, In (a, b) (unifs_of cs) -> Sub H (den th (val vals a)) (den th (val vals b))) /\
  (forall a r, In (a, r) (fixes_of cs n) -> den th (val vals r) = den th (val vals a)).
Proof.
  induction cs as [|c cs IH]; intros n S.
  - cbn. repeat split; intros; contradiction.
  - cbn [prog_sem] in S. destruct S as [Sc Sr]. destruct (IH _ Sr) as (A & B & C & D).
    destruct c as [sc|f x b|a b sub|a pl]; cbn [steps_of insts_of unifs_of fixes_of nxt cmd_sem] in *;
      (split; [|split; [|split]]); auto.
    + intros k sc' [[= <- <-]|Hin]; auto.
    + intros f' x' r' [[= <- <- <-]|Hin]; auto.
    + intros a' b' [[= <- <-]|Hin]; auto.
    + intros a' r' [[= <- <-]|Hin]; auto.
Qed.

(* programs of CInst / CApply / CUnify(subtype) / CFix over constraint-free
   schemas: Sound.core_sound extended by the unify and fix commands *)
Theorem prog_sound fuel sc prog vals s : progQ 0 prog ->
  run_cmds H fuel prog 0 [] (empty_store sc) = (None, vals, s) ->
  J H s /\ Forall (tg H (len s)) vals /\ forall th, sat H th s -> prog_sem th vals prog 0.
Proof.
  intros P R.
  destruct (run_cmds_goodQ fuel prog 0 [] (empty_store sc) vals s (J_empty H sc) (Forall_nil _) P R)
    as (I & _ & F & _ & _ & Sem). auto.
Qed.

Theorem prog_satisfiable fuel sc prog vals s : progQ 0 prog ->
  run_cmds H fuel prog 0 [] (empty_store sc) = (None, vals, s) ->
  exists th, sat H th s.
Proof.
  intros P R. destruct (prog_sound fuel sc prog vals s P R) as (I & _ & _).
  destruct (engine_inv H fuel sc prog (progQ_wf _ _ P) R) as (Iv & _).
  destruct (satisfiable H W s (inv_wsc Iv) I) as (th & S & _). exists th. exact S.
Qed.

(* ---- the compiled program is in the class ---- *)
Fixpoint nwf (n : nat) (nd : node) : Prop :=
  match nd with
  | NLeaf v => v < n
  | NSource v => v < n
  | NApp v f x => v < n /\ nwf n f /\ nwf n x
  end.

Lemma nwf_mono n m nd : n <= m -> nwf n nd -> nwf m nd.
Proof. intros L. induction nd as [v|v|v f IHf x IHx]; cbn [nwf]; intros; try lia. intuition lia. Qed.

Lemma nwf_nval n nd : nwf n nd -> nval nd < n.
Proof. destruct nd; cbn; tauto. Qed.

(* k = number of inputs *)
Fixpoint xok (k : nat) (e : xexpr) : Prop :=
  match e with
  | XOp sc _ => s_constrs sc = [] /\ styg H (s_n sc) (s_body sc)
  | XSrc t => styg H (sbound t) t
  | XIn i => i < k
  | XApp f x => xok k f /\ xok k x
  | XAnn e T => xok k e /\ styg H (sbound T) T
  end.

Lemma src_cmdQ n t : styg H (sbound t) t -> cmdQ n (CInst (src_schema t)).
Proof. intros St. constructor; [reflexivity|exact St]. Qed.

Lemma xcompile_ok k e : xok k e -> forall n, k <= n ->
  progQ n (fst (fst (xcompile e n))) /\
  snd (xcompile e n) = nxts (fst (fst (xcompile e n))) n /\
  nwf (snd (xcompile e n)) (snd (fst (xcompile e n))).
Proof.
  induction e as [sc data|t|i|f IHf x IHx|e IHe T]; intros K n L; cbn [xcompile xok] in *.
  - destruct K as [Nc Sb]. cbn. split; [split; [constructor; auto|exact Logic.I]|].
    split; [reflexivity|]. destruct data; cbn; lia.
  - cbn [fst snd]. split.
    + split; [apply src_cmdQ; exact K|]. destruct (is_wild t); cbn; [exact Logic.I|].
      split; [constructor; lia|exact Logic.I].
    + split; [destruct (is_wild t); reflexivity|cbn; lia].
  - cbn. split; [exact Logic.I|split; [reflexivity|lia]].
  - destruct K as [Kf Kx]. specialize (IHf Kf n L).
    destruct (xcompile f n) as [[cf nf] n1] eqn:Ef. cbn [fst snd] in IHf.
    destruct IHf as (Pf & Nf & Wf).
    assert (L1 : k <= n1) by (rewrite Nf; eapply Nat.le_trans; [exact L|apply nxts_le]).
    specialize (IHx Kx n1 L1).
    destruct (xcompile x n1) as [[cx nx] n2] eqn:Ex. cbn [fst snd] in IHx.
    destruct IHx as (Px & Nx & Wx). cbn [fst snd].
    assert (L12 : n1 <= n2) by (rewrite Nx; apply nxts_le).
    split; [|split].
    + apply progQ_app; [exact Pf|]. rewrite <- Nf. apply progQ_app; [exact Px|]. rewrite <- Nx.
      split; [|exact Logic.I]. constructor.
      * apply nwf_nval in Wf. lia.
      * apply nwf_nval in Wx. lia.
    + rewrite !nxts_app, <- Nf, <- Nx. reflexivity.
    + cbn [nwf]. split; [lia|split]; [apply (nwf_mono n1); [lia|exact Wf]|apply (nwf_mono n2); [lia|exact Wx]].
  - destruct K as [Ke KT]. specialize (IHe Ke n L).
    destruct (xcompile e n) as [[ce ne] n1] eqn:Ee. cbn [fst snd] in *.
    destruct IHe as (Pe & Ne & We).
    split; [|split].
    + apply progQ_app; [exact Pe|]. rewrite <- Ne.
      split; [apply src_cmdQ; exact KT|]. split; [|exact Logic.I]. cbn [nxt].
      constructor; [apply nwf_nval in We; lia|lia].
    + rewrite nxts_app, <- Ne. reflexivity.
    + apply (nwf_mono n1); [lia|exact We].
Qed.

Lemma fixc_ok nd : forall m, nwf m nd ->
  progQ m (fixc nd) /\ snd (fixed nd m) = nxts (fixc nd) m /\ nwf (snd (fixed nd m)) (fst (fixed nd m)).
Proof.
  induction nd as [v|v|v f IHf x IHx]; intros m Wn; cbn [fixc fixed nwf] in *.
  - cbn. auto.
  - cbn. split; [split; [constructor; exact Wn|exact Logic.I]|split; [reflexivity|lia]].
  - destruct Wn as (Lv & Wf & Wx). destruct (IHf m Wf) as (Pf & Nf & Wf').
    destruct (fixed f m) as [f' m1] eqn:Ef. cbn [fst snd] in *.
    assert (L1 : m <= m1) by (rewrite Nf; apply nxts_le).
    destruct (IHx m1 (nwf_mono _ _ _ L1 Wx)) as (Px & Nx & Wx').
    destruct (fixed x m1) as [x' m2] eqn:Ex. cbn [fst snd] in *.
    assert (L2 : m1 <= m2) by (rewrite Nx; apply nxts_le).
    split; [|split].
    + apply progQ_app; [exact Pf|]. rewrite <- Nf. apply progQ_app; [exact Px|]. rewrite <- Nx.
      split; [constructor; lia|exact Logic.I].
    + rewrite !nxts_app, <- Nf, <- Nx. reflexivity.
    + cbn [nwf]. split; [lia|split]; [apply (nwf_mono m1); [lia|exact Wf']|apply (nwf_mono m2); [lia|exact Wx']].
Qed.

Lemma input_cmds_ok inputs : Forall (fun t => styg H (sbound t) t) inputs ->
  forall n, progQ n (input_cmds inputs) /\ nxts (input_cmds inputs) n = n + length inputs.
Proof.
  induction 1 as [|t r St _ IH]; intros n; cbn [input_cmds map progQ nxts length].
  - split; [exact Logic.I|lia].
  - destruct (IH (S n)) as [P N]. split; [split; [apply src_cmdQ; exact St|exact P]|].
    cbn [nxt]. unfold input_cmds in N. rewrite N. lia.
Qed.

Theorem xprog_ok inputs e : Forall (fun t => styg H (sbound t) t) inputs -> xok (length inputs) e ->
  progQ 0 (xprog inputs e).
Proof.
  intros Fi K. unfold xprog.
  destruct (xcompile_ok _ e K (length inputs) (le_n _)) as (Pe & Ne & We).
  destruct (xcompile e (length inputs)) as [[cs nd] n1]. cbn [fst snd] in *.
  destruct (input_cmds_ok inputs Fi 0) as [Pi Ni]. cbn in Ni.
  apply progQ_app; [exact Pi|]. rewrite Ni.
  apply progQ_app; [exact Pe|]. rewrite <- Ne. apply fixc_ok. exact We.
Qed.

(* ---- the meaning of a tree ---- *)
(* the expression compiled at offset n is well-typed in the final state *)
Fixpoint xsem (th : nat -> ty) (vals : list tyv) (e : xexpr) (n : nat) : Prop :=
  match e with
  | XOp sc _ => is_inst th sc (val vals n)
  | XSrc t => is_inst th (src_schema t) (val vals n)
  | XIn _ => True
  | XApp f x =>
      let '(_, nf, n1) := xcompile f n in
      let '(_, nx, n2) := xcompile x n1 in
      xsem th vals f n /\ xsem th vals x n1 /\
      StepSem H th (val vals (nval nf)) (val vals (nval nx)) (val vals n2)
  | XAnn e T =>
      let '(_, ne, n1) := xcompile e n in
      xsem th vals e n /\ is_inst th (src_schema T) (val vals n1) /\
      Sub H (den th (val vals (nval ne))) (den th (val vals n1))
  end.

(* well-typedness of a tree of value indices *)
Fixpoint nsem (th : nat -> ty) (vals : list tyv) (nd : node) : Prop :=
  match nd with
  | NApp v f x =>
      nsem th vals f /\ nsem th vals x /\
      StepSem H th (val vals (nval f)) (val vals (nval x)) (val vals v)
  | _ => True
  end.

Lemma xcompile_nxts e : forall n, snd (xcompile e n) = nxts (fst (fst (xcompile e n))) n.
Proof.
  induction e as [sc data|t|i|f IHf x IHx|e IHe T]; intros n; cbn [xcompile].
  - reflexivity.
  - cbn. destruct (is_wild t); reflexivity.
  - reflexivity.
  - specialize (IHf n). destruct (xcompile f n) as [[cf nf] n1]. specialize (IHx n1).
    destruct (xcompile x n1) as [[cx nx] n2]. cbn [fst snd] in *.
    rewrite !nxts_app, <- IHf, <- IHx. reflexivity.
  - specialize (IHe n). destruct (xcompile e n) as [[ce ne] n1]. cbn [fst snd] in *.
    rewrite nxts_app, <- IHe. reflexivity.
Qed.

Lemma xsem_of_prog th vals e : forall n rest,
  prog_sem th vals (fst (fst (xcompile e n)) ++ rest) n ->
  xsem th vals e n /\ nsem th vals (snd (fst (xcompile e n))) /\
  prog_sem th vals rest (snd (xcompile e n)).
Proof.
  induction e as [sc data|t|i|f IHf x IHx|e IHe T]; intros n rest S; cbn [xcompile xsem] in *.
  - cbn in S. destruct S as [S1 S2]. cbn. split; [exact S1|]. split; [destruct data; exact Logic.I|exact S2].
  - cbn [fst snd app prog_sem cmd_sem nxt] in S. destruct S as [S1 S2]. cbn [fst snd nsem].
    split; [exact S1|split; [exact Logic.I|]]. destruct (is_wild t); cbn in S2; tauto.
  - cbn in *. auto.
  - pose proof (xcompile_nxts f n) as Nf. specialize (IHf n).
    destruct (xcompile f n) as [[cf nf] n1]. cbn [fst snd] in *.
    pose proof (xcompile_nxts x n1) as Nx. specialize (IHx n1).
    destruct (xcompile x n1) as [[cx nx] n2]. cbn [fst snd] in *.
    rewrite <- !app_assoc in S. apply IHf in S. destruct S as (Sf & Nsf & S).
    apply IHx in S. destruct S as (Sx & Nsx & S).
    cbn [app prog_sem cmd_sem nxt] in S. destruct S as [Sa S]. cbn [nsem]. tauto.
  - pose proof (xcompile_nxts e n) as Ne. specialize (IHe n).
    destruct (xcompile e n) as [[ce ne] n1]. cbn [fst snd] in *.
    rewrite <- app_assoc in S. apply IHe in S. destruct S as (Se & Nse & S).
    cbn [app prog_sem cmd_sem nxt] in S. destruct S as (Si & Su & S). tauto.
Qed.

(* a step only depends on the denotations *)
Lemma StepSem_den th f x r f' x' r' :
  den th f' = den th f -> den th x' = den th x -> den th r' = den th r ->
  StepSem H th f x r -> StepSem H th f' x' r'.
Proof. unfold StepSem. intros -> -> ->. auto. Qed.

(* after the fix traversal every node keeps its denotation, so the tree of
   re-fixed values is well-typed as well *)
Lemma fixed_sem th vals nd : forall m rest,
  prog_sem th vals (fixc nd ++ rest) m -> nsem th vals nd ->
  nsem th vals (fst (fixed nd m)) /\
  den th (val vals (nval (fst (fixed nd m)))) = den th (val vals (nval nd)) /\
  prog_sem th vals rest (snd (fixed nd m)).
Proof.
  induction nd as [v|v|v f IHf x IHx]; intros m rest S Ns; cbn [fixc fixed nsem] in *.
  - cbn in *. auto.
  - cbn in *. tauto.
  - destruct Ns as (Nf & Nx & St). rewrite <- !app_assoc in S.
    specialize (IHf m). destruct (fixed f m) as [f' m1]. cbn [fst snd] in *.
    apply IHf in S; [|exact Nf]. destruct S as (Nf' & Df & S).
    specialize (IHx m1). destruct (fixed x m1) as [x' m2]. cbn [fst snd] in *.
    apply IHx in S; [|exact Nx]. destruct S as (Nx' & Dx & S).
    cbn [app prog_sem cmd_sem nxt] in S. destruct S as [Dv S]. cbn [nsem nval fst snd].
    split; [|split; [exact Dv|exact S]]. split; [exact Nf'|split; [exact Nx'|]].
    eapply StepSem_den; eauto.
Qed.

Lemma inputs_sem th vals inputs : forall n, prog_sem th vals (input_cmds inputs) n ->
  forall i t, nth_error inputs i = Some t -> is_inst th (src_schema t) (val vals (n + i)).
Proof.
  induction inputs as [|t0 r IH]; intros n Si i t Hn; [destruct i; discriminate|].
  cbn [input_cmds map prog_sem cmd_sem nxt] in Si. destruct Si as [S0 Sr].
  destruct i as [|i]; cbn [nth_error] in Hn.
  - inversion Hn; subst. rewrite Nat.add_0_r. exact S0.
  - replace (n + S i) with (S n + i) by lia. apply IH; auto.
Qed.

(* ---- C04 for the whole compiled program ---- *)
Theorem xexpr_sound inputs e fuel sc vals s :
  Forall (fun t => styg H (sbound t) t) inputs -> xok (length inputs) e ->
  run_cmds H fuel (xprog inputs e) 0 [] (empty_store sc) = (None, vals, s) ->
  forall th, sat H th s ->
  let k := length inputs in
  let '(cs, nd, n1) := xcompile e k in
  (* every input is an instance of its declared type *)
  (forall i t, nth_error inputs i = Some t -> is_inst th (src_schema t) (val vals i)) /\
  (* application nodes, operator leaves, sources and annotations of the tree as built *)
  xsem th vals e k /\ nsem th vals nd /\
  (* the tree after Expr.fix: same denotation at the root, well-typed at every node *)
  nsem th vals (fst (fixed nd n1)) /\
  den th (val vals (nval (fst (fixed nd n1)))) = den th (val vals (nval nd)).
Proof.
  intros Fi K R th S. cbv zeta.
  pose proof (xprog_ok inputs e Fi K) as P.
  destruct (run_cmds_goodQ fuel (xprog inputs e) 0 [] (empty_store sc) vals s (J_empty H sc)
              (Forall_nil _) P R) as (_ & _ & _ & _ & _ & Sem).
  specialize (Sem th S). unfold xprog in Sem.
  pose proof (xcompile_nxts e (length inputs)) as Ne.
  pose proof (xsem_of_prog th vals e (length inputs)) as Xs.
  destruct (xcompile e (length inputs)) as [[cs nd] n1]. cbn [fst snd length] in *.
  apply prog_sem_app in Sem. destruct Sem as [Si Sem].
  destruct (input_cmds_ok inputs Fi 0) as [_ Ni]. cbn in Ni. rewrite Ni in Sem.
  apply Xs in Sem. destruct Sem as (Se & Nse & Sf).
  rewrite <- (app_nil_r (fixc nd)) in Sf.
  destruct (fixed_sem th vals nd n1 [] Sf Nse) as (Nf & Df & _).
  split; [|tauto].
  intros i t Hn. apply (inputs_sem th vals inputs 0 Si i t Hn).
Qed.

End Full.

(* a closed wildcard-free type (an annotation `: T`, an input type) has one instance *)
Definition sty_ty (t : sty) : ty := ssubst (fun _ => TOp Top []) t.

Lemma ssubst_closed sigma sigma' : forall t, sbound t = 0 -> ssubst sigma t = ssubst sigma' t.
Proof.
  induction t as [i| |o args IH] using sty_ind'; intros B; cbn [ssubst sbound] in *.
  - discriminate.
  - reflexivity.
  - f_equal. induction IH as [|a r Ha Hr IHr]; [reflexivity|]. cbn [fold_right map] in *.
    f_equal; [apply Ha; lia|apply IHr; lia].
Qed.

Lemma closed_inst H th t v : sbound t = 0 -> nowild t = true ->
  is_inst H th (src_schema t) v -> den th v = sty_ty t.
Proof.
  intros B Nw (sigma & _ & Si). cbn [src_schema s_body] in Si.
  rewrite (sinst_nowild H sigma t _ Nw Si). apply ssubst_closed. exact B.
Qed.

(* the observation-list form of [prog_sound] *)
Theorem prog_sound_obs H (W : wf_hier H) fuel sc prog vals s : progQ H 0 prog ->
  run_cmds H fuel prog 0 [] (empty_store sc) = (None, vals, s) ->
  forall th, sat H th s ->
  (forall f x r, In (f, x, r) (steps_of prog 0) ->
     (exists a b, den th (val vals f) = TOp Function [a; b] /\
                  Sub H (den th (val vals x)) a /\ den th (val vals r) = b) \/
     (den th (val vals f) = TOp Top [] /\ den th (val vals r) = TOp Top [])) /\
  (forall k sch, In (k, sch) (insts_of prog 0) ->
     exists sigma, (forall i, wf_ty H (sigma i)) /\ sinst H sigma (s_body sch) (den th (val vals k))) /\
  (forall a b, In (a, b) (unifs_of prog) -> Sub H (den th (val vals a)) (den th (val vals b))) /\
  (forall a r, In (a, r) (fixes_of prog 0) -> den th (val vals r) = den th (val vals a)).
Proof.
  intros P R th S. destruct (prog_sound H W fuel sc prog vals s P R) as (_ & _ & Sem).
  exact (prog_sem_obs H th vals prog 0 (Sem th S)).
Qed.
